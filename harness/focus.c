/* Engine `focus` (C15): drives the focus / cursor-restore part of /repo/src/window.c through the public API,
 * on a terminal whose driver is owned by the harness and records what the window layer asks of it
 * (goto, CURSORVIS, CURSORSHAPE, CURSORBLINK).
 *
 * Operations (ids are small integers; the root window is 0):
 *   new L C                         terminal of L x C on the harness's recording driver, root window
 *   newmock L C                     the same on the library's own mock terminal (tickit_mockterm_new): the cursor is what the
 *                                   mock reports (tickit_term_getctl_int CURSORVIS / CURSORSHAPE / CURSORBLINK,
 *                                   tickit_mockterm_get_position); L= lists the mock's log (g<l>.<c> for a goto, the entry
 *                                   type number prefixed by `?` for anything else) -- control changes are not logged by it
 *   termsize L C                    the terminal is resized (tickit_term_set_size / tickit_mockterm_resize): the root window
 *                                   follows through its TICKIT_TERM_ON_RESIZE handler
 *   win ID PARENT T L N C FLAGS     tickit_window_new (FLAGS = TICKIT_WINDOW_* bit mask); ID must be the next free id
 *   close|show|hide|raise|raisefront|lower|lowerback|focus|unref|ref ID
 *   geom ID T L N C | repos ID T L | resize ID N C
 *   expose ID | exposer ID T L N C
 *   curpos ID L C | curvis ID V | curshape ID S | curblink ID V | notify ID V     (setctl_int with the raw value)
 *   flush
 *
 * Observation (one line, space separated tokens):
 *   ok E=<focus events> X=<root expose rects of this flush> L=<terminal calls> C=<vis>,<line>,<col>,<shape>,<blink> w0:... w1:...
 *   events  `I<target>><info.win>` / `O<target>><info.win>` joined by `,`      (`~` = none)
 *   calls   g<l>.<c>  v<n>  s<n>  b<n>  joined by `,`
 *   window  w<id>:<parent|~>:<visible><focused><notify><steal>:<t>,<l>,<n>,<c>:<cline>,<ccol>,<shape>,<cvis>,<blink>:<focused_child|~>:<children a.b.c|~>
 *
 * The focus chain (`focused_child`) and the cursor position have no public getter: they are read through a
 * mirror of the leading fields of `struct TickitWindow`; every mirrored field that does have a getter is
 * cross-checked against it on every dump (`PEEK-MISMATCH`), and the extractor plugin re-reads the field order
 * from the source on every run.
 *
 * Scope guards (identical in the model driver, so that shrinking cannot wander into C08's territory):
 * an operation naming an unknown or freed id, any operation except ref/unref on a window that is closed or has a
 * closed ancestor (`_get_root` aborts on those), `close` of the root, `unref` of a window that still has live
 * children (the parent's destroy would drop the harness's reference to them), answer `bad-op` and do nothing.
 */
#define HCOMMON_MAIN
#include "hcommon.h"
#include "tickit.h"
#include "tickit-termdrv.h"
#include "tickit-mockterm.h"

#define MAXWIN 64

/* mirror of the head of struct TickitWindow (src/window.c) */
struct PeekWindow {
  struct PeekWindow *parent, *first_child, *next, *focused_child;
  TickitPen *pen;
  TickitRect rect;
  struct {
    int line;
    int col;
    TickitCursorShape shape;
    unsigned int visible : 1;
    int blink : 2;
  } cursor;
  unsigned int is_root            : 1;
  unsigned int is_visible         : 1;
  unsigned int is_focused         : 1;
  unsigned int is_closed          : 1;
  unsigned int steal_input        : 1;
  unsigned int focus_child_notify : 1;
  int refcount;
};

/* ------------------------------------------------------------------ the harness-owned terminal driver */
typedef struct {
  TickitTermDriver super;
  int vis, line, col, shape, blink;
} Drv;

static Drv *drv;
static bool mock;             /* this history runs on the library's mock terminal */
static char calls[4096]; static size_t ncalls;
static void call_log(const char *fmt, ...) __attribute__((format(printf,1,2)));
static void call_log(const char *fmt, ...)
{
  va_list ap; va_start(ap, fmt);
  if(ncalls && ncalls < sizeof calls - 1) calls[ncalls++] = ',';
  int n = vsnprintf(calls + ncalls, sizeof calls - ncalls, fmt, ap);
  va_end(ap);
  if(n > 0) ncalls += (size_t)n < sizeof calls - ncalls ? (size_t)n : sizeof calls - ncalls - 1;
}

static void d_destroy(TickitTermDriver *ttd) { free(ttd); }
static bool d_print(TickitTermDriver *ttd, const char *str, size_t len) { Drv *d = (Drv*)ttd; d->col += (int)len; return true; }
static bool d_goto(TickitTermDriver *ttd, int line, int col)
{
  Drv *d = (Drv*)ttd;
  d->line = line; d->col = col;
  call_log("g%d.%d", line, col);
  return true;
}
static bool d_move(TickitTermDriver *ttd, int down, int right) { Drv *d = (Drv*)ttd; d->line += down; d->col += right; return true; }
static bool d_scroll(TickitTermDriver *ttd, const TickitRect *r, int down, int right) { return false; }
static bool d_erasech(TickitTermDriver *ttd, int count, TickitMaybeBool moveend)
{ Drv *d = (Drv*)ttd; if(moveend != TICKIT_NO) d->col += count; return true; }
static bool d_clear(TickitTermDriver *ttd) { return true; }
static bool d_chpen(TickitTermDriver *ttd, const TickitPen *delta, const TickitPen *final) { return true; }
static bool d_getctl(TickitTermDriver *ttd, TickitTermCtl ctl, int *value)
{
  Drv *d = (Drv*)ttd;
  switch(ctl) {
    case TICKIT_TERMCTL_CURSORVIS:   *value = d->vis; return true;
    case TICKIT_TERMCTL_CURSORBLINK: *value = d->blink; return true;
    case TICKIT_TERMCTL_CURSORSHAPE: *value = d->shape; return true;
    case TICKIT_TERMCTL_COLORS:      *value = 256; return true;
    default: return false;
  }
}
static bool d_setctl(TickitTermDriver *ttd, TickitTermCtl ctl, int value)
{
  Drv *d = (Drv*)ttd;
  switch(ctl) {
    case TICKIT_TERMCTL_CURSORVIS:   d->vis = value;   call_log("v%d", value); return true;
    case TICKIT_TERMCTL_CURSORBLINK: d->blink = value; call_log("b%d", value); return true;
    case TICKIT_TERMCTL_CURSORSHAPE: d->shape = value; call_log("s%d", value); return true;
    default: return false;
  }
}
static bool d_setctl_str(TickitTermDriver *ttd, TickitTermCtl ctl, const char *value) { return false; }

static TickitTermDriverVTable d_vtable = {
  .destroy = d_destroy, .print = d_print, .goto_abs = d_goto, .move_rel = d_move, .scrollrect = d_scroll,
  .erasech = d_erasech, .clear = d_clear, .chpen = d_chpen, .getctl_int = d_getctl, .setctl_int = d_setctl,
  .setctl_str = d_setctl_str,
};

/* ------------------------------------------------------------------ state of one history */
static TickitTerm *tt;
static TickitWindow *wins[MAXWIN];   /* NULL = never created or freed */
static int parent_of[MAXWIN];
static int refs[MAXWIN];
static bool closed[MAXWIN];
static int nwins;

static char events[4096]; static size_t nevents;
static char exposes[4096]; static size_t nexposes;

static int id_of(const void *w)
{
  if(!w) return -1;
  for(int i = 0; i < nwins; i++) if((const void*)wins[i] == w) return i;
  return -2;   /* a pointer to something that is not a live window */
}

static int on_focus(TickitWindow *win, TickitEventFlags flags, void *_info, void *user)
{
  if(!(flags & TICKIT_EV_FIRE)) return 0;
  TickitFocusEventInfo *info = _info;
  if(nevents && nevents < sizeof events - 1) events[nevents++] = ',';
  int n = snprintf(events + nevents, sizeof events - nevents, "%c%d>%d",
      info->type == TICKIT_FOCUSEV_IN ? 'I' : info->type == TICKIT_FOCUSEV_OUT ? 'O' : '?', id_of(win), id_of(info->win));
  if(n > 0) nevents += (size_t)n < sizeof events - nevents ? (size_t)n : sizeof events - nevents - 1;
  return 1;
}

static int on_root_expose(TickitWindow *win, TickitEventFlags flags, void *_info, void *user)
{
  if(!(flags & TICKIT_EV_FIRE)) return 0;
  TickitExposeEventInfo *info = _info;
  if(nexposes && nexposes < sizeof exposes - 1) exposes[nexposes++] = ';';
  int n = snprintf(exposes + nexposes, sizeof exposes - nexposes, "%d,%d,%d,%d",
      info->rect.top, info->rect.left, info->rect.lines, info->rect.cols);
  if(n > 0) nexposes += (size_t)n < sizeof exposes - nexposes ? (size_t)n : sizeof exposes - nexposes - 1;
  return 1;
}

static void teardown(void)
{
  for(int i = nwins - 1; i >= 0; i--)
    if(wins[i]) {
      while(refs[i] > 0) { refs[i]--; tickit_window_unref(wins[i]); }
      wins[i] = NULL;
    }
  nwins = 0;
  if(tt) tickit_term_unref(tt);
  tt = NULL; drv = NULL; mock = false;
}

static void engine_begin(void) { tt = NULL; drv = NULL; nwins = 0; mock = false; }
static void engine_end(void) { teardown(); }

static bool detached(int id)
{
  for(int i = id; i >= 0; i = parent_of[i])
    if(closed[i]) return true;
  return false;
}

static bool has_live_children(int id)
{
  for(int i = 0; i < nwins; i++)
    if(wins[i] && i != id && parent_of[i] == id) return true;
  return false;
}

static void dump(const char *status)
{
  if(mock) {
    /* what the mock terminal logged during this operation, then what it reports about its cursor */
    int n = tickit_mockterm_loglen(tt);
    for(int i = 0; i < n; i++) {
      TickitMockTermLogEntry *e = tickit_mockterm_peeklog(tt, i);
      if(e->type == LOG_GOTO) call_log("g%d.%d", e->val1, e->val2);
      else call_log("?%d", (int)e->type);
    }
    tickit_mockterm_clearlog(tt);
  }
  obs("%s E=%s X=%s L=%s", status, nevents ? events : "~", nexposes ? exposes : "~", ncalls ? calls : "~");
  if(mock) {
    int vis = -9, shape = -9, blink = -9, line = -9, col = -9;
    if(!tickit_term_getctl_int(tt, TICKIT_TERMCTL_CURSORVIS, &vis)) vis = -8;
    if(!tickit_term_getctl_int(tt, TICKIT_TERMCTL_CURSORSHAPE, &shape)) shape = -8;
    if(!tickit_term_getctl_int(tt, TICKIT_TERMCTL_CURSORBLINK, &blink)) blink = -8;
    tickit_mockterm_get_position(tt, &line, &col);
    obs(" C=%d,%d,%d,%d,%d", vis, line, col, shape, blink);
  }
  else
    obs(" C=%d,%d,%d,%d,%d", drv->vis, drv->line, drv->col, drv->shape, drv->blink);
  for(int i = 0; i < nwins; i++) {
    TickitWindow *w = wins[i];
    if(!w) continue;
    struct PeekWindow *p = (struct PeekWindow *)w;
    TickitRect g = tickit_window_get_geometry(w);
    int cvis = -9, cblink = -9, cshape = -9, notify = -9, steal = -9;
    tickit_window_getctl_int(w, TICKIT_WINCTL_CURSORVIS, &cvis);
    tickit_window_getctl_int(w, TICKIT_WINCTL_CURSORBLINK, &cblink);
    tickit_window_getctl_int(w, TICKIT_WINCTL_CURSORSHAPE, &cshape);
    tickit_window_getctl_int(w, TICKIT_WINCTL_FOCUS_CHILD_NOTIFY, &notify);
    tickit_window_getctl_int(w, TICKIT_WINCTL_STEAL_INPUT, &steal);
    TickitWindow *kids[MAXWIN];
    size_t nk = tickit_window_get_children(w, kids, MAXWIN);
    /* cross-check the mirror against every getter there is */
    if((void*)p->parent != (void*)tickit_window_parent(w) ||
       (void*)p->first_child != (void*)(nk ? kids[0] : NULL) ||
       memcmp(&p->rect, &g, sizeof g) ||
       (int)p->cursor.visible != cvis || p->cursor.blink != cblink || (int)p->cursor.shape != cshape ||
       (bool)p->is_visible != tickit_window_is_visible(w) || (bool)p->is_focused != tickit_window_is_focused(w) ||
       (int)p->focus_child_notify != notify || (int)p->steal_input != steal ||
       (bool)p->is_root != (i == 0) || (bool)p->is_closed != closed[i] || p->refcount != refs[i])
      obs(" PEEK-MISMATCH@%d", i);
    obs(" w%d:", i);
    int par = id_of(tickit_window_parent(w));
    if(par == -1) obs("~"); else obs("%d", par);
    obs(":%d%d%d%d:%d,%d,%d,%d:%d,%d,%d,%d,%d:", tickit_window_is_visible(w), tickit_window_is_focused(w), notify, steal,
        g.top, g.left, g.lines, g.cols, p->cursor.line, p->cursor.col, cshape, cvis, cblink);
    int fc = id_of(p->focused_child);
    if(fc == -1) obs("~"); else obs("%d", fc);
    obs(":");
    if(!nk) obs("~");
    for(size_t k = 0; k < nk; k++) obs("%s%d", k ? "." : "", id_of(kids[k]));
  }
}

static void engine_op(int argc, char **argv)
{
  const char *op = argv[0];
  nevents = 0; events[0] = 0;
  nexposes = 0; exposes[0] = 0;
  ncalls = 0; calls[0] = 0;

  if(strcmp(op, "new") == 0 || strcmp(op, "newmock") == 0) {
    teardown();
    if(argc != 3) { obs("bad-op"); return; }
    int lines = atoi(argv[1]), cols = atoi(argv[2]);
    if(lines < 1 || cols < 1 || lines > 200 || cols > 200) { obs("bad-op"); return; }
    if(strcmp(op, "newmock") == 0) {
      tt = tickit_mockterm_new(lines, cols);
      if(!tt) { obs("bad-op"); return; }
      mock = true;
    }
    else {
      drv = calloc(1, sizeof *drv);
      drv->super.vtable = &d_vtable;
      drv->vis = drv->line = drv->col = drv->shape = drv->blink = -1;
      tt = tickit_term_build(&(struct TickitTermBuilder){ .driver = &drv->super });
      if(!tt) { free(drv); drv = NULL; obs("bad-op"); return; }
      tickit_term_set_size(tt, lines, cols);
    }
    memset(wins, 0, sizeof wins); memset(closed, 0, sizeof closed);
    wins[0] = tickit_window_new_root(tt);
    parent_of[0] = -1; refs[0] = 1; nwins = 1;
    tickit_window_bind_event(wins[0], TICKIT_WINDOW_ON_FOCUS, 0, on_focus, NULL);
    tickit_window_bind_event(wins[0], TICKIT_WINDOW_ON_EXPOSE, 0, on_root_expose, NULL);
    dump("ok");
    return;
  }
  if(!tt) { obs("bad-op"); return; }

  if(strcmp(op, "flush") == 0 && argc == 1) {
    if(!wins[0]) { obs("bad-op"); return; }
    tickit_window_flush(wins[0]);
   
    dump("ok");
    return;
  }

  if(strcmp(op, "termsize") == 0) {
    if(argc != 3 || !wins[0]) { obs("bad-op"); return; }
    int lines = atoi(argv[1]), cols = atoi(argv[2]);
    if(lines < 1 || cols < 1 || lines > 200 || cols > 200) { obs("bad-op"); return; }
    if(mock) tickit_mockterm_resize(tt, lines, cols);
    else     tickit_term_set_size(tt, lines, cols);
    dump("ok");
    return;
  }

  if(argc < 2) { obs("bad-op"); return; }
  int id = atoi(argv[1]);

  if(strcmp(op, "win") == 0) {
    if(argc != 8) { obs("bad-op"); return; }
    int par = atoi(argv[2]);
    if(id != nwins || id >= MAXWIN || par < 0 || par >= nwins || !wins[par] || detached(par)) { obs("bad-op"); return; }
    TickitRect r = { .top = atoi(argv[3]), .left = atoi(argv[4]), .lines = atoi(argv[5]), .cols = atoi(argv[6]) };
    int flags = atoi(argv[7]);
    wins[id] = tickit_window_new(wins[par], r, flags);
    if(!wins[id]) { obs("bad-op"); return; }
    parent_of[id] = id_of(tickit_window_parent(wins[id]));
    refs[id] = 1; closed[id] = false;
    nwins++;
    tickit_window_bind_event(wins[id], TICKIT_WINDOW_ON_FOCUS, 0, on_focus, NULL);
    dump("ok");
    return;
  }

  if(id < 0 || id >= nwins || !wins[id]) { obs("bad-op"); return; }
  TickitWindow *w = wins[id];

  if(strcmp(op, "unref") == 0 && argc == 2) {
    if(refs[id] == 1 && has_live_children(id)) { obs("bad-op"); return; }
    refs[id]--;
    tickit_window_unref(w);
    if(refs[id] == 0) wins[id] = NULL;
    dump("ok");
    return;
  }
  if(strcmp(op, "ref") == 0 && argc == 2) {
    refs[id]++;
    tickit_window_ref(w);
    dump("ok");
    return;
  }

  if(detached(id)) { obs("bad-op"); return; }

  if(argc == 2) {
    if(strcmp(op, "close") == 0) {
      if(id == 0) { obs("bad-op"); return; }
      tickit_window_close(w); closed[id] = true;
    }
    else if(strcmp(op, "show") == 0) tickit_window_show(w);
    else if(strcmp(op, "hide") == 0) tickit_window_hide(w);
    else if(strcmp(op, "raise") == 0)      { tickit_window_raise(w); }
    else if(strcmp(op, "raisefront") == 0) { tickit_window_raise_to_front(w); }
    else if(strcmp(op, "lower") == 0)      { tickit_window_lower(w); }
    else if(strcmp(op, "lowerback") == 0)  { tickit_window_lower_to_back(w); }
    else if(strcmp(op, "focus") == 0) tickit_window_take_focus(w);
    else if(strcmp(op, "expose") == 0) tickit_window_expose(w, NULL);
    else { obs("bad-op"); return; }
    dump("ok");
    return;
  }
  if(argc == 3) {
    int v = atoi(argv[2]);
    if(strcmp(op, "curvis") == 0)        tickit_window_setctl_int(w, TICKIT_WINCTL_CURSORVIS, v);
    else if(strcmp(op, "curshape") == 0) tickit_window_setctl_int(w, TICKIT_WINCTL_CURSORSHAPE, v);
    else if(strcmp(op, "curblink") == 0) tickit_window_setctl_int(w, TICKIT_WINCTL_CURSORBLINK, v);
    else if(strcmp(op, "notify") == 0)   tickit_window_setctl_int(w, TICKIT_WINCTL_FOCUS_CHILD_NOTIFY, v);
    else { obs("bad-op"); return; }
    dump("ok");
    return;
  }
  if(argc == 4) {
    int a = atoi(argv[2]), b = atoi(argv[3]);
    if(strcmp(op, "curpos") == 0)      tickit_window_set_cursor_position(w, a, b);
    else if(strcmp(op, "repos") == 0)  tickit_window_reposition(w, a, b);
    else if(strcmp(op, "resize") == 0) tickit_window_resize(w, a, b);
    else { obs("bad-op"); return; }
    dump("ok");
    return;
  }
  if(argc == 6) {
    TickitRect r = { .top = atoi(argv[2]), .left = atoi(argv[3]), .lines = atoi(argv[4]), .cols = atoi(argv[5]) };
    if(strcmp(op, "geom") == 0)         tickit_window_set_geometry(w, r);
    else if(strcmp(op, "exposer") == 0) tickit_window_expose(w, &r);
    else { obs("bad-op"); return; }
    dump("ok");
    return;
  }
  obs("bad-op");
}
