/* Engine `rectset` (C05): drives /repo/src/rectset.c through its public API. */
#define HCOMMON_MAIN
#include "hcommon.h"
#include "tickit.h"

static TickitRectSet *trs;

static void engine_begin(void) { trs = NULL; }
static void engine_end(void) { if(trs) tickit_rectset_destroy(trs); trs = NULL; }

static void dump(void)
{
  size_t n = tickit_rectset_rects(trs);
  obs("%zu", n);
  TickitRect *rs = malloc((n + 1) * sizeof *rs);
  size_t got = tickit_rectset_get_rects(trs, rs, n);
  if(got != n) obs(" get_rects=%zu", got);
  for(size_t i = 0; i < n; i++) {
    TickitRect one;
    if(tickit_rectset_get_rect(trs, i, &one) != 1 || memcmp(&one, rs + i, sizeof one)) obs(" get_rect-mismatch@%zu", i);
    obs(" %d %d %d %d", rs[i].top, rs[i].left, rs[i].lines, rs[i].cols);
  }
  TickitRect none;
  if(tickit_rectset_get_rect(trs, n, &none) != 0) obs(" get_rect-past-end");
  free(rs);
}

static void engine_op(int argc, char **argv)
{
  const char *op = argv[0];
  if(strcmp(op, "new") == 0) {
    if(trs) tickit_rectset_destroy(trs);
    trs = tickit_rectset_new();
    dump();
    return;
  }
  if(!trs) { obs("bad-op"); return; }
  if(argc == 5) {
    TickitRect r;
    tickit_rect_init_sized(&r, atoi(argv[1]), atoi(argv[2]), atoi(argv[3]), atoi(argv[4]));
    const TickitRect r0 = r;
    if(strcmp(op, "add") == 0)             { tickit_rectset_add(trs, &r); dump(); }
    else if(strcmp(op, "sub") == 0)        { tickit_rectset_subtract(trs, &r); dump(); }
    else if(strcmp(op, "contains") == 0)   obs("%d", tickit_rectset_contains(trs, &r));
    else if(strcmp(op, "intersects") == 0) obs("%d", tickit_rectset_intersects(trs, &r));
    else obs("bad-op");
    if(memcmp(&r, &r0, sizeof r)) obs(" input-modified");
    return;
  }
  if(argc == 3 && strcmp(op, "xl") == 0) { tickit_rectset_translate(trs, atoi(argv[1]), atoi(argv[2])); dump(); return; }
  if(argc == 1 && strcmp(op, "clear") == 0) { tickit_rectset_clear(trs); dump(); return; }
  obs("bad-op");
}
