/* Engine `bindings` (C16): drives src/bindings.c through the public pen and terminal APIs only.
 *
 * Operations (one per line):
 *   new pen|term
 *   beh <h> <n> <ret> <action>...     behaviour of handler h at its n-th invocation (0-based)
 *        actions: b:<ev>:<flags>:<h>  bind handler h to event ev with TickitBindFlags flags (new slot)
 *                 u:<slot>            unbind the id recorded in <slot> (nothing if the slot does not exist yet)
 *                 us                  unbind the binding being run
 *                 e:<ev>              emit event ev again (re-entrancy)
 *                 d                   drop the last reference to the owner (destroy)
 *   bind <ev> <flags> <h>             -> " =<id>"
 *   unbind <slot>
 *   unbindid <id>
 *   emit <ev>                         pen: 1 = ON_CHANGE (attribute change)
 *                                     term: 1 = ON_RESIZE (set_size), 2 = ON_KEY (emit_key or input_push_bytes), 3 = ON_MOUSE (emit_mouse)
 *   destroy                           unref to zero
 *
 * Observation: the call log of the operation.
 *   +<h>.<n>.<slot>.<evflags>   handler h entered (its n-th invocation) for the binding of <slot>
 *   {<i> ... }                  its i-th action and everything that action caused
 *   =<id>                       identifier returned by a bind
 *   -<ret>                      handler returned
 *   !<what>                     the handler saw a wrong owner / info pointer (never printed by the model)
 * Handlers take no action when called with TICKIT_EV_DESTROY (the owner is being freed).
 */
#define HCOMMON_MAIN
#include "hcommon.h"
#include "tickit.h"

#define MAXH    16
#define MAXINV  12
#define MAXACT  8
#define MAXSLOT 512

enum { A_BIND, A_UNBIND, A_UNBINDSELF, A_EMIT, A_DESTROY };
struct action { int kind, a, b, c; };
struct beh { int defined, ret, nact; struct action act[MAXACT]; };
struct slot { int h, id, slot; };

static int owner_kind;  /* 0 none, 1 pen, 2 term */
static TickitPen  *pen;
static TickitTerm *tt;
static int dead;
static struct beh behs[MAXH][MAXINV];
static int invcount[MAXH];
static struct slot slots[MAXSLOT];
static int nslots;
static int emit_counter;
static int emit_depth;   /* emissions of the owner in progress */
static int dropped;      /* the handlers' reference has been dropped */
static int gone;         /* … and nothing else holds the owner any more (as far as a client can tell) */
static int term_lines, term_cols;

static void out_func(TickitTerm *t, const char *bytes, size_t len, void *user) { (void)t; (void)bytes; (void)len; (void)user; }

static int handler(void *owner, TickitEventFlags flags, void *info, void *data);

static void *the_owner(void) { return owner_kind == 1 ? (void *)pen : (void *)tt; }

static void do_bind(int ev, int flags, int h)
{
  if(nslots >= MAXSLOT || h < 0 || h >= MAXH) { obs(" full"); return; }
  struct slot *s = &slots[nslots];
  s->h = h; s->id = 0; s->slot = nslots;
  nslots++;
  int id;
  if(owner_kind == 1)
    id = tickit_pen_bind_event(pen, (TickitPenEvent)ev, (TickitBindFlags)flags, (TickitPenEventFn *)handler, s);
  else
    id = tickit_term_bind_event(tt, (TickitTermEvent)ev, (TickitBindFlags)flags, (TickitTermEventFn *)handler, s);
  s->id = id;
  obs(" =%d", id);
}

static void do_unbind_id(int id)
{
  if(owner_kind == 1) tickit_pen_unbind_event_id(pen, id);
  else                tickit_term_unbind_event_id(tt, id);
}

static void do_unbind_slot(int slot)
{
  if(slot < 0 || slot >= nslots) return;
  do_unbind_id(slots[slot].id);
}

static void do_emit_inner(int ev);

static void do_emit(int ev)
{
  emit_depth++;
  do_emit_inner(ev);
  emit_depth--;
  /* an emitter that holds a reference releases the owner when the outermost emission has ended */
  if(!emit_depth && dropped) gone = 1;
}

static void do_emit_inner(int ev)
{
  emit_counter++;
  if(owner_kind == 1) {
    if(ev != 1) return;
    /* two different routes to run_events(pen, TICKIT_PEN_ON_CHANGE) */
    if(emit_counter & 1) tickit_pen_set_colour_attr(pen, TICKIT_PEN_FG, emit_counter % 8);
    else                 tickit_pen_set_bool_attr(pen, TICKIT_PEN_BOLD, (emit_counter >> 1) & 1);
  }
  else {
    if(ev == 1) {
      term_lines = 20 + (term_lines - 20 + 1) % 50;
      tickit_term_set_size(tt, term_lines, term_cols);
    }
    else if(ev == 2) {
      /* two routes to run_events_whilefalse(tt, TICKIT_TERM_ON_KEY): the emit API and the input path (got_key) */
      if(emit_counter % 3 == 0)
        tickit_term_input_push_bytes(tt, "a", 1);
      else {
        TickitKeyEventInfo info = { .type = TICKIT_KEYEV_TEXT, .mod = 0, .str = "a" };
        tickit_term_emit_key(tt, &info);
      }
    }
    else if(ev == 3) {
      TickitMouseEventInfo info = { .type = TICKIT_MOUSEEV_PRESS, .button = 1, .mod = 0, .line = 2, .col = 3 };
      tickit_term_emit_mouse(tt, &info);
    }
  }
}

static void do_destroy(void)
{
  if(dropped) return;   /* the handlers own one reference and drop it once */
  dropped = 1;
  dead = 1;
  if(!emit_depth) gone = 1;
  if(owner_kind == 1) tickit_pen_unref(pen);
  else                tickit_term_unref(tt);
}

static int handler(void *owner, TickitEventFlags flags, void *info, void *data)
{
  struct slot *s = data;
  int h = s->h;
  int n = invcount[h]++;
  obs(" +%d.%d.%d.%d", h, n, s->slot, (int)flags);
  if(owner != the_owner()) obs(" !owner");
  if(flags & TICKIT_EV_FIRE) {
    if(owner_kind == 1 ? info != NULL : info == NULL) obs(" !info");
  }
  else if(info != NULL) obs(" !info");

  int ret = 0;
  if(n < MAXINV && behs[h][n].defined) {
    struct beh *b = &behs[h][n];
    ret = b->ret;
    if(!(flags & TICKIT_EV_DESTROY))
      for(int i = 0; i < b->nact; i++) {
        struct action *a = &b->act[i];
        if(gone) break;   /* the interpreter does not touch an owner that is gone */
        obs(" {%d", i);
        switch(a->kind) {
          case A_BIND:       do_bind(a->a, a->b, a->c); break;
          case A_UNBIND:     do_unbind_slot(a->a); break;
          case A_UNBINDSELF: do_unbind_slot(s->slot); break;
          case A_EMIT:       do_emit(a->a); break;
          case A_DESTROY:    do_destroy(); break;
        }
        obs(" }");
      }
  }
  obs(" -%d", ret);
  return ret;
}

static void engine_begin(void)
{
  owner_kind = 0; pen = NULL; tt = NULL; dead = 0; nslots = 0; emit_counter = 0; emit_depth = 0; dropped = 0; gone = 0;
  memset(behs, 0, sizeof behs);
  memset(invcount, 0, sizeof invcount);
}

static void engine_end(void)
{
  /* release the owner so that LeakSanitizer sees what the library forgot; the log of this is not an observation */
  if(owner_kind && !dead) { do_destroy(); h_olen = 0; }
}

static int parse_action(const char *t, struct action *a)
{
  memset(a, 0, sizeof *a);
  if(strcmp(t, "us") == 0) { a->kind = A_UNBINDSELF; return 1; }
  if(strcmp(t, "d") == 0)  { a->kind = A_DESTROY; return 1; }
  if(sscanf(t, "b:%d:%d:%d", &a->a, &a->b, &a->c) == 3) { a->kind = A_BIND; return 1; }
  if(sscanf(t, "u:%d", &a->a) == 1) { a->kind = A_UNBIND; return 1; }
  if(sscanf(t, "e:%d", &a->a) == 1) { a->kind = A_EMIT; return 1; }
  return 0;
}

static void engine_op(int argc, char **argv)
{
  const char *op = argc ? argv[0] : "";
  if(strcmp(op, "new") == 0 && argc == 2) {
    if(strcmp(argv[1], "pen") == 0) {
      owner_kind = 1;
      pen = tickit_pen_new();
    }
    else {
      owner_kind = 2;
      tt = tickit_term_build(&(struct TickitTermBuilder){ .termtype = "xterm", .output_func = out_func });
      if(!tt) { owner_kind = 0; obs("no-term"); return; }
      tickit_term_get_size(tt, &term_lines, &term_cols);
    }
    obs("ok");
    return;
  }
  if(!owner_kind) { obs("bad-op"); return; }
  if(strcmp(op, "beh") == 0 && argc >= 4) {
    int h = atoi(argv[1]), n = atoi(argv[2]);
    if(h < 0 || h >= MAXH || n < 0 || n >= MAXINV || argc - 4 > MAXACT) { obs("bad-op"); return; }
    struct beh *b = &behs[h][n];
    b->defined = 1; b->ret = atoi(argv[3]); b->nact = 0;
    for(int i = 4; i < argc; i++)
      if(!parse_action(argv[i], &b->act[b->nact++])) { b->defined = 0; obs("bad-op"); return; }
    obs("ok");
    return;
  }
  if(dead) { obs("dead"); return; }
  obs("log");
  if(strcmp(op, "bind") == 0 && argc == 4)        do_bind(atoi(argv[1]), atoi(argv[2]), atoi(argv[3]));
  else if(strcmp(op, "unbind") == 0 && argc == 2)   do_unbind_slot(atoi(argv[1]));
  else if(strcmp(op, "unbindid") == 0 && argc == 2) do_unbind_id(atoi(argv[1]));
  else if(strcmp(op, "emit") == 0 && argc == 2)     do_emit(atoi(argv[1]));
  else if(strcmp(op, "destroy") == 0 && argc == 1)  do_destroy();
  else { h_olen = 0; obs("bad-op"); }
}
