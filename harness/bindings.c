/* Engine `bindings` (C16): drives src/bindings.c through the public pen and terminal APIs only.
 *
 * Operations (one per line):
 *   new pen|term|twin|win             twin: a terminal on which root windows come and go (window.c is a client of the terminal's
 *                                           bindings: it binds three handlers and unbinds them by the identifiers it kept);
 *                                           handlers are bound on the terminal.
 *                                     win:  a terminal with a root window; handlers are bound on the ROOT WINDOW
 *                                           (tickit_window_bind_event), events reach it through the terminal and window.c
 *   beh <h> <n> <ret> <action>...     behaviour of handler h at its n-th invocation (0-based)
 *        actions: b:<ev>:<flags>:<h>  bind handler h to event ev with TickitBindFlags flags (new slot)
 *                 u:<slot>            unbind the id recorded in <slot> (nothing if the slot does not exist yet)
 *                 us                  unbind the binding being run
 *                 e:<ev>              emit event ev again (re-entrancy)
 *                 d                   drop the last reference to the owner (destroy)
 *   bind <ev> <flags> <h>             -> " =<id>"
 *   unbind <slot>
 *   unbindid <id>
 *   emit <ev>                         pen: 1 = ON_CHANGE (attribute change)
 *                                     term: 1 = ON_RESIZE (set_size), 2 = ON_KEY (emit_key or input_push_bytes), 3 = ON_MOUSE (emit_mouse)
 *                                     win: 1 = ON_GEOMCHANGE (set_geometry), 2 = ON_EXPOSE (expose + flush), 3 = ON_FOCUS (take_focus),
 *                                          4 = ON_KEY (tickit_term_emit_key / input_push_bytes on the terminal -> on_term_key -> _handle_key),
 *                                          5 = ON_MOUSE (tickit_term_emit_mouse -> on_term_mouse -> _handle_mouse)
 *   destroy                           unref to zero (twin: the root window is released first; win: the root window, then the terminal)
 *   rootclose                         (win) tickit_window_close of the owner: a closed window keeps its bindings until it is destroyed
 *   rootnew | rootref | rootunref | rootclose    (twin) tickit_window_new_root(tt) [takes three slots the harness knows no identifier of],
 *                                     tickit_window_ref / _unref / _close of that root window; no handler of the user may be called by these
 *   pen <code>                        (pen owner) an operation on the pen that may emit ON_CHANGE, also as action p:<code>:
 *        b0 | b1      tickit_pen_set_bool_attr(pen, BOLD, v)                (changed(): deferred inside a frozen region)
 *        c<n>         tickit_pen_set_colour_attr(pen, FG, n)                 (emits at once)
 *        k<t><ow>     tickit_pen_copy(pen, template t, overwrite ow)          (freeze … thaw)
 *        a<t>         tickit_pen_copy_attr(pen, template t, FG)              (freeze, set index [emits], RGB8, thaw)
 *        d<n> | D<n>  tickit_pen_set_colour_attr_desc(pen, FG, "n" | "n#112233")
 *        h<n>         …_desc(pen, FG, "hi-n")   (rejected without effect for n > 7)
 *        n<i>         …_desc(pen, FG, name)     i: 0 "red", 1 "hi-red", 2 "grey", 3 "hi-grey", 4 an unknown name (rejected), 5 "blue#112233"
 *      templates: 0 {bold=1}  1 {bold=0}  2 {fg=3 #102030}  3 {bold=1, fg=2}  4 {fg=3}
 *
 * Observation: the call log of the operation.
 *   +<h>.<n>.<slot>.<evflags>   handler h entered (its n-th invocation) for the binding of <slot>
 *   {<i> ... }                  its i-th action and everything that action caused
 *   =<id>                       identifier returned by a bind
 *   -<ret>                      handler returned
 *   !<what>                     the handler saw a wrong owner / info pointer (never printed by the model)
 * Handlers take no action when called with TICKIT_EV_DESTROY (the owner is being freed).
 */
#define HCOMMON_MAIN
#include "hcommon.h"
#include "tickit.h"

#define MAXH    16
#define MAXINV  12
#define MAXACT  8
#define MAXSLOT 512

enum { A_BIND, A_UNBIND, A_UNBINDSELF, A_EMIT, A_DESTROY, A_PEN };
#define NTMPL 5
#define MAXDEPTH 64
struct action { int kind, a, b, c; char code[8]; };
struct beh { int defined, ret, nact; struct action act[MAXACT]; };
struct slot { int h, id, slot; };

static int owner_kind;  /* 0 none, 1 pen, 2 term, 3 twin (term with root windows coming and going), 4 win (root window) */
static TickitWindow *root;   /* twin: the current root window (if any); win: the owner */
static int root_refs;
static int geom_counter;
static TickitPen  *pen;
static TickitTerm *tt;
static int dead;
static struct beh behs[MAXH][MAXINV];
static int invcount[MAXH];
static struct slot slots[MAXSLOT];
static int nslots;
static int emit_counter;
static int emit_depth;   /* emissions of the owner in progress */
static int dropped;      /* the handlers' reference has been dropped */
static int gone;
static int handler_depth;       /* guard of the interpreter against runaway recursion */
static TickitPen *tmpl[NTMPL];         /* … and nothing else holds the owner any more (as far as a client can tell) */
static int term_lines, term_cols;

static void out_func(TickitTerm *t, const char *bytes, size_t len, void *user) { (void)t; (void)bytes; (void)len; (void)user; }

static int handler(void *owner, TickitEventFlags flags, void *info, void *data);

static void *the_owner(void) { return owner_kind == 1 ? (void *)pen : owner_kind == 4 ? (void *)root : (void *)tt; }

static void do_bind(int ev, int flags, int h)
{
  if(nslots >= MAXSLOT || h < 0 || h >= MAXH) { obs(" full"); return; }
  struct slot *s = &slots[nslots];
  s->h = h; s->id = 0; s->slot = nslots;
  nslots++;
  int id;
  if(owner_kind == 1)
    id = tickit_pen_bind_event(pen, (TickitPenEvent)ev, (TickitBindFlags)flags, (TickitPenEventFn *)handler, s);
  else if(owner_kind == 4)
    id = tickit_window_bind_event(root, (TickitWindowEvent)ev, (TickitBindFlags)flags, (TickitWindowEventFn *)handler, s);
  else
    id = tickit_term_bind_event(tt, (TickitTermEvent)ev, (TickitBindFlags)flags, (TickitTermEventFn *)handler, s);
  s->id = id;
  obs(" =%d", id);
}

static void do_unbind_id(int id)
{
  if(owner_kind == 1)      tickit_pen_unbind_event_id(pen, id);
  else if(owner_kind == 4) tickit_window_unbind_event_id(root, id);
  else                     tickit_term_unbind_event_id(tt, id);
}

static void do_unbind_slot(int slot)
{
  if(slot < 0 || slot >= nslots) return;
  do_unbind_id(slots[slot].id);
}

static void do_emit_inner(int ev);

static void do_emit(int ev)
{
  emit_depth++;
  do_emit_inner(ev);
  emit_depth--;
  /* an emitter that holds a reference releases the owner when the outermost emission has ended */
  if(!emit_depth && dropped) gone = 1;
}

/* a pen operation that may emit ON_CHANGE (see the list at the top) */
static void do_pen(const char *code)
{
  if(owner_kind != 1) return;
  emit_depth++;
  int n = atoi(code + 1);
  switch(code[0]) {
    case 'b': tickit_pen_set_bool_attr(pen, TICKIT_PEN_BOLD, n != 0); break;
    case 'c': tickit_pen_set_colour_attr(pen, TICKIT_PEN_FG, n); break;
    case 'k': { int t = code[1] - '0'; if(t >= 0 && t < NTMPL) tickit_pen_copy(pen, tmpl[t], code[2] == '1'); break; }
    case 'a': { int t = code[1] - '0'; if(t >= 0 && t < NTMPL) tickit_pen_copy_attr(pen, tmpl[t], TICKIT_PEN_FG); break; }
    case 'd': { char d[16]; snprintf(d, sizeof d, "%d", n); tickit_pen_set_colour_attr_desc(pen, TICKIT_PEN_FG, d); break; }
    case 'D': { char d[24]; snprintf(d, sizeof d, "%d#112233", n); tickit_pen_set_colour_attr_desc(pen, TICKIT_PEN_FG, d); break; }
    case 'h': { char d[24]; snprintf(d, sizeof d, "hi-%d", n); tickit_pen_set_colour_attr_desc(pen, TICKIT_PEN_FG, d); break; }
    case 'n': {
      static const char *const names[] = { "red", "hi-red", "grey", "hi-grey", "nosuchcolour", "blue#112233" };
      if(n >= 0 && n < 6) tickit_pen_set_colour_attr_desc(pen, TICKIT_PEN_FG, names[n]);
      break;
    }
  }
  emit_depth--;
  if(!emit_depth && dropped) gone = 1;
}

static void do_emit_inner(int ev)
{
  emit_counter++;
  if(owner_kind == 1) {
    if(ev != 1) return;
    tickit_pen_set_colour_attr(pen, TICKIT_PEN_FG, 7);   /* emits at once, frozen or not */
  }
  else if(owner_kind == 4) {
    if(ev == 1) {
      /* always a geometry different from the current one, inside the terminal */
      geom_counter++;
      tickit_window_set_geometry(root, (TickitRect){ .top = 0, .left = 0, .lines = 10 + geom_counter % 5, .cols = 30 + geom_counter % 3 });
    }
    else if(ev == 2) {
      tickit_window_expose(root, NULL);
      tickit_window_flush(root);
    }
    else if(ev == 3)
      tickit_window_take_focus(root);
    else if(ev == 4) {
      if(emit_counter % 3 == 0)
        tickit_term_input_push_bytes(tt, "a", 1);
      else {
        TickitKeyEventInfo info = { .type = TICKIT_KEYEV_TEXT, .mod = 0, .str = "a" };
        tickit_term_emit_key(tt, &info);
      }
    }
    else if(ev == 5) {
      TickitMouseEventInfo info = { .type = TICKIT_MOUSEEV_PRESS, .button = 1, .mod = 0, .line = 2, .col = 3 };
      tickit_term_emit_mouse(tt, &info);
    }
  }
  else {
    if(ev == 1) {
      term_lines = 20 + (term_lines - 20 + 1) % 50;
      tickit_term_set_size(tt, term_lines, term_cols);
    }
    else if(ev == 2) {
      /* two routes to run_events_whilefalse(tt, TICKIT_TERM_ON_KEY): the emit API and the input path (got_key) */
      if(emit_counter % 3 == 0)
        tickit_term_input_push_bytes(tt, "a", 1);
      else {
        TickitKeyEventInfo info = { .type = TICKIT_KEYEV_TEXT, .mod = 0, .str = "a" };
        tickit_term_emit_key(tt, &info);
      }
    }
    else if(ev == 3) {
      TickitMouseEventInfo info = { .type = TICKIT_MOUSEEV_PRESS, .button = 1, .mod = 0, .line = 2, .col = 3 };
      tickit_term_emit_mouse(tt, &info);
    }
  }
}

static void do_destroy(void)
{
  if(dropped) return;   /* the handlers own one reference and drop it once */
  dropped = 1;
  dead = 1;
  if(!emit_depth) gone = 1;
  if(owner_kind == 1) tickit_pen_unref(pen);
  else if(owner_kind == 4) {
    /* the root window goes (its own bindings are notified), taking its three terminal bindings with it; then the terminal */
    tickit_window_unref(root); root = NULL;
    tickit_term_unref(tt);
  }
  else {
    /* twin: whatever root window is left is released first */
    while(root_refs > 0) { tickit_window_unref(root); root_refs--; }
    root = NULL;
    tickit_term_unref(tt);
  }
}

/* twin: a root window on the terminal comes, is referenced, closed, released */
static void do_root(const char *op)
{
  if(strcmp(op, "rootnew") == 0) {
    if(root || nslots + 3 > MAXSLOT) return;
    root = tickit_window_new_root(tt);
    if(!root) { obs(" !root"); return; }
    root_refs = 1;
    /* window.c bound three handlers on the terminal: three slots whose identifier the harness does not know */
    for(int i = 0; i < 3; i++) {
      struct slot *s = &slots[nslots];
      s->h = -1; s->id = 0; s->slot = nslots;
      nslots++;
    }
  }
  else if(!root) return;
  else if(strcmp(op, "rootref") == 0)   { tickit_window_ref(root); root_refs++; }
  else if(strcmp(op, "rootclose") == 0) tickit_window_close(root);
  else if(strcmp(op, "rootunref") == 0) {
    tickit_window_unref(root);
    if(--root_refs == 0) root = NULL;
  }
}

static int handler(void *owner, TickitEventFlags flags, void *info, void *data)
{
  struct slot *s = data;
  int h = s->h;
  int n = invcount[h]++;
  obs(" +%d.%d.%d.%d", h, n, s->slot, (int)flags);
  if(owner != the_owner()) obs(" !owner");
  if(flags & TICKIT_EV_FIRE) {
    if(owner_kind == 1 ? info != NULL : info == NULL) obs(" !info");
  }
  else if(info != NULL) obs(" !info");

  int ret = 0;
  handler_depth++;
  if(n < MAXINV && behs[h][n].defined && handler_depth <= MAXDEPTH) {
    struct beh *b = &behs[h][n];
    ret = b->ret;
    if(!(flags & TICKIT_EV_DESTROY))
      for(int i = 0; i < b->nact; i++) {
        struct action *a = &b->act[i];
        if(gone) break;   /* the interpreter does not touch an owner that is gone */
        obs(" {%d", i);
        switch(a->kind) {
          case A_BIND:       do_bind(a->a, a->b, a->c); break;
          case A_UNBIND:     do_unbind_slot(a->a); break;
          case A_UNBINDSELF: do_unbind_slot(s->slot); break;
          case A_EMIT:       do_emit(a->a); break;
          case A_DESTROY:    do_destroy(); break;
          case A_PEN:        do_pen(a->code); break;
        }
        obs(" }");
      }
  }
  handler_depth--;
  obs(" -%d", ret);
  return ret;
}

static void engine_begin(void)
{
  owner_kind = 0; pen = NULL; tt = NULL; root = NULL; root_refs = 0; geom_counter = 0; dead = 0; nslots = 0; emit_counter = 0; emit_depth = 0; dropped = 0; gone = 0;
  handler_depth = 0;
  memset(behs, 0, sizeof behs);
  memset(invcount, 0, sizeof invcount);
}

static void engine_end(void)
{
  /* release the owner so that LeakSanitizer sees what the library forgot; the log of this is not an observation */
  if(owner_kind && !dead) { do_destroy(); h_olen = 0; }
}

static int parse_action(const char *t, struct action *a)
{
  memset(a, 0, sizeof *a);
  if(strcmp(t, "us") == 0) { a->kind = A_UNBINDSELF; return 1; }
  if(strcmp(t, "d") == 0)  { a->kind = A_DESTROY; return 1; }
  if(sscanf(t, "b:%d:%d:%d", &a->a, &a->b, &a->c) == 3) { a->kind = A_BIND; return 1; }
  if(strncmp(t, "p:", 2) == 0 && strlen(t) < 2 + sizeof a->code) { a->kind = A_PEN; strcpy(a->code, t + 2); return 1; }
  if(sscanf(t, "u:%d", &a->a) == 1) { a->kind = A_UNBIND; return 1; }
  if(sscanf(t, "e:%d", &a->a) == 1) { a->kind = A_EMIT; return 1; }
  return 0;
}

static void engine_op(int argc, char **argv)
{
  const char *op = argc ? argv[0] : "";
  if(strcmp(op, "new") == 0 && argc == 2) {
    if(strcmp(argv[1], "pen") == 0) {
      owner_kind = 1;
      pen = tickit_pen_new();
      if(!tmpl[0]) {
        tmpl[0] = tickit_pen_new_attrs(TICKIT_PEN_BOLD, 1, 0);
        tmpl[1] = tickit_pen_new_attrs(TICKIT_PEN_BOLD, 0, 0);
        tmpl[2] = tickit_pen_new_attrs(TICKIT_PEN_FG, 3, 0);
        tickit_pen_set_colour_attr_rgb8(tmpl[2], TICKIT_PEN_FG, (TickitPenRGB8){ 0x10, 0x20, 0x30 });
        tmpl[3] = tickit_pen_new_attrs(TICKIT_PEN_BOLD, 1, TICKIT_PEN_FG, 2, 0);
        tmpl[4] = tickit_pen_new_attrs(TICKIT_PEN_FG, 3, 0);
      }
    }
    else {
      owner_kind = strcmp(argv[1], "twin") == 0 ? 3 : strcmp(argv[1], "win") == 0 ? 4 : 2;
      tt = tickit_term_build(&(struct TickitTermBuilder){ .termtype = "xterm", .output_func = out_func });
      if(!tt) { owner_kind = 0; obs("no-term"); return; }
      tickit_term_get_size(tt, &term_lines, &term_cols);
      if(owner_kind == 4) {
        root = tickit_window_new_root(tt);
        if(!root) { owner_kind = 0; obs("no-root"); return; }
        tickit_window_flush(root);   /* the initial whole-window damage is dealt with before anything is bound */
      }
    }
    obs("ok");
    return;
  }
  if(!owner_kind) { obs("bad-op"); return; }
  if(strcmp(op, "beh") == 0 && argc >= 4) {
    int h = atoi(argv[1]), n = atoi(argv[2]);
    if(h < 0 || h >= MAXH || n < 0 || n >= MAXINV || argc - 4 > MAXACT) { obs("bad-op"); return; }
    struct beh *b = &behs[h][n];
    b->defined = 1; b->ret = atoi(argv[3]); b->nact = 0;
    for(int i = 4; i < argc; i++)
      if(!parse_action(argv[i], &b->act[b->nact++]) ||
         /* with a root window about, the terminal's (the window's) life does not end with the handlers' reference: not driven */
         (owner_kind >= 3 && b->act[b->nact - 1].kind == A_DESTROY)) { b->defined = 0; obs("bad-op"); return; }
    obs("ok");
    return;
  }
  if(dead) { obs("dead"); return; }
  obs("log");
  if(strcmp(op, "bind") == 0 && argc == 4)        do_bind(atoi(argv[1]), atoi(argv[2]), atoi(argv[3]));
  else if(strcmp(op, "unbind") == 0 && argc == 2)   do_unbind_slot(atoi(argv[1]));
  else if(strcmp(op, "unbindid") == 0 && argc == 2) do_unbind_id(atoi(argv[1]));
  else if(strcmp(op, "emit") == 0 && argc == 2)     do_emit(atoi(argv[1]));
  else if(strcmp(op, "destroy") == 0 && argc == 1)  do_destroy();
  else if(strcmp(op, "pen") == 0 && argc == 2)      do_pen(argv[1]);
  else if(owner_kind == 3 && argc == 1 && strncmp(op, "root", 4) == 0) do_root(op);
  else if(owner_kind == 4 && argc == 1 && strcmp(op, "rootclose") == 0) tickit_window_close(root);   /* the owner window is closed (its bindings stay) */
  else { h_olen = 0; obs("bad-op"); }
}
