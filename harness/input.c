/* Engine `input` (C14): drives key and mouse routing of /repo/src/window.c through the public API.
 *
 * Operations (one per line):
 *   new L C                     terminal L x C (headless xterm), root window = id 0
 *   win P t l n c F             new window (next id) under P; F = bit mask HIDDEN=1 LOWEST=2 ROOT_PARENT=4 STEAL=8
 *   bind W k|m|ko|mo E...       bind a key / mouse handler on W (ko / mo: with TICKIT_BIND_ONESHOT).
 *                               E = <ret>[,!][,<a><id>]*  is the behaviour of one invocation: (`!`: first unbind this very
 *                               binding with tickit_window_unbind_event_id, from inside its own invocation), run the
 *                               actions, return ret (1 = claim).  Invocation i uses entry min(i, n-1).
 *   act <a><id>                 the same action performed outside any handler
 *   geom W t l n c              tickit_window_set_geometry
 *   flush                       tickit_window_flush(root)
 *   key T M                     tickit_term_emit_key   (type, modifiers)
 *   mouse T B L C M             tickit_term_emit_mouse (type, button, line, col, modifiers)
 *   x10 CODE L C                one mouse report in the X10 encoding, as BYTES: ESC [ M <32+CODE> <32+C+1> <32+L+1> through
 *                               tickit_term_input_push_bytes (libtermkey decodes it, got_key() of src/term.c translates it
 *                               and keeps the held-button record that names the button of a button-less X10 release);
 *                               CODE = button code 0..2, 3 = release, +32 motion, 64/65 wheel, +4 shift +8 alt +16 ctrl
 * Actions: c close, u unref, k ref (keep), h hide, s show, r raise, R raise_to_front, l lower, L lower_to_back,
 *          f take_focus, t steal-input on, T steal-input off,
 *          g<id>@dt@dl@dn@dc  tickit_window_set_geometry(current rect + (dt, dl, dn, dc)): the window moves / resizes itself or
 *          another window from inside the dispatch.
 * The harness is the application: it owns one reference per window it created (plus one per `k`), and it follows
 * these rules, which the model's interpreter mirrors exactly (a refused action is logged as x<a><id>):
 *   - every action needs a live target;
 *   - u: needs an owned reference, a target other than the root, and no children (tear down leaf-first: a parent's
 *        destruction drops one reference of every child, which is the life engine's business, C08);
 *   - r R l L f: need a target attached to the root (the library abort()s on an orphaned subtree);
 *   - g: not the root window (its geometry is the terminal's: the root is resized by the terminal's resize event).
 * Observation: the event log of the operation, then `|`, then the dump of every live window through public queries.
 *   K<w>.<i>/<e><+|->:<type>,<mod>                 key handler i of window w ran entry e and claimed(+)/declined(-)
 *   M<w>.<i>/<e><+|->:<type>,<button>,<line>,<col>,<mod>
 *   D<w>  window destroyed (DESTROY event)      x<a><id>  action refused      T  event reached the terminal's own
 *   later binding, i.e. the window tree did not claim it
 *   dump: <id>:p<parent|->:v<visible>:f<focused>:s<steal>:<top>,<left>,<lines>,<cols>:c<child.child...|->
 */
#define HCOMMON_MAIN
#include "hcommon.h"
#include "tickit.h"

#define MAXW 48
#define MAXB 256
#define MAXE 8
#define MAXA 6

typedef struct { char a; int w; int d[4]; } Action;
typedef struct { int ret; int unbind; int nact; Action act[MAXA]; } Entry;
typedef struct { int win, idx, kind, n, count, id; Entry e[MAXE]; } Binding;

static TickitTerm *tt;
static TickitWindow *W[MAXW];
static int nW, alive[MAXW], owned[MAXW], nbind[MAXW][2];
static Binding *B[MAXB];
static int nB;
static int first_item;

static void item(const char *fmt, ...) __attribute__((format(printf,1,2)));
static void item(const char *fmt, ...)
{
  char tmp[256];
  va_list ap;
  va_start(ap, fmt);
  vsnprintf(tmp, sizeof tmp, fmt, ap);
  va_end(ap);
  obs("%s%s", first_item ? "" : " ", tmp);
  first_item = 0;
}

static void outf(TickitTerm *t, const char *bytes, size_t len, void *user) { (void)t; (void)bytes; (void)len; (void)user; }

static int id_of(TickitWindow *w)
{
  for(int i = 0; i < nW; i++)
    if(alive[i] && W[i] == w) return i;
  return -1;
}

static int attached(int id)
{
  TickitWindow *w = W[id];
  for(int guard = 0; guard < MAXW + 2; guard++) {
    if(w == W[0]) return 1;
    TickitWindow *p = tickit_window_parent(w);
    if(!p) return 0;
    w = p;
  }
  return 0;
}

static int on_destroy(TickitWindow *win, TickitEventFlags flags, void *info, void *user)
{
  (void)win; (void)info;
  int id = (int)(long)user;
  if(flags & TICKIT_EV_DESTROY) {
    alive[id] = 0;
    item("D%d", id);
  }
  return 0;
}

static void do_action(Action a)
{
  int id = a.w;
  int ok = id >= 0 && id < nW && alive[id];
  TickitWindow *w = ok ? W[id] : NULL;
  if(ok) switch(a.a) {
    case 'u':
      ok = owned[id] > 0 && id != 0 && tickit_window_children(w) == 0;
      break;
    case 'r': case 'R': case 'l': case 'L': case 'f':
      ok = attached(id);
      break;
    case 'g':
      ok = id != 0;
      break;
    default:
      break;
  }
  if(!ok) { item("x%c%d", a.a, id); return; }
  switch(a.a) {
    case 'c': tickit_window_close(w); break;
    case 'u': owned[id]--; tickit_window_unref(w); break;
    case 'k': owned[id]++; tickit_window_ref(w); break;
    case 'h': tickit_window_hide(w); break;
    case 's': tickit_window_show(w); break;
    case 'r': tickit_window_raise(w); break;
    case 'R': tickit_window_raise_to_front(w); break;
    case 'l': tickit_window_lower(w); break;
    case 'L': tickit_window_lower_to_back(w); break;
    case 'f': tickit_window_take_focus(w); break;
    case 't': tickit_window_set_steal_input(w, true); break;
    case 'T': tickit_window_set_steal_input(w, false); break;
    case 'g': {
      TickitRect r = tickit_window_get_geometry(w);
      r.top += a.d[0]; r.left += a.d[1]; r.lines += a.d[2]; r.cols += a.d[3];
      tickit_window_set_geometry(w, r);
      break;
    }
    default: item("bad-action"); break;
  }
}

static int on_event(TickitWindow *win, TickitEventFlags flags, void *_info, void *user)
{
  (void)win;
  Binding *b = user;
  if(!(flags & TICKIT_EV_FIRE)) return 0;
  int ei = b->count < b->n ? b->count : b->n - 1;
  b->count++;
  Entry *e = &b->e[ei];
  if(b->kind == 0) {
    TickitKeyEventInfo *info = _info;
    item("K%d.%d/%d%c:%d,%d", b->win, b->idx, ei, e->ret ? '+' : '-', (int)info->type, info->mod);
  }
  else {
    TickitMouseEventInfo *info = _info;
    item("M%d.%d/%d%c:%d,%d,%d,%d,%d", b->win, b->idx, ei, e->ret ? '+' : '-', (int)info->type, info->button, info->line, info->col, info->mod);
  }
  if(e->unbind)
    tickit_window_unbind_event_id(W[b->win], b->id);
  for(int i = 0; i < e->nact; i++)
    do_action(e->act[i]);
  return e->ret;
}

static int on_term_unhandled(TickitTerm *t, TickitEventFlags flags, void *info, void *user)
{
  (void)t; (void)info; (void)user;
  if(flags & TICKIT_EV_FIRE) item("T");
  return 0;
}

static void dump(void)
{
  obs("%s|", first_item ? "" : " ");
  for(int i = 0; i < nW; i++) {
    if(!alive[i]) continue;
    TickitWindow *w = W[i];
    TickitWindow *p = tickit_window_parent(w);
    TickitRect r = tickit_window_get_geometry(w);
    obs(" %d:p", i);
    if(p) obs("%d", id_of(p)); else obs("-");
    obs(":v%d:f%d:s%d:%d,%d,%d,%d:c", tickit_window_is_visible(w), tickit_window_is_focused(w), tickit_window_is_steal_input(w),
        r.top, r.left, r.lines, r.cols);
    size_t n = tickit_window_children(w);
    if(!n) obs("-");
    else {
      TickitWindow **cs = malloc(n * sizeof *cs);
      size_t got = tickit_window_get_children(w, cs, n);
      for(size_t k = 0; k < got; k++) obs("%s%d", k ? "." : "", id_of(cs[k]));
      free(cs);
    }
  }
}

static void teardown(void)
{
  if(!tt) return;
  first_item = 1;
  for(int i = nW - 1; i >= 0; i--) {
    if(!alive[i]) continue;
    while(alive[i] && owned[i] > 0) { owned[i]--; tickit_window_unref(W[i]); }
  }
  tickit_term_unref(tt);
  tt = NULL;
  for(int i = 0; i < nB; i++) free(B[i]);
  nB = 0; nW = 0;
  h_olen = 0;   /* nothing of the teardown belongs to an observation */
}

static void engine_begin(void) { tt = NULL; nW = 0; nB = 0; }
static void engine_end(void) { teardown(); }

static int parse_action(const char *s, Action *a)
{
  if(!s[0] || !strchr("cukhsrRlLftTg", s[0])) return 0;
  char *end;
  long v = strtol(s + 1, &end, 10);
  if(end == s + 1) return 0;
  a->a = s[0]; a->w = (int)v;
  memset(a->d, 0, sizeof a->d);
  if(s[0] == 'g') {
    /* g<id>@<dtop>@<dleft>@<dlines>@<dcols> */
    for(int i = 0; i < 4; i++) {
      if(*end != '@') return 0;
      const char *q = end + 1;
      long d = strtol(q, &end, 10);
      if(end == q) return 0;
      a->d[i] = (int)d;
    }
  }
  if(*end) return 0;
  return 1;
}

static int parse_entry(char *s, Entry *e)
{
  char *save = NULL;
  char *t = strtok_r(s, ",", &save);
  if(!t || (strcmp(t, "0") && strcmp(t, "1"))) return 0;
  e->ret = t[0] == '1';
  e->nact = 0;
  e->unbind = 0;
  int first = 1;
  while((t = strtok_r(NULL, ",", &save))) {
    if(first && strcmp(t, "!") == 0) { e->unbind = 1; first = 0; continue; }
    first = 0;
    if(e->nact >= MAXA || !parse_action(t, &e->act[e->nact])) return 0;
    e->nact++;
  }
  return 1;
}

static void engine_op(int argc, char **argv)
{
  const char *op = argv[0];
  first_item = 1;
  if(strcmp(op, "new") == 0 && argc == 3) {
    teardown();
    first_item = 1;
    tt = tickit_term_build(&(struct TickitTermBuilder){ .termtype = "xterm", .output_func = outf });
    tickit_term_set_size(tt, atoi(argv[1]), atoi(argv[2]));
    memset(alive, 0, sizeof alive); memset(owned, 0, sizeof owned); memset(nbind, 0, sizeof nbind);
    W[0] = tickit_window_new_root(tt);
    tickit_term_bind_event(tt, TICKIT_TERM_ON_KEY, 0, on_term_unhandled, NULL);
    tickit_term_bind_event(tt, TICKIT_TERM_ON_MOUSE, 0, on_term_unhandled, NULL);
    nW = 1; alive[0] = 1; owned[0] = 1;
    tickit_window_bind_event(W[0], TICKIT_WINDOW_ON_DESTROY, TICKIT_BIND_DESTROY, on_destroy, (void *)0L);
    dump();
    return;
  }
  if(!tt) { obs("bad-op"); return; }
  if(strcmp(op, "win") == 0 && argc == 7) {
    int p = atoi(argv[1]);
    if(p < 0 || p >= nW || !alive[p] || nW >= MAXW) { item("skip"); dump(); return; }
    TickitRect r = { .top = atoi(argv[2]), .left = atoi(argv[3]), .lines = atoi(argv[4]), .cols = atoi(argv[5]) };
    int f = atoi(argv[6]);
    TickitWindowFlags flags = 0;
    if(f & 1) flags |= TICKIT_WINDOW_HIDDEN;
    if(f & 2) flags |= TICKIT_WINDOW_LOWEST;
    if(f & 4) flags |= TICKIT_WINDOW_ROOT_PARENT;
    if(f & 8) flags |= TICKIT_WINDOW_STEAL_INPUT;
    int id = nW++;
    W[id] = tickit_window_new(W[p], r, flags);
    alive[id] = 1; owned[id] = 1;
    tickit_window_bind_event(W[id], TICKIT_WINDOW_ON_DESTROY, TICKIT_BIND_DESTROY, on_destroy, (void *)(long)id);
    item("w%d", id);
    dump();
    return;
  }
  if(strcmp(op, "bind") == 0 && argc >= 4 && argc - 3 <= MAXE) {
    int w = atoi(argv[1]);
    int kind = argv[2][0] == 'k' ? 0 : argv[2][0] == 'm' ? 1 : -1;
    int oneshot = strcmp(argv[2] + 1, "o") == 0;
    if(kind < 0 || (argv[2][1] && !oneshot)) { obs("bad-op"); return; }
    if(w < 0 || w >= nW || !alive[w] || nB >= MAXB) { item("skip"); dump(); return; }
    Binding *b = calloc(1, sizeof *b);
    b->win = w; b->kind = kind; b->idx = nbind[w][kind]; b->n = argc - 3;
    for(int i = 0; i < b->n; i++)
      if(!parse_entry(argv[3 + i], &b->e[i])) { free(b); obs("bad-op"); return; }
    nbind[w][kind]++;
    B[nB++] = b;
    b->id = tickit_window_bind_event(W[w], kind == 0 ? TICKIT_WINDOW_ON_KEY : TICKIT_WINDOW_ON_MOUSE,
        oneshot ? TICKIT_BIND_ONESHOT : 0, on_event, b);
    item("b%d", b->idx);
    dump();
    return;
  }
  if(strcmp(op, "act") == 0 && argc == 2) {
    Action a;
    if(!parse_action(argv[1], &a)) { obs("bad-op"); return; }
    do_action(a);
    dump();
    return;
  }
  if(strcmp(op, "geom") == 0 && argc == 6) {
    int w = atoi(argv[1]);
    if(w < 0 || w >= nW || !alive[w]) { item("skip"); dump(); return; }
    tickit_window_set_geometry(W[w], (TickitRect){ .top = atoi(argv[2]), .left = atoi(argv[3]), .lines = atoi(argv[4]), .cols = atoi(argv[5]) });
    dump();
    return;
  }
  if(strcmp(op, "flush") == 0 && argc == 1) {
    tickit_window_flush(W[0]);
   
    dump();
    return;
  }
  if(strcmp(op, "key") == 0 && argc == 3) {
    int type = atoi(argv[1]);
    TickitKeyEventInfo info = { .type = type, .mod = atoi(argv[2]), .str = type == TICKIT_KEYEV_TEXT ? "A" : "Enter" };
    tickit_term_emit_key(tt, &info);
    dump();
    return;
  }
  if(strcmp(op, "mouse") == 0 && argc == 6) {
    TickitMouseEventInfo info = { .type = atoi(argv[1]), .button = atoi(argv[2]), .line = atoi(argv[3]), .col = atoi(argv[4]), .mod = atoi(argv[5]) };
    tickit_term_emit_mouse(tt, &info);
    dump();
    return;
  }
  if(strcmp(op, "x10") == 0 && argc == 4) {
    int code = atoi(argv[1]), l = atoi(argv[2]), c = atoi(argv[3]);
    /* keep every byte below 0x80: above, libtermkey's UTF-8 mode has a say */
    if(code < 0 || code >= 96 || l < 0 || l >= 94 || c < 0 || c >= 94) { obs("bad-op"); return; }
    char buf[6] = { 0x1b, '[', 'M', (char)(32 + code), (char)(32 + c + 1), (char)(32 + l + 1) };
    tickit_term_input_push_bytes(tt, buf, 6);
    dump();
    return;
  }
  obs("bad-op");
}
