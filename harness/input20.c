/* Engine `input20` (C20): decoded input events do not depend on fragmentation.
 *
 * Per history three consumers of the same byte stream:
 *   W  a TickitTerm that receives every `push` whole          (tickit_term_input_push_bytes once)
 *   F  a TickitTerm that receives it cut at the given offsets (one call per fragment, no timeout between)
 *   K  the harness' own TermKey instance, built with the flags term.c uses, fed the way term.c feeds its own
 *      (one termkey_push_bytes whose return value is ignored, then termkey_getkey until it stops returning KEY);
 *      its key log is the *trusted tokenization* the Lean got_key model is run on.
 *   K2 a second TermKey instance fed by a loop that hands over what termkey_push_bytes did not accept after
 *      draining (what fixes/C20_push_bytes_short_count.patch makes term.c do).  Its section is printed only when
 *      it differs from K's.  The driver uses K or K2 according to what the extractor read in the source.
 * Both terminals have a harness-owned driver (TickitTermBuilder.driver) whose on_modereport / on_decrqss
 * log their arguments, so every branch of got_key is observable.  The clock is the harness' (gettimeofday
 * is wrapped at link time), so the inter-byte timeout only fires when a `check` operation says so.
 *
 * Operations
 *   new <utf8> [<usec0> [<kmous>]]  fresh W, F, K; clock = 1000 s + usec0 us    -> ok wait=<termkey waittime ms>
 *                            kmous=1: terminfo hook (TickitTermBuilder.ti_hook, and the same hook on K) answers
 *                            key_mouse = ESC [ M, as terminfo entries older than ncurses 6.1 do; with the installed
 *                            entry (kmous = ESC [ <) libtermkey 0.22 reads `ESC [ <` as the X10 mouse introducer
 *   reset <utf8>             destroy and rebuild W, F, K (same process)         -> ok wait=<ms>
 *   push <hex> <cuts|->      cuts = ascending offsets 0<c<len, comma separated  -> W <ev>* | F <ev>* | K <key>* end=<res> acc=<n>/<len> [| K2 …] | T <w> <f>
 *   check <ms>               clock += ms; tickit_term_input_check_timeout_msec  -> W <ev>* | F <ev>* | K <key>* end=<res|-> acc=0/0 [| K2 …] | T <w> <f>
 *   any operation            a fault inside libtermkey (see fault_handler)      -> CRASH exit=77 for it and the rest of the history
 * Events   k:<type>:<mod>:<strhex>   m:<type>:<button>:<line>:<col>:<mod>   r:<initial>:<mode>:<value>   q:<hex>
 * Keys     M:<ev>:<button>:<line>:<col>:<mod>  U:<mod>:<utf8hex>:<namehex>  F:<mod>:<namehex>  S:<mod>:<namehex>
 *          R:<initial>:<mode>:<value>  D:<hex>|D:!  X:<type>
 * T        what tickit_term_input_check_timeout_msec returned for W and F (frozen clock: the armed deadline)
 *
 * Histories may share a process (batched forks): engine_begin/engine_end reset everything except lib_kmous, which
 * is a fact about the library under test and is probed once.
 */
#define HCOMMON_MAIN
#include "hcommon.h"
#include "tickit.h"
#include "tickit-termdrv.h"
#include <termkey.h>
#include <sys/time.h>

/* ------------------------------------------------------------------ clock */
static long long clk_us;   /* absolute microseconds */

int __wrap_gettimeofday(struct timeval *tv, void *tz)
{
  (void)tz;
  tv->tv_sec  = clk_us / 1000000;
  tv->tv_usec = clk_us % 1000000;
  return 0;
}

/* ------------------------------------------------------------------ logs */
typedef struct { char *s; size_t len, cap; } Log;

static void log_add(Log *l, const char *fmt, ...) __attribute__((format(printf,2,3)));
static void log_add(Log *l, const char *fmt, ...)
{
  char tmp[512];
  va_list ap;
  va_start(ap, fmt);
  int n = vsnprintf(tmp, sizeof tmp, fmt, ap);
  va_end(ap);
  if(n < 0) return;
  if((size_t)n >= sizeof tmp) n = sizeof tmp - 1;
  if(l->len + n + 1 > l->cap) { l->cap = (l->len + n + 1) * 2; l->s = realloc(l->s, l->cap); }
  memcpy(l->s + l->len, tmp, n);
  l->len += n;
  l->s[l->len] = 0;
}

static void log_hex(Log *l, const void *p, size_t n)
{
  const unsigned char *b = p;
  if(n == 0) { log_add(l, "-"); return; }
  for(size_t i = 0; i < n; i++) log_add(l, "%02x", b[i]);
}

static void log_clear(Log *l) { l->len = 0; if(l->s) l->s[0] = 0; }
static void log_emit(Log *l) { if(l->len) obs_raw(l->s, l->len); }

/* ------------------------------------------------------------------ harness-owned driver */
typedef struct { TickitTermDriver drv; Log *log; } HDriver;

static void drv_destroy(TickitTermDriver *ttd) { free(ttd); }
static bool drv_print(TickitTermDriver *ttd, const char *s, size_t n) { (void)ttd; (void)s; (void)n; return true; }
static bool drv_goto(TickitTermDriver *ttd, int l, int c) { (void)ttd; (void)l; (void)c; return true; }
static bool drv_move(TickitTermDriver *ttd, int d, int r) { (void)ttd; (void)d; (void)r; return true; }
static bool drv_scroll(TickitTermDriver *ttd, const TickitRect *r, int d, int rt) { (void)ttd; (void)r; (void)d; (void)rt; return false; }
static bool drv_erasech(TickitTermDriver *ttd, int n, TickitMaybeBool m) { (void)ttd; (void)n; (void)m; return true; }
static bool drv_clear(TickitTermDriver *ttd) { (void)ttd; return true; }
static bool drv_chpen(TickitTermDriver *ttd, const TickitPen *d, const TickitPen *f) { (void)ttd; (void)d; (void)f; return true; }
static bool drv_getctl_int(TickitTermDriver *ttd, TickitTermCtl ctl, int *v)
{
  (void)ttd;
  if(ctl == TICKIT_TERMCTL_COLORS) { *v = 8; return true; }
  return false;
}
static bool drv_setctl_int(TickitTermDriver *ttd, TickitTermCtl ctl, int v) { (void)ttd; (void)ctl; (void)v; return false; }
static bool drv_setctl_str(TickitTermDriver *ttd, TickitTermCtl ctl, const char *v) { (void)ttd; (void)ctl; (void)v; return false; }
static int drv_on_modereport(TickitTermDriver *ttd, int initial, int mode, int value)
{
  log_add(((HDriver *)ttd)->log, " r:%d:%d:%d", initial, mode, value);
  return 1;
}
static int drv_on_decrqss(TickitTermDriver *ttd, const char *args, size_t arglen)
{
  Log *l = ((HDriver *)ttd)->log;
  log_add(l, " q:");
  log_hex(l, args, arglen);
  return 1;
}

static TickitTermDriverVTable drv_vtable = {
  .destroy = drv_destroy, .print = drv_print, .goto_abs = drv_goto, .move_rel = drv_move, .scrollrect = drv_scroll,
  .erasech = drv_erasech, .clear = drv_clear, .chpen = drv_chpen,
  .getctl_int = drv_getctl_int, .setctl_int = drv_setctl_int, .setctl_str = drv_setctl_str,
  .on_modereport = drv_on_modereport, .on_decrqss = drv_on_decrqss,
};

/* ------------------------------------------------------------------ event handlers */
static int on_key(TickitTerm *tt, TickitEventFlags flags, void *_info, void *data)
{
  (void)tt; (void)flags;
  TickitKeyEventInfo *info = _info;
  Log *l = data;
  log_add(l, " k:%d:%d:", (int)info->type, info->mod);
  if(info->str) log_hex(l, info->str, strlen(info->str)); else log_add(l, "NULL");
  return 1;
}

static int on_mouse(TickitTerm *tt, TickitEventFlags flags, void *_info, void *data)
{
  (void)tt; (void)flags;
  TickitMouseEventInfo *info = _info;
  log_add((Log *)data, " m:%d:%d:%d:%d:%d", (int)info->type, info->button, info->line, info->col, info->mod);
  return 1;
}

static void out_func(TickitTerm *tt, const char *bytes, size_t len, void *user) { (void)tt; (void)bytes; (void)len; (void)user; }

/* ------------------------------------------------------------------ state */
typedef struct {
  TermKey *tk;
  Log log;
  int loops;            /* feed by the loop of the proposed fix */
  int armed;            /* the last drain ended with AGAIN */
  long long deadline;   /* clock at that drain + waittime */
} Mirror;

static TickitTerm *W, *F;
/* K1/K2 receive every push whole, K3/K4 receive it in the fragments F receives (their logs are not printed): between
 * them they are in the state of W's and of F's TermKey whichever way term.c feeds it, which is what the survival
 * probe needs */
static Mirror K1 = { .loops = 0 }, K2 = { .loops = 1 }, K3 = { .loops = 0 }, K4 = { .loops = 1 };
static Mirror *const mirrors[4] = { &K1, &K2, &K3, &K4 };
static Log logW, logF;

static int kmous_hook;        /* answer key_mouse = ESC [ M */
static int lib_kmous = -1;    /* term.c's own getstr hook already answers key_mouse = ESC [ M
                               * (fixes/C20_terminfo_key_mouse.patch); found out once, see probe_lib_kmous() */

/* hook given to the terminals through TickitTermBuilder.ti_hook */
static const char *ti_getstr(const char *name, const char *value, void *data)
{
  (void)data;
  if(kmous_hook && strcmp(name, "key_mouse") == 0)
    return "\x1b[M";
  return value;
}
static const struct TickitTerminfoHook ti_hook = { .getstr = ti_getstr, .data = NULL };

/* hook given to the harness' own TermKey instances: what term.c's getstr_hook chain answers for a terminal
 * without an input fd */
static const char *ti_getstr_mirror(const char *name, const char *value, void *data)
{
  if(lib_kmous > 0 && strcmp(name, "key_mouse") == 0)
    value = "\x1b[M";
  return ti_getstr(name, value, data);
}

static TickitTerm *mk_term(Log *log, int utf8)
{
  HDriver *d = calloc(1, sizeof *d);
  d->drv.vtable = &drv_vtable;
  d->drv.name = "input20";
  d->log = log;
  TickitTerm *tt = tickit_term_build(&(struct TickitTermBuilder){
    .termtype = "xterm", .driver = &d->drv, .output_func = out_func, .output_func_user = NULL,
    .ti_hook = &ti_hook });
  if(!tt) { fprintf(stderr, "tickit_term_build failed\n"); exit(3); }
  tickit_term_set_utf8(tt, utf8);
  tickit_term_bind_event(tt, TICKIT_TERM_ON_KEY, 0, on_key, log);
  tickit_term_bind_event(tt, TICKIT_TERM_ON_MOUSE, 0, on_mouse, log);
  return tt;
}

/* exactly what term.c:get_termkey does for a terminal without an input fd */
static TermKey *mk_termkey(int utf8)
{
  int flags = utf8 ? TERMKEY_FLAG_UTF8 : TERMKEY_FLAG_RAW;
  const char *was = getenv("TERM");
  char *keep = was ? strdup(was) : NULL;
  setenv("TERM", "xterm", 1);
  TermKey *tk = termkey_new(-1, TERMKEY_FLAG_EINTR | TERMKEY_FLAG_NOSTART | flags);
  if(keep) { setenv("TERM", keep, 1); free(keep); } else unsetenv("TERM");
  if(!tk) { fprintf(stderr, "termkey_new failed\n"); exit(3); }
  termkey_hook_terminfo_getstr(tk, ti_getstr_mirror, NULL);
  termkey_start(tk);
  termkey_set_canonflags(tk, termkey_get_canonflags(tk) | TERMKEY_CANON_DELBS);
  return tk;
}

/* The harness' TermKey instances must be configured like the terminal's.  Whether term.c overrides terminfo's
 * key_mouse cannot be asked; it shows: with the override an SGR press report is one mouse event, without it (and
 * with terminfo's kmous = CSI <) libtermkey reads `CSI < 0 ; 1` as an X10 report and the rest as text. */
static void probe_lib_kmous(void)
{
  Log probe = { 0 };
  int saved = kmous_hook;
  kmous_hook = 0;
  TickitTerm *tt = mk_term(&probe, 1);
  tickit_term_input_push_bytes(tt, "\x1b[<0;1;1M", 9);
  lib_kmous = probe.s && strcmp(probe.s, " m:1:1:0:0:0") == 0;
  tickit_term_unref(tt);
  free(probe.s);
  kmous_hook = saved;
}

static void teardown_all(void)
{
  if(W) tickit_term_unref(W);
  if(F) tickit_term_unref(F);
  for(int i = 0; i < 4; i++) {
    if(mirrors[i]->tk) termkey_destroy(mirrors[i]->tk);
    mirrors[i]->tk = NULL;
  }
  W = F = NULL;
}

static void build_all(int utf8)
{
  teardown_all();
  if(lib_kmous < 0) probe_lib_kmous();
  log_clear(&logW); log_clear(&logF);
  W = mk_term(&logW, utf8);
  F = mk_term(&logF, utf8);
  for(int i = 0; i < 4; i++) {
    log_clear(&mirrors[i]->log);
    mirrors[i]->tk = mk_termkey(utf8);
    mirrors[i]->armed = 0;
  }
}

static void install_fault_handler(void);
static void engine_begin(void) { install_fault_handler(); W = F = NULL; for(int i = 0; i < 4; i++) mirrors[i]->tk = NULL; }
static void engine_end(void)
{
  teardown_all();
  free(logW.s); free(logF.s);
  logW = logF = (Log){ 0 };
  for(int i = 0; i < 4; i++) { free(mirrors[i]->log.s); mirrors[i]->log = (Log){ 0 }; }
}

static const char *resname(TermKeyResult r)
{
  switch(r) {
    case TERMKEY_RES_NONE: return "NONE";
    case TERMKEY_RES_KEY: return "KEY";
    case TERMKEY_RES_EOF: return "EOF";
    case TERMKEY_RES_AGAIN: return "AGAIN";
    case TERMKEY_RES_ERROR: return "ERROR";
  }
  return "?";
}

static void log_key(Mirror *m, TermKeyKey *key)
{
  TermKey *K = m->tk;
  Log *lk = &m->log;
  char name[128];
  switch(key->type) {
    case TERMKEY_TYPE_MOUSE: {
      TermKeyMouseEvent ev = 0; int button = 0, line = 0, col = 0;
      termkey_interpret_mouse(K, key, &ev, &button, &line, &col);
      log_add(lk, " M:%d:%d:%d:%d:%d", (int)ev, button, line, col, key->modifiers);
      break;
    }
    case TERMKEY_TYPE_UNICODE:
      termkey_strfkey(K, name, sizeof name, key, TERMKEY_FORMAT_ALTISMETA);
      log_add(lk, " U:%d:", key->modifiers);
      log_hex(lk, key->utf8, strlen(key->utf8));
      log_add(lk, ":");
      log_hex(lk, name, strlen(name));
      break;
    case TERMKEY_TYPE_FUNCTION:
    case TERMKEY_TYPE_KEYSYM:
      termkey_strfkey(K, name, sizeof name, key, TERMKEY_FORMAT_ALTISMETA);
      log_add(lk, " %c:%d:", key->type == TERMKEY_TYPE_FUNCTION ? 'F' : 'S', key->modifiers);
      log_hex(lk, name, strlen(name));
      break;
    case TERMKEY_TYPE_MODEREPORT: {
      int initial = 0, mode = 0, value = 0;
      termkey_interpret_modereport(K, key, &initial, &mode, &value);
      log_add(lk, " R:%d:%d:%d", initial, mode, value);
      break;
    }
    case TERMKEY_TYPE_DCS: {
      const char *str = NULL;
      if(termkey_interpret_string(K, key, &str) != TERMKEY_RES_KEY || !str)
        log_add(lk, " D:!");
      else {
        log_add(lk, " D:");
        log_hex(lk, str, strlen(str));
      }
      break;
    }
    default:
      log_add(lk, " X:%d", (int)key->type);
      break;
  }
}

/* feed a mirror the way term.c feeds its TermKey (loops = 0: as the unchanged code; 1: as the proposed fix) */
static void mirror_push(Mirror *m, const unsigned char *bytes, size_t len)
{
  size_t first = 0, total = len;
  TermKeyResult res;
  int round = 0;
  for(;;) {
    size_t pushed = termkey_push_bytes(m->tk, (const char *)bytes, len);
    if(pushed == (size_t)-1) pushed = 0;
    if(round++ == 0) first = pushed;
    TermKeyKey key;
    while((res = termkey_getkey(m->tk, &key)) == TERMKEY_RES_KEY)
      log_key(m, &key);
    bytes += pushed; len -= pushed;
    if(!m->loops || !len || !pushed) break;
  }
  m->armed = (res == TERMKEY_RES_AGAIN);
  if(m->armed) m->deadline = clk_us + (long long)termkey_get_waittime(m->tk) * 1000;
  log_add(&m->log, " end=%s acc=%zu/%zu", resname(res), first, total);
}

static void mirror_check(Mirror *m)
{
  const char *end = "-";
  if(m->armed && clk_us >= m->deadline) {
    TermKeyKey key;
    TermKeyResult res = termkey_getkey_force(m->tk, &key);
    if(res == TERMKEY_RES_KEY) log_key(m, &key);
    end = resname(res);
    m->armed = 0;
  }
  log_add(&m->log, " end=%s acc=0/0", end);
}

/* what the four mirrors do for one operation: bytes != NULL: a push cut at `cuts`; NULL: a timeout check */
static void mirrors_op(const unsigned char *bytes, long len, const long *cuts, int ncuts)
{
  if(!bytes) {
    for(int i = 0; i < 4; i++) mirror_check(mirrors[i]);
    return;
  }
  mirror_push(&K1, bytes, len);
  mirror_push(&K2, bytes, len);
  long at = 0;
  for(int i = 0; i <= ncuts; i++) {
    mirror_push(&K3, bytes + at, cuts[i] - at);
    mirror_push(&K4, bytes + at, cuts[i] - at);
    at = cuts[i];
  }
}

/* libtermkey is trusted by the property, not by the harness: it segfaults or reads out of bounds on some junk no
 * terminal sends (the generators avoid the shapes known, see gen/input20.py).  A crash *inside the tokenizer* on a
 * stream the property does not quantify over must not count against libtickit.  Two measures:
 *  - every operation is first performed on the mirrors alone (libtermkey and nothing of libtickit, in the states
 *    of W's and F's TermKey), flagged by in_tokenizer_phase; only then on the terminals;
 *  - a handler for SIGSEGV/SIGBUS/SIGABRT/SIGFPE/SIGILL looks where the fault happened: in the tokenizer-only phase,
 *    or with the faulting instruction inside libtermkey's text, the process leaves with TK_CRASH_EXIT, and the
 *    common scaffolding answers this and every remaining operation of the history with `CRASH exit=77`, which the
 *    driver echoes without a verdict (counted in the evidence).  Any other fault goes to the sanitizer's handler
 *    as before and is a CRASH observation that no model observation matches. */
#define TK_CRASH_EXIT 77
#include <signal.h>
#include <ucontext.h>
#include <dlfcn.h>
static volatile sig_atomic_t in_tokenizer_phase;
static struct sigaction prev_sa[NSIG];

static void fault_handler(int sig, siginfo_t *info, void *ctx)
{
  int tokenizer = in_tokenizer_phase;
#if defined(__x86_64__)
  if(!tokenizer && ctx) {
    void *pc = (void *)((ucontext_t *)ctx)->uc_mcontext.gregs[REG_RIP];
    Dl_info dli;
    if(dladdr(pc, &dli) && dli.dli_fname && strstr(dli.dli_fname, "libtermkey"))
      tokenizer = 1;
  }
#endif
  if(tokenizer) {
    static const char msg[] = "HARNESS: fault inside libtermkey: history not judged\n";
    if(write(2, msg, sizeof msg - 1) < 0) {}
    _exit(TK_CRASH_EXIT);
  }
  /* not the tokenizer's: hand over to whoever was there before (the sanitizer's reporter), or die of it */
  struct sigaction *old = &prev_sa[sig];
  if((old->sa_flags & SA_SIGINFO) && old->sa_sigaction) { old->sa_sigaction(sig, info, ctx); return; }
  if(!(old->sa_flags & SA_SIGINFO) && old->sa_handler != SIG_DFL && old->sa_handler != SIG_IGN) { old->sa_handler(sig); return; }
  signal(sig, SIG_DFL);
  raise(sig);
}

static void install_fault_handler(void)
{
  static int done;
  if(done) return;
  done = 1;
  static const int sigs[] = { SIGSEGV, SIGBUS, SIGABRT, SIGFPE, SIGILL };
  for(size_t i = 0; i < sizeof sigs / sizeof sigs[0]; i++) {
    struct sigaction sa;
    memset(&sa, 0, sizeof sa);
    sa.sa_sigaction = fault_handler;
    sa.sa_flags = SA_SIGINFO | SA_NODEFER;
    sigemptyset(&sa.sa_mask);
    sigaction(sigs[i], &sa, &prev_sa[sigs[i]]);
  }
}

static void emit_obs(int tw, int tf)
{
  obs("W"); log_emit(&logW);
  obs(" | F"); log_emit(&logF);
  obs(" | K"); log_emit(&K1.log);
  if(K1.log.len != K2.log.len || memcmp(K1.log.s, K2.log.s, K1.log.len) != 0) {
    obs(" | K2"); log_emit(&K2.log);
  }
  obs(" | T %d %d", tw, tf);
  log_clear(&logW); log_clear(&logF);
  for(int i = 0; i < 4; i++) log_clear(&mirrors[i]->log);
}

static void engine_op(int argc, char **argv)
{
  const char *op = argc ? argv[0] : "";
  if((strcmp(op, "new") == 0 || strcmp(op, "reset") == 0) && argc >= 2) {
    if(op[0] == 'n') {
      clk_us = 1000LL * 1000000 + (argc >= 3 ? atoll(argv[2]) : 0);
      kmous_hook = argc >= 4 ? atoi(argv[3]) != 0 : 0;
    }
    build_all(atoi(argv[1]) != 0);
    obs("ok wait=%d", termkey_get_waittime(K1.tk));
    return;
  }
  if(!W) { obs("bad-op"); return; }

  if(strcmp(op, "push") == 0 && argc == 3) {
    unsigned char *bytes = NULL;
    long len = hex_decode(argv[1], &bytes);
    if(len < 0) { obs("bad-op"); return; }
    /* cuts */
    long cuts[64]; int ncuts = 0; long prev = 0; int bad = 0;
    if(strcmp(argv[2], "-") != 0) {
      char *copy = strdup(argv[2]), *save = NULL;
      for(char *t = strtok_r(copy, ",", &save); t; t = strtok_r(NULL, ",", &save)) {
        long c = atol(t);
        if(c <= prev || c >= len || ncuts >= 63) { bad = 1; break; }
        cuts[ncuts++] = c; prev = c;
      }
      free(copy);
    }
    if(bad) { free(bytes); obs("bad-op"); return; }
    cuts[ncuts] = len;

    /* the tokenizer alone first */
    in_tokenizer_phase = 1;
    mirrors_op(bytes, len, cuts, ncuts);
    in_tokenizer_phase = 0;

    /* W: whole */
    tickit_term_input_push_bytes(W, (const char *)bytes, len);
    /* F: fragments */
    long at = 0;
    for(int i = 0; i <= ncuts; i++) {
      tickit_term_input_push_bytes(F, (const char *)bytes + at, cuts[i] - at);
      at = cuts[i];
    }
    /* frozen clock: these calls only read the armed deadline (remaining > 0, or -1) */
    int tw = tickit_term_input_check_timeout_msec(W);
    int tf = tickit_term_input_check_timeout_msec(F);
    emit_obs(tw, tf);
    free(bytes);
    return;
  }

  if(strcmp(op, "check") == 0 && argc == 2) {
    long ms = atol(argv[1]);
    if(ms < 0 || ms > 100000) { obs("bad-op"); return; }
    clk_us += ms * 1000LL;
    in_tokenizer_phase = 1;
    mirrors_op(NULL, 0, NULL, 0);
    in_tokenizer_phase = 0;
    int tw = tickit_term_input_check_timeout_msec(W);
    int tf = tickit_term_input_check_timeout_msec(F);
    emit_obs(tw, tf);
    return;
  }

  obs("bad-op");
}
