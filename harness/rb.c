/* Engine `rb` (C03): drives the render buffer of the working tree (src/renderbuffer.c and what it
 * uses: pen.c, utf8.c, string.c, rect.c).  After *every* operation the raw state is dumped through
 * the guarded hook tickit_renderbuffer_verif_dump (hooks/rb_dump.patch).
 *
 * Operations (coordinates decimal, bytes lowercase hex, `-` = empty):
 *   new L C
 *   text_at l c HEX | text HEX                    tickit_renderbuffer_textn_at / textn with the exact byte count
 *   textz_at l c HEX | textz HEX                  tickit_renderbuffer_text_at / text (NUL-terminated: stops at a 00 byte)
 *   textn_at l c N HEX | textn N HEX              textn_at / textn with N <= bytes given (a prefix), or N = -1 (strlen)
 *   textf_at l c HEX | textf HEX                  textf_at / textf with the format "%s"
 *   vtextf_at l c HEX | vtextf HEX                vtextf_at / vtextf (va_list entry points), format "%s"
 *   textfd_at l c HEX N | textfd HEX N            textf_at / textf with the format "%s%d"
 *                                                 all of them: r=<returned columns>
 *   erase_at l c n | erase n | erase_to c | skip_at l c n | skip n | skip_to c
 *   char_at l c cp | char cp | hline l c1 c2 style caps | vline l1 l2 c style caps
 *   clear | eraserect t l n c | skiprect t l n c
 *   goto l c | ungoto | xl down right | clip t l n c | mask t l n c
 *   setpen PEN | setpen NULL          PEN = `-` (empty) or fg=3#ff0000,b=1,u=2 ... (names of tickit_penattr_name)
 *   save | savepen | restore | reset
 *   getcur                            r=<has>,<line>,<col>  (public cursor queries)
 *   getcells                          r=<public cell queries for lines -1..L, columns -1..C>
 *   getcell l c LEN                   one cell through the four public cell queries, text buffer of LEN bytes
 *                                     (LEN = -1: NULL buffer): r=<active>{pen}<n.s.e.w>:<ret>:<buffer>
 *                                     <buffer> = all LEN bytes afterwards in hex (preset to 0x55), `x` for NULL
 *   getspan l c LEN MODE              tickit_renderbuffer_get_span; MODE bit 0: info != NULL, bit 1: info->pen != NULL,
 *                                     bit 2: text buffer != NULL (LEN bytes);
 *                                     r=<ret>,<is_active>,<n_columns>,<info.len>,<info.text: B = the buffer, N = NULL, U = untouched>,
 *                                       {pen},<buffer>          (fields of *info are preset: 1, -77, 7777, U, {fg=9,b=1})
 * Observation: `r=<result or -> <dump>`.
 *
 * The render buffer is malloc()ed and vc_line/vc_col are not initialised by tickit_renderbuffer_new;
 * (since 85271b4 `save` also copies vc_pos_set, so the garbage is never observable through the public API)
 * `save` copies them.  ASan fills fresh allocations with 0xbe, so the indeterminate value is the
 * int 0xbebebebe = -1094795586 in every run; the model takes it as an explicit parameter of `new`.
 */
#define HCOMMON_MAIN
#include "hcommon.h"
#include "tickit.h"

const char *__asan_default_options(void);
const char *__asan_default_options(void) { return "malloc_fill_byte=190:max_malloc_fill_size=4096"; }

void tickit_renderbuffer_verif_dump(TickitRenderBuffer *rb, FILE *fh);

static TickitRenderBuffer *rb;

static void engine_begin(void) { rb = NULL; }
static void engine_end(void)
{
  if(rb) tickit_renderbuffer_unref(rb);
  rb = NULL;
}

static void dump(void)
{
  char *buf = NULL;
  size_t len = 0;
  FILE *fh = open_memstream(&buf, &len);
  tickit_renderbuffer_verif_dump(rb, fh);
  fclose(fh);
  obs_raw(" ", 1);
  obs_raw(buf, len);
  free(buf);
}

static void obs_pen(const TickitPen *pen)
{
  if(!pen) { obs("{NULL}"); return; }
  obs("{");
  int first = 1;
  for(TickitPenAttr attr = 1; attr < TICKIT_N_PEN_ATTRS; attr++) {
    if(!tickit_pen_has_attr(pen, attr)) continue;
    obs("%s%s=", first ? "" : ",", tickit_penattr_name(attr));
    first = 0;
    switch(tickit_penattr_type(attr)) {
      case TICKIT_PENTYPE_BOOL: obs("%d", tickit_pen_get_bool_attr(pen, attr)); break;
      case TICKIT_PENTYPE_INT:  obs("%d", tickit_pen_get_int_attr(pen, attr)); break;
      case TICKIT_PENTYPE_COLOUR:
        obs("%d", tickit_pen_get_colour_attr(pen, attr));
        if(tickit_pen_has_colour_attr_rgb8(pen, attr)) {
          TickitPenRGB8 v = tickit_pen_get_colour_attr_rgb8(pen, attr);
          obs("#%02x%02x%02x", v.r, v.g, v.b);
        }
        break;
    }
  }
  obs("}");
}

/* PEN syntax of the protocol -> a new pen (caller unrefs); NULL for the token NULL */
static TickitPen *parse_pen(const char *spec)
{
  if(strcmp(spec, "NULL") == 0) return NULL;
  TickitPen *pen = tickit_pen_new();
  if(strcmp(spec, "-") == 0) return pen;
  char *copy = strdup(spec), *save = NULL;
  for(char *t = strtok_r(copy, ",", &save); t; t = strtok_r(NULL, ",", &save)) {
    char *eq = strchr(t, '=');
    if(!eq) continue;
    *eq = 0;
    TickitPenAttr attr = tickit_penattr_lookup(t);
    if((int)attr < 1) continue;
    const char *val = eq + 1;
    switch(tickit_penattr_type(attr)) {
      case TICKIT_PENTYPE_BOOL: tickit_pen_set_bool_attr(pen, attr, atoi(val)); break;
      case TICKIT_PENTYPE_INT:  tickit_pen_set_int_attr(pen, attr, atoi(val)); break;
      case TICKIT_PENTYPE_COLOUR: {
        tickit_pen_set_colour_attr(pen, attr, atoi(val));
        const char *hash = strchr(val, '#');
        if(hash) {
          unsigned r, g, b;
          if(sscanf(hash + 1, "%2x%2x%2x", &r, &g, &b) == 3)
            tickit_pen_set_colour_attr_rgb8(pen, attr, (TickitPenRGB8){ .r = r, .g = g, .b = b });
        }
        break;
      }
    }
  }
  free(copy);
  return pen;
}

#define A(i) atoi(argv[i])

static int call_vtextf_at(int line, int col, const char *fmt, ...)
{
  va_list args;
  va_start(args, fmt);
  int ret = tickit_renderbuffer_vtextf_at(rb, line, col, fmt, args);
  va_end(args);
  return ret;
}

static int call_vtextf(const char *fmt, ...)
{
  va_list args;
  va_start(args, fmt);
  int ret = tickit_renderbuffer_vtextf(rb, fmt, args);
  va_end(args);
  return ret;
}

/* the buffer handed to the text queries: LEN bytes exactly (so that ASan sees a write past it), filled with 0x55 */
static char *query_buffer(long len)
{
  if(len < 0) return NULL;
  char *b = malloc(len ? len : 1);
  memset(b, 0x55, len ? len : 1);
  return b;
}

/* the whole buffer after a text query (`x` for a NULL buffer): the bytes written, the terminator if any, then filler */
static void obs_query_buffer(const char *buf, long len)
{
  if(buf) obs_hex(buf, len); else obs("x");
}

static void engine_op(int argc, char **argv)
{
  const char *op = argc ? argv[0] : "";
  if(strcmp(op, "new") == 0 && argc == 3) {
    if(rb) tickit_renderbuffer_unref(rb);
    rb = tickit_renderbuffer_new(A(1), A(2));
    obs("r=-"); dump(); return;
  }
  if(!rb) { obs("bad-op"); return; }

  int have_ret = 0, ret = 0;
  unsigned char *bytes = NULL;

  if(strcmp(op, "text_at") == 0 && argc == 4) {
    long n = hex_decode(argv[3], &bytes);
    if(n < 0) { obs("bad-op"); return; }
    ret = tickit_renderbuffer_textn_at(rb, A(1), A(2), (char *)bytes, n); have_ret = 1;
  }
  else if(strcmp(op, "textf_at") == 0 && argc == 4) {
    long n = hex_decode(argv[3], &bytes);
    if(n < 0) { obs("bad-op"); return; }
    ret = tickit_renderbuffer_textf_at(rb, A(1), A(2), "%s", (char *)bytes); have_ret = 1;
  }
  else if(strcmp(op, "textz_at") == 0 && argc == 4) {
    long n = hex_decode(argv[3], &bytes);
    if(n < 0) { obs("bad-op"); return; }
    ret = tickit_renderbuffer_text_at(rb, A(1), A(2), (char *)bytes); have_ret = 1;
  }
  else if(strcmp(op, "textn_at") == 0 && argc == 5) {
    long n = hex_decode(argv[4], &bytes);
    long want = atol(argv[3]);
    if(n < 0 || want < -1 || want > n) { free(bytes); obs("bad-op"); return; }
    ret = tickit_renderbuffer_textn_at(rb, A(1), A(2), (char *)bytes, (size_t)want); have_ret = 1;
  }
  else if(strcmp(op, "vtextf_at") == 0 && argc == 4) {
    long n = hex_decode(argv[3], &bytes);
    if(n < 0) { obs("bad-op"); return; }
    ret = call_vtextf_at(A(1), A(2), "%s", (char *)bytes); have_ret = 1;
  }
  else if(strcmp(op, "textfd_at") == 0 && argc == 5) {
    long n = hex_decode(argv[3], &bytes);
    if(n < 0) { obs("bad-op"); return; }
    ret = tickit_renderbuffer_textf_at(rb, A(1), A(2), "%s%d", (char *)bytes, A(4)); have_ret = 1;
  }
  else if(strcmp(op, "textz") == 0 && argc == 2) {
    long n = hex_decode(argv[1], &bytes);
    if(n < 0) { obs("bad-op"); return; }
    ret = tickit_renderbuffer_text(rb, (char *)bytes); have_ret = 1;
  }
  else if(strcmp(op, "textn") == 0 && argc == 3) {
    long n = hex_decode(argv[2], &bytes);
    long want = atol(argv[1]);
    if(n < 0 || want < -1 || want > n) { free(bytes); obs("bad-op"); return; }
    ret = tickit_renderbuffer_textn(rb, (char *)bytes, (size_t)want); have_ret = 1;
  }
  else if(strcmp(op, "vtextf") == 0 && argc == 2) {
    long n = hex_decode(argv[1], &bytes);
    if(n < 0) { obs("bad-op"); return; }
    ret = call_vtextf("%s", (char *)bytes); have_ret = 1;
  }
  else if(strcmp(op, "textfd") == 0 && argc == 3) {
    long n = hex_decode(argv[1], &bytes);
    if(n < 0) { obs("bad-op"); return; }
    ret = tickit_renderbuffer_textf(rb, "%s%d", (char *)bytes, A(2)); have_ret = 1;
  }
  else if(strcmp(op, "text") == 0 && argc == 2) {
    long n = hex_decode(argv[1], &bytes);
    if(n < 0) { obs("bad-op"); return; }
    ret = tickit_renderbuffer_textn(rb, (char *)bytes, n); have_ret = 1;
  }
  else if(strcmp(op, "textf") == 0 && argc == 2) {
    long n = hex_decode(argv[1], &bytes);
    if(n < 0) { obs("bad-op"); return; }
    ret = tickit_renderbuffer_textf(rb, "%s", (char *)bytes); have_ret = 1;
  }
  else if(strcmp(op, "erase_at") == 0 && argc == 4) tickit_renderbuffer_erase_at(rb, A(1), A(2), A(3));
  else if(strcmp(op, "erase") == 0 && argc == 2)    tickit_renderbuffer_erase(rb, A(1));
  else if(strcmp(op, "erase_to") == 0 && argc == 2) tickit_renderbuffer_erase_to(rb, A(1));
  else if(strcmp(op, "skip_at") == 0 && argc == 4)  tickit_renderbuffer_skip_at(rb, A(1), A(2), A(3));
  else if(strcmp(op, "skip") == 0 && argc == 2)     tickit_renderbuffer_skip(rb, A(1));
  else if(strcmp(op, "skip_to") == 0 && argc == 2)  tickit_renderbuffer_skip_to(rb, A(1));
  else if(strcmp(op, "char_at") == 0 && argc == 4)  tickit_renderbuffer_char_at(rb, A(1), A(2), atol(argv[3]));
  else if(strcmp(op, "char") == 0 && argc == 2)     tickit_renderbuffer_char(rb, atol(argv[1]));
  else if(strcmp(op, "hline") == 0 && argc == 6)    tickit_renderbuffer_hline_at(rb, A(1), A(2), A(3), A(4), A(5));
  else if(strcmp(op, "vline") == 0 && argc == 6)    tickit_renderbuffer_vline_at(rb, A(1), A(2), A(3), A(4), A(5));
  else if(strcmp(op, "clear") == 0 && argc == 1)    tickit_renderbuffer_clear(rb);
  else if(strcmp(op, "eraserect") == 0 && argc == 5)
    tickit_renderbuffer_eraserect(rb, &(TickitRect){ .top = A(1), .left = A(2), .lines = A(3), .cols = A(4) });
  else if(strcmp(op, "skiprect") == 0 && argc == 5)
    tickit_renderbuffer_skiprect(rb, &(TickitRect){ .top = A(1), .left = A(2), .lines = A(3), .cols = A(4) });
  else if(strcmp(op, "goto") == 0 && argc == 3)     tickit_renderbuffer_goto(rb, A(1), A(2));
  else if(strcmp(op, "ungoto") == 0 && argc == 1)   tickit_renderbuffer_ungoto(rb);
  else if(strcmp(op, "xl") == 0 && argc == 3)       tickit_renderbuffer_translate(rb, A(1), A(2));
  else if(strcmp(op, "clip") == 0 && argc == 5)
    tickit_renderbuffer_clip(rb, &(TickitRect){ .top = A(1), .left = A(2), .lines = A(3), .cols = A(4) });
  else if(strcmp(op, "mask") == 0 && argc == 5)
    tickit_renderbuffer_mask(rb, &(TickitRect){ .top = A(1), .left = A(2), .lines = A(3), .cols = A(4) });
  else if(strcmp(op, "setpen") == 0 && argc == 2) {
    TickitPen *pen = parse_pen(argv[1]);
    tickit_renderbuffer_setpen(rb, pen);
    if(pen) tickit_pen_unref(pen);
  }
  else if(strcmp(op, "save") == 0 && argc == 1)     tickit_renderbuffer_save(rb);
  else if(strcmp(op, "savepen") == 0 && argc == 1)  tickit_renderbuffer_savepen(rb);
  else if(strcmp(op, "restore") == 0 && argc == 1)  tickit_renderbuffer_restore(rb);
  else if(strcmp(op, "reset") == 0 && argc == 1)    tickit_renderbuffer_reset(rb);
  else if(strcmp(op, "getcur") == 0 && argc == 1) {
    int line = -77, col = -77;   /* get_cursorpos leaves them alone when no position is set */
    int has = tickit_renderbuffer_has_cursorpos(rb);
    tickit_renderbuffer_get_cursorpos(rb, &line, &col);
    obs("r=%d,%d,%d", has, line, col); dump(); return;
  }
  else if(strcmp(op, "getcells") == 0 && argc == 1) {
    int lines, cols;
    tickit_renderbuffer_get_size(rb, &lines, &cols);
    obs("r=");
    for(int l = -1; l <= lines; l++)
      for(int c = -1; c <= cols; c++) {
        int a = tickit_renderbuffer_get_cell_active(rb, l, c);
        char buf[256];
        memset(buf, 0x55, sizeof buf);
        long tn = (long)tickit_renderbuffer_get_cell_text(rb, l, c, buf, sizeof buf - 1);
        TickitRenderBufferLineMask lm = tickit_renderbuffer_get_cell_linemask(rb, l, c);
        obs("%s%d", (l == -1 && c == -1) ? "" : ";", a);
        obs_pen(tickit_renderbuffer_get_cell_pen(rb, l, c));
        obs("%d.%d.%d.%d:%ld:", lm.north, lm.south, lm.east, lm.west, tn);
        if(tn >= 0) obs_hex(buf, tn); else obs("x");
      }
    dump(); return;
  }
  else if(strcmp(op, "getcell") == 0 && argc == 4) {
    int l = A(1), c = A(2);
    long len = atol(argv[3]);
    if(len < -1 || len > 65536) { obs("bad-op"); return; }
    char *buf = query_buffer(len);
    int a = tickit_renderbuffer_get_cell_active(rb, l, c);
    long tn = (long)tickit_renderbuffer_get_cell_text(rb, l, c, buf, len < 0 ? 0 : len);
    TickitRenderBufferLineMask lm = tickit_renderbuffer_get_cell_linemask(rb, l, c);
    obs("r=%d", a);
    obs_pen(tickit_renderbuffer_get_cell_pen(rb, l, c));
    obs("%d.%d.%d.%d:%ld:", lm.north, lm.south, lm.east, lm.west, tn);
    obs_query_buffer(buf, len);
    free(buf);
    dump(); return;
  }
  else if(strcmp(op, "getspan") == 0 && argc == 5) {
    int l = A(1), c = A(2), mode = A(4);
    long len = atol(argv[3]);
    if(len < 0 || len > 65536 || mode < 0 || mode > 7) { obs("bad-op"); return; }
    char *buf = (mode & 4) ? query_buffer(len) : NULL;
    static char untouched;
    TickitPen *pen = NULL;
    if(mode & 2) {
      pen = tickit_pen_new_attrs(TICKIT_PEN_FG, 9, TICKIT_PEN_BOLD, 1, 0);
    }
    struct TickitRenderBufferSpanInfo info = { .is_active = 1, .n_columns = -77, .text = &untouched, .len = 7777, .pen = pen };
    long ret = (long)tickit_renderbuffer_get_span(rb, l, c, (mode & 1) ? &info : NULL, buf, len);
    obs("r=%ld,%d,%d,%ld,%c,", ret, (int)info.is_active, info.n_columns, (long)info.len,
        info.text == &untouched ? 'U' : info.text == NULL ? 'N' : info.text == buf ? 'B' : '?');
    obs_pen(info.pen);
    obs(",");
    obs_query_buffer(buf, len);
    if(pen) tickit_pen_unref(pen);
    free(buf);
    dump(); return;
  }
  else { obs("bad-op"); return; }

  free(bytes);
  if(have_ret) obs("r=%d", ret); else obs("r=-");
  dump();
}
