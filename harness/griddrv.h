/* griddrv.h — a harness-owned grid terminal driver (DESIGN.md §7 C01/C02/C15; engines win, focus, input).
 *
 * The driver is injected through TickitTermBuilder.driver.  It keeps a grid of cells (glyph + pen digest),
 * the cursor (position, visibility, blink, shape) and the current pen, and answers scroll requests according to one
 * of three oracles:
 *     GD_ACCEPT   every tickit_term_scrollrect() is performed
 *     GD_PARTIAL  performed only in the cases the library's own mock terminal / a DECSTBM-only terminal can do:
 *                 full-width vertical scrolls, and horizontal scrolls of a region reaching the right edge
 *     GD_REFUSE   never performed (returns false)
 * A performed scroll of `rect` by (downward, rightward): every cell (l,c) of rect (inside the grid) receives the cell
 * (l+downward, c+rightward) when that lies inside rect (and the grid), otherwise a blank in the current pen.
 *
 * Usage:
 *     GridDrv *gd = griddrv_new(lines, cols, GD_ACCEPT);
 *     TickitTerm *tt = griddrv_term(gd);            // owns gd from now on (destroyed with the terminal)
 *     griddrv_resize(gd, tt, lines, cols);          // resizes the grid, then tickit_term_set_size()
 * All functions are static: include this header in exactly one translation unit of the harness.
 */
#ifndef GRIDDRV_H
#define GRIDDRV_H
#include "tickit.h"
#include "tickit-termdrv.h"
#include <stdlib.h>
#include <string.h>

enum { GD_ACCEPT = 0, GD_PARTIAL = 1, GD_REFUSE = 2 };

typedef struct {
  int glyph;      /* first code point of the cell; ' ' for a blank; 0 for the second half of a wide character */
  int fg, bg;     /* colour indices, -1 = default */
  int attrs;      /* bit 0 bold, 1 italic, 2 reverse, 3 strike, 4 blink; bits 8.. underline style */
  unsigned long stamp;   /* value of gd->clock when the cell was last written (0 = never) */
} GDCell;

typedef struct {
  TickitTermDriver super;
  int lines, cols;
  GDCell *cells;
  int line, col;                       /* cursor position as the driver tracks it */
  int cursorvis, cursorblink, cursorshape;
  int fg, bg, attrs;                   /* current pen */
  int scrollmode;
  unsigned long clock;                 /* bumped by the harness (e.g. once per flush) */
  long n_print, n_erase, n_goto, n_scroll_done, n_scroll_refused;
} GridDrv;

static GDCell *gd_cell(GridDrv *gd, int line, int col)
{
  return &gd->cells[(size_t)line * gd->cols + col];
}

static void gd_blank(GridDrv *gd, GDCell *c)
{
  c->glyph = ' '; c->fg = gd->fg; c->bg = gd->bg; c->attrs = gd->attrs; c->stamp = gd->clock;
}

static void gd_destroy(TickitTermDriver *ttd)
{
  GridDrv *gd = (GridDrv *)ttd;
  free(gd->cells);
  free(gd);
}

static bool gd_print(TickitTermDriver *ttd, const char *str, size_t len)
{
  GridDrv *gd = (GridDrv *)ttd;
  gd->n_print++;
  if(gd->line < 0 || gd->line >= gd->lines)
    return true;

  int col = gd->col;
  size_t i = 0;
  while(i < len) {
    const unsigned char *b = (const unsigned char *)str + i;
    size_t seqlen = b[0] >= 0xf0 ? 4 : b[0] >= 0xe0 ? 3 : b[0] >= 0xc0 ? 2 : 1;
    if(i + seqlen > len)
      seqlen = len - i;
    int cp = b[0];
    if(seqlen == 4)      cp = ((b[0] & 0x07) << 18) | ((b[1] & 0x3f) << 12) | ((b[2] & 0x3f) << 6) | (b[3] & 0x3f);
    else if(seqlen == 3) cp = ((b[0] & 0x0f) << 12) | ((b[1] & 0x3f) << 6) | (b[2] & 0x3f);
    else if(seqlen == 2) cp = ((b[0] & 0x1f) << 6) | (b[1] & 0x3f);
    /* width by the library's own tables */
    TickitStringPos pos;
    int width = 1;
    if(tickit_utf8_ncount((const char *)b, seqlen, &pos, NULL) != (size_t)-1)
      width = pos.columns;
    i += seqlen;
    if(width == 0)                       /* combining: belongs to the previous cell */
      continue;
    for(int c = col; c < col + width; c++) {
      if(c < 0 || c >= gd->cols)
        continue;                        /* beyond the right edge: dropped, no wrap */
      GDCell *cell = gd_cell(gd, gd->line, c);
      cell->glyph = c == col ? cp : 0;
      cell->fg = gd->fg; cell->bg = gd->bg; cell->attrs = gd->attrs; cell->stamp = gd->clock;
    }
    col += width;
  }
  gd->col = col;
  return true;
}

static bool gd_goto_abs(TickitTermDriver *ttd, int line, int col)
{
  GridDrv *gd = (GridDrv *)ttd;
  gd->n_goto++;
  if(line < 0) line = 0;
  if(line > gd->lines - 1) line = gd->lines - 1;
  if(col < 0) col = 0;
  if(col > gd->cols - 1) col = gd->cols - 1;
  gd->line = line;
  gd->col  = col;
  return true;
}

static bool gd_move_rel(TickitTermDriver *ttd, int downward, int rightward)
{
  GridDrv *gd = (GridDrv *)ttd;
  return gd_goto_abs(ttd, gd->line + downward, gd->col + rightward);
}

static bool gd_scroll_possible(GridDrv *gd, const TickitRect *rect, int downward, int rightward)
{
  switch(gd->scrollmode) {
    case GD_ACCEPT: return true;
    case GD_REFUSE: return false;
    default: break;
  }
  /* GD_PARTIAL: the rule of src/mockterm.c */
  if(!downward && !rightward)
    return true;
  if(rect->top < 0 || rect->left < 0 || tickit_rect_bottom(rect) > gd->lines || tickit_rect_right(rect) > gd->cols)
    return false;
  if(rect->left == 0 && tickit_rect_right(rect) == gd->cols && rightward == 0)
    return true;
  if(tickit_rect_right(rect) == gd->cols && downward == 0)
    return true;
  return false;
}

static bool gd_scrollrect(TickitTermDriver *ttd, const TickitRect *rect, int downward, int rightward)
{
  GridDrv *gd = (GridDrv *)ttd;
  if(!gd_scroll_possible(gd, rect, downward, rightward)) {
    gd->n_scroll_refused++;
    return false;
  }
  gd->n_scroll_done++;
  int top = rect->top, left = rect->left, bottom = tickit_rect_bottom(rect), right = tickit_rect_right(rect);
  if(top < 0) top = 0;
  if(left < 0) left = 0;
  if(bottom > gd->lines) bottom = gd->lines;
  if(right > gd->cols) right = gd->cols;
  if(top >= bottom || left >= right)
    return true;
  size_t n = (size_t)gd->lines * gd->cols;
  GDCell *old = malloc(n * sizeof(GDCell));
  memcpy(old, gd->cells, n * sizeof(GDCell));
  for(int l = top; l < bottom; l++)
    for(int c = left; c < right; c++) {
      int sl = l + downward, sc = c + rightward;
      GDCell *dst = gd_cell(gd, l, c);
      if(sl >= top && sl < bottom && sc >= left && sc < right)
        *dst = old[(size_t)sl * gd->cols + sc];
      else
        gd_blank(gd, dst);
    }
  free(old);
  return true;
}

static bool gd_erasech(TickitTermDriver *ttd, int count, TickitMaybeBool moveend)
{
  GridDrv *gd = (GridDrv *)ttd;
  gd->n_erase++;
  int right = gd->col + count;
  if(right > gd->cols) right = gd->cols;
  if(gd->line >= 0 && gd->line < gd->lines)
    for(int c = gd->col < 0 ? 0 : gd->col; c < right; c++)
      gd_blank(gd, gd_cell(gd, gd->line, c));
  if(moveend == TICKIT_YES)
    gd->col = right;
  /* TICKIT_MAYBE: this terminal leaves the cursor where it was */
  return true;
}

static bool gd_clear(TickitTermDriver *ttd)
{
  GridDrv *gd = (GridDrv *)ttd;
  for(int l = 0; l < gd->lines; l++)
    for(int c = 0; c < gd->cols; c++)
      gd_blank(gd, gd_cell(gd, l, c));
  return true;
}

static bool gd_chpen(TickitTermDriver *ttd, const TickitPen *delta, const TickitPen *final)
{
  GridDrv *gd = (GridDrv *)ttd;
  (void)delta;
  gd->fg = tickit_pen_get_colour_attr(final, TICKIT_PEN_FG);
  gd->bg = tickit_pen_get_colour_attr(final, TICKIT_PEN_BG);
  gd->attrs = (tickit_pen_get_bool_attr(final, TICKIT_PEN_BOLD)    ? 1 : 0)
            | (tickit_pen_get_bool_attr(final, TICKIT_PEN_ITALIC)  ? 2 : 0)
            | (tickit_pen_get_bool_attr(final, TICKIT_PEN_REVERSE) ? 4 : 0)
            | (tickit_pen_get_bool_attr(final, TICKIT_PEN_STRIKE)  ? 8 : 0)
            | (tickit_pen_get_bool_attr(final, TICKIT_PEN_BLINK)   ? 16 : 0)
            | (tickit_pen_get_int_attr(final, TICKIT_PEN_UNDER) << 8);
  return true;
}

static bool gd_getctl_int(TickitTermDriver *ttd, TickitTermCtl ctl, int *value)
{
  GridDrv *gd = (GridDrv *)ttd;
  switch(ctl) {
    case TICKIT_TERMCTL_CURSORVIS:   *value = gd->cursorvis;   return true;
    case TICKIT_TERMCTL_CURSORBLINK: *value = gd->cursorblink; return true;
    case TICKIT_TERMCTL_CURSORSHAPE: *value = gd->cursorshape; return true;
    case TICKIT_TERMCTL_COLORS:      *value = 256;             return true;
    default: return false;
  }
}

static bool gd_setctl_int(TickitTermDriver *ttd, TickitTermCtl ctl, int value)
{
  GridDrv *gd = (GridDrv *)ttd;
  switch(ctl) {
    case TICKIT_TERMCTL_CURSORVIS:   gd->cursorvis = !!value;   return true;
    case TICKIT_TERMCTL_CURSORBLINK: gd->cursorblink = !!value; return true;
    case TICKIT_TERMCTL_CURSORSHAPE: gd->cursorshape = value;   return true;
    case TICKIT_TERMCTL_ALTSCREEN:
    case TICKIT_TERMCTL_MOUSE:
    case TICKIT_TERMCTL_KEYPAD_APP:
      return true;
    default:
      return false;
  }
}

static bool gd_setctl_str(TickitTermDriver *ttd, TickitTermCtl ctl, const char *value)
{
  (void)ttd; (void)ctl; (void)value;
  return false;
}

static TickitTermDriverVTable gd_vtable = {
  .destroy    = gd_destroy,
  .print      = gd_print,
  .goto_abs   = gd_goto_abs,
  .move_rel   = gd_move_rel,
  .scrollrect = gd_scrollrect,
  .erasech    = gd_erasech,
  .clear      = gd_clear,
  .chpen      = gd_chpen,
  .getctl_int = gd_getctl_int,
  .setctl_int = gd_setctl_int,
  .setctl_str = gd_setctl_str,
};

static void gd_alloc(GridDrv *gd, int lines, int cols)
{
  gd->lines = lines;
  gd->cols  = cols;
  gd->cells = malloc((size_t)(lines > 0 ? lines : 1) * (cols > 0 ? cols : 1) * sizeof(GDCell));
  for(int l = 0; l < lines; l++)
    for(int c = 0; c < cols; c++) {
      GDCell *cell = gd_cell(gd, l, c);
      cell->glyph = ' '; cell->fg = -1; cell->bg = -1; cell->attrs = 0; cell->stamp = 0;
    }
}

__attribute__((unused)) static GridDrv *griddrv_new(int lines, int cols, int scrollmode)
{
  GridDrv *gd = calloc(1, sizeof(GridDrv));
  gd->super.vtable = &gd_vtable;
  gd->super.name = "griddrv";
  gd->line = gd->col = 0;
  gd->fg = gd->bg = -1;
  gd->scrollmode = scrollmode;
  gd_alloc(gd, lines, cols);
  return gd;
}

__attribute__((unused)) static TickitTerm *griddrv_term(GridDrv *gd)
{
  TickitTerm *tt = tickit_term_build(&(struct TickitTermBuilder){
    .termtype = "xterm",
    .driver   = &gd->super,
  });
  if(!tt)
    return NULL;
  tickit_term_set_size(tt, gd->lines, gd->cols);
  return tt;
}

/* resize the grid (cells in the common area are kept, new cells are never-written blanks), then tell the library */
__attribute__((unused)) static void griddrv_resize(GridDrv *gd, TickitTerm *tt, int lines, int cols)
{
  GDCell *old = gd->cells;
  int ol = gd->lines, oc = gd->cols;
  gd_alloc(gd, lines, cols);
  for(int l = 0; l < lines && l < ol; l++)
    for(int c = 0; c < cols && c < oc; c++)
      *gd_cell(gd, l, c) = old[(size_t)l * oc + c];
  free(old);
  if(gd->line > lines - 1) gd->line = lines - 1;
  if(gd->col > cols - 1) gd->col = cols - 1;
  tickit_term_set_size(tt, lines, cols);
}

#endif
