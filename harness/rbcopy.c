/* Engine `rbcopy` (C13): copyrect / moverect / blit of src/renderbuffer.c on top of the operation vocabulary of
 * engine `rb` (harness/rb.c, whose helpers are copied here).  Up to NBUF render buffers live in one history.
 *
 * Operations (in addition to those of harness/rb.c, which act on the *current* buffer):
 *   new L C                    start of a history: buffer 0 of that size, current
 *   addbuf L C                 one more buffer (next index); the current buffer stays
 *   sel k                      make buffer k current
 *   copy dt dl st sl n c       tickit_renderbuffer_copyrect(cur, {dt,dl,n,c}, {st,sl,n,c})
 *   move dt dl st sl n c       tickit_renderbuffer_moverect(cur, {dt,dl,n,c}, {st,sl,n,c})
 *   copy dt dl st sl n c dn dc   the same with the destination rectangle {dt,dl,dn,dc}: only its position is
 *   move dt dl st sl n c dn dc   meaningful (the size is the source's), so dn x dc may be anything (1x1, 0x0, larger)
 *   blit k                     tickit_renderbuffer_blit(cur, buffer k)      (k may be the current buffer)
 * Observation: `r=<result or -> <dump of the current buffer>`; for `blit k` followed by ` | <dump of buffer k>`.
 * A source rectangle with positive extent that is not inside the buffer makes the library read outside its
 * arrays; the harness refuses such a call (`bad-op`), as does the model driver.
 */
#define HCOMMON_MAIN
#include "hcommon.h"
#include "tickit.h"

const char *__asan_default_options(void);
const char *__asan_default_options(void) { return "malloc_fill_byte=190:max_malloc_fill_size=4096"; }

void tickit_renderbuffer_verif_dump(TickitRenderBuffer *rb, FILE *fh);

#define NBUF 4
static TickitRenderBuffer *bufs[NBUF];
static int nbufs, cur;
#define rb (bufs[cur])

static void drop_all(void)
{
  for(int i = 0; i < nbufs; i++)
    if(bufs[i]) { tickit_renderbuffer_unref(bufs[i]); bufs[i] = NULL; }
  nbufs = 0; cur = 0;
}
static void engine_begin(void) { nbufs = 0; cur = 0; for(int i = 0; i < NBUF; i++) bufs[i] = NULL; }
static void engine_end(void) { drop_all(); }

static void dump_of(TickitRenderBuffer *b)
{
  char *buf = NULL;
  size_t len = 0;
  FILE *fh = open_memstream(&buf, &len);
  tickit_renderbuffer_verif_dump(b, fh);
  fclose(fh);
  obs_raw(" ", 1);
  obs_raw(buf, len);
  free(buf);
}
static void dump(void) { dump_of(rb); }

/* is the call free of out-of-array reads?  (nothing is read when the rectangle has no extent) */
static int src_ok(TickitRenderBuffer *b, int top, int left, int lines, int cols)
{
  if(lines <= 0 || cols <= 0) return 1;
  int L, C;
  tickit_renderbuffer_get_size(b, &L, &C);
  return top >= 0 && left >= 0 && top + lines <= L && left + cols <= C;
}

static void obs_pen(const TickitPen *pen)
{
  if(!pen) { obs("{NULL}"); return; }
  obs("{");
  int first = 1;
  for(TickitPenAttr attr = 1; attr < TICKIT_N_PEN_ATTRS; attr++) {
    if(!tickit_pen_has_attr(pen, attr)) continue;
    obs("%s%s=", first ? "" : ",", tickit_penattr_name(attr));
    first = 0;
    switch(tickit_penattr_type(attr)) {
      case TICKIT_PENTYPE_BOOL: obs("%d", tickit_pen_get_bool_attr(pen, attr)); break;
      case TICKIT_PENTYPE_INT:  obs("%d", tickit_pen_get_int_attr(pen, attr)); break;
      case TICKIT_PENTYPE_COLOUR:
        obs("%d", tickit_pen_get_colour_attr(pen, attr));
        if(tickit_pen_has_colour_attr_rgb8(pen, attr)) {
          TickitPenRGB8 v = tickit_pen_get_colour_attr_rgb8(pen, attr);
          obs("#%02x%02x%02x", v.r, v.g, v.b);
        }
        break;
    }
  }
  obs("}");
}

/* PEN syntax of the protocol -> a new pen (caller unrefs); NULL for the token NULL */
static TickitPen *parse_pen(const char *spec)
{
  if(strcmp(spec, "NULL") == 0) return NULL;
  TickitPen *pen = tickit_pen_new();
  if(strcmp(spec, "-") == 0) return pen;
  char *copy = strdup(spec), *save = NULL;
  for(char *t = strtok_r(copy, ",", &save); t; t = strtok_r(NULL, ",", &save)) {
    char *eq = strchr(t, '=');
    if(!eq) continue;
    *eq = 0;
    TickitPenAttr attr = tickit_penattr_lookup(t);
    if((int)attr < 1) continue;
    const char *val = eq + 1;
    switch(tickit_penattr_type(attr)) {
      case TICKIT_PENTYPE_BOOL: tickit_pen_set_bool_attr(pen, attr, atoi(val)); break;
      case TICKIT_PENTYPE_INT:  tickit_pen_set_int_attr(pen, attr, atoi(val)); break;
      case TICKIT_PENTYPE_COLOUR: {
        tickit_pen_set_colour_attr(pen, attr, atoi(val));
        const char *hash = strchr(val, '#');
        if(hash) {
          unsigned r, g, b;
          if(sscanf(hash + 1, "%2x%2x%2x", &r, &g, &b) == 3)
            tickit_pen_set_colour_attr_rgb8(pen, attr, (TickitPenRGB8){ .r = r, .g = g, .b = b });
        }
        break;
      }
    }
  }
  free(copy);
  return pen;
}

#define A(i) atoi(argv[i])

static void engine_op(int argc, char **argv)
{
  const char *op = argc ? argv[0] : "";
  if(strcmp(op, "new") == 0 && argc == 3) {
    drop_all();
    bufs[0] = tickit_renderbuffer_new(A(1), A(2)); nbufs = 1; cur = 0;
    obs("r=-"); dump(); return;
  }
  if(!nbufs) { obs("bad-op"); return; }
  if(strcmp(op, "addbuf") == 0 && argc == 3) {
    if(nbufs >= NBUF) { obs("bad-op"); return; }
    bufs[nbufs++] = tickit_renderbuffer_new(A(1), A(2));
    obs("r=-"); dump(); return;
  }
  if(strcmp(op, "sel") == 0 && argc == 2) {
    if(A(1) < 0 || A(1) >= nbufs) { obs("bad-op"); return; }
    cur = A(1);
    obs("r=-"); dump(); return;
  }
  if((strcmp(op, "copy") == 0 || strcmp(op, "move") == 0) && (argc == 7 || argc == 9)) {
    TickitRect dest = { .top = A(1), .left = A(2), .lines = argc == 9 ? A(7) : A(5), .cols = argc == 9 ? A(8) : A(6) };
    TickitRect src  = { .top = A(3), .left = A(4), .lines = A(5), .cols = A(6) };
    if(!src_ok(rb, src.top, src.left, src.lines, src.cols)) { obs("bad-op"); return; }
    if(op[0] == 'c') tickit_renderbuffer_copyrect(rb, &dest, &src);
    else             tickit_renderbuffer_moverect(rb, &dest, &src);
    obs("r=-"); dump(); return;
  }
  if(strcmp(op, "blit") == 0 && argc == 2) {
    if(A(1) < 0 || A(1) >= nbufs) { obs("bad-op"); return; }
    tickit_renderbuffer_blit(rb, bufs[A(1)]);
    obs("r=-"); dump(); obs(" |"); dump_of(bufs[A(1)]); return;
  }

  int have_ret = 0, ret = 0;
  unsigned char *bytes = NULL;

  if(strcmp(op, "text_at") == 0 && argc == 4) {
    long n = hex_decode(argv[3], &bytes);
    if(n < 0) { obs("bad-op"); return; }
    ret = tickit_renderbuffer_textn_at(rb, A(1), A(2), (char *)bytes, n); have_ret = 1;
  }
  else if(strcmp(op, "textf_at") == 0 && argc == 4) {
    long n = hex_decode(argv[3], &bytes);
    if(n < 0) { obs("bad-op"); return; }
    ret = tickit_renderbuffer_textf_at(rb, A(1), A(2), "%s", (char *)bytes); have_ret = 1;
  }
  else if(strcmp(op, "text") == 0 && argc == 2) {
    long n = hex_decode(argv[1], &bytes);
    if(n < 0) { obs("bad-op"); return; }
    ret = tickit_renderbuffer_textn(rb, (char *)bytes, n); have_ret = 1;
  }
  else if(strcmp(op, "textf") == 0 && argc == 2) {
    long n = hex_decode(argv[1], &bytes);
    if(n < 0) { obs("bad-op"); return; }
    ret = tickit_renderbuffer_textf(rb, "%s", (char *)bytes); have_ret = 1;
  }
  else if(strcmp(op, "erase_at") == 0 && argc == 4) tickit_renderbuffer_erase_at(rb, A(1), A(2), A(3));
  else if(strcmp(op, "erase") == 0 && argc == 2)    tickit_renderbuffer_erase(rb, A(1));
  else if(strcmp(op, "erase_to") == 0 && argc == 2) tickit_renderbuffer_erase_to(rb, A(1));
  else if(strcmp(op, "skip_at") == 0 && argc == 4)  tickit_renderbuffer_skip_at(rb, A(1), A(2), A(3));
  else if(strcmp(op, "skip") == 0 && argc == 2)     tickit_renderbuffer_skip(rb, A(1));
  else if(strcmp(op, "skip_to") == 0 && argc == 2)  tickit_renderbuffer_skip_to(rb, A(1));
  else if(strcmp(op, "char_at") == 0 && argc == 4)  tickit_renderbuffer_char_at(rb, A(1), A(2), atol(argv[3]));
  else if(strcmp(op, "char") == 0 && argc == 2)     tickit_renderbuffer_char(rb, atol(argv[1]));
  else if(strcmp(op, "hline") == 0 && argc == 6)    tickit_renderbuffer_hline_at(rb, A(1), A(2), A(3), A(4), A(5));
  else if(strcmp(op, "vline") == 0 && argc == 6)    tickit_renderbuffer_vline_at(rb, A(1), A(2), A(3), A(4), A(5));
  else if(strcmp(op, "clear") == 0 && argc == 1)    tickit_renderbuffer_clear(rb);
  else if(strcmp(op, "eraserect") == 0 && argc == 5)
    tickit_renderbuffer_eraserect(rb, &(TickitRect){ .top = A(1), .left = A(2), .lines = A(3), .cols = A(4) });
  else if(strcmp(op, "skiprect") == 0 && argc == 5)
    tickit_renderbuffer_skiprect(rb, &(TickitRect){ .top = A(1), .left = A(2), .lines = A(3), .cols = A(4) });
  else if(strcmp(op, "goto") == 0 && argc == 3)     tickit_renderbuffer_goto(rb, A(1), A(2));
  else if(strcmp(op, "ungoto") == 0 && argc == 1)   tickit_renderbuffer_ungoto(rb);
  else if(strcmp(op, "xl") == 0 && argc == 3)       tickit_renderbuffer_translate(rb, A(1), A(2));
  else if(strcmp(op, "clip") == 0 && argc == 5)
    tickit_renderbuffer_clip(rb, &(TickitRect){ .top = A(1), .left = A(2), .lines = A(3), .cols = A(4) });
  else if(strcmp(op, "mask") == 0 && argc == 5)
    tickit_renderbuffer_mask(rb, &(TickitRect){ .top = A(1), .left = A(2), .lines = A(3), .cols = A(4) });
  else if(strcmp(op, "setpen") == 0 && argc == 2) {
    TickitPen *pen = parse_pen(argv[1]);
    tickit_renderbuffer_setpen(rb, pen);
    if(pen) tickit_pen_unref(pen);
  }
  else if(strcmp(op, "save") == 0 && argc == 1)     tickit_renderbuffer_save(rb);
  else if(strcmp(op, "savepen") == 0 && argc == 1)  tickit_renderbuffer_savepen(rb);
  else if(strcmp(op, "restore") == 0 && argc == 1)  tickit_renderbuffer_restore(rb);
  else if(strcmp(op, "reset") == 0 && argc == 1)    tickit_renderbuffer_reset(rb);
  else if(strcmp(op, "getcur") == 0 && argc == 1) {
    int line = -77, col = -77;   /* get_cursorpos leaves them alone when no position is set */
    int has = tickit_renderbuffer_has_cursorpos(rb);
    tickit_renderbuffer_get_cursorpos(rb, &line, &col);
    obs("r=%d,%d,%d", has, line, col); dump(); return;
  }
  else if(strcmp(op, "getcells") == 0 && argc == 1) {
    int lines, cols;
    tickit_renderbuffer_get_size(rb, &lines, &cols);
    obs("r=");
    for(int l = -1; l <= lines; l++)
      for(int c = -1; c <= cols; c++) {
        int a = tickit_renderbuffer_get_cell_active(rb, l, c);
        char buf[256];
        memset(buf, 0x55, sizeof buf);
        long tn = (long)tickit_renderbuffer_get_cell_text(rb, l, c, buf, sizeof buf - 1);
        TickitRenderBufferLineMask lm = tickit_renderbuffer_get_cell_linemask(rb, l, c);
        obs("%s%d", (l == -1 && c == -1) ? "" : ";", a);
        obs_pen(tickit_renderbuffer_get_cell_pen(rb, l, c));
        obs("%d.%d.%d.%d:%ld:", lm.north, lm.south, lm.east, lm.west, tn);
        if(tn >= 0) obs_hex(buf, tn); else obs("x");
      }
    dump(); return;
  }
  else { obs("bad-op"); return; }

  free(bytes);
  if(have_ret) obs("r=%d", ret); else obs("r=-");
  dump();
}
