/* Engine `rect` (C06): drives /repo/src/rect.c.  Operations: isect|add|sub|contains|intersects a b */
#define HCOMMON_MAIN
#include "hcommon.h"
#include "tickit.h"

static void engine_begin(void) {}
static void engine_end(void) {}

#define CANARY 0x5a5a1234

static void prect(const TickitRect *r) { obs(" %d %d %d %d", r->top, r->left, r->lines, r->cols); }

static void engine_op(int argc, char **argv)
{
  if(argc == 1 && strcmp(argv[0], "new") == 0) { obs("ok"); return; }
  if(argc != 9) { obs("bad-op"); return; }
  TickitRect a, b;
  tickit_rect_init_sized(&a, atoi(argv[1]), atoi(argv[2]), atoi(argv[3]), atoi(argv[4]));
  tickit_rect_init_sized(&b, atoi(argv[5]), atoi(argv[6]), atoi(argv[7]), atoi(argv[8]));
  const TickitRect a0 = a, b0 = b;
  const char *op = argv[0];

  /* result array between two canary rectangles; sized as the documented callers size it */
  struct { TickitRect pre; TickitRect ret[5]; TickitRect post; } box;
  for(int *p = (int *)&box; p < (int *)(&box + 1); p++) *p = CANARY;

  if(strcmp(op, "isect") == 0) {
    bool ok = tickit_rect_intersect(&box.ret[0], &a, &b);
    obs("%d", ok);
    if(ok) prect(&box.ret[0]);
    else if(box.ret[0].top != CANARY) obs(" dst-written");
    if(box.ret[1].top != CANARY) obs(" canary");
  }
  else if(strcmp(op, "add") == 0) {
    int n = tickit_rect_add(box.ret, &a, &b);
    obs("%d", n);
    for(int i = 0; i < n && i < 5; i++) prect(&box.ret[i]);
    if(box.ret[3].top != CANARY || box.post.top != CANARY || box.pre.cols != CANARY) obs(" canary");
  }
  else if(strcmp(op, "sub") == 0) {
    int n = tickit_rect_subtract(box.ret, &a, &b);
    obs("%d", n);
    for(int i = 0; i < n && i < 5; i++) prect(&box.ret[i]);
    if(box.ret[4].top != CANARY || box.post.top != CANARY || box.pre.cols != CANARY) obs(" canary");
  }
  else if(strcmp(op, "contains") == 0)
    obs("%d", tickit_rect_contains(&a, &b));
  else if(strcmp(op, "intersects") == 0)
    obs("%d", tickit_rect_intersects(&a, &b));
  else
    obs("bad-op");

  if(memcmp(&a, &a0, sizeof a) || memcmp(&b, &b0, sizeof b)) obs(" input-modified");
}
