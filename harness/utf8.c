/* Engine `utf8` (C07): drives /repo/src/utf8.c.
 *
 * Every input buffer is copied so that its last byte is the last byte before a PROT_NONE page; a read or
 * write past the end is a SIGSEGV, reported as the observation `segv` (never silently survived).
 *
 *   count <hex> nul|len=<n> <lim> <from>     lim = `-` (NULL) | b,c,g,col (-1 = none);  from = `-` | b,c,g,col
 *        entry point: nul,-  tickit_utf8_count      nul,from  tickit_utf8_countmore
 *                     len,-  tickit_utf8_ncount     len,from  tickit_utf8_ncountmore
 *        -> `<ret> <bytes> <codepoints> <graphemes> <columns>`
 *   split <hex> nul|len=<n> <lim1> <lim2>    count(lim1); countmore from there with lim2; count(lim2)
 *        -> `<r1> <p1> | <r2> <p2> | <r3> <p3>`
 *   put <cp> <buflen>|null   -> `<ret> <bytes written as hex> [canary]`
 *   seqlen <cp>              -> `<ret>`
 *   width <cp>               -> `<tickit_utf8_wcwidth(cp)>`  (this file's copy of the static function in unicode.h)
 *   cp <cp>                  -> `<seqlen> <putret> <hex> <ret> <b> <c> <g> <col>`   put, NUL-terminate, count
 *   mbs <hex> | b2c <hex> <byte> | c2b <hex> <col>     (buffer used as given: the generator supplies the NUL)
 *   table combining|fullwidth -> `<n> a-b a-b ...` (hex)
 *   sweep <lo> <hi>          -> run-length summary of width/seqlen/count over cp in [lo,hi) + FNV-1a of the put bytes
 */
#define HCOMMON_MAIN
#include "hcommon.h"
#include "tickit.h"
#include "unicode.h"
#include <sys/mman.h>
#include <signal.h>
#include <setjmp.h>
#include <stdint.h>
#include <inttypes.h>

#define DATA_PAGES 17
static unsigned char *region;   /* DATA_PAGES writable pages followed by one PROT_NONE page */
static unsigned char *guard;
static long pagesz;
static sigjmp_buf segv_jmp;
static volatile sig_atomic_t segv_armed;

static void on_segv(int sig, siginfo_t *si, void *uc)
{
  (void)uc;
  if(segv_armed && (unsigned char *)si->si_addr >= guard && (unsigned char *)si->si_addr < guard + pagesz) {
    segv_armed = 0;
    siglongjmp(segv_jmp, 1);
  }
  signal(sig, SIG_DFL);
  raise(sig);
}

static void engine_begin(void)
{
  if(region) return;
  pagesz = sysconf(_SC_PAGESIZE);
  region = mmap(NULL, (DATA_PAGES + 1) * pagesz, PROT_READ | PROT_WRITE, MAP_PRIVATE | MAP_ANONYMOUS, -1, 0);
  if(region == MAP_FAILED) _exit(96);
  guard = region + DATA_PAGES * pagesz;
  if(mprotect(guard, pagesz, PROT_NONE) != 0) _exit(96);
  struct sigaction sa;
  memset(&sa, 0, sizeof sa);
  sa.sa_sigaction = on_segv;
  sa.sa_flags = SA_SIGINFO | SA_NODEFER;
  sigaction(SIGSEGV, &sa, NULL);
  sigaction(SIGBUS, &sa, NULL);
}
static void engine_end(void) {}

/* copy n bytes so that they end exactly at the guard page; everything before is 0xA5 (never NUL) */
static char *place(const unsigned char *b, size_t n)
{
  if(n > (size_t)(DATA_PAGES - 1) * pagesz) return NULL;
  memset(guard - n - 64, 0xA5, 64);
  memcpy(guard - n, b, n);
  return (char *)(guard - n);
}

static int parse_quad(const char *s, TickitStringPos *p)
{
  long long b; int c, g, col;
  if(sscanf(s, "%lld,%d,%d,%d", &b, &c, &g, &col) != 4) return 0;
  p->bytes = (size_t)b; p->codepoints = c; p->graphemes = g; p->columns = col;
  return 1;
}

static void obs_res(size_t ret, const TickitStringPos *p)
{
  obs("%lld %lld %d %d %d", (long long)(ssize_t)ret, (long long)(ssize_t)p->bytes, p->codepoints, p->graphemes, p->columns);
}

/* mode: "nul" or "len=<n>" */
static int parse_mode(const char *s, int *bounded, size_t *len)
{
  if(strcmp(s, "nul") == 0) { *bounded = 0; *len = (size_t)-1; return 1; }
  if(strncmp(s, "len=", 4) == 0) { *bounded = 1; *len = (size_t)strtoull(s + 4, NULL, 10); return 1; }
  return 0;
}

static size_t call_count(const char *str, int bounded, size_t len, int more, TickitStringPos *pos, const TickitStringPos *lim)
{
  if(!bounded) return more ? tickit_utf8_countmore(str, pos, lim) : tickit_utf8_count(str, pos, lim);
  return more ? tickit_utf8_ncountmore(str, len, pos, lim) : tickit_utf8_ncount(str, len, pos, lim);
}

static uint64_t fnv(uint64_t h, unsigned v) { return (h ^ v) * 1099511628211ULL; }

static void engine_op(int argc, char **argv)
{
  const char *op = argv[0];
  if(argc == 1 && strcmp(op, "new") == 0) { obs("ok"); return; }

  if(sigsetjmp(segv_jmp, 1)) { h_olen = 0; obs("segv"); return; }

  if((strcmp(op, "count") == 0 || strcmp(op, "split") == 0) && argc == 5) {
    unsigned char *b; long n = hex_decode(argv[1], &b);
    int bounded; size_t len;
    if(n < 0 || !parse_mode(argv[2], &bounded, &len)) { obs("bad-op"); return; }
    char *str = place(b, n);
    free(b);
    if(!str) { obs("bad-op"); return; }
    TickitStringPos lim1, lim2, *l1 = NULL, *l2 = NULL;
    if(strcmp(argv[3], "-") != 0) { if(!parse_quad(argv[3], &lim1)) { obs("bad-op"); return; } l1 = &lim1; }
    if(op[0] == 'c') {
      TickitStringPos pos;
      int more = strcmp(argv[4], "-") != 0;
      memset(&pos, 0x5a, sizeof pos);
      if(more && !parse_quad(argv[4], &pos)) { obs("bad-op"); return; }
      segv_armed = 1;
      size_t ret = call_count(str, bounded, len, more, &pos, l1);
      segv_armed = 0;
      obs_res(ret, &pos);
    }
    else {
      if(strcmp(argv[4], "-") != 0) { if(!parse_quad(argv[4], &lim2)) { obs("bad-op"); return; } l2 = &lim2; }
      TickitStringPos p1, p3;
      memset(&p1, 0x5a, sizeof p1); memset(&p3, 0x5a, sizeof p3);
      segv_armed = 1;
      size_t r1 = call_count(str, bounded, len, 0, &p1, l1);
      TickitStringPos p2 = p1;
      size_t r2 = call_count(str, bounded, len, 1, &p2, l2);
      size_t r3 = call_count(str, bounded, len, 0, &p3, l2);
      segv_armed = 0;
      obs_res(r1, &p1); obs(" | "); obs_res(r2, &p2); obs(" | "); obs_res(r3, &p3);
    }
    return;
  }

  if(strcmp(op, "put") == 0 && argc == 3) {
    long cp = strtol(argv[1], NULL, 0);
    if(strcmp(argv[2], "null") == 0) { obs("%lld -", (long long)(ssize_t)tickit_utf8_put(NULL, 0, cp)); return; }
    size_t buflen = strtoul(argv[2], NULL, 10);
    if(buflen > 64) { obs("bad-op"); return; }
    unsigned char fill[64]; memset(fill, 0xAA, sizeof fill);
    char *buf = place(fill, buflen);
    segv_armed = 1;
    size_t ret = tickit_utf8_put(buf, buflen, cp);
    segv_armed = 0;
    obs("%lld ", (long long)(ssize_t)ret);
    if(ret == (size_t)-1) {
      int touched = 0;
      for(size_t i = 0; i < buflen; i++) if((unsigned char)buf[i] != 0xAA) touched = 1;
      obs(touched ? "modified" : "-");
    }
    else {
      obs_hex(buf, ret <= buflen ? ret : buflen);
      for(size_t i = ret; i < buflen; i++) if((unsigned char)buf[i] != 0xAA) { obs(" tail-modified"); break; }
    }
    for(int i = 1; i <= 64; i++) if(*(unsigned char *)(buf - i) != 0xA5) { obs(" canary"); break; }
    return;
  }

  if(strcmp(op, "seqlen") == 0 && argc == 2) { obs("%d", tickit_utf8_seqlen(strtol(argv[1], NULL, 0))); return; }
  if(strcmp(op, "width") == 0 && argc == 2) { obs("%d", tickit_utf8_wcwidth((uint32_t)strtoul(argv[1], NULL, 0))); return; }

  if(strcmp(op, "cp") == 0 && argc == 2) {
    long cp = strtol(argv[1], NULL, 0);
    int sl = tickit_utf8_seqlen(cp);
    unsigned char tmp[8] = { 0 };
    size_t pr = tickit_utf8_put((char *)tmp, 7, cp);
    size_t n = pr == (size_t)-1 ? 0 : pr;
    tmp[n] = 0;
    char *str = place(tmp, n + 1);
    TickitStringPos pos; memset(&pos, 0x5a, sizeof pos);
    segv_armed = 1;
    size_t ret = tickit_utf8_count(str, &pos, NULL);
    segv_armed = 0;
    obs("%d %lld ", sl, (long long)(ssize_t)pr);
    obs_hex(tmp, n);
    obs(" ");
    obs_res(ret, &pos);
    return;
  }

  if((strcmp(op, "mbs") == 0 && argc == 2) || ((strcmp(op, "b2c") == 0 || strcmp(op, "c2b") == 0) && argc == 3)) {
    unsigned char *b; long n = hex_decode(argv[1], &b);
    if(n < 0) { obs("bad-op"); return; }
    char *str = place(b, n);
    free(b);
    if(!str) { obs("bad-op"); return; }
    segv_armed = 1;
    if(op[0] == 'm') obs("%d", tickit_utf8_mbswidth(str));
    else if(op[0] == 'b') obs("%d", tickit_utf8_byte2col(str, (size_t)strtoll(argv[2], NULL, 10)));
    else obs("%lld", (long long)(ssize_t)tickit_utf8_col2byte(str, atoi(argv[2])));
    segv_armed = 0;
    return;
  }

  if(strcmp(op, "table") == 0 && argc == 2) {
    const struct interval *t; size_t n;
    if(strcmp(argv[1], "combining") == 0) { t = combining; n = sizeof(combining) / sizeof(combining[0]); }
    else if(strcmp(argv[1], "fullwidth") == 0) { t = fullwidth; n = sizeof(fullwidth) / sizeof(fullwidth[0]); }
    else { obs("bad-op"); return; }
    obs("%zu", n);
    for(size_t i = 0; i < n; i++) obs(" %x-%x", t[i].first, t[i].last);
    return;
  }

  if(strcmp(op, "sweep") == 0 && argc == 3) {
    long lo = strtol(argv[1], NULL, 0), hi = strtol(argv[2], NULL, 0);
    if(lo < 0 || hi < lo || hi - lo > 65536) { obs("bad-op"); return; }
    /* one tuple per code point: width seqlen putret countret bytes codepoints graphemes columns; run-length encoded */
    long prev[8] = { 0 }, run = 0;
    uint64_t h = 14695981039346656037ULL;
    for(long cp = lo; cp <= hi; cp++) {
      long cur[8] = { 0 };
      if(cp < hi) {
        unsigned char tmp[8] = { 0 };
        cur[0] = tickit_utf8_wcwidth((uint32_t)cp);
        cur[1] = tickit_utf8_seqlen(cp);
        size_t pr = tickit_utf8_put((char *)tmp, 7, cp);
        cur[2] = (long)(ssize_t)pr;
        size_t n = pr == (size_t)-1 ? 0 : pr;
        for(size_t i = 0; i < n; i++) h = fnv(h, tmp[i]);
        tmp[n] = 0;
        char *str = place(tmp, n + 1);
        TickitStringPos pos; memset(&pos, 0x5a, sizeof pos);
        segv_armed = 1;
        size_t ret = tickit_utf8_count(str, &pos, NULL);
        segv_armed = 0;
        cur[3] = (long)(ssize_t)ret; cur[4] = (long)pos.bytes; cur[5] = pos.codepoints; cur[6] = pos.graphemes; cur[7] = pos.columns;
      }
      if(cp > lo && (cp == hi || memcmp(cur, prev, sizeof cur) != 0)) {
        obs("%ldx%ld,%ld,%ld,%ld,%ld,%ld,%ld,%ld ", run, prev[0], prev[1], prev[2], prev[3], prev[4], prev[5], prev[6], prev[7]);
        run = 0;
      }
      memcpy(prev, cur, sizeof cur);
      run++;
    }
    obs("h=%016" PRIx64, h);
    return;
  }

  obs("bad-op");
}
