/* Engine `xterm` (C09): drives the xterm driver of the working tree (src/termdriver-xterm.c through the
 * tickit_term_* entry points of src/term.c) on a terminal without a tty and logs, per request, the bytes handed to
 * the output function and the return value.
 *
 *   new L C slrm colon rgb [vis blink]
 *                              build an xterm terminal L x C and answer the start-up probes through
 *                              tickit_term_input_push_bytes: slrm / vis / blink are the DECRPM reply VALUES (0 not
 *                              recognised, 1 set, 2 reset, 3 permanently set, 4 permanently reset) for DEC modes
 *                              69 / 25 / 12 (vis, blink default to 1, 2); colon, rgb select the DECRQSS SGR reply
 *   resize L C                 tickit_term_set_size (the emulator's window changed)
 *   goto l c | move d r | print <hex> | printn <hex> n | erasech n moveend(0 no,1 yes,-1 maybe) | clear
 *   scroll top left lines cols downward rightward
 *   setpen [bg=N] [bgrgb=RRGGBB] [rv=0|1] | chpen [bg=N] [bgrgb=RRGGBB] [rv=0|1]
 *   printf <hex> [d]           tickit_term_printf(tt, "%s", text) / (tt, "%s%d", text, d): the formatted-output entry
 *                              point (tickit_term_vprintf underneath), as opposed to print / printn
 *   outbuf N                   tickit_term_set_output_buffer(tt, N) (0 = unbuffered again)
 *   flush                      tickit_term_flush
 *   pause | resume             tickit_term_pause / tickit_term_resume
 *   stop                       tickit_term_teardown (the driver's stop, then a flush)
 *   start                      tickit_term_set_output_func with the same function again: the old one is told
 *                              (NULL, 0) and a stopped driver is started again (start-up string once more)
 *
 * The bytes of an observation are exactly those the OUTPUT FUNCTION received during the operation, in order (with an
 * output buffer that is what the terminal sees, not what the driver wrote).
 * Observation: `<hex bytes> ret=<r>`; for `new`: `<hex start bytes> caps=<slrm> <colon> <rgb8> size=<L> <C>
 * modes=<cursorvis> <cursorblink>`; for `resize`: `<hex bytes> size=<L>x<C>` (as tickit_term_get_size reports it);
 * for `resume`: `<hex bytes> slrm=<xterm.cap_slrm as getctl reports it afterwards>`; for `start`: `<hex bytes>
 * closed=<number of (NULL, 0) calls of the output function during the operation> slrm=<…>`.
 */
#define HCOMMON_MAIN
#include "hcommon.h"
#include "tickit.h"

static TickitTerm *tt;
static unsigned char *outbuf;
static size_t outlen, outcap;
static int out_closed;

static void output(TickitTerm *t, const char *bytes, size_t len, void *user)
{
  (void)t; (void)user;
  if(!bytes) { out_closed++; return; }
  if(outlen + len + 1 > outcap) {
    outcap = (outlen + len + 1) * 2;
    outbuf = realloc(outbuf, outcap);
  }
  memcpy(outbuf + outlen, bytes, len);
  outlen += len;
}

static void engine_begin(void) { tt = NULL; outlen = 0; }

static void engine_end(void)
{
  if(tt) tickit_term_unref(tt);
  tt = NULL;
  free(outbuf); outbuf = NULL; outcap = outlen = 0;
}

static void push(const char *s) { tickit_term_input_push_bytes(tt, s, strlen(s)); }

static int getcap(const char *name)
{
  int v = -1;
  if(!tickit_term_getctl_int(tt, tickit_termctl_lookup(name), &v)) return -1;
  return v;
}

static TickitPen *parse_pen(int argc, char **argv)
{
  TickitPen *pen = tickit_pen_new();
  long rgb = -1;
  for(int i = 1; i < argc; i++) {
    if(strncmp(argv[i], "bg=", 3) == 0)
      tickit_pen_set_colour_attr(pen, TICKIT_PEN_BG, atoi(argv[i] + 3));
    else if(strncmp(argv[i], "bgrgb=", 6) == 0 && strlen(argv[i] + 6) == 6)
      rgb = strtol(argv[i] + 6, NULL, 16);
    else if(strncmp(argv[i], "rv=", 3) == 0)
      tickit_pen_set_bool_attr(pen, TICKIT_PEN_REVERSE, atoi(argv[i] + 3));
    else { tickit_pen_unref(pen); return NULL; }
  }
  /* the RGB8 secondary value goes on top of the index (the setter ignores it on a pen without one) */
  if(rgb >= 0)
    tickit_pen_set_colour_attr_rgb8(pen, TICKIT_PEN_BG, (TickitPenRGB8){ (rgb >> 16) & 0xff, (rgb >> 8) & 0xff, rgb & 0xff });
  return pen;
}

static void engine_op(int argc, char **argv)
{
  const char *op = argc ? argv[0] : "";
  outlen = 0;

  if(strcmp(op, "new") == 0) {
    if((argc != 6 && argc != 8) || tt) { obs("bad-op"); return; }
    int L = atoi(argv[1]), C = atoi(argv[2]), slrm = atoi(argv[3]), colon = atoi(argv[4]), rgb = atoi(argv[5]);
    int vis = argc == 8 ? atoi(argv[6]) : 1, blink = argc == 8 ? atoi(argv[7]) : 2;
    if(slrm < 0 || slrm > 4 || vis < 0 || vis > 4 || blink < 0 || blink > 4) { obs("bad-op"); return; }
    char reply[32];
    tt = tickit_term_build(&(struct TickitTermBuilder){
      .termtype = "xterm", .output_func = output, .output_func_user = NULL });
    if(!tt) { obs("build-failed"); return; }
    tickit_term_set_size(tt, L, C);
    /* replies to the probes sent by start(): DECRQM 69 / 25 / 12, DECRQSS " q" and "m" */
    snprintf(reply, sizeof reply, "\e[?69;%d$y", slrm);  push(reply);
    snprintf(reply, sizeof reply, "\e[?25;%d$y", vis);   push(reply);
    snprintf(reply, sizeof reply, "\e[?12;%d$y", blink); push(reply);
    push("\eP1$r2 q\e\\");
    if(colon && rgb)  push("\eP1$r38:2:0:1:2m\e\\");
    else if(colon)    push("\eP1$r38:5:255m\e\\");
    else if(rgb)      push("\eP1$r38;2;0;1;2m\e\\");
    else              push("\eP1$r38;5;255m\e\\");
    int l2, c2;
    tickit_term_get_size(tt, &l2, &c2);
    obs_hex(outbuf, outlen);
    obs(" caps=%d %d %d size=%d %d", getcap("xterm.cap_slrm"), getcap("xterm.cap_csi_sub_colon"), getcap("xterm.cap_rgb8"), l2, c2);
    int mv = -1, mb = -1;
    tickit_term_getctl_int(tt, TICKIT_TERMCTL_CURSORVIS, &mv);
    tickit_term_getctl_int(tt, TICKIT_TERMCTL_CURSORBLINK, &mb);
    obs(" modes=%d %d", mv, mb);
    return;
  }
  if(!tt) { obs("bad-op"); return; }

  if(strcmp(op, "resize") == 0 && argc == 3) {
    int l2 = -1, c2 = -1;
    tickit_term_set_size(tt, atoi(argv[1]), atoi(argv[2]));
    tickit_term_get_size(tt, &l2, &c2);
    obs_hex(outbuf, outlen);
    obs(" size=%dx%d", l2, c2);
    return;
  }

  if(strcmp(op, "resume") == 0 && argc == 1) {
    tickit_term_resume(tt);
    obs_hex(outbuf, outlen);
    obs(" slrm=%d", getcap("xterm.cap_slrm"));
    return;
  }
  if(strcmp(op, "start") == 0 && argc == 1) {
    out_closed = 0;
    tickit_term_set_output_func(tt, output, NULL);
    obs_hex(outbuf, outlen);
    obs(" closed=%d slrm=%d", out_closed, getcap("xterm.cap_slrm"));
    return;
  }

  int ret = 1;
  if(strcmp(op, "pause") == 0 && argc == 1)
    tickit_term_pause(tt);
  else if(strcmp(op, "stop") == 0 && argc == 1)
    tickit_term_teardown(tt);
  else if(strcmp(op, "flush") == 0 && argc == 1)
    tickit_term_flush(tt);
  else if(strcmp(op, "outbuf") == 0 && argc == 2) {
    long n = atol(argv[1]);
    if(n < 0 || n > 1000000) { obs("bad-op"); return; }
    tickit_term_set_output_buffer(tt, (size_t)n);
  }
  else if(strcmp(op, "printf") == 0 && (argc == 2 || argc == 3)) {
    unsigned char *b; long n = hex_decode(argv[1], &b);
    if(n < 0) { obs("bad-op"); return; }
    if(argc == 3) tickit_term_printf(tt, "%s%d", (char *)b, atoi(argv[2]));
    else          tickit_term_printf(tt, "%s", (char *)b);
    free(b);
  }
  else if(strcmp(op, "goto") == 0 && argc == 3)
    ret = tickit_term_goto(tt, atoi(argv[1]), atoi(argv[2]));
  else if(strcmp(op, "move") == 0 && argc == 3)
    tickit_term_move(tt, atoi(argv[1]), atoi(argv[2]));
  else if(strcmp(op, "print") == 0 && argc == 2) {
    unsigned char *b; long n = hex_decode(argv[1], &b);
    if(n < 0) { obs("bad-op"); return; }
    tickit_term_printn(tt, (char *)b, n);
    free(b);
  }
  else if(strcmp(op, "printn") == 0 && argc == 3) {
    unsigned char *b; long n = hex_decode(argv[1], &b);
    long k = atol(argv[2]);
    if(n < 0 || k < 0 || k > n) { obs("bad-op"); return; }
    tickit_term_printn(tt, (char *)b, k);
    free(b);
  }
  else if(strcmp(op, "erasech") == 0 && argc == 3)
    tickit_term_erasech(tt, atoi(argv[1]), atoi(argv[2]));
  else if(strcmp(op, "clear") == 0 && argc == 1)
    tickit_term_clear(tt);
  else if(strcmp(op, "scroll") == 0 && argc == 7) {
    TickitRect r = { .top = atoi(argv[1]), .left = atoi(argv[2]), .lines = atoi(argv[3]), .cols = atoi(argv[4]) };
    ret = tickit_term_scrollrect(tt, r, atoi(argv[5]), atoi(argv[6]));
  }
  else if(strcmp(op, "setpen") == 0 || strcmp(op, "chpen") == 0) {
    TickitPen *pen = parse_pen(argc, argv);
    if(!pen) { obs("bad-op"); return; }
    if(op[0] == 's') tickit_term_setpen(tt, pen); else tickit_term_chpen(tt, pen);
    tickit_pen_unref(pen);
  }
  else { obs("bad-op"); return; }

  obs_hex(outbuf, outlen);
  obs(" ret=%d", ret);
}
