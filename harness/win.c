/* Engine `win` (C01, C02): drives /repo/src/window.c (+ rectset.c, renderbuffer.c, term.c) through the public API,
 * on a terminal whose driver is the harness-owned grid driver (griddrv.h).
 *
 *   new <C01|C02> <lines> <cols> <a|p|r|m|x> <pen>        terminal + root window (id 0); scroll oracle accept/partial/refuse,
 *                                                         or m: the library's own mock terminal instead of the grid driver
 *                                                         (no scrollmode then; `resize` calls tickit_mockterm_resize),
 *                                                         or x: the library's xterm driver (tickit_term_build, termtype
 *                                                         "xterm", an output function): no grid is printed, every
 *                                                         observation ends with X=<the bytes the terminal was sent during
 *                                                         the operation, hex> (no scrollmode then)
 *   win <id> <parent> <top> <left> <lines> <cols> <flags> <pen>     flags: subset of r(oot-parent) h(idden) l(owest) s(teal), or -
 *   beh <id> <instr>...                                   expose-handler program of a window (default: P)
 *   close|show|hide|raise|raisefront|lower|lowerback <id>
 *   geom <id> <t> <l> <n> <k>        set_geometry followed by the exposes the C01 proviso demands (old and new area)
 *   geomraw <id> <t> <l> <n> <k>     set_geometry alone
 *                                    (both refuse id 0 with bad-op: the root window's geometry is outside the property's domain —
 *                                    tickit_window.7: the root "occupies the entire terminal"; Props.C01.root_setGeometry_counterexample)
 *   expose <id> [<t> <l> <n> <k>]
 *   scroll <id> <d> <r> | scrollrect <id> <t> <l> <n> <k> <d> <r> <pen>
 *   scrollch <id> <d> <r>            tickit_window_scroll_with_children, then the application's half: every child moved by (-d, -r)
 *                                    with set_geometry, nothing exposed (tickit_window_scroll.3: "does not actually move the child windows")
 *   resize <lines> <cols> | scrollmode <a|p|r> | flush
 *   pen: pen=N (NULL) | pen=fg:bg:b[:rv] with each field an integer or x (absent)
 *   instr: P | E:t:l:n:k | T:l:c:hex | F:l:c:pad:hex | C:l:c:cp | S:t:l:n:k | K | N:bg:b[:rv] | X:d:r | L:t:l:n:k
 *          | e:dt:dl:dn:dk | t:dl:dc:hex | c:dl:dc:cp | s:dt:dl:dn:dk      (lower case: relative to the handed rectangle)
 *          | F:l:c:pad:hex | f:dl:dc:pad:hex              tickit_renderbuffer_textf_at(rb, l, c, "%*s", pad, <the bytes>): the
 *                                                        formatted result is the bytes right-justified in a field of pad BYTES
 *                                                        (pad >= 0; results of 64 bytes and more take put_vtextf's second path,
 *                                                        through the buffer's scratch area rb->tmp)
 *          | H:line:c0:c1:style:caps | I:l0:l1:col:style:caps               hline_at / vline_at (h, i: relative); style 1..3
 *          | Y:dt:dl:st:sl:n:k | M:dt:dl:st:sl:n:k       tickit_renderbuffer_copyrect / moverect(dest at dt,dl; src st,sl,n,k),
 *                                                        coordinates as the library takes them (the source in buffer
 *                                                        coordinates); not called when the source rectangle is not inside
 *                                                        the buffer, when some cell of it belongs to another window, or
 *                                                        when the walk of copyrect would read cells it has written
 *                                                        (WinRB.copyDomain: see there)
 *          | V | v | R                                   tickit_renderbuffer_save / savepen / restore; an R with none of the
 *                                                        handler's own frames on the stack is not executed, frames left
 *                                                        over are popped when the handler returns
 *          | Z:id | Z:id:t:l:n:k | z:dt:dl:dn:dk     tickit_window_expose from inside the handler (z: own window, relative)
 *
 * Observation (one line per operation):  r=<ret> T=<tree> E=<expose events> G=<grid or -> [W=<writes>] [X=<bytes>]
 *   writes (C02 only): for every handler invocation of a flush, in the order of the events, id@<runs>, joined by ;
 *           runs: line.col.len joined by , (- if none): the render-buffer cells (buffer coordinates) whose content
 *           differs after the handler returned from what it was when the handler was called - read from the raw state
 *           of the buffer (tickit_renderbuffer_verif_dump, compiled with -DLIBTICKIT_VERIF; a cell's content is its run's
 *           kind, pen and, for a text, the string and the column of it: how the line is cut into runs does not count)
 *   tree:   id,parent,top,left,lines,cols,visible,children(dot separated or -) joined by |   (closed window: id,x)
 *   events: id:top,left,lines,cols joined by ;  (- if none)
 *   grid:   rows joined by |, five characters per cell: glyph (two), fg+1, bg+1, bold + 2 * reverse
 */
#define HCOMMON_MAIN
#include "hcommon.h"
#include "tickit.h"
#include "griddrv.h"
#include "tickit-mockterm.h"
#include <stdint.h>
#include <sys/time.h>

#define MAXW 24
#define MAXSHIFT 64

static GridDrv *gd;
static TickitMockTerm *mt;       /* second configuration: the library's own mock terminal (scroll oracle m) */
static int xmode;                /* third configuration: the library's xterm driver writing to an output function (x) */
static unsigned char *xbuf;      /* the bytes it was handed since the previous observation */
static size_t xlen, xcap;
static TickitTerm *tt;
static TickitWindow *wins[MAXW];
static int nwins;
static int closedw[MAXW];
static char *behprog[MAXW];         /* NULL = paint */
static struct { TickitRect rect; int d, r; } shifts[MAXW][MAXSHIFT];
static int nshift[MAXW];
static int logging;
static char evbuf[65536];
static size_t evlen;

static void xt_output(TickitTerm *t, const char *bytes, size_t len, void *user)
{
  (void)t; (void)user;
  if(!bytes || !len) return;      /* (NULL, 0) when the terminal is destroyed */
  if(xlen + len + 1 > xcap) {
    xcap = (xlen + len + 1) * 2;
    xbuf = realloc(xbuf, xcap);
  }
  memcpy(xbuf + xlen, bytes, len);
  xlen += len;
}

/* ---- what a handler changed in the render buffer (C02) ---- */
#ifdef LIBTICKIT_VERIF
void tickit_renderbuffer_verif_dump(TickitRenderBuffer *rb, FILE *fh);
#endif
static int c02;                  /* the history checks C02: record the cells every handler changes */
static char *wbuf;               /* the W= token of the flush in progress */
static size_t wlen, wcap;

static void wcat(const char *fmt, ...)
{
  char tmp[64];
  va_list ap;
  va_start(ap, fmt);
  int n = vsnprintf(tmp, sizeof tmp, fmt, ap);
  va_end(ap);
  if(n <= 0) return;
  if(wlen + n + 1 > wcap) { wcap = (wlen + n + 1) * 2; wbuf = realloc(wbuf, wcap); }
  memcpy(wbuf + wlen, tmp, n + 1);
  wlen += n;
}

typedef struct { int lines, cols; char *text; char **key; int *klen; int *delta; } RBSnap;

/* The content of every cell of the buffer as stored: key = the start cell's token without the run length and the mask
 * depth (kind, pen, string or line mask or code point), delta = the cell's distance from the start of its run (it
 * matters for a text only: the column of the string shown). */
static RBSnap *rb_snapshot(TickitRenderBuffer *rb)
{
#ifdef LIBTICKIT_VERIF
  RBSnap *sn = calloc(1, sizeof *sn);
  size_t len = 0;
  FILE *fh = open_memstream(&sn->text, &len);
  tickit_renderbuffer_verif_dump(rb, fh);
  fclose(fh);
  tickit_renderbuffer_get_size(rb, &sn->lines, &sn->cols);
  size_t n = (size_t)sn->lines * sn->cols;
  sn->key = calloc(n + 1, sizeof *sn->key); sn->klen = calloc(n + 1, sizeof *sn->klen); sn->delta = calloc(n + 1, sizeof *sn->delta);
  char *p = strstr(sn->text, " cells=");
  if(!p) return sn;
  p += 7;
  int *start = calloc(n + 1, sizeof *start);
  for(int l = 0; l < sn->lines; l++) {
    for(int c = 0; c < sn->cols; c++) {
      size_t i = (size_t)l * sn->cols + c;
      char *tok = p;
      while(*p && *p != ' ' && *p != '/') p++;
      char *end = p;
      if(*p) p++;
      /* <kind><number>m<maskdepth><rest> */
      char kind = tok[0];
      char *q = tok + 1;
      int num = (int)strtol(q, &q, 10);
      if(*q == 'm') { q++; strtol(q, &q, 10); }
      if(kind == 'C') start[i] = num;
      else {
        start[i] = c;
        /* the key is the kind letter followed by what comes after the mask depth: put the letter over the last digit
         * of the mask depth (the dump is a private copy) */
        q[-1] = kind;
        sn->key[i] = q - 1; sn->klen[i] = (int)(end - q) + 1;
        sn->delta[i] = 0;
      }
    }
  }
  for(int l = 0; l < sn->lines; l++)
    for(int c = 0; c < sn->cols; c++) {
      size_t i = (size_t)l * sn->cols + c;
      if(start[i] != c && start[i] >= 0 && start[i] < sn->cols) {
        size_t h = (size_t)l * sn->cols + start[i];
        sn->key[i] = sn->key[h]; sn->klen[i] = sn->klen[h]; sn->delta[i] = c - start[i];
      }
    }
  free(start);
  return sn;
#else
  (void)rb;
  return NULL;
#endif
}

static void rb_snap_free(RBSnap *sn)
{
  if(!sn) return;
  free(sn->text); free(sn->key); free(sn->klen); free(sn->delta); free(sn);
}

static RBSnap *last_snap;        /* the buffer as the previous handler of this flush left it */

static int snap_cell_same(const RBSnap *a, const RBSnap *b, size_t i)
{
  if(!a->key[i] || !b->key[i]) return a->key[i] == b->key[i];
  if(a->klen[i] != b->klen[i] || memcmp(a->key[i], b->key[i], a->klen[i]) != 0) return 0;
  /* the same run content: for a text the column shown must be the same too */
  return a->key[i][0] != 'T' || a->delta[i] == b->delta[i];
}

/* append id@runs to the W= token */
static void record_writes(int id, const RBSnap *before, const RBSnap *after)
{
  wcat("%s%d@", wlen ? ";" : "", id);
  if(!before || !after || before->lines != after->lines || before->cols != after->cols) { wcat("?"); return; }
  int any = 0;
  for(int l = 0; l < after->lines; l++) {
    int c = 0;
    while(c < after->cols) {
      if(snap_cell_same(before, after, (size_t)l * after->cols + c)) { c++; continue; }
      int c0 = c;
      while(c < after->cols && !snap_cell_same(before, after, (size_t)l * after->cols + c)) c++;
      wcat("%s%d.%d.%d", any ? "," : "", l, c0, c - c0);
      any = 1;
    }
  }
  if(!any) wcat("-");
}

static int pmod(int x, int m) { int r = x % m; return r < 0 ? r + m : r; }

/* a glyph; + 1000 when it carries a combining acute accent (U+0301) */
static int base_glyph(int w, int l, int c)
{
  int v = pmod(l * 7 + c * 3 + w * 11, 19);
  if(v < 5) return 32;
  int g = 33 + pmod(l * 13 + c * 5 + w * 17, 90);
  return pmod(l * 5 + c * 11 + w * 3, 7) == 0 ? g + 1000 : g;
}

static int content(int w, int l, int c)
{
  for(int k = nshift[w] - 1; k >= 0; k--) {
    const TickitRect *r = &shifts[w][k].rect;
    if(l >= r->top && l < r->top + r->lines && c >= r->left && c < r->left + r->cols) {
      l += shifts[w][k].d;
      c += shifts[w][k].r;
    }
  }
  return base_glyph(w, l, c);
}

static void add_shift(int w, TickitRect rect, int d, int r)
{
  if(nshift[w] == MAXSHIFT) {   /* forget the oldest: histories are far shorter than this */
    memmove(&shifts[w][0], &shifts[w][1], (MAXSHIFT - 1) * sizeof shifts[w][0]);
    nshift[w]--;
  }
  shifts[w][nshift[w]].rect = rect;
  shifts[w][nshift[w]].d = d;
  shifts[w][nshift[w]].r = r;
  nshift[w]++;
}

static int parse_field(const char *s, int *out)   /* "x" = absent */
{
  if(s[0] == 'x') return 0;
  *out = atoi(s);
  return 1;
}

/* pen=N -> NULL (and *isnull = 1); pen=fg:bg:b */
static TickitPen *parse_pen(const char *tok, int *isnull)
{
  *isnull = 0;
  if(strncmp(tok, "pen=", 4) != 0) return tickit_pen_new();
  tok += 4;
  if(tok[0] == 'N') { *isnull = 1; return NULL; }
  TickitPen *pen = tickit_pen_new();
  char *copy = strdup(tok), *save = NULL;
  char *f = strtok_r(copy, ":", &save), *b = f ? strtok_r(NULL, ":", &save) : NULL, *bo = b ? strtok_r(NULL, ":", &save) : NULL;
  char *rv = bo ? strtok_r(NULL, ":", &save) : NULL;
  int v;
  if(f && parse_field(f, &v)) tickit_pen_set_colour_attr(pen, TICKIT_PEN_FG, v);
  if(b && parse_field(b, &v)) tickit_pen_set_colour_attr(pen, TICKIT_PEN_BG, v);
  if(bo && parse_field(bo, &v)) tickit_pen_set_bool_attr(pen, TICKIT_PEN_BOLD, v);
  if(rv && parse_field(rv, &v)) tickit_pen_set_bool_attr(pen, TICKIT_PEN_REVERSE, v);
  free(copy);
  return pen;
}

static void paint(int id, const TickitRect *rect, TickitRenderBuffer *rb)
{
  TickitRect r = *rect;
  tickit_renderbuffer_eraserect(rb, &r);
  char buf[512];
  for(int line = rect->top; line < rect->top + rect->lines; line++) {
    int n = 0, start = 0;
    for(int col = rect->left; col <= rect->left + rect->cols; col++) {
      int g = col < rect->left + rect->cols ? content(id, line, col) : 32;
      if(g != 32 && n < (int)sizeof buf - 4) {
        if(n == 0) start = col;
        buf[n++] = (char)(g % 1000);
        if(g >= 1000) { buf[n++] = (char)0xcc; buf[n++] = (char)0x81; }
      }
      else if(n) {
        tickit_renderbuffer_textn_at(rb, line, start, buf, n);
        n = 0;
      }
    }
  }
}

/* WinRB.safeDirection: the walk of copyrect (chosen from lo, co) never reads a cell it has already written when the real
 * displacement is (dl, dc) */
static int safe_direction(int n, int k, int lo, int co, int dl, int dc)
{
  if(abs(dl) >= n || abs(dc) >= k) return 1;
  if(dl > 0 && lo > 0) return 1;
  if(dl < 0 && lo <= 0) return 1;
  if(dl == 0) {
    int leftwards = (lo == 0 && co > 0);
    if(dc > 0 && leftwards) return 1;
    if(dc < 0 && !leftwards) return 1;
    if(dc == 0) return 1;
  }
  return 0;
}

#define MAXFRAMES 64

static int win_id(TickitWindow *w);

/* The window that owns buffer cell (l, c) in the painter's-model composition of the tree as it stands (WinSpec.ownerAt),
 * from the public queries; -1 = nobody. */
static int owner_of(int l, int c)
{
  TickitWindow *w = wins[0];
  TickitRect g = tickit_window_get_geometry(w);
  if(!tickit_window_is_visible(w) || l < g.top || c < g.left || l >= g.top + g.lines || c >= g.left + g.cols)
    return -1;
  l -= g.top; c -= g.left;
  for(;;) {
    TickitWindow *ch[MAXW + 1], *next = NULL;
    size_t n = tickit_window_get_children(w, ch, MAXW + 1);
    for(size_t k = 0; k < n && !next; k++) {
      if(!tickit_window_is_visible(ch[k])) continue;
      TickitRect r = tickit_window_get_geometry(ch[k]);
      if(l >= r.top && l < r.top + r.lines && c >= r.left && c < r.left + r.cols) {
        next = ch[k]; l -= r.top; c -= r.left;
      }
    }
    if(!next) return win_id(w);
    w = next;
  }
}

static void run_prog(int id, const char *prog, const TickitRect *rect, TickitRenderBuffer *rb)
{
  /* the translation in force (the library has no query for it): the window's position in the buffer on entry,
   * then what the program itself does */
  TickitRect abs = tickit_window_get_abs_geometry(wins[id]);
  int xl = abs.top, xc = abs.left;
  struct { int xl, xc, pen_only; } frames[MAXFRAMES];
  int nframes = 0;
  int rblines, rbcols;
  tickit_renderbuffer_get_size(rb, &rblines, &rbcols);
  char *copy = strdup(prog), *save = NULL;
  for(char *ins = strtok_r(copy, " ", &save); ins; ins = strtok_r(NULL, " ", &save)) {
    char *f[8]; int nf = 0; char *s2 = NULL;
    char *icopy = strdup(ins);
    for(char *t = strtok_r(icopy, ":", &s2); t && nf < 8; t = strtok_r(NULL, ":", &s2)) f[nf++] = t;
    char k = f[0][0];
    int rel = (k >= 'a' && k <= 'z');
    int bt = rel ? rect->top : 0, bl = rel ? rect->left : 0, bn = rel ? rect->lines : 0, bk = rel ? rect->cols : 0;
    switch(k) {
      case 'P': paint(id, rect, rb); break;
      case 'E': case 'e': case 'S': case 's': case 'L':
        if(nf == 5) {
          TickitRect r = { .top = bt + atoi(f[1]), .left = bl + atoi(f[2]), .lines = bn + atoi(f[3]), .cols = bk + atoi(f[4]) };
          if(k == 'E' || k == 'e') tickit_renderbuffer_eraserect(rb, &r);
          else if(k == 'L') tickit_renderbuffer_clip(rb, &r);
          else tickit_renderbuffer_skiprect(rb, &r);
        }
        break;
      case 'T': case 't':
        if(nf == 4) {
          unsigned char *bytes; long n = hex_decode(f[3], &bytes);
          if(n > 0) tickit_renderbuffer_textn_at(rb, bt + atoi(f[1]), bl + atoi(f[2]), (char *)bytes, n);
          if(n >= 0) free(bytes);
        }
        break;
      case 'F': case 'f':
        if(nf == 5 && atoi(f[3]) >= 0 && atoi(f[3]) <= 4096) {
          unsigned char *bytes; long n = hex_decode(f[4], &bytes);
          if(n > 0 && !memchr(bytes, 0, n)) {
            char *str = malloc(n + 1);
            memcpy(str, bytes, n); str[n] = 0;
            tickit_renderbuffer_textf_at(rb, bt + atoi(f[1]), bl + atoi(f[2]), "%*s", atoi(f[3]), str);
            free(str);
          }
          if(n >= 0) free(bytes);
        }
        break;
      case 'C': case 'c':
        if(nf == 4) tickit_renderbuffer_char_at(rb, bt + atoi(f[1]), bl + atoi(f[2]), atoi(f[3]));
        break;
      case 'K': tickit_renderbuffer_clear(rb); break;
      case 'N':
        if(nf == 3 || nf == 4) {
          TickitPen *pen = tickit_pen_new();
          int v;
          tickit_pen_set_colour_attr(pen, TICKIT_PEN_FG, id + 1);   /* the writer tag */
          if(parse_field(f[1], &v)) tickit_pen_set_colour_attr(pen, TICKIT_PEN_BG, v);
          if(parse_field(f[2], &v)) tickit_pen_set_bool_attr(pen, TICKIT_PEN_BOLD, v);
          if(nf == 4 && parse_field(f[3], &v)) tickit_pen_set_bool_attr(pen, TICKIT_PEN_REVERSE, v);
          tickit_renderbuffer_setpen(rb, pen);
          tickit_pen_unref(pen);
        }
        break;
      case 'X':
        if(nf == 3) {
          tickit_renderbuffer_translate(rb, atoi(f[1]), atoi(f[2]));
          xl += atoi(f[1]); xc += atoi(f[2]);
        }
        break;
      case 'H': case 'h':
        if(nf == 6 && atoi(f[4]) >= 1 && atoi(f[4]) <= 3 && atoi(f[5]) >= 0 && atoi(f[5]) <= 3)
          tickit_renderbuffer_hline_at(rb, bt + atoi(f[1]), bl + atoi(f[2]), bl + atoi(f[3]), atoi(f[4]), atoi(f[5]));
        break;
      case 'I': case 'i':
        if(nf == 6 && atoi(f[4]) >= 1 && atoi(f[4]) <= 3 && atoi(f[5]) >= 0 && atoi(f[5]) <= 3)
          tickit_renderbuffer_vline_at(rb, bt + atoi(f[1]), bt + atoi(f[2]), bl + atoi(f[3]), atoi(f[4]), atoi(f[5]));
        break;
      case 'Y': case 'M':
        if(nf == 7) {
          TickitRect src  = { .top = atoi(f[3]), .left = atoi(f[4]), .lines = atoi(f[5]), .cols = atoi(f[6]) };
          TickitRect dest = { .top = atoi(f[1]), .left = atoi(f[2]), .lines = src.lines, .cols = src.cols };
          int lo = dest.top - src.top, co = dest.left - src.left;
          int inside = src.top >= 0 && src.left >= 0 && src.lines > 0 && src.cols > 0 &&
                       src.top + src.lines <= rblines && src.left + src.cols <= rbcols;
          /* a handler copies cells of its own window only (the source is in buffer coordinates: see WinRB.copyDomain) */
          int own = inside && src.lines <= 64 && src.cols <= 256;
          for(int i = 0; own && i < src.lines; i++)
            for(int j = 0; own && j < src.cols; j++)
              if(owner_of(src.top + i, src.left + j) != id) own = 0;
          if(own && ((lo == 0 && co == 0) || safe_direction(src.lines, src.cols, lo, co, lo + xl, co + xc))) {
            if(k == 'Y') tickit_renderbuffer_copyrect(rb, &dest, &src);
            else         tickit_renderbuffer_moverect(rb, &dest, &src);
          }
        }
        break;
      case 'V': case 'v':
        if(nf == 1 && nframes < MAXFRAMES) {
          if(k == 'V') tickit_renderbuffer_save(rb); else tickit_renderbuffer_savepen(rb);
          frames[nframes].xl = xl; frames[nframes].xc = xc; frames[nframes].pen_only = (k == 'v');
          nframes++;
        }
        break;
      case 'R':
        if(nf == 1 && nframes > 0) {
          tickit_renderbuffer_restore(rb);
          nframes--;
          if(!frames[nframes].pen_only) { xl = frames[nframes].xl; xc = frames[nframes].xc; }
        }
        break;
      case 'Z':   /* tickit_window_expose from inside the handler */
        if(nf == 2 || nf == 6) {
          int target = atoi(f[1]);
          if(target >= 0 && target < nwins && !closedw[target]) {
            if(nf == 2) tickit_window_expose(wins[target], NULL);
            else {
              TickitRect r = { .top = atoi(f[2]), .left = atoi(f[3]), .lines = atoi(f[4]), .cols = atoi(f[5]) };
              tickit_window_expose(wins[target], &r);
            }
          }
        }
        break;
      case 'z':
        if(nf == 5) {
          TickitRect r = { .top = bt + atoi(f[1]), .left = bl + atoi(f[2]), .lines = bn + atoi(f[3]), .cols = bk + atoi(f[4]) };
          tickit_window_expose(wins[id], &r);
        }
        break;
      default: break;
    }
    free(icopy);
  }
  free(copy);
  while(nframes-- > 0)
    tickit_renderbuffer_restore(rb);
}

static int on_expose(TickitWindow *win, TickitEventFlags flags, void *_info, void *user)
{
  (void)win; (void)flags;
  TickitExposeEventInfo *info = _info;
  int id = (int)(intptr_t)user;
  if(!logging) return 1;
  if(evlen + 64 < sizeof evbuf)
    evlen += snprintf(evbuf + evlen, sizeof evbuf - evlen, "%s%d:%d,%d,%d,%d", evlen ? ";" : "", id,
        info->rect.top, info->rect.left, info->rect.lines, info->rect.cols);
  /* between two handler invocations of one flush the library only saves, clips, translates, masks and restores: what
   * the buffer held when the previous handler returned is what this one finds */
  RBSnap *before = !c02 ? NULL : last_snap ? last_snap : rb_snapshot(info->rb);
  last_snap = NULL;
  if(behprog[id]) run_prog(id, behprog[id], &info->rect, info->rb);
  else paint(id, &info->rect, info->rb);
  if(c02) {
    RBSnap *after = rb_snapshot(info->rb);
    record_writes(id, before, after);
    rb_snap_free(before);
    last_snap = after;
  }
  return 1;
}

static int win_id(TickitWindow *w)
{
  for(int i = 0; i < nwins; i++) if(wins[i] == w) return i;
  return -1;
}

static void dump_tree(void)
{
  obs(" T=");
  for(int i = 0; i < nwins; i++) {
    if(i) obs("|");
    if(closedw[i]) { obs("%d,x", i); continue; }
    TickitWindow *w = wins[i];
    TickitRect g = tickit_window_get_geometry(w);
    TickitWindow *p = tickit_window_parent(w);
    obs("%d,%d,%d,%d,%d,%d,%d,", i, p ? win_id(p) : -1, g.top, g.left, g.lines, g.cols, tickit_window_is_visible(w));
    TickitWindow *ch[MAXW + 1];
    size_t n = tickit_window_get_children(w, ch, MAXW + 1);
    if(n != tickit_window_children(w)) obs("children-mismatch");
    if(!n) obs("-");
    for(size_t k = 0; k < n; k++) obs("%s%d", k ? "." : "", win_id(ch[k]));
  }
}

/* two characters per glyph: ".x" ASCII (space = "~"), "}}" second half of a double-width character,
 * "Wx" the fullwidth form of ASCII x (U+FF01..U+FF5E), "bh".."ih" the box-drawing character U+2500 + 16 * (letter - b) + h,
 * "{{" anything else */
static void glyph_chars(int g, char *out)
{
  if(g == 32) { out[0] = '.'; out[1] = '~'; }
  else if(g == 0) { out[0] = '}'; out[1] = '}'; }
  else if(g >= 33 && g <= 122) { out[0] = '.'; out[1] = (char)g; }
  else if(g >= 0xff01 && g <= 0xff5e) { out[0] = 'W'; out[1] = (char)(g - 0xfee0); }
  else if(g >= 0x2500 && g <= 0x257f) { out[0] = (char)('b' + ((g - 0x2500) >> 4)); out[1] = "0123456789abcdef"[g & 15]; }
  else { out[0] = '{'; out[1] = '{'; }
}

static int first_cp(const char *b, size_t n)
{
  const unsigned char *u = (const unsigned char *)b;
  if(!n) return 0;
  if(u[0] >= 0xf0 && n >= 4) return ((u[0] & 0x07) << 18) | ((u[1] & 0x3f) << 12) | ((u[2] & 0x3f) << 6) | (u[3] & 0x3f);
  if(u[0] >= 0xe0 && n >= 3) return ((u[0] & 0x0f) << 12) | ((u[1] & 0x3f) << 6) | (u[2] & 0x3f);
  if(u[0] >= 0xc0 && n >= 2) return ((u[0] & 0x1f) << 6) | (u[1] & 0x3f);
  return u[0];
}

static void dump_grid(void)
{
  obs(" G=");
  int lines, cols;
  tickit_term_get_size(tt, &lines, &cols);
  size_t n = (size_t)cols * 5;
  char *row = malloc(n + 2);
  for(int l = 0; l < lines; l++) {
    for(int c = 0; c < cols; c++) {
      int glyph, fg, bg, attrs;
      if(mt) {
        /* what the library's mock terminal displays */
        char buf[64];
        size_t len = tickit_mockterm_get_display_text(mt, buf, sizeof buf - 1, l, c, 1);
        glyph = first_cp(buf, len < sizeof buf ? len : 0);
        TickitPen *pen = tickit_mockterm_get_display_pen(mt, l, c);
        fg = tickit_pen_get_colour_attr(pen, TICKIT_PEN_FG);
        bg = tickit_pen_get_colour_attr(pen, TICKIT_PEN_BG);
        attrs = (tickit_pen_get_bool_attr(pen, TICKIT_PEN_BOLD) ? 1 : 0)
              | (tickit_pen_get_bool_attr(pen, TICKIT_PEN_ITALIC) ? 2 : 0)
              | (tickit_pen_get_bool_attr(pen, TICKIT_PEN_REVERSE) ? 4 : 0)
              | (tickit_pen_get_int_attr(pen, TICKIT_PEN_UNDER) << 8);
      }
      else {
        GDCell *cell = gd_cell(gd, l, c);
        glyph = cell->glyph; fg = cell->fg; bg = cell->bg; attrs = cell->attrs;
      }
      glyph_chars(glyph, row + 5 * c);
      row[5 * c + 2] = (fg >= -1 && fg <= 40) ? '0' + fg + 1 : '!';
      row[5 * c + 3] = (bg >= -1 && bg <= 40) ? '0' + bg + 1 : '!';
      row[5 * c + 4] = (attrs & ~5) ? '!' : (char)('0' + (attrs & 1) + ((attrs & 4) ? 2 : 0));
    }
    row[n] = 0;
    obs("%s%s", l ? "|" : "", row);
  }
  free(row);
  if(mt) tickit_mockterm_clearlog(mt);
}

static void finish(int ret, int events, int grid)
{
  obs("r=%d", ret);
  dump_tree();
  if(events) obs(" E=%s", evlen ? evbuf : "-");
  else obs(" E=-");
  if(grid && !xmode) dump_grid();
  else obs(" G=-");
  if(c02 && events) obs(" W=%s", wlen ? wbuf : "-");
  if(xmode) {
    obs(" X=");
    obs_hex(xbuf, xlen);
    xlen = 0;
  }
}

static void engine_begin(void)
{
  gd = NULL; mt = NULL; tt = NULL; nwins = 0; evlen = 0; logging = 1; xmode = 0; xlen = 0; last_snap = NULL;
  memset(wins, 0, sizeof wins); memset(closedw, 0, sizeof closedw);
  memset(behprog, 0, sizeof behprog); memset(nshift, 0, sizeof nshift);
}

static void engine_end(void)
{
  logging = 0;
  rb_snap_free(last_snap); last_snap = NULL;
  if(!tt) return;
  /* drain the queue of restack requests, then tear down top-down, keeping every child alive across its parent's
   * destruction (tickit_window_destroy writes child->parent after the unref: property C08, not ours) */
  if(nwins) tickit_window_flush(wins[0]);
  for(int i = 1; i < nwins; i++) {
    TickitWindow *ch[MAXW + 1];
    size_t n = tickit_window_get_children(wins[i], ch, MAXW + 1);
    for(size_t k = 0; k < n; k++) tickit_window_ref(ch[k]);
    tickit_window_unref(wins[i]);
  }
  if(nwins) {
    TickitWindow *ch[MAXW + 1];
    size_t n = tickit_window_get_children(wins[0], ch, MAXW + 1);
    for(size_t k = 0; k < n; k++) tickit_window_ref(ch[k]);   /* none left, normally */
    tickit_window_unref(wins[0]);
  }
  tickit_term_unref(tt);
  for(int i = 0; i < MAXW; i++) { free(behprog[i]); behprog[i] = NULL; }
  tt = NULL; gd = NULL; mt = NULL; nwins = 0;
}

static int scrollmode_of(const char *s)
{
  return s[0] == 'a' ? GD_ACCEPT : s[0] == 'p' ? GD_PARTIAL : GD_REFUSE;
}

static void engine_op(int argc, char **argv)
{
  const char *op = argv[0];
  evlen = 0; evbuf[0] = 0;
  wlen = 0;
  rb_snap_free(last_snap); last_snap = NULL;    /* every flush renders into a buffer of its own */
  /* no operation needs more than a few milliseconds of CPU: a loop that does not terminate becomes `CRASH signal=26` */
  struct itimerval lim = { .it_interval = { 0, 0 }, .it_value = { 0, 400000 } };
  setitimer(ITIMER_VIRTUAL, &lim, NULL);
  if(strcmp(op, "new") == 0) {
    if(argc != 6 || tt) { obs("bad-op"); return; }
    c02 = strcmp(argv[1], "C02") == 0;
    int lines = atoi(argv[2]), cols = atoi(argv[3]);
    if(lines < 1 || cols < 1 || lines > 64 || cols > 200) { obs("bad-op"); return; }
    if(argv[4][0] == 'm') {
      mt = tickit_mockterm_new(lines, cols);
      tt = (TickitTerm *)mt;
    }
    else if(argv[4][0] == 'x') {
      xmode = 1;
      tt = tickit_term_build(&(struct TickitTermBuilder){ .termtype = "xterm", .output_func = xt_output });
      if(!tt) { obs("bad-op"); xmode = 0; return; }
      tickit_term_set_size(tt, lines, cols);
    }
    else {
      gd = griddrv_new(lines, cols, scrollmode_of(argv[4]));
      tt = griddrv_term(gd);
    }
    wins[0] = tickit_window_new_root(tt);
    nwins = 1;
    int isnull; TickitPen *pen = parse_pen(argv[5], &isnull);
    tickit_window_set_pen(wins[0], pen);
    if(pen) tickit_pen_unref(pen);
    tickit_window_bind_event(wins[0], TICKIT_WINDOW_ON_EXPOSE, 0, on_expose, (void *)(intptr_t)0);
    finish(0, 0, 1);
    return;
  }
  if(!tt) { obs("bad-op"); return; }

  if(strcmp(op, "win") == 0 && argc == 9) {
    int id = atoi(argv[1]), parent = atoi(argv[2]);
    if(id != nwins || id >= MAXW || parent < 0 || parent >= nwins || closedw[parent]) { obs("bad-op"); return; }
    TickitRect r = { .top = atoi(argv[3]), .left = atoi(argv[4]), .lines = atoi(argv[5]), .cols = atoi(argv[6]) };
    int flags = 0;
    if(strchr(argv[7], 'r')) flags |= TICKIT_WINDOW_ROOT_PARENT;
    if(strchr(argv[7], 'h')) flags |= TICKIT_WINDOW_HIDDEN;
    if(strchr(argv[7], 'l')) flags |= TICKIT_WINDOW_LOWEST;
    if(strchr(argv[7], 's')) flags |= TICKIT_WINDOW_STEAL_INPUT;
    TickitWindow *w = tickit_window_new(wins[parent], r, flags);
    wins[nwins++] = w;
    int isnull; TickitPen *pen = parse_pen(argv[8], &isnull);
    tickit_window_set_pen(w, pen);
    if(pen) tickit_pen_unref(pen);
    tickit_window_bind_event(w, TICKIT_WINDOW_ON_EXPOSE, 0, on_expose, (void *)(intptr_t)id);
    finish(0, 0, 0);
    return;
  }
  if(strcmp(op, "beh") == 0 && argc >= 2) {
    int id = atoi(argv[1]);
    if(id < 0 || id >= nwins) { obs("bad-op"); return; }
    free(behprog[id]); behprog[id] = NULL;
    if(argc > 2) {
      size_t n = 0;
      for(int i = 2; i < argc; i++) n += strlen(argv[i]) + 1;
      behprog[id] = malloc(n + 1); behprog[id][0] = 0;
      for(int i = 2; i < argc; i++) { strcat(behprog[id], argv[i]); if(i + 1 < argc) strcat(behprog[id], " "); }
    }
    finish(0, 0, 0);
    return;
  }
  if(strcmp(op, "flush") == 0 && argc == 1) {
    if(gd) gd->clock++;
    tickit_window_flush(wins[0]);
    finish(0, 1, 1);
    return;
  }
  if(strcmp(op, "resize") == 0 && argc == 3) {
    int lines = atoi(argv[1]), cols = atoi(argv[2]);
    if(lines < 1 || cols < 1 || lines > 64 || cols > 200) { obs("bad-op"); return; }
    if(mt) {
      /* the mock terminal gives the cells it gains the pen in force (mtd_clear_cells: mtd->pen, whatever the last flush
       * left there): the application resizes with the default pen set, so that gained cells are plain blanks as on a
       * fresh terminal; cells of the area both sizes share must stay as they are (mockterm.c: "newlinecells[col] =
       * mtd->cells[line][col]") */
      TickitPen *plain = tickit_pen_new();
      tickit_term_setpen(tt, plain);
      tickit_pen_unref(plain);
      tickit_mockterm_resize(mt, lines, cols);
    }
    else if(xmode) tickit_term_set_size(tt, lines, cols);
    else griddrv_resize(gd, tt, lines, cols);
    finish(0, 0, 1);
    return;
  }
  if(strcmp(op, "scrollmode") == 0 && argc == 2) {
    if(mt || xmode) { obs("bad-op"); return; }
    gd->scrollmode = scrollmode_of(argv[1]);
    finish(0, 0, 0);
    return;
  }

  /* everything else names a window first */
  if(argc < 2) { obs("bad-op"); return; }
  int id = atoi(argv[1]);
  if(id < 0 || id >= nwins || closedw[id]) { obs("bad-op"); return; }
  TickitWindow *w = wins[id];

  if(argc == 2) {
    if(strcmp(op, "close") == 0)          { tickit_window_close(w); closedw[id] = 1; }
    else if(strcmp(op, "show") == 0)       tickit_window_show(w);
    else if(strcmp(op, "hide") == 0)       tickit_window_hide(w);
    else if(strcmp(op, "raise") == 0)      tickit_window_raise(w);
    else if(strcmp(op, "raisefront") == 0) tickit_window_raise_to_front(w);
    else if(strcmp(op, "lower") == 0)      tickit_window_lower(w);
    else if(strcmp(op, "lowerback") == 0)  tickit_window_lower_to_back(w);
    else if(strcmp(op, "expose") == 0)     tickit_window_expose(w, NULL);
    else { obs("bad-op"); return; }
    finish(0, 0, 0);
    return;
  }
  if(strcmp(op, "expose") == 0 && argc == 6) {
    TickitRect r = { .top = atoi(argv[2]), .left = atoi(argv[3]), .lines = atoi(argv[4]), .cols = atoi(argv[5]) };
    tickit_window_expose(w, &r);
    finish(0, 0, 0);
    return;
  }
  if((strcmp(op, "geom") == 0 || strcmp(op, "geomraw") == 0) && argc == 6) {
    if(id == 0) { obs("bad-op"); return; }    /* the root follows the terminal */
    TickitRect r = { .top = atoi(argv[2]), .left = atoi(argv[3]), .lines = atoi(argv[4]), .cols = atoi(argv[5]) };
    TickitRect old = tickit_window_get_geometry(w);
    tickit_window_set_geometry(w, r);
    TickitWindow *p = tickit_window_parent(w);
    if(op[4] == 0 && p) {
      tickit_window_expose(p, &old);
      tickit_window_expose(p, &r);
    }
    finish(0, 0, 0);
    return;
  }
  if((strcmp(op, "scroll") == 0 || strcmp(op, "scrollch") == 0) && argc == 4) {
    int d = atoi(argv[2]), r = atoi(argv[3]);
    TickitRect self = tickit_window_get_geometry(w);
    self.top = 0; self.left = 0;
    bool ret;
    if(op[6] == 0)
      ret = tickit_window_scroll(w, d, r);
    else {
      ret = tickit_window_scroll_with_children(w, d, r);
      /* "a container of windows, which will move all of the sub-windows too": the application moves them */
      TickitWindow *ch[MAXW + 1];
      size_t n = tickit_window_get_children(w, ch, MAXW + 1);
      for(size_t k = 0; k < n; k++) {
        TickitRect g = tickit_window_get_geometry(ch[k]);
        g.top -= d; g.left -= r;
        tickit_window_set_geometry(ch[k], g);
      }
    }
    add_shift(id, self, d, r);
    finish(ret, 0, 1);
    return;
  }
  if(strcmp(op, "scrollrect") == 0 && argc == 9) {
    TickitRect r = { .top = atoi(argv[2]), .left = atoi(argv[3]), .lines = atoi(argv[4]), .cols = atoi(argv[5]) };
    int d = atoi(argv[6]), rr = atoi(argv[7]);
    int isnull; TickitPen *pen = parse_pen(argv[8], &isnull);
    TickitRect self = tickit_window_get_geometry(w), inter;
    self.top = 0; self.left = 0;
    bool ret = tickit_window_scrollrect(w, &r, d, rr, pen);
    if(pen) tickit_pen_unref(pen);
    if(tickit_rect_intersect(&inter, &self, &r))
      add_shift(id, inter, d, rr);
    finish(ret, 0, 1);
    return;
  }
  obs("bad-op");
}
