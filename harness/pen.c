/* Engine `pen` (C19): drives /repo/src/pen.c through its public API only.
 *
 * Three pen slots 0..2, created by `new`.  Operations (attr = raw TickitPenAttr value, may be out of range):
 *   new
 *   setb i attr v | seti i attr v | setc i attr v | setrgb i attr r g b | desc i attr <hex>
 *   clear i attr | clearall i | copy dst src ow | copyattr dst src attr | clone dst src
 *   equiv i j | equivattr i j attr
 *   mkattrs i n (attr val){n}        tickit_pen_new_attrs; val is <hex> for the *_DESC pseudo attributes (n <= 3)
 *   tables                            N_PEN_ATTRS, penattr_type/name/lookup of every attr
 * Observation after every operation:
 *   <ret> |<ev0> <ne> <nd> tok0 … tok11 |<ev1> … |<ev2> … |E rrr rrr rrr
 * with tok(attr) = has,nondefault,getbool,getint,getcolour,rgb (rgb = rrggbb or -), attr = 0 … 11,
 * ev = number of TICKIT_PEN_ON_CHANGE events delivered to that pen since it was created, and E the 3x3 matrix
 * of tickit_pen_equiv.
 */
#define HCOMMON_MAIN
#include "hcommon.h"
#include "tickit.h"

#define NPEN 3
#define DUMP_ATTRS 12

static TickitPen *pens[NPEN];
static int evcount[NPEN];
static int evid[NPEN];

static int on_change(TickitPen *pen, TickitEventFlags flags, void *info, void *user)
{
  (*(int *)user)++;
  return 1;
}

static void adopt(int i, TickitPen *pen)
{
  if(pens[i]) {
    tickit_pen_unbind_event_id(pens[i], evid[i]);
    tickit_pen_unref(pens[i]);
  }
  pens[i] = pen;
  evcount[i] = 0;
  evid[i] = tickit_pen_bind_event(pen, TICKIT_PEN_ON_CHANGE, 0, on_change, &evcount[i]);
}

static void engine_begin(void) { for(int i = 0; i < NPEN; i++) pens[i] = NULL; }
static void engine_end(void)
{
  for(int i = 0; i < NPEN; i++)
    if(pens[i]) { tickit_pen_unbind_event_id(pens[i], evid[i]); tickit_pen_unref(pens[i]); pens[i] = NULL; }
}

static void dump(void)
{
  for(int i = 0; i < NPEN; i++) {
    const TickitPen *p = pens[i];
    obs(" |%d %d %d", evcount[i], tickit_pen_is_nonempty(p), tickit_pen_is_nondefault(p));
    for(int a = 0; a < DUMP_ATTRS; a++) {
      obs(" %d,%d,%d,%d,%d,", tickit_pen_has_attr(p, a), tickit_pen_nondefault_attr(p, a),
          tickit_pen_get_bool_attr(p, a), tickit_pen_get_int_attr(p, a), tickit_pen_get_colour_attr(p, a));
      if(tickit_pen_has_colour_attr_rgb8(p, a)) {
        TickitPenRGB8 c = tickit_pen_get_colour_attr_rgb8(p, a);
        obs("%02x%02x%02x", c.r, c.g, c.b);
      }
      else {
        /* the getter must return black when there is no RGB8 */
        TickitPenRGB8 c = tickit_pen_get_colour_attr_rgb8(p, a);
        if(c.r || c.g || c.b) obs("!%02x%02x%02x", c.r, c.g, c.b);
        else obs("-");
      }
    }
  }
  obs(" |E");
  for(int i = 0; i < NPEN; i++) {
    obs(" ");
    for(int j = 0; j < NPEN; j++) obs("%d", tickit_pen_equiv(pens[i], pens[j]));
  }
}

static int slot(const char *s) { int i = atoi(s); return (i < 0 || i >= NPEN) ? -1 : i; }

/* tickit_pen_new_attrs is variadic: enumerate the call shapes (I = int value, S = string value) */
typedef struct { int attr; int isstr; int ival; char *sval; } NAPair;
static TickitPen *call_new_attrs(int n, NAPair *p)
{
  switch(n) {
  case 0: return tickit_pen_new_attrs(0);
  case 1:
    if(p[0].isstr) return tickit_pen_new_attrs(p[0].attr, p[0].sval, 0);
    return tickit_pen_new_attrs(p[0].attr, p[0].ival, 0);
  case 2:
    switch(p[0].isstr * 2 + p[1].isstr) {
    case 0: return tickit_pen_new_attrs(p[0].attr, p[0].ival, p[1].attr, p[1].ival, 0);
    case 1: return tickit_pen_new_attrs(p[0].attr, p[0].ival, p[1].attr, p[1].sval, 0);
    case 2: return tickit_pen_new_attrs(p[0].attr, p[0].sval, p[1].attr, p[1].ival, 0);
    case 3: return tickit_pen_new_attrs(p[0].attr, p[0].sval, p[1].attr, p[1].sval, 0);
    }
    break;
  case 3:
    switch(p[0].isstr * 4 + p[1].isstr * 2 + p[2].isstr) {
    case 0: return tickit_pen_new_attrs(p[0].attr, p[0].ival, p[1].attr, p[1].ival, p[2].attr, p[2].ival, 0);
    case 1: return tickit_pen_new_attrs(p[0].attr, p[0].ival, p[1].attr, p[1].ival, p[2].attr, p[2].sval, 0);
    case 2: return tickit_pen_new_attrs(p[0].attr, p[0].ival, p[1].attr, p[1].sval, p[2].attr, p[2].ival, 0);
    case 3: return tickit_pen_new_attrs(p[0].attr, p[0].ival, p[1].attr, p[1].sval, p[2].attr, p[2].sval, 0);
    case 4: return tickit_pen_new_attrs(p[0].attr, p[0].sval, p[1].attr, p[1].ival, p[2].attr, p[2].ival, 0);
    case 5: return tickit_pen_new_attrs(p[0].attr, p[0].sval, p[1].attr, p[1].ival, p[2].attr, p[2].sval, 0);
    case 6: return tickit_pen_new_attrs(p[0].attr, p[0].sval, p[1].attr, p[1].sval, p[2].attr, p[2].ival, 0);
    case 7: return tickit_pen_new_attrs(p[0].attr, p[0].sval, p[1].attr, p[1].sval, p[2].attr, p[2].sval, 0);
    }
    break;
  }
  return NULL;
}

static void engine_op(int argc, char **argv)
{
  const char *op = argc ? argv[0] : "";
  if(strcmp(op, "new") == 0 && argc == 1) {
    for(int i = 0; i < NPEN; i++) adopt(i, tickit_pen_new());
    obs("-"); dump();
    return;
  }
  if(!pens[0]) { obs("bad-op"); return; }

  if(strcmp(op, "tables") == 0 && argc == 1) {
    obs("n=%d", TICKIT_N_PEN_ATTRS);
    for(int a = 0; a <= TICKIT_N_PEN_ATTRS; a++) {
      const char *name = tickit_penattr_name(a);
      obs(" %d:%d:%s:%d", a, tickit_penattr_type(a), name ? name : "-", name ? tickit_penattr_lookup(name) : -1);
    }
    return;
  }

  int i = argc > 1 ? slot(argv[1]) : -1;
  if(i < 0) { obs("bad-op"); return; }

  if(strcmp(op, "setb") == 0 && argc == 4) {
    tickit_pen_set_bool_attr(pens[i], atoi(argv[2]), atoi(argv[3]) != 0);
    obs("-");
  }
  else if(strcmp(op, "seti") == 0 && argc == 4) {
    tickit_pen_set_int_attr(pens[i], atoi(argv[2]), atoi(argv[3]));
    obs("-");
  }
  else if(strcmp(op, "setc") == 0 && argc == 4) {
    tickit_pen_set_colour_attr(pens[i], atoi(argv[2]), atoi(argv[3]));
    obs("-");
  }
  else if(strcmp(op, "setrgb") == 0 && argc == 6) {
    TickitPenRGB8 c = { atoi(argv[3]), atoi(argv[4]), atoi(argv[5]) };
    tickit_pen_set_colour_attr_rgb8(pens[i], atoi(argv[2]), c);
    obs("-");
  }
  else if(strcmp(op, "desc") == 0 && argc == 4) {
    unsigned char *s;
    long n = hex_decode(argv[3], &s);
    if(n < 0) { obs("bad-op"); return; }
    /* exact-size heap copy so that an over-read is an ASan report */
    char *exact = malloc(n + 1);
    memcpy(exact, s, n + 1);
    bool r = tickit_pen_set_colour_attr_desc(pens[i], atoi(argv[2]), exact);
    free(exact); free(s);
    obs("%d", r);
  }
  else if(strcmp(op, "clear") == 0 && argc == 3) {
    tickit_pen_clear_attr(pens[i], atoi(argv[2]));
    obs("-");
  }
  else if(strcmp(op, "clearall") == 0 && argc == 2) {
    tickit_pen_clear(pens[i]);
    obs("-");
  }
  else if(strcmp(op, "copy") == 0 && argc == 4) {
    int s = slot(argv[2]);
    if(s < 0) { obs("bad-op"); return; }
    tickit_pen_copy(pens[i], pens[s], atoi(argv[3]) != 0);
    obs("-");
  }
  else if(strcmp(op, "copyattr") == 0 && argc == 4) {
    int s = slot(argv[2]);
    if(s < 0) { obs("bad-op"); return; }
    tickit_pen_copy_attr(pens[i], pens[s], atoi(argv[3]));
    obs("-");
  }
  else if(strcmp(op, "clone") == 0 && argc == 3) {
    int s = slot(argv[2]);
    if(s < 0) { obs("bad-op"); return; }
    TickitPen *c = tickit_pen_clone(pens[s]);
    adopt(i, c);
    obs("-");
  }
  else if(strcmp(op, "equiv") == 0 && argc == 3) {
    int j = slot(argv[2]);
    if(j < 0) { obs("bad-op"); return; }
    obs("%d", tickit_pen_equiv(pens[i], pens[j]));
  }
  else if(strcmp(op, "equivattr") == 0 && argc == 4) {
    int j = slot(argv[2]);
    if(j < 0) { obs("bad-op"); return; }
    obs("%d", tickit_pen_equiv_attr(pens[i], pens[j], atoi(argv[3])));
  }
  else if(strcmp(op, "mkattrs") == 0 && argc >= 3) {
    int n = atoi(argv[2]);
    if(n < 0 || n > 3 || argc != 3 + 2 * n) { obs("bad-op"); return; }
    NAPair p[3];
    unsigned char *bufs[3] = { NULL, NULL, NULL };
    for(int k = 0; k < n; k++) {
      p[k].attr = atoi(argv[3 + 2 * k]);
      p[k].isstr = p[k].attr == TICKIT_PEN_FG_DESC || p[k].attr == TICKIT_PEN_BG_DESC;
      p[k].ival = 0; p[k].sval = NULL;
      if(p[k].isstr) {
        if(hex_decode(argv[4 + 2 * k], &bufs[k]) < 0) { obs("bad-op"); return; }
        p[k].sval = (char *)bufs[k];
      }
      else
        p[k].ival = atoi(argv[4 + 2 * k]);
    }
    TickitPen *c = call_new_attrs(n, p);
    for(int k = 0; k < 3; k++) free(bufs[k]);
    if(!c) { obs("bad-op"); return; }
    adopt(i, c);
    obs("-");
  }
  else { obs("bad-op"); return; }

  dump();
}
