/* Engine `modes` (C12): drives the xterm driver's control interface, pause/resume/teardown and the
 * toplevel instance's setup on a headless terminal (termtype "xterm", output function).
 *
 *   new term|tickit|tickitb [buf=N] [...]   build (tickit = tickit_new_for_term, tickitb = tickit_build with its own,
 *                                   buffered, terminal); buf=N: the terminal gets an output buffer of N bytes
 *                                   (tickitb without buf=: the toplevel's default); the other tokens describe the
 *                                   VT's mode state at hand-over
 *                                   (blink=0|1 shape=N vis=0|1; for the driver only - the history feeds the replies
 *                                   such a terminal gives, e.g. `reply mode 25 2` for vis=0)
 *   ctl <name|#num> <value>         tickit_term_setctl_int
 *   setstr <name|#num> <hex>        tickit_term_setctl_str
 *   setpen <pen> | chpen <pen>      pen = comma list of fg= bg= b= u= i= rv= s= af= bl= sp=   ("-" = empty);
 *                                   a colour is <index> or <index>#rrggbb (palette index with an RGB8 refinement)
 *   print <hex> | clear | flush
 *   reply mode <m> <v> | reply shape <n> | reply sgr <colon> <rgb>     terminal replies through input_push_bytes
 *   await <msec> | pause | resume | teardown
 *   unref                           the owner drops its reference: tickit_unref of the toplevel instance, else
 *                                   tickit_term_unref
 *   termref | termunref             another holder takes / drops a reference to the terminal (tickit_term_ref/unref)
 *   tick [nosetup] | usealt <v>     (toplevel only)
 *
 * Observation (one line): ret=<r> out=<hex bytes that had reached the output function when the call returned>
 *   held=<hex bytes still in the terminal's output buffer at that moment (the harness flushes them out afterwards)>
 *   ctl=<altscreen,cursorvis,mouse,cursorblink,cursorshape,keypad_app,colors,cap_cursorshape,cap_slrm,cap_csi_sub_colon,cap_rgb8>
 *   pen=<cached terminal pen> [ua=<use_altscreen>]            or  `... gone closed=<n>` after destruction.
 */
#define HCOMMON_MAIN
#include "hcommon.h"
#include "tickit.h"
#include "tickit-termdrv.h"
#include <sys/time.h>

/* ---- fake clock: every look at the clock advances it by 1 ms, so await_started's 50 ms budget is 50 iterations */
static long long fake_us = 1700000000LL * 1000000LL;
int __wrap_gettimeofday(struct timeval *tv, void *tz)
{
  (void)tz;
  fake_us += 1000;
  if(tv) { tv->tv_sec = fake_us / 1000000; tv->tv_usec = fake_us % 1000000; }
  return 0;
}

static TickitTerm *tt;       /* borrowed when owned by `top` */
static Tickit     *top;
static int         dead;     /* the terminal is destroyed */
static int         owner;    /* the owner's reference (the instance's, else the terminal's first one) is alive */
static int         extra;    /* references taken by `termref` */
static int         closed;   /* number of (NULL,0) calls of the output function */
static char       *out;
static size_t      outlen, outcap;

static void outfn(TickitTerm *t, const char *bytes, size_t len, void *user)
{
  (void)t; (void)user;
  if(!bytes) { closed++; return; }
  if(outlen + len + 1 > outcap) { outcap = (outlen + len + 1) * 2; out = realloc(out, outcap); }
  memcpy(out + outlen, bytes, len);
  outlen += len;
}

static void engine_begin(void) { tt = NULL; top = NULL; dead = 0; owner = 0; extra = 0; closed = 0; outlen = 0; }
static void engine_end(void)
{
  /* a history that does not end in destruction: release quietly so that LeakSanitizer only sees real leaks */
  if(!dead && tt) {
    if(owner) { if(top) tickit_unref(top); else tickit_term_unref(tt); }
    while(extra-- > 0) tickit_term_unref(tt);
  }
  free(out); out = NULL; outcap = outlen = 0;
}

static const char *privnames[] = { "xterm.cap_cursorshape", "xterm.cap_slrm", "xterm.cap_csi_sub_colon", "xterm.cap_rgb8" };
static const char *ctlnames[]  = { "altscreen", "cursorvis", "mouse", "cursorblink", "cursorshape", "keypad_app", "colors" };

static int parse_ctl(const char *s)
{
  if(s[0] == '#') return atoi(s + 1);
  return tickit_termctl_lookup(s);
}

static void dump_pen(const TickitPen *p)
{
  static const struct { TickitPenAttr a; const char *n; int kind; } tab[] = {
    { TICKIT_PEN_FG, "fg", 2 }, { TICKIT_PEN_BG, "bg", 2 }, { TICKIT_PEN_BOLD, "b", 0 }, { TICKIT_PEN_UNDER, "u", 1 },
    { TICKIT_PEN_ITALIC, "i", 0 }, { TICKIT_PEN_REVERSE, "rv", 0 }, { TICKIT_PEN_STRIKE, "s", 0 }, { TICKIT_PEN_ALTFONT, "af", 1 },
    { TICKIT_PEN_BLINK, "bl", 0 }, { TICKIT_PEN_SIZEPOS, "sp", 1 } };
  int any = 0;
  for(size_t i = 0; i < sizeof tab / sizeof tab[0]; i++) {
    if(!tickit_pen_has_attr(p, tab[i].a)) continue;
    int v = tab[i].kind == 0 ? tickit_pen_get_bool_attr(p, tab[i].a)
          : tab[i].kind == 1 ? tickit_pen_get_int_attr(p, tab[i].a)
          :                    tickit_pen_get_colour_attr(p, tab[i].a);
    obs("%s%s=%d", any ? "," : "", tab[i].n, v);
    if(tab[i].kind == 2 && tickit_pen_has_colour_attr_rgb8(p, tab[i].a)) {
      TickitPenRGB8 c = tickit_pen_get_colour_attr_rgb8(p, tab[i].a);
      obs("#%02x%02x%02x", c.r, c.g, c.b);
    }
    any = 1;
  }
  if(!any) obs("-");
}

static TickitPen *parse_pen(const char *s)
{
  TickitPen *p = tickit_pen_new();
  if(strcmp(s, "-") == 0) return p;
  char *copy = strdup(s), *save = NULL;
  for(char *f = strtok_r(copy, ",", &save); f; f = strtok_r(NULL, ",", &save)) {
    char *eq = strchr(f, '=');
    if(!eq) continue;
    *eq = 0;
    int v = atoi(eq + 1);
    if(!strcmp(f, "fg") || !strcmp(f, "bg")) {
      TickitPenAttr a = f[0] == 'f' ? TICKIT_PEN_FG : TICKIT_PEN_BG;
      tickit_pen_set_colour_attr(p, a, v);
      char *hash = strchr(eq + 1, '#');
      unsigned r, g, b;
      if(hash && sscanf(hash + 1, "%2x%2x%2x", &r, &g, &b) == 3)
        tickit_pen_set_colour_attr_rgb8(p, a, (TickitPenRGB8){ .r = r, .g = g, .b = b });
    }
    else if(!strcmp(f, "b"))  tickit_pen_set_bool_attr(p, TICKIT_PEN_BOLD, v);
    else if(!strcmp(f, "u"))  tickit_pen_set_int_attr(p, TICKIT_PEN_UNDER, v);
    else if(!strcmp(f, "i"))  tickit_pen_set_bool_attr(p, TICKIT_PEN_ITALIC, v);
    else if(!strcmp(f, "rv")) tickit_pen_set_bool_attr(p, TICKIT_PEN_REVERSE, v);
    else if(!strcmp(f, "s"))  tickit_pen_set_bool_attr(p, TICKIT_PEN_STRIKE, v);
    else if(!strcmp(f, "af")) tickit_pen_set_int_attr(p, TICKIT_PEN_ALTFONT, v);
    else if(!strcmp(f, "bl")) tickit_pen_set_bool_attr(p, TICKIT_PEN_BLINK, v);
    else if(!strcmp(f, "sp")) tickit_pen_set_int_attr(p, TICKIT_PEN_SIZEPOS, v);
  }
  free(copy);
  return p;
}

static void finish(const char *ret)
{
  /* what has reached the output function now that the call has returned, and what is still in the output
   * buffer (made observable by a flush of the harness's own) */
  size_t delivered = outlen;
  if(!dead && tt) tickit_term_flush(tt);
  obs("ret=%s out=", ret);
  obs_hex(out, delivered);
  obs(" held=");
  obs_hex(out + delivered, outlen - delivered);
  outlen = 0;
  if(dead || !tt) { obs(" gone closed=%d", closed); return; }
  obs(" ctl=");
  for(size_t i = 0; i < sizeof ctlnames / sizeof ctlnames[0]; i++) {
    int v = -777;
    bool ok = tickit_term_getctl_int(tt, tickit_termctl_lookup(ctlnames[i]), &v);
    if(ok) obs("%s%d", i ? "," : "", v); else obs("%s!", i ? "," : "");
  }
  for(size_t i = 0; i < sizeof privnames / sizeof privnames[0]; i++) {
    int v = -777;
    bool ok = tickit_term_getctl_int(tt, tickit_termctl_lookup(privnames[i]), &v);
    if(ok) obs(",%d", v); else obs(",!");
  }
  obs(" pen=");
  dump_pen(tickit_termdrv_current_pen(tickit_term_get_driver(tt)));
  if(top) {
    int v = -777;
    tickit_getctl_int(top, TICKIT_CTL_USE_ALTSCREEN, &v);
    obs(" ua=%d", v);
  }
}

static void engine_op(int argc, char **argv)
{
  const char *op = argv[0];
  char ret[32] = "-";

  if(strcmp(op, "new") == 0) {
    const char *kind = argc > 1 ? argv[1] : "term";
    size_t bufsize = 0;
    for(int i = 2; i < argc; i++)
      if(strncmp(argv[i], "buf=", 4) == 0) bufsize = strtoul(argv[i] + 4, NULL, 10);
    if(tt || top || dead) { obs("bad-op"); return; }
    if(strcmp(kind, "tickitb") == 0) {
      top = tickit_build(&(struct TickitBuilder){
        .term_builder = { .termtype = "xterm", .output_func = outfn, .output_func_user = NULL, .output_buffersize = bufsize } });
      tt = top ? tickit_get_term(top) : NULL;
    }
    else {
      tt = tickit_term_build(&(struct TickitTermBuilder){ .termtype = "xterm", .output_func = outfn, .output_func_user = NULL,
                                                          .output_buffersize = bufsize });
      if(tt && strcmp(kind, "tickit") == 0)
        top = tickit_new_for_term(tt);
    }
    if(!tt) { obs("build-failed"); return; }
    owner = 1;
    finish("-");
    return;
  }
  if(dead || !tt) { obs("dead"); return; }

  if(strcmp(op, "ctl") == 0 && argc == 3) {
    bool r = tickit_term_setctl_int(tt, parse_ctl(argv[1]), atoi(argv[2]));
    snprintf(ret, sizeof ret, "%d", r);
  }
  else if(strcmp(op, "setstr") == 0 && argc == 3) {
    unsigned char *b; long n = hex_decode(argv[2], &b);
    if(n < 0) { obs("bad-op"); return; }
    bool r = tickit_term_setctl_str(tt, parse_ctl(argv[1]), (char *)b);
    free(b);
    snprintf(ret, sizeof ret, "%d", r);
  }
  else if((strcmp(op, "setpen") == 0 || strcmp(op, "chpen") == 0) && argc == 2) {
    TickitPen *p = parse_pen(argv[1]);
    if(op[0] == 's') tickit_term_setpen(tt, p); else tickit_term_chpen(tt, p);
    tickit_pen_unref(p);
  }
  else if(strcmp(op, "print") == 0 && argc == 2) {
    unsigned char *b; long n = hex_decode(argv[1], &b);
    if(n < 0) { obs("bad-op"); return; }
    tickit_term_printn(tt, (char *)b, n);
    free(b);
  }
  else if(strcmp(op, "clear") == 0) tickit_term_clear(tt);
  else if(strcmp(op, "flush") == 0) tickit_term_flush(tt);
  else if(strcmp(op, "reply") == 0 && argc >= 3) {
    char buf[64]; int n = 0;
    if(strcmp(argv[1], "mode") == 0 && argc == 4) n = snprintf(buf, sizeof buf, "\e[?%d;%d$y", atoi(argv[2]), atoi(argv[3]));
    else if(strcmp(argv[1], "shape") == 0 && argc == 3) n = snprintf(buf, sizeof buf, "\eP1$r%d q\e\\", atoi(argv[2]));
    else if(strcmp(argv[1], "sgr") == 0 && argc == 4) {
      int colon = atoi(argv[2]), rgb = atoi(argv[3]);
      n = snprintf(buf, sizeof buf, "\eP1$r%s\e\\", colon ? (rgb ? "38:2:0:1:2m" : "38:5:255m") : (rgb ? "38;2;0;1;2m" : "38;5;255m"));
    }
    else { obs("bad-op"); return; }
    tickit_term_input_push_bytes(tt, buf, n);
  }
  else if(strcmp(op, "await") == 0 && argc == 2) tickit_term_await_started_msec(tt, atol(argv[1]));
  else if(strcmp(op, "pause") == 0) tickit_term_pause(tt);
  else if(strcmp(op, "resume") == 0) tickit_term_resume(tt);
  else if(strcmp(op, "teardown") == 0) tickit_term_teardown(tt);
  else if(strcmp(op, "unref") == 0) {
    if(!owner) { obs("bad-op"); return; }
    if(top) tickit_unref(top); else tickit_term_unref(tt);
    top = NULL;
    owner = 0;
    if(!extra) dead = 1;
  }
  else if(strcmp(op, "termref") == 0) { tickit_term_ref(tt); extra++; }
  else if(strcmp(op, "termunref") == 0) {
    if(!extra) { obs("bad-op"); return; }
    tickit_term_unref(tt);
    extra--;
    if(!extra && !owner) dead = 1;
  }
  else if(strcmp(op, "tick") == 0 && top) {
    tickit_tick(top, TICKIT_RUN_NOHANG | (argc > 1 && strcmp(argv[1], "nosetup") == 0 ? TICKIT_RUN_NOSETUP : 0));
  }
  else if(strcmp(op, "usealt") == 0 && top && argc == 2) {
    bool r = tickit_setctl_int(top, TICKIT_CTL_USE_ALTSCREEN, atoi(argv[1]));
    snprintf(ret, sizeof ret, "%d", r);
  }
  else { obs("bad-op"); return; }
  finish(ret);
}
