/* Engine `sgr` (C10): tickit_term_setpen / tickit_term_chpen against the cached pen.
 *
 *   new x <rgb8> <colon> <reply|ctl>   real xterm driver + output function; the capability bits are set by feeding the
 *                                      DECRQSS reply for SGR through tickit_term_input_push_bytes (`ctl`: rgb8 is forced
 *                                      through the driver-private control instead)
 *   new g <colors> <rgb8> <colon>      harness-owned driver (TickitTermBuilder.driver) that reports <colors> and records
 *                                      the (delta, final) pens of every chpen call; rgb8/colon are only read by the model
 *   new t                              table mode:  palette  prints xterm256[] as the C compiler sees it
 *   renew ...                          same as `new ...` but inside the running history (the harness forks once per `new`):
 *                                      the current terminal is destroyed and a fresh one is built
 *   new x|g ... <pen>                  (one more token) the history starts with <pen> in force: tickit_term_setpen(<pen>) is
 *                                      issued as part of the construction; the observation continues with ` init ` followed by
 *                                      the observation of that request.  (The pen in force is part of the history's head line,
 *                                      so that a failure of a later request which depends on it keeps it when the history is shrunk.)
 *   setpen <pen> | chpen <pen>         <pen> = `-` or a comma separated list in attribute order, e.g.
 *                                      fg=200#0a0b0c,bg=-1,b=1,u=2,i=0,rv=1,strike=0,af=3,blink=1,sizepos=2
 *   suspend                            tickit_term_pause(tt) then tickit_term_resume(tt): the program is stopped and continued.
 *                                      (One operation, so that no request ever falls between the two halves: the documented
 *                                      protocol allows nothing but resume after pause.)
 *   print <word>                       tickit_term_printf(tt, "%s", <word>): text is drawn between pen requests (it is formatted in
 *                                      the terminal's scratch buffer, which the xterm driver's chpen uses for its SGR string too)
 *   outbuf <n>                         (x only) tickit_term_set_output_buffer(tt, n): from now on the library collects its output in a
 *                                      buffer of n bytes and hands it to the output function when the buffer is full or on flush
 *   flush                              (x only) tickit_term_flush(tt); both observe `b=<hex of the bytes the output function received> pen=`
 *
 * Observations:  x: `b=<hex of the bytes written> pen=<cached pen>`      g: `n=<chpen calls> d=<delta> f=<final> pen=<cached pen>`
 *   suspend      x: `p=<hex of the bytes written by pause> b=<hex of the bytes written by resume> pen=<cached pen>`
 *   print        x: `b=<hex of the bytes written> pen=<cached pen>`   g: `t=<hex of the text handed to the driver's print> pen=`
 *                g: `pause=<driver pause calls> resume=<driver resume calls> order=<p|r|c per driver call> n=<chpen calls> d= f= pen=`
 */
#define HCOMMON_MAIN
#include "hcommon.h"
#include "tickit.h"
#include "tickit-termdrv.h"

#include "xterm-palette.inc"   /* the same table term.c compiles in (static) */

static TickitTerm *tt;
static char mode;

/* bytes written by the library since the last observation */
static unsigned char *outb;
static size_t outn, outcap;

static void on_output(TickitTerm *t, const char *bytes, size_t len, void *user)
{
  (void)t; (void)user;
  if(!bytes) return;                      /* (NULL, 0) on destroy */
  if(outn + len + 1 > outcap) { outcap = (outn + len + 1) * 2; outb = realloc(outb, outcap); }
  memcpy(outb + outn, bytes, len);
  outn += len;
}

static const TickitPenAttr attr_order[] = {
  TICKIT_PEN_FG, TICKIT_PEN_BG, TICKIT_PEN_BOLD, TICKIT_PEN_UNDER, TICKIT_PEN_ITALIC, TICKIT_PEN_REVERSE,
  TICKIT_PEN_STRIKE, TICKIT_PEN_ALTFONT, TICKIT_PEN_BLINK, TICKIT_PEN_SIZEPOS,
};
#define N_ATTRS (sizeof attr_order / sizeof attr_order[0])

/* canonical text of a pen, through the public getters only */
static void fmt_pen(char *dst, size_t cap, const TickitPen *p)
{
  size_t n = 0;
  dst[0] = 0;
  for(size_t i = 0; i < N_ATTRS; i++) {
    TickitPenAttr a = attr_order[i];
    if(!tickit_pen_has_attr(p, a)) continue;
    if(n) n += snprintf(dst + n, cap - n, ",");
    n += snprintf(dst + n, cap - n, "%s=", tickit_penattr_name(a));
    switch(tickit_penattr_type(a)) {
      case TICKIT_PENTYPE_BOOL:
        n += snprintf(dst + n, cap - n, "%d", tickit_pen_get_bool_attr(p, a));
        break;
      case TICKIT_PENTYPE_INT:
        n += snprintf(dst + n, cap - n, "%d", tickit_pen_get_int_attr(p, a));
        break;
      case TICKIT_PENTYPE_COLOUR:
        n += snprintf(dst + n, cap - n, "%d", tickit_pen_get_colour_attr(p, a));
        if(tickit_pen_has_colour_attr_rgb8(p, a)) {
          TickitPenRGB8 c = tickit_pen_get_colour_attr_rgb8(p, a);
          n += snprintf(dst + n, cap - n, "#%02x%02x%02x", c.r, c.g, c.b);
        }
        break;
    }
  }
  if(!n) snprintf(dst, cap, "-");
}

static TickitPen *parse_pen(const char *s)
{
  TickitPen *p = tickit_pen_new();
  if(strcmp(s, "-") == 0) return p;
  char *copy = strdup(s), *save = NULL;
  for(char *t = strtok_r(copy, ",", &save); t; t = strtok_r(NULL, ",", &save)) {
    char *eq = strchr(t, '=');
    if(!eq) { tickit_pen_unref(p); free(copy); return NULL; }
    *eq = 0;
    TickitPenAttr a = tickit_penattr_lookup(t);
    if((int)a < 1) { tickit_pen_unref(p); free(copy); return NULL; }
    const char *v = eq + 1;
    switch(tickit_penattr_type(a)) {
      case TICKIT_PENTYPE_BOOL:   tickit_pen_set_bool_attr(p, a, atoi(v)); break;
      case TICKIT_PENTYPE_INT:    tickit_pen_set_int_attr(p, a, atoi(v)); break;
      case TICKIT_PENTYPE_COLOUR: {
        tickit_pen_set_colour_attr(p, a, atoi(v));
        const char *h = strchr(v, '#');
        if(h) {
          unsigned r, g, b;
          if(sscanf(h + 1, "%2x%2x%2x", &r, &g, &b) == 3)
            tickit_pen_set_colour_attr_rgb8(p, a, (TickitPenRGB8){ .r = r, .g = g, .b = b });
        }
        break;
      }
    }
  }
  free(copy);
  return p;
}

/* ------------------------------------------------------------------ harness-owned driver */

struct GridDriver {
  TickitTermDriver driver;
  int colors;
  int ncalls;
  int npause, nresume;
  char order[16]; int norder;
  char delta[512], final[512];
  unsigned char text[256]; size_t ntext;
};

static bool gd_print(TickitTermDriver *d, const char *s, size_t n)
{
  struct GridDriver *gd = (struct GridDriver *)d;
  for(size_t i = 0; i < n && gd->ntext < sizeof gd->text; i++) gd->text[gd->ntext++] = (unsigned char)s[i];
  return true;
}
static bool gd_goto(TickitTermDriver *d, int l, int c) { (void)d; (void)l; (void)c; return true; }
static bool gd_scroll(TickitTermDriver *d, const TickitRect *r, int a, int b) { (void)d; (void)r; (void)a; (void)b; return false; }
static bool gd_erasech(TickitTermDriver *d, int n, TickitMaybeBool m) { (void)d; (void)n; (void)m; return true; }
static bool gd_clear(TickitTermDriver *d) { (void)d; return true; }
static bool gd_chpen(TickitTermDriver *d, const TickitPen *delta, const TickitPen *final)
{
  struct GridDriver *gd = (struct GridDriver *)d;
  gd->ncalls++;
  if(gd->norder < 15) gd->order[gd->norder++] = 'c';
  fmt_pen(gd->delta, sizeof gd->delta, delta);
  fmt_pen(gd->final, sizeof gd->final, final);
  return true;
}
static bool gd_getctl(TickitTermDriver *d, TickitTermCtl ctl, int *value)
{
  struct GridDriver *gd = (struct GridDriver *)d;
  if(ctl == TICKIT_TERMCTL_COLORS) { *value = gd->colors; return true; }
  return false;
}
static bool gd_setctl_int(TickitTermDriver *d, TickitTermCtl ctl, int v) { (void)d; (void)ctl; (void)v; return false; }
static bool gd_setctl_str(TickitTermDriver *d, TickitTermCtl ctl, const char *v) { (void)d; (void)ctl; (void)v; return false; }
static void gd_destroy(TickitTermDriver *d) { free(d); }
static void gd_pause(TickitTermDriver *d)
{
  struct GridDriver *gd = (struct GridDriver *)d;
  gd->npause++;
  if(gd->norder < 15) gd->order[gd->norder++] = 'p';
}
static void gd_resume(TickitTermDriver *d)
{
  struct GridDriver *gd = (struct GridDriver *)d;
  gd->nresume++;
  if(gd->norder < 15) gd->order[gd->norder++] = 'r';
}

static TickitTermDriverVTable gd_vtable = {
  .destroy = gd_destroy, .pause = gd_pause, .resume = gd_resume,
  .print = gd_print, .goto_abs = gd_goto, .move_rel = gd_goto, .scrollrect = gd_scroll, .erasech = gd_erasech,
  .clear = gd_clear, .chpen = gd_chpen, .getctl_int = gd_getctl, .setctl_int = gd_setctl_int, .setctl_str = gd_setctl_str,
};

static struct GridDriver *gd;

/* ------------------------------------------------------------------ engine */

static void engine_begin(void) { tt = NULL; gd = NULL; mode = 0; outn = 0; }

static void engine_end(void)
{
  if(tt) tickit_term_unref(tt);
  tt = NULL;
  free(outb); outb = NULL; outcap = outn = 0;
}

static void obs_out(void)
{
  obs("b=");
  obs_hex(outb, outn);
  outn = 0;
}

static void obs_cached(void)
{
  char buf[512];
  fmt_pen(buf, sizeof buf, tickit_termdrv_current_pen(tickit_term_get_driver(tt)));
  obs(" pen=%s", buf);
}

static void do_request(int set, const char *pentext);

/* the program is stopped and continued */
static void do_suspend(void)
{
  if(mode == 'g') {
    gd->ncalls = gd->npause = gd->nresume = gd->norder = 0;
    memset(gd->order, 0, sizeof gd->order);
    strcpy(gd->delta, "?"); strcpy(gd->final, "?");
  }
  tickit_term_pause(tt);
  if(mode == 'x') { obs("p="); obs_hex(outb, outn); outn = 0; obs(" "); }
  tickit_term_resume(tt);
  if(mode == 'x') obs_out();
  else            obs("pause=%d resume=%d order=%s n=%d d=%s f=%s", gd->npause, gd->nresume, gd->norder ? gd->order : "-", gd->ncalls, gd->delta, gd->final);
  obs_cached();
}

static void op_new(int argc, char **argv)
{
  const char *initpen = NULL;
  if(argc == 6 && (strcmp(argv[1], "x") == 0 || strcmp(argv[1], "g") == 0)) { initpen = argv[5]; argc = 5; }
  if(tt) {                      /* `renew`: a fresh terminal inside the same forked child */
    tickit_term_unref(tt);
    tt = NULL; gd = NULL; mode = 0; outn = 0;
  }
  if(argc == 5 && strcmp(argv[1], "x") == 0) {
    int rgb8 = atoi(argv[2]), colon = atoi(argv[3]);
    int via_ctl = strcmp(argv[4], "ctl") == 0;
    mode = 'x';
    tt = tickit_term_build(&(struct TickitTermBuilder){ .termtype = "xterm", .output_func = on_output });
    if(!tt) { obs("build-failed"); mode = 0; return; }
    char reply[64];
    snprintf(reply, sizeof reply, (rgb8 && !via_ctl) ? "\033P1$r38%c2%c0%c1%c2m\033\\" : "\033P1$r38%c5%c255m\033\\",
        colon ? ':' : ';', colon ? ':' : ';', colon ? ':' : ';', colon ? ':' : ';');
    tickit_term_input_push_bytes(tt, reply, strlen(reply));
    if(via_ctl)
      tickit_term_setctl_int(tt, tickit_termctl_lookup("xterm.cap_rgb8"), rgb8);
    int v_rgb8 = -1, v_colon = -1;
    tickit_term_getctl_int(tt, tickit_termctl_lookup("xterm.cap_rgb8"), &v_rgb8);
    tickit_term_getctl_int(tt, tickit_termctl_lookup("xterm.cap_csi_sub_colon"), &v_colon);
    obs("x rgb8=%d colon=%d ", v_rgb8, v_colon);
    obs_out();
    obs_cached();
    if(initpen) { obs(" init "); do_request(1, initpen); }
  }
  else if(argc == 5 && strcmp(argv[1], "g") == 0) {
    mode = 'g';
    gd = calloc(1, sizeof *gd);
    gd->driver.vtable = &gd_vtable;
    gd->driver.name = "verif-grid";
    gd->colors = atoi(argv[2]);
    tt = tickit_term_build(&(struct TickitTermBuilder){ .termtype = "xterm", .driver = &gd->driver });
    if(!tt) { obs("build-failed"); mode = 0; return; }
    obs("g colors=%d", gd->colors);
    obs_cached();
    if(initpen) { obs(" init "); do_request(1, initpen); }
  }
  else if(argc == 2 && strcmp(argv[1], "t") == 0) {
    mode = 't';
    obs("t");
  }
  else
    obs("bad-op");
}

static void engine_op(int argc, char **argv)
{
  if(argc >= 1 && (strcmp(argv[0], "new") == 0 || strcmp(argv[0], "renew") == 0)) { op_new(argc, argv); return; }
  if(mode == 't' && argc == 1 && strcmp(argv[0], "palette") == 0) {
    size_t n = sizeof xterm256 / sizeof xterm256[0];
    obs("%zu", n);
    for(size_t i = 0; i < n; i++) obs(" %u/%u", xterm256[i].as16, xterm256[i].as8);
    return;
  }
  if((mode == 'x' || mode == 'g') && argc == 1 && strcmp(argv[0], "suspend") == 0) { do_suspend(); return; }
  if((mode == 'x' || mode == 'g') && argc == 2 && strcmp(argv[0], "print") == 0) {
    if(mode == 'g') gd->ntext = 0;
    tickit_term_printf(tt, "%s", argv[1]);
    if(mode == 'x') obs_out();
    else { obs("t="); obs_hex(gd->text, gd->ntext); }
    obs_cached();
    return;
  }
  if(mode == 'x' && argc == 2 && strcmp(argv[0], "outbuf") == 0) {
    tickit_term_set_output_buffer(tt, (size_t)atoi(argv[1]));
    obs_out(); obs_cached();
    return;
  }
  if(mode == 'x' && argc == 1 && strcmp(argv[0], "flush") == 0) {
    tickit_term_flush(tt);
    obs_out(); obs_cached();
    return;
  }
  if((mode != 'x' && mode != 'g') || argc != 2) { obs("bad-op"); return; }
  int set;
  if(strcmp(argv[0], "setpen") == 0) set = 1;
  else if(strcmp(argv[0], "chpen") == 0) set = 0;
  else { obs("bad-op"); return; }

  do_request(set, argv[1]);
}

static void do_request(int set, const char *pentext)
{
  TickitPen *pen = parse_pen(pentext);
  if(!pen) { obs("bad-op"); return; }
  char before[512], after[512];
  fmt_pen(before, sizeof before, pen);
  if(mode == 'g') { gd->ncalls = 0; strcpy(gd->delta, "?"); strcpy(gd->final, "?"); }

  if(set) tickit_term_setpen(tt, pen);
  else    tickit_term_chpen(tt, pen);

  fmt_pen(after, sizeof after, pen);
  if(mode == 'x') obs_out();
  else            obs("n=%d d=%s f=%s", gd->ncalls, gd->delta, gd->final);
  obs_cached();
  if(strcmp(before, after) != 0) obs(" argument-modified");
  tickit_pen_unref(pen);
}
