/* Engine `rbflush` (C04): tickit_renderbuffer_flush_to_term of the working tree, flushed into a
 * harness-owned grid terminal driver injected through TickitTermBuilder.driver.
 *
 * Operations: everything of engine `rb` (harness/rb.c is included; same vocabulary, same dump) plus
 *   term TL TC ORACLE WS PEN SEED
 *       a terminal whose driver is the grid below, window TL x TC.  ORACLE: bit (k mod 31) says whether the cursor
 *       moves to the end of the k-th erasech(..., TICKIT_MAYBE).  WS=1: the driver's print hands the bytes to
 *       tickit_termdrv_write_str (as the xterm driver's print does) and the grid receives what the output function
 *       is given.  PEN: `NONE`, or a pen set with tickit_term_setpen first (the "prior pen").  Then every cell gets a
 *       sentinel character derived from SEED (so that skip and erase differ), the current pen and a write count of 0;
 *       the cursor starts at a SEED-derived position.
 *   termm TL TC PEN SEED
 *       the library's own mock terminal (tickit_mockterm_new), second configuration: PEN as above, the sentinel pattern is
 *       printed through the terminal API, then the cursor is put at a SEED-derived position.  Observation: the mock
 *       terminal's log (g / t / e / p<final>), its cursor, tt->pen, and the display text and pen of every cell.
 *   termx TL TC BUF CAPS PEN SEED
 *       third configuration: a terminal object built with the library's real xterm driver (termtype "xterm") whose
 *       bytes go through the output buffer of src/term.c to an output function that records every chunk it is handed.
 *       CAPS: bit 0 = the terminal answered the DECRQSS probe with an RGB8 colour, bit 1 = with ':' sub-parameters (fed
 *       through tickit_term_input_push_bytes as a terminal would).  PEN as above; the sentinel pattern is printed through
 *       the terminal API (unbuffered), the cursor is put at a SEED-derived position, and then the output buffer is set to
 *       BUF bytes (tickit_term_set_output_buffer; 0 = none).  Observation: every byte written so far (after the driver's
 *       start-up probes), tt->pen and the capability bits as the driver reports them.
 *   suspend
 *       third configuration only: tickit_term_pause(tt); tickit_term_resume(tt); tickit_term_flush(tt) - what an
 *       application does around SIGTSTP or a sub-shell.  r=- pa=<chunks delivered by the pause> re=<chunks delivered by
 *       the resume> fl=<chunk of tickit_term_flush> pen=<tt->pen>.  The bytes are read by the same VT screen: the next
 *       flush meets whatever rendering state they leave behind.
 *   flush
 *       tickit_renderbuffer_flush_to_term(rb, tt); in the third configuration followed by tickit_term_flush(tt):
 *       r=ok out=<chunks delivered during the flush, ','-separated> fl=<chunk delivered by tickit_term_flush> pen=<tt->pen>
 *       rb=<dump>.  The bytes are interpreted by the VT screen of lean/Tickit/Model/RBFlushX.lean.
 * Observation of `term`/`flush`:
 *   r=<-|ok> [log=<requests>] cur=<l>,<c> pen=<tt->pen> nm=<#MAYBE erases> grid=<rows '/', cells '|'> [rb=<dump>]
 *   request log: g<l>,<c> | p<delta><final> | t<hex of str[0..len)> | e<count>,<moveend>, separated by ';'
 *   cell: <_ blank | ~ second half of a wide character | hex bytes>{pen}w<times written>
 *
 * The grid is the C twin of `Tickit.RBFlush.GridTerm` (lean/Tickit/Model/RBFlush.lean): TC columns wide with the VT
 * behaviour at the right edge (printing into the last column leaves the pending-wrap state col == cols; the next
 * character wraps to column 0 of the next line; goto clamps the column and ends pending wrap; erasech is ECH + CUF),
 * unbounded downwards (no scrolling), UTF-8 decoded as the library's next_utf8 does, widths from the
 * library's tickit_utf8_wcwidth, zero-width characters attached to the last character printed.
 */
#define HCOMMON_MAIN
#include "hcommon.h"
#include "tickit.h"
#include "tickit-termdrv.h"
#include "tickit-mockterm.h"
#include <stdint.h>
#include "unicode.h"   /* src/unicode.h: static tickit_utf8_wcwidth (the library's own tables) */

/* the render-buffer operations, parsing and printing helpers of engine `rb` under other names */
#define engine_begin rb_engine_begin
#define engine_op    rb_engine_op
#define engine_end   rb_engine_end
#include "rb.c"
#undef engine_begin
#undef engine_op
#undef engine_end

typedef struct {
  int kind;               /* 0 blank, 1 characters, 2 second half of a wide character */
  unsigned char *bs;
  size_t n;
  TickitPen *pen;
  int writes;
} GCell;

typedef struct {
  TickitTermDriver super;
  int lines, cols;
  GCell *cells;
  int line, col;
  int has_last, last_l, last_c;
  TickitPen *pen;
  unsigned oracle;
  int nmaybe;
  int ws;
  char *log; size_t loglen; FILE *logfh;
} GridDrv;

static TickitTerm *tt;
static GridDrv *gd;
static int mock_lines, mock_cols;   /* > 0: tt is the library's mock terminal (tickit_mockterm_new) */

static void fmt_pen(FILE *fh, const TickitPen *pen);

/* third configuration: the chunks the output function of a real xterm-driver terminal has been handed */
typedef struct { unsigned char *bs; size_t n; } XChunk;
static int x_mode;
static XChunk *x_chunks;
static size_t x_nchunks, x_capchunks;

static void x_outfunc(TickitTerm *t, const char *bytes, size_t len, void *user)
{
  (void)t; (void)user;
  if(!bytes) return;   /* (NULL, 0) announces the end of the terminal */
  if(x_nchunks == x_capchunks) {
    x_capchunks = x_capchunks ? 2 * x_capchunks : 64;
    x_chunks = realloc(x_chunks, x_capchunks * sizeof *x_chunks);
  }
  x_chunks[x_nchunks].bs = malloc(len ? len : 1);
  memcpy(x_chunks[x_nchunks].bs, bytes, len);
  x_chunks[x_nchunks].n = len;
  x_nchunks++;
}

static void x_reset(void)
{
  for(size_t i = 0; i < x_nchunks; i++) free(x_chunks[i].bs);
  x_nchunks = 0;
}

/* chunks [from, to): hex, separated by `sep` (0: concatenated); `-` when there is none, `.` for an empty chunk */
static void x_obs_chunks(size_t from, size_t to, int sep)
{
  char *buf = NULL; size_t len = 0;
  FILE *fh = open_memstream(&buf, &len);
  size_t total = 0;
  for(size_t i = from; i < to; i++) {
    if(sep && i > from) fputc(sep, fh);
    if(sep && x_chunks[i].n == 0) fputc('.', fh);
    for(size_t k = 0; k < x_chunks[i].n; k++) fprintf(fh, "%02x", x_chunks[i].bs[k]);
    total += x_chunks[i].n;
  }
  if(from == to || (!sep && total == 0)) fputc('-', fh);
  fclose(fh);
  obs_raw(buf, len);
  free(buf);
}

static void x_obs_pen(void)
{
  char *buf = NULL; size_t len = 0;
  FILE *fh = open_memstream(&buf, &len);
  fmt_pen(fh, tickit_termdrv_current_pen(tickit_term_get_driver(tt)));
  fclose(fh);
  obs_raw(buf, len);
  free(buf);
}

static void fmt_pen(FILE *fh, const TickitPen *pen)
{
  fputc('{', fh);
  int first = 1;
  for(TickitPenAttr attr = 1; attr < TICKIT_N_PEN_ATTRS; attr++) {
    if(!tickit_pen_has_attr(pen, attr)) continue;
    fprintf(fh, "%s%s=", first ? "" : ",", tickit_penattr_name(attr));
    first = 0;
    switch(tickit_penattr_type(attr)) {
      case TICKIT_PENTYPE_BOOL: fprintf(fh, "%d", tickit_pen_get_bool_attr(pen, attr)); break;
      case TICKIT_PENTYPE_INT:  fprintf(fh, "%d", tickit_pen_get_int_attr(pen, attr)); break;
      case TICKIT_PENTYPE_COLOUR:
        fprintf(fh, "%d", tickit_pen_get_colour_attr(pen, attr));
        if(tickit_pen_has_colour_attr_rgb8(pen, attr)) {
          TickitPenRGB8 v = tickit_pen_get_colour_attr_rgb8(pen, attr);
          fprintf(fh, "#%02x%02x%02x", v.r, v.g, v.b);
        }
        break;
    }
  }
  fputc('}', fh);
}

static void log_sep(GridDrv *g)
{
  if(ftell(g->logfh) > 0) fputc(';', g->logfh);
}

static GCell *cell_at(GridDrv *g, int l, int c)
{
  if(l < 0 || l >= g->lines || c < 0 || c >= g->cols) return NULL;
  return &g->cells[(size_t)l * g->cols + c];
}

static void cell_write(GridDrv *g, int l, int c, int kind, const unsigned char *bs, size_t n)
{
  GCell *cell = cell_at(g, l, c);
  if(!cell) return;
  free(cell->bs);
  cell->bs = NULL; cell->n = 0;
  if(kind == 1) {
    cell->bs = malloc(n ? n : 1);
    memcpy(cell->bs, bs, n);
    cell->n = n;
  }
  cell->kind = kind;
  if(cell->pen) tickit_pen_unref(cell->pen);
  cell->pen = tickit_pen_clone(g->pen);
  cell->writes++;
}

static void put_glyph(GridDrv *g, const unsigned char *bs, size_t n, int w)
{
  /* DEC autowrap: a character that does not fit - in particular in the pending-wrap state col == cols - goes
   * to column 0 of the next line (the plane is unbounded downwards: no scrolling) */
  if(g->col + w > g->cols) {
    g->line++;
    g->col = 0;
  }
  for(int k = 0; k < w; k++)
    cell_write(g, g->line, g->col + k, k == 0 ? 1 : 2, bs, n);
  g->has_last = 1; g->last_l = g->line; g->last_c = g->col;
  g->col += w;
}

static void add_zero_width(GridDrv *g, const unsigned char *bs, size_t n)
{
  if(!g->has_last) return;
  GCell *cell = cell_at(g, g->last_l, g->last_c);
  if(!cell || cell->kind != 1) return;
  cell->bs = realloc(cell->bs, cell->n + n);
  memcpy(cell->bs + cell->n, bs, n);
  cell->n += n;
}

/* the terminal's reading of a byte string (twin of GridTerm.printLoop) */
static void grid_print(GridDrv *g, const unsigned char *bs, size_t len)
{
  size_t i = 0;
  while(i < len) {
    unsigned b0 = bs[i];
    size_t remaining = len - i;
    int nbytes = 0;
    uint32_t cp = 0;
    if(b0 == 0) nbytes = -1;
    else if(b0 < 0x80) { nbytes = 1; cp = b0; }
    else if(b0 < 0xc0) nbytes = -1;
    else if(b0 < 0xe0) { nbytes = 2; cp = b0 & 0x1f; }
    else if(b0 < 0xf0) { nbytes = 3; cp = b0 & 0x0f; }
    else if(b0 < 0xf8) { nbytes = 4; cp = b0 & 0x07; }
    else nbytes = -1;
    if(nbytes > 0 && remaining < (size_t)nbytes) nbytes = -1;
    for(int k = 1; nbytes > 0 && k < nbytes; k++) {
      unsigned b = bs[i + k];
      if(b == 0) { nbytes = -1; break; }
      cp = (cp << 6) | (b & 0x3f);
    }
    if(nbytes < 0) {
      put_glyph(g, bs + i, 1, 1);
      i += 1;
      continue;
    }
    int w = tickit_utf8_wcwidth(cp);
    if(w == 0) add_zero_width(g, bs + i, nbytes);
    else put_glyph(g, bs + i, nbytes, w < 0 ? 1 : w);
    i += nbytes;
  }
}

static void gd_outfunc(TickitTerm *t, const char *bytes, size_t len, void *user)
{
  (void)t;
  GridDrv *g = user;
  if(!bytes || !g) return;   /* (NULL, 0) announces the end of the terminal */
  grid_print(g, (const unsigned char *)bytes, len);
}

static bool gd_print(TickitTermDriver *ttd, const char *str, size_t len)
{
  GridDrv *g = (GridDrv *)ttd;
  log_sep(g);
  fputc('t', g->logfh);
  if(len == 0) fputc('-', g->logfh);
  for(size_t i = 0; i < len; i++) fprintf(g->logfh, "%02x", (unsigned char)str[i]);
  if(g->ws)
    tickit_termdrv_write_str(ttd, str, len);   /* reaches gd_outfunc: no output buffer is configured */
  else
    grid_print(g, (const unsigned char *)str, len);
  return true;
}

static bool gd_goto_abs(TickitTermDriver *ttd, int line, int col)
{
  GridDrv *g = (GridDrv *)ttd;
  log_sep(g);
  fprintf(g->logfh, "g%d,%d", line, col);
  /* the column is clamped to the screen; every cursor movement ends the pending-wrap state */
  if(col > g->cols - 1) col = g->cols - 1;
  if(col < 0) col = 0;
  g->line = line; g->col = col; g->has_last = 0;
  return true;
}

static bool gd_move_rel(TickitTermDriver *ttd, int downward, int rightward)
{
  GridDrv *g = (GridDrv *)ttd;
  return gd_goto_abs(ttd, g->line + downward, g->col + rightward);
}

static bool gd_scrollrect(TickitTermDriver *ttd, const TickitRect *rect, int downward, int rightward)
{
  (void)ttd; (void)rect; (void)downward; (void)rightward;
  return false;
}

static bool gd_erasech(TickitTermDriver *ttd, int count, TickitMaybeBool moveend)
{
  GridDrv *g = (GridDrv *)ttd;
  log_sep(g);
  fprintf(g->logfh, "e%d,%d", count, (int)moveend);
  if(count < 1) return true;
  /* ECH (+ CUF): in the pending-wrap state the cursor is on the last column; nothing is blanked past the edge */
  int start = g->col < g->cols - 1 ? g->col : g->cols - 1;
  for(int k = 0; k < count && start + k < g->cols; k++)
    cell_write(g, g->line, start + k, 0, NULL, 0);
  g->has_last = 0;
  int moved = start + count < g->cols - 1 ? start + count : g->cols - 1;
  if(moveend == TICKIT_YES) g->col = moved;
  else if(moveend == TICKIT_MAYBE) {
    if((g->oracle >> (g->nmaybe % 31)) & 1) g->col = moved;
    g->nmaybe++;
  }
  return true;
}

static bool gd_clear(TickitTermDriver *ttd)
{
  GridDrv *g = (GridDrv *)ttd;
  for(int l = 0; l < g->lines; l++)
    for(int c = 0; c < g->cols; c++)
      cell_write(g, l, c, 0, NULL, 0);
  return true;
}

static bool gd_chpen(TickitTermDriver *ttd, const TickitPen *delta, const TickitPen *final)
{
  GridDrv *g = (GridDrv *)ttd;
  log_sep(g);
  fputc('p', g->logfh);
  fmt_pen(g->logfh, delta);
  fmt_pen(g->logfh, final);
  tickit_pen_clear(g->pen);
  tickit_pen_copy(g->pen, final, true);
  return true;
}

static bool gd_getctl_int(TickitTermDriver *ttd, TickitTermCtl ctl, int *value)
{
  (void)ttd;
  if(ctl == TICKIT_TERMCTL_COLORS) { *value = 256; return true; }
  return false;
}

static bool gd_setctl_int(TickitTermDriver *ttd, TickitTermCtl ctl, int value) { (void)ttd; (void)ctl; (void)value; return false; }
static bool gd_setctl_str(TickitTermDriver *ttd, TickitTermCtl ctl, const char *value) { (void)ttd; (void)ctl; (void)value; return false; }

static void gd_destroy(TickitTermDriver *ttd)
{
  GridDrv *g = (GridDrv *)ttd;
  for(size_t i = 0; i < (size_t)g->lines * g->cols; i++) {
    free(g->cells[i].bs);
    if(g->cells[i].pen) tickit_pen_unref(g->cells[i].pen);
  }
  free(g->cells);
  tickit_pen_unref(g->pen);
  fclose(g->logfh);
  free(g->log);
  free(g);
}

static TickitTermDriverVTable gd_vtable = {
  .destroy    = gd_destroy,
  .print      = gd_print,
  .goto_abs   = gd_goto_abs,
  .move_rel   = gd_move_rel,
  .scrollrect = gd_scrollrect,
  .erasech    = gd_erasech,
  .clear      = gd_clear,
  .chpen      = gd_chpen,
  .getctl_int = gd_getctl_int,
  .setctl_int = gd_setctl_int,
  .setctl_str = gd_setctl_str,
};

static void log_reset(GridDrv *g)
{
  fclose(g->logfh);
  free(g->log);
  g->log = NULL; g->loglen = 0;
  g->logfh = open_memstream(&g->log, &g->loglen);
}

static void obs_term(void)
{
  obs("cur=%d,%d pen=", gd->line, gd->col);
  {
    char *buf = NULL; size_t len = 0;
    FILE *fh = open_memstream(&buf, &len);
    fmt_pen(fh, tickit_termdrv_current_pen(&gd->super));
    fclose(fh);
    obs_raw(buf, len);
    free(buf);
  }
  obs(" nm=%d grid=", gd->nmaybe);
  char *buf = NULL; size_t len = 0;
  FILE *fh = open_memstream(&buf, &len);
  for(int l = 0; l < gd->lines; l++) {
    if(l) fputc('/', fh);
    for(int c = 0; c < gd->cols; c++) {
      GCell *cell = cell_at(gd, l, c);
      if(c) fputc('|', fh);
      if(cell->kind == 0) fputc('_', fh);
      else if(cell->kind == 2) fputc('~', fh);
      else {
        if(cell->n == 0) fputc('-', fh);
        for(size_t i = 0; i < cell->n; i++) fprintf(fh, "%02x", cell->bs[i]);
      }
      fmt_pen(fh, cell->pen);
      fprintf(fh, "w%d", cell->writes);
    }
  }
  fclose(fh);
  obs_raw(buf, len);
  free(buf);
}

/* the library's mock terminal: its log, cursor, the terminal pen and what every cell displays */
static void obs_mock(void)
{
  char *buf = NULL; size_t len = 0;
  FILE *fh = open_memstream(&buf, &len);
  fputs("log=", fh);
  int n = tickit_mockterm_loglen(tt);
  if(n == 0) fputc('-', fh);
  for(int i = 0; i < n; i++) {
    TickitMockTermLogEntry *e = tickit_mockterm_peeklog(tt, i);
    if(i) fputc(';', fh);
    switch(e->type) {
      case LOG_GOTO:    fprintf(fh, "g%d,%d", e->val1, e->val2); break;
      case LOG_PRINT:
        fputc('t', fh);
        if(!e->str || !e->str[0]) fputc('-', fh);
        else for(const char *q = e->str; *q; q++) fprintf(fh, "%02x", (unsigned char)*q);
        break;
      case LOG_ERASECH: fprintf(fh, "e%d,%d", e->val1, e->val2); break;
      case LOG_SETPEN:  fputc('p', fh); fmt_pen(fh, e->pen); break;
      default:          fprintf(fh, "?%d", (int)e->type); break;
    }
  }
  int line, col;
  tickit_mockterm_get_position(tt, &line, &col);
  fprintf(fh, " cur=%d,%d pen=", line, col);
  fmt_pen(fh, tickit_termdrv_current_pen(tickit_term_get_driver(tt)));
  fputs(" grid=", fh);
  for(int l = 0; l < mock_lines; l++) {
    if(l) fputc('/', fh);
    for(int c = 0; c < mock_cols; c++) {
      char text[256];
      if(c) fputc('|', fh);
      size_t tl = tickit_mockterm_get_display_text(tt, text, sizeof text - 1, l, c, 1);
      if(tl == 0 || tl >= sizeof text) fputc('-', fh);
      else for(size_t i = 0; i < tl; i++) fprintf(fh, "%02x", (unsigned char)text[i]);
      fmt_pen(fh, tickit_mockterm_get_display_pen(tt, l, c));
    }
  }
  fclose(fh);
  obs_raw(buf, len);
  free(buf);
}

static void engine_begin(void) { rb_engine_begin(); tt = NULL; gd = NULL; mock_lines = mock_cols = 0; x_mode = 0; }
static void engine_end(void)
{
  if(tt) tickit_term_unref(tt);   /* destroys the driver, too */
  tt = NULL; gd = NULL;
  x_reset();
  free(x_chunks); x_chunks = NULL; x_capchunks = 0;
  rb_engine_end();
}

static void engine_op(int argc, char **argv)
{
  const char *op = argc ? argv[0] : "";
  if(strcmp(op, "termx") == 0 && argc == 7) {
    /* termx TL TC BUF CAPS PEN SEED: the real xterm driver behind an output buffer and a recording output function */
    if(tt) { tickit_term_unref(tt); tt = NULL; gd = NULL; }
    mock_lines = mock_cols = 0; x_mode = 0;
    int tl = atoi(argv[1]), tc = atoi(argv[2]);
    long bufsz = atol(argv[3]);
    int caps = atoi(argv[4]);
    if(tl < 1 || tc < 1 || tl > 1000 || tc > 1000 || bufsz < 0 || bufsz > 1000000) { obs("bad-op"); return; }
    x_reset();
    tt = tickit_term_build(&(struct TickitTermBuilder){ .termtype = "xterm", .output_func = x_outfunc });
    if(!tt) { obs("bad-op"); return; }
    x_mode = 1;
    {
      /* the terminal's answer to the DECRQSS probe of the SGR state: decides cap.rgb8 and cap.csi_sub_colon */
      int rgb8 = caps & 1, colon = (caps & 2) != 0;
      char sep = colon ? ':' : ';';
      char reply[64];
      if(rgb8) snprintf(reply, sizeof reply, "\033P1$r38%c2%c0%c1%c2m\033\\", sep, sep, sep, sep);
      else     snprintf(reply, sizeof reply, "\033P1$r38%c5%c255m\033\\", sep, sep);
      tickit_term_input_push_bytes(tt, reply, strlen(reply));
    }
    tickit_term_set_size(tt, tl, tc);
    tickit_term_flush(tt);
    x_reset();                       /* forget the driver's start-up probes */
    if(strcmp(argv[5], "NONE") != 0) {
      TickitPen *pen = parse_pen(argv[5]);
      if(pen) { tickit_term_setpen(tt, pen); tickit_pen_unref(pen); }
    }
    unsigned long seed = strtoul(argv[6], NULL, 10);
    char *row = malloc(tc + 1);
    for(int l = 0; l < tl; l++) {
      for(int c = 0; c < tc; c++)
        row[c] = 0x21 + (seed + 7 * (unsigned long)l + 3 * (unsigned long)c) % 94;
      tickit_term_goto(tt, l, 0);
      tickit_term_printn(tt, row, tc);
    }
    free(row);
    tickit_term_goto(tt, (int)(seed % tl), (int)((seed / 7) % tc));
    int v_rgb8 = -1, v_colon = -1;
    tickit_term_getctl_int(tt, tickit_termctl_lookup("xterm.cap_rgb8"), &v_rgb8);
    tickit_term_getctl_int(tt, tickit_termctl_lookup("xterm.cap_csi_sub_colon"), &v_colon);
    obs("r=- out=");
    x_obs_chunks(0, x_nchunks, 0);
    obs(" pen=");
    x_obs_pen();
    obs(" caps=%d", (v_rgb8 ? 1 : 0) | (v_colon ? 2 : 0));
    x_reset();
    tickit_term_set_output_buffer(tt, (size_t)bufsz);
    return;
  }
  if(strcmp(op, "suspend") == 0 && argc == 1) {
    if(!x_mode || !tt) { obs("bad-op"); return; }
    x_reset();
    tickit_term_pause(tt);
    size_t paused = x_nchunks;
    tickit_term_resume(tt);
    size_t resumed = x_nchunks;
    tickit_term_flush(tt);
    obs("r=- pa=");
    x_obs_chunks(0, paused, ',');
    obs(" re=");
    x_obs_chunks(paused, resumed, ',');
    obs(" fl=");
    x_obs_chunks(resumed, x_nchunks, ',');
    obs(" pen=");
    x_obs_pen();
    x_reset();
    return;
  }
  if(strcmp(op, "flush") == 0 && argc == 1 && x_mode) {
    if(!rb || !tt) { obs("bad-op"); return; }
    x_reset();
    tickit_renderbuffer_flush_to_term(rb, tt);
    size_t during = x_nchunks;
    tickit_term_flush(tt);
    obs("r=ok out=");
    x_obs_chunks(0, during, ',');
    obs(" fl=");
    x_obs_chunks(during, x_nchunks, ',');
    obs(" pen=");
    x_obs_pen();
    obs(" rb=");
    char *buf = NULL; size_t len = 0;
    FILE *fh = open_memstream(&buf, &len);
    tickit_renderbuffer_verif_dump(rb, fh);
    fclose(fh);
    obs_raw(buf, len);
    free(buf);
    x_reset();
    return;
  }
  if(strcmp(op, "termm") == 0 && argc == 5) {
    /* termm TL TC PEN SEED: the library's own mock terminal; the sentinel pattern is printed through the terminal API */
    if(tt) { tickit_term_unref(tt); tt = NULL; gd = NULL; }
    x_mode = 0;
    int tl = atoi(argv[1]), tc = atoi(argv[2]);
    if(tl < 1 || tc < 1 || tl > 1000 || tc > 1000) { obs("bad-op"); return; }
    tt = tickit_mockterm_new(tl, tc);
    if(!tt) { obs("bad-op"); return; }
    mock_lines = tl; mock_cols = tc;
    if(strcmp(argv[3], "NONE") != 0) {
      TickitPen *pen = parse_pen(argv[3]);
      if(pen) { tickit_term_setpen(tt, pen); tickit_pen_unref(pen); }
    }
    unsigned long seed = strtoul(argv[4], NULL, 10);
    char *row = malloc(tc + 1);
    for(int l = 0; l < tl; l++) {
      for(int c = 0; c < tc; c++)
        row[c] = 0x21 + (seed + 7 * (unsigned long)l + 3 * (unsigned long)c) % 94;
      tickit_term_goto(tt, l, 0);
      tickit_term_printn(tt, row, tc);
    }
    free(row);
    tickit_term_goto(tt, (int)(seed % tl), (int)((seed / 7) % tc));
    tickit_mockterm_clearlog(tt);
    obs("r=- ");
    obs_mock();
    return;
  }
  if(strcmp(op, "flush") == 0 && argc == 1 && mock_lines > 0) {
    if(!rb || !tt) { obs("bad-op"); return; }
    tickit_mockterm_clearlog(tt);
    tickit_renderbuffer_flush_to_term(rb, tt);
    obs("r=ok ");
    obs_mock();
    obs(" rb=");
    char *buf = NULL; size_t len = 0;
    FILE *fh = open_memstream(&buf, &len);
    tickit_renderbuffer_verif_dump(rb, fh);
    fclose(fh);
    obs_raw(buf, len);
    free(buf);
    return;
  }
  if(strcmp(op, "term") == 0 && argc == 7) {
    mock_lines = mock_cols = 0; x_mode = 0;
    if(tt) { tickit_term_unref(tt); tt = NULL; gd = NULL; }
    int tl = atoi(argv[1]), tc = atoi(argv[2]);
    if(tl < 0 || tc < 0 || tl > 1000 || tc > 1000) { obs("bad-op"); return; }
    GridDrv *g = calloc(1, sizeof *g);
    g->super.vtable = &gd_vtable;
    g->super.name = "verifgrid";
    g->lines = tl; g->cols = tc;
    g->cells = calloc((size_t)tl * tc + 1, sizeof(GCell));
    g->pen = tickit_pen_new();
    g->oracle = (unsigned)strtoul(argv[3], NULL, 10);
    g->ws = atoi(argv[4]) != 0;
    g->logfh = open_memstream(&g->log, &g->loglen);
    tt = tickit_term_build(&(struct TickitTermBuilder){
      .termtype = "xterm",
      .driver = &g->super,
      .output_func = g->ws ? gd_outfunc : NULL,
      .output_func_user = g,
    });
    if(!tt) { obs("bad-op"); gd_destroy(&g->super); return; }
    gd = g;
    tickit_term_set_size(tt, tl, tc);   /* what tickit_term_get_size() reports */
    if(strcmp(argv[5], "NONE") != 0) {
      TickitPen *pen = parse_pen(argv[5]);
      if(pen) {
        tickit_term_setpen(tt, pen);
        tickit_pen_unref(pen);
      }
    }
    unsigned long seed = strtoul(argv[6], NULL, 10);
    for(int l = 0; l < tl; l++)
      for(int c = 0; c < tc; c++) {
        unsigned char s = 0x21 + (seed + 7 * (unsigned long)l + 3 * (unsigned long)c) % 94;
        cell_write(g, l, c, 1, &s, 1);
        cell_at(g, l, c)->writes = 0;
      }
    g->line = (int)(seed % (tl ? tl : 1));
    g->col = (int)((seed / 7) % (tc ? tc : 1));
    g->has_last = 0;
    log_reset(g);
    obs("r=- ");
    obs_term();
    return;
  }
  if(strcmp(op, "flush") == 0 && argc == 1) {
    if(!rb || !tt) { obs("bad-op"); return; }
    log_reset(gd);
    tickit_renderbuffer_flush_to_term(rb, tt);
    fflush(gd->logfh);
    obs("r=ok log=");
    if(gd->loglen == 0) obs_raw("-", 1); else obs_raw(gd->log, gd->loglen);
    obs_raw(" ", 1);
    obs_term();
    obs(" rb=");
    char *buf = NULL; size_t len = 0;
    FILE *fh = open_memstream(&buf, &len);
    tickit_renderbuffer_verif_dump(rb, fh);
    fclose(fh);
    obs_raw(buf, len);
    free(buf);
    return;
  }
  rb_engine_op(argc, argv);
}
