/* Engine `termbuf` (C11): the output buffer of src/term.c, driven through public calls only, on a real
 * xterm-driver terminal.
 *
 * Every history builds TWO terminals that receive the same calls: the terminal under test (`main`, with the
 * requested buffer size) and a reference terminal (`ref`) that never has an output buffer.  The observation of
 * an operation is the list of chunks handed to the output function / to write(2) by either terminal during
 * that operation:
 *
 *     <main chunks> | <ref chunks>
 *
 * chunk syntax:  f:<hex>  output function called with <hex> bytes (`f:-` = zero length, non-NULL pointer)
 *                f:end    output function called with (NULL, 0)
 *                d:<hex>  write(2) on the output descriptor (`d:-` = zero length); seen through -Wl,--wrap=write
 *                !pipe    the bytes that arrived in the pipe differ from the concatenated d: chunks
 *                !null    output function called with NULL and a non-zero length
 * An empty side is `.`.
 *
 * Operations
 *   new <n> <func|fd|both|none> <late|early> [<fdm> <fdr>]
 *        fdm, fdr: the descriptor NUMBERS at which the write ends of the two pipes are installed (dup2) before they are
 *               given to the library as output descriptors of `main` and of `ref` (fd/both only; fdm != fdr).  Any
 *               number is legitimate for an output descriptor, 0 included (TICKIT_OPEN_STDTTY itself picks 0 when stdin
 *               is the tty).  Whatever was open at that number (the harness's own stdin/stdout, its result pipe) is
 *               moved out of the way and put back when the history ends.  Without the two numbers the descriptors are
 *               the ones pipe(2) returned.
 *        late : tickit_term_build() with the output method and .output_buffersize = n (buffer installed after
 *               the driver has started)
 *        early: tickit_term_build() without output; tickit_term_set_output_buffer(n); then the output method
 *               is attached, so the driver's start-up bytes pass through the buffer
 *   write <hex> <len>      tickit_term_printn(tt, mem, len)   mem = bytes + NUL; len <= number of bytes (len 0 prints nothing)
 *   print <hex>            tickit_term_print(tt, mem)
 *   printf <hex> <d>       tickit_term_printf(tt, "%s|%d", mem, d)
 *   title <hex>            tickit_term_setctl_str(tt, TICKIT_TERMCTL_TITLE_TEXT, mem)     (write_vstrf path)
 *   goto <line> <col>      tickit_term_goto
 *   ctl altscreen|cursorvis <0|1>    tickit_term_setctl_int
 *   flush | pause | resume | teardown
 *   setbuf <n>             tickit_term_set_output_buffer on the terminal under test only
 *   destroy                tickit_term_unref (last reference)
 */
#define HCOMMON_MAIN
#include "hcommon.h"
#include "tickit.h"
#include <fcntl.h>

#define H_PIPE_CAPACITY (1 << 20)

struct Chunk { char dest; int isnull; size_t len; unsigned char *bytes; };

struct Side {
  TickitTerm *tt;
  int rfd, wfd;           /* pipe, -1 if unused */
  int placed, saved;      /* wfd was installed at a requested number; what was open there before (-1: nothing) */
  int use_func, use_fd;
  struct Chunk *chunks;
  size_t n, cap;
  int recording;
  int badnull;
};

static struct Side side_main, side_ref;
static int alive;

static void record(struct Side *s, char dest, const void *p, size_t len)
{
  if(!s->recording) return;
  if(s->n == s->cap) {
    s->cap = s->cap ? s->cap * 2 : 16;
    s->chunks = realloc(s->chunks, s->cap * sizeof *s->chunks);
  }
  struct Chunk *c = &s->chunks[s->n++];
  c->dest = dest;
  c->isnull = p == NULL;
  c->len = len;
  c->bytes = malloc(len + 1);
  if(p && len) memcpy(c->bytes, p, len);   /* ASan checks that [p, p+len) is readable */
  if(!p && len) s->badnull = 1;
}

static void outfunc(TickitTerm *tt, const char *bytes, size_t len, void *user)
{
  (void)tt;
  record(user, 'f', bytes, len);
}

ssize_t __real_write(int fd, const void *buf, size_t n);
ssize_t __wrap_write(int fd, const void *buf, size_t n)
{
  if(fd >= 0) {
    if(fd == side_main.wfd) record(&side_main, 'd', buf, n);
    else if(fd == side_ref.wfd) record(&side_ref, 'd', buf, n);
  }
  return __real_write(fd, buf, n);
}

static void side_init(struct Side *s)
{
  memset(s, 0, sizeof *s);
  s->rfd = s->wfd = -1;
  s->saved = -1;
}

#define H_FD_PARK 600   /* descriptors the harness moves out of the way live at and above this number */

/* install descriptor `fd` at number `want`; returns `want` */
static int place_fd(struct Side *s, int fd, int want)
{
  if(fd == want) return fd;
  if(want == h_outfd) {
    /* the pipe on which observations travel to the parent sits there: move it for good */
    int moved = fcntl(h_outfd, F_DUPFD, H_FD_PARK);
    if(moved < 0) _exit(95);
    h_outfd = moved;
  }
  else if(fcntl(want, F_GETFD) != -1) {
    s->saved = fcntl(want, F_DUPFD, H_FD_PARK);
    if(s->saved < 0) _exit(95);
  }
  if(dup2(fd, want) != want) _exit(94);
  close(fd);
  s->placed = 1;
  return want;
}

static void side_open(struct Side *s, size_t n, const char *how, int early, int want)
{
  s->use_func = !strcmp(how, "func") || !strcmp(how, "both");
  s->use_fd   = !strcmp(how, "fd")   || !strcmp(how, "both");
  s->recording = 1;
  if(s->use_fd) {
    int p[2];
    if(pipe(p) < 0) _exit(98);
    fcntl(p[0], F_SETFL, fcntl(p[0], F_GETFL) | O_NONBLOCK);
    /* the pipe is drained only after each operation: make it hold the largest single operation the generator
     * produces (buffers above PIPE_BUF and writes of several buffers), else write(2) would block for ever */
    if(fcntl(p[1], F_SETPIPE_SZ, H_PIPE_CAPACITY) < H_PIPE_CAPACITY) _exit(96);
    /* keep the read end away from the small numbers the write ends may be asked to take */
    if(want >= 0) {
      int hi = fcntl(p[0], F_DUPFD, H_FD_PARK);
      if(hi < 0) _exit(95);
      close(p[0]); p[0] = hi;
      p[1] = place_fd(s, p[1], want);
    }
    s->rfd = p[0]; s->wfd = p[1];
  }
  if(!early) {
    struct TickitTermBuilder b = { 0 };
    b.termtype = "xterm";
    if(s->use_fd) { b.open = TICKIT_OPEN_FDS; b.input_fd = -1; b.output_fd = s->wfd; }
    else b.open = TICKIT_NO_OPEN;
    if(s->use_func) { b.output_func = outfunc; b.output_func_user = s; }
    b.output_buffersize = n;
    s->tt = tickit_term_build(&b);
  }
  else {
    struct TickitTermBuilder b = { 0 };
    b.termtype = "xterm";
    b.open = TICKIT_NO_OPEN;
    s->tt = tickit_term_build(&b);
    tickit_term_set_output_buffer(s->tt, n);
    if(s->use_fd) tickit_term_set_output_fd(s->tt, s->wfd);
    if(s->use_func) tickit_term_set_output_func(s->tt, outfunc, s);
  }
  if(!s->tt) _exit(99);
}

/* print and forget what this side delivered during the operation */
static void side_report(struct Side *s)
{
  /* what really arrived in the pipe */
  unsigned char *got = NULL; size_t gn = 0, gcap = 0;
  if(s->rfd != -1) {
    for(;;) {
      if(gn + 4096 > gcap) { gcap = gcap ? gcap * 2 : 8192; got = realloc(got, gcap); }
      ssize_t r = read(s->rfd, got + gn, gcap - gn);
      if(r > 0) { gn += r; continue; }
      if(r < 0 && errno == EINTR) continue;
      break;
    }
  }
  size_t dn = 0; int mismatch = 0;
  if(s->n == 0 && !s->badnull && gn == 0) obs(".");
  for(size_t i = 0; i < s->n; i++) {
    struct Chunk *c = &s->chunks[i];
    if(i) obs(" ");
    obs("%c:", c->dest);
    if(c->isnull && c->len == 0) obs("end");
    else obs_hex(c->bytes, c->len);
    if(c->dest == 'd') {
      if(dn + c->len > gn || memcmp(got + dn, c->bytes, c->len) != 0) mismatch = 1;
      dn += c->len;
    }
    free(c->bytes);
  }
  if(dn != gn) mismatch = 1;
  if(mismatch) obs(" !pipe");
  if(s->badnull) obs(" !null");
  s->n = 0; s->badnull = 0;
  free(got);
}

static void report(void)
{
  side_report(&side_main);
  obs(" | ");
  side_report(&side_ref);
}

static void side_close(struct Side *s)
{
  if(s->tt) { tickit_term_unref(s->tt); s->tt = NULL; }
}

static void engine_begin(void) { side_init(&side_main); side_init(&side_ref); alive = 0; }

static void engine_end(void)
{
  side_main.recording = side_ref.recording = 0;
  side_close(&side_main); side_close(&side_ref);
  for(int k = 0; k < 2; k++) {
    struct Side *s = k ? &side_ref : &side_main;
    if(s->rfd != -1) {
      close(s->rfd);
      if(s->placed && s->saved != -1) { dup2(s->saved, s->wfd); close(s->saved); }
      else close(s->wfd);
      s->rfd = s->wfd = s->saved = -1; s->placed = 0;
    }
    free(s->chunks); s->chunks = NULL;
  }
}

#define BOTH(call) do { TickitTerm *tt; tt = side_main.tt; call; tt = side_ref.tt; call; } while(0)

static void engine_op(int argc, char **argv)
{
  const char *op = argc ? argv[0] : "";
  if(!strcmp(op, "new")) {
    if((argc != 4 && argc != 6) || alive) { obs("bad-op"); return; }
    long n = atol(argv[1]);
    int early = !strcmp(argv[3], "early");
    if(n < 0 || (strcmp(argv[2], "func") && strcmp(argv[2], "fd") && strcmp(argv[2], "both") && strcmp(argv[2], "none"))
       || (!early && strcmp(argv[3], "late"))) { obs("bad-op"); return; }
    int fdm = -1, fdr = -1;
    if(argc == 6) {
      fdm = atoi(argv[4]); fdr = atoi(argv[5]);
      if(fdm < 0 || fdr < 0 || fdm == fdr || fdm >= H_FD_PARK || fdr >= H_FD_PARK) { obs("bad-op"); return; }
    }
    side_open(&side_main, n, argv[2], early, fdm);
    side_open(&side_ref, 0, argv[2], early, fdr);
    alive = 1;
    report();
    return;
  }
  if(!alive) { obs("dead"); return; }

  if(!strcmp(op, "write") && argc == 3) {
    unsigned char *mem; long nb = hex_decode(argv[1], &mem); long len = atol(argv[2]);
    if(nb < 0 || len < 0 || len > nb) { obs("bad-op"); return; }
    /* exact-size allocation: bytes + NUL, so that ASan sees any read past the terminator */
    unsigned char *exact = malloc(nb + 1); memcpy(exact, mem, nb + 1); free(mem);
    BOTH(tickit_term_printn(tt, (char *)exact, len));
    free(exact);
  }
  else if(!strcmp(op, "print") && argc == 2) {
    unsigned char *mem; long nb = hex_decode(argv[1], &mem);
    if(nb < 0) { obs("bad-op"); return; }
    BOTH(tickit_term_print(tt, (char *)mem));
    free(mem);
  }
  else if(!strcmp(op, "printf") && argc == 3) {
    unsigned char *mem; long nb = hex_decode(argv[1], &mem); int d = atoi(argv[2]);
    if(nb < 0) { obs("bad-op"); return; }
    BOTH(tickit_term_printf(tt, "%s|%d", (char *)mem, d));
    free(mem);
  }
  else if(!strcmp(op, "title") && argc == 2) {
    unsigned char *mem; long nb = hex_decode(argv[1], &mem);
    if(nb < 0) { obs("bad-op"); return; }
    BOTH(tickit_term_setctl_str(tt, TICKIT_TERMCTL_TITLE_TEXT, (char *)mem));
    free(mem);
  }
  else if(!strcmp(op, "goto") && argc == 3) {
    int l = atoi(argv[1]), c = atoi(argv[2]);
    BOTH(tickit_term_goto(tt, l, c));
  }
  else if(!strcmp(op, "ctl") && argc == 3) {
    int v = atoi(argv[2]);
    TickitTermCtl ctl;
    if(!strcmp(argv[1], "altscreen")) ctl = TICKIT_TERMCTL_ALTSCREEN;
    else if(!strcmp(argv[1], "cursorvis")) ctl = TICKIT_TERMCTL_CURSORVIS;
    else { obs("bad-op"); return; }
    BOTH(tickit_term_setctl_int(tt, ctl, v));
  }
  else if(!strcmp(op, "flush") && argc == 1)    BOTH(tickit_term_flush(tt));
  else if(!strcmp(op, "pause") && argc == 1)    BOTH(tickit_term_pause(tt));
  else if(!strcmp(op, "resume") && argc == 1)   BOTH(tickit_term_resume(tt));
  else if(!strcmp(op, "teardown") && argc == 1) BOTH(tickit_term_teardown(tt));
  else if(!strcmp(op, "setbuf") && argc == 2) {
    long n = atol(argv[1]);
    if(n < 0) { obs("bad-op"); return; }
    tickit_term_set_output_buffer(side_main.tt, n);
  }
  else if(!strcmp(op, "destroy") && argc == 1) {
    side_close(&side_main); side_close(&side_ref);
    alive = 0;
  }
  else { obs("bad-op"); return; }
  report();
}
