/* Common scaffolding of the correspondence harnesses (DESIGN.md §4.2).
 *
 * An engine defines
 *     static void engine_begin(void);
 *     static void engine_op(int argc, char **argv);   -- must emit exactly one line through obs()
 *     static void engine_end(void);
 * and then #includes this file's main() through HCOMMON_MAIN.
 *
 * Input: one operation per line on stdin; a line `new ...` starts a history.  Every history
 * runs in a forked child so that a sanitizer abort is an observation (`CRASH ...`) of that
 * history and not the end of the run.  Output: exactly one observation line per operation.
 */
#ifndef HCOMMON_H
#define HCOMMON_H
#define _GNU_SOURCE
#include <stdio.h>
#include <stdlib.h>
#include <string.h>
#include <unistd.h>
#include <stdarg.h>
#include <sys/wait.h>
#include <errno.h>

static char  *h_obuf;
static size_t h_olen, h_ocap;

static void obs_raw(const char *s, size_t n)
{
  if(h_olen + n + 1 > h_ocap) {
    h_ocap = (h_olen + n + 1) * 2;
    h_obuf = realloc(h_obuf, h_ocap);
  }
  memcpy(h_obuf + h_olen, s, n);
  h_olen += n;
}

/* append formatted text to the current observation line */
static void obs(const char *fmt, ...) __attribute__((format(printf,1,2)));
static void obs(const char *fmt, ...)
{
  char tmp[8192];
  va_list ap;
  va_start(ap, fmt);
  int n = vsnprintf(tmp, sizeof tmp, fmt, ap);
  va_end(ap);
  if(n < 0) return;
  if((size_t)n >= sizeof tmp) {
    char *big = malloc(n + 1);
    va_start(ap, fmt);
    vsnprintf(big, n + 1, fmt, ap);
    va_end(ap);
    obs_raw(big, n);
    free(big);
  }
  else
    obs_raw(tmp, n);
}

__attribute__((unused)) static void obs_hex(const void *p, size_t n)
{
  static const char hd[] = "0123456789abcdef";
  const unsigned char *b = p;
  if(n == 0) { obs_raw("-", 1); return; }
  for(size_t i = 0; i < n; i++) {
    char two[2] = { hd[b[i] >> 4], hd[b[i] & 15] };
    obs_raw(two, 2);
  }
}

static int h_outfd = 1;
static void obs_end(void)
{
  obs_raw("\n", 1);
  size_t off = 0;
  while(off < h_olen) {
    ssize_t w = write(h_outfd, h_obuf + off, h_olen - off);
    if(w < 0) { if(errno == EINTR) continue; _exit(97); }
    off += w;
  }
  h_olen = 0;
}

/* parse hex (or "-") into a malloc'd buffer; returns length, -1 on error */
__attribute__((unused)) static long hex_decode(const char *s, unsigned char **out)
{
  if(strcmp(s, "-") == 0) { *out = malloc(1); (*out)[0] = 0; return 0; }
  size_t n = strlen(s);
  if(n % 2) return -1;
  unsigned char *b = malloc(n / 2 + 1);
  for(size_t i = 0; i < n / 2; i++) {
    unsigned v;
    if(sscanf(s + 2 * i, "%2x", &v) != 1) { free(b); return -1; }
    b[i] = v;
  }
  b[n / 2] = 0;
  *out = b;
  return n / 2;
}

static void engine_begin(void);
static void engine_op(int argc, char **argv);
static void engine_end(void);

#define H_MAXTOK 256

static void run_history(char **lines, size_t n)
{
  engine_begin();
  for(size_t i = 0; i < n; i++) {
    char *argv[H_MAXTOK];
    int argc = 0;
    char *save = NULL;
    char *copy = strdup(lines[i]);
    for(char *t = strtok_r(copy, " \t\r\n", &save); t && argc < H_MAXTOK; t = strtok_r(NULL, " \t\r\n", &save))
      argv[argc++] = t;
    size_t before = h_olen;
    (void)before;
    engine_op(argc, argv);
    obs_end();
    free(copy);
  }
  engine_end();
}

#ifdef HCOMMON_MAIN
char *volatile h_inbuf;
char **volatile h_lines;
int main(void)
{
  /* slurp stdin (globals: still reachable for LeakSanitizer in the children) */
  size_t cap = 1 << 16, len = 0;
  char *buf = malloc(cap);
  for(;;) {
    if(len + 4096 > cap) { cap *= 2; buf = realloc(buf, cap); }
    ssize_t r = read(0, buf + len, cap - len - 1);
    if(r < 0) { if(errno == EINTR) continue; return 2; }
    if(r == 0) break;
    len += r;
  }
  buf[len] = 0;
  h_inbuf = buf;

  size_t nlines = 0, lcap = 1024;
  char **lines = malloc(lcap * sizeof *lines);
  char *p = buf;
  while(*p) {
    char *e = strchr(p, '\n');
    if(e) *e = 0;
    if(*p && *p != '#') {
      if(nlines == lcap) { lcap *= 2; lines = realloc(lines, lcap * sizeof *lines); }
      lines[nlines++] = p;
    }
    if(!e) break;
    p = e + 1;
  }
  h_lines = lines;

  int nofork = getenv("VERIF_NOFORK") != NULL;
  /* Histories are run in batches, one forked child per batch (fork is expensive under ASan).  When a
   * batch ends abnormally its output is discarded and the batch is re-run one child per history, so
   * that a crash is attributed to the history that causes it. */
  size_t batch = 64;
  if(getenv("VERIF_BATCH")) batch = strtoul(getenv("VERIF_BATCH"), NULL, 10);
  if(batch < 1) batch = 1;
  /* Hang protection: a child is killed by SIGALRM after 60 s (a batch) or VERIF_HIST_TIMEOUT seconds (default 10, one
   * history).  After 6 histories of one run were killed that way the remaining histories are not run: they answer
   * `CRASH skipped-after-timeouts` (a change that makes the library spin would otherwise cost a minute per history). */
  unsigned hist_timeout = 10;
  if(getenv("VERIF_HIST_TIMEOUT")) hist_timeout = (unsigned)strtoul(getenv("VERIF_HIST_TIMEOUT"), NULL, 10);
  if(hist_timeout < 1) hist_timeout = 1;
  int ntimeouts = 0;
  size_t i = 0;
  while(i < nlines) {
    if(nofork) {
      size_t j = i + 1;
      while(j < nlines && strncmp(lines[j], "new", 3) != 0) j++;
      run_history(lines + i, j - i);
      i = j;
      continue;
    }
    /* find the end of this batch */
    size_t bend = i, nh = 0;
    while(bend < nlines && nh < batch) {
      size_t j = bend + 1;
      while(j < nlines && strncmp(lines[j], "new", 3) != 0) j++;
      bend = j; nh++;
    }
    for(int attempt = 0; attempt < 2; attempt++) {
      size_t per = attempt == 0 ? batch : 1;
      char *acc = NULL; size_t acclen = 0, acccap = 0;
      int bad = 0;
      size_t h = i;
      while(h < bend) {
        size_t hend = h, k = 0;
        while(hend < bend && k < per) {
          size_t j = hend + 1;
          while(j < bend && strncmp(lines[j], "new", 3) != 0) j++;
          hend = j; k++;
        }
        size_t n = hend - h;
        if(ntimeouts >= 6) {
          for(size_t z = 0; z < n; z++) {
            const char *t = "CRASH skipped-after-timeouts\n"; size_t tl = strlen(t);
            if(acclen + tl + 1 > acccap) { acccap = (acclen + tl + 1) * 2; acc = realloc(acc, acccap); }
            memcpy(acc + acclen, t, tl); acclen += tl;
          }
          h = hend;
          continue;
        }
        int pfd[2];
        if(pipe(pfd) < 0) return 2;
        fflush(stdout);
        pid_t pid = fork();
        if(pid < 0) return 2;
        if(pid == 0) {
          close(pfd[0]);
          h_outfd = pfd[1];
          alarm(k > 1 ? 60 : hist_timeout);
          size_t q = h;
          while(q < hend) {
            size_t j = q + 1;
            while(j < hend && strncmp(lines[j], "new", 3) != 0) j++;
            run_history(lines + q, j - q);
            q = j;
          }
          close(pfd[1]);
          fflush(NULL);
          exit(0);   /* exit(), not _exit(): let LeakSanitizer look */
        }
        close(pfd[1]);
        size_t got = 0, start = acclen;
        char rb[65536];
        for(;;) {
          ssize_t r = read(pfd[0], rb, sizeof rb);
          if(r < 0) { if(errno == EINTR) continue; break; }
          if(r == 0) break;
          for(ssize_t z = 0; z < r; z++) if(rb[z] == '\n') got++;
          if(acclen + r + 128 > acccap) { acccap = (acclen + r + 128) * 2; acc = realloc(acc, acccap); }
          memcpy(acc + acclen, rb, r); acclen += r;
        }
        close(pfd[0]);
        int status = 0;
        while(waitpid(pid, &status, 0) < 0 && errno == EINTR) ;
        char why[64] = "";
        if(WIFSIGNALED(status)) snprintf(why, sizeof why, "signal=%d", WTERMSIG(status));
        if(WIFSIGNALED(status) && WTERMSIG(status) == SIGALRM && k == 1) ntimeouts++;
        else if(WIFEXITED(status) && WEXITSTATUS(status) != 0) snprintf(why, sizeof why, "exit=%d", WEXITSTATUS(status));
        if((why[0] || got != n) && attempt == 0 && k > 1) { bad = 1; break; }
        if(acclen > start && acc[acclen - 1] != '\n') {
          if(acclen + 16 > acccap) { acccap = (acclen + 16) * 2; acc = realloc(acc, acccap); }
          memcpy(acc + acclen, " <cut>\n", 7); acclen += 7; got++;
        }
        if(why[0] && got >= n) {
          fprintf(stderr, "HARNESS: history at op %zu ended abnormally after all observations: %s\n", h, why);
          char t[128]; int tl = snprintf(t, sizeof t, "#ABNORMAL-END %zu %s\n", h, why);
          if(acclen + tl + 1 > acccap) { acccap = (acclen + tl + 1) * 2; acc = realloc(acc, acccap); }
          memcpy(acc + acclen, t, tl); acclen += tl;
        }
        for(; got < n; got++) {
          char t[128]; int tl = snprintf(t, sizeof t, "CRASH %s\n", why[0] ? why : "short");
          if(acclen + tl + 1 > acccap) { acccap = (acclen + tl + 1) * 2; acc = realloc(acc, acccap); }
          memcpy(acc + acclen, t, tl); acclen += tl;
        }
        h = hend;
      }
      if(!bad) { if(acc) fwrite(acc, 1, acclen, stdout); free(acc); break; }
      free(acc);
    }
    i = bend;
  }
  fflush(stdout);
  return 0;
}
#endif
#endif
