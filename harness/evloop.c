/* Engine `evloop` (C17, C18): drives the toplevel event loop of the working tree
 * (src/tickit.c + src/evloop-default.c) on a headless terminal.
 *
 * No source hook: the clock (gettimeofday), the wait (ppoll) and child reaping (waitpid) are
 * interposed at link time (-Wl,--wrap=...).  Signals are real: raise() while the loop keeps them
 * blocked leaves them pending in the kernel; the ppoll wrapper lets the *kernel* deliver them under
 * the mask the loop passes (a zero-timeout real ppoll with no descriptors), exactly when the real
 * ppoll would have looked at signals (i.e. when no descriptor is ready).
 *
 * Operations (one line each; `k` names a watch slot chosen by the generator, unique per history):
 *   new [Cnn] [fb]           a fresh process image with one toplevel instance, number 0 (the current one).
 *                            `fb`: the instance gets a copy of tickit_evloop_default whose optional members .signal and
 *                            .cancel_signal are NULL, so that tickit.c's own signal fallback is used: sigaction handlers
 *                            that record the signal in t->signal.pending and write a byte to a self-pipe whose read end
 *                            is an ordinary io watch (on_sigpipe_readable).  pipe() is interposed only to give the
 *                            descriptors canonical numbers (90+2n / 91+2n for the n-th pipe of the process); the pipe,
 *                            the handlers and the signals are real, the ppoll wrapper asks the kernel whether the read
 *                            end is readable.  Signals are not blocked in this configuration.  One instance only
 *                            (`inst`/`use` of another one: bad-op).  The trailer gains ` q=<bytes in the self-pipe>`.
 *   inst i                   make instance i (0..2) the current one; tickit_build it when it does not exist
 *   use i                    make instance i the current one: every operation below acts on the current instance,
 *                            callbacks act on the instance they are invoked for
 *   beh k n a1 a2 ...        actions run by watch k's callback on its n-th (0-based) FIRE invocation
 *   ubeh k a1 a2 ...         actions run by watch k's callback when it is given its UNBIND notification (flags exactly
 *                            UNBIND: the watch was cancelled) from outside any running callback, i.e. by a top-level
 *                            `cancel k`; every action but C; default hooks only.  Inside running callbacks, and at
 *                            destruction, notifications stay passive
 *   timer k ms flags         tickit_watch_timer_after_msec
 *   timer_at k sec usec flags
 *   later k flags | io k fd cond flags | signal k signum flags | process k pid flags
 *   cancel k
 *   clock us                 advance the virtual clock
 *   ready fd revents         scripted readiness of a (virtual) descriptor, level triggered
 *   raise sig                raise(sig) now        | inpoll sig : raise(sig) inside the next ppoll
 *   exit pid status          the virtual child `pid` terminates (no SIGCHLD by itself)
 *   tick | tickhang          tickit_tick(NOHANG|NOSETUP) | tickit_tick(NOSETUP)
 *   run                      tickit_run: iterations until a callback calls tickit_stop (action K); the harness's
 *                            ppoll stops the loop itself (`hstop`) when it would block for ever or after 50 waits
 *   destroy                  tickit_unref of the current instance
 *   new [Cnn] tt             (default hooks only) before the instance is built a first stand-alone terminal
 *                            (tickit_term_new_for_termtype) starts observing SIGWINCH: tickit_term_observe_sigwinch(tt0, true);
 *                            it keeps observing until the process ends, so the observer list of term.c is never empty
 *                            afterwards and tickit_term_observe_sigwinch never touches the SIGWINCH handler again
 *   new [Cnn] blk=s1,s2      (default hooks only) the application has the signals s1, s2 blocked in its own signal mask
 *                            (sigprocmask(SIG_BLOCK) before tickit_build), as a threaded program that blocks signals in main does
 *   obs 0|1                  tickit_term_observe_sigwinch(tt1, 0|1) on a second stand-alone terminal (made on first use);
 *                            only in a `tt` history
 *   end                      leak check
 * Actions: T,k,ms,flags  A,k,sec,usec,flags  L,k,flags  I,k,fd,cond,flags  S,k,sig,flags
 *          P,k,pid,flags  C,k  E,errno  R,sig  X,pid,status  K (tickit_stop)
 *
 * Observation: the events of the operation in order, then ` ; b=<blocked> h=<handled> p=<pending>`
 * (signals of interest blocked / with a handler installed / pending in the kernel).
 *   g                         gettimeofday() was called
 *   poll:<ms|inf>:<fd/events,...>:<ret|eintr>
 *   cb:<k>:<flags>:<info>     callback of watch k (info: `-`, `fd/cond`, `pid/wstatus`)
 *   skip:<k> dup:<k>          cancel of a slot never registered / slot registered twice
 */
#define HCOMMON_MAIN
#include "hcommon.h"
#include "tickit.h"
#include <signal.h>
#include <poll.h>
#include <stdint.h>
#include <sys/time.h>
#include <sys/types.h>
#include <sys/ioctl.h>
#include "tickit-evloop.h"

extern TickitEventHooks tickit_evloop_default;

extern int __lsan_do_recoverable_leak_check(void);

/* Events are written through as they happen, so that when the library crashes in the middle of an
 * operation the events before the crash are part of the observation (hcommon marks the line ` <cut>`). */
static void obs_flush(void)
{
  size_t off = 0;
  while(off < h_olen) {
    ssize_t w = write(h_outfd, h_obuf + off, h_olen - off);
    if(w < 0) { if(errno == EINTR) continue; _exit(97); }
    off += w;
  }
  h_olen = 0;
}
#define EV(...) do { int e_ = errno; obs(__VA_ARGS__); obs_flush(); errno = e_; } while(0)

#define MAXW 96
#define MAXBEH 256
#define MAXACT 12
#define FD0 100
#define NFD 8
#define PID0 1000000000 /* far above any real pid (pid_max <= 2^22): waitpid is interposed for the whole process */
#define NPID 8

enum { K_NONE, K_TIMER, K_LATER, K_IO, K_SIGNAL, K_PROCESS };

static const int SIGS[] = { SIGHUP, SIGUSR1, SIGUSR2, SIGCHLD, SIGURG, SIGWINCH };
#define NSIGS ((int)(sizeof SIGS / sizeof SIGS[0]))

#define NINST 3
static Tickit *TT[NINST];    /* the toplevel instances; reachable from here, so LeakSanitizer does not report live ones */
static int cur;
#define T (TT[cur])
static int leaked;

static const uintptr_t MASK = (uintptr_t)0x5a5a5a5a5a5a5a5aULL; /* hide our copies of the handles from LeakSanitizer */
static struct { uintptr_t h; int kind; int fires; int used; } W[MAXW];

static struct { int k, n, nact; char *act[MAXACT]; } B[MAXBEH];
static int nbeh;
static struct { int k, nact; char *act[MAXACT]; } UB[MAXBEH];   /* unbind handlers */
static int nubeh;
static int cb_depth;         /* inside the FIRE invocation of a callback */

static long long vclock_us;
static int quiet;            /* terminal set-up at `new`: nothing is logged, the clock jumps so that waits end */
static int in_run, run_polls;
#define MAX_RUN_POLLS 50
static int ready_bits[NFD];
static int inpoll[8], ninpoll;
static struct { int exited, reaped, status; } PR[NPID];

/* the self-pipe configuration (`new … fb`) */
#define PIPE0 90
static int fbmode;
static int ttmode;           /* `new … tt`: stand-alone terminals that observe SIGWINCH next to the instance */
static TickitTerm *XT[2];    /* reachable from here: not leaks */
static TickitEventHooks fbhooks;
static int canon_pipe;       /* inside tickit_build / a registration: the next pipe() is the library's self-pipe */
static int npipes;           /* pipes the library has made in this process */
static int pipe_rd = -1;     /* read end of the most recent one */

/* ------------------------------------------------------------------ interposed libc */

int __wrap_gettimeofday(struct timeval *tv, void *tz)
{
  (void)tz;
  if(quiet) {
    static long long setup_clock;
    setup_clock += 1000000;
    tv->tv_sec = 1 + setup_clock / 1000000;
    tv->tv_usec = 0;
    return 0;
  }
  tv->tv_sec = vclock_us / 1000000;
  tv->tv_usec = vclock_us % 1000000;
  EV("g ");
  return 0;
}

int __real_pipe(int fds[2]);
int __wrap_pipe(int fds[2])
{
  int r = __real_pipe(fds);
  if(r < 0 || !canon_pipe)
    return r;
  /* canonical descriptor numbers, so that the poll slots can be printed */
  int rd = PIPE0 + 2 * npipes, wr = rd + 1;
  if(dup2(fds[0], rd) < 0 || dup2(fds[1], wr) < 0) _exit(96);
  close(fds[0]); close(fds[1]);
  fds[0] = rd; fds[1] = wr;
  pipe_rd = rd;
  npipes++;
  return r;
}

static void block_sigs(sigset_t *orig);

int __real_ppoll(struct pollfd *fds, nfds_t nfds, const struct timespec *to, const sigset_t *mask);
int __wrap_ppoll(struct pollfd *fds, nfds_t nfds, const struct timespec *to, const sigset_t *mask)
{
  if(quiet) {
    for(nfds_t i = 0; i < nfds; i++) fds[i].revents = 0;
    return 0;
  }
  obs("poll:");
  if(to) obs("%lld", (long long)to->tv_sec * 1000 + to->tv_nsec / 1000000);
  else   obs("inf");
  obs(":");
  int count = 0;
  for(nfds_t i = 0; i < nfds; i++) {
    obs("%s%d/%d", i ? "," : "", fds[i].fd, fds[i].events);
    int r = 0;
    if(fds[i].fd >= FD0 && fds[i].fd < FD0 + NFD)
      r = ready_bits[fds[i].fd - FD0] & (fds[i].events | POLLERR | POLLHUP | POLLNVAL);
    else if(fbmode && pipe_rd >= 0 && fds[i].fd == pipe_rd) {
      /* the library's self-pipe: ask the kernel */
      struct pollfd p = { .fd = pipe_rd, .events = fds[i].events };
      int e_ = errno;
      if(poll(&p, 1, 0) > 0) r = p.revents;
      errno = e_;
    }
    fds[i].revents = r;
    if(r) count++;
  }
  if(!nfds) obs("-");
  /* self-pipe configuration: the loop does not block the signals it watches.  A signal that arrives while the
   * process sleeps in ppoll is acted upon when the call returns: keep the signals of the history blocked while
   * they are raised, let the real ppoll below deliver them under the loop's mask (EINTR when a handler ran),
   * or - descriptors ready - let them be delivered right after the call returned */
  sigset_t orig;
  if(fbmode) block_sigs(&orig);
  for(int i = 0; i < ninpoll; i++)
    raise(inpoll[i]);           /* blocked (by the loop, or here): stays pending until the kernel looks */
  ninpoll = 0;
  int force = in_run && ++run_polls >= MAX_RUN_POLLS;
  if(count > 0) {
    /* the kernel reports ready descriptors before it looks at signals */
    if(fbmode) { int e_ = errno; sigprocmask(SIG_SETMASK, &orig, NULL); errno = e_; }
    EV(":%d ", count);
    if(force) { tickit_stop(T); EV("hstop "); }
    return count;
  }
  struct timespec zero = { 0, 0 };
  int r = __real_ppoll(NULL, 0, &zero, mask);
  if(fbmode) { int e_ = errno; sigprocmask(SIG_SETMASK, &orig, NULL); errno = e_; }
  if(r < 0 && errno == EINTR) {
    EV(":eintr ");
    if(force) { tickit_stop(T); EV("hstop "); }
    errno = EINTR;
    return -1;
  }
  if(to)
    vclock_us += (long long)to->tv_sec * 1000000 + to->tv_nsec / 1000;
  EV(":0 ");
  if(force || (in_run && !to)) { tickit_stop(T); EV("hstop "); }
  return 0;
}

pid_t __real_waitpid(pid_t pid, int *wstatus, int options);
pid_t __wrap_waitpid(pid_t pid, int *wstatus, int options)
{
  if(pid >= PID0 && pid < PID0 + NPID) {
    int i = pid - PID0;
    if(PR[i].reaped) { errno = ECHILD; return -1; }
    if(!PR[i].exited) return 0;
    PR[i].reaped = 1;
    if(wstatus) *wstatus = PR[i].status;
    return pid;
  }
  return __real_waitpid(pid, wstatus, options);
}

/* ------------------------------------------------------------------ callbacks as behaviour tables */

static int valid_sig(int s)
{
  for(int i = 0; i < NSIGS; i++) if(SIGS[i] == s) return 1;
  return 0;
}

static void block_sigs(sigset_t *orig)
{
  sigset_t set;
  sigemptyset(&set);
  for(int i = 0; i < NSIGS; i++) sigaddset(&set, SIGS[i]);
  int e_ = errno;
  sigprocmask(SIG_BLOCK, &set, orig);
  errno = e_;
}

static int cb(Tickit *t, TickitEventFlags flags, void *info, void *user);

static void do_cancel(int k)
{
  if(k < 0 || k >= MAXW || !W[k].used) { EV("skip:%d ", k); return; }
  tickit_watch_cancel(T, (void *)(W[k].h ^ MASK));
}

static void do_register(int kind, int k, long a, long b, int flags)
{
  if(k < 0 || k >= MAXW) { EV("skip:%d ", k); return; }
  if(W[k].used) { EV("dup:%d ", k); return; }
  W[k].used = 1;
  W[k].kind = kind;
  W[k].fires = 0;
  void *user = (void *)(intptr_t)k;
  void *h = NULL;
  switch(kind) {
    case K_TIMER:
      if(b == -1) h = tickit_watch_timer_after_msec(T, (int)a, flags, cb, user);
      else        h = tickit_watch_timer_at_tv(T, &(struct timeval){ .tv_sec = a, .tv_usec = b }, flags, cb, user);
      break;
    case K_LATER:   h = tickit_watch_later(T, flags, cb, user); break;
    case K_IO:      h = tickit_watch_io(T, (int)a, (TickitIOCondition)b, flags, cb, user); break;
    case K_SIGNAL:  h = tickit_watch_signal(T, (int)a, flags, cb, user); break;
    case K_PROCESS: h = tickit_watch_process(T, (pid_t)a, flags, cb, user); break;
  }
  W[k].h = (uintptr_t)h ^ MASK;
}

/* returns 1 when the action set errno on purpose */
static int do_action(const char *act)
{
  long v[5] = { 0, 0, 0, 0, 0 };
  int n = 0;
  const char *p = act + 1;
  while(*p == ',' && n < 5) {
    v[n++] = strtol(p + 1, (char **)&p, 10);
  }
  switch(act[0]) {
    case 'T': if(n == 3 && v[1] >= 0) do_register(K_TIMER, v[0], v[1], -1, v[2]); break;
    case 'A': if(n == 4 && v[2] >= 0) do_register(K_TIMER, v[0], v[1], v[2], v[3]); break;
    case 'L': if(n == 2) do_register(K_LATER, v[0], 0, 0, v[1]); break;
    case 'I': if(n == 4) do_register(K_IO, v[0], v[1], v[2], v[3]); break;
    case 'S': if(n == 3 && valid_sig(v[1])) do_register(K_SIGNAL, v[0], v[1], 0, v[2]); break;
    case 'P': if(n == 3 && v[1] >= PID0 && v[1] < PID0 + NPID) do_register(K_PROCESS, v[0], v[1], 0, v[2]); break;
    case 'C': if(n == 1) do_cancel(v[0]); break;
    case 'E': if(n == 1) { errno = (int)v[0]; return 1; } break;
    case 'R': if(n == 1 && valid_sig(v[0])) raise((int)v[0]); break;
    case 'K': if(n == 0) tickit_stop(T); break;
    case 'X': if(n == 2 && v[0] >= PID0 && v[0] < PID0 + NPID) { if(!PR[v[0] - PID0].exited) { PR[v[0] - PID0].exited = 1; PR[v[0] - PID0].status = (int)v[1]; } } break;
  }
  return 0;
}

static int cb(Tickit *t, TickitEventFlags flags, void *info, void *user)
{
  int saved = errno;
  int k = (int)(intptr_t)user;
  if(t != T) obs("wrong-instance ");   /* callbacks are only ever invoked for the instance operated on */
  obs("cb:%d:%d:", k, (int)flags);
  if(!info) obs("- ");
  else if(k >= 0 && k < MAXW && W[k].kind == K_IO) {
    TickitIOWatchInfo *i = info;
    obs("%d/%d ", i->fd, (int)i->cond);
  }
  else if(k >= 0 && k < MAXW && W[k].kind == K_PROCESS) {
    TickitProcessWatchInfo *i = info;
    obs("%d/%d ", (int)i->pid, i->wstatus);
  }
  else obs("? ");
  obs_flush();
  errno = saved;
  if(flags == TICKIT_EV_UNBIND && cb_depth == 0 && k >= 0 && k < MAXW) {
    for(int i = 0; i < nubeh; i++)
      if(UB[i].k == k) {
        for(int j = 0; j < UB[i].nact; j++) {
          EV("a ");
          int keep = errno;
          if(UB[i].act[j][0] == 'C') continue;
          if(!do_action(UB[i].act[j]))
            if(UB[i].act[j][0] != 'P') errno = keep;
        }
        break;
      }
  }
  if((flags & TICKIT_EV_FIRE) && k >= 0 && k < MAXW) {
    int n = W[k].fires++;
    cb_depth++;
    for(int i = 0; i < nbeh; i++)
      if(B[i].k == k && B[i].n == n) {
        for(int j = 0; j < B[i].nact; j++) {
          EV("a ");
          int keep = errno;
          if(!do_action(B[i].act[j]))
            /* only E and a failing waitpid inside the library change errno; our bookkeeping must not */
            if(B[i].act[j][0] != 'P') errno = keep;
        }
        break;
      }
    cb_depth--;
  }
  return 0;
}

/* ------------------------------------------------------------------ engine */

static void outfn(TickitTerm *tt, const char *bytes, size_t len, void *user)
{
  (void)tt; (void)bytes; (void)len; (void)user;
}

static void sig_trailer(void)
{
  sigset_t cur, pend;
  sigprocmask(SIG_SETMASK, NULL, &cur);
  sigpending(&pend);
  obs("; b=");
  int any = 0;
  for(int i = 0; i < NSIGS; i++) if(sigismember(&cur, SIGS[i])) { obs("%s%d", any ? "," : "", SIGS[i]); any = 1; }
  if(!any) obs("-");
  obs(" h=");
  any = 0;
  for(int i = 0; i < NSIGS; i++) {
    struct sigaction sa;
    sigaction(SIGS[i], NULL, &sa);
    if(sa.sa_handler != SIG_DFL && sa.sa_handler != SIG_IGN) { obs("%s%d", any ? "," : "", SIGS[i]); any = 1; }
  }
  if(!any) obs("-");
  obs(" p=");
  any = 0;
  for(int i = 0; i < NSIGS; i++) if(sigismember(&pend, SIGS[i])) { obs("%s%d", any ? "," : "", SIGS[i]); any = 1; }
  if(!any) obs("-");
  if(fbmode) {
    int n = 0;
    if(pipe_rd >= 0 && ioctl(pipe_rd, FIONREAD, &n) == 0) obs(" q=%d", n);
    else obs(" q=-");
  }
}

static void engine_begin(void)
{
  memset(TT, 0, sizeof TT); cur = 0; leaked = 0; nbeh = 0; nubeh = 0; cb_depth = 0; ninpoll = 0; quiet = 0; in_run = 0; run_polls = 0;
  fbmode = 0; canon_pipe = 0; npipes = 0; pipe_rd = -1;
  for(int i = 0; i < 2; i++) if(XT[i]) { tickit_term_unref(XT[i]); XT[i] = NULL; }
  ttmode = 0;
  memset(W, 0, sizeof W);
  memset(PR, 0, sizeof PR);
  memset(ready_bits, 0, sizeof ready_bits);
  vclock_us = 1000LL * 1000000;
}

static void engine_end(void)
{
  if(leaked) {
    /* the leak has been observed and reported on the `end` line; do not let the exit-time
     * check report it a second time as an abnormal end */
    fflush(NULL);
    _exit(0);
  }
}

static void __attribute__((noinline)) scrub_stack(void)
{
  volatile char buf[32768];
  for(size_t i = 0; i < sizeof buf; i++) buf[i] = 0;
}

static int build_current(void)
{
  if(fbmode) {
    /* the default loop minus its optional signal members: tickit.c falls back to sigaction + self-pipe */
    fbhooks = tickit_evloop_default;
    fbhooks.signal = NULL;
    fbhooks.cancel_signal = NULL;
  }
  canon_pipe = 1;
  T = tickit_build(&(struct TickitBuilder){
    .term_builder = { .termtype = "xterm", .output_func = outfn },
    .evhooks = fbmode ? &fbhooks : NULL,
  });
  canon_pipe = 0;
  if(!T) return 0;
  /* set the terminal up now (tickit_run would do it on first use), silently: one iteration with nothing to do */
  quiet = 1;
  tickit_tick(T, TICKIT_RUN_NOHANG);
  quiet = 0;
  return 1;
}

static void engine_op(int argc, char **argv)
{
  const char *op = argc ? argv[0] : "";
  if(strcmp(op, "new") == 0) {
    cur = 0;
    for(int i = 1; i < argc; i++) if(strcmp(argv[i], "fb") == 0) fbmode = 1;
    for(int i = 1; i < argc; i++) if(strcmp(argv[i], "tt") == 0 && !fbmode) ttmode = 1;
    /* `blk=s1,s2`: the application has these signals blocked in its own mask when the instance is built */
    for(int i = 1; i < argc; i++) if(strncmp(argv[i], "blk=", 4) == 0 && !fbmode) {
      sigset_t set;
      sigemptyset(&set);
      const char *p = argv[i] + 3;
      while(*p == '=' || *p == ',') {
        long sg = strtol(p + 1, (char **)&p, 10);
        if(valid_sig((int)sg)) sigaddset(&set, (int)sg);
      }
      sigprocmask(SIG_BLOCK, &set, NULL);
    }
    if(ttmode) {
      quiet = 1;
      XT[0] = tickit_term_new_for_termtype("xterm");
      quiet = 0;
      if(!XT[0]) { obs("build-failed"); return; }
      tickit_term_observe_sigwinch(XT[0], true);
    }
    if(!build_current()) { obs("build-failed"); return; }
    obs("ok ");
    sig_trailer();
    return;
  }
  if((strcmp(op, "inst") == 0 || strcmp(op, "use") == 0) && argc == 2 &&
     argv[1][0] >= '0' && argv[1][0] < '0' + NINST && !argv[1][1]) {
    if(fbmode && argv[1][0] != '0') { obs("bad-op"); return; }
    cur = argv[1][0] - '0';
    if(op[0] == 'i' && !T && !build_current()) { obs("build-failed"); return; }
    obs("ok ");
    sig_trailer();
    return;
  }
  if(strcmp(op, "end") == 0) {
    scrub_stack();
    int l = __lsan_do_recoverable_leak_check();
    leaked = l != 0;
    obs("leaks=%d", leaked);
    return;
  }
  if(!T) { obs("dead"); return; }

  long v[8] = { 0 };
  int okargs = 1;
  for(int i = 1; i < argc && i < 9; i++) {
    if(strcmp(op, "beh") == 0 && i >= 3) break;
    if(strcmp(op, "ubeh") == 0 && i >= 2) break;
    char *e;
    v[i - 1] = strtol(argv[i], &e, 10);
    if(*e) okargs = 0;
  }
  if(!okargs) { obs("bad-op"); return; }

  if(strcmp(op, "beh") == 0 && argc >= 3 && nbeh < MAXBEH && argc - 3 <= MAXACT) {
    B[nbeh].k = v[0]; B[nbeh].n = v[1]; B[nbeh].nact = argc - 3;
    for(int i = 3; i < argc; i++) B[nbeh].act[i - 3] = strdup(argv[i]);
    nbeh++;
    obs("ok ");
  }
  else if(strcmp(op, "ubeh") == 0 && argc >= 2 && !fbmode && nubeh < MAXBEH && argc - 2 <= MAXACT) {
    int have = 0;
    for(int i = 0; i < nubeh; i++) if(UB[i].k == v[0]) have = 1;
    if(!have) {
      UB[nubeh].k = v[0]; UB[nubeh].nact = argc - 2;
      for(int i = 2; i < argc; i++) UB[nubeh].act[i - 2] = strdup(argv[i]);
      nubeh++;
    }
    obs("ok ");
  }
  else if(strcmp(op, "timer") == 0 && argc == 4 && v[1] >= 0)   { do_register(K_TIMER, v[0], v[1], -1, v[2]); obs("ok "); }
  else if(strcmp(op, "timer_at") == 0 && argc == 5 && v[2] >= 0) { do_register(K_TIMER, v[0], v[1], v[2], v[3]); obs("ok "); }
  else if(strcmp(op, "later") == 0 && argc == 3)    { do_register(K_LATER, v[0], 0, 0, v[1]); obs("ok "); }
  else if(strcmp(op, "io") == 0 && argc == 5)       { do_register(K_IO, v[0], v[1], v[2], v[3]); obs("ok "); }
  else if(strcmp(op, "signal") == 0 && argc == 4 && valid_sig(v[1])) { do_register(K_SIGNAL, v[0], v[1], 0, v[2]); obs("ok "); }
  else if(strcmp(op, "process") == 0 && argc == 4 && v[1] >= PID0 && v[1] < PID0 + NPID)  { do_register(K_PROCESS, v[0], v[1], 0, v[2]); obs("ok "); }
  else if(strcmp(op, "cancel") == 0 && argc == 2)   { do_cancel(v[0]); obs("ok "); }
  else if(strcmp(op, "clock") == 0 && argc == 2 && v[0] >= 0) { vclock_us += v[0]; obs("ok "); }
  else if(strcmp(op, "ready") == 0 && argc == 3 && v[0] >= FD0 && v[0] < FD0 + NFD) { ready_bits[v[0] - FD0] = (int)v[1]; obs("ok "); }
  else if(strcmp(op, "raise") == 0 && argc == 2 && valid_sig(v[0])) { raise((int)v[0]); obs("ok "); }
  else if(strcmp(op, "inpoll") == 0 && argc == 2 && valid_sig(v[0]) && ninpoll < 8) { inpoll[ninpoll++] = (int)v[0]; obs("ok "); }
  else if(strcmp(op, "exit") == 0 && argc == 3 && v[0] >= PID0 && v[0] < PID0 + NPID) {
    if(!PR[v[0] - PID0].exited) { PR[v[0] - PID0].exited = 1; PR[v[0] - PID0].status = (int)v[1]; }
    obs("ok ");
  }
  else if(strcmp(op, "tick") == 0 && argc == 1)     { tickit_tick(T, TICKIT_RUN_NOHANG | TICKIT_RUN_NOSETUP); obs("ok "); }
  else if(strcmp(op, "tickhang") == 0 && argc == 1) { tickit_tick(T, TICKIT_RUN_NOSETUP); obs("ok "); }
  else if(strcmp(op, "run") == 0 && argc == 1) { in_run = 1; run_polls = 0; tickit_run(T); in_run = 0; obs("ok "); }
  else if(strcmp(op, "destroy") == 0 && argc == 1)  { tickit_unref(T); T = NULL; obs("ok "); }
  else if(strcmp(op, "obs") == 0 && argc == 2 && ttmode && (v[0] == 0 || v[0] == 1)) {
    if(!XT[1]) { quiet = 1; XT[1] = tickit_term_new_for_termtype("xterm"); quiet = 0; }
    if(!XT[1]) { obs("build-failed"); return; }
    tickit_term_observe_sigwinch(XT[1], v[0] == 1);
    obs("ok ");
  }
  else { obs("bad-op"); return; }
  sig_trailer();
}
