/* Engine `life` (C08): lifecycle explorer over the whole library.
 *
 * One history = one process (engines.d/C08.json sets VERIF_BATCH=1).  Every operation line answers with
 *   [handler log tokens] <result> | W <per-window dump> | P <pens> | S <strings> | B <buffers> | T <term>
 * where liveness is what AddressSanitizer says about the object's memory (__asan_address_is_poisoned), so
 * that a premature free or a missing free is seen at the operation that causes it.  The harness plays a
 * well-behaved application: it never passes a handle it does not hold (own count > 0) or whose object is
 * gone; such lines answer `skip`.  The last line of a history, `end`, drops every reference the
 * application still holds, forgets all handles and runs LeakSanitizer: `end leak=0|1`.
 * A sanitizer abort turns the rest of the history into `CRASH exit=1`, an abort() into `CRASH signal=6`
 * (hcommon.h).
 *
 * Event handlers are interpreters of behaviour tables given on the `bind` line (DESIGN §3 "Callbacks"); so are the
 * handlers bound on the terminal (`tbind`) and the watches of the toplevel instance (`ilater`, `itimer`, `itimerat`), which
 * may also register further timers (a<ms>: tickit_watch_timer_at_tv for an instant of the harness's clock) and deferred
 * calls (l) while they run.
 *
 * The output side of the main terminal goes through the real xterm driver: its output function records every chunk of the
 * current operation, and tbuf / tprint / tgoto / tflush / tcaps / tsetpen / tchpen answer `ok out=<hex>,<hex>… [pen=…]`.
 */
#define HCOMMON_MAIN
#include "hcommon.h"
#include "tickit.h"
#include "tickit-mockterm.h"
#include "tickit-termdrv.h"
#include <sanitizer/asan_interface.h>

#include <fcntl.h>
#include <signal.h>
#include <sys/wait.h>
#include <sys/time.h>
#include <sys/select.h>

int __lsan_do_recoverable_leak_check(void);

/* the library's clock (engines.d/C08.json links with -Wl,--wrap=gettimeofday): it stands still unless a `tick`
 * line advances it, so that the inter-byte timeout of the terminal's input is reached without waiting */
static long fake_ms;
int __wrap_gettimeofday(struct timeval *tv, void *tz)
{
  (void)tz;
  tv->tv_sec = 1000000 + fake_ms / 1000; tv->tv_usec = (fake_ms % 1000) * 1000;
  return 0;
}

#define MAXO 48
#define MAXB 64
#define MAXA 8

static TickitTerm *tt; static int tt_refs; static int is_mock;
static TickitWindow *W[MAXO]; static int Wref[MAXO]; static int nW;
/* bookkeeping of a well-behaved application: the window a handle was created under, whether the application
 * itself closed it, and whether its (destroyed) parent has taken the creation reference with it */
static int Wparent[MAXO]; static int Wdetached[MAXO]; static int Wconsumed[MAXO];
static TickitPen *P[MAXO]; static int Pref[MAXO]; static int nP;
static TickitString *S[MAXO]; static int Sref[MAXO]; static int nS;
static TickitRenderBuffer *B[MAXO]; static int Bref[MAXO]; static int nB;

static int in_fd[2] = { -1, -1 };   /* `newin`: the terminal reads from in_fd[0] */
/* further terminals (`xnew`): no root window, no input; they exist to stand in the process-wide list of SIGWINCH
 * observers (tickit_term_observe_sigwinch) next to the main terminal */
#define MAXX 8
static TickitTerm *X[MAXX]; static int Xref[MAXX]; static int nX;
static int heldx(int i);

/* libtermkey is not built with the sanitizer: a TermKey the library has destroyed and goes on using would be
 * touched unseen.  get_termkey() (src/term.c) passes tt->termkey to termkey_get_canonflags() at the start of every
 * input entry point: look at the object there with an instrumented load (engines.d/C08.json links with
 * -Wl,--wrap=termkey_get_canonflags), so that AddressSanitizer reports the use of a freed TermKey where it happens */
int __real_termkey_get_canonflags(void *tk);
int __wrap_termkey_get_canonflags(void *tk)
{
  volatile char probe = *(volatile char *)tk; (void)probe;
  return __real_termkey_get_canonflags(tk);
}

static int winch_handled(void)
{
  struct sigaction sa;
  if(sigaction(SIGWINCH, NULL, &sa) != 0) return -1;
  return sa.sa_handler != SIG_DFL && sa.sa_handler != SIG_IGN;
}
/* `newtop`: the toplevel instance.  It owns the terminal and the root window; the application takes its own
 * reference to each handle it keeps (tickit_window_ref(tickit_get_rootwin(t)), tickit_term_ref(tickit_get_term(t))) */
static Tickit *TK; static int tk_refs;
static int heldi(void);

struct act { char kind; int arg; };
struct beh { int used; int w; int ev; int ret; int id; int nacts; struct act acts[MAXA]; };
static struct beh BEH[MAXB]; static int nBEH;

/* ON_CHANGE handlers of pens: behaviour tables as well (q<k> = tickit_pen_unref(P[k]), Q<k> = tickit_pen_ref) */
struct pbeh { int used; int p; int id; int nacts; struct act acts[MAXA]; };
static struct pbeh PBEH[MAXB]; static int nPBEH;

static int alive(const void *p) { return p && !__asan_address_is_poisoned(p); }

/* the main terminal's output function: what the library hands over during the current operation is kept, chunk by chunk,
 * so that the operations on the output side (tbuf, tprint, tgoto, tflush, tsetpen, tchpen) can show it; every byte handed
 * over is read here (an instrumented load: a chunk that reaches beyond the memory it lies in is reported where it happens) */
static unsigned char *outb; static size_t outn, outcap;
static size_t outcut[4096]; static int noutcut;
/* memory that has been allocated and never written is recognisable: AddressSanitizer fills every fresh allocation (malloc,
 * and the part realloc adds) with FRESH_BYTE, a byte that occurs in no UTF-8 text and in no control sequence the library
 * builds.  `out_fresh` counts the bytes of that value handed to the output function during the current operation: bytes the
 * library read as meaningful without ever having written them */
#define FRESH_BYTE 0xFE
const char *__asan_default_options(void) { return "malloc_fill_byte=254:max_malloc_fill_size=1048576"; }
static long out_fresh;
static void outf(TickitTerm *t, const char *b, size_t n, void *u)
{
  (void)u;
  if(!b || t != tt) return;                    /* (NULL, 0) on destroy; further terminals are not recorded */
  if(outn + n + 1 > outcap) { outcap = (outn + n + 1) * 2; outb = realloc(outb, outcap); }
  memcpy(outb + outn, b, n);
  for(size_t k = 0; k < n; k++) if((unsigned char)b[k] == FRESH_BYTE) out_fresh++;
  outn += n;
  if(noutcut < 4096) outcut[noutcut++] = outn;
}
static void out_reset(void) { outn = 0; noutcut = 0; out_fresh = 0; }
static void obs_out(void)
{
  obs(" out=");
  if(!noutcut) { obs("-"); return; }
  size_t from = 0;
  for(int k = 0; k < noutcut; k++) {
    if(k) obs(",");
    obs_hex(outb + from, outcut[k] - from);
    from = outcut[k];
  }
}

/* pens made for one call of tickit_term_setpen / tickit_term_chpen: `-` or a comma separated list in attribute order, e.g.
 * fg=200#0a0b0c,bg=-1,b=1,u=2,i=0,rv=1,strike=0,af=3,blink=1,sizepos=2 (the notation of harness/sgr.c) */
static const TickitPenAttr attr_order[] = {
  TICKIT_PEN_FG, TICKIT_PEN_BG, TICKIT_PEN_BOLD, TICKIT_PEN_UNDER, TICKIT_PEN_ITALIC, TICKIT_PEN_REVERSE,
  TICKIT_PEN_STRIKE, TICKIT_PEN_ALTFONT, TICKIT_PEN_BLINK, TICKIT_PEN_SIZEPOS,
};
#define N_ATTRS (sizeof attr_order / sizeof attr_order[0])

static void fmt_pen(char *dst, size_t cap, const TickitPen *p)
{
  size_t n = 0;
  dst[0] = 0;
  for(size_t i = 0; i < N_ATTRS; i++) {
    TickitPenAttr a = attr_order[i];
    if(!tickit_pen_has_attr(p, a)) continue;
    if(n) n += snprintf(dst + n, cap - n, ",");
    n += snprintf(dst + n, cap - n, "%s=", tickit_penattr_name(a));
    switch(tickit_penattr_type(a)) {
      case TICKIT_PENTYPE_BOOL:
        n += snprintf(dst + n, cap - n, "%d", tickit_pen_get_bool_attr(p, a));
        break;
      case TICKIT_PENTYPE_INT:
        n += snprintf(dst + n, cap - n, "%d", tickit_pen_get_int_attr(p, a));
        break;
      case TICKIT_PENTYPE_COLOUR:
        n += snprintf(dst + n, cap - n, "%d", tickit_pen_get_colour_attr(p, a));
        if(tickit_pen_has_colour_attr_rgb8(p, a)) {
          TickitPenRGB8 c = tickit_pen_get_colour_attr_rgb8(p, a);
          n += snprintf(dst + n, cap - n, "#%02x%02x%02x", c.r, c.g, c.b);
        }
        break;
    }
  }
  if(!n) snprintf(dst, cap, "-");
}

static TickitPen *parse_pen(const char *s)
{
  TickitPen *p = tickit_pen_new();
  if(strcmp(s, "-") == 0) return p;
  char *copy = strdup(s), *save = NULL;
  for(char *t = strtok_r(copy, ",", &save); t; t = strtok_r(NULL, ",", &save)) {
    char *eq = strchr(t, '=');
    if(!eq) { tickit_pen_unref(p); free(copy); return NULL; }
    *eq = 0;
    TickitPenAttr a = tickit_penattr_lookup(t);
    if((int)a < 1) { tickit_pen_unref(p); free(copy); return NULL; }
    const char *v = eq + 1;
    switch(tickit_penattr_type(a)) {
      case TICKIT_PENTYPE_BOOL:   tickit_pen_set_bool_attr(p, a, atoi(v)); break;
      case TICKIT_PENTYPE_INT:    tickit_pen_set_int_attr(p, a, atoi(v)); break;
      case TICKIT_PENTYPE_COLOUR: {
        tickit_pen_set_colour_attr(p, a, atoi(v));
        const char *h = strchr(v, '#');
        if(h) {
          unsigned r, g, b;
          if(sscanf(h + 1, "%2x%2x%2x", &r, &g, &b) == 3)
            tickit_pen_set_colour_attr_rgb8(p, a, (TickitPenRGB8){ .r = r, .g = g, .b = b });
        }
        break;
      }
    }
  }
  free(copy);
  return p;
}

/* tickit_window_destroy(3): destroying a window "recursively destroy[s] any child windows": the parent drops the
 * creation reference of every child still linked to it.  An application that knows this gives up one of its
 * references to such a child (it may hold more, taken with tickit_window_ref). */
static void sync_consumed(void)
{
  for(int i = 1; i < nW; i++)
    if(!Wconsumed[i] && !Wdetached[i] && Wparent[i] >= 0 && !alive(W[Wparent[i]])) {
      Wconsumed[i] = 1;
      if(Wref[i] > 0) Wref[i]--;
    }
}

static int heldw(int i) { sync_consumed(); return i >= 0 && i < nW && Wref[i] > 0 && alive(W[i]); }
static int heldp(int i) { return i >= 0 && i < nP && Pref[i] > 0 && alive(P[i]); }
static int helds(int i) { return i >= 0 && i < nS && Sref[i] > 0 && alive(S[i]); }
static int heldb(int i) { return i >= 0 && i < nB && Bref[i] > 0 && alive(B[i]); }
static int heldt(void)  { return tt_refs > 0 && alive(tt); }

/* the window still belongs to the tree: its parent chain reaches the root window.  tickit_window_close(3):
 * "After this is done the only operation that is defined any more is tickit_window_unref" -- the harness
 * (a well-behaved application) issues nothing but ref/unref/close on a window that is closed or lies
 * below a closed one */
static int attached(int i)
{
  TickitWindow *w = W[i];
  for(int guard = 0; guard < 2 * MAXO; guard++) {
    if(!alive(w)) return 0;
    if(w == W[0]) return 1;
    w = tickit_window_parent(w);
    if(!w) return 0;
  }
  return 0;
}
static int usable(int i) { return heldw(i) && attached(i); }

static int widx(const TickitWindow *w)
{
  for(int i = 0; i < nW; i++) if(W[i] == w) return i;
  return -1;
}

static void dump(void)
{
  obs(" | W");
  for(int i = 0; i < nW; i++) {
    if(!alive(W[i])) { obs(" %d:x", i); continue; }
    TickitWindow *w = W[i];
    TickitWindow *p = tickit_window_parent(w);
    obs(" %d:p", i);
    if(!p) obs("-"); else { int k = widx(p); if(k < 0) obs("?"); else obs("%d", k); }
    obs(":c");
    size_t n = tickit_window_children(w);
    TickitWindow **cs = malloc((n + 1) * sizeof *cs);
    size_t got = tickit_window_get_children(w, cs, n);
    for(size_t k = 0; k < got; k++) { int j = widx(cs[k]); if(j < 0) obs("%s?", k ? "," : ""); else obs("%s%d", k ? "," : "", j); }
    free(cs);
    obs(":v%d:f%d", tickit_window_is_visible(w) ? 1 : 0, tickit_window_is_focused(w) ? 1 : 0);
  }
  obs(" | P ");
  for(int i = 0; i < nP; i++) obs("%d", alive(P[i]));
  if(!nP) obs("-");
  obs(" | S ");
  for(int i = 0; i < nS; i++) obs("%d", alive(S[i]));
  if(!nS) obs("-");
  obs(" | B ");
  for(int i = 0; i < nB; i++) obs("%d", alive(B[i]));
  if(!nB) obs("-");
  obs(" | T %d", alive(tt));
  if(TK) obs(" | I %d", alive(TK));
  if(nX) { obs(" | X "); for(int i = 0; i < nX; i++) obs("%d", alive(X[i])); }
}

/* ---- the operations a handler may also perform ------------------------------------------------ */

static const char *simple_op(char kind, int i, struct beh *self)
{
  switch(kind) {
    case 'u': if(!heldw(i)) return "skip"; Wref[i]--; tickit_window_unref(W[i]); return "ok";
    case 'r': if(!heldw(i)) return "skip"; Wref[i]++; tickit_window_ref(W[i]); return "ok";
    case 'c': if(!heldw(i)) return "skip"; Wdetached[i] = 1; tickit_window_close(W[i]); return "ok";
    case 'R': if(!usable(i)) return "skip"; tickit_window_raise(W[i]); return "ok";
    case 'F': if(!usable(i)) return "skip"; tickit_window_raise_to_front(W[i]); return "ok";
    case 'L': if(!usable(i)) return "skip"; tickit_window_lower(W[i]); return "ok";
    case 'B': if(!usable(i)) return "skip"; tickit_window_lower_to_back(W[i]); return "ok";
    case 'h': if(!usable(i)) return "skip"; tickit_window_hide(W[i]); return "ok";
    case 's': if(!usable(i)) return "skip"; tickit_window_show(W[i]); return "ok";
    case 'f': if(!heldw(0)) return "skip"; tickit_window_flush(W[0]); return "ok";
    case 'x':
      if(!self || !self->used || !usable(self->w)) return "skip";
      self->used = 0;
      tickit_window_unbind_event_id(W[self->w], self->id);
      return "ok";
  }
  return "bad-op";
}

static int on_event(TickitWindow *win, TickitEventFlags flags, void *info, void *user)
{
  if(!(flags & TICKIT_EV_FIRE)) return 0;
  struct beh *b = user;
  if(b->ev == 0)
    obs("H%dk ", b->w);
  else {
    TickitMouseEventInfo *m = info;
    obs("H%dm%x@%d,%d ", b->w, (unsigned)m->type, m->line, m->col);
  }
  (void)win;
  int ret = b->ret, n = b->nacts;
  struct act acts[MAXA];
  memcpy(acts, b->acts, sizeof acts);
  for(int k = 0; k < n; k++)
    simple_op(acts[k].kind, acts[k].arg, b);
  return ret;
}

static const char *pen_simple_op(char kind, int i)
{
  switch(kind) {
    case 'q': if(!heldp(i)) return "skip"; Pref[i]--; tickit_pen_unref(P[i]); return "ok";
    case 'Q': if(!heldp(i)) return "skip"; Pref[i]++; tickit_pen_ref(P[i]); return "ok";
  }
  return "bad-op";
}

static int on_pen_event(TickitPen *pen, TickitEventFlags flags, void *info, void *user)
{
  (void)pen; (void)info;
  if(!(flags & TICKIT_EV_FIRE)) return 0;
  struct pbeh *b = user;
  obs("P%dc ", b->p);
  int n = b->nacts;
  struct act acts[MAXA];
  memcpy(acts, b->acts, sizeof acts);
  for(int k = 0; k < n; k++)
    pen_simple_op(acts[k].kind, acts[k].arg);
  return 0;
}

/* ---- handlers bound on the terminal itself, and its input ------------------------------------- */

struct tbeh { int used; int ev; int ret; int id; int nacts; struct act acts[MAXA]; };
static struct tbeh TBEH[MAXB]; static int nTBEH;

static int heldi(void) { return TK && tk_refs > 0 && alive(TK); }
static int heldx(int i) { return i >= 0 && i < nX && Xref[i] > 0 && alive(X[i]); }

/* watches of the toplevel instance (tickit_watch_later / tickit_watch_timer_after_msec / _at_tv): behaviour tables again */
struct wbeh { int used; int timer; int pending; void *watch; int nacts; struct act acts[MAXA]; };
static struct wbeh WBEH[MAXB]; static int nWBEH;
static int on_watch(Tickit *t, TickitEventFlags flags, void *info, void *user);

/* I/O watches of the toplevel instance (tickit_watch_io on the read end of a pipe of its own, readable for good or never):
 * behaviour tables whose entries register further I/O watches (i<ready>), cancel one (k<n>) or the watch itself (x) */
struct iobeh { int used; int pending; void *watch; int fd[2]; int nacts; struct act acts[MAXA]; };
static struct iobeh IOBEH[MAXB]; static int nIOBEH;
static int on_io(Tickit *t, TickitEventFlags flags, void *info, void *user);
static int io_register(int ready, int nacts, const struct act *acts)
{
  if(!heldi() || nIOBEH >= MAXB) return 0;
  struct iobeh *b = &IOBEH[nIOBEH];
  if(pipe(b->fd) != 0) return 0;
  nIOBEH++;
  b->used = 1; b->pending = 1; b->nacts = nacts;
  if(nacts) memcpy(b->acts, acts, nacts * sizeof *acts);
  if(ready && write(b->fd[1], "x", 1) != 1) b->pending = 1;
  b->watch = tickit_watch_io(TK, b->fd[0], TICKIT_IO_IN, 0, on_io, b);
  return 1;
}
static int io_cancel(int k)
{
  if(!heldi() || k < 0 || k >= nIOBEH || !IOBEH[k].pending) return 0;
  IOBEH[k].pending = 0;
  tickit_watch_cancel(TK, IOBEH[k].watch);
  return 1;
}
static int on_io(Tickit *t, TickitEventFlags flags, void *info, void *user)
{
  (void)t; (void)info;
  if(!(flags & TICKIT_EV_FIRE)) return 0;
  struct iobeh *b = user;
  obs("I%d ", (int)(b - IOBEH));
  int n = b->nacts;
  struct act acts[MAXA];
  memcpy(acts, b->acts, sizeof acts);
  for(int i = 0; i < n; i++) {
    if(acts[i].kind == 'i') io_register(acts[i].arg, 0, NULL);
    else if(acts[i].kind == 'k') io_cancel(acts[i].arg);
    else if(acts[i].kind == 'x') io_cancel((int)(b - IOBEH));
  }
  return 0;
}

/* an instant of the harness's clock (ms since its start) as the library's clock shows it */
/* process watches of the toplevel instance (tickit_watch_process, default event loop) on children of the harness's own:
 * one that has exited already when the watch is made (a zombie: waitid(WNOWAIT) has seen it go), or one that runs until the
 * harness kills it - after the watch has been cancelled or the instance destroyed, never while the watch exists */
struct prbeh { int pending; int fired; int live; pid_t pid; void *watch; };
#define MAXPR 16
static struct prbeh PRBEH[MAXPR]; static int nPRBEH;
static int on_proc(Tickit *t, TickitEventFlags flags, void *info, void *user)
{
  (void)t; (void)info;
  if(!(flags & TICKIT_EV_FIRE)) return 0;
  struct prbeh *b = user;
  b->pending = 0; b->fired = 1;
  return 0;
}
static void proc_reap(struct prbeh *b)
{
  if(!b->live) return;
  kill(b->pid, SIGKILL); waitpid(b->pid, NULL, 0); b->live = 0;
}

static struct timeval clock_at(long ms)
{
  return (struct timeval){ .tv_sec = 1000000 + ms / 1000, .tv_usec = (ms % 1000) * 1000 };
}

/* what a handler bound on the terminal or a watch may do besides the window operations: drop / take a reference to the
 * terminal (t, T), register a timer for an instant of the harness's clock - possibly one that has passed - (a<ms>) or a
 * deferred call (l); the watch registered that way does nothing when it fires */
static void top_act(struct act a)
{
  if(a.kind == 't') { if(heldt()) { tt_refs--; tickit_term_unref(tt); } }
  else if(a.kind == 'T') { if(heldt()) { tt_refs++; tickit_term_ref(tt); } }
  else if(a.kind == 'a' || a.kind == 'l') {
    if(!heldi() || nWBEH >= MAXB) return;
    struct wbeh *b = &WBEH[nWBEH++];
    b->used = 1; b->timer = a.kind == 'a'; b->pending = 1; b->nacts = 0;
    if(b->timer) { struct timeval at = clock_at(a.arg); b->watch = tickit_watch_timer_at_tv(TK, &at, 0, on_watch, b); }
    else b->watch = tickit_watch_later(TK, 0, on_watch, b);
  }
  else simple_op(a.kind, a.arg, NULL);
}

static int on_term_event(TickitTerm *term, TickitEventFlags flags, void *info, void *user)
{
  (void)term;
  if(!(flags & TICKIT_EV_FIRE)) return 0;
  struct tbeh *b = user;
  int k = (int)(b - TBEH);
  if(b->ev == 0) obs("T%dk ", k);
  else { TickitMouseEventInfo *m = info; obs("T%dm%x@%d,%d ", k, (unsigned)m->type, m->line, m->col); }
  int ret = b->ret, n = b->nacts;
  struct act acts[MAXA];
  memcpy(acts, b->acts, sizeof acts);
  for(int i = 0; i < n; i++) top_act(acts[i]);
  return ret;
}

static int on_watch(Tickit *t, TickitEventFlags flags, void *info, void *user)
{
  (void)t; (void)info;
  if(!(flags & TICKIT_EV_FIRE)) return 0;
  struct wbeh *b = user;
  b->pending = 0;
  obs("%c%d ", b->timer ? 'M' : 'L', (int)(b - WBEH));
  int n = b->nacts;
  struct act acts[MAXA];
  memcpy(acts, b->acts, sizeof acts);
  for(int i = 0; i < n; i++) top_act(acts[i]);
  return 0;
}

/* input tokens to bytes (the decoding is fixed in Model/LifeTop.lean `Tok`): a = 'a', A = ESC b, U = ESC [ A,
 * E = ESC, P/D/R<line>,<col> = X10 mouse report ESC [ M b x y (button 1 press / drag, release) */
static size_t tokens_to_bytes(int argc, char **argv, int from, char *out, size_t cap)
{
  size_t n = 0;
  for(int k = from; k < argc && n + 8 < cap; k++) {
    const char *t = argv[k];
    int line = 0, col = 0;
    if(strcmp(t, "a") == 0) out[n++] = 'a';
    else if(strcmp(t, "A") == 0) { out[n++] = 0x1b; out[n++] = 'b'; }
    else if(strcmp(t, "U") == 0) { out[n++] = 0x1b; out[n++] = '['; out[n++] = 'A'; }
    else if(strcmp(t, "E") == 0) out[n++] = 0x1b;
    else if((t[0] == 'P' || t[0] == 'D' || t[0] == 'R') && sscanf(t + 1, "%d,%d", &line, &col) == 2) {
      out[n++] = 0x1b; out[n++] = '['; out[n++] = 'M';
      out[n++] = t[0] == 'P' ? 32 : t[0] == 'D' ? 64 : 35;
      out[n++] = (char)(33 + col); out[n++] = (char)(33 + line);
    }
    else return (size_t)-1;
  }
  return n;
}

/* ---- engine ---------------------------------------------------------------------------------- */

static void engine_begin(void)
{
  tt = NULL; tt_refs = 0; is_mock = 0;
  nW = nP = nS = nB = nBEH = 0;
  memset(W, 0, sizeof W); memset(P, 0, sizeof P); memset(S, 0, sizeof S); memset(B, 0, sizeof B);
  memset(Wparent, 0, sizeof Wparent); memset(Wdetached, 0, sizeof Wdetached); memset(Wconsumed, 0, sizeof Wconsumed);
  memset(Wref, 0, sizeof Wref); memset(Pref, 0, sizeof Pref); memset(Sref, 0, sizeof Sref); memset(Bref, 0, sizeof Bref);
  memset(BEH, 0, sizeof BEH);
  memset(PBEH, 0, sizeof PBEH); nPBEH = 0;
  memset(TBEH, 0, sizeof TBEH); nTBEH = 0;
  memset(WBEH, 0, sizeof WBEH); nWBEH = 0;
  memset(IOBEH, 0, sizeof IOBEH); nIOBEH = 0;
  memset(PRBEH, 0, sizeof PRBEH); nPRBEH = 0;
  in_fd[0] = in_fd[1] = -1; fake_ms = 0;
  TK = NULL; tk_refs = 0;
  memset(X, 0, sizeof X); memset(Xref, 0, sizeof Xref); nX = 0;
}

static void engine_end(void) { }

/* drop everything the application still holds: windows leaf-first (highest handle first), then pens,
 * strings, buffers, the terminal last */
static void drop_all(void)
{
  for(int i = nW - 1; i >= 0; i--)
    while(heldw(i)) { Wref[i]--; tickit_window_unref(W[i]); }
  for(int i = nP - 1; i >= 0; i--)
    while(heldp(i)) { Pref[i]--; tickit_pen_unref(P[i]); }
  for(int i = nS - 1; i >= 0; i--)
    while(helds(i)) { Sref[i]--; tickit_string_unref(S[i]); }
  for(int i = nB - 1; i >= 0; i--)
    while(heldb(i)) { Bref[i]--; tickit_renderbuffer_unref(B[i]); }
  while(heldt()) { tt_refs--; tickit_term_unref(tt); }
  while(heldi()) { tk_refs--; tickit_unref(TK); }
  /* the further terminals go last, in the order they were made */
  for(int i = 0; i < nX; i++)
    while(heldx(i)) { Xref[i]--; tickit_term_unref(X[i]); }
}

static int __attribute__((noinline)) leak_check(void)
{
  /* forget every handle so that what is left is unreachable */
  tt = NULL;
  memset(W, 0, sizeof W); memset(P, 0, sizeof P); memset(S, 0, sizeof S); memset(B, 0, sizeof B);
  memset(BEH, 0, sizeof BEH);
  memset(PBEH, 0, sizeof PBEH);
  memset(TBEH, 0, sizeof TBEH);
  memset(WBEH, 0, sizeof WBEH);
  memset(IOBEH, 0, sizeof IOBEH);
  TK = NULL;
  memset(X, 0, sizeof X);
  return __lsan_do_recoverable_leak_check() ? 1 : 0;
}

/* scrub the part of the stack earlier calls have used, so that a stale copy of a pointer there does not
 * hide a leak from LeakSanitizer's conservative scan */
static void __attribute__((noinline)) scrub_stack(void)
{
  volatile char pad[16384];
  for(size_t i = 0; i < sizeof pad; i++) pad[i] = 0;
}

static void copyout_text(int which, int b, int line, int col, long len)
{
  /* the caller's buffer is exactly `len` bytes of heap: one byte more is a redzone hit */
  char *buf = len >= 0 ? malloc(len ? len : 1) : NULL;
  if(buf) memset(buf, 0x55, len ? len : 1);
  /* a zero-length buffer: hand out a pointer to 1 byte but say 0; the canary byte must stay 0x55 */
  size_t ret;
  if(which == 0)
    ret = tickit_renderbuffer_get_cell_text(B[b], line, col, buf, len >= 0 ? (size_t)len : 0);
  else {
    struct TickitRenderBufferSpanInfo info = { 0 };
    ret = tickit_renderbuffer_get_span(B[b], line, col, &info, buf, len >= 0 ? (size_t)len : 0);
    if(ret != (size_t)-1) obs("active=%d cols=%d infolen=%ld ", info.is_active, info.n_columns, info.is_active ? (long)info.len : -2L);
  }
  obs("ret=%ld buf=", (long)ret);
  if(!buf) obs("null");
  else if(len == 0) obs("%s", (unsigned char)buf[0] == 0x55 ? "-" : "canary-overwritten");
  else obs_hex(buf, len);
  free(buf);
}

static void engine_op(int argc, char **argv)
{
  const char *op = argv[0];
#define A(k) (argc > (k) ? atoi(argv[k]) : 0)
  out_reset();
  if(strcmp(op, "newtop") == 0) {
    int lines = argc > 1 ? A(1) : 10, cols = argc > 2 ? A(2) : 20;
    if(pipe(in_fd) != 0) { obs("bad-op"); return; }
    fcntl(in_fd[0], F_SETFL, O_NONBLOCK);
    tt = tickit_term_build(&(struct TickitTermBuilder){ .termtype = "xterm", .open = TICKIT_OPEN_FDS,
        .input_fd = in_fd[0], .output_fd = -1, .output_func = outf });
    tickit_term_set_size(tt, lines, cols);
    TK = tickit_build(&(struct TickitBuilder){ .tt = tt });      /* takes over the reference to tt */
    if(!TK) { obs("bad-op"); return; }
    tk_refs = 1;
    tt = tickit_term_ref(tickit_get_term(TK)); tt_refs = 1;
    W[0] = tickit_window_ref(tickit_get_rootwin(TK)); Wref[0] = 1; Wparent[0] = -1; nW = 1;
    obs("ok"); dump();
    return;
  }
  if(strcmp(op, "new") == 0 || strcmp(op, "newmock") == 0 || strcmp(op, "newin") == 0) {
    int lines = argc > 1 ? A(1) : 10, cols = argc > 2 ? A(2) : 20;
    if(strcmp(op, "newmock") == 0) {
      tt = (TickitTerm *)tickit_mockterm_new(lines, cols);
      is_mock = 1;
    }
    else if(strcmp(op, "newin") == 0) {
      if(pipe(in_fd) != 0) { obs("bad-op"); return; }
      fcntl(in_fd[0], F_SETFL, O_NONBLOCK);
      tt = tickit_term_build(&(struct TickitTermBuilder){ .termtype = "xterm", .open = TICKIT_OPEN_FDS,
          .input_fd = in_fd[0], .output_fd = -1, .output_func = outf });
      tickit_term_set_size(tt, lines, cols);
    }
    else {
      tt = tickit_term_build(&(struct TickitTermBuilder){ .termtype = "xterm", .output_func = outf });
      tickit_term_set_size(tt, lines, cols);
    }
    tt_refs = 1;
    W[0] = tickit_window_new_root(tt); Wref[0] = 1; Wparent[0] = -1; nW = 1;
    obs("ok"); dump();
    return;
  }
  if(!tt && !nW) { obs("bad-op"); return; }

  if(strcmp(op, "win") == 0 && argc == 7) {
    int p = A(1);
    if(!usable(p) || nW >= MAXO) { obs("skip"); dump(); return; }
    int f = A(6), flags = 0;
    if(f & 1) flags |= TICKIT_WINDOW_HIDDEN;
    if(f & 2) flags |= TICKIT_WINDOW_LOWEST;
    if(f & 4) flags |= TICKIT_WINDOW_ROOT_PARENT;
    if(f & 8) flags |= TICKIT_WINDOW_STEAL_INPUT;
    W[nW] = tickit_window_new(W[p], (TickitRect){ .top = A(2), .left = A(3), .lines = A(4), .cols = A(5) }, flags);
    Wref[nW] = 1; Wparent[nW] = widx(tickit_window_parent(W[nW])); Wdetached[nW] = 0; Wconsumed[nW] = 0; nW++;
    obs("ok"); dump();
    return;
  }
  static const struct { const char *name; char kind; } simple[] = {
    { "unref", 'u' }, { "ref", 'r' }, { "close", 'c' }, { "raise", 'R' }, { "raisefront", 'F' },
    { "lower", 'L' }, { "lowerback", 'B' }, { "hide", 'h' }, { "show", 's' }, { "flush", 'f' },
  };
  for(size_t k = 0; k < sizeof simple / sizeof simple[0]; k++)
    if(strcmp(op, simple[k].name) == 0) {
      obs("%s", simple_op(simple[k].kind, A(1), NULL)); dump();
      return;
    }
  if(strcmp(op, "geom") == 0 && argc == 6) {
    int i = A(1);
    if(!usable(i)) { obs("skip"); dump(); return; }
    tickit_window_set_geometry(W[i], (TickitRect){ .top = A(2), .left = A(3), .lines = A(4), .cols = A(5) });
    obs("ok"); dump(); return;
  }
  if(strcmp(op, "kids") == 0 && argc == 3) {
    /* tickit_window_get_children(win, array of exactly N slots, N): N below, at and above the number of children. The
     * array is heap memory of N pointers (one more byte is a redzone hit); for N = 0 one slot is handed out, the length
     * given is 0 and the slot must stay as it was */
    int i = A(1); long n = atol(argv[2]);
    if(!usable(i) || n < 0 || n > 64) { obs("skip"); dump(); return; }
    static int guardobj;
    TickitWindow *guard = (TickitWindow *)&guardobj;
    size_t have = n ? (size_t)n : 1;
    TickitWindow **cs = malloc(have * sizeof *cs);
    for(size_t k = 0; k < have; k++) cs[k] = guard;
    size_t ret = tickit_window_get_children(W[i], cs, (size_t)n);
    obs("ret=%zu count=%zu slots=", ret, tickit_window_children(W[i]));
    for(long k = 0; k < n; k++) {
      if(cs[k] == guard) obs("%s-", k ? "," : "");
      else { int j = widx(cs[k]); if(j < 0) obs("%s?", k ? "," : ""); else obs("%s%d", k ? "," : "", j); }
    }
    if(!n) obs("-");
    obs(" behind=%s", (n == 0 && cs[0] != guard) ? "canary-overwritten" : "untouched");
    free(cs);
    dump(); return;
  }
  if(strcmp(op, "focus") == 0) {
    int i = A(1);
    if(!usable(i)) { obs("skip"); dump(); return; }
    tickit_window_take_focus(W[i]);
    obs("ok"); dump(); return;
  }
  if(strcmp(op, "expose") == 0) {
    int i = A(1);
    if(!usable(i)) { obs("skip"); dump(); return; }
    tickit_window_expose(W[i], NULL);
    obs("ok"); dump(); return;
  }
  if(strcmp(op, "bind") == 0 && argc >= 4) {
    int i = A(1);
    if(!usable(i) || nBEH >= MAXB) { obs("skip"); dump(); return; }
    struct beh *b = &BEH[nBEH++];
    b->used = 1; b->w = i; b->ev = strcmp(argv[2], "mouse") == 0; b->ret = A(3); b->nacts = 0;
    for(int k = 4; k < argc && b->nacts < MAXA; k++) {
      b->acts[b->nacts].kind = argv[k][0];
      b->acts[b->nacts].arg = atoi(argv[k] + 1);
      b->nacts++;
    }
    b->id = tickit_window_bind_event(W[i], b->ev ? TICKIT_WINDOW_ON_MOUSE : TICKIT_WINDOW_ON_KEY, 0, on_event, b);
    obs("id=%d", b->id); dump(); return;
  }
  if(strcmp(op, "unbind") == 0 && argc == 3) {
    int i = A(1);
    if(!usable(i)) { obs("skip"); dump(); return; }
    for(int k = 0; k < nBEH; k++) if(BEH[k].used && BEH[k].w == i && BEH[k].id == A(2)) BEH[k].used = 0;
    tickit_window_unbind_event_id(W[i], A(2));
    obs("ok"); dump(); return;
  }
  if(strcmp(op, "key") == 0) {
    if(!heldt()) { obs("skip"); dump(); return; }
    TickitKeyEventInfo info = { .type = TICKIT_KEYEV_TEXT, .mod = 0, .str = "x" };
    tickit_term_emit_key(tt, &info);
    obs("ok"); dump(); return;
  }
  if(strcmp(op, "mouse") == 0 && argc == 5) {
    if(!heldt()) { obs("skip"); dump(); return; }
    TickitMouseEventInfo info = { .type = A(1), .button = A(2), .line = A(3), .col = A(4), .mod = 0 };
    tickit_term_emit_mouse(tt, &info);
    obs("ok"); dump(); return;
  }
  /* ---- pens */
  if(strcmp(op, "pen") == 0) {
    if(nP >= MAXO) { obs("skip"); dump(); return; }
    P[nP] = tickit_pen_new(); Pref[nP] = 1; nP++;
    obs("ok"); dump(); return;
  }
  if(strcmp(op, "pref") == 0) {
    int i = A(1);
    if(!heldp(i)) { obs("skip"); dump(); return; }
    Pref[i]++; tickit_pen_ref(P[i]); obs("ok"); dump(); return;
  }
  if(strcmp(op, "punref") == 0) {
    int i = A(1);
    if(!heldp(i)) { obs("skip"); dump(); return; }
    Pref[i]--; tickit_pen_unref(P[i]); obs("ok"); dump(); return;
  }
  if(strcmp(op, "pset") == 0 && argc == 3) {
    int i = A(1);
    if(!heldp(i)) { obs("skip"); dump(); return; }
    tickit_pen_set_colour_attr(P[i], TICKIT_PEN_FG, A(2)); obs("ok"); dump(); return;
  }
  if(strcmp(op, "pdesc") == 0 && argc == 3) {
    int i = A(1);
    if(!heldp(i)) { obs("skip"); dump(); return; }
    unsigned char *bytes; long n = hex_decode(argv[2], &bytes);
    if(n < 0) { obs("bad-op"); return; }
    bool r = tickit_pen_set_colour_attr_desc(P[i], TICKIT_PEN_FG, (char *)bytes);
    free(bytes);
    obs("ret=%d", r ? 1 : 0); dump(); return;
  }
  if(strcmp(op, "pcopy") == 0 && argc == 4) {
    int d = A(1), sidx = A(2);
    if(!heldp(d) || !heldp(sidx)) { obs("skip"); dump(); return; }
    tickit_pen_copy(P[d], P[sidx], A(3) != 0);
    obs("ok"); dump(); return;
  }
  if(strcmp(op, "pcopyattr") == 0 && argc == 3) {
    int d = A(1), sidx = A(2);
    if(!heldp(d) || !heldp(sidx)) { obs("skip"); dump(); return; }
    tickit_pen_copy_attr(P[d], P[sidx], TICKIT_PEN_FG);
    obs("ok"); dump(); return;
  }
  if(strcmp(op, "pbind") == 0 && argc >= 2) {
    int i = A(1);
    if(!heldp(i) || nPBEH >= MAXB) { obs("skip"); dump(); return; }
    struct pbeh *b = &PBEH[nPBEH++];
    b->used = 1; b->p = i; b->nacts = 0;
    for(int k = 2; k < argc && b->nacts < MAXA; k++) {
      b->acts[b->nacts].kind = argv[k][0];
      b->acts[b->nacts].arg = atoi(argv[k] + 1);
      b->nacts++;
    }
    b->id = tickit_pen_bind_event(P[i], TICKIT_PEN_ON_CHANGE, 0, on_pen_event, b);
    obs("id=%d", b->id); dump(); return;
  }
  if(strcmp(op, "punbind") == 0 && argc == 3) {
    int i = A(1);
    if(!heldp(i)) { obs("skip"); dump(); return; }
    tickit_pen_unbind_event_id(P[i], A(2));
    obs("ok"); dump(); return;
  }
  if(strcmp(op, "setpen") == 0 && argc == 3) {
    int i = A(1);
    if(!usable(i)) { obs("skip"); dump(); return; }
    if(strcmp(argv[2], "-") == 0) tickit_window_set_pen(W[i], NULL);
    else {
      int p = A(2);
      if(!heldp(p)) { obs("skip"); dump(); return; }
      tickit_window_set_pen(W[i], P[p]);
    }
    obs("ok"); dump(); return;
  }
  /* ---- terminal */
  if(strcmp(op, "tref") == 0) {
    if(!heldt()) { obs("skip"); dump(); return; }
    tt_refs++; tickit_term_ref(tt); obs("ok"); dump(); return;
  }
  if(strcmp(op, "tunref") == 0) {
    if(!heldt()) { obs("skip"); dump(); return; }
    tt_refs--; tickit_term_unref(tt); obs("ok"); dump(); return;
  }
  if(strcmp(op, "tbind") == 0 && argc >= 3) {
    if(!heldt() || nTBEH >= MAXB) { obs("skip"); dump(); return; }
    struct tbeh *b = &TBEH[nTBEH++];
    b->used = 1; b->ev = strcmp(argv[1], "mouse") == 0; b->ret = A(2); b->nacts = 0;
    for(int k = 3; k < argc && b->nacts < MAXA; k++) {
      b->acts[b->nacts].kind = argv[k][0];
      b->acts[b->nacts].arg = atoi(argv[k] + 1);
      b->nacts++;
    }
    b->id = tickit_term_bind_event(tt, b->ev ? TICKIT_TERM_ON_MOUSE : TICKIT_TERM_ON_KEY, 0, on_term_event, b);
    obs("id=%d", b->id); dump(); return;
  }
  if(strcmp(op, "tunbind") == 0 && argc == 2) {
    /* the application unbinds what it has bound */
    int found = -1;
    for(int k = 0; k < nTBEH; k++) if(TBEH[k].used && TBEH[k].id == A(1)) found = k;
    if(!heldt() || found < 0) { obs("skip"); dump(); return; }
    TBEH[found].used = 0;
    tickit_term_unbind_event_id(tt, A(1));
    obs("ok"); dump(); return;
  }
  if(strcmp(op, "tpush") == 0 || strcmp(op, "tread") == 0 || strcmp(op, "twait") == 0 || strcmp(op, "twaitv") == 0) {
    char bytes[512];
    size_t n = tokens_to_bytes(argc, argv, 1, bytes, sizeof bytes);
    if(n == (size_t)-1) { obs("bad-op"); return; }
    if(!heldt() || (op[1] != 'p' && in_fd[0] < 0)) { obs("skip"); dump(); return; }
    if(op[1] == 'p') tickit_term_input_push_bytes(tt, bytes, n);
    else {
      if(n && write(in_fd[1], bytes, n) != (ssize_t)n) { obs("bad-op"); return; }
      if(op[1] == 'r') tickit_term_input_readable(tt);
      else if(op[5] == 'v') tickit_term_input_wait_tv(tt, &(struct timeval){ 0, 0 });
      else tickit_term_input_wait_msec(tt, 0);
    }
    obs("ok"); dump(); return;
  }
  if(strcmp(op, "tcheck") == 0) {
    if(!heldt()) { obs("skip"); dump(); return; }
    int r = tickit_term_input_check_timeout_msec(tt);
    obs("ret=%d", r); dump(); return;
  }
  /* ---- the output side of the main terminal, through the real xterm driver: the output buffer (installed, grown, shrunk,
   * removed with output pending), printing, cursor movement, flushing; the capabilities the driver takes from the terminal's
   * DECRQSS reply; tickit_term_setpen / tickit_term_chpen with pens that carry every attribute */
  if((strcmp(op, "tbuf") == 0 && argc == 2) || (strcmp(op, "tprint") == 0 && argc == 2) || (strcmp(op, "tgoto") == 0 && argc == 3) ||
     (strcmp(op, "tflush") == 0 && argc == 1)) {
    if(is_mock || !heldt()) { obs("skip"); dump(); return; }
    if(op[1] == 'b') tickit_term_set_output_buffer(tt, (size_t)atol(argv[1]));
    else if(op[1] == 'p') {
      unsigned char *bytes; long n = hex_decode(argv[1], &bytes);
      if(n < 0) { obs("bad-op"); return; }
      tickit_term_printn(tt, (char *)bytes, n);
      free(bytes);
    }
    else if(op[1] == 'g') tickit_term_goto(tt, A(1), A(2));
    else tickit_term_flush(tt);
    obs("ok"); obs_out(); dump(); return;
  }
  if(strcmp(op, "tcaps") == 0 && argc == 4) {
    if(is_mock || !heldt()) { obs("skip"); dump(); return; }
    int rgb8 = A(1), colon = A(2), via_ctl = strcmp(argv[3], "ctl") == 0;
    char reply[64];
    snprintf(reply, sizeof reply, (rgb8 && !via_ctl) ? "\033P1$r38%c2%c0%c1%c2m\033\\" : "\033P1$r38%c5%c255m\033\\",
        colon ? ':' : ';', colon ? ':' : ';', colon ? ':' : ';', colon ? ':' : ';');
    tickit_term_input_push_bytes(tt, reply, strlen(reply));
    if(via_ctl) tickit_term_setctl_int(tt, tickit_termctl_lookup("xterm.cap_rgb8"), rgb8);
    int v_rgb8 = -1, v_colon = -1;
    tickit_term_getctl_int(tt, tickit_termctl_lookup("xterm.cap_rgb8"), &v_rgb8);
    tickit_term_getctl_int(tt, tickit_termctl_lookup("xterm.cap_csi_sub_colon"), &v_colon);
    obs("ok rgb8=%d colon=%d", v_rgb8, v_colon); dump(); return;
  }
  if((strcmp(op, "tsetpen") == 0 || strcmp(op, "tchpen") == 0) && argc == 2) {
    if(is_mock || !heldt()) { obs("skip"); dump(); return; }
    TickitPen *pen = parse_pen(argv[1]);
    if(!pen) { obs("bad-op"); return; }
    if(op[1] == 's') tickit_term_setpen(tt, pen); else tickit_term_chpen(tt, pen);
    tickit_pen_unref(pen);
    char buf[512];
    fmt_pen(buf, sizeof buf, tickit_termdrv_current_pen(tickit_term_get_driver(tt)));
    obs("ok"); obs_out(); obs(" pen=%s", buf); dump(); return;
  }
  /* ---- SIGWINCH observers: the main terminal (`tobs`) and the further ones (`xnew`, `xobs`, `xref`, `xunref`), and
   * the signal itself (`winch`).  A walk of the observer list that never ends is cut short by the alarm (0.3 s). */
  if(strcmp(op, "xnew") == 0) {
    if(nX >= MAXX) { obs("skip"); dump(); return; }
    X[nX] = tickit_term_build(&(struct TickitTermBuilder){ .termtype = "xterm", .output_func = outf }); Xref[nX] = 1; nX++;
    obs("ok"); dump(); return;
  }
  if(strcmp(op, "xref") == 0 && argc == 2) {
    int i = A(1);
    if(!heldx(i)) { obs("skip"); dump(); return; }
    Xref[i]++; tickit_term_ref(X[i]); obs("ok"); dump(); return;
  }
  if(strcmp(op, "xunref") == 0 && argc == 2) {
    int i = A(1);
    if(!heldx(i)) { obs("skip"); dump(); return; }
    ualarm(300000, 0);
    Xref[i]--; tickit_term_unref(X[i]);
    alarm(60);
    obs("ok h=%d", winch_handled()); dump(); return;
  }
  if((strcmp(op, "xobs") == 0 && argc == 3) || (strcmp(op, "tobs") == 0 && argc == 2)) {
    int isx = op[0] == 'x', i = isx ? A(1) : -1;
    if(isx ? !heldx(i) : !heldt()) { obs("skip"); dump(); return; }
    ualarm(300000, 0);
    tickit_term_observe_sigwinch(isx ? X[i] : tt, A(isx ? 2 : 1) != 0);
    alarm(60);
    obs("ok h=%d", winch_handled()); dump(); return;
  }
  if(strcmp(op, "winch") == 0) {
    ualarm(300000, 0);
    raise(SIGWINCH);
    alarm(60);
    obs("ok h=%d", winch_handled()); dump(); return;
  }
  if(strcmp(op, "tsetin") == 0) {
    /* tickit_term_set_input_fd on a terminal that reads from the pipe already: the same descriptor again */
    if(!heldt() || in_fd[0] < 0) { obs("skip"); dump(); return; }
    tickit_term_set_input_fd(tt, in_fd[0]);
    obs("ok fd=%d", tickit_term_get_input_fd(tt) == in_fd[0]); dump(); return;
  }
  if(strcmp(op, "tick") == 0 && argc == 2) { fake_ms += A(1); obs("ok"); dump(); return; }
  /* ---- the toplevel instance */
  if(strcmp(op, "iref") == 0) {
    if(!heldi()) { obs("skip"); dump(); return; }
    tk_refs++; tickit_ref(TK); obs("ok"); dump(); return;
  }
  if(strcmp(op, "iunref") == 0) {
    if(!heldi()) { obs("skip"); dump(); return; }
    tk_refs--; tickit_unref(TK); obs("ok"); dump(); return;
  }
  if((strcmp(op, "ilater") == 0 && argc >= 1) || ((strcmp(op, "itimer") == 0 || strcmp(op, "itimerat") == 0) && argc >= 2)) {
    if(!heldi() || nWBEH >= MAXB) { obs("skip"); dump(); return; }
    struct wbeh *b = &WBEH[nWBEH++];
    b->used = 1; b->timer = op[1] == 't'; b->pending = 1; b->nacts = 0;
    for(int k = b->timer ? 2 : 1; k < argc && b->nacts < MAXA; k++) {
      b->acts[b->nacts].kind = argv[k][0];
      b->acts[b->nacts].arg = atoi(argv[k] + 1);
      b->nacts++;
    }
    if(b->timer && op[6] == 'a') { struct timeval at = clock_at(A(1)); b->watch = tickit_watch_timer_at_tv(TK, &at, 0, on_watch, b); }
    else if(b->timer) b->watch = tickit_watch_timer_after_msec(TK, A(1), 0, on_watch, b);
    else b->watch = tickit_watch_later(TK, 0, on_watch, b);
    obs("ok"); dump(); return;
  }
  if(strcmp(op, "icancel") == 0 && argc == 2) {
    int k = A(1);
    if(!heldi() || k < 0 || k >= nWBEH || !WBEH[k].pending) { obs("skip"); dump(); return; }
    WBEH[k].pending = 0;
    tickit_watch_cancel(TK, WBEH[k].watch);
    obs("ok"); dump(); return;
  }
  if(strcmp(op, "iproc") == 0 && argc == 2) {
    if(!heldi() || nPRBEH >= MAXPR) { obs("skip"); dump(); return; }
    int exited = A(1) != 0;
    fflush(NULL);
    pid_t pid = fork();
    if(pid < 0) { obs("bad-op"); return; }
    if(pid == 0) {
      /* the child keeps none of the harness's descriptors (a harness that dies must not leave its pipes held open) */
      for(int fd = 0; fd < 256; fd++) close(fd);
      if(exited) _exit(7);
      alarm(20); for(;;) pause();
    }
    if(exited) { siginfo_t si; memset(&si, 0, sizeof si); if(waitid(P_PID, pid, &si, WEXITED | WNOWAIT) != 0) { obs("bad-op"); return; } }
    struct prbeh *b = &PRBEH[nPRBEH++];
    b->pending = 1; b->fired = 0; b->live = !exited; b->pid = pid;
    b->watch = tickit_watch_process(TK, pid, 0, on_proc, b);
    obs("ok"); dump(); return;
  }
  if(strcmp(op, "iproccancel") == 0 && argc == 2) {
    int k = A(1);
    if(!heldi() || k < 0 || k >= nPRBEH || !PRBEH[k].pending) { obs("skip"); dump(); return; }
    PRBEH[k].pending = 0;
    tickit_watch_cancel(TK, PRBEH[k].watch);
    proc_reap(&PRBEH[k]);
    obs("ok"); dump(); return;
  }
  if(strcmp(op, "iio") == 0 && argc >= 2) {
    struct act acts[MAXA]; int n = 0;
    for(int k = 2; k < argc && n < MAXA; k++) { acts[n].kind = argv[k][0]; acts[n].arg = atoi(argv[k] + 1); n++; }
    if(!io_register(A(1), n, acts)) { obs("skip"); dump(); return; }
    obs("ok"); dump(); return;
  }
  if(strcmp(op, "iiocancel") == 0 && argc == 2) {
    if(!io_cancel(A(1))) { obs("skip"); dump(); return; }
    obs("ok"); dump(); return;
  }
  if(strcmp(op, "itick") == 0) {
    char bytes[512];
    size_t n = tokens_to_bytes(argc, argv, 1, bytes, sizeof bytes);
    if(n == (size_t)-1) { obs("bad-op"); return; }
    if(!heldi()) { obs("skip"); dump(); return; }
    if(n && write(in_fd[1], bytes, n) != (ssize_t)n) { obs("bad-op"); return; }
    /* what is queued for the windows is carried out first, so that the order in which the instance's deferred
     * calls run does not show in the window tree (Model/LifeTop.lean) */
    tickit_window_flush(tickit_get_rootwin(TK));
    tickit_tick(TK, TICKIT_RUN_NOHANG | TICKIT_RUN_NOSETUP);
    /* the process watches that fired in this turn, after everything else (Model/LifeProc.lean) */
    for(int k = 0; k < nPRBEH; k++) if(PRBEH[k].fired) { PRBEH[k].fired = 0; obs("C%d ", k); }
    obs("ok"); dump(); return;
  }
  /* ---- strings */
  if(strcmp(op, "str") == 0 && argc == 2) {
    unsigned char *bytes; long n = hex_decode(argv[1], &bytes);
    if(n < 0 || nS >= MAXO) { obs("bad-op"); return; }
    S[nS] = tickit_string_new((char *)bytes, n); Sref[nS] = 1; nS++;
    free(bytes);
    obs("ok"); dump(); return;
  }
  if(strcmp(op, "sref") == 0) {
    int i = A(1);
    if(!helds(i)) { obs("skip"); dump(); return; }
    Sref[i]++; tickit_string_ref(S[i]); obs("ok"); dump(); return;
  }
  if(strcmp(op, "sunref") == 0) {
    int i = A(1);
    if(!helds(i)) { obs("skip"); dump(); return; }
    Sref[i]--; tickit_string_unref(S[i]); obs("ok"); dump(); return;
  }
  if(strcmp(op, "sget") == 0) {
    int i = A(1);
    if(!helds(i)) { obs("skip"); dump(); return; }
    size_t n = tickit_string_len(S[i]);
    obs("len=%zu bytes=", n); obs_hex(tickit_string_get(S[i]), n);
    obs(" nul=%d", tickit_string_get(S[i])[n] == 0);
    dump(); return;
  }
  /* ---- render buffers */
  if(strcmp(op, "rb") == 0 && argc == 3) {
    if(nB >= MAXO) { obs("skip"); dump(); return; }
    B[nB] = tickit_renderbuffer_new(A(1), A(2)); Bref[nB] = 1; nB++;
    obs("ok"); dump(); return;
  }
  if(op[0] == 'b' && argc >= 2) {
    int i = A(1);
    if(!heldb(i)) { obs("skip"); dump(); return; }
    TickitRenderBuffer *rb = B[i];
    if(strcmp(op, "bref") == 0) { Bref[i]++; tickit_renderbuffer_ref(rb); obs("ok"); }
    else if(strcmp(op, "bunref") == 0) { Bref[i]--; tickit_renderbuffer_unref(rb); obs("ok"); }
    else if(strcmp(op, "btext") == 0 && argc == 5) {
      unsigned char *bytes; long n = hex_decode(argv[4], &bytes);
      if(n < 0) { obs("bad-op"); return; }
      int r = tickit_renderbuffer_textn_at(rb, A(2), A(3), (char *)bytes, n);
      free(bytes);
      obs("ret=%d", r);
    }
    else if((strcmp(op, "btextf") == 0 || strcmp(op, "btextc") == 0) && argc == 5) {
      /* the same text through the other entry points of put_text: textf_at (put_vtextf, both the 64-byte stack
       * buffer and rb->tmp) and goto + textn (virtual cursor) */
      unsigned char *bytes; long n = hex_decode(argv[4], &bytes);
      if(n < 0) { obs("bad-op"); return; }
      int r;
      if(op[5] == 'f') r = tickit_renderbuffer_textf_at(rb, A(2), A(3), "%s", (char *)bytes);
      else { tickit_renderbuffer_goto(rb, A(2), A(3)); r = tickit_renderbuffer_textn(rb, (char *)bytes, n); }
      free(bytes);
      obs("ret=%d", r);
    }
    else if(strcmp(op, "berase") == 0 && argc == 5) { tickit_renderbuffer_erase_at(rb, A(2), A(3), A(4)); obs("ok"); }
    else if(strcmp(op, "bskip") == 0 && argc == 5) { tickit_renderbuffer_skip_at(rb, A(2), A(3), A(4)); obs("ok"); }
    else if(strcmp(op, "bchar") == 0 && argc == 5) { tickit_renderbuffer_char_at(rb, A(2), A(3), A(4)); obs("ok"); }
    else if(strcmp(op, "bhline") == 0 && argc == 5) { tickit_renderbuffer_hline_at(rb, A(2), A(3), A(4), TICKIT_LINE_SINGLE, 0); obs("ok"); }
    else if(strcmp(op, "bclear") == 0) { tickit_renderbuffer_clear(rb); obs("ok"); }
    else if(strcmp(op, "breset") == 0) { tickit_renderbuffer_reset(rb); obs("ok"); }
    else if(strcmp(op, "bsave") == 0) { tickit_renderbuffer_save(rb); obs("ok"); }
    else if(strcmp(op, "bsavepen") == 0) { tickit_renderbuffer_savepen(rb); obs("ok"); }
    else if(strcmp(op, "brestore") == 0) { tickit_renderbuffer_restore(rb); obs("ok"); }
    else if(strcmp(op, "bsetpen") == 0 && argc == 3) {
      if(strcmp(argv[2], "-") == 0) tickit_renderbuffer_setpen(rb, NULL);
      else { int p = A(2); if(!heldp(p)) { obs("skip"); dump(); return; } tickit_renderbuffer_setpen(rb, P[p]); }
      obs("ok");
    }
    else if(strcmp(op, "bflush") == 0) {
      if(!heldt()) { obs("skip"); dump(); return; }
      tickit_renderbuffer_flush_to_term(rb, tt); obs("ok fresh=%ld", out_fresh);
    }
    else if(strcmp(op, "bblit") == 0 && argc == 3) {
      int s = A(2); if(!heldb(s)) { obs("skip"); dump(); return; }
      tickit_renderbuffer_blit(rb, B[s]); obs("ok");
    }
    else if(strcmp(op, "bcell") == 0 && argc == 5) copyout_text(0, i, A(2), A(3), atol(argv[4]));
    else if(strcmp(op, "bspan") == 0 && argc == 5) copyout_text(1, i, A(2), A(3), atol(argv[4]));
    else { obs("bad-op"); return; }
    dump(); return;
  }
  if(strcmp(op, "mprint") == 0 && argc == 4) {
    /* tickit_term_goto + tickit_term_printn on the mock terminal: cells of several bytes for mdisp to walk.
     * mtd_print does not return on a text the width counter rejects: such a line is skipped */
    if(!is_mock || !heldt()) { obs("skip"); dump(); return; }
    unsigned char *bytes; long n = hex_decode(argv[3], &bytes);
    if(n < 0) { obs("bad-op"); return; }
    TickitStringPos endpos;
    if(tickit_utf8_ncount((char *)bytes, n, &endpos, NULL) != (size_t)n) { free(bytes); obs("skip"); dump(); return; }
    tickit_term_goto(tt, A(1), A(2));
    tickit_term_printn(tt, (char *)bytes, n);
    free(bytes);
    obs("ok"); dump(); return;
  }
  if(strcmp(op, "mresize") == 0 && argc == 3) {
    /* tickit_mockterm_resize: rows and columns dropped, kept and added in one call; the terminal reports the new
     * size (and tells the root window, if there still is one) */
    if(!is_mock || !heldt()) { obs("skip"); dump(); return; }
    tickit_mockterm_resize((TickitMockTerm *)tt, A(1), A(2));
    int l = -1, c = -1;
    tickit_term_get_size(tt, &l, &c);
    obs("ok size=%dx%d", l, c); dump(); return;
  }
  if(strcmp(op, "mdisp") == 0 && argc == 5) {
    /* tickit_mockterm_get_display_text(buffer of exactly LEN bytes, LEN, line, col, width) */
    if(!is_mock || !heldt()) { obs("skip"); dump(); return; }
    {
      /* a well-behaved application asks for cells of the screen as it is now (after tickit_mockterm_resize) */
      int tl = 0, tc = 0;
      tickit_term_get_size(tt, &tl, &tc);
      if(A(2) < 0 || A(2) >= tl || A(3) < 0 || A(4) < 0 || A(3) + A(4) > tc) { obs("skip"); dump(); return; }
    }
    long len = atol(argv[1]);
    char *buf = len >= 0 ? malloc(len ? len : 1) : NULL;
    if(buf) memset(buf, 0x55, len ? len : 1);
    size_t ret = tickit_mockterm_get_display_text((TickitMockTerm *)tt, buf, len >= 0 ? len : 0, A(2), A(3), A(4));
    obs("ret=%zu buf=", ret);
    if(!buf) obs("null");
    else if(len == 0) obs("%s", (unsigned char)buf[0] == 0x55 ? "-" : "canary-overwritten");
    else obs_hex(buf, len);
    free(buf);
    dump(); return;
  }
  if(strcmp(op, "end") == 0) {
    drop_all();
    for(int k = 0; k < nPRBEH; k++) proc_reap(&PRBEH[k]);
    obs("end");
    dump();
    scrub_stack();
    int leak = leak_check();
    obs(" leak=%d", leak);
    return;
  }
  obs("bad-op");
}
