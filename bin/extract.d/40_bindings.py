"""Extractor plugin: bindings.c / tickit.h facts for C16 (flag bits, BINDING_ID_TOMBSTONE, event indices,
which flag constants the code tests, and which of the C16 repairs the working tree contains)."""
import re


def _enum_values(text, prefix):
    """Values of the enum constants starting with `prefix` from an enum body in `text` (explicit `= expr` or
    implicit previous+1)."""
    out = {}
    for m in re.finditer(r"enum\s*\w*\s*\{(.*?)\}", text, flags=re.S):
        val = -1
        for item in m.group(1).split(","):
            item = item.strip()
            if not item:
                continue
            mm = re.match(r"(\w+)\s*(?:=\s*(.+))?$", item, flags=re.S)
            if not mm:
                break
            name, expr = mm.group(1), mm.group(2)
            if expr is not None:
                e = expr.strip()
                if not re.fullmatch(r"[\s\d()<|+\-x0-9a-fA-F]+", e):
                    # refers to another constant: only resolve the ones we have seen
                    for k, v in sorted(out.items(), key=lambda kv: -len(kv[0])):
                        e = re.sub(r"\b" + k + r"\b", str(v), e)
                    if not re.fullmatch(r"[\s\d()<|+\-x0-9a-fA-F]+", e):
                        val = None
                        continue
                try:
                    val = int(eval(e, {"__builtins__": {}}))
                except Exception:
                    val = None
                    continue
            else:
                val = None if val is None else val + 1
            if name.startswith(prefix) and val is not None:
                out[name] = val
    return out


def _body(text, name):
    m = re.search(r"\b" + name + r"\s*\([^;{]*\)\s*\{", text)
    if not m:
        return None
    i, depth = m.end(), 1
    while depth and i < len(text):
        depth += {"{": 1, "}": -1}.get(text[i], 0)
        i += 1
    return text[m.end():i - 1]


def _functions(text):
    """(name, body) of every top-level function definition of a (comment-stripped) C file."""
    out, depth, start, last = [], 0, 0, 0
    for i, ch in enumerate(text):
        if ch == "{":
            if depth == 0:
                start = i
                header = text[last:i]
            depth += 1
        elif ch == "}":
            depth -= 1
            if depth == 0:
                m = re.search(r"(\w+)\s*\([^()]*(?:\([^()]*\)[^()]*)*\)\s*$", header)
                if m and not re.search(r"\b(struct|enum|union)\b[^()]*$", header) and "=" not in header.split("(")[0]:
                    out.append((m.group(1), text[start + 1:i]))
                last = i + 1
        elif ch == ";" and depth == 0:
            last = i + 1
    return out


def _mask(expr, consts):
    """Value of `A|B|C` over known constants; None when something else occurs."""
    v = 0
    for n in re.split(r"\s*\|\s*", expr.strip()):
        n = n.strip()
        if n not in consts:
            return None
        v |= consts[n]
    return v


def run(ctx):
    src, strip, write, info = ctx.src, ctx.strip_c_comments, ctx.write, ctx.info
    hdr = strip(src("include/tickit.h"))
    c = strip(src("src/bindings.c"))
    consts = {}
    consts.update(_enum_values(hdr, "TICKIT_BIND_"))
    consts.update(_enum_values(hdr, "TICKIT_EV_"))
    evs = {}
    for p in ("TICKIT_PEN_ON_", "TICKIT_TERM_ON_", "TICKIT_WINDOW_ON_"):
        evs.update(_enum_values(hdr, p))
    miss = []

    def need(d, k):
        if k not in d:
            miss.append(k)
            return 0
        return d[k]

    m = re.search(r"#define\s+BINDING_ID_TOMBSTONE\s+(-?\d+)", c)
    tomb = int(m.group(1)) if m else None
    if tomb is None:
        miss.append("BINDING_ID_TOMBSTONE")
        tomb = 0

    run_b = _body(c, "tickit_bindings_run_event") or ""
    wf_b = _body(c, "tickit_bindings_run_event_whilefalse") or ""
    bind_b = _body(c, "tickit_bindings_bind_event") or ""
    unb_b = _body(c, "tickit_bindings_unbind_event_id") or ""
    des_b = _body(c, "tickit_bindings_unbind_and_destroy") or ""
    for nme, b in (("run_event", run_b), ("run_event_whilefalse", wf_b), ("bind_event", bind_b), ("unbind_event_id", unb_b), ("unbind_and_destroy", des_b)):
        if not b:
            miss.append("body:" + nme)

    # the mask kept by bind_event
    m = re.search(r"->flags\s*=\s*flags\s*&\s*\(([^)]*)\)", bind_b)
    kept = _mask(m.group(1), consts) if m else None
    # the constant tested before the unbind notification, and the flags passed
    m = re.search(r"bind->flags\s*&\s*(TICKIT_\w+)", unb_b)
    unb_test = consts.get(m.group(1)) if m else None
    m = re.search(r"\(\s*owner\s*,\s*([A-Z_|\s]+?)\s*,\s*NULL", unb_b)
    unb_call = _mask(m.group(1), consts) if m else None
    m = re.search(r"bind->flags\s*&\s*\(([^)]*)\)", des_b)
    des_test = _mask(m.group(1), consts) if m else None
    m = re.search(r"\(\s*owner\s*,\s*([A-Z_|\s]+?)\s*,\s*NULL", des_b)
    des_call = _mask(m.group(1), consts) if m else None
    m = re.search(r"bind->evindex\s*==\s*(\d+)", des_b)
    des_ev = int(m.group(1)) if m else None
    # one-shot: the flag added to TICKIT_EV_FIRE
    m = re.search(r"flags\s*\|=\s*(\w+)", run_b)
    one_add = consts.get(m.group(1)) if m else None
    for k, v in (("kept_mask", kept), ("unbind_test", unb_test), ("unbind_call", unb_call), ("destroy_test", des_test),
                 ("destroy_call", des_call), ("destroy_evindex", des_ev), ("oneshot_adds", one_add)):
        if v is None:
            miss.append(k)

    # which repairs are present
    skip_re = r"bind->id\s*!=\s*BINDING_ID_TOMBSTONE|bind->id\s*==\s*BINDING_ID_TOMBSTONE"
    skip = [bool(re.search(skip_re, b)) for b in (run_b, wf_b)]
    wf_oneshot = "TICKIT_BIND_ONESHOT" in wf_b
    # the unbind notification is the last thing unbind_event_id does with the binding: after free(bind), followed by return
    m_free, m_call = unb_b.find("free("), unb_b.find("TICKIT_EV_UNBIND, NULL")
    notify_last = 0 <= m_free < m_call and bool(re.search(r"TICKIT_EV_UNBIND, NULL[^;]*;\s*return\s*;", unb_b))
    if len(set(skip)) != 1:
        miss.append("tombstone-test-mixed:" + "".join("1" if s else "0" for s in skip))

    # do the owners' emitters hold a reference on the owner while its handlers run?  (fixes/C16_emitter_ref.patch)
    def emitters_hold_ref(rel, prefix, must):
        try:
            t = strip(src(rel))
        except OSError:
            return False
        ok = True
        for fn in must:
            body = _body(t, fn)
            if not body or (prefix + "_ref(" not in body and prefix + "_unref(" not in body and "emit_change(" not in body):
                ok = False
        return ok
    pen_ref = emitters_hold_ref("src/pen.c", "tickit_pen", ["changed", "thaw", "tickit_pen_set_colour_attr"]) and \
        "tickit_pen_ref(" in (_body(strip(src("src/pen.c")), "emit_change") or _body(strip(src("src/pen.c")), "changed") or "")
    term_ref = emitters_hold_ref("src/term.c", "tickit_term", ["tickit_term_set_size", "tickit_term_emit_key", "tickit_term_emit_mouse",
                                                                  "tickit_term_input_push_bytes", "tickit_term_input_readable"])

    # window.c as a client of the terminal's bindings: what the root window binds, which functions bind and unbind
    try:
        wsrc = strip(src("src/window.c"))
    except OSError:
        wsrc = ""
    wfuncs = _functions(wsrc)
    bind_sites = [n for n, body in wfuncs if "tickit_term_bind_event(" in body]
    unbind_sites = [n for n, body in wfuncs if "tickit_term_unbind_event_id(" in body]
    root_binds, root_bind_idx, root_unbind_idx = [], [], []
    for n, body in wfuncs:
        for m in re.finditer(r"event_ids\[(\d+)\]\s*=\s*tickit_term_bind_event\(\s*\w+\s*,\s*(\w+)\s*,\s*([\w|\s]+?)\s*,", body):
            evn, fl = m.group(2), m.group(3).strip()
            flv = 0 if fl == "0" else _mask(fl, consts)
            if evn not in evs or flv is None:
                miss.append("root-bind:" + evn + ":" + fl)
                continue
            root_binds.append((evs[evn], flv)); root_bind_idx.append(int(m.group(1)))
        for m in re.finditer(r"tickit_term_unbind_event_id\(\s*[\w>-]+\s*,\s*\w+->event_ids\[(\d+)\]\s*\)", body):
            root_unbind_idx.append(int(m.group(1)))
    n_unbind_calls = len(re.findall(r"tickit_term_unbind_event_id\(", wsrc))
    if n_unbind_calls != len(root_unbind_idx):
        miss.append("root-unbind-calls:%d/%d" % (len(root_unbind_idx), n_unbind_calls))

    def b(x):
        return "true" if x else "false"

    body = "namespace Tickit.Gen.Bindings\n"
    for k in ("TICKIT_BIND_FIRST", "TICKIT_BIND_UNBIND", "TICKIT_BIND_DESTROY", "TICKIT_BIND_ONESHOT",
              "TICKIT_EV_FIRE", "TICKIT_EV_UNBIND", "TICKIT_EV_DESTROY"):
        body += f"def {k} : Nat := {need(consts, k)}\n"
    for k in ("TICKIT_PEN_ON_DESTROY", "TICKIT_PEN_ON_CHANGE", "TICKIT_TERM_ON_DESTROY", "TICKIT_TERM_ON_RESIZE",
              "TICKIT_TERM_ON_KEY", "TICKIT_TERM_ON_MOUSE", "TICKIT_WINDOW_ON_DESTROY", "TICKIT_WINDOW_ON_GEOMCHANGE",
              "TICKIT_WINDOW_ON_EXPOSE", "TICKIT_WINDOW_ON_FOCUS", "TICKIT_WINDOW_ON_KEY", "TICKIT_WINDOW_ON_MOUSE"):
        body += f"def {k} : Int := {need(evs, k)}\n"
    body += f"def BINDING_ID_TOMBSTONE : Int := {tomb}\n"
    body += f"/-- `flags & (...)` kept by bind_event -/\ndef keptMask : Nat := {kept or 0}\n"
    body += f"/-- constant tested on `bind->flags` before the unbind notification -/\ndef unbindTest : Nat := {unb_test or 0}\n"
    body += f"def unbindCallFlags : Nat := {unb_call or 0}\n"
    body += f"def destroyTest : Nat := {des_test or 0}\n"
    body += f"def destroyCallFlags : Nat := {des_call or 0}\n"
    body += f"def destroyEvindex : Int := {des_ev if des_ev is not None else -99}\n"
    body += f"def oneshotAdds : Nat := {one_add or 0}\n"
    body += "/-- which of the C16 repairs the working tree contains (read from the source text) -/\n"
    body += f"def skipTomb : Bool := {b(all(skip))}\n"
    body += f"def wfOneshot : Bool := {b(wf_oneshot)}\n"
    body += f"def notifyLast : Bool := {b(notify_last)}\n"
    body += "/-- the emitters of pen.c / term.c hold a reference on the owner while its handlers run -/\n"
    body += f"def penEmitterRef : Bool := {b(pen_ref)}\n"
    body += f"def termEmitterRef : Bool := {b(term_ref)}\n"
    body += "/-- window.c as a client of the terminal's bindings: (event, flags) of the handlers `root->event_ids[i] = tickit_term_bind_event(…)`\n"
    body += "    binds, the indices `i` in source order, the indices handed to `tickit_term_unbind_event_id` in source order, and the\n"
    body += "    functions of window.c that call `tickit_term_bind_event` / `tickit_term_unbind_event_id` -/\n"
    body += "def rootBinds : List (Int × Nat) := [" + ", ".join("(%d, %d)" % x for x in root_binds) + "]\n"
    body += "def rootBindIdx : List Nat := [" + ", ".join(str(x) for x in root_bind_idx) + "]\n"
    body += "def rootUnbindIdx : List Nat := [" + ", ".join(str(x) for x in root_unbind_idx) + "]\n"
    body += "def rootBindSites : List String := [" + ", ".join('"%s"' % x for x in bind_sites) + "]\n"
    body += "def rootUnbindSites : List String := [" + ", ".join('"%s"' % x for x in unbind_sites) + "]\n"
    body += "end Tickit.Gen.Bindings\n"
    write("Bindings", body)
    info["bindings"] = {"consts": consts, "tombstone": tomb, "kept_mask": kept, "unbind_test": unb_test, "destroy_test": des_test,
                        "repairs_present": {"skipTomb": all(skip), "wfOneshot": wf_oneshot, "notifyLast": notify_last,
                                            "penEmitterRef": pen_ref, "termEmitterRef": term_ref}}
    for x in miss:
        info["untranslatable"].append("bindings:" + x)
