"""Extractor plugin: pen.c / tickit.h facts for C19 (engine `pen`) -> lean/Tickit/Gen/PenLayout.lean.

Read from the source text on every run:
  * every bit-field of `struct TickitPen` (value fields and the nested `valid` struct): width and signedness;
  * the enums TickitPenAttr (with TICKIT_N_PEN_ATTRS), TickitType / TickitPenAttrType, TickitPenUnderline,
    TickitPenSizePosition and the *_DESC pseudo attributes;
  * `tickit_penattr_type` as a table attr code -> type code (the `switch` with fall-through labels);
  * the `colournames[]` table of the description parser, `COLOUR_DEFAULT`.
Anything that cannot be read is emitted as width 0 / empty table (so that the proof obligations that depend on
it break) and recorded in `untranslatable`.
"""
import re

VALUE_FIELDS = ["fgindex", "bgindex", "bold", "italic", "reverse", "strike", "blink", "sizepos", "under", "altfont"]
VALID_FIELDS = ["fgindex", "bgindex", "fg_rgb8", "bg_rgb8", "bold", "under", "italic", "reverse", "strike", "altfont", "blink", "sizepos"]
ATTRS = ["FG", "BG", "BOLD", "UNDER", "ITALIC", "REVERSE", "STRIKE", "ALTFONT", "BLINK", "SIZEPOS"]


def brace_body(text, start):
    """text[start] is just after an opening brace; returns (body, index after the closing brace)."""
    i, depth = start, 1
    while depth and i < len(text):
        depth += {"{": 1, "}": -1}.get(text[i], 0)
        i += 1
    return text[start:i - 1], i


def parse_bitfields(body):
    """`signed int a : 9, b : 9; unsigned int c : 1;` -> {name: (width, signed)}; non-bit-field members ignored."""
    out = {}
    for decl in body.split(";"):
        decl = " ".join(decl.split())
        m = re.match(r"^(signed |unsigned )?int (.+)$", decl)
        if not m:
            continue
        signed = (m.group(1) or "signed ").strip() == "signed"   # plain `int` bit-fields are signed with gcc
        for d in m.group(2).split(","):
            mm = re.match(r"^\s*(\w+)\s*:\s*(\d+)\s*$", d)
            if mm:
                out[mm.group(1)] = (int(mm.group(2)), signed)
    return out


def parse_enums(text):
    """All `enum { A, B = expr, ... }` bodies of a header: {name: value}.  expr: literal, name, or sum of those."""
    vals = {}

    def ev(e):
        total = 0
        for sign, term in re.findall(r"([+-]?)\s*(0[xX][0-9a-fA-F]+|\d+|[A-Za-z_]\w*)", e):
            if re.match(r"0[xX]", term):
                v = int(term, 16)
            elif term.isdigit():
                v = int(term)
            else:
                v = vals[term]
            total += -v if sign == "-" else v
        return total

    for m in re.finditer(r"\benum\b[^{;]*\{", text):
        body, _ = brace_body(text, m.end())
        nxt = 0
        for item in body.split(","):
            item = item.strip()
            if not item:
                continue
            mm = re.match(r"^(\w+)\s*(?:=\s*(.+))?$", item, flags=re.S)
            if not mm:
                continue
            try:
                v = ev(mm.group(2)) if mm.group(2) else nxt
            except KeyError:
                continue
            vals[mm.group(1)] = v
            nxt = v + 1
    return vals


def parse_type_switch(pen, enums):
    """tickit_penattr_type: labels accumulate until a `return X;`; returns ({attr code: type code}, default)."""
    m = re.search(r"TickitPenAttrType\s+tickit_penattr_type\s*\([^)]*\)\s*\{", pen)
    if not m:
        return None, None
    body, _ = brace_body(pen, m.end())
    sw = re.search(r"switch\s*\(\s*attr\s*\)\s*\{", body)
    if not sw:
        return None, None
    sbody, send = brace_body(body, sw.end())

    def val(e):
        e = e.strip()
        if re.match(r"^-?\d+$", e):
            return int(e)
        return enums[e]

    table, pending = {}, []
    for tok in re.finditer(r"case\s+(\w+)\s*:|default\s*:|return\s+([^;]+);", sbody):
        if tok.group(1):
            pending.append(tok.group(1))
        elif tok.group(2):
            for lab in pending:
                table[enums[lab]] = val(tok.group(2))
            pending = []
    rest = body[send:]
    md = re.search(r"return\s+([^;]+);", rest)
    default = val(md.group(1)) if md else None
    return table, default


def lean_str(s):
    return '"' + s.replace("\\", "\\\\").replace('"', '\\"') + '"'


def run(ctx):
    src, strip, write, info = ctx.src, ctx.strip_c_comments, ctx.write, ctx.info
    pen = strip(src("src/pen.c"))
    hdr = strip(src("include/tickit.h"))
    bad = []

    # ---- struct TickitPen
    fields, valid = {}, {}
    m = re.search(r"struct\s+TickitPen\s*\{", pen)
    if m:
        body, _ = brace_body(pen, m.end())
        mv = re.search(r"struct\s*\{", body)
        if mv:
            vbody, vend = brace_body(body, mv.end())
            tail = re.match(r"\s*(\w+)\s*;", body[vend:])
            if tail and tail.group(1) == "valid":
                valid = parse_bitfields(vbody)
            body = body[:mv.start()] + body[vend:]
        fields = parse_bitfields(body)
    else:
        bad.append("pen:struct TickitPen")

    enums = parse_enums(hdr)
    mdef = re.search(r"#\s*define\s+COLOUR_DEFAULT\s+(-?\d+)", pen)
    colour_default = int(mdef.group(1)) if mdef else None
    if colour_default is None:
        bad.append("pen:COLOUR_DEFAULT")

    out = "namespace Tickit.Gen.PenLayout\n"
    out += "/-! Bit-fields of `struct TickitPen` (src/pen.c): width and signedness. -/\n"
    for f in VALUE_FIELDS:
        w, s = fields.get(f, (0, False))
        if f not in fields:
            bad.append("pen:field:" + f)
        out += f"def {f}_width : Nat := {w}\n"
        out += f"def {f}_signed : Bool := {'true' if s else 'false'}\n"
    for f in VALID_FIELDS:
        w, s = valid.get(f, (0, False))
        if f not in valid:
            bad.append("pen:valid:" + f)
        out += f"def valid_{f}_width : Nat := {w}\n"
    extra = sorted(set(fields) - set(VALUE_FIELDS)) + ["valid." + v for v in sorted(set(valid) - set(VALID_FIELDS))]
    out += "/-- bit-fields present in the source but unknown to the model (must be empty) -/\n"
    out += "def unknown_fields : List String := [" + ", ".join(lean_str(x) for x in extra) + "]\n"
    out += f"def COLOUR_DEFAULT : Int := {colour_default if colour_default is not None else 0}\n"

    out += "/-! Enums of include/tickit.h. -/\n"
    names = ["TICKIT_PEN_" + a for a in ATTRS] + ["TICKIT_N_PEN_ATTRS", "TICKIT_PEN_FG_DESC", "TICKIT_PEN_BG_DESC",
             "TICKIT_PENTYPE_BOOL", "TICKIT_PENTYPE_INT", "TICKIT_PENTYPE_COLOUR",
             "TICKIT_PEN_UNDER_NONE", "TICKIT_PEN_UNDER_SINGLE", "TICKIT_PEN_UNDER_DOUBLE", "TICKIT_PEN_UNDER_WAVY", "TICKIT_N_PEN_UNDERS",
             "TICKIT_PEN_SIZEPOS_NORMAL", "TICKIT_PEN_SIZEPOS_SMALL", "TICKIT_PEN_SIZEPOS_SUPERSCRIPT", "TICKIT_PEN_SIZEPOS_SUBSCRIPT"]
    for n in names:
        if n not in enums:
            bad.append("pen:enum:" + n)
        out += f"def {n} : Int := {enums.get(n, -999)}\n"
    attr_names = sorted((v, k) for k, v in enums.items() if re.match(r"TICKIT_PEN_[A-Z]+$", k) and 0 < v < enums.get("TICKIT_N_PEN_ATTRS", 0))
    out += "/-- every enumerator of TickitPenAttr below TICKIT_N_PEN_ATTRS, by value -/\n"
    out += "def pen_attrs : List (String × Int) := [" + ", ".join(f"({lean_str(k)}, {v})" for v, k in attr_names) + "]\n"

    # ---- tickit_penattr_type as a table over 0 .. TICKIT_N_PEN_ATTRS
    try:
        table, default = parse_type_switch(pen, enums)
    except KeyError as e:
        table, default = None, None
        bad.append(f"pen:penattr_type:{e}")
    n_attrs = enums.get("TICKIT_N_PEN_ATTRS", 0)
    if table is None or default is None:
        bad.append("pen:penattr_type")
        rows = []
    else:
        rows = [(c, table.get(c, default)) for c in range(0, n_attrs + 1)]
    out += "/-- `tickit_penattr_type(attr)` for attr = 0 … TICKIT_N_PEN_ATTRS (−1 = no type) -/\n"
    out += "def penattr_type : List (Int × Int) := [" + ", ".join(f"({c}, {t})" for c, t in rows) + "]\n"

    # ---- colournames[]
    cn = []
    mc = re.search(r"colournames\s*\[\s*\]\s*=\s*\{", pen)
    if mc:
        cbody, _ = brace_body(pen, mc.end())
        cn = [(a, int(b)) for a, b in re.findall(r'\{\s*"([^"\\]*)"\s*,\s*(-?\d+)\s*\}', cbody)]
        n_entries = len(re.findall(r"\{", cbody))
        if n_entries != len(cn):
            bad.append("pen:colournames:entry-shape")
            cn = []
    else:
        bad.append("pen:colournames")
    out += "/-- the `colournames[]` table of `tickit_pen_set_colour_attr_desc`, in source order -/\n"
    out += "def colournames : List (String × Int) := [" + ", ".join(f"({lean_str(a)}, {b})" for a, b in cn) + "]\n"
    out += "end Tickit.Gen.PenLayout\n"
    write("PenLayout", out)
    info["untranslatable"].extend(bad)
    info["pen_layout"] = {"fields": {k: list(v) for k, v in fields.items()}, "valid": {k: v[0] for k, v in valid.items()},
                          "n_pen_attrs": n_attrs, "colournames": len(cn), "penattr_type": rows}
