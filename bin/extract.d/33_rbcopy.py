"""Extractor plugin for C13 (copyrect / moverect / blit of src/renderbuffer.c).

  lean/Tickit/Gen/RBCopy.lean
    copySkipBlit / copySkipCopy / copySkipMove   the `copy_skip` argument at the three call sites of copyrect()
    nullCopy / upwards / leftwards               the early-return test and the two direction flags, translated from
                                                 the C expressions (over `samerb`, `lineoffs`, `coloffs`)
    captures                                     the loop body captures `remaining = cell->cols - offset` and
                                                 `active = cell->state != SKIP` before the switch and uses them after
                                                 (fixes/C13_1); false for the text as found
    textByRef                                    the TEXT arm copies by reference through put_string_slice() with
                                                 `cell->v.text.offs + offset` (fixes/C13_2)
    holdsStringRef                               the TEXT arm takes a reference on the string around the copy
    destSizeUnused                               copyrect() reads only `top` and `left` of `dstrect` (the size of the
                                                 copy is the source rectangle's)
    moveKeepsSrcSizedDest                        moverect() computes the vacated area as `{src}` minus the rectangle
                                                 `{dest->top, dest->left, src->lines, src->cols}` (not minus `dest` as
                                                 passed, whose size is not meaningful) and skips each of its rectangles
Props/C13.lean proves that these are what the model `Variant.repaired` assumes; a tree whose copyrect() reads
differently breaks that proof obligation.
"""
import re


class Bad(Exception):
    pass


TOK = re.compile(r"\s*(&&|\|\||==|!=|<=|>=|<|>|\(|\)|\d+|[A-Za-z_]\w*)")
BOOLS = {"samerb"}
INTS = {"lineoffs", "coloffs"}


def expr_to_lean(expr):
    """C boolean expression over samerb (bool), lineoffs, coloffs (int) and literals -> Lean Bool term."""
    toks, i = [], 0
    expr = expr.strip()
    while i < len(expr):
        m = TOK.match(expr, i)
        if not m:
            raise Bad("token at " + expr[i:i + 20])
        toks.append(m.group(1)); i = m.end()
    pos = [0]

    def peek():
        return toks[pos[0]] if pos[0] < len(toks) else None

    def eat(x=None):
        t = peek()
        if t is None or (x is not None and t != x):
            raise Bad(f"expected {x}, got {t}")
        pos[0] += 1
        return t

    def atom():
        t = eat()
        if t == "(":
            e = lor(); eat(")")
            return ("b", e)
        if t in BOOLS:
            return ("b", t)
        if t in INTS or re.match(r"\d+$", t):
            return ("n", t)
        raise Bad("atom " + t)

    def cmp_():
        k, a = atom()
        if peek() in ("==", "!=", "<=", ">=", "<", ">"):
            op = eat()
            k2, b = atom()
            if k != "n" or k2 != "n":
                raise Bad("comparison of non-numbers")
            lop = {"==": "=", "!=": "≠", "<=": "≤", ">=": "≥", "<": "<", ">": ">"}[op]
            return f"decide ({a} {lop} {b})"
        if k != "b":
            raise Bad("bare number used as a condition")
        return a

    def land():
        e = cmp_()
        while peek() == "&&":
            eat(); e = f"({e} && {cmp_()})"
        return e

    def lor():
        e = land()
        while peek() == "||":
            eat(); e = f"({e} || {land()})"
        return e

    out = lor()
    if peek() is not None:
        raise Bad("trailing " + str(peek()))
    return out


def func_body(text, header_re):
    m = re.search(header_re, text)
    if not m:
        return None
    i = text.index("{", m.end() - 1)
    depth, j = 0, i
    while j < len(text):
        if text[j] == "{": depth += 1
        elif text[j] == "}":
            depth -= 1
            if depth == 0:
                return text[i:j + 1]
        j += 1
    return None


def run(ctx):
    src, strip, write, info = ctx.src, ctx.strip_c_comments, ctx.write, ctx.info
    rbc = strip(src("src/renderbuffer.c"))
    facts = {}
    body = "namespace Tickit.Gen.RBCopy\n"

    def last_arg(fn_header, what):
        fb = func_body(rbc, fn_header)
        m = re.search(r"\bcopyrect\s*\((.*?)\)\s*;", fb, flags=re.S) if fb else None
        if not m:
            info["untranslatable"].append("rbcopy:" + what); return None
        # split the argument list at top-level commas
        args, depth, cur = [], 0, ""
        for ch in m.group(1):
            if ch in "({": depth += 1
            if ch in ")}": depth -= 1
            if ch == "," and depth == 0:
                args.append(cur.strip()); cur = ""
            else:
                cur += ch
        args.append(cur.strip())
        if args[-1] not in ("true", "false"):
            info["untranslatable"].append("rbcopy:" + what); return None
        return args[-1]

    for lean, hdr, what in (("copySkipBlit", r"void\s+tickit_renderbuffer_blit\s*\([^)]*\)\s*\{", "blit"),
                            ("copySkipCopy", r"void\s+tickit_renderbuffer_copyrect\s*\([^)]*\)\s*\{", "copyrect"),
                            ("copySkipMove", r"void\s+tickit_renderbuffer_moverect\s*\([^)]*\)\s*\{", "moverect")):
        v = last_arg(hdr, what)
        facts[lean] = v
        # an unreadable call site yields the value that breaks the proof obligation
        body += f"def {lean} : Bool := {v if v else ('true' if lean == 'copySkipBlit' else 'false')}\n"

    cr = func_body(rbc, r"static\s+void\s+copyrect\s*\([^)]*\)\s*\{") or ""
    exprs = {}
    m = re.search(r"if\s*\(\s*(samerb[^;{]*?)\)\s*return\s*;", cr)
    exprs["nullCopy"] = m.group(1) if m else None
    m = re.search(r"bool\s+upwards\s*=\s*([^;]*);", cr)
    exprs["upwards"] = m.group(1) if m else None
    m = re.search(r"bool\s+leftwards\s*=\s*([^;]*);", cr)
    exprs["leftwards"] = m.group(1) if m else None
    for name, e in exprs.items():
        lean = None
        if e is not None:
            try:
                lean = expr_to_lean(e)
            except Bad as ex:
                info["untranslatable"].append(f"rbcopy:{name}:{ex}")
        else:
            info["untranslatable"].append("rbcopy:" + name)
        facts[name] = e.strip() if e else None
        body += f"def {name} (samerb : Bool) (lineoffs coloffs : Int) : Bool :=\n  {lean if lean else 'false'}\n"

    # which text of the loop body is this?
    sw = cr.find("switch(cell->state)")
    if sw < 0:
        sw = cr.find("switch (cell->state)")
    before, after = (cr[:sw], cr[sw:]) if sw >= 0 else ("", "")
    captures = bool(
        re.search(r"int\s+remaining\s*=\s*cell->cols\s*-\s*offset\s*;", before) and
        re.search(r"bool\s+active\s*=\s*cell->state\s*!=\s*SKIP\s*;", before) and
        re.search(r"int\s+cols\s*=\s*remaining\s*;", before) and
        re.search(r"if\s*\(\s*active\s*\)\s*\{?\s*tickit_renderbuffer_savepen", before) and
        re.search(r"if\s*\(\s*active\s*\)\s*tickit_renderbuffer_restore\s*\(\s*dst\s*\)\s*;", after) and
        re.search(r"col\s*\+=\s*remaining\s*;", after) and
        not re.search(r"col\s*\+=\s*cell->cols\s*;", after) and
        not re.search(r"if\s*\(\s*cell->state\s*!=\s*SKIP\s*\)\s*tickit_renderbuffer_restore", after))
    mt = re.search(r"case\s+TEXT\s*:(.*?)case\s+ERASE\s*:", after, flags=re.S)
    text_arm = mt.group(1) if mt else ""
    by_ref = bool(
        re.search(r"put_string_slice\s*\(\s*dst\s*,\s*line\s*\+\s*lineoffs\s*,\s*col\s*\+\s*coloffs\s*,\s*\w+\s*,\s*"
                  r"cell->v\.text\.offs\s*\+\s*offset\s*,\s*cols\s*\)\s*;", text_arm) and
        not re.search(r"tickit_utf8_count", text_arm) and
        re.search(r"static\s+void\s+put_string_slice\s*\(", rbc))
    holds = bool(re.search(r"tickit_string_ref\s*\(\s*cell->v\.text\.s\s*\)", text_arm) and
                 re.search(r"tickit_string_unref\s*\(", text_arm))
    facts.update({"captures": captures, "textByRef": by_ref, "holdsStringRef": holds})
    body += f"def captures : Bool := {'true' if captures else 'false'}\n"
    body += f"def textByRef : Bool := {'true' if by_ref else 'false'}\n"
    body += f"def holdsStringRef : Bool := {'true' if holds else 'false'}\n"
    # the destination rectangle: only its position may be read
    dst_fields = set(re.findall(r"\bdstrect\s*->\s*(\w+)", cr)) | ({"*"} if re.search(r"\bdstrect\b(?!\s*->)", cr[cr.find("{"):]) else set())
    dest_size_unused = bool(cr) and dst_fields == {"top", "left"}
    mv = func_body(rbc, r"void\s+tickit_renderbuffer_moverect\s*\([^)]*\)\s*\{") or ""
    ws = lambda x: re.sub(r"\s+", "", x)
    mvw = ws(mv)
    lit = r"&\(TickitRect\)\{([^}]*)\}"
    msub = re.search(r"tickit_rectset_subtract\(cleararea," + lit + r"\);", mvw)
    fields = None
    if msub:
        fields = dict(f.lstrip(".").split("=", 1) for f in msub.group(1).rstrip(",").split(",") if "=" in f)
    move_ok = bool(
        fields == {"top": "dest->top", "left": "dest->left", "lines": "src->lines", "cols": "src->cols"} and
        mvw.count("tickit_rectset_subtract(") == 1 and
        mvw.count("tickit_rectset_add(") == 1 and "tickit_rectset_add(cleararea,src);" in mvw and
        re.search(r"copyrect\(rb,rb,dest,src,true\);.*tickit_rectset_add\(cleararea,src\);.*tickit_rectset_subtract\(", mvw) and
        re.search(r"for\(size_ti=0;i<n;i\+\+\)\{TickitRectrect;tickit_rectset_get_rect\(cleararea,i,&rect\);"
                  r"tickit_renderbuffer_skiprect\(rb,&rect\);\}", mvw) and
        "size_tn=tickit_rectset_rects(cleararea);" in mvw)
    facts.update({"destSizeUnused": dest_size_unused, "moveKeepsSrcSizedDest": move_ok,
                  "dstrectFieldsRead": sorted(dst_fields), "moveSubtracts": fields})
    body += f"def destSizeUnused : Bool := {'true' if dest_size_unused else 'false'}\n"
    body += f"def moveKeepsSrcSizedDest : Bool := {'true' if move_ok else 'false'}\n"
    body += "end Tickit.Gen.RBCopy\n"
    write("RBCopy", body)
    info["rbcopy"] = facts
