"""Extractor plugin for the render-buffer engine (C03, later C04/C13): everything the model of
src/renderbuffer.c takes from tables and constants of the working tree.

  lean/Tickit/Gen/RBWidth.lean
    combining, fullwidth      interval tables of src/unicode.h and src/fullwidth.inc
    ctrlExpr, wideExpr        the two range expressions of mk_wcwidth (control test, `1 + (...)` wide test)
    linemaskToChar            src/linechars.inc
    cell-state enum values, the four *_SHIFT constants, TICKIT_LINECAP_*, TICKIT_LINE_*, pen attribute ids

To be replaced by the C07 engine's Gen.Width for the width part once that exists.
"""
import re


class Bad(Exception):
    pass


TOK = re.compile(r"\s*(&&|\|\||==|!=|<=|>=|<|>|\(|\)|0[xX][0-9a-fA-F]+|\d+|[A-Za-z_]\w*)")


def c_bool_to_lean(expr, var):
    """C boolean expression over one unsigned variable and integer literals -> Lean Bool term over `u : Nat`."""
    toks, i = [], 0
    expr = expr.strip()
    while i < len(expr):
        m = TOK.match(expr, i)
        if not m:
            raise Bad("token at " + expr[i:i + 20])
        toks.append(m.group(1))
        i = m.end()
    pos = [0]

    def peek():
        return toks[pos[0]] if pos[0] < len(toks) else None

    def eat(x=None):
        t = peek()
        if t is None or (x is not None and t != x):
            raise Bad(f"expected {x}, got {t}")
        pos[0] += 1
        return t

    def atom():
        t = eat()
        if t == "(":
            e = lor()
            eat(")")
            return ("b", e)
        if t == var:
            return ("n", "u")
        if re.match(r"0[xX][0-9a-fA-F]+$|\d+$", t):
            return ("n", t.lower())
        raise Bad("atom " + t)

    def cmp_():
        k, a = atom()
        if peek() in ("==", "!=", "<=", ">=", "<", ">"):
            op = eat()
            k2, b = atom()
            if k != "n" or k2 != "n":
                raise Bad("comparison of non-numbers")
            lop = {"==": "=", "!=": "≠", "<=": "≤", ">=": "≥", "<": "<", ">": ">"}[op]
            return f"decide ({a} {lop} {b})"
        if k != "b":
            raise Bad("bare number used as a condition")
        return a

    def land():
        e = cmp_()
        while peek() == "&&":
            eat()
            e = f"({e} && {cmp_()})"
        return e

    def lor():
        e = land()
        while peek() == "||":
            eat()
            e = f"({e} || {land()})"
        return e

    out = lor()
    if peek() is not None:
        raise Bad("trailing " + str(peek()))
    return out


def intervals(text):
    return [(int(a, 16), int(b, 16)) for a, b in re.findall(r"\{\s*0[xX]([0-9a-fA-F]+)\s*,\s*0[xX]([0-9a-fA-F]+)\s*\}", text)]


def lean_intervals(name, ivs):
    rows = []
    for k in range(0, len(ivs), 6):
        rows.append("  " + ", ".join(f"(0x{a:x}, 0x{b:x})" for a, b in ivs[k:k + 6]))
    return f"def {name} : Array (Nat × Nat) := #[\n" + ",\n".join(rows) + "\n]\n"


def enum_values(text, names):
    """Values of enumerators inside the enum blocks of `text` (implicit increments handled)."""
    vals = {}
    for m in re.finditer(r"enum\s*\w*\s*\{(.*?)\}", text, flags=re.S):
        cur = -1
        for item in m.group(1).split(","):
            item = item.strip()
            if not item:
                continue
            mm = re.match(r"(\w+)\s*(?:=\s*(.+))?$", item, flags=re.S)
            if not mm:
                cur = None
                continue
            if mm.group(2) is not None:
                v = mm.group(2).strip()
                try:
                    cur = int(v, 0)
                except ValueError:
                    cur = vals.get(v) if v in vals else None
                    if cur is None:
                        mo = re.match(r"(0[xX][0-9a-fA-F]+|\d+)\s*\+\s*(\w+)$", v)
                        if mo and mo.group(2) in vals:
                            cur = int(mo.group(1), 0) + vals[mo.group(2)]
            elif cur is not None:
                cur += 1
            if cur is not None:
                vals[mm.group(1)] = cur
    return {n: vals.get(n) for n in names}


def run(ctx):
    src, strip, write, info = ctx.src, ctx.strip_c_comments, ctx.write, ctx.info
    uni = strip(src("src/unicode.h"))
    full = strip(src("src/fullwidth.inc"))
    linech = strip(src("src/linechars.inc"))
    rbc = strip(src("src/renderbuffer.c"))
    hdr = strip(src("include/tickit.h"))
    body = "namespace Tickit.Gen.RBWidth\n"
    facts = {}

    m = re.search(r"struct\s+interval\s+combining\s*\[\s*\]\s*=\s*\{(.*?)\}\s*;", uni, flags=re.S)
    comb = intervals(m.group(1)) if m else []
    if not comb:
        info["untranslatable"].append("rbwidth:combining")
    fw = intervals(full)
    if not fw:
        info["untranslatable"].append("rbwidth:fullwidth")
    body += lean_intervals("combining", comb) + lean_intervals("fullwidth", fw)
    facts["combining"], facts["fullwidth"] = len(comb), len(fw)

    # mk_wcwidth: `if (ucs < 32 || (...)) return -1;` and `return 1 + ( ... );`
    mk = re.search(r"static\s+int\s+mk_wcwidth\s*\(\s*uint32_t\s+(\w+)\s*\)\s*\{(.*?)\n\}", uni, flags=re.S)
    ctrl = wide = None
    if mk:
        var, fb = mk.group(1), mk.group(2)
        mc = re.search(r"if\s*\(\s*" + var + r"\s*==\s*0\s*\)\s*return\s+0\s*;\s*if\s*\((.*?)\)\s*return\s+-1\s*;", fb, flags=re.S)
        mw = re.search(r"return\s+1\s*\+\s*\((.*)\)\s*;", fb, flags=re.S)
        try:
            if mc:
                ctrl = c_bool_to_lean(mc.group(1), var)
            if mw:
                wide = c_bool_to_lean(mw.group(1), var)
        except Bad as e:
            info["untranslatable"].append(f"rbwidth:mk_wcwidth:{e}")
    if ctrl is None:
        info["untranslatable"].append("rbwidth:ctrlExpr")
        ctrl = "false"
    if wide is None:
        info["untranslatable"].append("rbwidth:wideExpr")
        wide = "false"
    body += f"def ctrlExpr (u : Nat) : Bool :=\n  {ctrl}\n"
    body += f"def wideExpr (u : Nat) : Bool :=\n  {wide}\n"

    m = re.search(r"linemask_to_char\s*\[\s*\]\s*=\s*\{(.*?)\}\s*;", linech, flags=re.S)
    glyphs = [int(x, 16) for x in re.findall(r"0[xX]([0-9a-fA-F]+)", m.group(1))] if m else []
    if len(glyphs) != 256:
        info["untranslatable"].append(f"rbwidth:linemask_to_char:{len(glyphs)}")
    rows = ["  " + ", ".join(f"0x{g:04x}" for g in glyphs[k:k + 16]) for k in range(0, len(glyphs), 16)]
    body += "def linemaskToChar : Array Nat := #[\n" + ",\n".join(rows) + "\n]\n"
    facts["linemask_to_char"] = len(glyphs)

    consts = {}
    consts.update(enum_values(rbc, ["SKIP", "TEXT", "ERASE", "CONT", "LINE", "CHAR",
                                    "NORTH_SHIFT", "EAST_SHIFT", "SOUTH_SHIFT", "WEST_SHIFT"]))
    consts.update(enum_values(hdr, ["TICKIT_LINECAP_START", "TICKIT_LINECAP_END", "TICKIT_LINECAP_BOTH",
                                    "TICKIT_LINE_SINGLE", "TICKIT_LINE_DOUBLE", "TICKIT_LINE_THICK",
                                    "TICKIT_PEN_FG", "TICKIT_PEN_BG", "TICKIT_PEN_BOLD", "TICKIT_PEN_UNDER",
                                    "TICKIT_PEN_ITALIC", "TICKIT_PEN_REVERSE", "TICKIT_PEN_STRIKE",
                                    "TICKIT_PEN_ALTFONT", "TICKIT_PEN_BLINK", "TICKIT_PEN_SIZEPOS", "TICKIT_N_PEN_ATTRS"]))
    for k, v in consts.items():
        if v is None:
            info["untranslatable"].append("rbwidth:const:" + k)
        body += f"def c_{k} : Nat := {v if v is not None else 0}\n"
    facts["consts"] = consts
    body += "end Tickit.Gen.RBWidth\n"
    write("RBWidth", body)
    info["rbwidth"] = facts
