"""Extractor plugin for the flush engine (C04): what the theorems of Props/C04 depend on.

  lean/Tickit/Gen/LineChars.lean
    linemaskToChar     the 256 code points of src/linechars.inc (static uint32_t linemask_to_char[])
    shiftNorth/East/South/West   the *_SHIFT enumerators of src/renderbuffer.c (bit position of each direction in a line mask)
    lineSingle/Double/Thick      TICKIT_LINE_* of include/tickit.h (the two-bit style of one direction)
    maybeNo/Yes/Maybe            TickitMaybeBool of include/tickit.h (third argument of tickit_term_erasech)
    tmpInitial                   initial size of rb->tmp (the LINE/CHAR staging buffer grows by doubling once per character)
"""
import re


def enum_vals(text):
    """name -> value for every enumerator of every enum block (implicit increments, simple literals only)."""
    vals = {}
    for m in re.finditer(r"enum\s*\w*\s*\{(.*?)\}", text, flags=re.S):
        cur = -1
        for item in m.group(1).split(","):
            item = item.strip()
            if not item:
                continue
            mm = re.match(r"(\w+)\s*(?:=\s*(.+))?$", item, flags=re.S)
            if not mm:
                cur = None
                continue
            if mm.group(2) is not None:
                try:
                    cur = int(mm.group(2).strip(), 0)
                except ValueError:
                    cur = vals.get(mm.group(2).strip())
            elif cur is not None:
                cur += 1
            if cur is not None:
                vals[mm.group(1)] = cur
    return vals


def run(ctx):
    src, strip, write, info = ctx.src, ctx.strip_c_comments, ctx.write, ctx.info
    linech = strip(src("src/linechars.inc"))
    rbc = strip(src("src/renderbuffer.c"))
    hdr = strip(src("include/tickit.h"))
    facts = {}
    body = "namespace Tickit.Gen.LineChars\n"

    m = re.search(r"linemask_to_char\s*\[\s*\]\s*=\s*\{(.*?)\}\s*;", linech, flags=re.S)
    glyphs = [int(x, 0) for x in re.findall(r"0[xX][0-9a-fA-F]+|\b\d+\b", m.group(1))] if m else []
    if len(glyphs) != 256:
        info["untranslatable"].append(f"linechars:linemask_to_char:{len(glyphs)}")
    rows = ["  " + ", ".join(f"0x{g:04x}" for g in glyphs[k:k + 16]) for k in range(0, len(glyphs), 16)]
    body += "/-- `linemask_to_char[]` of src/linechars.inc. -/\ndef linemaskToChar : Array Nat := #[\n" + ",\n".join(rows) + "\n]\n"
    facts["linemask_to_char"] = len(glyphs)

    ev = enum_vals(rbc)
    eh = enum_vals(hdr)
    consts = [
        ("shiftNorth", ev.get("NORTH_SHIFT")), ("shiftEast", ev.get("EAST_SHIFT")),
        ("shiftSouth", ev.get("SOUTH_SHIFT")), ("shiftWest", ev.get("WEST_SHIFT")),
        ("lineSingle", eh.get("TICKIT_LINE_SINGLE")), ("lineDouble", eh.get("TICKIT_LINE_DOUBLE")),
        ("lineThick", eh.get("TICKIT_LINE_THICK")),
    ]
    for k, v in consts:
        if v is None:
            info["untranslatable"].append("linechars:const:" + k)
        body += f"def {k} : Nat := {v if v is not None else 0}\n"
    for k, cname in [("maybeNo", "TICKIT_NO"), ("maybeYes", "TICKIT_YES"), ("maybeMaybe", "TICKIT_MAYBE")]:
        v = eh.get(cname)
        if v is None:
            info["untranslatable"].append("linechars:const:" + cname)
        body += f"def {k} : Int := {v if v is not None else 0}\n"
    m = re.search(r"rb->tmpsize\s*=\s*(\d+)\s*;", rbc)
    if not m:
        info["untranslatable"].append("linechars:tmpsize")
    body += f"def tmpInitial : Nat := {int(m.group(1)) if m else 0}\n"
    facts["consts"] = {k: v for k, v in consts}
    body += "end Tickit.Gen.LineChars\n"
    write("LineChars", body)
    info["linechars"] = facts
