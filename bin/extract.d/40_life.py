"""Extractor plugin for engine `life` (C08).

  src/window.c, src/renderbuffer.c  ->  Gen/Life.lean

Which of the lifetime-relevant statement orders the source tree contains (read from the function bodies on every
run), so that the model mirrors the tree it is checked against and the theorems that need the repaired order are
stated about what the source says now:

  closePurges            tickit_window_close() calls _purge_hierarchy_changes() before the REMOVE, the purge walks the
                         parent chain of every queued window and does not go through _get_root(), and the root frees
                         the queue in tickit_window_destroy()
  destroyClosesChildren  the children loop of tickit_window_destroy() closes the child before tickit_window_unref()
                         and stores nothing into the child afterwards
  spanExactFit           get_span_text() stores the terminator only under `len > bytes`
  keyHoldsNext / mouseHoldsNext   the sibling loops of _handle_key/_handle_mouse read `child->next` before the handler runs
  dragForgottenOnClose   _purge_hierarchy_changes forgets root->drag_source_window when it lies in the closing subtree
  snapshotRouting        _handle_key/_handle_mouse walk a counted snapshot of the children and test _is_shown;
                         _handle_mouse returns a counted reference which on_term_mouse drops
  mouseKeepsRoot         on_term_mouse holds a reference on the root window from before its first dispatch to after its last
  lastPressInit          tickit_window_new_root2 initialises mouse_last_button/line/col
  penCopyKeepsSrc        tickit_pen_copy holds a reference on src from before freeze(dst) to after thaw(dst)
  rootForgetsTickit      tickit_destroy() (src/tickit.c) calls, before it frees the instance, a function of src/window.c
                         that clears root->tickit (a root window the application still references outlives the instance)
  sigwinchClearsNext     tickit_term_observe_sigwinch() (src/term.c) resets tt->next_sigwinch_observer when it takes the
                         terminal off the observer list (or before it appends it)
  setInputFdClearsTermkey  tickit_term_set_input_fd() clears tt->termkey after termkey_destroy(), before get_termkey()
"""
import re


def body_of(text, name):
    m = re.search(r"\b" + re.escape(name) + r"\s*\([^;{]*\)\s*\{", text)
    if not m:
        return None
    i, depth = m.end(), 1
    while depth and i < len(text):
        depth += {"{": 1, "}": -1}.get(text[i], 0)
        i += 1
    return text[m.end():i - 1]


def run(ctx):
    src, strip, write, info = ctx.src, ctx.strip_c_comments, ctx.write, ctx.info
    win = strip(src("src/window.c"))
    rb = strip(src("src/renderbuffer.c"))
    flags = {}
    notes = []

    close = body_of(win, "void tickit_window_close") or ""
    purge = body_of(win, "static void _purge_hierarchy_changes") or ""
    destroy = body_of(win, "void tickit_window_destroy") or ""
    hkey = body_of(win, "static int _handle_key") or ""
    hmouse = body_of(win, "static TickitWindow *_handle_mouse") or ""
    tmouse = body_of(win, "static int on_term_mouse") or ""
    gst = body_of(rb, "static size_t get_span_text") or ""
    for nm, b in (("tickit_window_close", close), ("_purge_hierarchy_changes", purge), ("tickit_window_destroy", destroy),
                  ("_handle_key", hkey), ("_handle_mouse", hmouse), ("on_term_mouse", tmouse), ("get_span_text", gst)):
        if not b:
            info["untranslatable"].append("life:function:" + nm)

    # close purges before REMOVE
    ip = close.find("_purge_hierarchy_changes")
    ir = close.find("TICKIT_HIERARCHY_REMOVE")
    close_purges = 0 <= ip < ir
    purge_tolerant = "_get_root" not in purge and re.search(r"->\s*parent", purge) is not None and "is_root" in purge
    purge_subtree = re.search(r"for\s*\([^;]*req->win\s*;[^;]*;[^)]*->\s*parent\s*\)", purge) is not None
    root_frees = re.search(r"hierarchy_changes\s*=\s*req->next\s*;\s*free\s*\(\s*req\s*\)", destroy) is not None
    flags["closePurges"] = bool(close_purges and purge_tolerant and purge_subtree and root_frees)
    if len({close_purges, purge_tolerant, purge_subtree, root_frees}) > 1:
        notes.append("closePurges: partial (%s)" % dict(close=close_purges, tolerant=purge_tolerant, subtree=purge_subtree, root_frees=root_frees))

    # children loop of destroy
    m = re.search(r"for\s*\(\s*TickitWindow\s*\*\s*child\s*=\s*win->first_child[^)]*\)\s*\{(.*?)\n\s*\}", destroy, flags=re.S)
    loop = m.group(1) if m else ""
    ic = loop.find("tickit_window_close(child)")
    iu = loop.find("tickit_window_unref(child)")
    store_after = re.search(r"child->\w+\s*=", loop[iu:]) is not None if iu >= 0 else True
    flags["destroyClosesChildren"] = bool(0 <= ic < iu and not store_after)

    # get_span_text terminator
    stores = [mm.start() for mm in re.finditer(r"buffer\s*\[\s*bytes\s*\]\s*=\s*0\s*;", gst)]
    guarded = re.search(r"if\s*\(\s*buffer\s*&&\s*len\s*>\s*bytes\s*\)\s*buffer\s*\[\s*bytes\s*\]\s*=\s*0\s*;", gst) is not None
    flags["spanExactFit"] = bool(len(stores) == 1 and guarded)

    # sibling loops: `next = child->next;` at the head of the loop body (before the recursive call)
    def holds_next(body, callee):
        m = re.search(r"for\s*\(\s*TickitWindow\s*\*\s*child\s*=\s*win->first_child\s*;\s*child\s*;\s*child\s*=\s*next\s*\)\s*\{(.*)", body, flags=re.S)
        if not m:
            return False
        b = m.group(1)
        i1, i2 = b.find("next = child->next"), b.find(callee + "(child")
        return 0 <= i1 < i2 and "tickit_window_ref(next)" not in b
    flags["keyHoldsNext"] = holds_next(hkey, "_handle_key")
    flags["mouseHoldsNext"] = holds_next(hmouse, "_handle_mouse")
    forgets = re.search(r"for\s*\([^;]*root->drag_source_window\s*;[^;]*;[^)]*->\s*parent\s*\)\s*if\s*\(\s*w\s*==\s*win\s*\)\s*\{\s*root->drag_source_window\s*=\s*NULL", purge) is not None
    flags["dragForgottenOnClose"] = bool(forgets)
    # routing repairs: counted snapshot of the children in both walkers, _is_shown, counted return dropped by on_term_mouse
    snap_key = "_ref_children(win" in hkey and "_unref_children(" in hkey and "child->parent != win" in hkey
    snap_mouse = "_ref_children(win" in hmouse and "_unref_children(" in hmouse and "child->parent != win" in hmouse
    shown = hkey.count("_is_shown(win)") >= 2 and hmouse.count("_is_shown(win)") >= 2
    counted = re.search(r"ret\s*=\s*tickit_window_ref\(\s*win\s*\)", hmouse) is not None and tmouse.count("tickit_window_unref(") >= 6
    flags["snapshotRouting"] = bool(snap_key and snap_mouse and shown and counted)
    if len({snap_key, snap_mouse, shown, counted}) > 1:
        notes.append("snapshotRouting: partial (%s)" % dict(key=snap_key, mouse=snap_mouse, shown=shown, counted=counted))
    newroot = body_of(win, "TickitWindow* tickit_window_new_root2") or body_of(win, "TickitWindow *tickit_window_new_root2") or ""
    if not newroot:
        info["untranslatable"].append("life:function:tickit_window_new_root2")
    iref = tmouse.find("tickit_window_ref(win)")
    iunref = tmouse.rfind("tickit_window_unref(win)")
    ifirst = tmouse.find("_handle_mouse(")
    ilast = tmouse.rfind("_handle_mouse(")
    flags["mouseKeepsRoot"] = bool(0 <= iref < ifirst and ilast < iunref)
    flags["lastPressInit"] = all(re.search(r"root->mouse_last_%s\s*=" % f, newroot) for f in ("button", "line", "col"))

    pen = strip(src("src/pen.c"))
    pcopy = body_of(pen, "void tickit_pen_copy") or ""
    if not pcopy:
        info["untranslatable"].append("life:function:tickit_pen_copy")
    iref = pcopy.find("tickit_pen_ref(")
    ifrz = pcopy.find("freeze(dst)")
    ithaw = pcopy.rfind("thaw(dst)")
    iunref = pcopy.rfind("tickit_pen_unref(")
    flags["penCopyKeepsSrc"] = bool(0 <= iref < ifrz and 0 <= ithaw < iunref and "src" in pcopy[iref:iref + 60])

    tk = strip(src("src/tickit.c"))
    tdestroy = body_of(tk, "static void tickit_destroy") or ""
    if not tdestroy:
        info["untranslatable"].append("life:function:tickit_destroy")
    forgetters = []
    for m in re.finditer(r"\n(?:static\s+)?void\s+(\w+)\s*\(\s*TickitWindow\s*\*\s*\w+\s*\)\s*\{", win):
        b = body_of(win, "void " + m.group(1)) or ""
        if re.search(r"->\s*tickit\s*=\s*NULL\s*;", b):
            forgetters.append(m.group(1))
    ifree = tdestroy.rfind("free(t)")
    flags["rootForgetsTickit"] = any(0 <= tdestroy.find(f + "(") < ifree for f in forgetters)

    term = strip(src("src/term.c"))
    obsw = body_of(term, "void tickit_term_observe_sigwinch") or ""
    setin = body_of(term, "void tickit_term_set_input_fd") or ""
    for nm, b in (("tickit_term_observe_sigwinch", obsw), ("tickit_term_set_input_fd", setin)):
        if not b:
            info["untranslatable"].append("life:function:" + nm)
    # the statement `tt->next_sigwinch_observer = NULL;` inside the function (the only other store is the constructor's)
    flags["sigwinchClearsNext"] = re.search(r"\btt->next_sigwinch_observer\s*=\s*NULL\s*;", obsw) is not None
    idest = setin.find("termkey_destroy(")
    iget = setin.find("get_termkey(")
    mclr = re.search(r"tt->termkey\s*=\s*NULL\s*;", setin)
    flags["setInputFdClearsTermkey"] = bool(mclr and 0 <= idest < mclr.start() < iget)

    body = "namespace Tickit.Gen.Life\n"
    for k, v in flags.items():
        body += f"def {k} : Bool := {'true' if v else 'false'}\n"
    body += "end Tickit.Gen.Life\n"
    write("Life", body)
    info["life"] = flags
    if notes:
        info["life_notes"] = notes
