"""Extractor plugin for engine `sgr` (C10).

  src/xterm-palette.inc      -> Gen/Palette.lean : the 256 (as16, as8) entries and the bit-field widths
  src/termdriver-xterm.c     -> Gen/Sgr.lean     : the sgr_onoff[] table, the capacity of params[] in chpen,
                                                   the CSI_MORE_SUBPARAM mask
Everything is read from the source text of the working tree on every run.
"""
import re


def run(ctx):
    src, strip, write, info = ctx.src, ctx.strip_c_comments, ctx.write, ctx.info

    # ------------------------------------------------------------------ palette
    pal = strip(src("src/xterm-palette.inc"))
    m = re.search(r"static\s+struct\s*\{(.*?)\}\s*xterm256\s*\[\s*\]\s*=\s*\{(.*)\}\s*;", pal, flags=re.S)
    entries, widths = [], {}
    if m:
        fields = re.findall(r"unsigned\s+int\s+(\w+)\s*:\s*(\d+)\s*;", m.group(1))
        widths = {n: int(w) for n, w in fields}
        order = [n for n, _ in fields]
        for a, b in re.findall(r"\{\s*(\d+)\s*,\s*(\d+)\s*\}", m.group(2)):
            e = dict(zip(order, (int(a), int(b))))
            entries.append((e.get("as16", 0), e.get("as8", 0)))
    if not m or len(entries) == 0 or set(widths) != {"as16", "as8"}:
        info["untranslatable"].append("table:xterm256")
    body = "namespace Tickit.Gen.Palette\n"
    body += f"/-- number of entries of `xterm256[]` in src/xterm-palette.inc -/\ndef size : Nat := {len(entries)}\n"
    body += f"def as16Bits : Nat := {widths.get('as16', 0)}\ndef as8Bits : Nat := {widths.get('as8', 0)}\n"
    for name, k in (("as16", 0), ("as8", 1)):
        vals = [str(e[k]) for e in entries]
        rows = [", ".join(vals[i:i + 16]) for i in range(0, len(vals), 16)]
        body += f"def {name} : Array Nat := #[\n  " + ",\n  ".join(rows) + "]\n"
    body += "end Tickit.Gen.Palette\n"
    write("Palette", body)
    info["palette_entries"] = len(entries)

    # ------------------------------------------------------------------ sgr_onoff, params[], mask
    xt = strip(src("src/termdriver-xterm.c"))
    names = ["none", "fg", "bg", "bold", "under", "italic", "reverse", "strike", "altfont", "blink", "sizepos"]
    onoff = []
    m = re.search(r"struct\s+SgrOnOff\s*\{\s*int\s+on\s*,\s*off\s*;\s*\}\s*sgr_onoff\s*\[\s*\]\s*=\s*\{(.*?)\}\s*;", xt, flags=re.S)
    if m:
        for ent in re.findall(r"\{([^{}]*)\}", m.group(1)):
            nums = [int(x) for x in re.findall(r"-?\d+", ent)]
            onoff.append((nums + [0, 0])[:2])
    if not m or len(onoff) != len(names):
        info["untranslatable"].append("table:sgr_onoff")
    # the order of the table is the order of enum TickitPenAttr: read it from the header to be sure
    hdr = strip(src("include/tickit.h"))
    em = re.search(r"typedef\s+enum\s*\{([^}]*)\}\s*TickitPenAttr\s*;", hdr, flags=re.S)
    attr_vals = {}
    if em:
        nxt = 0
        for item in em.group(1).split(","):
            item = item.strip()
            if not item:
                continue
            mm = re.match(r"(\w+)\s*(?:=\s*(.+))?$", item, flags=re.S)
            if not mm:
                continue
            if mm.group(2) is not None:
                try:
                    nxt = int(mm.group(2).strip(), 0)
                except ValueError:
                    continue   # e.g. TICKIT_PEN_FG_DESC = 0x100 + TICKIT_PEN_FG
            attr_vals[mm.group(1)] = nxt
            nxt += 1
    enum_names = ["TICKIT_PEN_FG", "TICKIT_PEN_BG", "TICKIT_PEN_BOLD", "TICKIT_PEN_UNDER", "TICKIT_PEN_ITALIC", "TICKIT_PEN_REVERSE",
                  "TICKIT_PEN_STRIKE", "TICKIT_PEN_ALTFONT", "TICKIT_PEN_BLINK", "TICKIT_PEN_SIZEPOS"]
    if [attr_vals.get(n) for n in enum_names] != list(range(1, 11)) or attr_vals.get("TICKIT_N_PEN_ATTRS") != 11:
        info["untranslatable"].append("enum:TickitPenAttr")
    sp = {}
    sm = re.search(r"typedef\s+enum\s*\{([^}]*)\}\s*TickitPenSizePosition\s*;", hdr, flags=re.S)
    if sm:
        for i, item in enumerate([x.strip() for x in sm.group(1).split(",") if x.strip()]):
            sp[item.split("=")[0].strip()] = i
    un = {}
    um = re.search(r"typedef\s+enum\s*\{([^}]*)\}\s*TickitPenUnderline\s*;", hdr, flags=re.S)
    if um:
        for i, item in enumerate([x.strip() for x in um.group(1).split(",") if x.strip()]):
            un[item.split("=")[0].strip()] = i
    if un.get("TICKIT_PEN_UNDER_DOUBLE") is None:
        info["untranslatable"].append("enum:TickitPenUnderline")
    mm = re.search(r"static\s+bool\s+chpen\s*\([^)]*\)\s*\{.*?\bint\s+params\s*\[\s*(\d+)\s*\]", xt, flags=re.S)
    cap = int(mm.group(1)) if mm else None
    if cap is None:
        info["untranslatable"].append("cap:chpen_params")
    mm = re.search(r"#\s*define\s+CSI_MORE_SUBPARAM\s+(0x[0-9a-fA-F]+|\d+)", xt)
    mask = int(mm.group(1), 0) if mm else None
    if mask is None:
        info["untranslatable"].append("const:CSI_MORE_SUBPARAM")

    # ------------------------------------------------------------------ leaf: convert_colour (src/term.c)
    term = strip(src("src/term.c"))
    lm = re.search(r"static\s+int\s+convert_colour\s*\(\s*int\s+index\s*,\s*int\s+colours\s*\)\s*\{\s*"
                   r"if\s*\(\s*colours\s*(>=|>|<=|<)\s*(\d+)\s*\)\s*return\s+xterm256\s*\[\s*index\s*\]\s*\.\s*(as16|as8)\s*;\s*"
                   r"(?:else\s+)?return\s+xterm256\s*\[\s*index\s*\]\s*\.\s*(as16|as8)\s*;\s*\}", term)
    leaf = None
    if lm:
        op = {">=": "≥", ">": ">", "<=": "≤", "<": "<"}[lm.group(1)]
        leaf = (f"def convertColourLeaf (index colours : Int) : Int :=\n"
                f"  if colours {op} {lm.group(2)} then (Tickit.Gen.Palette.{lm.group(3)}.getD index.toNat 0 : Nat)\n"
                f"  else (Tickit.Gen.Palette.{lm.group(4)}.getD index.toNat 0 : Nat)\n")
        info.setdefault("leaves", []).append("convert_colour")
    else:
        info["untranslatable"].append("leaf:convert_colour")

    body = "import Tickit.Gen.Palette\nnamespace Tickit.Gen.Sgr\n"
    body += "/-- `convert_colour` of src/term.c, translated from its text (`convertColourLeafOk = false`: the function no longer has\n"
    body += "    the shape `if(colours OP N) return xterm256[index].F; else return xterm256[index].G;` and nothing is claimed) -/\n"
    body += f"def convertColourLeafOk : Bool := {'true' if leaf else 'false'}\n"
    body += leaf if leaf else "def convertColourLeaf (_index _colours : Int) : Int := 0\n"
    body += "/-- capacity of `int params[N]` in `chpen` of src/termdriver-xterm.c -/\n"
    body += f"def paramsCap : Nat := {cap if cap is not None else 0}\n"
    body += f"def csiMoreSubparam : Nat := {mask if mask is not None else 0}\n"
    body += "/-- `sgr_onoff[attr].on`, indexed by the value of `TickitPenAttr` (0 = none) -/\n"
    body += "def sgrOn : Nat → Nat\n" + "".join(f"  | {i} => {v[0]}\n" for i, v in enumerate(onoff)) + "  | _ => 0\n"
    body += "def sgrOff : Nat → Nat\n" + "".join(f"  | {i} => {v[1]}\n" for i, v in enumerate(onoff)) + "  | _ => 0\n"
    body += f"def sgrOnOffSize : Nat := {len(onoff)}\n"
    body += f"def underDouble : Int := {un.get('TICKIT_PEN_UNDER_DOUBLE', -1)}\n"
    body += f"def sizeposSmall : Int := {sp.get('TICKIT_PEN_SIZEPOS_SMALL', -1)}\n"
    body += f"def sizeposSuperscript : Int := {sp.get('TICKIT_PEN_SIZEPOS_SUPERSCRIPT', -1)}\n"
    body += f"def sizeposSubscript : Int := {sp.get('TICKIT_PEN_SIZEPOS_SUBSCRIPT', -1)}\n"
    body += "end Tickit.Gen.Sgr\n"
    write("Sgr", body)
    info["sgr"] = {"params_cap": cap, "onoff": onoff, "more_mask": mask, "sizepos": sp, "under": un}
