"""Extractor plugin: window.c facts the C01/C02 theorems depend on (engine `win`).

Gen/Win.lean:
  hierarchyKinds     the enumerators of HierarchyChangeType, in order (the model's `WinTree.Change` mirrors them)
  flagHidden …       the bits of TickitWindowFlags the harness and the model decode
  outsideCap         capacity of `TickitRect outside[N]` in _scrollrectset (must hold what tickit_rect_subtract returns)
  linecapStart/End   TICKIT_LINECAP_START / _END of include/tickit.h (the `caps` argument of hline_at / vline_at, which the
                     handler programs of the harness pass as a number and `WinRB.lineCalls` decodes)
and, in the evidence only, whether the statement order of _do_expose / tickit_window_flush / _scroll /
tickit_window_expose is the one the model transcribes.
"""
import re


def run(ctx):
    src, strip, write, info, array_cap = ctx.src, ctx.strip_c_comments, ctx.write, ctx.info, ctx.array_cap
    win = strip(src("src/window.c"))
    hdr = strip(src("include/tickit.h"))
    body = "namespace Tickit.Gen.Win\n"
    # enumerators of HierarchyChangeType
    m = re.search(r"typedef\s+enum\s*\{([^}]*)\}\s*HierarchyChangeType", win)
    kinds = []
    if m:
        kinds = [re.sub(r"^TICKIT_HIERARCHY_", "", k.strip().split("=")[0].strip()) for k in m.group(1).split(",") if k.strip()]
    else:
        info["untranslatable"].append("enum:HierarchyChangeType")
    body += "def hierarchyKinds : List String := [" + ", ".join('"%s"' % k for k in kinds) + "]\n"
    # window creation flags
    flags = {}
    for name in ("HIDDEN", "LOWEST", "ROOT_PARENT", "STEAL_INPUT"):
        mm = re.search(r"TICKIT_WINDOW_" + name + r"\s*=\s*1\s*<<\s*(\d+)", hdr)
        if mm:
            flags[name] = 1 << int(mm.group(1))
        else:
            info["untranslatable"].append("flag:TICKIT_WINDOW_" + name); flags[name] = 0
    for k, v in flags.items():
        body += "def flag%s : Nat := %d\n" % ("".join(p.capitalize() for p in k.split("_")), v)
    caps = {}
    for name in ("START", "END"):
        mm = re.search(r"TICKIT_LINECAP_" + name + r"\s*=\s*(0x[0-9a-fA-F]+|\d+)", hdr)
        if mm:
            caps[name] = int(mm.group(1), 0)
        else:
            info["untranslatable"].append("enum:TICKIT_LINECAP_" + name); caps[name] = 0
    for k, v in caps.items():
        body += "def linecap%s : Nat := %d\n" % (k.capitalize(), v)
    cap = array_cap(win, r"TickitRect\s+outside\s*\[\s*(\d+)\s*\]", "cap:scroll_outside")
    body += "def outsideCap : Nat := %d\n" % (cap if cap is not None else 0)

    def fn_body(name):
        mm = re.search(r"\b" + name + r"\s*\([^)]*\)\s*\{", win)
        if not mm:
            return ""
        i, depth = mm.end(), 1
        while i < len(win) and depth:
            depth += {"{": 1, "}": -1}.get(win[i], 0); i += 1
        return win[mm.end():i]

    def order(text, *pats):
        """the patterns occur in this order in the text"""
        pos = 0
        for p in pats:
            mm = re.compile(p).search(text, pos)
            if not mm:
                return False
            pos = mm.end()
        return True

    de = fn_body("_do_expose")
    fl = fn_body("tickit_window_flush")
    sc = fn_body("_scroll")
    ex = fn_body("tickit_window_expose")
    facts = {
        # per visible child: save, clip(exposed), translate, recurse, restore, then mask(child rect); handlers last
        "doExposeOrder": order(de, r"tickit_renderbuffer_setpen", r"if\s*\(\s*!\s*child->is_visible\s*\)\s*continue",
                               r"tickit_rect_intersect\s*\(\s*&exposed\s*,\s*rect\s*,\s*&child->rect\s*\)",
                               r"tickit_renderbuffer_save", r"tickit_renderbuffer_clip\s*\(\s*rb\s*,\s*&exposed\s*\)",
                               r"tickit_renderbuffer_translate\s*\(\s*rb\s*,\s*child->rect\.top\s*,\s*child->rect\.left\s*\)",
                               r"_do_expose\s*\(\s*child", r"tickit_renderbuffer_restore",
                               r"tickit_renderbuffer_mask\s*\(\s*rb\s*,\s*&child->rect\s*\)", r"TICKIT_WINDOW_ON_EXPOSE"),
        # flush: queue first, then per damage rectangle: hidden-root test, cut to the root's area, save, clip, expose, restore
        "flushOrder": order(fl, r"_do_hierarchy_change", r"tickit_rectset_clear", r"!\s*root_window->is_visible",
                            r"tickit_rect_intersect\s*\(\s*rect\s*,\s*rect", r"tickit_renderbuffer_save",
                            r"tickit_renderbuffer_clip\s*\(\s*rb\s*,\s*rect\s*\)", r"_do_expose\s*\(\s*root_window",
                            r"tickit_renderbuffer_restore", r"tickit_renderbuffer_flush_to_term"),
        # _scroll clips to every ancestor before building the visible set
        "scrollClipsAncestors": order(sc, r"tickit_rect_intersect\s*\(\s*&rect\s*,\s*&selfrect\s*,\s*origrect\s*\)",
                                      r"for\s*\(\s*TickitWindow\s*\*\s*w\s*=\s*win\s*;\s*w->parent",
                                      r"tickit_rect_intersect\s*\(\s*&rect\s*,\s*&rect\s*,\s*&bounds\s*\)", r"tickit_rectset_add\s*\(\s*visible"),
        # expose: clip to self, visibility test, translate up, de-duplicate by containment, add
        "exposeOrder": order(ex, r"tickit_rect_intersect\s*\(\s*&damaged\s*,\s*&selfrect\s*,\s*exposed\s*\)", r"!\s*win->is_visible",
                             r"tickit_rect_translate\s*\(\s*&damaged\s*,\s*win->rect\.top\s*,\s*win->rect\.left\s*\)",
                             r"tickit_rectset_contains\s*\(\s*root->damage\s*,\s*&damaged\s*\)", r"tickit_rectset_add\s*\(\s*root->damage\s*,\s*&damaged\s*\)",
                             r"needs_expose\s*=\s*true"),
    }
    # The statement-order facts are recorded in the evidence only (they are not turned into proof obligations: a
    # harmless reordering must not become an alarm; behaviour is tied by the correspondence check).
    body += "end Tickit.Gen.Win\n"
    write("Win", body)
    info["win"] = {"hierarchyKinds": kinds, "flags": flags, "linecaps": caps, "outsideCap": cap, "facts": facts}
