"""Extractor plugin for engine `modes` (C12): Gen/ModeLayout.lean.

Read from the C source of the working tree on every run:
  * bit-field widths of XTermDriver.mode / .cap / .initialised (termdriver-xterm.c) and of Tickit.use_altscreen (tickit.c);
  * enum values: TickitTermCtl, TickitTermMouseMode, the xterm driver's private controls, TickitPenAttr,
    TickitPenSizePosition, TickitPenUnderline, TickitRunFlags, TickitCtl;
  * the sgr_onoff table and mode_for_mouse's constants;
  * the await_started budget of setupterm; the default output buffer size of tickit_build;
  * three structural facts of the code that decide which variant of the model mirrors the tree
    (`Cfg`): does setctl_int(KEYPAD_APP) record the mode in the shadow, does tickit_term_resume send the
    cached pen again, are values the program has set (cursor controls; the forced RGB8 capability) protected from
    DECRPM/DECRQSS replies that arrive later.
"""
import re


def run(ctx):
    src, strip, write, info = ctx.src, ctx.strip_c_comments, ctx.write, ctx.info
    xt = strip(src("src/termdriver-xterm.c"))
    term = strip(src("src/term.c"))
    tk = strip(src("src/tickit.c"))
    hdr = strip(src("include/tickit.h"))
    tdh = strip(src("src/termdriver.h"))
    out, facts = [], {}

    def bad(what):
        info["untranslatable"].append("modes:" + what)

    def func_body(text, name):
        m = re.search(r"\b" + re.escape(name) + r"\s*\([^;{)]*\)\s*\{", text)
        if not m:
            return None
        i, depth = m.end(), 1
        while depth and i < len(text):
            depth += {"{": 1, "}": -1}.get(text[i], 0)
            i += 1
        return text[m.end():i - 1]

    def ceval(expr, env):
        e = expr.strip()
        e = re.sub(r"\b0x([0-9a-fA-F]+)\b", lambda m: str(int(m.group(1), 16)), e)
        e = re.sub(r"[A-Za-z_]\w*", lambda m: str(env[m.group(0)]), e)
        if not re.fullmatch(r"[\d\s+\-*<>()|&]+", e):
            raise ValueError(expr)
        return int(eval(e, {"__builtins__": {}}))

    def enum_values(text, body, env):
        vals, nxt = [], 0
        for item in body.split(","):
            item = item.strip()
            if not item:
                continue
            if "=" in item:
                name, expr = item.split("=", 1)
                nxt = ceval(expr, env)
                name = name.strip()
            else:
                name = item
            env[name] = nxt
            vals.append((name, nxt))
            nxt += 1
        return vals

    env = {}
    # every enum of tickit.h, termdriver.h and the anonymous one in termdriver-xterm.c
    for text in (hdr, tdh, xt):
        for m in re.finditer(r"\benum\s*(?:\w+\s*)?\{([^}]*)\}", text):
            try:
                enum_values(text, m.group(1), env)
            except Exception as e:
                bad(f"enum:{e}")

    def want(lean, cname):
        if cname in env:
            out.append(f"def {lean} : Int := {env[cname]}")
            facts[lean] = env[cname]
        else:
            out.append(f"def {lean} : Int := -999")
            bad("enum-constant:" + cname)

    for lean, c in [("ctl_altscreen", "TICKIT_TERMCTL_ALTSCREEN"), ("ctl_cursorvis", "TICKIT_TERMCTL_CURSORVIS"),
                    ("ctl_mouse", "TICKIT_TERMCTL_MOUSE"), ("ctl_cursorblink", "TICKIT_TERMCTL_CURSORBLINK"),
                    ("ctl_cursorshape", "TICKIT_TERMCTL_CURSORSHAPE"), ("ctl_icon_text", "TICKIT_TERMCTL_ICON_TEXT"),
                    ("ctl_title_text", "TICKIT_TERMCTL_TITLE_TEXT"), ("ctl_icontitle_text", "TICKIT_TERMCTL_ICONTITLE_TEXT"),
                    ("ctl_keypad_app", "TICKIT_TERMCTL_KEYPAD_APP"), ("ctl_colors", "TICKIT_TERMCTL_COLORS"),
                    ("ctl_cap_cursorshape", "TERMCTL_CAP_CURSORSHAPE"), ("ctl_cap_slrm", "TERMCTL_CAP_SLRM"),
                    ("ctl_cap_csi_sub_colon", "TERMCTL_CAP_CSI_SUB_COLON"), ("ctl_cap_rgb8", "TERMCTL_CAP_RGB8"),
                    ("mouse_off", "TICKIT_TERM_MOUSEMODE_OFF"), ("mouse_click", "TICKIT_TERM_MOUSEMODE_CLICK"),
                    ("mouse_drag", "TICKIT_TERM_MOUSEMODE_DRAG"), ("mouse_move", "TICKIT_TERM_MOUSEMODE_MOVE"),
                    ("pen_fg", "TICKIT_PEN_FG"), ("pen_bg", "TICKIT_PEN_BG"), ("pen_bold", "TICKIT_PEN_BOLD"),
                    ("pen_under", "TICKIT_PEN_UNDER"), ("pen_italic", "TICKIT_PEN_ITALIC"), ("pen_reverse", "TICKIT_PEN_REVERSE"),
                    ("pen_strike", "TICKIT_PEN_STRIKE"), ("pen_altfont", "TICKIT_PEN_ALTFONT"), ("pen_blink", "TICKIT_PEN_BLINK"),
                    ("pen_sizepos", "TICKIT_PEN_SIZEPOS"), ("n_pen_attrs", "TICKIT_N_PEN_ATTRS"),
                    ("sizepos_normal", "TICKIT_PEN_SIZEPOS_NORMAL"), ("sizepos_small", "TICKIT_PEN_SIZEPOS_SMALL"),
                    ("sizepos_superscript", "TICKIT_PEN_SIZEPOS_SUPERSCRIPT"), ("sizepos_subscript", "TICKIT_PEN_SIZEPOS_SUBSCRIPT"),
                    ("under_none", "TICKIT_PEN_UNDER_NONE"), ("under_single", "TICKIT_PEN_UNDER_SINGLE"), ("under_double", "TICKIT_PEN_UNDER_DOUBLE"),
                    ("run_nohang", "TICKIT_RUN_NOHANG"), ("run_nosetup", "TICKIT_RUN_NOSETUP"),
                    ("tickit_ctl_use_altscreen", "TICKIT_CTL_USE_ALTSCREEN")]:
        want(lean, c)

    # ---- bit-field widths
    m = re.search(r"struct\s+XTermDriver\s*\{(.*?)\n\};", xt, re.S)
    widths = {}
    if m:
        for sm in re.finditer(r"struct\s*\{([^}]*)\}\s*(\w+)\s*;", m.group(1)):
            for fm in re.finditer(r"unsigned\s+int\s+(\w+)\s*:\s*(\d+)\s*;", sm.group(1)):
                widths[f"{sm.group(2)}_{fm.group(1)}"] = int(fm.group(2))
    else:
        bad("struct XTermDriver")
    for k in ["mode_altscreen", "mode_cursorvis", "mode_cursorblink", "mode_cursorshape", "mode_mouse", "mode_keypad",
              "cap_cursorshape", "cap_slrm", "cap_csi_sub_colon", "cap_rgb8",
              "initialised_cursorvis", "initialised_cursorblink", "initialised_cursorshape", "initialised_slrm"]:
        if k not in widths:
            bad("bitfield:" + k)
        out.append(f"def w_{k} : Nat := {widths.get(k, 0)}")
    m = re.search(r"unsigned\s+int\s+done_setup\s*:\s*(\d+)\s*,\s*use_altscreen\s*:\s*(\d+)\s*;", tk)
    if not m:
        bad("bitfield:use_altscreen")
    out.append(f"def w_top_use_altscreen : Nat := {int(m.group(2)) if m else 0}")
    facts["widths"] = widths

    # ---- sgr_onoff
    m = re.search(r"sgr_onoff\s*\[\s*\]\s*=\s*\{(.*?)\}\s*;", xt, re.S)
    on, off = [], []
    if m:
        for em in re.finditer(r"\{([^{}]*)\}", m.group(1)):
            nums = [int(x) for x in re.findall(r"-?\d+", em.group(1))]
            on.append(nums[0] if len(nums) > 0 else 0)
            off.append(nums[1] if len(nums) > 1 else 0)
    else:
        bad("sgr_onoff")
    out.append("def sgr_on : List Int := [" + ", ".join(map(str, on)) + "]")
    out.append("def sgr_off : List Int := [" + ", ".join(map(str, off)) + "]")

    # ---- mode_for_mouse: list of (enum value, DEC mode)
    body = func_body(xt, "mode_for_mouse") or ""
    pairs = []
    for cm in re.finditer(r"case\s+(\w+)\s*:\s*return\s+(\d+)\s*;", body):
        if cm.group(1) in env:
            pairs.append((env[cm.group(1)], int(cm.group(2))))
    dm = re.search(r"\}\s*return\s+(\d+)\s*;\s*$", body.strip() + "")
    default = int(dm.group(1)) if dm else 0
    if not pairs:
        bad("mode_for_mouse")
    out.append("def mode_for_mouse_cases : List (Int × Int) := [" + ", ".join(f"({a}, {b})" for a, b in pairs) + "]")
    out.append(f"def mode_for_mouse_default : Int := {default}")

    # ---- setupterm's await budget, initial colours
    body = func_body(tk, "setupterm") or ""
    m = re.search(r"tickit_term_await_started_msec\s*\(\s*\w+\s*,\s*(\d+)\s*\)", body)
    out.append(f"def setup_await_msec : Int := {int(m.group(1)) if m else -1}")
    if not m:
        bad("setupterm await")

    # ---- the output buffer a toplevel instance gives a terminal it builds itself
    body = func_body(tk, "tickit_build") or ""
    m = re.search(r"if\s*\(\s*!\s*term_builder\s*\.\s*output_buffersize\s*\)\s*term_builder\s*\.\s*output_buffersize\s*=\s*(\d+)\s*;", body)
    out.append(f"def top_default_bufsize : Nat := {int(m.group(1)) if m else 0}")
    if not m:
        bad("tickit_build output_buffersize")

    # ---- structural facts selecting the model variant
    body = func_body(xt, "setctl_int") or ""
    km = re.search(r"case\s+TICKIT_TERMCTL_KEYPAD_APP\s*:(.*?)(?:case\s|default\s*:)", body, re.S)
    keypad_recorded = bool(km and re.search(r"mode\s*\.\s*keypad\s*=[^=]", km.group(1)))
    body = func_body(term, "tickit_term_resume") or ""
    resume_resends = bool(re.search(r"vtable\s*->\s*chpen\s*\)\s*\(\s*tt\s*->\s*driver\s*,\s*tt\s*->\s*pen\s*,\s*tt\s*->\s*pen\s*\)", body))
    body = func_body(xt, "on_modereport") or ""
    vm = re.search(r"case\s+25\s*:(.*?)break\s*;", body, re.S)
    replies_guarded = bool(vm and re.search(r"!\s*xd\s*->\s*initialised\s*\.\s*cursorvis", vm.group(1)))
    body = func_body(xt, "on_decrqss") or ""
    rgb8_guarded = bool(re.search(r"!\s*xd\s*->\s*initialised\s*\.\s*rgb8", body))
    body = func_body(xt, "chpen") or ""
    um = re.search(r"case\s+TICKIT_PEN_UNDER\s*:(.*?)break\s*;", body, re.S)
    under_safe = bool(um and re.search(r"!\s*xd\s*->\s*cap\s*\.\s*csi_sub_colon", um.group(1))
                      and re.search(r"TICKIT_PEN_UNDER_DOUBLE\s*\)\s*\?\s*21\s*:\s*onoff\s*->\s*on", um.group(1)))
    out.append("/-- Which variant of the hand model mirrors the working tree (see `Tickit.Modes.Cfg`). -/")
    out.append(f"def underStyleSafe : Bool := {'true' if under_safe else 'false'}")
    out.append(f"def keypadRecorded : Bool := {'true' if keypad_recorded else 'false'}")
    out.append(f"def resumeResendsPen : Bool := {'true' if resume_resends else 'false'}")
    out.append(f"def repliesGuarded : Bool := {'true' if replies_guarded else 'false'}")
    out.append(f"def rgb8Guarded : Bool := {'true' if rgb8_guarded else 'false'}")
    facts.update(underStyleSafe=under_safe, keypadRecorded=keypad_recorded, resumeResendsPen=resume_resends, repliesGuarded=replies_guarded, rgb8Guarded=rgb8_guarded,
                 sgr_on=on, sgr_off=off, mode_for_mouse=pairs)

    write("ModeLayout", "namespace Tickit.Gen.ModeLayout\n" + "\n".join(out) + "\nend Tickit.Gen.ModeLayout\n")
    info["modes"] = facts
