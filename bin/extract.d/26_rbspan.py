"""Extractor plugin for the formatted-text and span-query part of the render-buffer engine (C03).

  lean/Tickit/Gen/RBSpan.lean
    c_TMPSIZE_INIT            `rb->tmpsize = N;` of tickit_renderbuffer_new
    c_VTEXTF_STACKBUF         `char buffer[N];` of put_vtextf
    c_VTEXTF_SLACK            K of `tmp_alloc(rb, len + K);` in put_vtextf (0 for `tmp_alloc(rb, len)`)
    spanReturnsTextLen        tickit_renderbuffer_get_span ends in `return retlen;` (true) or `return len;` (false, as found)
    spanLimitFromOffs         the column limit of get_span_text's whole-run arm is `span->v.text.offs + span->cols` (true)
                              or `span->cols` (false, as found)
  Anything else in those places is reported as untranslatable (the values written then break the proof obligations).
"""
import re


def func_body(text, header_re):
    m = re.search(header_re, text)
    if not m:
        return None
    i = text.index("{", m.end() - 1)
    depth, j = 0, i
    while j < len(text):
        if text[j] == "{":
            depth += 1
        elif text[j] == "}":
            depth -= 1
            if depth == 0:
                return text[i:j + 1]
        j += 1
    return None


def norm(e):
    return re.sub(r"\s+", "", e)


def run(ctx):
    src, strip, write, info = ctx.src, ctx.strip_c_comments, ctx.write, ctx.info
    rbc = strip(src("src/renderbuffer.c"))
    facts = {}
    bad = lambda what: info["untranslatable"].append("rbspan:" + what)

    new = func_body(rbc, r"TickitRenderBuffer\s*\*\s*tickit_renderbuffer_new\s*\([^)]*\)\s*\{") or ""
    m = re.search(r"rb->tmpsize\s*=\s*(\d+)\s*;", new)
    tmpinit = int(m.group(1)) if m else None
    if tmpinit is None:
        bad("tmpsize_init")

    ta = func_body(rbc, r"static\s+void\s+tmp_alloc\s*\([^)]*\)\s*\{") or ""
    if not (re.search(r"if\s*\(\s*rb->tmpsize\s*<\s*len\s*\)", ta) and
            re.search(r"while\s*\(\s*rb->tmpsize\s*<\s*len\s*\)\s*rb->tmpsize\s*\*=\s*2\s*;", ta) and
            re.search(r"rb->tmp\s*=\s*malloc\s*\(\s*rb->tmpsize\s*\)\s*;", ta)):
        bad("tmp_alloc")

    vt = func_body(rbc, r"static\s+int\s+put_vtextf\s*\([^)]*\)\s*\{") or ""
    m = re.search(r"char\s+buffer\s*\[\s*(\d+)\s*\]\s*;", vt)
    stackbuf = int(m.group(1)) if m else None
    if stackbuf is None:
        bad("vtextf_stackbuf")
    slack = None
    m = re.search(r"tmp_alloc\s*\(\s*rb\s*,\s*([^;]*?)\)\s*;", vt)
    if m:
        e = norm(m.group(1))
        mm = re.match(r"^len(?:\+(\d+))?$", e) or re.match(r"^(?:(\d+)\+)len$", e)
        if mm:
            slack = int(mm.group(1)) if mm.group(1) else 0
    if slack is None:
        bad("vtextf_slack")
    if not (re.search(r"if\s*\(\s*len\s*<\s*sizeof\s*\(?\s*buffer\s*\)?\s*\)\s*return\s+put_text\s*\(\s*rb\s*,\s*line\s*,\s*col\s*,\s*buffer\s*,\s*len\s*\)\s*;", vt) and
            re.search(r"vsnprintf\s*\(\s*rb->tmp\s*,\s*rb->tmpsize\s*,\s*fmt\s*,\s*args\s*\)\s*;\s*return\s+put_text\s*\(\s*rb\s*,\s*line\s*,\s*col\s*,\s*rb->tmp\s*,\s*len\s*\)\s*;", vt)):
        bad("put_vtextf")

    gs = func_body(rbc, r"size_t\s+tickit_renderbuffer_get_span\s*\([^)]*\)\s*\{") or ""
    rets = re.findall(r"return\s+([^;]+);", gs)
    returns_textlen = None
    if rets:
        last = norm(rets[-1])
        if last == "retlen":
            returns_textlen = True
        elif last == "len":
            returns_textlen = False
    if returns_textlen is None:
        bad("get_span_return")

    gt = func_body(rbc, r"static\s+size_t\s+get_span_text\s*\([^)]*\)\s*\{") or ""
    limit_from_offs = None
    m = re.search(r"if\s*\(\s*one_grapheme\s*\)\s*tickit_stringpos_limit_graphemes\s*\(\s*&limit\s*,\s*start\.graphemes\s*\+\s*1\s*\)\s*;\s*"
                  r"else\s+tickit_stringpos_limit_columns\s*\(\s*&limit\s*,\s*([^;]*?)\)\s*;", gt)
    if m:
        e = norm(m.group(1))
        if e == "span->cols":
            limit_from_offs = False
        elif e in ("span->v.text.offs+span->cols", "span->cols+span->v.text.offs"):
            limit_from_offs = True
    if limit_from_offs is None:
        bad("get_span_text_limit")

    facts.update({"tmpsize_init": tmpinit, "vtextf_stackbuf": stackbuf, "vtextf_slack": slack,
                  "spanReturnsTextLen": returns_textlen, "spanLimitFromOffs": limit_from_offs})
    b = lambda v: "true" if v else "false"
    body = "namespace Tickit.Gen.RBSpan\n"
    body += f"def c_TMPSIZE_INIT : Nat := {tmpinit if tmpinit is not None else 0}\n"
    body += f"def c_VTEXTF_STACKBUF : Nat := {stackbuf if stackbuf is not None else 0}\n"
    body += f"def c_VTEXTF_SLACK : Nat := {slack if slack is not None else 0}\n"
    body += f"def spanReturnsTextLen : Bool := {b(returns_textlen)}\n"
    body += f"def spanLimitFromOffs : Bool := {b(limit_from_offs)}\n"
    body += "end Tickit.Gen.RBSpan\n"
    write("RBSpan", body)
    info["rbspan"] = facts
