"""Extractor plugin: utf8.c / unicode.h / fullwidth.inc facts for C07 (engine `utf8`).

Writes lean/Tickit/Gen/Width.lean:
  * `combining`, `fullwidth`        — the two interval tables, entry by entry, in source order
  * `tickit_utf8_seqlen`            — leaf (if-return chain)
  * `mk_wcwidth`, `tickit_utf8_wcwidth` — leaves; the two `bisearch(...)` calls are abstracted into the
    parameters `in_combining` / `in_fullwidth` (the hand model instantiates them with its `bisearch`)
A leaf that cannot be translated is omitted and recorded; the theorems that tie it to the hand model
(`Proof/Utf8.lean`) then no longer build, which `bin/check` reports.
"""
import re


def run(ctx):
    src, strip, write, info = ctx.src, ctx.strip_c_comments, ctx.write, ctx.info
    translate_leaf, Untranslatable = ctx.translate_leaf, ctx.Untranslatable
    uni = strip(src("src/unicode.h"))
    utf8 = strip(src("src/utf8.c"))
    inc = strip(src("src/fullwidth.inc"))

    pair = re.compile(r"\{\s*(0[xX][0-9A-Fa-f]+|\d+)\s*,\s*(0[xX][0-9A-Fa-f]+|\d+)\s*\}")

    def table(body, what):
        rest = pair.sub("", body)
        if re.sub(r"[\s,]", "", rest):
            info["untranslatable"].append(f"table:{what}:unparsed:{re.sub(chr(92) + 's+', ' ', rest)[:40]}")
            return None
        return [(int(a, 0), int(b, 0)) for a, b in pair.findall(body)]

    tabs = {}
    m = re.search(r"static\s+const\s+struct\s+interval\s+combining\s*\[\s*\]\s*=\s*\{(.*?)\}\s*;", uni, re.S)
    tabs["combining"] = table(m.group(1), "combining") if m else None
    m = re.search(r"static\s+const\s+struct\s+interval\s+fullwidth\s*\[\s*\]\s*=\s*\{(.*?)\}\s*;", uni, re.S)
    if m and re.sub(r"\s", "", m.group(1)) == '#include"fullwidth.inc"':
        tabs["fullwidth"] = table(inc, "fullwidth")
    elif m:
        tabs["fullwidth"] = table(m.group(1).replace('#include "fullwidth.inc"', inc), "fullwidth")
    else:
        tabs["fullwidth"] = None
    # the struct the tables are made of: two ints, first then last
    if not re.search(r"struct\s+interval\s*\{\s*int\s+first\s*;\s*int\s+last\s*;\s*\}", uni):
        info["untranslatable"].append("struct:interval")

    body = "namespace Tickit.Gen.Width\n"
    for name in ("combining", "fullwidth"):
        t = tabs[name]
        if t is None:
            info["untranslatable"].append("table:" + name)
            body += f"-- table-unreadable: {name}\n"
            continue
        body += f"/-- `{name}[]` ({len(t)} intervals), in source order. -/\n"
        body += f"def {name} : Array (Nat × Nat) := #[\n"
        rows = [", ".join(f"(0x{a:X}, 0x{b:X})" for a, b in t[i:i + 6]) for i in range(0, len(t), 6)]
        body += ",\n".join("  " + r for r in rows) + "\n]\n"
    info["width_tables"] = {k: (len(v) if v is not None else None) for k, v in tabs.items()}

    # ------------------------------------------------------------ leaves
    def prep(text):
        text = re.sub(r"0[xX][0-9A-Fa-f]+", lambda mm: str(int(mm.group(0), 16)), text)
        text = re.sub(r"\b(uint32_t|long|unsigned\s+int|unsigned)\b", "int", text)
        return text

    done = []
    leaves = {}

    def leaf(text, name, post=None):
        nonlocal body
        try:
            d, ty = translate_leaf(text, name, leaves)
            if post:
                d = post(d)
            body += d
            leaves[name] = ty
            done.append(name)
        except Untranslatable as e:
            info["untranslatable"].append(f"leaf:{name}:{e}")
            body += f"-- leaf-untranslatable: {name}\n"

    leaf(prep(utf8), "tickit_utf8_seqlen")

    # mk_wcwidth: abstract the table search into a parameter
    u = prep(uni)
    u2, n1 = re.subn(r"bisearch\s*\(\s*ucs\s*,\s*combining\s*,\s*sizeof\s*\(\s*combining\s*\)\s*/\s*sizeof\s*\(\s*struct\s+interval\s*\)\s*-\s*1\s*\)",
                     "in_combining(ucs)", u)
    u3, n2 = re.subn(r"bisearch\s*\(\s*codepoint\s*,\s*fullwidth\s*,\s*sizeof\s*\(\s*fullwidth\s*\)\s*/\s*sizeof\s*\(\s*fullwidth\s*\[\s*0\s*\]\s*\)\s*-\s*1\s*\)",
                     "in_fullwidth(codepoint)", u2)
    leaves["in_combining"] = "bool"
    leaves["in_fullwidth"] = "bool"
    if n1 == 1:
        leaf(u3, "mk_wcwidth", lambda d: d.replace("def mk_wcwidth (ucs : Int)", "def mk_wcwidth (in_combining : Int → Bool) (ucs : Int)"))
    else:
        info["untranslatable"].append("leaf:mk_wcwidth:bisearch-call-shape")
        body += "-- leaf-untranslatable: mk_wcwidth\n"
    if n2 == 1 and "mk_wcwidth" in done:
        leaf(u3, "tickit_utf8_wcwidth",
             lambda d: d.replace("def tickit_utf8_wcwidth (codepoint : Int)", "def tickit_utf8_wcwidth (in_fullwidth in_combining : Int → Bool) (codepoint : Int)")
                        .replace("(mk_wcwidth ", "(mk_wcwidth in_combining "))
    else:
        info["untranslatable"].append("leaf:tickit_utf8_wcwidth:bisearch-call-shape")
        body += "-- leaf-untranslatable: tickit_utf8_wcwidth\n"
    body += "end Tickit.Gen.Width\n"
    write("Width", body)
    info["width_leaves"] = done
