"""Extractor plugin for engine `termbuf` (C11): facts of src/term.c and src/termdriver-xterm.c that the model of the
output buffer and of its callers depends on — the size of write_vstrf's stack buffer, the byte strings and format
strings the xterm driver hands to tickit_termdrv_write_str/_strf in start/teardown/resume/goto/setctl, and the shape
facts "start ends with a flush", "teardown/pause/resume do not flush inside the driver".

Everything is read from the source text of the working tree on every run and written to lean/Tickit/Gen/TermBuf.lean.
A fact that cannot be found is recorded in info["untranslatable"] and simply not emitted, so that the Lean build of the
model (which names it) fails and bin/check reports the broken obligation."""
import re


def run(ctx):
    src, strip_c_comments, write, info = ctx.src, ctx.strip_c_comments, ctx.write, ctx.info
    term = strip_c_comments(src("src/term.c"))
    xterm = strip_c_comments(src("src/termdriver-xterm.c"))
    facts, missing = {}, []

    # ------------------------------------------------------------------ helpers
    def c_unescape(lit):
        """bytes of a C string literal body (without the quotes)"""
        out, i = [], 0
        simple = {"e": 27, "n": 10, "r": 13, "t": 9, "a": 7, "b": 8, "f": 12, "v": 11, "\\": 92, '"': 34, "'": 39, "?": 63}
        while i < len(lit):
            ch = lit[i]
            if ch != "\\":
                out += list(ch.encode("utf-8")); i += 1; continue
            i += 1
            ch = lit[i]
            if ch in simple:
                out.append(simple[ch]); i += 1
            elif ch == "x":
                m = re.match(r"[0-9a-fA-F]+", lit[i + 1:]); out.append(int(m.group(0), 16) & 255); i += 1 + len(m.group(0))
            elif ch in "01234567":
                m = re.match(r"[0-7]{1,3}", lit[i:]); out.append(int(m.group(0), 8) & 255); i += len(m.group(0))
            else:
                raise ValueError("escape \\" + ch)
        return out

    def func_body(text, name):
        m = re.search(r"\b" + name + r"\s*\([^;{]*\)\s*\{", text)
        if not m:
            return None
        i, depth = m.end(), 1
        while depth and i < len(text):
            c = text[i]
            if c == '"' or c == "'":
                j = i + 1
                while text[j] != c:
                    j += 2 if text[j] == "\\" else 1
                i = j + 1
                continue
            depth += {"{": 1, "}": -1}.get(c, 0)
            i += 1
        return text[m.end():i - 1]

    LIT = r'"((?:[^"\\]|\\.)*)"'

    def pieces(lit):
        """format string -> list of Lean Piece terms; only %d and %s are understood"""
        out, cur, b, i = [], [], c_unescape(lit), 0
        while i < len(b):
            if b[i] == 37:  # %
                if i + 1 < len(b) and b[i + 1] in (100, 115):
                    if cur: out.append(".lit " + lean_bytes(cur)); cur = []
                    out.append(".int" if b[i + 1] == 100 else ".str"); i += 2; continue
                if i + 1 < len(b) and b[i + 1] == 37:
                    cur.append(37); i += 2; continue
                raise ValueError("conversion in " + lit)
            cur.append(b[i]); i += 1
        if cur: out.append(".lit " + lean_bytes(cur))
        return "[" + ", ".join(out) + "]"

    def lean_bytes(bs):
        return "[" + ", ".join(str(x) for x in bs) + "]"

    def fact(name, ty, thunk):
        try:
            v = thunk()
            if v is None:
                raise ValueError("not found")
            facts[name] = (ty, v)
        except Exception as e:
            missing.append(name)
            info["untranslatable"].append(f"termbuf:{name}:{type(e).__name__}:{e}")

    def grab(body, regex, group=1):
        if body is None:
            return None
        m = re.search(regex, body, re.S)
        return m.group(group) if m else None

    # ------------------------------------------------------------------ term.c
    vstrf = func_body(term, "write_vstrf")
    fact("strf_stack_buffer", "Nat", lambda: int(grab(vstrf, r"char\s+buffer\s*\[\s*(\d+)\s*\]")))
    # `if(len < sizeof buffer)` is the test that selects the one-pass path
    fact("strf_onepass_test_is_lt_sizeof", "Bool",
         lambda: "true" if re.search(r"if\s*\(\s*len\s*<\s*sizeof\s*\(?\s*buffer\s*\)?\s*\)", vstrf) else "false")
    # the flush points of term.c: teardown flushes last, pause and resume never do
    td, pa, re_ = func_body(term, "tickit_term_teardown"), func_body(term, "tickit_term_pause"), func_body(term, "tickit_term_resume")
    fact("term_teardown_flushes", "Bool", lambda: "true" if re.search(r"tickit_term_flush\s*\(\s*tt\s*\)\s*;\s*$", td.strip()) else "false")
    fact("term_pause_flushes", "Bool", lambda: "true" if "tickit_term_flush" in pa else "false")
    fact("term_resume_flushes", "Bool", lambda: "true" if "tickit_term_flush" in re_ else "false")

    # tickit_term_printn returns early on a zero length (so that write_str's "0 means strlen" is not reached)
    pn = func_body(term, "tickit_term_printn")
    fact("printn_zero_len_returns", "Bool",
         lambda: "true" if re.search(r"^\s*if\s*\(\s*(!\s*len|len\s*==\s*0)\s*\)\s*return\s*;", pn) else "false")
    # tickit_term_resume re-sends the cached pen through the driver's chpen after the driver's resume
    fact("term_resume_resends_pen", "Bool",
         lambda: "true" if re.search(r"vtable->chpen\s*\)\s*\(\s*tt->driver\s*,\s*tt->pen\s*,\s*tt->pen\s*\)", re_) else "false")

    # the test that guards write(2) on the output descriptor, in tickit_term_flush and in the unbuffered arm of
    # write_str: a boolean combination of comparisons of tt->outfd with integer constants, translated to Lean
    def fd_guard(body):
        cond = grab(body, r"else\s+if\s*\(([^{};]*?)\)\s*\{?\s*write\s*\(\s*tt->outfd\s*,")
        if cond is None:
            return None
        ops = {"!=": "≠", "==": "=", ">=": "≥", "<=": "≤", ">": ">", "<": "<"}
        atom = r"\s*tt->outfd\s*(!=|==|>=|<=|>|<)\s*(-?\s*\d+)\s*"
        out, rest = [], cond
        while True:
            m = re.match(atom, rest)
            if not m:
                raise ValueError("condition " + cond)
            out.append("fd %s %s" % (ops[m.group(1)], m.group(2).replace(" ", "")))
            rest = rest[m.end():]
            if not rest:
                break
            m = re.match(r"(&&|\|\|)", rest)
            if not m:
                raise ValueError("condition " + cond)
            out.append("∧" if m.group(1) == "&&" else "∨")
            rest = rest[m.end():]
        return "fun fd => decide (" + " ".join(out) + ")"
    fl, ws = func_body(term, "tickit_term_flush"), func_body(term, r"static\s+void\s+write_str")
    fact("flush_fd_guard", "Int → Bool", lambda: fd_guard(fl))
    fact("write_str_fd_guard", "Int → Bool", lambda: fd_guard(ws))
    # the function wins over the descriptor in both places: `if(tt->outfunc) (*tt->outfunc)(…) else if(… outfd …)`
    fact("flush_func_before_fd", "Bool", lambda: "true" if re.search(r"if\s*\(\s*tt->outfunc\s*\)\s*\(\s*\*\s*tt->outfunc\s*\)\s*\([^;]*\)\s*;\s*else\s+if\s*\([^{};]*outfd", fl) else "false")
    fact("write_str_func_before_fd", "Bool", lambda: "true" if re.search(r"else\s+if\s*\(\s*tt->outfunc\s*\)\s*\{?\s*\(\s*\*\s*tt->outfunc\s*\)\s*\([^;]*\)\s*;\s*\}?\s*else\s+if\s*\([^{};]*outfd", ws) else "false")
    # tickit_term_set_output_fd stores the number it is given; "no descriptor" is -1 (tickit_term_build's initial value)
    sof = func_body(term, "tickit_term_set_output_fd")
    fact("set_output_fd_stores", "Bool", lambda: "true" if re.search(r"^\s*tt->outfd\s*=\s*fd\s*;", sof) else "false")
    fact("outfd_initial", "Int", lambda: int(grab(term, r"tt->outfd\s*=\s*(-?\d+)\s*;")))

    # ------------------------------------------------------------------ termdriver-xterm.c
    start = func_body(xterm, r"static\s+void\s+start")
    def start_fmts():
        calls = re.findall(r"tickit_termdrv_write_strf\s*\(\s*ttd\s*,\s*" + LIT + r"\s*\)", start)
        if not calls or len(calls) != len(re.findall(r"tickit_termdrv_write_", start)):
            return None
        return "[" + ", ".join(pieces(c) for c in calls) + "]"
    fact("start_fmts", "List (List Piece)", start_fmts)
    fact("start_ends_with_flush", "Bool", lambda: "true" if re.search(r"tickit_term_flush\s*\(\s*ttd->tt\s*\)\s*;\s*$", start.strip()) else "false")

    goto = func_body(xterm, r"static\s+bool\s+goto_abs")
    fact("goto_fmt_line_col", "List Piece", lambda: pieces(grab(goto, r"if\s*\(\s*line\s*!=\s*-1\s*&&\s*col\s*>\s*0\s*\)\s*tickit_termdrv_write_strf\s*\(\s*ttd\s*,\s*" + LIT + r"\s*,\s*line\s*\+\s*1\s*,\s*col\s*\+\s*1\s*\)")))
    fact("goto_fmt_line_col0", "List Piece", lambda: pieces(grab(goto, r"else\s+if\s*\(\s*line\s*!=\s*-1\s*&&\s*col\s*==\s*0\s*\)\s*tickit_termdrv_write_strf\s*\(\s*ttd\s*,\s*" + LIT + r"\s*,\s*line\s*\+\s*1\s*\)")))
    fact("goto_fmt_line", "List Piece", lambda: pieces(grab(goto, r"else\s+if\s*\(\s*line\s*!=\s*-1\s*\)\s*tickit_termdrv_write_strf\s*\(\s*ttd\s*,\s*" + LIT + r"\s*,\s*line\s*\+\s*1\s*\)")))
    fact("goto_fmt_col", "List Piece", lambda: pieces(grab(goto, r"else\s+if\s*\(\s*col\s*>\s*0\s*\)\s*tickit_termdrv_write_strf\s*\(\s*ttd\s*,\s*" + LIT + r"\s*,\s*col\s*\+\s*1\s*\)")))
    g0 = r"else\s+if\s*\(\s*col\s*!=\s*-1\s*\)\s*tickit_termdrv_write_str\s*\(\s*ttd\s*,\s*" + LIT + r"\s*,\s*(\d+)\s*\)"
    fact("goto_col0", "List UInt8", lambda: lean_bytes(c_unescape(grab(goto, g0))))
    fact("goto_col0_len", "Nat", lambda: int(grab(goto, g0, 2)))

    sci = func_body(xterm, r"static\s+bool\s+setctl_int")
    def onoff(ctl):
        return r"case\s+TICKIT_TERMCTL_" + ctl + r"\s*:.*?tickit_termdrv_write_str\s*\(\s*ttd\s*,\s*value\s*\?\s*" + LIT + r"\s*:\s*" + LIT + r"\s*,\s*(\d+)\s*\)"
    for ctl, nm in (("ALTSCREEN", "altscreen"), ("CURSORVIS", "cursorvis")):
        fact(nm + "_on", "List UInt8", lambda ctl=ctl: lean_bytes(c_unescape(grab(sci, onoff(ctl), 1))))
        fact(nm + "_off", "List UInt8", lambda ctl=ctl: lean_bytes(c_unescape(grab(sci, onoff(ctl), 2))))
        fact(nm + "_setctl_len", "Nat", lambda ctl=ctl: int(grab(sci, onoff(ctl), 3)))

    scs = func_body(xterm, r"static\s+bool\s+setctl_str")
    fact("title_fmt", "List Piece", lambda: pieces(grab(scs, r"case\s+TICKIT_TERMCTL_TITLE_TEXT\s*:\s*tickit_termdrv_write_strf\s*\(\s*ttd\s*,\s*" + LIT + r"\s*,\s*value\s*\)")))

    tear = func_body(xterm, r"static\s+void\s+teardown")
    def wr(cond):
        return r"if\s*\(\s*" + cond + r"\s*\)\s*tickit_termdrv_write_str\s*\(\s*ttd\s*,\s*" + LIT + r"\s*,\s*(\d+)\s*\)"
    fact("teardown_cursorvis", "List UInt8", lambda: lean_bytes(c_unescape(grab(tear, wr(r"!\s*xd->mode\.cursorvis")))))
    fact("teardown_cursorvis_len", "Nat", lambda: int(grab(tear, wr(r"!\s*xd->mode\.cursorvis"), 2)))
    fact("teardown_altscreen", "List UInt8", lambda: lean_bytes(c_unescape(grab(tear, wr(r"xd->mode\.altscreen")))))
    fact("teardown_altscreen_len", "Nat", lambda: int(grab(tear, wr(r"xd->mode\.altscreen"), 2)))
    pen = r"tickit_termdrv_write_str\s*\(\s*ttd\s*,\s*" + LIT + r"\s*,\s*(\d+)\s*\)\s*;\s*$"
    fact("teardown_pen_reset", "List UInt8", lambda: lean_bytes(c_unescape(grab(tear.strip(), pen))))
    fact("teardown_pen_reset_len", "Nat", lambda: int(grab(tear.strip(), pen, 2)))
    fact("driver_teardown_flushes", "Bool", lambda: "true" if "tickit_term_flush" in tear else "false")

    res = func_body(xterm, r"static\s+void\s+resume")
    fact("resume_altscreen", "List UInt8", lambda: lean_bytes(c_unescape(grab(res, wr(r"xd->mode\.altscreen")))))
    fact("resume_altscreen_len", "Nat", lambda: int(grab(res, wr(r"xd->mode\.altscreen"), 2)))
    fact("resume_cursorvis", "List UInt8", lambda: lean_bytes(c_unescape(grab(res, wr(r"!\s*xd->mode\.cursorvis")))))
    fact("resume_cursorvis_len", "Nat", lambda: int(grab(res, wr(r"!\s*xd->mode\.cursorvis"), 2)))
    fact("driver_resume_flushes", "Bool", lambda: "true" if "tickit_term_flush" in res else "false")
    # stop and pause are the same driver function
    fact("stop_is_teardown", "Bool", lambda: "true" if re.search(r"\.stop\s*=\s*teardown\s*,", xterm) else "false")
    fact("pause_is_teardown", "Bool", lambda: "true" if re.search(r"\.pause\s*=\s*teardown\s*,", xterm) else "false")
    # print is a bare write_str
    pr = func_body(xterm, r"static\s+bool\s+print")
    fact("print_is_write_str", "Bool", lambda: "true" if re.fullmatch(r"\s*tickit_termdrv_write_str\s*\(\s*ttd\s*,\s*str\s*,\s*len\s*\)\s*;\s*return\s+true\s*;\s*", pr) else "false")

    body = ("namespace Tickit.Gen.TermBuf\n"
            "/-- One element of a printf format string as the xterm driver uses them: literal bytes, `%d`, `%s`. -/\n"
            "inductive Piece where\n  | lit (b : List UInt8)\n  | int\n  | str\nderiving Repr, DecidableEq\n")
    for name, (ty, v) in facts.items():
        body += f"def {name} : {ty} := {v}\n"
    for name in missing:
        body += f"-- not extracted: {name}\n"
    body += "end Tickit.Gen.TermBuf\n"
    write("TermBuf", body)
    info["termbuf"] = {"facts": sorted(facts), "missing": missing}
