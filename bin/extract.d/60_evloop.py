"""Extractor plugin for engine `evloop` (C17, C18): lean/Tickit/Gen/EvLoop.lean.

Read from the working tree on every run:
  * the flag / event / IO-condition / run-flag enum constants of include/tickit.h;
  * the mask each watch constructor of src/tickit.c applies to `flags` (`watch->flags = flags & (...)`);
  * the event flags handed to callbacks by tickit_evloop_invoke_timers, destroy_watchlist and
    tickit_watch_cancel, and the flag tests guarding the latter two;
  * the comparison used by the sorted insert and by the prefix consumption (`timercmp(..., >)`);
  * the revents -> condition and condition -> events tables of src/evloop-default.c;
  * which of the source variants the model distinguishes (`Config`) the tree is:
      timersPop       tickit_evloop_invoke_timers unlinks a timer before invoking it
      errnoSaved      evloop_run reads errno between ppoll() and tickit_evloop_invoke_timers()
      pendingInit     evloop_init empties pending_signals
      reventsCleared  evloop_io clears .revents of the slot it hands out
      invokeTypeSaved invoke_watch reads watch->type / watch->t before the callback only
      sigSnapshot     tickit_evloop_invoke_sigwatches walks a snapshot and checks watch_is_linked
      procSnapshot    on_sigchld does the same
      laterCancelMarks tickit_watch_cancel marks a deferred callback it did not find in t->laters WATCH_NONE (after the
                      UNBIND notification) and tickit_evloop_invoke_timers skips marked entries, clearing UNBIND of the
                      entry it is about to invoke
      processLinked   tickit_watch_process links the watch of a pre-exited child and keeps its later in process.notify,
                      tickit_watch_cancel cancels that later, process_notify clears the pointer
"""
import re, select


def run(ctx):
    src, strip, write, info = ctx.src, ctx.strip_c_comments, ctx.write, ctx.info
    hdr = strip(src("include/tickit.h"))
    tk = strip(src("src/tickit.c"))
    ev = strip(src("src/evloop-default.c"))
    notes = []

    # ---------------------------------------------------------------- enum constants
    consts = {}
    for m in re.finditer(r"\b(TICKIT_(?:BIND|EV|IO|RUN)_[A-Z]+)\s*=\s*\(?\s*(\d+)\s*(?:<<\s*(\d+))?\s*\)?\s*,", hdr):
        consts[m.group(1)] = int(m.group(2)) << int(m.group(3) or 0)

    def flagexpr(e):
        """value of `A|B|C` over the extracted constants (None if anything else appears)"""
        v = 0
        for part in e.replace("(", " ").replace(")", " ").split("|"):
            part = part.strip()
            if part not in consts:
                return None
            v |= consts[part]
        return v

    def body_of(text, name):
        m = re.search(r"\b" + name + r"\s*\([^;{]*\)\s*\{", text)
        if not m:
            return None
        i, depth = m.end(), 1
        while depth and i < len(text):
            depth += {"{": 1, "}": -1}.get(text[i], 0)
            i += 1
        return text[m.end():i - 1]

    def need(val, what, default=0):
        """A fact the plugin cannot read (the text was rewritten in a way its patterns do not anticipate) is
        recorded as unreadable and replaced by the value of the tree as shipped: a harmless rewrite must not
        become an alarm through Gen/; the hand model and the differential run still cover the function."""
        if val is None:
            notes.append(what)
            info["untranslatable"].append("evloop:" + what)
            return default
        return val

    # ---------------------------------------------------------------- constructor masks
    masks = {}
    for fn, key in [("tickit_watch_io", "io"), ("tickit_watch_timer_at_tv", "timer"), ("tickit_watch_later", "later"),
                    ("tickit_watch_signal", "signal"), ("tickit_watch_process", "process")]:
        b = body_of(tk, fn)
        v = None
        if b:
            m = re.search(r"watch\s*->\s*flags\s*=\s*flags\s*&\s*\(([^;]*)\)\s*;", b)
            if m:
                v = flagexpr(m.group(1))
        masks[key] = need(v, "mask:" + fn, 2 if key == "io" else 6)

    # ---------------------------------------------------------------- callback flags
    inv = body_of(tk, "tickit_evloop_invoke_timers") or ""
    calls = re.findall(r"\(\s*\*\s*(\w+)\s*->\s*fn\s*\)\s*\(\s*\w+\s*->\s*t\s*,\s*([^,]*),", inv)
    timer_flags = later_flags = None
    for var, fl in calls:
        if var == "this":
            timer_flags = flagexpr(fl)
        elif var == "later":
            later_flags = flagexpr(fl)
    timer_flags = need(timer_flags, "flags:invoke_timers/timer", 3)
    later_flags = need(later_flags, "flags:invoke_timers/later", 3)

    dl = body_of(tk, "destroy_watchlist") or ""
    m = re.search(r"if\s*\(\s*this\s*->\s*flags\s*&\s*\(([^)]*)\)\s*\)\s*\(\s*\*\s*this\s*->\s*fn\s*\)\s*\(\s*this\s*->\s*t\s*,\s*([^,]*),", dl)
    destroy_test = need(flagexpr(m.group(1)) if m else None, "flags:destroy_watchlist/test", 6)
    destroy_flags = need(flagexpr(m.group(2)) if m else None, "flags:destroy_watchlist/call", 6)

    wc = body_of(tk, "tickit_watch_cancel") or ""
    m = re.search(r"if\s*\(\s*this\s*->\s*flags\s*&\s*(\w+)\s*\)\s*\(\s*\*\s*this\s*->\s*fn\s*\)\s*\(\s*t\s*,\s*([^,]*),", wc)
    cancel_test = need(flagexpr(m.group(1)) if m else None, "flags:watch_cancel/test", 2)
    cancel_flags = need(flagexpr(m.group(2)) if m else None, "flags:watch_cancel/call", 2)

    sw = body_of(tk, "tickit_evloop_invoke_sigwatches") or ""
    m = re.search(r"\(\s*\*\s*this\s*->\s*fn\s*\)\s*\(\s*this\s*->\s*t\s*,\s*([^,]*),", sw)
    sig_flags = need(flagexpr(m.group(1)) if m else None, "flags:invoke_sigwatches", 1)

    # ---------------------------------------------------------------- comparisons
    at = body_of(tk, "tickit_watch_timer_at_tv") or ""
    m = re.search(r"while\s*\(\s*\*prevp\s*&&\s*!\s*timercmp\s*\(\s*&\s*\(\s*\*prevp\s*\)\s*->\s*timer\.at\s*,\s*at\s*,\s*([<>=!]+)\s*\)\s*\)", at)
    insert_cmp = need(m.group(1) if m else None, "cmp:sorted-insert", ">")
    m = re.search(r"if\s*\(\s*timercmp\s*\(\s*&\s*(?:this|t\s*->\s*timers)\s*->\s*timer\.at\s*,\s*&\s*now\s*,\s*([<>=!]+)\s*\)\s*\)\s*break", inv)
    due_cmp = need(m.group(1) if m else None, "cmp:due-test", ">")

    # ---------------------------------------------------------------- evloop-default.c tables
    run_b = body_of(ev, "evloop_run") or ""
    io_b = body_of(ev, "evloop_io") or ""
    init_b = body_of(ev, "evloop_init") or ""
    poll = {n: getattr(select, n) for n in ("POLLIN", "POLLOUT", "POLLHUP", "POLLERR", "POLLNVAL", "POLLPRI")}
    rev2cond = []
    for m in re.finditer(r"if\s*\(\s*revents\s*&\s*(POLL\w+)\s*\)\s*cond\s*\|=\s*(TICKIT_IO_\w+)\s*;", run_b):
        if m.group(1) in poll and m.group(2) in consts:
            rev2cond.append((poll[m.group(1)], consts[m.group(2)]))
    cond2ev = []
    for m in re.finditer(r"if\s*\(\s*cond\s*&\s*(TICKIT_IO_\w+)\s*\)\s*events\s*\|=\s*(POLL\w+)\s*;", io_b):
        if m.group(2) in poll and m.group(1) in consts:
            cond2ev.append((consts[m.group(1)], poll[m.group(2)]))
    if len(rev2cond) != 5:
        rev2cond = need(None, "table:revents->cond", [(1, 1), (4, 2), (16, 4), (8, 8), (32, 16)])
    if len(cond2ev) != 3:
        cond2ev = need(None, "table:cond->events", [(1, 1), (2, 4), (4, 16)])

    # ---------------------------------------------------------------- source variants
    # timersPop: inside the loop of tickit_evloop_invoke_timers the head is unlinked (`t->timers = ...->next`)
    # textually before the callback is invoked.
    call_pos = inv.find("->fn)")
    unlink = re.search(r"t\s*->\s*timers\s*=\s*\w+\s*->\s*next\s*;", inv)
    timers_pop = bool(unlink and call_pos >= 0 and unlink.start() < call_pos)
    # errnoSaved: errno is read between ppoll()/poll() and tickit_evloop_invoke_timers(), and not afterwards.
    p_poll = max(run_b.find("ppoll("), run_b.find(" poll("))
    p_inv = run_b.find("tickit_evloop_invoke_timers")
    errno_pos = [m.start() for m in re.finditer(r"\berrno\b", run_b)]
    errno_saved = bool(errno_pos) and p_inv >= 0 and all(p_poll < p < p_inv for p in errno_pos)
    pending_init = bool(re.search(r"sigemptyset\s*\(\s*&\s*evdata\s*->\s*pending_signals\s*\)", init_b))
    revents_cleared = bool(re.search(r"pollfds\s*\[\s*idx\s*\]\s*\.\s*revents\s*=\s*0\s*;", io_b))
    # invokeTypeSaved: invoke_watch copies watch->type before the callback and does not look at the watch afterwards
    iw = body_of(tk, "invoke_watch") or ""
    iw_call = iw.find("->fn)")
    iw_saved = re.search(r"=\s*watch\s*->\s*type\s*;", iw)
    invoke_type_saved = bool(iw_saved and iw_call >= 0 and iw_saved.start() < iw_call
                             and not re.search(r"switch\s*\(\s*watch\s*->\s*type", iw)
                             and not re.search(r"watch\s*->\s*t\s*->", iw[iw_call:]))

    # sigSnapshot / procSnapshot: the loop asks watch_is_linked() before it uses an entry of a snapshot
    sig_snapshot = bool(re.search(r"snapshot_watchlist\s*\(\s*t\s*->\s*signals", sw) and
                        re.search(r"watch_is_linked\s*\(\s*t\s*->\s*signals", sw))
    oc = body_of(tk, "on_sigchld") or ""
    proc_snapshot = bool(re.search(r"snapshot_watchlist\s*\(\s*t\s*->\s*processes", oc) and
                         re.search(r"watch_is_linked\s*\(\s*t\s*->\s*processes", oc))

    # laterCancelMarks: tickit_watch_cancel has a tail for `!found && watch->type == WATCH_LATER` that sets WATCH_NONE,
    # and the later loop of tickit_evloop_invoke_timers tests `later->type == WATCH_LATER` and clears UNBIND before the call
    later_marks = bool(re.search(r"!\s*found\s*&&\s*watch\s*->\s*type\s*==\s*WATCH_LATER", wc) and
                       re.search(r"watch\s*->\s*type\s*=\s*WATCH_NONE", wc) and
                       re.search(r"if\s*\(\s*later\s*->\s*type\s*==\s*WATCH_LATER\s*\)", inv) and
                       re.search(r"later\s*->\s*flags\s*&=\s*~\s*TICKIT_BIND_UNBIND", inv))

    # processLinked: tickit_watch_process keeps the later of a pre-exited child in process.notify and links the watch;
    # tickit_watch_cancel cancels that later; process_notify clears the pointer
    wp = body_of(tk, "tickit_watch_process") or ""
    pn = body_of(tk, "process_notify") or ""
    process_linked = bool(re.search(r"process\s*\.\s*notify\s*=\s*tickit_watch_later\s*\(", wp) and
                          not re.search(r"tickit_watch_later\s*\([^;]*;\s*return\s+watch\s*;", wp) and
                          re.search(r"if\s*\(\s*this\s*->\s*process\s*\.\s*notify\s*\)\s*tickit_watch_cancel\s*\(\s*t\s*,\s*this\s*->\s*process\s*\.\s*notify\s*\)", wc) and
                          re.search(r"process\s*\.\s*notify\s*=\s*NULL", pn))

    # sigpipeViaInvoke: on_sigpipe_readable (self-pipe fallback) does not walk t->signals itself (no `this->next`)
    # but hands each signal of its snapshot to tickit_evloop_invoke_sigwatches
    sp = body_of(tk, "on_sigpipe_readable") or ""
    sigpipe_via_invoke = bool(re.search(r"tickit_evloop_invoke_sigwatches\s*\(\s*t\s*,", sp) and
                              not re.search(r"this\s*->\s*next", sp))
    # sigpipeClearsInSnapshot: t->signal.pending is emptied between the two sigprocmask calls, i.e. atomically with
    # taking the snapshot (recorded only; the model has no variant for anything else)
    m1 = [m.start() for m in re.finditer(r"sigprocmask\s*\(", sp)]
    m2 = re.search(r"sigemptyset\s*\(\s*&\s*t\s*->\s*signal\s*\.\s*pending\s*\)", sp)
    sigpipe_clear_in_snapshot = bool(len(m1) == 2 and m2 and m1[0] < m2.start() < m1[1])

    def lst(pairs):
        return "[" + ", ".join(f"({a}, {b})" for a, b in pairs) + "]"

    def b(x):
        return "true" if x else "false"

    body = "namespace Tickit.Gen.EvLoop\n"
    for name in sorted(consts):
        body += f"def {name} : Nat := {consts[name]}\n"
    for key in ("io", "timer", "later", "signal", "process"):
        body += f"/-- `watch->flags = flags & (...)` in the constructor. -/\ndef {key}FlagMask : Nat := {masks[key]}\n"
    body += f"def timerCallFlags : Nat := {timer_flags}\n"
    body += f"def laterCallFlags : Nat := {later_flags}\n"
    body += f"def destroyTestMask : Nat := {destroy_test}\n"
    body += f"def destroyCallFlags : Nat := {destroy_flags}\n"
    body += f"def cancelTestMask : Nat := {cancel_test}\n"
    body += f"def cancelCallFlags : Nat := {cancel_flags}\n"
    body += f"def sigCallFlags : Nat := {sig_flags}\n"
    body += f"/-- `while(*prevp && !timercmp(&(*prevp)->timer.at, at, OP))` -/\ndef insertCmp : String := \"{insert_cmp}\"\n"
    body += f"/-- `if(timercmp(&this->timer.at, &now, OP)) break;` -/\ndef dueCmp : String := \"{due_cmp}\"\n"
    body += f"/-- `if(revents & POLLx) cond |= TICKIT_IO_y;` as (POLLx, TICKIT_IO_y) -/\ndef reventsToCond : List (Nat × Nat) := {lst(rev2cond)}\n"
    body += f"/-- `if(cond & TICKIT_IO_y) events |= POLLx;` as (TICKIT_IO_y, POLLx) -/\ndef condToEvents : List (Nat × Nat) := {lst(cond2ev)}\n"
    body += f"def timersPop : Bool := {b(timers_pop)}\n"
    body += f"def errnoSaved : Bool := {b(errno_saved)}\n"
    body += f"def pendingInit : Bool := {b(pending_init)}\n"
    body += f"def reventsCleared : Bool := {b(revents_cleared)}\n"
    body += f"def invokeTypeSaved : Bool := {b(invoke_type_saved)}\n"
    body += f"def sigSnapshot : Bool := {b(sig_snapshot)}\n"
    body += f"def procSnapshot : Bool := {b(proc_snapshot)}\n"
    body += f"def laterCancelMarks : Bool := {b(later_marks)}\n"
    body += f"def processLinked : Bool := {b(process_linked)}\n"
    body += f"def sigpipeViaInvoke : Bool := {b(sigpipe_via_invoke)}\n"
    body += "end Tickit.Gen.EvLoop\n"
    write("EvLoop", body)
    info["evloop"] = {"masks": masks, "timersPop": timers_pop, "errnoSaved": errno_saved, "pendingInit": pending_init,
                      "reventsCleared": revents_cleared, "invokeTypeSaved": invoke_type_saved, "sigSnapshot": sig_snapshot, "procSnapshot": proc_snapshot, "laterCancelMarks": later_marks, "processLinked": process_linked, "sigpipeViaInvoke": sigpipe_via_invoke, "sigpipeClearInSnapshot": sigpipe_clear_in_snapshot, "insertCmp": insert_cmp, "dueCmp": due_cmp,
                      "unreadable": notes}
