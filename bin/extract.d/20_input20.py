"""Extractor plugin: facts of the input side of term.c that the C20 model and theorems depend on.

Emits lean/Tickit/Gen/InputXlate.lean:
  * enum constants of include/tickit.h (mouse/key event types, wheel directions, modifiers) and of the
    installed <termkey.h> (mouse event kinds, results, modifiers),
  * the literals of got_key (wheel threshold and offset, start of the X10 release loop, the position
    decrement), MSEC / SECOND, the type of TickitTerm.mouse_buttons_held, the strfkey buffer size,
  * two facts about the *shape* of the code that decide which variant the model follows:
      pushLoops         tickit_term_input_push_bytes uses the return value of termkey_push_bytes in a loop
      dropUnknownMouse  the default: arm of switch(ev) in got_key returns instead of emitting type -1
"""
import re, os, subprocess


def enum_constants(text):
    """All enumerators of all `enum { … }` blocks of a header, with C's implicit increments.
    Values may be integer literals, `1 << n`, or earlier enumerators."""
    out = {}
    for m in re.finditer(r"\benum\b[^{;]*\{(.*?)\}", text, flags=re.S):
        nxt = 0
        for item in m.group(1).split(","):
            item = item.strip()
            if not item:
                continue
            mm = re.match(r"^([A-Za-z_]\w*)\s*(?:=\s*(.+))?$", item, flags=re.S)
            if not mm:
                continue
            name, val = mm.group(1), mm.group(2)
            if val is not None:
                val = val.strip()
                try:
                    v = int(eval(val, {"__builtins__": {}}, dict(out)))
                except Exception:
                    continue
                nxt = v
            out[name] = nxt
            nxt += 1
    return out


def function_body(text, name):
    m = re.search(r"\b" + re.escape(name) + r"\s*\([^;{]*\)\s*\{", text)
    if not m:
        return None
    i, d = m.end(), 1
    while i < len(text) and d:
        d += {"{": 1, "}": -1}.get(text[i], 0)
        i += 1
    return text[m.end():i - 1]


def run(ctx):
    src, strip, write, info = ctx.src, ctx.strip_c_comments, ctx.write, ctx.info
    term = strip(src("src/term.c"))
    hdr = enum_constants(strip(src("include/tickit.h")))
    tkh_path = "/usr/include/termkey.h"
    try:
        inc = subprocess.run(["pkg-config", "--variable=includedir", "termkey"], capture_output=True, text=True).stdout.strip()
        if inc and os.path.exists(os.path.join(inc, "termkey.h")):
            tkh_path = os.path.join(inc, "termkey.h")
    except Exception:
        pass
    try:
        tkh = enum_constants(strip(open(tkh_path).read()))
    except OSError:
        tkh = {}
    facts, missing = {}, []
    # What the model assumes.  A fact that cannot be read any more (the code was rewritten) falls back to this
    # value and is recorded as `untranslatable` in the evidence: a harmless rewrite never becomes an alarm through
    # the generated file (DESIGN 4.1); the differential run still covers the function.
    DEFAULTS = {"MOUSEEV_PRESS": 1, "MOUSEEV_DRAG": 2, "MOUSEEV_RELEASE": 3, "MOUSEEV_WHEEL": 4, "MOUSEWHEEL_UP": 1,
                "MOUSEWHEEL_DOWN": 2, "KEYEV_KEY": 1, "KEYEV_TEXT": 2, "MOD_SHIFT": 1, "MOD_ALT": 2, "MOD_CTRL": 4,
                "TERMKEY_MOUSE_UNKNOWN": 0, "TERMKEY_MOUSE_PRESS": 1, "TERMKEY_MOUSE_DRAG": 2, "TERMKEY_MOUSE_RELEASE": 3,
                "TERMKEY_KEYMOD_SHIFT": 1, "TERMKEY_KEYMOD_ALT": 2, "TERMKEY_KEYMOD_CTRL": 4,
                "wheelFirstButton": 4, "wheelOffsetBase": 4, "releaseLoopStart": 1, "strfkeyBuffer": 64,
                "MSEC": 1000, "SECOND": 1000000, "positionDecrement": 1, "heldMaskShiftLimit": 31}

    def const(table, cname, lname, ty="Int"):
        if cname in table:
            facts[lname] = (ty, table[cname])
        else:
            facts[lname] = (ty, DEFAULTS[lname])
            missing.append(cname)

    for c in ["TICKIT_MOUSEEV_PRESS", "TICKIT_MOUSEEV_DRAG", "TICKIT_MOUSEEV_RELEASE", "TICKIT_MOUSEEV_WHEEL",
              "TICKIT_MOUSEWHEEL_UP", "TICKIT_MOUSEWHEEL_DOWN", "TICKIT_KEYEV_KEY", "TICKIT_KEYEV_TEXT",
              "TICKIT_MOD_SHIFT", "TICKIT_MOD_ALT", "TICKIT_MOD_CTRL"]:
        const(hdr, c, c[len("TICKIT_"):])
    for c in ["TERMKEY_MOUSE_UNKNOWN", "TERMKEY_MOUSE_PRESS", "TERMKEY_MOUSE_DRAG", "TERMKEY_MOUSE_RELEASE",
              "TERMKEY_KEYMOD_SHIFT", "TERMKEY_KEYMOD_ALT", "TERMKEY_KEYMOD_CTRL"]:
        const(tkh, c, c)

    got_key = function_body(term, "got_key") or ""
    push = function_body(term, "tickit_term_input_push_bytes") or ""

    def lit(rx, text, lname, ty="Int"):
        m = re.search(rx, text, flags=re.S)
        if m:
            facts[lname] = (ty, int(m.group(1)))
        else:
            facts[lname] = (ty, DEFAULTS[lname])
            missing.append(lname)

    lit(r"ev\s*==\s*TERMKEY_MOUSE_PRESS\s*&&\s*info\.button\s*>=\s*(\d+)", got_key, "wheelFirstButton")
    lit(r"info\.button\s*-=\s*\(\s*(\d+)\s*-\s*TICKIT_MOUSEWHEEL_UP\s*\)", got_key, "wheelOffsetBase")
    lit(r"for\s*\(\s*info\.button\s*=\s*(\d+)\s*;\s*tt->mouse_buttons_held\s*;\s*info\.button\+\+\s*\)", got_key, "releaseLoopStart", "Nat")
    lit(r"char\s+buffer\s*\[\s*(\d+)\s*\]", got_key, "strfkeyBuffer", "Nat")
    lit(r"#\s*define\s+MSEC\s+(\d+)", term, "MSEC")
    lit(r"#\s*define\s+SECOND\s+(\d+)", term, "SECOND")
    # positions: TermKey is 1-based, Tickit is 0-based
    if re.search(r"info\.line--\s*;", got_key) and re.search(r"info\.col--\s*;", got_key):
        facts["positionDecrement"] = ("Int", 1)
    else:
        facts["positionDecrement"] = ("Int", DEFAULTS["positionDecrement"])
        missing.append("positionDecrement")
    # the held mask is a plain int: 31 value bits
    m = re.search(r"\b(unsigned\s+int|unsigned|int|long|unsigned\s+long)\s+mouse_buttons_held\s*;", term)
    held_ty = m.group(1) if m else None
    facts["heldMaskShiftLimit"] = ("Nat", {"int": 31, "unsigned": 32, "unsigned int": 32, "long": 63, "unsigned long": 64}.get(held_ty, DEFAULTS["heldMaskShiftLimit"]))
    if held_ty is None:
        missing.append("mouse_buttons_held")

    # shape facts
    m = re.search(r"switch\s*\(\s*ev\s*\)\s*\{(.*?)\}", got_key, flags=re.S)
    default_arm = ""
    if m:
        mm = re.search(r"default\s*:(.*)$", m.group(1), flags=re.S)
        default_arm = mm.group(1) if mm else ""
    else:
        missing.append("switch(ev)")
    drop_unknown = bool(re.search(r"\breturn\b", default_arm))
    push_loops = bool(re.search(r"\b(while|for|do)\b", push)) and bool(re.search(r"=\s*termkey_push_bytes\s*\(", push))
    if "termkey_push_bytes" not in push:
        missing.append("tickit_term_input_push_bytes")

    body = "namespace Tickit.Gen.InputXlate\n"
    for k, (ty, v) in facts.items():
        body += f"def {k} : {ty} := {v}\n"
    body += f"def dropUnknownMouse : Bool := {'true' if drop_unknown else 'false'}\n"
    body += f"def pushLoops : Bool := {'true' if push_loops else 'false'}\n"
    body += "end Tickit.Gen.InputXlate\n"
    write("InputXlate", body)
    info["input20"] = {k: v for k, (_, v) in facts.items()}
    info["input20"]["dropUnknownMouse"] = drop_unknown
    info["input20"]["pushLoops"] = push_loops
    info["input20"]["termkey_header"] = tkh_path
    for x in missing:
        info["untranslatable"].append("input20:" + x)
