"""Extractor plugin: termdriver-xterm.c facts the C09 theorems depend on.

  * the string literals (escape-sequence formats) of goto_abs / move_rel / scrollrect / erasech / clear, in source
    order — Props/C09.lean proves them equal to the formats the model was written from, so a changed final byte,
    parameter order or separator breaks a proof obligation at build time;
  * the chunk size of the reverse-video erase loop (all five occurrences must agree);
  * whether the two repairs proposed in fixes/ are present in the working tree (the model mirrors either version):
      eraseKeepsCount  the erase loop counts down a variable other than the one passed to move_rel afterwards
      scrollGuard      scrollrect refuses rectangles whose DECSTBM / DECSLRM margins would be degenerate
      printnGuard      tickit_term_printn (src/term.c) returns at once for len == 0
      scrollCellGuard  the one-line ICH/DCH path of scrollrect refuses when its right margin would be column 1
  * slrmAccept: the DECRPM reply values that on_modereport case 69 takes for DECSLRM support (the disjunction of
    `value == N` tests guarding `xd->cap.slrm = 1`); any other shape of the condition is reported as untranslatable
    and the values of the unchanged tree (1, 2) are kept, so that the correspondence check exposes the difference.
"""
import re


def lean_bytes(c_literal):
    """C string literal body -> Lean `List UInt8` literal"""
    out = []
    i = 0
    s = c_literal
    while i < len(s):
        ch = s[i]
        if ch == "\\" and i + 1 < len(s):
            n = s[i + 1]
            if n == "e":
                out.append(0x1b)
            elif n in "\\\"'":
                out.append(ord(n))
            elif n == "n":
                out.append(10)
            else:
                raise ValueError("escape \\" + n)
            i += 2
        else:
            out += list(ch.encode())
            i += 1
    return "[" + ", ".join("0x%02x" % b for b in out) + "]"


def lean_str(c_literal):
    out = []
    i = 0
    s = c_literal
    while i < len(s):
        ch = s[i]
        if ch == "\\" and i + 1 < len(s):
            n = s[i + 1]
            if n == "e":
                out.append("\\x1b")
            elif n in "\\\"'":
                out.append("\\" + n)
            elif n == "n":
                out.append("\\n")
            else:
                raise ValueError("escape \\" + n)
            i += 2
        else:
            out.append(ch)
            i += 1
    return '"' + "".join(out) + '"'


def run(ctx):
    text = ctx.strip_c_comments(ctx.src("src/termdriver-xterm.c"))
    info = ctx.info
    body = "namespace Tickit.Gen.XTermFacts\n"
    facts = {}

    def fn_body(name):
        m = re.search(r"static\s+bool\s+" + name + r"\s*\([^)]*\)\s*\{(.*?)\n\}", text, re.S)
        if not m:
            info["untranslatable"].append("xterm:" + name)
            return None
        return m.group(1)

    for name in ["goto_abs", "move_rel", "scrollrect", "erasech", "clear"]:
        b = fn_body(name)
        lits = []
        if b is not None:
            try:
                raw = re.findall(r'"((?:[^"\\]|\\.)*)"', b)
                lits = [lean_bytes(x) for x in raw]
                body += f"-- {name}: " + " ".join(lean_str(x) for x in raw) + "\n"
            except ValueError as e:
                info["untranslatable"].append(f"xterm:{name}:{e}")
                lits = []
        body += f"def {name}_formats : List (List UInt8) := [\n  " + ",\n  ".join(lits) + "]\n"
        facts[name + "_formats"] = len(lits)

    er = fn_body("erasech") or ""
    nums = re.findall(r"get_tmpbuffer\s*\(\s*ttd\s*,\s*(\d+)\s*\)", er) + re.findall(r"memset\s*\(\s*spaces\s*,\s*' '\s*,\s*(\d+)\s*\)", er) + \
        re.findall(r"while\s*\(\s*\w+\s*>\s*(\d+)\s*\)", er) + re.findall(r"write_str\s*\(\s*ttd\s*,\s*spaces\s*,\s*(\d+)\s*\)", er) + \
        re.findall(r"\w+\s*-=\s*(\d+)", er)
    chunk = int(nums[0]) if len(nums) == 5 and len(set(nums)) == 1 else 0
    if chunk == 0:
        info["untranslatable"].append("xterm:erase-chunk:" + ",".join(nums))
    loopvar = re.search(r"while\s*\(\s*(\w+)\s*>\s*\d+\s*\)", er)
    movevar = re.search(r"move_rel\s*\(\s*ttd\s*,\s*0\s*,\s*-\s*(\w+)\s*\)", er)
    keeps = bool(loopvar and movevar and loopvar.group(1) != movevar.group(1))
    if not (loopvar and movevar):
        info["untranslatable"].append("xterm:erase-loop-shape")
    sc = fn_body("scrollrect") or ""
    guard = bool(re.search(r"if\s*\(\s*rect->lines\s*<\s*2\s*\|\|\s*\(\s*\(\s*rect->left\s*>\s*0\s*\|\|\s*right\s*<\s*term_cols\s*\)\s*&&\s*rect->cols\s*<\s*2\s*\)\s*\)\s*return\s+false\s*;", sc))
    # fixes/C09_scroll_one_cell.patch: the one-line ICH/DCH path refuses a right margin at column 1
    cellguard = bool(re.search(r"if\s*\(\s*right\s*<\s*term_cols\s*&&\s*right\s*<\s*2\s*\)\s*return\s+false\s*;", sc))
    term = ctx.strip_c_comments(ctx.src("src/term.c"))
    mp = re.search(r"void\s+tickit_term_printn\s*\([^)]*\)\s*\{(.*?)\n\}", term, re.S)
    if not mp:
        info["untranslatable"].append("term:tickit_term_printn")
    pguard = bool(mp and re.search(r"if\s*\(\s*(!\s*len|len\s*==\s*0)\s*\)\s*return\s*;", mp.group(1)))
    accept = None
    mm = re.search(r"static\s+int\s+on_modereport\s*\([^)]*\)\s*\{(.*?)\n\}", text, re.S)
    mc = mm and re.search(r"case\s+69\s*:(.*?)break\s*;", mm.group(1), re.S)
    mi = mc and re.search(r"if\s*\(((?:[^()]|\([^()]*\))*)\)\s*xd->cap\.slrm\s*=\s*1\s*;", mc.group(1))
    if mi:
        terms = [t.strip() for t in mi.group(1).split("||")]
        vals = [re.fullmatch(r"\(?\s*value\s*==\s*(\d+)\s*\)?", t) for t in terms]
        if all(vals):
            accept = [int(v.group(1)) for v in vals]
    if accept is None:
        info["untranslatable"].append("xterm:on_modereport-69-condition")
        accept = [1, 2]
    body += f"def slrmAccept : List Nat := [{', '.join(str(v) for v in accept)}]\n"
    body += f"def printnGuard : Bool := {'true' if pguard else 'false'}\n"
    body += f"def eraseChunk : Nat := {chunk}\n"
    body += f"def eraseKeepsCount : Bool := {'true' if keeps else 'false'}\n"
    body += f"def scrollGuard : Bool := {'true' if guard else 'false'}\n"
    body += f"def scrollCellGuard : Bool := {'true' if cellguard else 'false'}\n"
    body += "end Tickit.Gen.XTermFacts\n"
    ctx.write("XTermFacts", body)
    facts.update({"eraseChunk": chunk, "eraseKeepsCount": keeps, "scrollGuard": guard, "scrollCellGuard": cellguard, "printnGuard": pguard, "slrmAccept": accept})
    info["xterm"] = facts
