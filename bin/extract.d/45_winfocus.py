"""Extractor plugin for engine `focus` (C15): facts of src/window.c the model, the harness mirror and the theorems rely on.

Emits lean/Tickit/Gen/WinFocusSrc.lean:
  * `windowFields`  — the fields of `struct TickitWindow` up to `refcount`, in order, with bit widths (the harness
                      mirrors exactly this prefix to read `focused_child` and the cursor position);
  * `initCursor…`   — the cursor record `init_window` establishes;
  * `fixes`         — which of the repairs proposed by this engine the working tree carries (read off the source text),
                      so that the model follows the tree being checked;
  * `termResizeAsModelled` — `on_term_resize` has the shape the model transcribes;
  * `restoreShape`  — the shape of `_do_restore`'s walk and condition, as booleans the theorems name.
"""
import re


def body_of(text, name):
    """text of the body `{...}` of the definition of function `name`"""
    for m in re.finditer(r"\b" + re.escape(name) + r"\s*\([^;{)]*\)\s*\{", text):
        i = m.end() - 1
        d = 0
        for j in range(i, len(text)):
            if text[j] == "{": d += 1
            elif text[j] == "}":
                d -= 1
                if d == 0:
                    return text[i:j + 1]
    return None


def norm(s):
    return re.sub(r"\s+", "", s)


def run(ctx):
    src, strip, write, info = ctx.src, ctx.strip_c_comments, ctx.write, ctx.info
    w = strip(src("src/window.c"))
    hdr = strip(src("include/tickit.h"))

    # ---- struct TickitWindow prefix
    m = re.search(r"struct\s+TickitWindow\s*\{(.*?)\n\};", w, re.S)
    fields = []
    if m:
        txt = m.group(1)
        # flatten the anonymous cursor struct: struct { ... } cursor;
        def flat(mm):
            inner = mm.group(1); nm = mm.group(2)
            return " ".join(re.sub(r"(\w+)(\s*(?::\s*\d+)?\s*;)", lambda q: nm + "." + q.group(1) + q.group(2), d + ";") for d in inner.split(";") if d.strip())
        txt = re.sub(r"struct\s*\{(.*?)\}\s*(\w+)\s*;", flat, txt, flags=re.S)
        for d in txt.split(";"):
            d = d.strip()
            if not d: continue
            mm = re.match(r"(.*?)([\w.]+)\s*(?::\s*(\d+))?$", d, re.S)
            if not mm: continue
            ty = norm(mm.group(1)); nm = mm.group(2); bits = mm.group(3)
            fields.append((nm, ty, int(bits) if bits else 0))
            if nm == "refcount": break
    else:
        info["untranslatable"].append("winfocus:struct TickitWindow")

    # ---- init_window cursor record
    init = body_of(w, "init_window") or ""
    def init_val(f, default):
        mm = re.search(r"win->cursor\." + f + r"\s*=\s*([^;]+);", init)
        if not mm:
            info["untranslatable"].append("winfocus:init_window cursor." + f); return default
        v = mm.group(1).strip()
        if v == "true": return 1
        if v == "false": return 0
        if re.fullmatch(r"-?\d+", v): return int(v)
        # an enum constant of tickit.h
        em = re.search(r"\b" + re.escape(v) + r"\s*=\s*(-?\d+)", hdr)
        if em: return int(em.group(1))
        info["untranslatable"].append("winfocus:init value " + v); return default
    ic = {f: init_val(f, d) for f, d in (("line", 0), ("col", 0), ("shape", 1), ("visible", 1), ("blink", -1))}

    # ---- which repairs does the tree carry
    dr = norm(body_of(w, "_do_restore") or "")
    fg = norm(body_of(w, "_focus_gained") or "")
    sh = norm(body_of(w, "tickit_window_show") or "")
    hi = norm(body_of(w, "tickit_window_hide") or "")
    hc = body_of(w, "_do_hierarchy_change") or ""
    mrem = re.search(r"case\s+TICKIT_HIERARCHY_REMOVE\s*:(.*?)break\s*;", hc, re.S)
    rem = norm(mrem.group(1)) if mrem else ""
    cond = re.search(r"if\((win&&.*?_cell_visible\(win,win->cursor\.line,win->cursor\.col\))\)", dr)
    cond = cond.group(1) if cond else ""
    if not cond: info["untranslatable"].append("winfocus:_do_restore condition")
    hide_root = bool(re.search(r"elseif\(win->is_root\)_request_restore\(", hi))
    if ("win->is_visible" in cond) != hide_root:
        info["untranslatable"].append("winfocus:hidden-root repair only in part of _do_restore/hide")
    hidden_root = ("win->is_visible" in cond) and hide_root
    chain = [("_request_restore" in b) for b in (sh, re.sub(r"elseif\(win->is_root\)_request_restore\([^;]*;", "", hi), rem)]
    if any(chain) and not all(chain):
        info["untranslatable"].append("winfocus:restore requests on chain changes only in part of show/hide/REMOVE")
    chain_restore = all(chain)
    first_if = re.search(r"^\{if\((.*?)\)", fg)
    first_if = first_if.group(1) if first_if else ""
    if not first_if: info["untranslatable"].append("winfocus:_focus_gained first condition")
    focus_events = ("&&child&&" not in first_if) and ("TICKIT_FOCUSEV_OUT" in fg)
    if ("&&child&&" not in first_if) != ("TICKIT_FOCUSEV_OUT" in fg):
        info["untranslatable"].append("winfocus:_focus_gained partly repaired")

    # ---- on_term_resize: resize of the root window, exposes of the area gained; repaired: a restore request
    tr = norm(body_of(w, "on_term_resize") or "")
    if not tr: info["untranslatable"].append("winfocus:on_term_resize")
    resize_shape = ("tickit_window_resize(win,info->lines,info->cols);" in tr and
                    "if(info->lines>oldlines){TickitRectdamage={.top=oldlines,.left=0,.lines=info->lines-oldlines,.cols=info->cols,};tickit_window_expose(win,&damage);}" in tr and
                    "if(info->cols>oldcols){TickitRectdamage={.top=0,.left=oldcols,.lines=oldlines,.cols=info->cols-oldcols,};tickit_window_expose(win,&damage);}" in tr)
    resize_restore = "_request_restore(root);" in tr

    # ---- the mock terminal's cursor (src/mockterm.c), as `TermCall.onMock` / `TermCursor.mockResize` transcribe it
    mk = strip(src("src/mockterm.c"))
    msc = norm(body_of(mk, "mtd_setctl_int") or "")
    mga = norm(body_of(mk, "mtd_goto_abs") or "")
    mrs = norm(body_of(mk, "tickit_mockterm_resize") or "")
    mnew = norm(body_of(mk, "tickit_mockterm_new") or "")
    mock_setctl = ("caseTICKIT_TERMCTL_CURSORVIS:mtd->cursorvis=!!value;break;" in msc and
                   "caseTICKIT_TERMCTL_CURSORBLINK:mtd->cursorblink=!!value;break;" in msc and
                   "caseTICKIT_TERMCTL_CURSORSHAPE:mtd->cursorshape=value;break;" in msc)
    mock_bound = "#defineBOUND(var,min,max)\\if(var<(min))var=(min);\\if(var>(max))var=(max)" in norm(mk)
    mock_goto = ("BOUND(line,0,mtd->lines-1);BOUND(col,0,mtd->cols-1);" in mga and "mtd->line=line;mtd->col=col;" in mga)
    mock_resize = mrs.endswith("tickit_term_set_size((TickitTerm*)mt,newlines,newcols);BOUND(mtd->line,0,mtd->lines-1);BOUND(mtd->col,0,mtd->cols-1);}")
    mock_init = all(x in mnew for x in ("mtd->line=-1;", "mtd->col=-1;", "mtd->cursorvis=0;", "mtd->cursorblink=0;", "mtd->cursorshape=0;"))
    if not (msc and mga and mrs and mnew): info["untranslatable"].append("winfocus:mockterm.c cursor functions")

    # ---- repairs of other engines that show in this engine's observations (the rectangles flush hands to the root)
    fl = norm(body_of(w, "tickit_window_flush") or "")
    flush_skips = "if(!root_window->is_visible)continue;" in fl
    flush_clips = "if(!tickit_rect_intersect(rect,rect,&(TickitRect){.top=0,.left=0,.lines=root_window->rect.lines,.cols=root_window->rect.cols}))continue;" in fl
    if not fl: info["untranslatable"].append("winfocus:tickit_window_flush")

    # ---- shape of the unchanged parts the model transcribes (a change here makes the `src_shape` theorem fail)
    walk_ok = "while(win){if(!win->is_visible)break;if(!win->focused_child)break;win=win->focused_child;}" in dr
    cond_parts = [p for p in cond.split("&&")]
    b = lambda x: "true" if x else "false"
    body = "import Tickit.Model.WinFocus\nnamespace Tickit.Gen.WinFocusSrc\n"
    body += "/-- (name, C type, bit width or 0) of the fields of `struct TickitWindow` up to `refcount`. -/\n"
    body += "def windowFields : List (String × String × Nat) := [\n  " + ",\n  ".join('("%s", "%s", %d)' % f for f in fields) + "\n]\n"
    body += "def initCursorLine : Int := %d\ndef initCursorCol : Int := %d\ndef initCursorShape : Int := %d\ndef initCursorVisible : Bool := %s\ndef initCursorBlink : Int := %d\n" % (
        ic["line"], ic["col"], ic["shape"], b(ic["visible"]), ic["blink"])
    body += "/-- the repairs of fixes/C15_*.patch present in the working tree -/\n"
    body += "def fixes : Tickit.WinFocus.Fixes := { hiddenRoot := %s, chainRestore := %s, focusEvents := %s, flushSkipsHiddenRoot := %s, flushClipsDamage := %s, resizeRestore := %s }\n" % (
        b(hidden_root), b(chain_restore), b(focus_events), b(flush_skips), b(flush_clips), b(resize_restore))
    body += "/-- `on_term_resize` resizes the root window and exposes the lines and the columns gained, as the model transcribes -/\n"
    body += "def termResizeAsModelled : Bool := %s\n" % b(resize_shape)
    body += "/-- src/mockterm.c: `mtd_setctl_int` stores `!!value` for CURSORVIS and CURSORBLINK and the raw value for CURSORSHAPE, each case ending in `break` -/\n"
    body += "def mockSetctlAsModelled : Bool := %s\n" % b(mock_setctl)
    body += "/-- src/mockterm.c: `BOUND` is the two-`if` clamp; `mtd_goto_abs` clamps line and column to the screen and stores them; `tickit_mockterm_resize` clamps the stored position last; `tickit_mockterm_new` starts at -1,-1 with the three controls 0 -/\n"
    body += "def mockCursorAsModelled : Bool := %s\n" % b(mock_bound and mock_goto and mock_resize and mock_init)
    body += "/-- `_do_restore` walks `focused_child` from the root and stops at the first invisible window or missing link -/\n"
    body += "def restoreWalkAsModelled : Bool := %s\n" % b(walk_ok)
    body += "/-- the conjuncts of the condition under which `_do_restore` shows the cursor -/\n"
    body += "def restoreCondition : List String := [" + ", ".join('"%s"' % p for p in cond_parts) + "]\n"
    body += "end Tickit.Gen.WinFocusSrc\n"
    write("WinFocusSrc", body)
    info["winfocus"] = {"fixes": {"hiddenRoot": hidden_root, "chainRestore": chain_restore, "focusEvents": focus_events,
                                  "flushSkipsHiddenRoot": flush_skips, "flushClipsDamage": flush_clips,
                                  "resizeRestore": resize_restore},
                        "fields": len(fields), "walk": walk_ok, "termResize": resize_shape,
                        "mock": {"setctl": mock_setctl, "bound": mock_bound, "goto": mock_goto, "resize": mock_resize, "init": mock_init}}
