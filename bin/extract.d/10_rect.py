"""Extractor plugin: rect.c / rectset.c facts (array capacities, leaf functions)."""
import re

def run(ctx):
    src, strip_c_comments, write, info, array_cap = ctx.src, ctx.strip_c_comments, ctx.write, ctx.info, ctx.array_cap
    translate_leaf, Untranslatable = ctx.translate_leaf, ctx.Untranslatable
    # ---------------------------------------------------------------- Caps: fixed array capacities
    def gen_caps():
        rectset = strip_c_comments(src("src/rectset.c"))
        rect = strip_c_comments(src("src/rect.c"))
        caps = {}
        caps["rectset_to_add"] = array_cap(rectset, r"TickitRect\s+to_add\s*\[\s*(\d+)\s*\]", "cap:rectset_to_add")
        caps["rectset_remains"] = array_cap(rectset, r"TickitRect\s+remains\s*\[\s*(\d+)\s*\]", "cap:rectset_remains")
        caps["rect_add_ret"] = array_cap(rect, r"tickit_rect_add\s*\(\s*TickitRect\s+ret\s*\[\s*(\d+)\s*\]", "cap:rect_add_ret")
        caps["rect_subtract_ret"] = array_cap(rect, r"tickit_rect_subtract\s*\(\s*TickitRect\s+ret\s*\[\s*(\d+)\s*\]", "cap:rect_subtract_ret")
        body = "namespace Tickit.Gen.Caps\n"
        for k, v in caps.items():
            body += f"def {k} : Nat := {v if v is not None else 0}\n"
        body += "end Tickit.Gen.Caps\n"
        write("Caps", body)
        info["caps"] = caps

    def gen_leaf():
        hdr = strip_c_comments(src("include/tickit.h"))
        rect = strip_c_comments(src("src/rect.c"))
        rectset = strip_c_comments(src("src/rectset.c"))
        leaves, body, done = {}, "import Tickit.Model.Rect\nnamespace Tickit.Gen.Leaf\n", []
        for (text, name) in [(hdr, "tickit_rect_bottom"), (hdr, "tickit_rect_right"), (rect, "minint"), (rect, "maxint"),
                             (rect, "tickit_rect_intersects"), (rect, "tickit_rect_contains"), (rectset, "cmprect")]:
            try:
                d, ty = translate_leaf(text, name, leaves)
                body += d; leaves[name] = ty; done.append(name)
            except Untranslatable as e:
                info["untranslatable"].append(f"leaf:{name}:{e}")
                body += f"-- leaf-untranslatable: {name}\n"
        body += "end Tickit.Gen.Leaf\n"
        write("Leaf", body)
        info["leaves"] = done

    gen_caps()
    gen_leaf()
