"""Extractor plugin: which of the input-routing repairs (fixes/C14_*.patch) src/window.c contains, and the
event-type constants the drag synthesis uses."""
import re

def run(ctx):
    src, strip_c_comments, write, info = ctx.src, ctx.strip_c_comments, ctx.write, ctx.info
    win = strip_c_comments(src("src/window.c"))
    hdr = strip_c_comments(src("include/tickit.h"))
    def has_fn(name):
        return re.search(r"\bstatic\s+[\w\s\*]+\b" + name + r"\s*\([^;{]*\)\s*\{", win) is not None
    snapshot = has_fn("_ref_children") and has_fn("_unref_children")
    counted = re.search(r"ret\s*=\s*tickit_window_ref\s*\(\s*win\s*\)", win) is not None
    shown = has_fn("_is_shown")
    # the unrepaired loops save `next = child->next` before dispatching
    saved_next = len(re.findall(r"next\s*=\s*child->next\s*;", win))
    def enum_val(name):
        m = re.search(r"\b" + name + r"\s*=\s*(0x[0-9a-fA-F]+|\d+)", hdr)
        return int(m.group(1), 0) if m else None
    press = enum_val("TICKIT_MOUSEEV_PRESS")
    dstart = enum_val("TICKIT_MOUSEEV_DRAG_START")
    # /repo commit 7a99ce0: _focus_gained tells the old branch also when win itself takes the focus
    fg = re.search(r"static\s+void\s+_focus_gained\s*\([^)]*\)\s*\{(.*?)\n\}", win, re.S)
    focus_repaired = bool(fg and re.search(r"if\s*\(\s*win->focused_child\s*&&\s*win->focused_child\s*!=\s*child\s*\)", fg.group(1))
                          and re.search(r"if\s*\(\s*child\s*&&\s*win->is_focused\s*\)", fg.group(1)))
    b = lambda x: "true" if x else "false"
    body = "import Tickit.Model.WinInput\nnamespace Tickit.Gen.WinInputCfg\n"
    body += f"def cfg : Tickit.WinInput.Cfg := ⟨{b(snapshot)}, {b(counted)}, {b(shown)}⟩\n"
    body += f"def focusLossRepaired : Bool := {b(focus_repaired)}\n"
    body += f"def savedNextLoops : Nat := {saved_next}\n"
    body += f"def mouseevPress : Int := {press if press is not None else 0}\n"
    body += f"def mouseevDragStart : Int := {dstart if dstart is not None else 0}\n"
    body += "end Tickit.Gen.WinInputCfg\n"
    write("WinInputCfg", body)
    info["wininput"] = {"snapshot": snapshot, "counted": counted, "shown": shown, "saved_next_loops": saved_next, "focus_loss_repaired": focus_repaired,
                        "TICKIT_MOUSEEV_PRESS": press, "TICKIT_MOUSEEV_DRAG_START": dstart}
