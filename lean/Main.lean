import Tickit.Driver.Common
import Tickit.Driver.Registry
/-
  tickit_model <engine> <ops-file> <impl-obs-file>
  For every operation line prints `M <model obs>` and `S ok` | `S fail <why>`.
-/
open Tickit.Driver

def runEngine (e : Engine) (ops impl : Array String) : IO Unit := do
  let out ← IO.getStdout
  let mut st := e.init
  let mut j := 0
  for line in ops do
    if line.isEmpty || line.startsWith "#" then continue
    let io := if h : j < impl.size then impl[j] else "<missing>"
    j := j + 1
    let (st', m, s) := e.step st (toks line) io
    st := st'
    out.putStrLn ("M " ++ m)
    out.putStrLn (if s.isEmpty then "S ok" else "S fail " ++ s)
  out.flush

def main (args : List String) : IO UInt32 := do
  match args with
  | [name, opsF, implF] =>
    match engines.lookup name with
    | none => IO.eprintln s!"unknown engine {name}"; return 2
    | some e =>
      let ops := (← IO.FS.lines opsF)
      let impl := (← IO.FS.lines implF)
      runEngine e ops impl
      return 0
  | _ => IO.eprintln "usage: tickit_model <engine> <ops> <impl-obs>"; return 2
