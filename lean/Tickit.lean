-- Root of the `Tickit` library: models, proofs, property theorems.
import Tickit.Model.Rect
import Tickit.Driver.Common
import Tickit.Driver.Rect
