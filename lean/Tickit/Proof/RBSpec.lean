import Tickit.Proof.RBRefine
/-
  Facts about the specification itself (`Tickit.RBAbs`): confinement, the stack discipline, accumulation of
  line segments; and the few concrete facts the property theorems need beyond the refinement.
-/
namespace Tickit.RBAbs
open Tickit Tickit.RB

/-! ### `paint` -/

theorem paint_writable (a : AState) (cov : Int → Int → Bool) (w : Int → Int → Content → Content) (L C : Int) :
    (paint a cov w).writable L C = a.writable L C := rfl

theorem paint_content_of_not_writable (a : AState) (cov : Int → Int → Bool) (w : Int → Int → Content → Content) (L C : Int)
    (h : a.writable L C = false) : (paint a cov w).content L C = a.content L C := by
  show (if cov _ _ && a.writable L C then _ else _) = _
  rw [h]; simp

/-- Everything except the content is untouched by `paint`. -/
theorem paint_aux (a : AState) (cov : Int → Int → Bool) (w : Int → Int → Content → Content) :
    (paint a cov w).stack = a.stack ∧ (paint a cov w).clip = a.clip ∧ (paint a cov w).masked = a.masked ∧
    (paint a cov w).vc = a.vc ∧ (paint a cov w).xlLine = a.xlLine ∧ (paint a cov w).xlCol = a.xlCol ∧
    (paint a cov w).pen = a.pen ∧ (paint a cov w).lines = a.lines ∧ (paint a cov w).cols = a.cols :=
  ⟨rfl, rfl, rfl, rfl, rfl, rfl, rfl, rfl, rfl⟩

/-- What is invisible to drawing: the part of the state that decides where drawing lands. -/
structure SameFrame (a b : AState) : Prop where
  stack : b.stack = a.stack
  clip : b.clip = a.clip
  masked : b.masked = a.masked
  xlLine : b.xlLine = a.xlLine
  xlCol : b.xlCol = a.xlCol
  pen : b.pen = a.pen
  lines : b.lines = a.lines
  cols : b.cols = a.cols

theorem SameFrame.refl (a : AState) : SameFrame a a := ⟨rfl, rfl, rfl, rfl, rfl, rfl, rfl, rfl⟩
theorem SameFrame.trans {a b c : AState} (h1 : SameFrame a b) (h2 : SameFrame b c) : SameFrame a c :=
  ⟨h2.stack.trans h1.stack, h2.clip.trans h1.clip, h2.masked.trans h1.masked, h2.xlLine.trans h1.xlLine,
   h2.xlCol.trans h1.xlCol, h2.pen.trans h1.pen, h2.lines.trans h1.lines, h2.cols.trans h1.cols⟩

/-- A drawing step: same frame, and cells that are not writable keep their content. -/
structure DrawStep (a b : AState) : Prop where
  frame : SameFrame a b
  confined : ∀ L C, a.writable L C = false → b.content L C = a.content L C

theorem DrawStep.refl (a : AState) : DrawStep a a := ⟨SameFrame.refl a, fun _ _ _ => rfl⟩

theorem DrawStep.trans {a b c : AState} (h1 : DrawStep a b) (h2 : DrawStep b c) : DrawStep a c := by
  refine ⟨h1.frame.trans h2.frame, fun L C h => ?_⟩
  have hb : b.writable L C = false := by
    unfold AState.writable at h ⊢; rw [h1.frame.clip, h1.frame.masked]; exact h
  rw [h2.confined L C hb, h1.confined L C h]

theorem paint_draw (a : AState) (cov : Int → Int → Bool) (w : Int → Int → Content → Content) : DrawStep a (paint a cov w) :=
  ⟨⟨rfl, rfl, rfl, rfl, rfl, rfl, rfl, rfl⟩, fun L C h => paint_content_of_not_writable a cov w L C h⟩

theorem setvc_draw {a b : AState} (h : DrawStep a b) (v : Option (Int × Int)) : DrawStep a { b with vc := v } :=
  ⟨⟨h.frame.stack, h.frame.clip, h.frame.masked, h.frame.xlLine, h.frame.xlCol, h.frame.pen, h.frame.lines, h.frame.cols⟩,
   h.confined⟩

theorem lineLoop_draw (cellAt : Int → Int × Int) (bits : Nat) (n : Nat) :
    ∀ (a : AState) (from_ : Int), DrawStep a (lineLoop cellAt bits a from_ n) := by
  induction n with
  | zero => intro a _; exact DrawStep.refl a
  | succ n ih =>
    intro a from_
    unfold lineLoop
    exact (paint_draw a _ _).trans (ih _ _)

/-- Is `o` one of the drawing operations (text, erase, skip, char, lines, clear, rectangles)? -/
def isDraw : Op → Bool
  | .textAt .. | .text .. | .eraseAt .. | .erase .. | .eraseTo .. | .skipAt .. | .skip .. | .skipTo .. | .charAt .. | .char ..
  | .hlineAt .. | .vlineAt .. | .clear | .eraserect .. | .skiprect .. => true
  | _ => false

/-- **Confinement, for the specification**: a drawing operation changes no cell outside the clip or under a mask,
    and neither the clip, the masks, the translation, the pen nor the stack. -/
theorem draw_step (a : AState) (o : Op) (h : isDraw o = true) : DrawStep a (step a o) := by
  cases o <;> simp only [isDraw, Bool.false_eq_true] at h
  case textAt l c s =>
    show DrawStep a (textAt a l c s)
    unfold textAt; cases Utf8.stringColumns s
    · exact DrawStep.refl a
    · exact paint_draw a _ _
  case text s =>
    show DrawStep a (text a s)
    unfold text atCursor
    cases a.vc with
    | none => exact DrawStep.refl a
    | some p =>
      obtain ⟨l, c⟩ := p
      apply setvc_draw
      unfold textAt; cases Utf8.stringColumns s
      · exact DrawStep.refl a
      · exact paint_draw a _ _
  case eraseAt l c n => exact (paint_draw a _ _ : DrawStep a (eraseAt a l c n))
  case erase n =>
    show DrawStep a (erase a n)
    unfold erase atCursor
    cases a.vc with
    | none => exact DrawStep.refl a
    | some p => obtain ⟨l, c⟩ := p; exact setvc_draw (paint_draw a _ _) _
  case eraseTo c =>
    show DrawStep a (eraseTo a c)
    unfold eraseTo
    cases a.vc with
    | none => exact DrawStep.refl a
    | some p => obtain ⟨l, c'⟩ := p; exact setvc_draw (paint_draw a _ _) _
  case skipAt l c n => exact (paint_draw a _ _ : DrawStep a (skipAt a l c n))
  case skip n =>
    show DrawStep a (skip a n)
    unfold skip atCursor
    cases a.vc with
    | none => exact DrawStep.refl a
    | some p => obtain ⟨l, c⟩ := p; exact setvc_draw (paint_draw a _ _) _
  case skipTo c =>
    show DrawStep a (skipTo a c)
    unfold skipTo
    cases a.vc with
    | none => exact DrawStep.refl a
    | some p => obtain ⟨l, c'⟩ := p; exact setvc_draw (paint_draw a _ _) _
  case charAt l c cp => exact (paint_draw a _ _ : DrawStep a (charAt a l c cp))
  case char cp =>
    show DrawStep a (char a cp)
    unfold char atCursor
    cases a.vc with
    | none => exact DrawStep.refl a
    | some p => obtain ⟨l, c⟩ := p; exact setvc_draw (paint_draw a _ _) _
  case hlineAt l c1 c2 st caps =>
    show DrawStep a (hlineAt a l c1 c2 st caps)
    unfold hlineAt
    exact ((paint_draw a _ _).trans (lineLoop_draw _ _ _ _ _)).trans (paint_draw _ _ _)
  case vlineAt l1 l2 c st caps =>
    show DrawStep a (vlineAt a l1 l2 c st caps)
    unfold vlineAt
    exact ((paint_draw a _ _).trans (lineLoop_draw _ _ _ _ _)).trans (paint_draw _ _ _)
  case clear => exact (paint_draw a _ _ : DrawStep a (eraserect a ⟨0, 0, a.lines, a.cols⟩))
  case eraserect r => exact (paint_draw a _ _ : DrawStep a (eraserect a r))
  case skiprect r => exact (paint_draw a _ _ : DrawStep a (skiprect a r))

/-! ### Which cells an operation covers (user coordinates), and the cells it does not cover -/

open Tickit.Gen.RBWidth in
/-- The cells (in user coordinates, before translation) an operation draws on when nothing is clipped or
    masked.  Cursor-relative operations read the cursor of `a`. -/
def opCovers (a : AState) : Op → Int → Int → Bool
  | .textAt l c s => fun l' c' => match Utf8.stringColumns s with
    | some n => inRun l c n l' c'
    | none => false
  | .text s => fun l' c' => match a.vc, Utf8.stringColumns s with
    | some (l, c), some n => inRun l c n l' c'
    | _, _ => false
  | .eraseAt l c n => inRun l c n
  | .skipAt l c n => inRun l c n
  | .erase n => fun l' c' => match a.vc with
    | some (l, c) => inRun l c n l' c'
    | none => false
  | .skip n => fun l' c' => match a.vc with
    | some (l, c) => inRun l c n l' c'
    | none => false
  | .eraseTo col => fun l' c' => match a.vc with
    | some (l, c) => inRun l c (col - c) l' c'
    | none => false
  | .skipTo col => fun l' c' => match a.vc with
    | some (l, c) => inRun l c (col - c) l' c'
    | none => false
  | .charAt l c _ => inRun l c 1
  | .char _ => fun l' c' => match a.vc with
    | some (l, c) => inRun l c 1 l' c'
    | none => false
  | .hlineAt l c1 c2 _ _ => fun l' c' => decide (l' = l) && (decide (c' = c1) || decide (c' = c2) || (decide (c1 < c') && decide (c' < c2)))
  | .vlineAt l1 l2 c _ _ => fun l' c' => decide (c' = c) && (decide (l' = l1) || decide (l' = l2) || (decide (l1 < l') && decide (l' < l2)))
  | .clear => (⟨0, 0, a.lines, a.cols⟩ : Rect).memb
  | .eraserect r => r.memb
  | .skiprect r => r.memb
  | _ => fun _ _ => false

/-- `o` writes cell `(L, C)` in state `a`: it covers it (after translation) while it is inside the clip and
    unmasked.  (`reset` rewrites everything.) -/
def Writes (a : AState) (o : Op) (L C : Int) : Prop :=
  o = .reset ∨ (opCovers a o (L - a.xlLine) (C - a.xlCol) = true ∧ a.writable L C = true)

theorem paint_not_covered (a : AState) (cov : Int → Int → Bool) (w : Int → Int → Content → Content) (L C : Int)
    (h : ¬ (cov (L - a.xlLine) (C - a.xlCol) = true ∧ a.writable L C = true)) : (paint a cov w).content L C = a.content L C := by
  show (if cov _ _ && a.writable L C then _ else _) = _
  rw [if_neg]
  intro x; rw [Bool.and_eq_true] at x; exact h x

theorem lineLoop_not_covered (cellAt : Int → Int × Int) (bits : Nat) (L C : Int) (n : Nat) :
    ∀ (a : AState) (from_ : Int),
      (∀ k, from_ ≤ k → k < from_ + n → ¬ ((cellAt k).1 = L - a.xlLine ∧ (cellAt k).2 = C - a.xlCol)) →
      (lineLoop cellAt bits a from_ n).content L C = a.content L C := by
  induction n with
  | zero => intro a _ _; rfl
  | succ n ih =>
    intro a from_ h
    unfold lineLoop
    rw [ih (linecell a (cellAt from_).1 (cellAt from_).2 bits) (from_ + 1) (fun k a1 a2 => h k (by omega) (by omega))]
    apply paint_not_covered
    intro x
    have := (inRun_iff _ _ _ _ _).1 x.1
    exact h from_ (by omega) (by omega) ⟨this.1.symm, by omega⟩

/-- **An operation leaves every cell it does not write exactly as it was.** -/
theorem not_writes_unchanged (a : AState) (o : Op) (L C : Int) (h : ¬ Writes a o L C) :
    (step a o).content L C = a.content L C := by
  have hr : o ≠ .reset := fun x => h (Or.inl x)
  have hc : ¬ (opCovers a o (L - a.xlLine) (C - a.xlCol) = true ∧ a.writable L C = true) := fun x => h (Or.inr x)
  cases o with
  | reset => exact absurd rfl hr
  | goto l c => rfl
  | ungoto => rfl
  | translate d r => rfl
  | clip r => rfl
  | mask r => rfl
  | setpen p => show (setpen a p).content L C = _; unfold setpen; cases a.stack <;> rfl
  | save => rfl
  | savepen => rfl
  | restore => show (restore a).content L C = _; unfold restore; cases a.stack with
    | nil => rfl
    | cons g rest => simp only; split <;> rfl
  | eraseAt l c n => exact paint_not_covered a (inRun l c n) (fun _ _ _ => .erase a.pen) L C hc
  | skipAt l c n => exact paint_not_covered a (inRun l c n) (fun _ _ _ => .skip) L C hc
  | charAt l c cp => exact paint_not_covered a (inRun l c 1) (fun _ _ _ => .char a.pen cp) L C hc
  | clear => exact paint_not_covered a (⟨0, 0, a.lines, a.cols⟩ : Rect).memb (fun _ _ _ => .erase a.pen) L C hc
  | eraserect r => exact paint_not_covered a r.memb (fun _ _ _ => .erase a.pen) L C hc
  | skiprect r => exact paint_not_covered a r.memb (fun _ _ _ => .skip) L C hc
  | textAt l c s =>
    show (textAt a l c s).content L C = _
    unfold textAt
    simp only [opCovers] at hc
    cases hs : Utf8.stringColumns s with
    | none => rfl
    | some n => rw [hs] at hc; exact paint_not_covered a _ _ L C hc
  | text s =>
    show (text a s).content L C = _
    unfold text atCursor
    simp only [opCovers] at hc
    cases hv : a.vc with
    | none => rfl
    | some p =>
      obtain ⟨l, c⟩ := p
      rw [hv] at hc
      show (textAt a l c s).content L C = _
      unfold textAt
      cases hs : Utf8.stringColumns s with
      | none => rfl
      | some n => rw [hs] at hc; exact paint_not_covered a _ _ L C hc
  | erase n =>
    show (erase a n).content L C = _
    unfold erase atCursor
    simp only [opCovers] at hc
    cases hv : a.vc with
    | none => rfl
    | some p =>
      obtain ⟨l, c⟩ := p; rw [hv] at hc; simp only at hc
      show (eraseAt a l c n).content L C = _
      exact paint_not_covered a (inRun l c _) _ L C hc
  | skip n =>
    show (skip a n).content L C = _
    unfold skip atCursor
    simp only [opCovers] at hc
    cases hv : a.vc with
    | none => rfl
    | some p =>
      obtain ⟨l, c⟩ := p; rw [hv] at hc; simp only at hc
      show (skipAt a l c n).content L C = _
      exact paint_not_covered a (inRun l c _) _ L C hc
  | eraseTo col =>
    show (eraseTo a col).content L C = _
    unfold eraseTo
    simp only [opCovers] at hc
    cases hv : a.vc with
    | none => rfl
    | some p =>
      obtain ⟨l, c⟩ := p; rw [hv] at hc; simp only at hc
      show (eraseAt a l c (col - c)).content L C = _
      exact paint_not_covered a (inRun l c _) _ L C hc
  | skipTo col =>
    show (skipTo a col).content L C = _
    unfold skipTo
    simp only [opCovers] at hc
    cases hv : a.vc with
    | none => rfl
    | some p =>
      obtain ⟨l, c⟩ := p; rw [hv] at hc; simp only at hc
      show (skipAt a l c (col - c)).content L C = _
      exact paint_not_covered a (inRun l c _) _ L C hc
  | char cp =>
    show (char a cp).content L C = _
    unfold char atCursor
    simp only [opCovers] at hc
    cases hv : a.vc with
    | none => rfl
    | some p =>
      obtain ⟨l, c⟩ := p; rw [hv] at hc; simp only at hc
      show (charAt a l c cp).content L C = _
      exact paint_not_covered a (inRun l c _) _ L C hc
  | hlineAt l c1 c2 st caps =>
    show (hlineAt a l c1 c2 st caps).content L C = _
    by_cases hw : a.writable L C = true
    · have hcov : ¬ ((L - a.xlLine = l) ∧ ((C - a.xlCol = c1 ∨ C - a.xlCol = c2) ∨ (c1 < C - a.xlCol ∧ C - a.xlCol < c2))) := by
        intro x; apply hc; refine ⟨?_, hw⟩
        simp only [opCovers, Bool.and_eq_true, Bool.or_eq_true, decide_eq_true_eq]; exact x
      have key : ∀ (X : AState), X.xlLine = a.xlLine → X.xlCol = a.xlCol → ∀ (col : Int) (bits : Nat),
          ¬ (L - a.xlLine = l ∧ C - a.xlCol = col) → (linecell X l col bits).content L C = X.content L C := by
        intro X e1 e2 col bits hn
        apply paint_not_covered
        intro x
        have := (inRun_iff _ _ _ _ _).1 x.1
        rw [e1, e2] at this
        exact hn ⟨this.1, by omega⟩
      unfold hlineAt
      simp only
      generalize (st <<< Gen.RBWidth.c_EAST_SHIFT ||| if caps &&& Gen.RBWidth.c_TICKIT_LINECAP_START ≠ 0 then st <<< Gen.RBWidth.c_WEST_SHIFT else 0) = b1
      generalize (st <<< Gen.RBWidth.c_EAST_SHIFT ||| st <<< Gen.RBWidth.c_WEST_SHIFT) = b2
      generalize ((if caps &&& Gen.RBWidth.c_TICKIT_LINECAP_END ≠ 0 then st <<< Gen.RBWidth.c_EAST_SHIFT else 0) ||| st <<< Gen.RBWidth.c_WEST_SHIFT) = b3
      have f := (lineLoop_draw (fun col => (l, col)) b2 (c2 - 1 - c1).toNat (linecell a l c1 b1) (c1 + 1)).frame
      have e1 : (linecell a l c1 b1).xlCol = a.xlCol := rfl
      have e2 : (linecell a l c1 b1).xlLine = a.xlLine := rfl
      rw [key _ f.xlLine f.xlCol c2 b3 (fun x => hcov ⟨x.1, Or.inl (Or.inr x.2)⟩),
          lineLoop_not_covered _ _ L C _ _ _ (fun k k1 k2 x => hcov ⟨by have := x.1; simp only at this; omega, Or.inr (by have := x.2; simp only at this; omega)⟩),
          key a rfl rfl c1 b1 (fun x => hcov ⟨x.1, Or.inl (Or.inl x.2)⟩)]
    · exact (draw_step a (.hlineAt l c1 c2 st caps) rfl).confined L C (by cases h' : a.writable L C <;> simp_all)
  | vlineAt l1 l2 c st caps =>
    show (vlineAt a l1 l2 c st caps).content L C = _
    by_cases hw : a.writable L C = true
    · have hcov : ¬ ((C - a.xlCol = c) ∧ ((L - a.xlLine = l1 ∨ L - a.xlLine = l2) ∨ (l1 < L - a.xlLine ∧ L - a.xlLine < l2))) := by
        intro x; apply hc; refine ⟨?_, hw⟩
        simp only [opCovers, Bool.and_eq_true, Bool.or_eq_true, decide_eq_true_eq]; exact x
      have key : ∀ (X : AState), X.xlLine = a.xlLine → X.xlCol = a.xlCol → ∀ (line : Int) (bits : Nat),
          ¬ (L - a.xlLine = line ∧ C - a.xlCol = c) → (linecell X line c bits).content L C = X.content L C := by
        intro X e1 e2 line bits hn
        apply paint_not_covered
        intro x
        have := (inRun_iff _ _ _ _ _).1 x.1
        rw [e1, e2] at this
        exact hn ⟨this.1, by omega⟩
      unfold vlineAt
      simp only
      generalize (st <<< Gen.RBWidth.c_SOUTH_SHIFT ||| if caps &&& Gen.RBWidth.c_TICKIT_LINECAP_START ≠ 0 then st <<< Gen.RBWidth.c_NORTH_SHIFT else 0) = b1
      generalize (st <<< Gen.RBWidth.c_SOUTH_SHIFT ||| st <<< Gen.RBWidth.c_NORTH_SHIFT) = b2
      generalize ((if caps &&& Gen.RBWidth.c_TICKIT_LINECAP_END ≠ 0 then st <<< Gen.RBWidth.c_SOUTH_SHIFT else 0) ||| st <<< Gen.RBWidth.c_NORTH_SHIFT) = b3
      have f := (lineLoop_draw (fun line => (line, c)) b2 (l2 - 1 - l1).toNat (linecell a l1 c b1) (l1 + 1)).frame
      have e1 : (linecell a l1 c b1).xlCol = a.xlCol := rfl
      have e2 : (linecell a l1 c b1).xlLine = a.xlLine := rfl
      rw [key _ f.xlLine f.xlCol l2 b3 (fun x => hcov ⟨x.2, Or.inl (Or.inr x.1)⟩),
          lineLoop_not_covered _ _ L C _ _ _ (fun k k1 k2 x => hcov ⟨by have := x.2; simp only at this; omega, Or.inr (by have := x.1; simp only at this; omega)⟩),
          key a rfl rfl l1 b1 (fun x => hcov ⟨x.2, Or.inl (Or.inl x.1)⟩)]
    · exact (draw_step a (.vlineAt l1 l2 c st caps) rfl).confined L C (by cases h' : a.writable L C <;> simp_all)

/-- No operation of the program writes the cell. -/
def NeverWritten : AState → List Op → Int → Int → Prop
  | _, [], _, _ => True
  | a, o :: r, L, C => ¬ Writes a o L C ∧ NeverWritten (step a o) r L C

theorem neverWritten_unchanged : ∀ (p : List Op) (a : AState) (L C : Int), NeverWritten a p L C →
    (run a p).content L C = a.content L C := by
  intro p
  induction p with
  | nil => intro a L C _; rfl
  | cons o r ih =>
    intro a L C h
    show (run (step a o) r).content L C = _
    rw [ih (step a o) L C h.2, not_writes_unchanged a o L C h.1]

/-! ### Line segments accumulate, in any order -/

/-- The mask of a line cell after a segment is drawn into it: OR of what was there and the new bits. -/
def lineMaskOf : Content → Nat
  | .line _ m => m
  | _ => 0

theorem mergeLine_lineMask (pen : Pen) (b : Nat) (old : Content) :
    lineMaskOf (mergeLine pen b old) = lineMaskOf old ||| b := by
  cases old <;> simp [mergeLine, lineMaskOf]

/-- Two segments drawn into a cell in either order leave the same mask. -/
theorem mergeLine_comm_mask (p1 p2 : Pen) (b1 b2 : Nat) (old : Content) :
    lineMaskOf (mergeLine p2 b2 (mergeLine p1 b1 old)) = lineMaskOf (mergeLine p1 b1 (mergeLine p2 b2 old)) := by
  simp only [mergeLine_lineMask]
  apply Nat.eq_of_testBit_eq; intro i; simp [Nat.testBit_or]
  cases (lineMaskOf old).testBit i <;> cases b1.testBit i <;> cases b2.testBit i <;> rfl

/-- After a segment is drawn the cell is a line cell whose pen is equivalent to the current pen. -/
theorem mergeLine_pen (pen : Pen) (b : Nat) (old : Content) (hrefl : Pen.equiv pen pen = true) :
    ∃ p m, mergeLine pen b old = .line p m ∧ Pen.equiv p pen = true := by
  cases old with
  | line p m =>
    by_cases h : Pen.equiv p pen = true
    · exact ⟨p, m ||| b, by simp [mergeLine, h], h⟩
    · exact ⟨pen, m ||| b, by simp [mergeLine, h], hrefl⟩
  | skip => exact ⟨pen, b, rfl, hrefl⟩
  | text _ _ _ => exact ⟨pen, b, rfl, hrefl⟩
  | erase _ => exact ⟨pen, b, rfl, hrefl⟩
  | char _ _ => exact ⟨pen, b, rfl, hrefl⟩

/-! ### The stack discipline -/

/-- What an operation does to the stack. -/
inductive StackKind | push | pop | reset | keep
deriving DecidableEq

def stackKind : Op → StackKind
  | .save | .savepen => .push
  | .restore => .pop
  | .reset => .reset
  | _ => .keep

theorem step_stack_keep (a : AState) (o : Op) (h : stackKind o = .keep) : (step a o).stack = a.stack := by
  cases o with
  | textAt l c s => exact (draw_step a _ rfl).frame.stack
  | text s => exact (draw_step a _ rfl).frame.stack
  | eraseAt l c n => exact (draw_step a _ rfl).frame.stack
  | erase n => exact (draw_step a _ rfl).frame.stack
  | eraseTo c => exact (draw_step a _ rfl).frame.stack
  | skipAt l c n => exact (draw_step a _ rfl).frame.stack
  | skip n => exact (draw_step a _ rfl).frame.stack
  | skipTo c => exact (draw_step a _ rfl).frame.stack
  | charAt l c cp => exact (draw_step a _ rfl).frame.stack
  | char cp => exact (draw_step a _ rfl).frame.stack
  | hlineAt l c1 c2 st caps => exact (draw_step a _ rfl).frame.stack
  | vlineAt l1 l2 c st caps => exact (draw_step a _ rfl).frame.stack
  | clear => exact (draw_step a _ rfl).frame.stack
  | eraserect r => exact (draw_step a _ rfl).frame.stack
  | skiprect r => exact (draw_step a _ rfl).frame.stack
  | goto l c => rfl
  | ungoto => rfl
  | translate d r => rfl
  | clip r => rfl
  | mask r => rfl
  | setpen p => show (setpen a p).stack = a.stack; unfold setpen; cases a.stack <;> rfl
  | save => simp [stackKind] at h
  | savepen => simp [stackKind] at h
  | restore => simp [stackKind] at h
  | reset => simp [stackKind] at h

theorem step_stack_push (a : AState) (o : Op) (h : stackKind o = .push) :
    ∃ f, (step a o).stack = f :: a.stack := by
  cases o with
  | save => exact ⟨_, rfl⟩
  | savepen => exact ⟨_, rfl⟩
  | _ => simp [stackKind] at h

theorem step_stack_pop (a : AState) : (step a .restore).stack = a.stack.tail := by
  show (restore a).stack = _
  unfold restore
  cases hs : a.stack with
  | nil => simp [hs]
  | cons g rest => simp only; split <;> rfl

/-- Balance of saves and restores: `bal k p = some j` — starting `k` frames above the frame of interest the
    program `p` never pops that frame, contains no `reset`, and ends `j` frames above it. -/
def bal : Nat → List Op → Option Nat
  | k, [] => some k
  | k, o :: r =>
    match stackKind o, k with
    | .push, k => bal (k + 1) r
    | .pop, 0 => none
    | .pop, k + 1 => bal k r
    | .reset, _ => none
    | .keep, k => bal k r

/-- A program that restores exactly what it saves. -/
def Balanced (p : List Op) : Prop := bal 0 p = some 0

theorem bal_stack : ∀ (p : List Op) (k j : Nat) (a : AState), bal k p = some j → k ≤ a.stack.length →
    (run a p).stack.drop j = a.stack.drop k ∧ j ≤ (run a p).stack.length := by
  intro p
  induction p with
  | nil =>
    intro k j a h hk
    simp only [bal, Option.some.injEq] at h
    subst h; exact ⟨rfl, hk⟩
  | cons o r ih =>
    intro k j a h hk
    unfold bal at h
    show (run (step a o) r).stack.drop j = _ ∧ _
    cases hs : stackKind o with
    | push =>
      rw [hs] at h; simp only at h
      obtain ⟨f, hf⟩ := step_stack_push a o hs
      have := ih (k + 1) j (step a o) h (by rw [hf]; simp; omega)
      rw [hf] at this
      exact ⟨by simpa using this.1, this.2⟩
    | pop =>
      rw [hs] at h
      cases k with
      | zero => simp at h
      | succ k =>
        simp only at h
        have ho : o = .restore := by cases o <;> simp_all [stackKind]
        subst ho
        have hp := step_stack_pop a
        have := ih k j (step a .restore) h (by rw [hp]; simp; omega)
        rw [hp] at this
        refine ⟨?_, this.2⟩
        rw [this.1]
        cases hst : a.stack with
        | nil => rw [hst] at hk; simp at hk
        | cons g rest => simp
    | reset => rw [hs] at h; simp at h
    | keep =>
      rw [hs] at h; simp only at h
      have hk' := step_stack_keep a o hs
      have := ih k j (step a o) h (by rw [hk']; exact hk)
      rw [hk'] at this
      exact this

/-- **Save/restore, for the specification**: whatever a balanced program does between `save` and `restore`,
    translation, clip, pen, masks, cursor and stack are back; the content is what the program left. -/
theorem save_restore_abs (a : AState) (p : List Op) (hb : Balanced p) :
    (restore (run (save a) p)).xlLine = a.xlLine ∧ (restore (run (save a) p)).xlCol = a.xlCol ∧
    (restore (run (save a) p)).clip = a.clip ∧ (restore (run (save a) p)).pen = a.pen ∧
    (restore (run (save a) p)).masked = a.masked ∧ (restore (run (save a) p)).vc = a.vc ∧
    (restore (run (save a) p)).stack = a.stack ∧ (restore (run (save a) p)).content = (run (save a) p).content ∧
    (restore (run (save a) p)).lines = (run (save a) p).lines ∧ (restore (run (save a) p)).cols = (run (save a) p).cols := by
  have hst := (bal_stack p 0 0 (save a) hb (by simp)).1
  simp only [List.drop_zero] at hst
  unfold restore
  rw [hst]
  simp [save]

/-- **Clipping only shrinks, for the specification.** -/
theorem clip_shrinks_abs (a : AState) (r : Rect) (L C : Int) (h : (clip a r).clip L C = true) : a.clip L C = true := by
  have : (a.clip L C && r.memb (L - a.xlLine) (C - a.xlCol)) = true := h
  rw [Bool.and_eq_true] at this; exact this.1

theorem absrun_append (a : AState) (p q : List Op) : RBAbs.run a (p ++ q) = RBAbs.run (RBAbs.run a p) q := by
  unfold RBAbs.run; rw [List.foldl_append]

end Tickit.RBAbs

namespace Tickit.RB
open Tickit.RBAbs

theorem run_append (rb : RB) (p q : List Op) : RB.run rb (p ++ q) = RB.run (RB.run rb p) q := by
  unfold RB.run; rw [List.foldl_append]

end Tickit.RB
