import Tickit.Proof.RBRefine
/-
  Facts about the specification itself (`Tickit.RBAbs`): confinement, the stack discipline, accumulation of
  line segments; and the few concrete facts the property theorems need beyond the refinement.
-/
namespace Tickit.RBAbs
open Tickit Tickit.RB

/-! ### `paint` -/

theorem paint_writable (a : AState) (cov : Int → Int → Bool) (w : Int → Int → Content → Content) (L C : Int) :
    (paint a cov w).writable L C = a.writable L C := rfl

theorem paint_content_of_not_writable (a : AState) (cov : Int → Int → Bool) (w : Int → Int → Content → Content) (L C : Int)
    (h : a.writable L C = false) : (paint a cov w).content L C = a.content L C := by
  show (if cov _ _ && a.writable L C then _ else _) = _
  rw [h]; simp

/-- Everything except the content is untouched by `paint`. -/
theorem paint_aux (a : AState) (cov : Int → Int → Bool) (w : Int → Int → Content → Content) :
    (paint a cov w).stack = a.stack ∧ (paint a cov w).clip = a.clip ∧ (paint a cov w).masked = a.masked ∧
    (paint a cov w).vc = a.vc ∧ (paint a cov w).xlLine = a.xlLine ∧ (paint a cov w).xlCol = a.xlCol ∧
    (paint a cov w).pen = a.pen ∧ (paint a cov w).lines = a.lines ∧ (paint a cov w).cols = a.cols :=
  ⟨rfl, rfl, rfl, rfl, rfl, rfl, rfl, rfl, rfl⟩

/-- What is invisible to drawing: the part of the state that decides where drawing lands. -/
structure SameFrame (a b : AState) : Prop where
  stack : b.stack = a.stack
  clip : b.clip = a.clip
  masked : b.masked = a.masked
  xlLine : b.xlLine = a.xlLine
  xlCol : b.xlCol = a.xlCol
  pen : b.pen = a.pen
  lines : b.lines = a.lines
  cols : b.cols = a.cols

theorem SameFrame.refl (a : AState) : SameFrame a a := ⟨rfl, rfl, rfl, rfl, rfl, rfl, rfl, rfl⟩
theorem SameFrame.trans {a b c : AState} (h1 : SameFrame a b) (h2 : SameFrame b c) : SameFrame a c :=
  ⟨h2.stack.trans h1.stack, h2.clip.trans h1.clip, h2.masked.trans h1.masked, h2.xlLine.trans h1.xlLine,
   h2.xlCol.trans h1.xlCol, h2.pen.trans h1.pen, h2.lines.trans h1.lines, h2.cols.trans h1.cols⟩

/-- A drawing step: same frame, and cells that are not writable keep their content. -/
structure DrawStep (a b : AState) : Prop where
  frame : SameFrame a b
  confined : ∀ L C, a.writable L C = false → b.content L C = a.content L C

theorem DrawStep.refl (a : AState) : DrawStep a a := ⟨SameFrame.refl a, fun _ _ _ => rfl⟩

theorem DrawStep.trans {a b c : AState} (h1 : DrawStep a b) (h2 : DrawStep b c) : DrawStep a c := by
  refine ⟨h1.frame.trans h2.frame, fun L C h => ?_⟩
  have hb : b.writable L C = false := by
    unfold AState.writable at h ⊢; rw [h1.frame.clip, h1.frame.masked]; exact h
  rw [h2.confined L C hb, h1.confined L C h]

theorem paint_draw (a : AState) (cov : Int → Int → Bool) (w : Int → Int → Content → Content) : DrawStep a (paint a cov w) :=
  ⟨⟨rfl, rfl, rfl, rfl, rfl, rfl, rfl, rfl⟩, fun L C h => paint_content_of_not_writable a cov w L C h⟩

theorem setvc_draw {a b : AState} (h : DrawStep a b) (v : Option (Int × Int)) : DrawStep a { b with vc := v } :=
  ⟨⟨h.frame.stack, h.frame.clip, h.frame.masked, h.frame.xlLine, h.frame.xlCol, h.frame.pen, h.frame.lines, h.frame.cols⟩,
   h.confined⟩

theorem lineLoop_draw (cellAt : Int → Int × Int) (bits : Nat) (n : Nat) :
    ∀ (a : AState) (from_ : Int), DrawStep a (lineLoop cellAt bits a from_ n) := by
  induction n with
  | zero => intro a _; exact DrawStep.refl a
  | succ n ih =>
    intro a from_
    unfold lineLoop
    exact (paint_draw a _ _).trans (ih _ _)

/-- Is `o` one of the drawing operations (text, erase, skip, char, lines, clear, rectangles)? -/
def isDraw : Op → Bool
  | .textAt .. | .text .. | .eraseAt .. | .erase .. | .eraseTo .. | .skipAt .. | .skip .. | .skipTo .. | .charAt .. | .char ..
  | .hlineAt .. | .vlineAt .. | .clear | .eraserect .. | .skiprect .. => true
  | _ => false

/-- **Confinement, for the specification**: a drawing operation changes no cell outside the clip or under a mask,
    and neither the clip, the masks, the translation, the pen nor the stack. -/
theorem draw_step (a : AState) (o : Op) (h : isDraw o = true) : DrawStep a (step a o) := by
  cases o <;> simp only [isDraw, Bool.false_eq_true] at h
  case textAt l c s =>
    show DrawStep a (textAt a l c s)
    unfold textAt; cases Utf8.stringColumns s
    · exact DrawStep.refl a
    · exact paint_draw a _ _
  case text s =>
    show DrawStep a (text a s)
    unfold text atCursor
    cases a.vc with
    | none => exact DrawStep.refl a
    | some p =>
      obtain ⟨l, c⟩ := p
      apply setvc_draw
      unfold textAt; cases Utf8.stringColumns s
      · exact DrawStep.refl a
      · exact paint_draw a _ _
  case eraseAt l c n => exact (paint_draw a _ _ : DrawStep a (eraseAt a l c n))
  case erase n =>
    show DrawStep a (erase a n)
    unfold erase atCursor
    cases a.vc with
    | none => exact DrawStep.refl a
    | some p => obtain ⟨l, c⟩ := p; exact setvc_draw (paint_draw a _ _) _
  case eraseTo c =>
    show DrawStep a (eraseTo a c)
    unfold eraseTo
    cases a.vc with
    | none => exact DrawStep.refl a
    | some p => obtain ⟨l, c'⟩ := p; exact setvc_draw (paint_draw a _ _) _
  case skipAt l c n => exact (paint_draw a _ _ : DrawStep a (skipAt a l c n))
  case skip n =>
    show DrawStep a (skip a n)
    unfold skip atCursor
    cases a.vc with
    | none => exact DrawStep.refl a
    | some p => obtain ⟨l, c⟩ := p; exact setvc_draw (paint_draw a _ _) _
  case skipTo c =>
    show DrawStep a (skipTo a c)
    unfold skipTo
    cases a.vc with
    | none => exact DrawStep.refl a
    | some p => obtain ⟨l, c'⟩ := p; exact setvc_draw (paint_draw a _ _) _
  case charAt l c cp => exact (paint_draw a _ _ : DrawStep a (charAt a l c cp))
  case char cp =>
    show DrawStep a (char a cp)
    unfold char atCursor
    cases a.vc with
    | none => exact DrawStep.refl a
    | some p => obtain ⟨l, c⟩ := p; exact setvc_draw (paint_draw a _ _) _
  case hlineAt l c1 c2 st caps =>
    show DrawStep a (hlineAt a l c1 c2 st caps)
    unfold hlineAt
    exact ((paint_draw a _ _).trans (lineLoop_draw _ _ _ _ _)).trans (paint_draw _ _ _)
  case vlineAt l1 l2 c st caps =>
    show DrawStep a (vlineAt a l1 l2 c st caps)
    unfold vlineAt
    exact ((paint_draw a _ _).trans (lineLoop_draw _ _ _ _ _)).trans (paint_draw _ _ _)
  case clear => exact (paint_draw a _ _ : DrawStep a (eraserect a ⟨0, 0, a.lines, a.cols⟩))
  case eraserect r => exact (paint_draw a _ _ : DrawStep a (eraserect a r))
  case skiprect r => exact (paint_draw a _ _ : DrawStep a (skiprect a r))

/-! ### Line segments accumulate, in any order -/

/-- The mask of a line cell after a segment is drawn into it: OR of what was there and the new bits. -/
def lineMaskOf : Content → Nat
  | .line _ m => m
  | _ => 0

theorem mergeLine_lineMask (pen : Pen) (b : Nat) (old : Content) :
    lineMaskOf (mergeLine pen b old) = lineMaskOf old ||| b := by
  cases old <;> simp [mergeLine, lineMaskOf]

/-- Two segments drawn into a cell in either order leave the same mask. -/
theorem mergeLine_comm_mask (p1 p2 : Pen) (b1 b2 : Nat) (old : Content) :
    lineMaskOf (mergeLine p2 b2 (mergeLine p1 b1 old)) = lineMaskOf (mergeLine p1 b1 (mergeLine p2 b2 old)) := by
  simp only [mergeLine_lineMask]
  apply Nat.eq_of_testBit_eq; intro i; simp [Nat.testBit_or]
  cases (lineMaskOf old).testBit i <;> cases b1.testBit i <;> cases b2.testBit i <;> rfl

/-- After a segment is drawn the cell is a line cell whose pen is equivalent to the current pen. -/
theorem mergeLine_pen (pen : Pen) (b : Nat) (old : Content) (hrefl : Pen.equiv pen pen = true) :
    ∃ p m, mergeLine pen b old = .line p m ∧ Pen.equiv p pen = true := by
  cases old with
  | line p m =>
    by_cases h : Pen.equiv p pen = true
    · exact ⟨p, m ||| b, by simp [mergeLine, h], h⟩
    · exact ⟨pen, m ||| b, by simp [mergeLine, h], hrefl⟩
  | skip => exact ⟨pen, b, rfl, hrefl⟩
  | text _ _ _ => exact ⟨pen, b, rfl, hrefl⟩
  | erase _ => exact ⟨pen, b, rfl, hrefl⟩
  | char _ _ => exact ⟨pen, b, rfl, hrefl⟩

/-! ### The stack discipline -/

/-- What an operation does to the stack. -/
inductive StackKind | push | pop | reset | keep
deriving DecidableEq

def stackKind : Op → StackKind
  | .save | .savepen => .push
  | .restore => .pop
  | .reset => .reset
  | _ => .keep

theorem step_stack_keep (a : AState) (o : Op) (h : stackKind o = .keep) : (step a o).stack = a.stack := by
  cases o with
  | textAt l c s => exact (draw_step a _ rfl).frame.stack
  | text s => exact (draw_step a _ rfl).frame.stack
  | eraseAt l c n => exact (draw_step a _ rfl).frame.stack
  | erase n => exact (draw_step a _ rfl).frame.stack
  | eraseTo c => exact (draw_step a _ rfl).frame.stack
  | skipAt l c n => exact (draw_step a _ rfl).frame.stack
  | skip n => exact (draw_step a _ rfl).frame.stack
  | skipTo c => exact (draw_step a _ rfl).frame.stack
  | charAt l c cp => exact (draw_step a _ rfl).frame.stack
  | char cp => exact (draw_step a _ rfl).frame.stack
  | hlineAt l c1 c2 st caps => exact (draw_step a _ rfl).frame.stack
  | vlineAt l1 l2 c st caps => exact (draw_step a _ rfl).frame.stack
  | clear => exact (draw_step a _ rfl).frame.stack
  | eraserect r => exact (draw_step a _ rfl).frame.stack
  | skiprect r => exact (draw_step a _ rfl).frame.stack
  | goto l c => rfl
  | ungoto => rfl
  | translate d r => rfl
  | clip r => rfl
  | mask r => rfl
  | setpen p => show (setpen a p).stack = a.stack; unfold setpen; cases a.stack <;> rfl
  | save => simp [stackKind] at h
  | savepen => simp [stackKind] at h
  | restore => simp [stackKind] at h
  | reset => simp [stackKind] at h

theorem step_stack_push (a : AState) (o : Op) (h : stackKind o = .push) :
    ∃ f, (step a o).stack = f :: a.stack := by
  cases o with
  | save => exact ⟨_, rfl⟩
  | savepen => exact ⟨_, rfl⟩
  | _ => simp [stackKind] at h

theorem step_stack_pop (a : AState) : (step a .restore).stack = a.stack.tail := by
  show (restore a).stack = _
  unfold restore
  cases hs : a.stack with
  | nil => simp [hs]
  | cons g rest => simp only; split <;> rfl

/-- Balance of saves and restores: `bal k p = some j` — starting `k` frames above the frame of interest the
    program `p` never pops that frame, contains no `reset`, and ends `j` frames above it. -/
def bal : Nat → List Op → Option Nat
  | k, [] => some k
  | k, o :: r =>
    match stackKind o, k with
    | .push, k => bal (k + 1) r
    | .pop, 0 => none
    | .pop, k + 1 => bal k r
    | .reset, _ => none
    | .keep, k => bal k r

/-- A program that restores exactly what it saves. -/
def Balanced (p : List Op) : Prop := bal 0 p = some 0

theorem bal_stack : ∀ (p : List Op) (k j : Nat) (a : AState), bal k p = some j → k ≤ a.stack.length →
    (run a p).stack.drop j = a.stack.drop k ∧ j ≤ (run a p).stack.length := by
  intro p
  induction p with
  | nil =>
    intro k j a h hk
    simp only [bal, Option.some.injEq] at h
    subst h; exact ⟨rfl, hk⟩
  | cons o r ih =>
    intro k j a h hk
    unfold bal at h
    show (run (step a o) r).stack.drop j = _ ∧ _
    cases hs : stackKind o with
    | push =>
      rw [hs] at h; simp only at h
      obtain ⟨f, hf⟩ := step_stack_push a o hs
      have := ih (k + 1) j (step a o) h (by rw [hf]; simp; omega)
      rw [hf] at this
      exact ⟨by simpa using this.1, this.2⟩
    | pop =>
      rw [hs] at h
      cases k with
      | zero => simp at h
      | succ k =>
        simp only at h
        have ho : o = .restore := by cases o <;> simp_all [stackKind]
        subst ho
        have hp := step_stack_pop a
        have := ih k j (step a .restore) h (by rw [hp]; simp; omega)
        rw [hp] at this
        refine ⟨?_, this.2⟩
        rw [this.1]
        cases hst : a.stack with
        | nil => rw [hst] at hk; simp at hk
        | cons g rest => simp
    | reset => rw [hs] at h; simp at h
    | keep =>
      rw [hs] at h; simp only at h
      have hk' := step_stack_keep a o hs
      have := ih k j (step a o) h (by rw [hk']; exact hk)
      rw [hk'] at this
      exact this

/-- **Save/restore, for the specification**: whatever a balanced program does between `save` and `restore`,
    translation, clip, pen, masks, cursor and stack are back; the content is what the program left. -/
theorem save_restore_abs (a : AState) (p : List Op) (hb : Balanced p) :
    (restore (run (save a) p)).xlLine = a.xlLine ∧ (restore (run (save a) p)).xlCol = a.xlCol ∧
    (restore (run (save a) p)).clip = a.clip ∧ (restore (run (save a) p)).pen = a.pen ∧
    (restore (run (save a) p)).masked = a.masked ∧ (restore (run (save a) p)).vc = a.vc ∧
    (restore (run (save a) p)).stack = a.stack ∧ (restore (run (save a) p)).content = (run (save a) p).content ∧
    (restore (run (save a) p)).lines = (run (save a) p).lines ∧ (restore (run (save a) p)).cols = (run (save a) p).cols := by
  have hst := (bal_stack p 0 0 (save a) hb (by simp)).1
  simp only [List.drop_zero] at hst
  unfold restore
  rw [hst]
  simp [save]

/-- **Clipping only shrinks, for the specification.** -/
theorem clip_shrinks_abs (a : AState) (r : Rect) (L C : Int) (h : (clip a r).clip L C = true) : a.clip L C = true := by
  have : (a.clip L C && r.memb (L - a.xlLine) (C - a.xlCol)) = true := h
  rw [Bool.and_eq_true] at this; exact this.1

theorem ProgSafe_append : ∀ (p q : List Op) (a : AState), ProgSafe a (p ++ q) → ProgSafe a p ∧ ProgSafe (run a p) q := by
  intro p
  induction p with
  | nil => intro q a h; exact ⟨trivial, h⟩
  | cons o r ih =>
    intro q a h
    obtain ⟨h1, h2⟩ := ih q (step a o) h.2
    exact ⟨⟨h.1, h1⟩, h2⟩

theorem absrun_append (a : AState) (p q : List Op) : RBAbs.run a (p ++ q) = RBAbs.run (RBAbs.run a p) q := by
  unfold RBAbs.run; rw [List.foldl_append]

end Tickit.RBAbs

namespace Tickit.RB
open Tickit.RBAbs

/-- Every operation except `restore` is unconditionally safe. -/
theorem opSafe_of_not_restore (a : AState) (o : Op) (h : o ≠ .restore) : OpSafe a o := by
  cases o <;> first | trivial | exact absurd rfl h

theorem run_append (rb : RB) (p q : List Op) : RB.run rb (p ++ q) = RB.run (RB.run rb p) q := by
  unfold RB.run; rw [List.foldl_append]

end Tickit.RB
