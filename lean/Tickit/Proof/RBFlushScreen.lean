import Tickit.Proof.RBFlush
/-
  C04: a screen of `L` lines (`GridTerm.stepL`/`runL`: cursor movements clamped to the screen, scrolling when the
  deferred wrap happens on the last line) against the unbounded plane (`step`/`run`).

  A request sequence is *calm* on a terminal when every cursor movement targets a line of the screen and no other
  request changes the cursor line (the only way a print request changes it is an autowrap: the line only ever grows
  inside a print request, so "same line afterwards" means "no wrap").  On a calm sequence `runL` and `run` agree.
-/
namespace Tickit.RBFlush
open Tickit.RB

def Req.isGoto : Req → Bool
  | .goto _ _ => true
  | _ => false

/-- Every goto targets a line of the screen; every other request leaves the cursor on its line. -/
def Calm (L : Int) : GridTerm → List Req → Prop
  | _, [] => True
  | t, r :: rs =>
    (match r with
     | .goto l _ => 0 ≤ l ∧ l < L
     | _ => (t.step r).line = t.line) ∧ Calm L (t.step r) rs

namespace GridTerm

theorem addZeroWidth_line (t : GridTerm) (bs : List UInt8) : (t.addZeroWidth bs).line = t.line := by
  unfold addZeroWidth
  cases t.last <;> rfl

theorem putGlyph_line (t : GridTerm) (bs : List UInt8) (w : Int) :
    (t.putGlyph bs w).line = if t.col + w > t.cols then t.line + 1 else t.line := by
  unfold putGlyph
  split <;> rfl

theorem putCh_line_le (t : GridTerm) (c : Ch) : t.line ≤ (t.putCh c).line := by
  unfold putCh
  split
  · rw [addZeroWidth_line]; omega
  · rw [putGlyph_line]; split <;> omega

theorem putChs_line_le (cs : List Ch) : ∀ t : GridTerm, t.line ≤ (t.putChs cs).line := by
  induction cs with
  | nil => intro t; exact Int.le_refl _
  | cons c cs ih =>
    intro t
    have h1 := putCh_line_le t c
    have h2 := ih (t.putCh c)
    show t.line ≤ ((t.putCh c).putChs cs).line
    omega

/-- A character that leaves the cursor on its line did not wrap: the screen does what the plane does. -/
theorem putChL_eq (L : Int) (t : GridTerm) (c : Ch) (h : (t.putCh c).line = t.line) : t.putChL L c = t.putCh c := by
  unfold putChL putCh at *
  split
  · rfl
  · rename_i hw
    rw [if_neg hw, putGlyph_line] at h
    unfold putGlyphL putGlyph
    split
    · rename_i hgt
      rw [if_pos hgt] at h
      omega
    · rfl

theorem putChsL_eq (L : Int) (cs : List Ch) : ∀ t : GridTerm, (t.putChs cs).line = t.line →
    t.putChsL L cs = t.putChs cs := by
  induction cs with
  | nil => intro t _; rfl
  | cons c cs ih =>
    intro t h
    have h1 := putCh_line_le t c
    have h2 := putChs_line_le cs (t.putCh c)
    have h' : ((t.putCh c).putChs cs).line = t.line := h
    have hc : (t.putCh c).line = t.line := by omega
    show (t.putChL L c).putChsL L cs = (t.putCh c).putChs cs
    rw [putChL_eq L t c hc]
    exact ih _ (by omega)

theorem step_line_le (t : GridTerm) (r : Req) (h : r.isGoto = false) : t.line ≤ (t.step r).line := by
  cases r with
  | goto l c => simp [Req.isGoto] at h
  | setpen p => exact Int.le_refl _
  | print s start len => exact putChs_line_le _ _
  | erasech n m =>
    show t.line ≤ (t.erasech n m).line
    have : (t.erasech n m).line = t.line := by
      unfold erasech
      split
      · rfl
      · cases m <;> rfl
    omega

theorem run_line_le (rs : List Req) : ∀ t : GridTerm, (∀ r ∈ rs, r.isGoto = false) → t.line ≤ (t.run rs).line := by
  induction rs with
  | nil => intro t _; exact Int.le_refl _
  | cons r rs ih =>
    intro t h
    have h1 := step_line_le t r (h r (by simp))
    have h2 := ih (t.step r) (fun r' hr' => h r' (by simp [hr']))
    show t.line ≤ ((t.step r).run rs).line
    omega

/-- One request of a calm sequence. -/
theorem stepL_eq (L : Int) (t : GridTerm) (r : Req)
    (h : match r with
         | .goto l _ => 0 ≤ l ∧ l < L
         | _ => (t.step r).line = t.line) : t.stepL L r = t.step r := by
  cases r with
  | goto l c =>
    simp only at h
    show t.goto (max 0 (min l (L - 1))) c = t.goto l c
    rw [show max 0 (min l (L - 1)) = l by omega]
  | setpen p => rfl
  | print s start len =>
    simp only at h
    exact putChsL_eq L _ _ h
  | erasech n m => rfl

theorem runL_eq_of_calm (L : Int) (rs : List Req) : ∀ t : GridTerm, Calm L t rs → t.runL L rs = t.run rs := by
  induction rs with
  | nil => intro t _; rfl
  | cons r rs ih =>
    intro t h
    obtain ⟨h1, h2⟩ := h
    show (t.stepL L r).runL L rs = (t.step r).run rs
    rw [stepL_eq L t r h1]
    exact ih _ h2

end GridTerm

theorem calm_append (L : Int) (a b : List Req) : ∀ t : GridTerm, Calm L t a → Calm L (t.run a) b → Calm L t (a ++ b) := by
  induction a with
  | nil => intro t _ hb; exact hb
  | cons r rs ih =>
    intro t ha hb
    exact ⟨ha.1, ih _ ha.2 hb⟩

theorem calm_nil (L : Int) (t : GridTerm) : Calm L t [] := trivial

/-- A sequence without cursor movements that ends on the line it started on is calm. -/
theorem calm_of_line_eq (L : Int) (rs : List Req) : ∀ t : GridTerm, (∀ r ∈ rs, r.isGoto = false) →
    (t.run rs).line = t.line → Calm L t rs := by
  induction rs with
  | nil => intro t _ _; trivial
  | cons r rs ih =>
    intro t hng h
    have hr := hng r (by simp)
    have h1 := GridTerm.step_line_le t r hr
    have h2 := GridTerm.run_line_le rs (t.step r) (fun r' hr' => hng r' (by simp [hr']))
    have h' : ((t.step r).run rs).line = t.line := h
    have hs : (t.step r).line = t.line := by omega
    refine ⟨?_, ih _ (fun r' hr' => hng r' (by simp [hr'])) (by omega)⟩
    cases r with
    | goto l c => simp [Req.isGoto] at hr
    | setpen p => exact hs
    | print s start len => exact hs
    | erasech n m => exact hs

end Tickit.RBFlush
