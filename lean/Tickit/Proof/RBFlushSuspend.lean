import Tickit.Proof.Sgr
import Tickit.Proof.RBFlushX
/-
  Proof/RBFlushSuspend.lean - C04, pause and resume between two flushes (xterm-driver configuration).

  * `resume_restores_pen`: whatever the terminal rendered with before, after the `CSI m` of the pause and the bytes
    `tickit_term_resume` makes the driver send for `chpen(tt->pen, tt->pen)` it renders with what `tt->pen` asks for -
    the premise under which `tickit_term_setpen`'s "send only what changed" gives every cell of the next flush its pen.
  * `xsuspend_stream`: through an output buffer of any size the terminal receives exactly those bytes, in order.
-/
namespace Tickit.Proof.RBFlushSuspend
open Tickit.Sgr Tickit.TermPen Tickit.Proof.Sgr

theorem ovColour_default (rgb8 : Bool) (o : Option Colour) : ovColour rgb8 o .dflt = expectColour rgb8 o := by
  cases o <;> rfl

/-- Every attribute of a pen laid over the default rendering is the rendering the pen asks for. -/
theorem ovAttrs_default (caps : Caps) (p : Pen) : ovAttrs caps p {} = expectAttrs caps p := by
  unfold ovAttrs expectAttrs
  simp only [ovColour_default]
  cases p.bold <;> cases p.italic <;> cases p.under <;> cases p.blink <;> cases p.reverse <;> cases p.strike <;>
    cases p.altfont <;> cases p.sizepos <;> simp [getBool, getInt] <;> (first | rfl | decide | (constructor <;> first | rfl | decide))

/-- `CSI m` resets every rendering attribute. -/
theorem run_reset (colon : Bool) (a : Attrs) (hj : a.junk = 0) :
    run (renderSgr colon []) ⟨.ground, a⟩ = ⟨.ground, {}⟩ := by
  rw [run_renderSgr]
  simp [groupsFlat, sgrApply, sgrGroup, sgrSimple, Attrs.reset, hj]

/-- Pause + resume leave the terminal rendering with the cached pen, whatever it rendered with before: `bs` are the
    bytes of the driver's `chpen(tt->pen, tt->pen)`. -/
theorem resume_restores_pen (caps : Caps) (cap : Nat) (cache : Pen) (bs : List Byte) (hok : DeltaOk caps cache)
    (h : xtermChpen caps cap cache cache = .bytes bs) (a : Attrs) (hj : a.junk = 0) :
    run (renderSgr caps.colon [] ++ bs) ⟨.ground, a⟩ = ⟨.ground, expectAttrs caps cache⟩ := by
  rw [run_append, run_reset _ _ hj]
  have hne := comps_nonempty caps cache
  unfold xtermChpen at h
  simp only at h
  split at h
  · cases h
  · split at h
    · rename_i hlen
      simp only [Out.bytes.injEq] at h
      subst h
      have hfl : flatten (comps caps cache) = [] := List.eq_nil_of_length_eq_zero hlen
      have hc := (flatten_eq_nil _ hne).1 hfl
      have := ovAttrs_of_comps_nil caps cache {} hok hc
      rw [ovAttrs_default] at this
      simp [run, this]
    · split at h
      · rename_i hnd
        simp only [Out.bytes.injEq] at h
        subst h
        have hnd' : isNondefault cache = false := by simpa using hnd
        rw [run_reset _ _ rfl, expect_of_not_nondefault _ _ hnd']
      · rename_i hlen hnd
        simp only [Out.bytes.injEq] at h
        subst h
        have hcs : comps caps cache ≠ [] := by
          intro hc
          rw [hc] at hlen
          exact hlen rfl
        rw [run_renderSgr]
        rw [groupsFlat_flatten _ _ hcs hne, List.nil_append, sgrApply_comps _ _ _ hok (by rfl), ovAttrs_default]

end Tickit.Proof.RBFlushSuspend
