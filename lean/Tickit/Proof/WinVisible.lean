import Tickit.Proof.WinChain
import Tickit.Props.C05
/-
  The visible-region computation of `_scroll` / `_scrollrectset`: the scrolled rectangle, cut to the window and to every
  ancestor (`clipToAncestors`), minus the window's visible children (`subtractChildren`), then — walking up to the root —
  translated into each parent's coordinates minus the visible siblings in front (`subtractSiblings`, `scrollWalk`), is
  exactly the set of terminal cells the painter's model gives to the window inside the rectangle (`scrollWalk_spec`).
  The rectangle-set facts come from C05 (`subtract_spec`, `add_spec`, `Inv`).
-/
namespace Tickit
namespace WinFlush
open WinTree WinRB WinSpec

theorem rsSub_spec (v : List Rect) (r : Rect) (v' : List Rect) (h : rsSub v r = .ok v') (hv : RectSet.Inv v) :
    RectSet.Inv v' ∧ ∀ x y, Covered v' x y ↔ (Covered v x y ∧ ¬ r.Mem x y) := by
  unfold rsSub at h
  cases hs : RectSet.subtract rsFuel v r with
  | none => rw [hs] at h; cases h
  | some s =>
    rw [hs] at h
    cases h
    by_cases hr : r.Nonempty
    · exact Props.C05.subtract_spec rsFuel v v' r hv hr hs
    · unfold RectSet.subtract at hs
      have hre : r.lines ≤ 0 ∨ r.cols ≤ 0 := by
        unfold Rect.Nonempty at hr; omega
      rw [if_pos hre] at hs
      cases hs
      refine ⟨hv, fun x y => ⟨fun hc => ⟨hc, ?_⟩, fun hc => hc.1⟩⟩
      intro hm
      simp only [Rect.Mem, Rect.bottom, Rect.right] at hm
      omega

/-- Alive. -/
def Live (t : Tree) (id : Id) : Prop := ∃ w, t.wins[id]? = some w ∧ w.freed = false

/-- No visible window of the list covers the cell. -/
def NoneCovers (t : Tree) (cs : List Id) (x y : Int) : Prop :=
  ∀ ch ∈ cs, ∀ cw, t.wins[ch]? = some cw → cw.isVisible = true → ¬ cw.rect.Mem x y

theorem subtractChildren_spec (t : Tree) : ∀ (cs : List Id) (v v' : List Rect), subtractChildren t cs v = .ok v' →
    RectSet.Inv v → RectSet.Inv v' ∧ (∀ ch ∈ cs, Live t ch) ∧
      ∀ x y, Covered v' x y ↔ (Covered v x y ∧ NoneCovers t cs x y) := by
  intro cs
  induction cs with
  | nil =>
    intro v v' h hv
    simp only [subtractChildren] at h
    cases h
    exact ⟨hv, fun _ h => (by cases h), fun x y => ⟨fun hc => ⟨hc, fun _ h => (by cases h)⟩, fun hc => hc.1⟩⟩
  | cons c rest ih =>
    intro v v' h hv
    simp only [subtractChildren, bind, Bind.bind] at h
    cases hg : WinTree.get t c with
    | ub e => rw [hg] at h; cases h
    | ok cw =>
      rw [hg] at h
      have hcw := get_ok hg
      simp only at h
      cases hvis : cw.isVisible with
      | false =>
        simp only [hvis, Bool.not_false, if_true] at h
        obtain ⟨a1, a2, a3⟩ := ih v v' h hv
        refine ⟨a1, ?_, fun x y => ?_⟩
        · intro ch hch
          rcases List.mem_cons.1 hch with rfl | hch
          · exact ⟨cw, hcw.1, hcw.2⟩
          · exact a2 ch hch
        · rw [a3 x y]
          constructor
          · rintro ⟨h1, h2⟩
            refine ⟨h1, fun ch hch w hw hv' => ?_⟩
            rcases List.mem_cons.1 hch with rfl | hch
            · rw [hcw.1] at hw; cases hw; rw [hvis] at hv'; cases hv'
            · exact h2 ch hch w hw hv'
          · rintro ⟨h1, h2⟩
            exact ⟨h1, fun ch hch => h2 ch (List.mem_cons_of_mem _ hch)⟩
      | true =>
        simp only [hvis, Bool.not_true, Bool.false_eq_true, if_false] at h
        cases hs : rsSub v cw.rect with
        | ub e => rw [hs] at h; cases h
        | ok v1 =>
          rw [hs] at h
          simp only at h
          obtain ⟨b1, b2⟩ := rsSub_spec v cw.rect v1 hs hv
          obtain ⟨a1, a2, a3⟩ := ih v1 v' h b1
          refine ⟨a1, ?_, fun x y => ?_⟩
          · intro ch hch
            rcases List.mem_cons.1 hch with rfl | hch
            · exact ⟨cw, hcw.1, hcw.2⟩
            · exact a2 ch hch
          · rw [a3 x y, b2 x y]
            constructor
            · rintro ⟨⟨h1, h0⟩, h2⟩
              refine ⟨h1, fun ch hch w hw hv' => ?_⟩
              rcases List.mem_cons.1 hch with rfl | hch
              · rw [hcw.1] at hw; cases hw; exact h0
              · exact h2 ch hch w hw hv'
            · rintro ⟨h1, h2⟩
              exact ⟨⟨h1, h2 c List.mem_cons_self cw hcw.1 hvis⟩, fun ch hch => h2 ch (List.mem_cons_of_mem _ hch)⟩

/-- The sibling loop stops at `win`: it subtracts the visible windows listed before it. -/
theorem subtractSiblings_spec (t : Tree) (win : Id) : ∀ (cs : List Id) (v v' : List Rect),
    subtractSiblings t win cs v = .ok v' → RectSet.Inv v → win ∈ cs →
    RectSet.Inv v' ∧ ∃ l1 l2, cs = l1 ++ win :: l2 ∧ win ∉ l1 ∧ (∀ s ∈ l1, Live t s) ∧
      ∀ x y, Covered v' x y ↔ (Covered v x y ∧ NoneCovers t l1 x y) := by
  intro cs
  induction cs with
  | nil => intro v v' _ _ hm; cases hm
  | cons s rest ih =>
    intro v v' h hv hm
    simp only [subtractSiblings] at h
    by_cases hsw : s = win
    · subst hsw
      simp only [if_true] at h
      cases h
      exact ⟨hv, [], rest, rfl, fun h => (by cases h), fun _ h => (by cases h),
        fun x y => ⟨fun hc => ⟨hc, fun _ h => (by cases h)⟩, fun hc => hc.1⟩⟩
    · simp only [hsw, if_false, bind, Bind.bind] at h
      have hm' : win ∈ rest := by
        rcases List.mem_cons.1 hm with h1 | h1
        · exact absurd h1.symm hsw
        · exact h1
      cases hg : WinTree.get t s with
      | ub e => rw [hg] at h; cases h
      | ok sw =>
        rw [hg] at h
        have hsw' := get_ok hg
        simp only at h
        cases hvis : sw.isVisible with
        | false =>
          simp only [hvis, Bool.not_false, if_true] at h
          obtain ⟨a1, l1, l2, e, hn, hl, a3⟩ := ih v v' h hv hm'
          refine ⟨a1, s :: l1, l2, by rw [e]; rfl, ?_, ?_, fun x y => ?_⟩
          · intro hx
            rcases List.mem_cons.1 hx with h1 | h1
            · exact hsw h1.symm
            · exact hn h1
          · intro q hq
            rcases List.mem_cons.1 hq with rfl | hq
            · exact ⟨sw, hsw'.1, hsw'.2⟩
            · exact hl q hq
          · rw [a3 x y]
            constructor
            · rintro ⟨h1, h2⟩
              refine ⟨h1, fun ch hch w hw hv' => ?_⟩
              rcases List.mem_cons.1 hch with rfl | hch
              · rw [hsw'.1] at hw; cases hw; rw [hvis] at hv'; cases hv'
              · exact h2 ch hch w hw hv'
            · rintro ⟨h1, h2⟩
              exact ⟨h1, fun ch hch => h2 ch (List.mem_cons_of_mem _ hch)⟩
        | true =>
          simp only [hvis, Bool.not_true, Bool.false_eq_true, if_false] at h
          cases hs : rsSub v sw.rect with
          | ub e => rw [hs] at h; cases h
          | ok v1 =>
            rw [hs] at h
            simp only at h
            obtain ⟨b1, b2⟩ := rsSub_spec v sw.rect v1 hs hv
            obtain ⟨a1, l1, l2, e, hn, hl, a3⟩ := ih v1 v' h b1 hm'
            refine ⟨a1, s :: l1, l2, by rw [e]; rfl, ?_, ?_, fun x y => ?_⟩
            · intro hx
              rcases List.mem_cons.1 hx with h1 | h1
              · exact hsw h1.symm
              · exact hn h1
            · intro q hq
              rcases List.mem_cons.1 hq with rfl | hq
              · exact ⟨sw, hsw'.1, hsw'.2⟩
              · exact hl q hq
            · rw [a3 x y, b2 x y]
              constructor
              · rintro ⟨⟨h1, h0⟩, h2⟩
                refine ⟨h1, fun ch hch w hw hv' => ?_⟩
                rcases List.mem_cons.1 hch with rfl | hch
                · rw [hsw'.1] at hw; cases hw; exact h0
                · exact h2 ch hch w hw hv'
              · rintro ⟨h1, h2⟩
                exact ⟨⟨h1, h2 s List.mem_cons_self sw hsw'.1 hvis⟩, fun ch hch => h2 ch (List.mem_cons_of_mem _ hch)⟩

/-- A live window that no visible... : a window of the list that does not cover the cell owns nothing there. -/
theorem own_none_of_noneCovers (t : Tree) (ho : Ordered t) (cs : List Id) (x y : Int) (h : NoneCovers t cs x y) :
    ∀ s ∈ cs, own t s x y = none := by
  intro s hs
  apply own_none_of_not_cin t ho
  rintro ⟨sw, hsw, hv, _, hm⟩
  exact h s hs sw hsw hv ((memb_true_iff _ _ _).1 hm)

theorem findSome?_append_none {α β : Type} (f : α → Option β) (l1 l2 : List α) (h : ∀ a ∈ l1, f a = none) :
    (l1 ++ l2).findSome? f = l2.findSome? f := by
  rw [List.findSome?_append]
  have : l1.findSome? f = none := List.findSome?_eq_none_iff.2 h
  rw [this]
  rfl

/-! ### `clipToAncestors` -/

/-- The cell `(l, c)` of the scrolled window, whose origin is at `(aT, aL)` in `a`'s coordinates, lies inside the area
    of every strict ancestor of `a` (as far as the fuel goes: the walk it is used with runs in lockstep). -/
def InAnc (t : Tree) : Nat → Id → Int → Int → Int → Int → Prop
  | 0, _, _, _, _, _ => True
  | k + 1, a, aT, aL, l, c =>
    ∀ aw, t.wins[a]? = some aw → ∀ p, aw.parent = some p → ∀ pw, t.wins[p]? = some pw →
      (0 ≤ l + (aT + aw.rect.top) ∧ l + (aT + aw.rect.top) < pw.rect.lines ∧
       0 ≤ c + (aL + aw.rect.left) ∧ c + (aL + aw.rect.left) < pw.rect.cols) ∧
      InAnc t k p (aT + aw.rect.top) (aL + aw.rect.left) l c

theorem clip_sub (t : Tree) : ∀ (k : Nat) (a : Id) (aT aL : Int) (r r' : Rect),
    clipToAncestors t k a aT aL r = .ok (some r') → ∀ l c, r'.Mem l c → r.Mem l c ∧ InAnc t k a aT aL l c := by
  intro k
  induction k with
  | zero => intro a aT aL r r' h; simp [clipToAncestors] at h
  | succ n ih =>
    intro a aT aL r r' h l c hm
    simp only [clipToAncestors, bind, Bind.bind] at h
    cases hg : WinTree.get t a with
    | ub e => rw [hg] at h; cases h
    | ok aw =>
      rw [hg] at h
      have haw := get_ok hg
      simp only at h
      cases hp : aw.parent with
      | none =>
        simp only [hp, pure, Pure.pure, Res.ok.injEq, Option.some.injEq] at h
        subst h
        refine ⟨hm, ?_⟩
        intro aw' haw' p hp'
        rw [haw.1] at haw'; cases haw'
        rw [hp] at hp'; cases hp'
      | some p =>
        simp only [hp] at h
        cases hgp : WinTree.get t p with
        | ub e => rw [hgp] at h; cases h
        | ok pw =>
          rw [hgp] at h
          have hpw := get_ok hgp
          simp only at h
          cases hi : Rect.intersect r ⟨-(aT + aw.rect.top), -(aL + aw.rect.left), pw.rect.lines, pw.rect.cols⟩ with
          | none => rw [hi] at h; simp only [pure, Pure.pure] at h; cases h
          | some r1 =>
            rw [hi] at h
            simp only at h
            obtain ⟨h1, h2⟩ := ih p _ _ r1 r' h l c hm
            have h3 := ((Props.C06.intersect_some _ _ _ hi).2 l c).1 h1
            refine ⟨h3.1, ?_⟩
            intro aw' haw' p' hp' pw' hpw'
            rw [haw.1] at haw'; cases haw'
            rw [hp] at hp'; cases hp'
            rw [hpw.1] at hpw'; cases hpw'
            have hb := h3.2
            simp only [Rect.Mem, Rect.bottom, Rect.right] at hb
            exact ⟨⟨by omega, by omega, by omega, by omega⟩, h2⟩

theorem clip_keep (t : Tree) (hok : TreeOk t) : ∀ (k : Nat) (a : Id) (aT aL : Int) (r : Rect) (res : Option Rect) (k' : Nat)
    (l c L C : Int),
    clipToAncestors t k a aT aL r = .ok res → r.Mem l c → ExposedAt t k' a (l + aT) (c + aL) L C →
    ∃ r', res = some r' ∧ r'.Mem l c := by
  intro k
  induction k with
  | zero => intro a aT aL r res k' l c L C h; simp [clipToAncestors] at h
  | succ n ih =>
    intro a aT aL r res k' l c L C h hm hex
    simp only [clipToAncestors, bind, Bind.bind] at h
    cases hg : WinTree.get t a with
    | ub e => rw [hg] at h; cases h
    | ok aw =>
      rw [hg] at h
      have haw := get_ok hg
      simp only at h
      cases hp : aw.parent with
      | none =>
        simp only [hp, pure, Pure.pure, Res.ok.injEq] at h
        exact ⟨r, h.symm, hm⟩
      | some p =>
        simp only [hp] at h
        cases hgp : WinTree.get t p with
        | ub e => rw [hgp] at h; cases h
        | ok pw =>
          rw [hgp] at h
          have hpw := get_ok hgp
          simp only at h
          -- the exposure continues in the parent
          cases k' with
          | zero => simp [ExposedAt] at hex
          | succ k2 =>
            simp only [ExposedAt] at hex
            obtain ⟨aw', haw', _, _, _, _, _, _, hrest⟩ := hex
            rw [haw.1] at haw'; cases haw'
            have hnr : aw.isRoot = false := by
              cases hr : aw.isRoot with
              | false => rfl
              | true =>
                have hx := hok.onlyRoot a aw haw.1 hr
                obtain ⟨rw0, hrw0, _, _, hrp, _⟩ := hok.rootWin.ex
                rw [hx] at haw
                rw [haw.1] at hrw0; cases hrw0
                rw [hp] at hrp; cases hrp
            rcases hrest with ⟨hr, _⟩ | ⟨_, p', hp', hexp⟩
            · rw [hnr] at hr; cases hr
            · rw [hp] at hp'; cases hp'
              have hexp' := hexp
              cases k2 with
              | zero => simp [ExposedAt] at hexp
              | succ k3 =>
                simp only [ExposedAt] at hexp
                obtain ⟨pw', hpw', _, b1, b2, b3, b4, _⟩ := hexp
                rw [hpw.1] at hpw'; cases hpw'
                have hbox : (⟨-(aT + aw.rect.top), -(aL + aw.rect.left), pw.rect.lines, pw.rect.cols⟩ : Rect).Mem l c := by
                  simp only [Rect.Mem, Rect.bottom, Rect.right]
                  omega
                cases hi : Rect.intersect r ⟨-(aT + aw.rect.top), -(aL + aw.rect.left), pw.rect.lines, pw.rect.cols⟩ with
                | none => exact absurd ⟨hm, hbox⟩ (Props.C06.intersect_none _ _ hi l c)
                | some r1 =>
                  rw [hi] at h
                  simp only at h
                  have hm1 : r1.Mem l c := ((Props.C06.intersect_some _ _ _ hi).2 l c).2 ⟨hm, hbox⟩
                  have e1 : l + aT + aw.rect.top = l + (aT + aw.rect.top) := by omega
                  have e2 : c + aL + aw.rect.left = c + (aL + aw.rect.left) := by omega
                  rw [e1, e2] at hexp'
                  exact ih p _ _ r1 res _ l c L C h hm1 hexp'

/-! ### the walk to the root -/

theorem not_mem_of_own_none (t : Tree) (ho : Ordered t) (s : Id) (x y : Int) (hl : Live t s) (h : own t s x y = none) :
    ∀ sw, t.wins[s]? = some sw → sw.isVisible = true → ¬ sw.rect.Mem x y := by
  intro sw hsw hv hm
  obtain ⟨sw', hsw', hf⟩ := hl
  rw [hsw] at hsw'; cases hsw'
  rw [own_eq_sub t ho s sw hsw, if_pos ⟨hv, hf, (memb_true_iff _ _ _).2 hm⟩] at h
  cases h

/-- **The walk of `_scrollrectset`**: level by level, the rectangle set is the part of the target region whose owner,
    within the subtree of the window reached, is the scrolled window. -/
theorem scrollWalk_spec (t : Tree) (pens : Array (Option Pen)) (hok : TreeOk t) (ho : Ordered t) (hpl : ParentListed t)
    (win : Id) (Tgt : Int → Int → Prop) :
    ∀ (k : Nat) (a : Id) (vis : List Rect) (aT aL : Int) (pen : Pen) (top : Id) (vis' : List Rect) (T' L' : Int) (pen' : Pen),
    scrollWalk t pens k a vis aT aL pen = .ok (some (top, vis', T', L', pen')) →
    RectSet.Inv vis → Anc t a win →
    (∀ l c, Tgt l c → InAnc t k a aT aL l c) →
    (∀ l c, Tgt l c → ∀ aw, t.wins[a]? = some aw → 0 ≤ l + aT ∧ l + aT < aw.rect.lines ∧ 0 ≤ c + aL ∧ c + aL < aw.rect.cols) →
    (∀ x y, Covered vis x y → ∀ aw, t.wins[a]? = some aw →
      Tgt (x - aT) (y - aL) ∧ subOwn t a aw.children x y = (win, x - aT, y - aL)) →
    (∀ x y l c, ∀ aw, t.wins[a]? = some aw → subOwn t a aw.children x y = (win, l, c) → Tgt l c →
      Covered vis x y ∧ l = x - aT ∧ c = y - aL) →
    RectSet.Inv vis' ∧ ∃ tw, t.wins[top]? = some tw ∧ tw.parent = none ∧ tw.isVisible = true ∧ tw.freed = false ∧
      (∀ l c, Tgt l c → 0 ≤ l + T' ∧ l + T' < tw.rect.lines ∧ 0 ≤ c + L' ∧ c + L' < tw.rect.cols) ∧
      (∀ x y, Covered vis' x y → Tgt (x - T') (y - L') ∧ subOwn t top tw.children x y = (win, x - T', y - L')) ∧
      (∀ x y l c, subOwn t top tw.children x y = (win, l, c) → Tgt l c → Covered vis' x y ∧ l = x - T' ∧ c = y - L') := by
  intro k
  induction k with
  | zero => intro a vis aT aL pen top vis' T' L' pen' h; simp [scrollWalk] at h
  | succ n ih =>
    intro a vis aT aL pen top vis' T' L' pen' h hinv hanc hia hin hv1 hv2
    simp only [scrollWalk, bind, Bind.bind] at h
    cases hg : WinTree.get t a with
    | ub e => rw [hg] at h; cases h
    | ok aw =>
      rw [hg] at h
      have haw := get_ok hg
      simp only at h
      cases hvis : aw.isVisible with
      | false => simp only [hvis, Bool.not_false, if_true, pure, Pure.pure] at h; cases h
      | true =>
        simp only [hvis, Bool.not_true, Bool.false_eq_true, if_false] at h
        cases hp : aw.parent with
        | none =>
          simp only [hp, pure, Pure.pure, Res.ok.injEq, Option.some.injEq, Prod.mk.injEq] at h
          obtain ⟨e1, e2, e3, e4, _⟩ := h
          subst e1 e2 e3 e4
          exact ⟨hinv, aw, haw.1, hp, hvis, haw.2, fun l c ht => hin l c ht aw haw.1,
            fun x y hc => hv1 x y hc aw haw.1, fun x y l c hs ht => hv2 x y l c aw haw.1 hs ht⟩
        | some p =>
          simp only [hp] at h
          cases hgp : WinTree.get t p with
          | ub e => rw [hgp] at h; cases h
          | ok pw =>
            rw [hgp] at h
            have hpw := get_ok hgp
            simp only at h
            cases hss : subtractSiblings t a pw.children (RectSet.translate vis aw.rect.top aw.rect.left) with
            | ub e => rw [hss] at h; cases h
            | ok vis2 =>
              rw [hss] at h
              simp only at h
              -- `a` is listed by `p`
              obtain ⟨pw', hpw', hmem⟩ := hpl a aw p haw.1 hp
              rw [hpw.1] at hpw'; cases hpw'
              have hinv1 := Props.C05.translate_inv vis aw.rect.top aw.rect.left hinv
              have htr := (Props.C05.translate_spec vis aw.rect.top aw.rect.left hinv.1).2
              obtain ⟨hinv2, l1, l2, hsplit, hnl1, hlive, hcov2⟩ := subtractSiblings_spec t a pw.children _ vis2 hss hinv1 hmem
              have hancp : Anc t p win := hanc.parent_up haw.1 hp
              -- `own` of `a` at a cell of the target region
              have hown_a : ∀ X Y, 0 ≤ X - aw.rect.top → X - aw.rect.top < aw.rect.lines → 0 ≤ Y - aw.rect.left →
                  Y - aw.rect.left < aw.rect.cols →
                  own t a X Y = some (subOwn t a aw.children (X - aw.rect.top) (Y - aw.rect.left)) := by
                intro X Y b1 b2 b3 b4
                rw [own_eq_sub t ho a aw haw.1, if_pos]
                refine ⟨hvis, haw.2, (memb_true_iff _ _ _).2 ?_⟩
                simp only [Rect.Mem, Rect.bottom, Rect.right]
                omega
              refine ih p vis2 (aT + aw.rect.top) (aL + aw.rect.left) _ top vis' T' L' pen' h hinv2 hancp ?_ ?_ ?_ ?_
              · intro l c ht
                have := hia l c ht
                simp only [InAnc] at this
                exact (this aw haw.1 p hp pw hpw.1).2
              · intro l c ht pw' hpw'
                rw [hpw.1] at hpw'; cases hpw'
                have := hia l c ht
                simp only [InAnc] at this
                have hb := (this aw haw.1 p hp pw hpw.1).1
                omega
              · -- V1 at `p`
                intro X Y hc pw' hpw'
                rw [hpw.1] at hpw'; cases hpw'
                obtain ⟨hc1, hnc⟩ := (hcov2 X Y).1 hc
                have hc0 := (htr X Y).1 hc1
                obtain ⟨ht, hs⟩ := hv1 _ _ hc0 aw haw.1
                have hb := hin _ _ ht aw haw.1
                have e1 : X - aw.rect.top - aT = X - (aT + aw.rect.top) := by omega
                have e2 : Y - aw.rect.left - aL = Y - (aL + aw.rect.left) := by omega
                rw [e1, e2] at ht hs
                refine ⟨ht, ?_⟩
                unfold subOwn
                rw [hsplit, findSome?_append_none _ l1 _ (own_none_of_noneCovers t ho l1 X Y hnc)]
                simp only [List.findSome?_cons]
                rw [hown_a X Y (by omega) (by omega) (by omega) (by omega), hs]
              · -- V2 at `p`
                intro X Y l c pw' hpw' hs ht
                rw [hpw.1] at hpw'; cases hpw'
                unfold subOwn at hs
                cases hfs : pw.children.findSome? (fun ch => own t ch X Y) with
                | none =>
                  rw [hfs] at hs
                  simp only [Prod.mk.injEq] at hs
                  -- `p` is a strict ancestor of `win`
                  have h1 := anc_le t ho hpl hanc
                  have h2 := parent_lt t ho hpl a aw p haw.1 hp
                  have h3 : @Eq Nat p win := hs.1
                  omega
                | some o =>
                  rw [hfs] at hs
                  simp only at hs
                  subst hs
                  obtain ⟨m1, ch, m2, hdec, hch, hm1⟩ := List.findSome?_eq_some_iff.1 hfs
                  have hchmem : ch ∈ pw.children := by rw [hdec]; simp
                  obtain ⟨chw, hchw, hchp, _⟩ := hok.wf.child p pw hpw.1 ch hchmem
                  have hanc_ch : Anc t ch win := ownerLoc_anc t hok.wf _ ch X Y win l c hch
                  have hcha : ch = a := anc_unique t ho hpl hanc_ch hanc hchw haw.1 hchp hp
                  subst hcha
                  have hnd := hok.nodup p pw hpw.1
                  have hnm1 : ch ∉ m1 := by
                    rw [hdec] at hnd
                    intro hx
                    have := (List.nodup_append.1 hnd).2.2 ch hx ch List.mem_cons_self
                    exact this rfl
                  have hl1 : l1 = m1 := prefix_unique ch l1 m1 l2 m2 (by rw [← hsplit, hdec]) hnl1 hnm1
                  have hcin := cin_of_own_some t ch X Y _ hch
                  obtain ⟨cw, hcw, _, _, hmm⟩ := hcin
                  rw [haw.1] at hcw; cases hcw
                  have hmm' := (memb_true_iff _ _ _).1 hmm
                  simp only [Rect.Mem, Rect.bottom, Rect.right] at hmm'
                  rw [hown_a X Y (by omega) (by omega) (by omega) (by omega)] at hch
                  simp only [Option.some.injEq] at hch
                  obtain ⟨hc0, hl, hc⟩ := hv2 _ _ l c aw haw.1 hch ht
                  refine ⟨(hcov2 X Y).2 ⟨(htr X Y).2 hc0, ?_⟩, by omega, by omega⟩
                  intro s hs sw hsw hvs
                  rw [hl1] at hs
                  exact not_mem_of_own_none t ho s X Y (hlive s (by rw [hl1]; exact hs)) (hm1 s hs) sw hsw hvs

end WinFlush
end Tickit
