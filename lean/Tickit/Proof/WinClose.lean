import Tickit.Proof.WinList
/-
  `tickit_window_close` (of a window without queued restacking requests): the invariant step.
-/
namespace Tickit
namespace WinFlush
open WinTree WinRB WinSpec

/-- The structural invariants of the window store. -/
structure TreeOk (t : Tree) : Prop where
  wf : WFp t
  nodup : ∀ (cur : Id) (w : Win), t.wins[cur]? = some w → w.children.Nodup
  noSelf : ∀ (x : Id) (w : Win), t.wins[x]? = some w → w.parent ≠ some x
  onlyRoot : OnlyRoot t
  rootWin : RootWin t

def ChildrenNodup (t : Tree) : Prop := ∀ (cur : Id) (w : Win), t.wins[cur]? = some w → w.children.Nodup
def NoSelfParent (t : Tree) : Prop := ∀ (x : Id) (w : Win), t.wins[x]? = some w → w.parent ≠ some x

theorem struct_congr_wins {t t' : Tree} (h : t'.wins = t.wins) (h1 : ChildrenNodup t) (h2 : NoSelfParent t) :
    ChildrenNodup t' ∧ NoSelfParent t' :=
  ⟨fun cur w hw => h1 cur w (by rw [← h]; exact hw), fun x w hw => h2 x w (by rw [← h]; exact hw)⟩

theorem struct_sameBut {t t' : Tree} {id : Id} (h : SameBut t t' id) (h1 : ChildrenNodup t) (h2 : NoSelfParent t) :
    ChildrenNodup t' ∧ NoSelfParent t' := by
  constructor
  · intro cur w' hw'
    obtain ⟨w, hw, hc⟩ := noVis_some (sameBut_noVis h cur).symm hw'
    simp only [coreNoVis, Prod.mk.injEq] at hc
    rw [← hc.2.2.1]; exact h1 cur w hw
  · intro x w' hw'
    obtain ⟨w, hw, hc⟩ := noVis_some (sameBut_noVis h x).symm hw'
    simp only [coreNoVis, Prod.mk.injEq] at hc
    rw [← hc.2.2.2.1]; exact h2 x w hw

theorem struct_sameButG {t t' : Tree} {id : Id} (h : SameButG t t' id) (h1 : ChildrenNodup t) (h2 : NoSelfParent t) :
    ChildrenNodup t' ∧ NoSelfParent t' := by
  constructor
  · intro cur w' hw'
    obtain ⟨w, hw, hc, _⟩ := sameButG_struct (sameButG_symm h) cur hw'
    simp only [coreSelf, Prod.mk.injEq] at hc
    rw [← hc.2.1]; exact h1 cur w hw
  · intro x w' hw'
    obtain ⟨w, hw, hc, _⟩ := sameButG_struct (sameButG_symm h) x hw'
    simp only [coreSelf, Prod.mk.injEq] at hc
    rw [← hc.2.2.1]; exact h2 x w hw

/-- `TreeOk`, `RootOk` and `RootsPositive` only read `core`. -/
theorem treeOk_congr_core {t t' : Tree} (h : ∀ x : Id, (t'.wins[x]?).map core = (t.wins[x]?).map core) (hok : TreeOk t) : TreeOk t' := by
  have hsym : ∀ x, (t.wins[x]?).map core = (t'.wins[x]?).map core := fun x => (h x).symm
  refine ⟨⟨?_⟩, ?_, ?_, ?_, ?_⟩
  · intro cur w' hw' ch hch
    obtain ⟨w, hw, hc⟩ := map_core_some (hsym cur) hw'
    simp only [core, Prod.mk.injEq] at hc
    obtain ⟨cw, hcw, hcp, hcr⟩ := hok.wf.child cur w hw ch (by rw [hc.2.2.2.1]; exact hch)
    obtain ⟨cw', hcw', hcc⟩ := map_core_some (h ch) hcw
    simp only [core, Prod.mk.injEq] at hcc
    exact ⟨cw', hcw', by rw [hcc.2.2.2.2.1]; exact hcp, by rw [hcc.2.2.2.2.2]; exact hcr⟩
  · intro cur w' hw'
    obtain ⟨w, hw, hc⟩ := map_core_some (hsym cur) hw'
    simp only [core, Prod.mk.injEq] at hc
    rw [← hc.2.2.2.1]; exact hok.nodup cur w hw
  · intro x w' hw'
    obtain ⟨w, hw, hc⟩ := map_core_some (hsym x) hw'
    simp only [core, Prod.mk.injEq] at hc
    rw [← hc.2.2.2.2.1]; exact hok.noSelf x w hw
  · intro x w' hw' hr
    obtain ⟨w, hw, hc⟩ := map_core_some (hsym x) hw'
    simp only [core, Prod.mk.injEq] at hc
    exact hok.onlyRoot x w hw (by rw [hc.2.2.2.2.2]; exact hr)
  · obtain ⟨w, hw, hf, hroot, hp, htop, hleft⟩ := hok.rootWin.ex
    obtain ⟨w', hw', hc⟩ := map_core_some (h 0) hw
    simp only [core, Prod.mk.injEq] at hc
    exact ⟨⟨w', hw', by rw [hc.2.1]; exact hf, by rw [hc.2.2.2.2.2]; exact hroot, by rw [hc.2.2.2.2.1]; exact hp,
      by rw [hc.2.2.1]; exact htop, by rw [hc.2.2.1]; exact hleft⟩⟩

theorem rootOk_congr_core {t t' : Tree} (h : (t'.wins[0]?).map core = (t.wins[0]?).map core) (hr : RootOk t) : RootOk t' := by
  obtain ⟨w, hw, hf, hv, htop, hleft⟩ := hr.ex
  obtain ⟨w', hw', hc⟩ := map_core_some h hw
  simp only [core, Prod.mk.injEq] at hc
  exact ⟨⟨w', hw', by rw [hc.2.1]; exact hf, by rw [hc.1]; exact hv, by rw [hc.2.2.1]; exact htop, by rw [hc.2.2.1]; exact hleft⟩⟩

theorem rootsPositive_congr_core {t t' : Tree} (h : ∀ x : Id, (t'.wins[x]?).map core = (t.wins[x]?).map core)
    (hp : RootsPositive t) : RootsPositive t' := by
  intro x w' hw' hr
  obtain ⟨w, hw, hc⟩ := map_core_some (h x).symm hw'
  simp only [core, Prod.mk.injEq] at hc
  have := hp x w hw (by rw [hc.2.2.2.2.2]; exact hr)
  rw [hc.2.2.1] at this
  exact this

/-- Ownership only reads `view`. -/
theorem ownerLoc_congr_view {t t' : Tree} (h : ∀ x : Id, (t'.wins[x]?).map view = (t.wins[x]?).map view) :
    ∀ (fuel : Nat) (id : Id) (l c : Int), ownerLoc t' fuel id l c = ownerLoc t fuel id l c := by
  intro fuel
  induction fuel with
  | zero => intro id l c; rfl
  | succ n ih =>
    intro id l c
    cases ht : t.wins[id]? with
    | none =>
      have := map_view_none (h id) ht
      simp only [ownerLoc, ht, this]
    | some w =>
      obtain ⟨w', ht', hc⟩ := map_view_some (h id) ht
      simp only [view, Prod.mk.injEq] at hc
      simp only [ownerLoc, ht, ht', hc.1, hc.2.1, hc.2.2.1, hc.2.2.2, ih]

theorem erase_filter_ne (c : Id) : ∀ (cs : List Id),
    (cs.erase c).filter (fun x => decide (x ≠ c)) = cs.filter (fun x => decide (x ≠ c)) := by
  intro cs
  induction cs with
  | nil => rfl
  | cons a rest ih =>
    by_cases ha : a = c
    · subst ha
      simp
    · have hne : (a == c) = false := by simpa using ha
      simp only [List.erase_cons, hne, Bool.false_eq_true, if_false, ne_eq, ha, not_false_eq_true, decide_true,
        List.filter_cons_of_pos]
      rw [← ih]

/-- `_purge_hierarchy_changes` only filters the queue. -/
theorem purge_spec (t : Tree) (fuel : Nat) (win : Id) (t2 : Tree) (h : purgeHierarchyChanges t fuel win = .ok t2) :
    t2.wins = t.wins ∧ t2.root.damage = t.root.damage ∧ t2.root.needsExpose = t.root.needsExpose ∧
    t2.root.needsLater = t.root.needsLater ∧ (t.root.changes = [] → t2.root.changes = []) := by
  unfold purgeHierarchyChanges at h
  simp only [bind, Bind.bind] at h
  cases h1 : topOf t fuel win with
  | ub e => rw [h1] at h; cases h
  | ok top =>
    rw [h1] at h
    simp only at h
    cases h2 : WinTree.get t top with
    | ub e => rw [h2] at h; cases h
    | ok tw =>
      rw [h2] at h
      simp only at h
      split at h
      · simp only [pure, Pure.pure] at h
        cases h
        exact ⟨rfl, rfl, rfl, rfl, fun hq => hq⟩
      · cases h3 : purgeHierarchyChanges.chk t t.root.changes with
        | ub e => rw [h3] at h; cases h
        | ok u =>
          rw [h3] at h
          simp only [pure, Pure.pure] at h
          cases h
          exact ⟨rfl, rfl, rfl, rfl, fun hq => by simp [hq]⟩

theorem get_congr_wins {t t' : Tree} (h : t'.wins = t.wins) (id : Id) : WinTree.get t' id = WinTree.get t id := by
  unfold WinTree.get; rw [h]

theorem core_view {w w' : Win} (h : core w' = core w) : view w' = view w := by
  simp only [core, view, Prod.mk.injEq] at h ⊢
  exact ⟨h.1, h.2.1, h.2.2.1, h.2.2.2.1⟩

theorem ownerAt_congr_view {t t' : Tree} (h : ∀ x : Id, (t'.wins[x]?).map view = (t.wins[x]?).map view)
    (hs : t'.wins.size = t.wins.size) (L C : Int) : ownerAt t' L C = ownerAt t L C := by
  unfold ownerAt
  rw [hs]
  exact ownerLoc_congr_view h _ _ _ _

theorem map_core_view {a b : Option Win} (h : a.map core = b.map core) : a.map view = b.map view := by
  cases a with
  | none => cases b with
    | none => rfl
    | some w => simp at h
  | some w' => cases b with
    | none => simp at h
    | some w => simp only [Option.map_some, Option.some.injEq] at h ⊢; exact core_view h

/-- Marking a window closed changes nothing the composition or the structural invariants read. -/
theorem core_set_closed (t : Tree) (id : Id) (w : Win) (hw : t.wins[id]? = some w) (x : Id) :
    ((WinTree.set t id { w with isClosed := true }).wins[x]?).map core = (t.wins[x]?).map core := by
  by_cases hx : x = id
  · subst hx
    rw [set_wins_self t x w _ hw, hw]
    rfl
  · rw [set_wins_other t id x _ hx]

/-- **`inv_step` for `tickit_window_close`**. -/
theorem close_step (content : Id → Int → Int → Cell) (screen : Int → Int → Cell) (t t' : Tree) (id : Id)
    (h : WinTree.close t (t.wins.size + 1) id = .ok t') (hid : id ≠ 0)
    (hok : TreeOk t) (hro : RootOk t) (hne : ∀ x ∈ t.root.damage, x.Nonempty) (hpos : RootsPositive t)
    (hinv : InvC content t screen) :
    InvC content t' screen ∧ TreeOk t' ∧ RootOk t' ∧ (∀ x ∈ t'.root.damage, x.Nonempty) ∧
    (RectSet.Inv t.root.damage → RectSet.Inv t'.root.damage) ∧ RootsPositive t' ∧
    (t.root.changes = [] → t'.root.changes = []) ∧
    ((t.root.damage ≠ [] → t.root.needsExpose = true ∧ t.root.needsLater = true) →
      (t'.root.damage ≠ [] → t'.root.needsExpose = true ∧ t'.root.needsLater = true)) := by
  unfold WinTree.close at h
  simp only [bind, Bind.bind] at h
  cases hg : WinTree.get t id with
  | ub e => rw [hg] at h; cases h
  | ok w0 =>
    rw [hg] at h
    have hw0 := get_ok hg
    simp only at h
    -- the last step: mark closed
    have fin : ∀ (tc : Tree), WinTree.modify tc id (fun w => { w with isClosed := true }) = .ok t' →
        (∀ x : Id, (t'.wins[x]?).map core = (tc.wins[x]?).map core) ∧ t'.root = tc.root ∧ t'.wins.size = tc.wins.size := by
      intro tc hm
      unfold WinTree.modify at hm
      simp only [bind, Bind.bind] at hm
      cases hgc : WinTree.get tc id with
      | ub e => rw [hgc] at hm; cases hm
      | ok wc =>
        rw [hgc] at hm
        simp only [pure, Pure.pure] at hm
        cases hm
        exact ⟨core_set_closed tc id wc (get_ok hgc).1, rfl, set_size _ _ _⟩
    cases hp : w0.parent with
    | none =>
      simp only [hp, pure, Pure.pure] at h
      obtain ⟨hcore, hroot, hsz⟩ := fin t h
      refine ⟨?_, treeOk_congr_core hcore hok, rootOk_congr_core (hcore 0) hro, by rw [hroot]; exact hne,
        by rw [hroot]; exact fun hi => hi, rootsPositive_congr_core hcore hpos, by rw [hroot]; exact fun hq => hq,
        by rw [hroot]; exact fun hf => hf⟩
      intro L C w l c ho
      rw [ownerAt_congr_view (fun x => map_core_view (hcore x)) hsz] at ho
      rw [hroot]
      exact hinv L C w l c ho
    | some p =>
      simp only [hp] at h
      have hpid : p ≠ id := by
        intro hx
        exact hok.noSelf id w0 hw0.1 (by rw [hp, hx])
      cases hpu : purgeHierarchyChanges t (t.wins.size + 1) id with
      | ub e => rw [hpu] at h; cases h
      | ok tq =>
        rw [hpu] at h
        simp only at h
        obtain ⟨hqw, hqd, hqe, hql, hqc⟩ := purge_spec t _ id tq hpu
        unfold doHierarchyChange at h
        simp only [bind, Bind.bind] at h
        rw [get_congr_wins hqw p, get_congr_wins hqw id, hg] at h
        cases hgp : WinTree.get t p with
        | ub e => rw [hgp] at h; cases h
        | ok pw =>
          rw [hgp] at h
          have hpw := get_ok hgp
          simp only at h
          cases hlr : listRemove pw.children id with
          | ub e => rw [hlr] at h; cases h
          | ok cs =>
            rw [hlr] at h
            have hcs : cs = pw.children.erase id ∧ id ∈ pw.children := by
              unfold listRemove at hlr
              split at hlr
              · rename_i hc
                cases hlr
                exact ⟨rfl, by simpa using hc⟩
              · cases hlr
            simp only at h
            generalize hpw' : ({ pw with children := cs, focusedChild := if pw.focusedChild = some id then none else pw.focusedChild } : Win) = pw' at h
            generalize hta : WinTree.set tq p pw' = ta at h
            have hta_id : ta.wins[id]? = some w0 := by
              rw [← hta, set_wins_other tq p id _ (Ne.symm hpid), hqw]; exact hw0.1
            have hga : WinTree.get ta id = .ok w0 := by
              unfold WinTree.get; rw [hta_id]; simp [hw0.2]
            rw [hga] at h
            simp only [pure, Pure.pure] at h
            generalize htb : WinTree.set ta id { w0 with parent := none } = tb at h
            -- the store of `tb`
            have hb_id : tb.wins[id]? = some { w0 with parent := none } := by
              rw [← htb]; exact set_wins_self ta id w0 _ hta_id
            have hb_p : tb.wins[p]? = some pw' := by
              rw [← htb, set_wins_other ta id p _ hpid, ← hta]
              exact set_wins_self tq p pw _ (by rw [hqw]; exact hpw.1)
            have hb_other : ∀ x : Id, x ≠ p → x ≠ id → tb.wins[x]? = t.wins[x]? := by
              intro x hxp hxi
              rw [← htb, set_wins_other ta id x _ hxi, ← hta, set_wins_other tq p x _ hxp, hqw]
            have hb_size : tb.wins.size = t.wins.size := by
              rw [← htb, set_size, ← hta, set_size, hqw]
            have hb_root : tb.root = tq.root := by rw [← htb, ← hta]; rfl
            have hpw'_f : pw'.isVisible = pw.isVisible ∧ pw'.freed = pw.freed ∧ pw'.rect = pw.rect ∧ pw'.parent = pw.parent ∧
                pw'.isRoot = pw.isRoot ∧ pw'.children = pw.children.erase id := by
              rw [← hpw', hcs.1]; exact ⟨rfl, rfl, rfl, rfl, rfl, rfl⟩
            -- `id` is listed by `p` only
            have honly : ∀ (x : Id) (w : Win), x ≠ p → t.wins[x]? = some w → id ∉ w.children := by
              intro x w hx hw hmem
              obtain ⟨cw, hcw, hcp, _⟩ := hok.wf.child x w hw id hmem
              rw [hw0.1] at hcw; cases hcw
              rw [hp] at hcp
              exact hx (Option.some.inj hcp).symm
            have hnotin : id ∉ pw.children.erase id := by
              intro hmem
              exact (List.Nodup.not_mem_erase (hok.nodup p pw hpw.1)) hmem
            -- (1) the locality hypothesis
            have hsbl : SameButL t tb p id :=
              { other := fun x hxp hxi => by rw [hb_other x hxp hxi]
                parNone := fun hn => by rw [hpw.1] at hn; cases hn
                par := fun pw2 hpw2 => by
                  rw [hpw.1] at hpw2; cases hpw2
                  exact ⟨pw', hb_p, hpw'_f.1, hpw'_f.2.1, hpw'_f.2.2.1, by rw [hpw'_f.2.2.2.2.2]; exact erase_filter_ne id _⟩
                size := hb_size
                only := fun x w hxp _ hw => honly x w hxp hw }
            -- (2) the structural invariants of `tb`
            have hokb : TreeOk tb := by
              -- every window of `tb` against the window of `t`
              have hrel : ∀ (x : Id) (wb : Win), tb.wins[x]? = some wb → ∃ w, t.wins[x]? = some w ∧ wb.isRoot = w.isRoot ∧
                  (x ≠ id → wb.parent = w.parent) ∧ (x = id → wb.parent = none) ∧
                  (x ≠ p → wb.children = w.children) ∧ (x = p → wb.children = w.children.erase id) := by
                intro x wb hwb
                by_cases hxi : x = id
                · subst hxi
                  rw [hb_id] at hwb; cases hwb
                  exact ⟨w0, hw0.1, rfl, fun hx => absurd rfl hx, fun _ => rfl, fun _ => rfl, fun hx => absurd hx.symm hpid⟩
                · by_cases hxp : x = p
                  · subst hxp
                    rw [hb_p] at hwb; cases hwb
                    exact ⟨pw, hpw.1, hpw'_f.2.2.2.2.1, fun _ => hpw'_f.2.2.2.1, fun hx => absurd hx hxi,
                      fun hx => absurd rfl hx, fun _ => hpw'_f.2.2.2.2.2⟩
                  · rw [hb_other x hxp hxi] at hwb
                    exact ⟨wb, hwb, rfl, fun _ => rfl, fun hx => absurd hx hxi, fun _ => rfl, fun hx => absurd hx hxp⟩
              have hrel' : ∀ (x : Id) (w : Win), t.wins[x]? = some w → ∃ wb, tb.wins[x]? = some wb := by
                intro x w hw
                by_cases hxi : x = id
                · exact ⟨_, by rw [hxi]; exact hb_id⟩
                · by_cases hxp : x = p
                  · exact ⟨_, by rw [hxp]; exact hb_p⟩
                  · exact ⟨w, by rw [hb_other x hxp hxi]; exact hw⟩
              refine ⟨⟨?_⟩, ?_, ?_, ?_, ?_⟩
              · intro cur wb hwb ch hch
                obtain ⟨w, hw, _, _, _, hc1, hc2⟩ := hrel cur wb hwb
                have hch' : ch ∈ w.children ∧ ch ≠ id := by
                  by_cases hcp : cur = p
                  · rw [hc2 hcp] at hch
                    subst hcp
                    rw [hpw.1] at hw; cases hw
                    exact ⟨List.mem_of_mem_erase hch, fun hx => hnotin (by rw [hx] at hch; exact hch)⟩
                  · rw [hc1 hcp] at hch
                    exact ⟨hch, fun hx => honly cur w hcp hw (by rw [hx] at hch; exact hch)⟩
                obtain ⟨cw, hcw, hcpar, hcr⟩ := hok.wf.child cur w hw ch hch'.1
                obtain ⟨cwb, hcwb⟩ := hrel' ch cw hcw
                obtain ⟨cw2, hcw2, hr2, hp2, _, _, _⟩ := hrel ch cwb hcwb
                rw [hcw] at hcw2; cases hcw2
                exact ⟨cwb, hcwb, by rw [hp2 hch'.2]; exact hcpar, by rw [hr2]; exact hcr⟩
              · intro cur wb hwb
                obtain ⟨w, hw, _, _, _, hc1, hc2⟩ := hrel cur wb hwb
                by_cases hcp : cur = p
                · rw [hc2 hcp]; exact (hok.nodup cur w hw).erase id
                · rw [hc1 hcp]; exact hok.nodup cur w hw
              · intro x wb hwb
                obtain ⟨w, hw, _, hp1, hp2, _, _⟩ := hrel x wb hwb
                by_cases hxi : x = id
                · rw [hp2 hxi]; exact fun hx => by cases hx
                · rw [hp1 hxi]; exact hok.noSelf x w hw
              · intro x wb hwb hr
                obtain ⟨w, hw, hr1, _⟩ := hrel x wb hwb
                exact hok.onlyRoot x w hw (by rw [← hr1]; exact hr)
              · obtain ⟨w, hw, hf, hroot, hpar, htop, hleft⟩ := hok.rootWin.ex
                by_cases h0p : (0 : Id) = p
                · rw [← h0p] at hb_p
                  rw [← h0p, hw] at hpw
                  have := hpw.1; cases this
                  exact ⟨⟨pw', hb_p, by rw [hpw'_f.2.1]; exact hf, by rw [hpw'_f.2.2.2.2.1]; exact hroot,
                    by rw [hpw'_f.2.2.2.1]; exact hpar, by rw [hpw'_f.2.2.1]; exact htop, by rw [hpw'_f.2.2.1]; exact hleft⟩⟩
                · exact ⟨⟨w, by rw [hb_other 0 h0p (Ne.symm hid)]; exact hw, hf, hroot, hpar, htop, hleft⟩⟩
            have hrob : RootOk tb := by
              obtain ⟨w, hw, hf, hv, htop, hleft⟩ := hro.ex
              by_cases h0p : (0 : Id) = p
              · rw [← h0p] at hb_p
                rw [← h0p, hw] at hpw
                have := hpw.1; cases this
                exact ⟨⟨pw', hb_p, by rw [hpw'_f.2.1]; exact hf, by rw [hpw'_f.1]; exact hv,
                  by rw [hpw'_f.2.2.1]; exact htop, by rw [hpw'_f.2.2.1]; exact hleft⟩⟩
              · exact ⟨⟨w, by rw [hb_other 0 h0p (Ne.symm hid)]; exact hw, hf, hv, htop, hleft⟩⟩
            have hposb : RootsPositive tb := by
              intro x wb hwb hr
              have hx := hokb.onlyRoot x wb hwb hr
              subst hx
              obtain ⟨w, hw, hf, hv, htop, hleft⟩ := hro.ex
              by_cases h0p : (0 : Id) = p
              · rw [← h0p] at hb_p
                rw [hb_p] at hwb; cases hwb
                rw [← h0p, hw] at hpw
                have := hpw.1; cases this
                have := hpos 0 pw hw (by rw [← hpw'_f.2.2.2.2.1]; exact hr)
                rw [hpw'_f.2.2.1]; exact this
              · rw [hb_other 0 h0p (Ne.symm hid)] at hwb
                exact hpos 0 wb hwb hr
            -- (3) owner changes only under `id`'s rectangle, which the expose covers
            have hlocal : ∀ L C, ownerAt tb L C ≠ ownerAt t L C → w0.isVisible = true ∧
                ExposedRegion tb (t.wins.size + 1) p (some w0.rect) L C := by
              intro L C hne'
              unfold ownerAt at hne'
              rw [hb_size] at hne'
              have hu := ownerLoc_localL hsbl hpid _ 0 L C (Ne.symm hid) hne'
              obtain ⟨rw1, hrw1, hrf1, hrr1, hrp1, hrt1, hrl1⟩ := hokb.rootWin.ex
              obtain ⟨x, y, k', hP, hk, hex⟩ := under_ctxL tb hokb.wf p _ (t.wins.size + 1) 0 L C 0 L C rw1 hrw1
                (by rw [hrr1, hrp1]; rfl) (fun _ => ⟨hrt1, hrl1⟩) (by rw [hrp1]; exact ⟨rfl, rfl⟩) hu
              have hvis : w0.isVisible = true ∧ w0.rect.memb x y = true := by
                rcases hP with ⟨cw, hcw, hv, _, hm⟩ | ⟨cw, hcw, hv, _, hm⟩
                · rw [hw0.1] at hcw; cases hcw; exact ⟨hv, hm⟩
                · rw [hb_id] at hcw; cases hcw; exact ⟨hv, hm⟩
              exact ⟨hvis.1, x, y, fun r hr' => by cases hr'; exact (memb_true_iff _ _ _).1 hvis.2,
                exposedAt_mono_le tb (by omega) hex⟩
            -- the expose (or not) and the closing mark
            have finish : ∀ (tc : Tree), tc.wins = tb.wins → (∀ x ∈ tc.root.damage, x.Nonempty) →
                (RectSet.Inv t.root.damage → RectSet.Inv tc.root.damage) →
                (∀ L C, Covered t.root.damage L C → Covered tc.root.damage L C) →
                (∀ L C, ownerAt tb L C ≠ ownerAt t L C → Covered tc.root.damage L C) →
                (t.root.changes = [] → tc.root.changes = []) →
                ((t.root.damage ≠ [] → t.root.needsExpose = true ∧ t.root.needsLater = true) →
                  (tc.root.damage ≠ [] → tc.root.needsExpose = true ∧ tc.root.needsLater = true)) →
                WinTree.modify tc id (fun w => { w with isClosed := true }) = .ok t' →
                (InvC content t' screen ∧ TreeOk t' ∧ RootOk t' ∧ (∀ x ∈ t'.root.damage, x.Nonempty) ∧
                  (RectSet.Inv t.root.damage → RectSet.Inv t'.root.damage) ∧ RootsPositive t' ∧
                  (t.root.changes = [] → t'.root.changes = []) ∧
                  ((t.root.damage ≠ [] → t.root.needsExpose = true ∧ t.root.needsLater = true) →
                    (t'.root.damage ≠ [] → t'.root.needsExpose = true ∧ t'.root.needsLater = true))) := by
              intro tc hcw hcne hcinv hcgrow hccov hcq hcf hm
              obtain ⟨hcore, hroot, hsz⟩ := fin tc hm
              have hcore' : ∀ x : Id, (t'.wins[x]?).map core = (tb.wins[x]?).map core := by
                intro x; rw [hcore x, hcw]
              refine ⟨?_, treeOk_congr_core hcore' hokb, rootOk_congr_core (hcore' 0) hrob, by rw [hroot]; exact hcne,
                by rw [hroot]; exact hcinv, rootsPositive_congr_core hcore' hposb, by rw [hroot]; exact hcq,
                by rw [hroot]; exact hcf⟩
              intro L C w l c ho
              rw [ownerAt_congr_view (fun x => map_core_view (hcore' x)) (by rw [hsz, hcw])] at ho
              rw [hroot]
              by_cases heq : ownerAt tb L C = ownerAt t L C
              · rw [heq] at ho
                rcases hinv L C w l c ho with hc | hc
                · exact Or.inl (hcgrow L C hc)
                · exact Or.inr hc
              · exact Or.inl (hccov L C heq)
            cases hvis : w0.isVisible with
            | true =>
              simp only [hvis, if_true] at h
              cases hex : expose tb (t.wins.size + 1) p (some w0.rect) with
              | ub e => rw [hex] at h; cases h
              | ok tc =>
                rw [hex] at h
                simp only at h
                obtain ⟨hwins, hne', hdi, hfl, hcov⟩ := expose_spec _ tb p _ tc hex
                  (by rw [hb_root, hqd]; exact hne) hposb
                refine finish tc hwins hne' (fun hi => hdi (by rw [hb_root, hqd]; exact hi))
                  (fun L C hc => (hcov L C).2 (Or.inl (by rw [hb_root, hqd]; exact hc)))
                  (fun L C hne'' => (hcov L C).2 (Or.inr (hlocal L C hne'').2)) ?_ ?_ h
                · intro hq
                  rcases hfl with rfl | ⟨_, _, c⟩
                  · rw [hb_root]; exact hqc hq
                  · rw [c, hb_root]; exact hqc hq
                · intro hf
                  rcases hfl with rfl | ⟨a, b, _⟩
                  · rw [hb_root, hqd, hqe, hql]; exact hf
                  · intro _; exact ⟨a, b⟩
            | false =>
              simp only [hvis, Bool.false_eq_true, if_false] at h
              refine finish tb rfl (by rw [hb_root, hqd]; exact hne) (by rw [hb_root, hqd]; exact fun hi => hi)
                (fun L C hc => by rw [hb_root, hqd]; exact hc)
                (fun L C hne'' => by have := (hlocal L C hne'').1; rw [hvis] at this; cases this) ?_ ?_ h
              · intro hq; rw [hb_root]; exact hqc hq
              · intro hf; rw [hb_root, hqd, hqe, hql]; exact hf

end WinFlush
end Tickit
