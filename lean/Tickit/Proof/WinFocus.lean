import Tickit.Model.WinFocus
/-
  Helper lemmas for the C15 theorems (focus chain, cursor restore).
-/
namespace Tickit
namespace WinFocus
open WinTree

/-! ### the `Res` monad -/

theorem bind_ok {α β : Type} {x : Res α} {f : α → Res β} {b : β} :
    (x >>= f) = .ok b ↔ ∃ a, x = .ok a ∧ f a = .ok b := by
  cases x with
  | ok a => simp [bind]
  | ub w => simp [bind]

theorem pure_ok {α : Type} {a b : α} : (pure a : Res α) = .ok b ↔ a = b := by
  simp [pure]

/-- Decidable equality of outcomes (for the kernel-checked counterexamples). -/
instance resDecEq {α : Type} [DecidableEq α] : DecidableEq (Res α)
  | .ok a, .ok b => if h : a = b then isTrue (by rw [h]) else isFalse (by intro h'; cases h'; exact h rfl)
  | .ub a, .ub b => if h : a = b then isTrue (by rw [h]) else isFalse (by intro h'; cases h'; exact h rfl)
  | .ok _, .ub _ => isFalse (by intro h; cases h)
  | .ub _, .ok _ => isFalse (by intro h; cases h)

/-! ### event order -/

/-- An event list made of OUT events only. -/
def AllOut (es : List Event) : Prop := ∀ e ∈ es, e.type = .focusOut
/-- An event list made of IN events only. -/
def AllIn (es : List Event) : Prop := ∀ e ∈ es, e.type = .focusIn

theorem allOut_nil : AllOut [] := by intro e h; cases h
theorem allIn_nil : AllIn [] := by intro e h; cases h
theorem allOut_append {a b : List Event} (ha : AllOut a) (hb : AllOut b) : AllOut (a ++ b) := by
  intro e h; rcases List.mem_append.mp h with h | h
  · exact ha e h
  · exact hb e h
theorem allIn_append {a b : List Event} (ha : AllIn a) (hb : AllIn b) : AllIn (a ++ b) := by
  intro e h; rcases List.mem_append.mp h with h | h
  · exact ha e h
  · exact hb e h
theorem allOut_single (a b : Id) : AllOut [⟨a, .focusOut, b⟩] := by
  intro e he; simp at he; subst he; rfl
theorem allIn_single (a b : Id) : AllIn [⟨a, .focusIn, b⟩] := by
  intro e he; simp at he; subst he; rfl
theorem allOut_ite (c : Bool) (a b : Id) : AllOut (if c then [(⟨a, .focusOut, b⟩ : Event)] else []) := by
  cases c
  · exact allOut_nil
  · exact allOut_single a b
theorem allIn_ite (c : Bool) (a b : Id) : AllIn (if c then [(⟨a, .focusIn, b⟩ : Event)] else []) := by
  cases c
  · exact allIn_nil
  · exact allIn_single a b

theorem focusLostSelf_events {t : Tree} {win : Id} {evs : List Event} {r : Tree × List Event}
    (h : focusLostSelf t win evs = .ok r) : ∃ x, r.2 = evs ++ x ∧ AllOut x := by
  simp only [focusLostSelf, bind_ok] at h
  obtain ⟨w, _, h⟩ := h
  split at h
  · simp only [pure_ok] at h; subst h; exact ⟨_, rfl, allOut_single _ _⟩
  · simp only [pure_ok] at h; subst h; exact ⟨[], by simp, allOut_nil⟩

/-- `_focus_lost` only ever delivers OUT events. -/
theorem focusLost_allOut : ∀ (fuel : Nat) (t : Tree) (win : Id) (r : Tree × List Event),
    focusLost fuel t win = .ok r → AllOut r.2 := by
  intro fuel
  induction fuel with
  | zero => intro t win r h; simp [focusLost] at h
  | succ n ih =>
    intro t win r h
    simp only [focusLost, bind_ok] at h
    obtain ⟨r1, h1, h2⟩ := h
    have he1 : AllOut r1.2 := by
      simp only [focusLostChild, bind_ok] at h1
      obtain ⟨w, _, h1⟩ := h1
      split at h1
      · simp only [pure_ok] at h1; subst h1; exact allOut_nil
      · simp only [bind_ok, pure_ok] at h1
        obtain ⟨r0, h0, w', _, h1⟩ := h1
        subst h1
        exact allOut_append (ih _ _ _ h0) (allOut_ite _ _ _)
    obtain ⟨x, hx, hxo⟩ := focusLostSelf_events h2
    rw [hx]; exact allOut_append he1 hxo

theorem gainLoseOld_allOut {fx : Fixes} {t : Tree} {win : Id} {child : Option Id} {r : Tree × List Event}
    (h : gainLoseOld fx t win child = .ok r) : AllOut r.2 := by
  simp only [gainLoseOld, bind_ok] at h
  obtain ⟨w, _, h⟩ := h
  split at h
  · simp only [pure_ok] at h; subst h; exact allOut_nil
  · split at h
    · simp only [bind_ok, pure_ok] at h
      obtain ⟨r0, h0, w', _, h⟩ := h
      subst h
      refine allOut_append (focusLost_allOut _ _ _ _ h0) ?_
      exact allOut_ite _ _ _
    · simp only [pure_ok] at h; subst h; exact allOut_nil

theorem gainSelfOut_events {fx : Fixes} {t : Tree} {win : Id} {child : Option Id} {evs : List Event}
    {r : Tree × List Event} (h : gainSelfOut fx t win child evs = .ok r) : ∃ x, r.2 = evs ++ x ∧ AllOut x := by
  simp only [gainSelfOut, bind_ok] at h
  obtain ⟨w, _, h⟩ := h
  split at h
  · simp only [pure_ok] at h; subst h; exact ⟨_, rfl, allOut_single _ _⟩
  · simp only [pure_ok] at h; subst h; exact ⟨[], by simp, allOut_nil⟩

theorem gainSelfIn_events {t : Tree} {win : Id} {child : Option Id} {evs : List Event}
    {r : Tree × List Event} (h : gainSelfIn t win child evs = .ok r) :
    ∃ x, r.2 = evs ++ x ∧ AllIn x ∧ (child = none → x = [⟨win, .focusIn, win⟩]) := by
  simp only [gainSelfIn, bind_ok] at h
  obtain ⟨w, _, h⟩ := h
  split at h
  · simp only [pure_ok] at h; subst h; exact ⟨_, rfl, allIn_single _ _, fun _ => rfl⟩
  · simp only [pure_ok] at h; subst h
    exact ⟨_, rfl, allIn_ite _ _ _, fun hc => by cases hc⟩

/-- `_focus_gained` delivers a block of OUT events followed by a block of IN events. -/
theorem focusGained_out_in (fx : Fixes) : ∀ (fuel : Nat) (t : Tree) (win : Id) (child : Option Id)
    (r : Tree × List Event), focusGained fx fuel t win child = .ok r →
    ∃ outs ins, r.2 = outs ++ ins ∧ AllOut outs ∧ AllIn ins ∧
      (child = none → ∃ ins', ins = ins' ++ [⟨win, .focusIn, win⟩]) := by
  intro fuel
  induction fuel with
  | zero => intro t win child r h; simp [focusGained] at h
  | succ n ih =>
    intro t win child r h
    simp only [focusGained, bind_ok] at h
    obtain ⟨r1, h1, r2, h2, r3, h3, h4⟩ := h
    have o1 := gainLoseOld_allOut h1
    obtain ⟨x2, hx2, o2⟩ := gainSelfOut_events h2
    obtain ⟨x4, hx4, i4, last4⟩ := gainSelfIn_events h4
    have h3' : ∃ outs ins, r3.2 = outs ++ ins ∧ AllOut outs ∧ AllIn ins := by
      simp only [gainClimb, bind_ok] at h3
      obtain ⟨w, _, h3⟩ := h3
      split at h3
      · split at h3
        · obtain ⟨o, i, e, ho, hi, _⟩ := ih _ _ _ _ h3
          exact ⟨o, i, e, ho, hi⟩
        · simp only [pure_ok] at h3; subst h3; exact ⟨[], [], rfl, allOut_nil, allIn_nil⟩
      · simp only [bind_ok, pure_ok] at h3
        obtain ⟨t', _, h3⟩ := h3
        subst h3; exact ⟨[], [], rfl, allOut_nil, allIn_nil⟩
    obtain ⟨o3, i3, e3, ho3, hi3⟩ := h3'
    refine ⟨r1.2 ++ x2 ++ o3, i3 ++ x4, ?_, ?_, ?_, ?_⟩
    · rw [hx4, hx2, e3]; simp [List.append_assoc]
    · exact allOut_append (allOut_append o1 o2) ho3
    · exact allIn_append hi3 i4
    · intro hc; exact ⟨i3, by rw [last4 hc]⟩


/-! ### well-formed trees -/

theorem get_ok {t : Tree} {id : Nat} {w : Win} : WinTree.get t id = .ok w ↔ t.wins[id]? = some w ∧ w.freed = false := by
  unfold WinTree.get
  cases h : t.wins[id]? with
  | none => simp
  | some w' =>
    by_cases hf : w'.freed = true
    · simp [hf]; intro h'; subst h'; simp [hf]
    · simp [hf]; intro h'; subst h'; simpa using hf

/-- A live window slot. -/
def Live (t : Tree) (id : Nat) (w : Win) : Prop := t.wins[id]? = some w ∧ w.freed = false

/-- The check of one live window: its parent exists, has a smaller id, is live and lists it as a child; its children
    are live and point back; its `focused_child` is a live, *visible* child (the `chain_visible` invariant of
    DESIGN §7 C15: `take_focus` links only visible windows, `hide` and REMOVE unlink). -/
def winOk (t : Tree) (i : Nat) (w : Win) : Bool :=
  (match w.parent with
   | some p => decide (p < i) && !w.isRoot &&
       (match t.wins[p]? with | some pw => !pw.freed && pw.children.contains i | none => false)
   | none => true) &&
  w.children.all (fun c => match t.wins[c]? with | some cw => !cw.freed && cw.parent == some i | none => false) &&
  (match w.focusedChild with
   | some c => (match t.wins[c]? with | some cw => !cw.freed && cw.parent == some i && cw.isVisible | none => false)
   | none => true)

/-- Well-formedness of the store (executable, so that the driver checks it on every observed tree and the
    non-vacuity examples are closed by `decide`). -/
def wfB (t : Tree) : Bool :=
  (match t.wins[0]? with | some r => r.isRoot && !r.freed && r.parent.isNone | none => false) &&
  (List.range t.wins.size).all (fun i => match t.wins[i]? with | some w => w.freed || winOk t i w | none => true)

theorem live_lt {t : Tree} {i : Nat} {w : Win} (hw : Live t i w) : i < t.wins.size := by
  obtain ⟨hi, _⟩ := Array.getElem?_eq_some_iff.mp hw.1
  exact hi

theorem wf_win {t : Tree} (h : wfB t = true) {i : Nat} {w : Win} (hw : Live t i w) : winOk t i w = true := by
  unfold wfB at h
  simp only [Bool.and_eq_true, List.all_eq_true, List.mem_range] at h
  have hi : i < t.wins.size := live_lt hw
  have := h.2 i hi
  rw [hw.1] at this
  simpa [hw.2] using this

theorem wf_root {t : Tree} (h : wfB t = true) : ∃ r, Live t 0 r ∧ r.isRoot = true ∧ r.parent = none := by
  unfold wfB at h
  simp only [Bool.and_eq_true] at h
  cases h0 : t.wins[0]? with
  | none => rw [h0] at h; simp at h
  | some r =>
    rw [h0] at h
    simp at h
    exact ⟨r, ⟨h0, h.1.1.2⟩, h.1.1.1, h.1.2⟩

theorem wf_parent {t : Tree} (h : wfB t = true) {i p : Nat} {w : Win} (hw : Live t i w) (hp : w.parent = some p) :
    p < i ∧ w.isRoot = false ∧ ∃ pw, Live t p pw ∧ i ∈ pw.children := by
  have := wf_win h hw
  unfold winOk at this
  simp only [hp, Bool.and_eq_true] at this
  obtain ⟨⟨⟨⟨h1, h2⟩, h3⟩, _⟩, _⟩ := this
  cases hpw : t.wins[p]? with
  | none => rw [hpw] at h3; simp at h3
  | some pw =>
    rw [hpw] at h3
    simp at h3 h1 h2
    exact ⟨h1, h2, pw, ⟨hpw, h3.1⟩, h3.2⟩

theorem wf_child {t : Tree} (h : wfB t = true) {i c : Nat} {w : Win} (hw : Live t i w) (hc : c ∈ w.children) :
    ∃ cw, Live t c cw ∧ cw.parent = some i := by
  have := wf_win h hw
  unfold winOk at this
  simp only [Bool.and_eq_true, List.all_eq_true] at this
  have := this.1.2 c hc
  cases hcw : t.wins[c]? with
  | none => rw [hcw] at this; simp at this
  | some cw =>
    rw [hcw] at this
    simp at this
    exact ⟨cw, ⟨hcw, this.1⟩, this.2⟩

theorem wf_focused {t : Tree} (h : wfB t = true) {i c : Nat} {w : Win} (hw : Live t i w) (hc : w.focusedChild = some c) :
    ∃ cw, Live t c cw ∧ cw.parent = some i ∧ cw.isVisible = true := by
  have := wf_win h hw
  unfold winOk at this
  simp only [hc, Bool.and_eq_true] at this
  have := this.2
  cases hcw : t.wins[c]? with
  | none => rw [hcw] at this; simp at this
  | some cw =>
    rw [hcw] at this
    simp at this
    exact ⟨cw, ⟨hcw, this.1.1⟩, this.1.2, this.2⟩

/-! ### the ancestor relation -/

/-- `Anc t o x`: `x` is `o` or one of its ancestors (through live windows). -/
inductive Anc (t : Tree) : Nat → Nat → Prop where
  | refl (o : Nat) : Anc t o o
  | step {o p x : Nat} {w : Win} : Live t o w → w.parent = some p → Anc t p x → Anc t o x

theorem anc_le {t : Tree} (h : wfB t = true) {o x : Nat} (ha : Anc t o x) : x ≤ o := by
  induction ha with
  | refl => exact Nat.le_refl _
  | step hw hp _ ih => have := (wf_parent h hw hp).1; omega

theorem anc_snoc {t : Tree} {o c x : Nat} {cw : Win} (ha : Anc t o c) (hc : Live t c cw) (hp : cw.parent = some x) :
    Anc t o x := by
  induction ha with
  | refl => exact .step hc hp (.refl _)
  | step hw hp' _ ih => exact .step hw hp' (ih hc)

theorem anc_linear {t : Tree} {e a x : Nat} (h1 : Anc t e a) (h2 : Anc t e x) : Anc t a x ∨ Anc t x a := by
  induction h1 with
  | refl => exact .inl h2
  | step hw hp h1' ih =>
    cases h2 with
    | refl => exact .inr (.step hw hp h1')
    | step hw' hp' h2' =>
      have : hw.1.symm.trans hw'.1 = hw.1.symm.trans hw'.1 := rfl
      have hww := hw.1.symm.trans hw'.1
      simp at hww; subst hww
      rw [hp] at hp'; cases hp'
      exact ih h2'

/-- Two windows on the ancestor path of `e` with the same parent are the same window. -/
theorem anc_same_parent {t : Tree} (h : wfB t = true) {e a x p : Nat} {aw xw : Win}
    (h1 : Anc t e a) (h2 : Anc t e x) (ha : Live t a aw) (hx : Live t x xw)
    (hpa : aw.parent = some p) (hpx : xw.parent = some p) : a = x := by
  have key : ∀ {a x : Nat} {aw xw : Win}, Anc t a x → Live t a aw → Live t x xw → aw.parent = some p →
      xw.parent = some p → a = x := by
    intro a x aw xw hax ha hx hpa hpx
    cases hax with
    | refl => rfl
    | step hw hp hrest =>
      have hww := hw.1.symm.trans ha.1
      simp at hww; subst hww
      rw [hpa] at hp; cases hp
      have h1 := anc_le h hrest
      have h2 := (wf_parent h hx hpx).1
      omega
  rcases anc_linear h1 h2 with hax | hxa
  · exact key hax ha hx hpa hpx
  · exact (key hxa hx ha hpx hpa).symm


/-! ### the painter's-model owner -/

/-- Window `x` claims the cell `(l, c)` (given in the frame of `x`'s parent): it is visible and its rectangle
    contains the cell. -/
def claimB (t : Tree) (x : Nat) (l c : Int) : Bool :=
  match t.wins[x]? with
  | some w => w.isVisible && !w.freed && w.rect.memb l c
  | none => false

theorem ownerIn_succ (t : Tree) (k x : Nat) (l c : Int) :
    ownerIn t (k + 1) x l c =
      match t.wins[x]? with
      | none => none
      | some w =>
        if claimB t x l c then
          (match w.children.findSome? (fun ch => ownerIn t k ch (l - w.rect.top) (c - w.rect.left)) with
           | some o => some o
           | none => some x)
        else none := by
  unfold claimB
  rw [ownerIn]
  cases h : t.wins[x]? with
  | none => rfl
  | some w =>
    simp only []
    by_cases hv : w.isVisible = true <;> by_cases hf : w.freed = true <;> by_cases hm : w.rect.memb l c = true <;>
      simp [hv, hf, hm]
    generalize List.findSome? (fun ch => ownerIn t k ch (l - w.rect.top) (c - w.rect.left)) w.children = r
    cases r <;> rfl

theorem findSome_congr {α β : Type} {f g : α → Option β} : ∀ (cs : List α), (∀ x ∈ cs, f x = g x) →
    cs.findSome? f = cs.findSome? g := by
  intro cs
  induction cs with
  | nil => intro _; rfl
  | cons a rest ih =>
    intro h
    simp only [List.findSome?_cons]
    rw [h a (by simp)]
    cases g a with
    | some _ => rfl
    | none => exact ih (fun x hx => h x (by simp [hx]))

/-- With enough fuel (`k + x > size`) the result of `ownerIn` does not depend on the fuel. -/
theorem ownerIn_fuel {t : Tree} (h : wfB t = true) : ∀ (k k' x : Nat) (l c : Int),
    t.wins.size < k + x → t.wins.size < k' + x → ownerIn t k x l c = ownerIn t k' x l c := by
  intro k
  induction k with
  | zero =>
    intro k' x l c h1 _
    -- x > size: the slot does not exist
    have hx : t.wins[x]? = none := by simp; omega
    cases k' with
    | zero => rfl
    | succ k' => rw [ownerIn_succ, hx]; simp [ownerIn]
  | succ k ih =>
    intro k' x l c h1 h2
    cases k' with
    | zero =>
      have hx : t.wins[x]? = none := by simp; omega
      rw [ownerIn_succ, hx]; simp [ownerIn]
    | succ k' =>
      rw [ownerIn_succ, ownerIn_succ]
      cases hw : t.wins[x]? with
      | none => rfl
      | some w =>
        simp only []
        by_cases hc : claimB t x l c = true
        · simp only [hc, if_true]
          have : w.children.findSome? (fun ch => ownerIn t k ch (l - w.rect.top) (c - w.rect.left)) =
                 w.children.findSome? (fun ch => ownerIn t k' ch (l - w.rect.top) (c - w.rect.left)) := by
            apply findSome_congr
            intro ch hch
            have hfree : w.freed = false := by
              unfold claimB at hc; rw [hw] at hc; simp at hc; exact hc.1.2
            obtain ⟨cw, hcw, hcp⟩ := wf_child h ⟨hw, hfree⟩ hch
            have := (wf_parent h hcw hcp).1
            exact ih k' ch _ _ (by omega) (by omega)
          rw [this]
        · simp [hc]

/-- The owner below window `x` of a cell given in the frame of `x`'s parent, with the fuel `owner` starts with. -/
def own (t : Tree) (x : Nat) (l c : Int) : Option Nat := ownerIn t (t.wins.size + 1) x l c

theorem owner_eq_own (t : Tree) (l c : Int) : owner t l c = own t 0 l c := rfl

theorem own_unfold {t : Tree} (h : wfB t = true) {x : Nat} {w : Win} (hw : Live t x w) (l c : Int) :
    own t x l c =
      if claimB t x l c then
        (match w.children.findSome? (fun ch => own t ch (l - w.rect.top) (c - w.rect.left)) with
         | some o => some o
         | none => some x)
      else none := by
  unfold own
  rw [ownerIn_succ, hw.1]
  simp only []
  by_cases hc : claimB t x l c = true
  · simp only [hc, if_true]
    have : w.children.findSome? (fun ch => ownerIn t t.wins.size ch (l - w.rect.top) (c - w.rect.left)) =
           w.children.findSome? (fun ch => ownerIn t (t.wins.size + 1) ch (l - w.rect.top) (c - w.rect.left)) := by
      apply findSome_congr
      intro ch hch
      obtain ⟨cw, hcw, hcp⟩ := wf_child h hw hch
      have := (wf_parent h hcw hcp).1
      exact ownerIn_fuel h _ _ ch _ _ (by omega) (by omega)
    rw [this]
    generalize List.findSome? (fun ch => ownerIn t (t.wins.size + 1) ch (l - w.rect.top) (c - w.rect.left)) w.children = r
    cases r <;> rfl
  · simp [hc]

theorem own_isSome {t : Tree} (h : wfB t = true) {x : Nat} {w : Win} (hw : Live t x w) (l c : Int) :
    (own t x l c).isSome = claimB t x l c := by
  rw [own_unfold h hw]
  by_cases hc : claimB t x l c = true
  · simp only [hc, if_true]
    cases w.children.findSome? (fun ch => own t ch (l - w.rect.top) (c - w.rect.left)) <;> rfl
  · simp [hc]

theorem findSome_mem {α β : Type} {f : α → Option β} {b : β} : ∀ (cs : List α), cs.findSome? f = some b →
    ∃ x ∈ cs, f x = some b := by
  intro cs
  induction cs with
  | nil => intro h; simp at h
  | cons a rest ih =>
    intro h
    simp only [List.findSome?_cons] at h
    cases ha : f a with
    | some v => rw [ha] at h; simp at h; subst h; exact ⟨a, by simp, ha⟩
    | none =>
      rw [ha] at h; simp at h
      obtain ⟨x, hx, hfx⟩ := ih h
      exact ⟨x, by simp [hx], hfx⟩

/-- Whatever `own t x` answers lies in the subtree of `x`. -/
theorem own_within {t : Tree} (h : wfB t = true) : ∀ (n x : Nat) (w : Win) (l c : Int) (o : Nat),
    t.wins.size ≤ n + x → Live t x w → own t x l c = some o → Anc t o x := by
  intro n
  induction n with
  | zero =>
    intro x w l c o hn hw _
    have := live_lt hw; omega
  | succ n ih =>
    intro x w l c o hn hw ho
    rw [own_unfold h hw] at ho
    by_cases hc : claimB t x l c = true
    · simp only [hc, if_true] at ho
      cases hf : w.children.findSome? (fun ch => own t ch (l - w.rect.top) (c - w.rect.left)) with
      | none => rw [hf] at ho; simp at ho; subst ho; exact .refl _
      | some o' =>
        rw [hf] at ho; simp at ho; subst ho
        obtain ⟨ch, hch, hown⟩ := findSome_mem _ hf
        obtain ⟨cw, hcw, hcp⟩ := wf_child h hw hch
        have hlt := (wf_parent h hcw hcp).1
        have := ih ch cw _ _ _ (by omega) hcw hown
        exact anc_snoc this hcw hcp
    · simp [hc] at ho


/-! ### `_cell_visible` as a Boolean function, level by level -/

/-- The bounds test of `_cell_visible`. -/
def inside (w : Win) (l c : Int) : Bool :=
  decide (0 ≤ l) && decide (l < w.rect.lines) && decide (0 ≤ c) && decide (c < w.rect.cols)

/-- The sibling scan of `_cell_visible`: does a claiming child in front of `prev` exist? -/
def covB (t : Tree) (prev : Option Nat) (l c : Int) : List Nat → Bool
  | [] => false
  | ch :: rest => if prev = some ch then false else (claimB t ch l c || covB t prev l c rest)

/-- `_cell_visible` without the error monad. -/
def upB (t : Tree) : Nat → Nat → Option Nat → Int → Int → Bool
  | 0, _, _, _, _ => false
  | f + 1, win, prev, l, c =>
    match t.wins[win]? with
    | none => false
    | some w =>
      inside w l c && !covB t prev l c w.children &&
      (match w.parent with
       | none => true
       | some p => upB t f p (some win) (l + w.rect.top) (c + w.rect.left))

theorem rectCovers_eq_memb (r : Rect) (l c : Int) : rectCovers r l c = r.memb l c := by
  unfold rectCovers Rect.memb Rect.bottom Rect.right
  by_cases h1 : r.top ≤ l <;> by_cases h2 : l < r.top + r.lines <;> by_cases h3 : r.left ≤ c <;>
    by_cases h4 : c < r.left + r.cols <;> simp [h1, h2, h3, h4] <;> omega

theorem coveredBy_ok {t : Tree} (prev : Option Nat) (l c : Int) : ∀ (cs : List Nat),
    (∀ ch ∈ cs, ∃ cw, Live t ch cw) → coveredBy t prev l c cs = .ok (covB t prev l c cs) := by
  intro cs
  induction cs with
  | nil => intro _; rfl
  | cons ch rest ih =>
    intro hl
    unfold coveredBy covB
    by_cases hp : prev = some ch
    · simp [hp]; rfl
    · simp only [hp, if_false]
      obtain ⟨cw, hcw⟩ := hl ch (by simp)
      have hg : WinTree.get t ch = .ok cw := get_ok.mpr hcw
      simp only [bind_ok]
      have hclaim : claimB t ch l c = (cw.isVisible && rectCovers cw.rect l c) := by
        unfold claimB; rw [hcw.1]; simp [hcw.2, rectCovers_eq_memb]
      by_cases hcl : (cw.isVisible && rectCovers cw.rect l c) = true
      · refine ⟨cw, hg, ?_⟩
        simp only [hcl, if_true]
        rw [hclaim, hcl]; rfl
      · refine ⟨cw, hg, ?_⟩
        simp only [hcl]
        rw [hclaim]
        have : (cw.isVisible && rectCovers cw.rect l c) = false := by simpa using hcl
        rw [this]
        simpa using ih (fun x hx => hl x (by simp [hx]))

theorem cellVisible_ok {t : Tree} (h : wfB t = true) : ∀ (fuel win : Nat) (w : Win) (prev : Option Nat) (l c : Int),
    win < fuel → Live t win w → cellVisible fuel t win prev l c = .ok (upB t fuel win prev l c) := by
  intro fuel
  induction fuel with
  | zero => intro win w prev l c hf _; omega
  | succ f ih =>
    intro win w prev l c hf hw
    unfold cellVisible upB
    rw [hw.1]
    simp only [bind_ok]
    refine ⟨w, get_ok.mpr hw, ?_⟩
    by_cases hin : inside w l c = true
    · have hnot : ¬ (l < 0 ∨ l ≥ w.rect.lines ∨ c < 0 ∨ c ≥ w.rect.cols) := by
        unfold inside at hin; simp at hin; omega
      simp only [hnot, if_false, bind_ok]
      refine ⟨_, coveredBy_ok prev l c w.children (fun ch hch => ?_), ?_⟩
      · obtain ⟨cw, hcw, _⟩ := wf_child h hw hch; exact ⟨cw, hcw⟩
      · by_cases hcov : covB t prev l c w.children = true
        · simp [hcov, hin]; rfl
        · have hcov' : covB t prev l c w.children = false := by simpa using hcov
          simp only [hcov', hin]
          cases hp : w.parent with
          | none => simp; rfl
          | some p =>
            obtain ⟨hlt, _, pw, hpw, _⟩ := wf_parent h hw hp
            simp
            exact ih p pw (some win) _ _ (by omega) hpw
    · have hyes : (l < 0 ∨ l ≥ w.rect.lines ∨ c < 0 ∨ c ≥ w.rect.cols) := by
        unfold inside at hin; simp at hin; omega
      have hin' : inside w l c = false := by simpa using hin
      simp [hyes, hin']; rfl


/-! ### one level: the sibling scan against `findSome?` -/

theorem cov_none_false {t : Tree} (h : wfB t = true) (l c : Int) : ∀ (cs : List Nat),
    (∀ ch ∈ cs, ∃ cw, Live t ch cw) → covB t none l c cs = false →
    cs.findSome? (fun ch => own t ch l c) = none := by
  intro cs
  induction cs with
  | nil => intro _ _; rfl
  | cons ch rest ih =>
    intro hl hc
    unfold covB at hc
    simp at hc
    obtain ⟨cw, hcw⟩ := hl ch (by simp)
    have h1 : own t ch l c = none := by
      have := own_isSome h hcw l c
      rw [hc.1] at this
      cases ho : own t ch l c with
      | none => rfl
      | some _ => rw [ho] at this; simp at this
    simp only [List.findSome?_cons, h1]
    exact ih (fun x hx => hl x (by simp [hx])) hc.2

theorem cov_true {t : Tree} (h : wfB t = true) (prev : Option Nat) (l c : Int) : ∀ (cs : List Nat),
    (∀ ch ∈ cs, ∃ cw, Live t ch cw) → covB t prev l c cs = true →
    ∃ x ∈ cs, prev ≠ some x ∧ ∃ o, cs.findSome? (fun ch => own t ch l c) = some o ∧ own t x l c = some o := by
  intro cs
  induction cs with
  | nil => intro _ hc; simp [covB] at hc
  | cons ch rest ih =>
    intro hl hc
    unfold covB at hc
    by_cases hp : prev = some ch
    · simp [hp] at hc
    · simp only [hp, if_false, Bool.or_eq_true] at hc
      obtain ⟨cw, hcw⟩ := hl ch (by simp)
      by_cases hcl : claimB t ch l c = true
      · have := own_isSome h hcw l c
        rw [hcl] at this
        cases ho : own t ch l c with
        | none => rw [ho] at this; simp at this
        | some o =>
          exact ⟨ch, by simp, hp, o, by simp [List.findSome?_cons, ho], ho⟩
      · have hcl' : claimB t ch l c = false := by simpa using hcl
        have h1 : own t ch l c = none := by
          have := own_isSome h hcw l c
          rw [hcl'] at this
          cases ho : own t ch l c with
          | none => rfl
          | some _ => rw [ho] at this; simp at this
        rcases hc with hc | hc
        · rw [hcl'] at hc; cases hc
        · obtain ⟨x, hx, hpx, o, hfo, hxo⟩ := ih (fun x hx => hl x (by simp [hx])) hc
          exact ⟨x, by simp [hx], hpx, o, by simp [List.findSome?_cons, h1, hfo], hxo⟩

theorem cov_some_false {t : Tree} (h : wfB t = true) (q e : Nat) (l c : Int) : ∀ (cs : List Nat),
    (∀ ch ∈ cs, ∃ cw, Live t ch cw) → q ∈ cs → own t q l c = some e → covB t (some q) l c cs = false →
    cs.findSome? (fun ch => own t ch l c) = some e := by
  intro cs
  induction cs with
  | nil => intro _ hq; simp at hq
  | cons ch rest ih =>
    intro hl hq hoq hc
    by_cases hp : q = ch
    · subst hp; simp [List.findSome?_cons, hoq]
    · unfold covB at hc
      have hp' : ¬ (some q = some ch) := by simpa using hp
      simp only [hp', if_false, Bool.or_eq_false_iff] at hc
      obtain ⟨cw, hcw⟩ := hl ch (by simp)
      have h1 : own t ch l c = none := by
        have := own_isSome h hcw l c
        rw [hc.1] at this
        cases ho : own t ch l c with
        | none => rfl
        | some _ => rw [ho] at this; simp at this
      simp only [List.findSome?_cons, h1]
      have hq' : q ∈ rest := by
        rcases List.mem_cons.mp hq with hq | hq
        · exact absurd hq hp
        · exact hq
      exact ih (fun x hx => hl x (by simp [hx])) hq' hoq hc.2

theorem claim_inside {t : Tree} {win : Nat} {w : Win} (hw : Live t win w) (hv : w.isVisible = true) (l c : Int) :
    claimB t win (l + w.rect.top) (c + w.rect.left) = inside w l c := by
  unfold claimB inside Rect.memb Rect.bottom Rect.right
  rw [hw.1]
  simp only [hv, hw.2, Bool.not_false, Bool.true_and]
  by_cases h1 : 0 ≤ l <;> by_cases h2 : l < w.rect.lines <;> by_cases h3 : 0 ≤ c <;> by_cases h4 : c < w.rect.cols <;>
    simp [h1, h2, h3, h4] <;> omega

/-- One level, the window itself being the candidate: it owns the cell iff the cell is inside and no child claims it. -/
theorem level_none {t : Tree} (h : wfB t = true) {win : Nat} {w : Win} (hw : Live t win w) (hv : w.isVisible = true)
    (l c : Int) :
    own t win (l + w.rect.top) (c + w.rect.left) = some win ↔ (inside w l c && !covB t none l c w.children) = true := by
  have hlive : ∀ ch ∈ w.children, ∃ cw, Live t ch cw := fun ch hch => by
    obtain ⟨cw, hcw, _⟩ := wf_child h hw hch; exact ⟨cw, hcw⟩
  rw [own_unfold h hw, claim_inside hw hv]
  by_cases hin : inside w l c = true
  · simp only [hin, if_true, Bool.true_and]
    have e1 : l + w.rect.top - w.rect.top = l := by omega
    have e2 : c + w.rect.left - w.rect.left = c := by omega
    rw [e1, e2]
    by_cases hcov : covB t none l c w.children = true
    · obtain ⟨x, hx, _, o, hfo, hxo⟩ := cov_true h none l c w.children hlive hcov
      rw [hfo]
      simp only [hcov]
      obtain ⟨xw, hxw, hxp⟩ := wf_child h hw hx
      have h1 := anc_le h (own_within h t.wins.size x xw _ _ o (by omega) hxw hxo)
      have h2 := (wf_parent h hxw hxp).1
      constructor
      · intro heq; simp at heq; omega
      · intro hf; simp at hf
    · have hcov' : covB t none l c w.children = false := by simpa using hcov
      rw [cov_none_false h l c w.children hlive hcov', hcov']
      simp
  · have hin' : inside w l c = false := by simpa using hin
    simp [hin']

/-- One level, a child `q` being on the path and resolving to `e`. -/
theorem level_some {t : Tree} (h : wfB t = true) {win q e : Nat} {w : Win} (hw : Live t win w) (hv : w.isVisible = true)
    (l c : Int) (hq : q ∈ w.children) (hoq : own t q l c = some e) :
    own t win (l + w.rect.top) (c + w.rect.left) = some e ↔ (inside w l c && !covB t (some q) l c w.children) = true := by
  have hlive : ∀ ch ∈ w.children, ∃ cw, Live t ch cw := fun ch hch => by
    obtain ⟨cw, hcw, _⟩ := wf_child h hw hch; exact ⟨cw, hcw⟩
  obtain ⟨qw, hqw, hqp⟩ := wf_child h hw hq
  have haq : Anc t e q := own_within h t.wins.size q qw _ _ e (by omega) hqw hoq
  rw [own_unfold h hw, claim_inside hw hv]
  by_cases hin : inside w l c = true
  · simp only [hin, if_true, Bool.true_and]
    have e1 : l + w.rect.top - w.rect.top = l := by omega
    have e2 : c + w.rect.left - w.rect.left = c := by omega
    rw [e1, e2]
    by_cases hcov : covB t (some q) l c w.children = true
    · obtain ⟨x, hx, hne, o, hfo, hxo⟩ := cov_true h (some q) l c w.children hlive hcov
      rw [hfo]
      simp only [hcov]
      obtain ⟨xw, hxw, hxp⟩ := wf_child h hw hx
      have hax : Anc t o x := own_within h t.wins.size x xw _ _ o (by omega) hxw hxo
      constructor
      · intro heq
        simp at heq; subst heq
        have := anc_same_parent h haq hax hqw hxw hqp hxp
        subst this; simp at hne
      · intro hf; simp at hf
    · have hcov' : covB t (some q) l c w.children = false := by simpa using hcov
      rw [cov_some_false h q e l c w.children hlive hq hoq hcov', hcov']
      simp
  · have hin' : inside w l c = false := by simpa using hin
    simp [hin']

/-- Going down one level: if window `p` resolves a cell to `e` and `a` is the child of `p` on the path to `e`,
    then `a` resolves it to `e` too. -/
theorem own_step_down {t : Tree} (h : wfB t = true) {p a e : Nat} {pw aw : Win} (hp : Live t p pw) (ha : Live t a aw)
    (hap : aw.parent = some p) (hea : Anc t e a) (l c : Int)
    (ho : own t p (l + pw.rect.top) (c + pw.rect.left) = some e) : own t a l c = some e := by
  rw [own_unfold h hp] at ho
  by_cases hc : claimB t p (l + pw.rect.top) (c + pw.rect.left) = true
  · simp only [hc, if_true] at ho
    have e1 : l + pw.rect.top - pw.rect.top = l := by omega
    have e2 : c + pw.rect.left - pw.rect.left = c := by omega
    rw [e1, e2] at ho
    cases hf : pw.children.findSome? (fun ch => own t ch l c) with
    | none =>
      rw [hf] at ho; simp at ho
      have h1 := anc_le h hea
      have h2 := (wf_parent h ha hap).1
      omega
    | some o =>
      rw [hf] at ho; simp at ho; subst ho
      obtain ⟨x, hx, hxo⟩ := findSome_mem _ hf
      obtain ⟨xw, hxw, hxp⟩ := wf_child h hp hx
      have hax : Anc t o x := own_within h t.wins.size x xw _ _ o (by omega) hxw hxo
      have := anc_same_parent h hea hax ha hxw hap hxp
      subst this; exact hxo
  · simp [hc] at ho


/-! ### the whole walk: `_cell_visible` against the painter's-model owner -/

/-- Every window from `win` up to the top of its parent chain is visible. -/
def AncVis (t : Tree) (win : Nat) : Prop := ∀ x xw, Anc t win x → Live t x xw → xw.isVisible = true

theorem live_unique {t : Tree} {i : Nat} {w w' : Win} (h1 : Live t i w) (h2 : Live t i w') : w = w' := by
  have := h1.1.symm.trans h2.1; simpa using this

theorem anc_parent_none {t : Tree} {p : Nat} {pw : Win} (hp : Live t p pw) (hpar : pw.parent = none)
    (ha : Anc t p 0) : p = 0 := by
  cases ha with
  | refl => rfl
  | step hw hpar' _ => rw [live_unique hw hp] at hpar'; rw [hpar] at hpar'; cases hpar'

theorem anc_parent_some {t : Tree} (h : wfB t = true) {p pp : Nat} {pw : Win} (hp : Live t p pw)
    (hpar : pw.parent = some pp) (ha : Anc t p 0) : Anc t pp 0 := by
  cases ha with
  | refl =>
    obtain ⟨r, hr, _, hrp⟩ := wf_root h
    rw [live_unique hp hr] at hpar; rw [hrp] at hpar; cases hpar
  | step hw hpar' hrest =>
    rw [live_unique hw hp] at hpar'; rw [hpar] at hpar'; cases hpar'; exact hrest

theorem ancVis_parent {t : Tree} {p pp : Nat} {pw : Win} (hp : Live t p pw) (hpar : pw.parent = some pp)
    (hv : AncVis t p) : AncVis t pp :=
  fun x xw hax hx => hv x xw (.step hp hpar hax) hx

theorem absCell_parent {t : Tree} {win p : Nat} {w : Win} (hw : Live t win w) (hp : w.parent = some p)
    (f : Nat) (l c : Int) : absCell t (f + 1) win l c = absCell t f p (l + w.rect.top) (c + w.rect.left) := by
  rw [absCell]; rw [hw.1]; simp only [hp]

theorem absCell_top {t : Tree} {win : Nat} {w : Win} (hw : Live t win w) (hp : w.parent = none)
    (f : Nat) (l c : Int) : absCell t (f + 1) win l c = (l + w.rect.top, c + w.rect.left) := by
  rw [absCell]; rw [hw.1]; simp only [hp]

theorem upB_parent {t : Tree} {win p : Nat} {w : Win} (hw : Live t win w) (hp : w.parent = some p)
    (f : Nat) (prev : Option Nat) (l c : Int) :
    upB t (f + 1) win prev l c =
      (inside w l c && !covB t prev l c w.children && upB t f p (some win) (l + w.rect.top) (c + w.rect.left)) := by
  rw [upB]; rw [hw.1]; simp only [hp]

theorem upB_top {t : Tree} {win : Nat} {w : Win} (hw : Live t win w) (hp : w.parent = none)
    (f : Nat) (prev : Option Nat) (l c : Int) :
    upB t (f + 1) win prev l c = (inside w l c && !covB t prev l c w.children) := by
  rw [upB]; rw [hw.1]; simp only [hp, Bool.and_true]

theorem own_down {t : Tree} (h : wfB t = true) : ∀ (fuel p a e : Nat) (pw aw : Win) (l c : Int),
    p < fuel → Live t p pw → Live t a aw → aw.parent = some p → Anc t e a → Anc t p 0 →
    own t 0 (absCell t fuel p l c).1 (absCell t fuel p l c).2 = some e → own t a l c = some e := by
  intro fuel
  induction fuel with
  | zero => intro p a e pw aw l c hf; omega
  | succ f ih =>
    intro p a e pw aw l c hf hp ha hap hea hp0 ho
    cases hpar : pw.parent with
    | none =>
      rw [absCell_top hp hpar] at ho
      have := anc_parent_none hp hpar hp0
      subst this
      exact own_step_down h hp ha hap hea l c ho
    | some pp =>
      rw [absCell_parent hp hpar] at ho
      obtain ⟨hlt, _, ppw, hppw, _⟩ := wf_parent h hp hpar
      have := ih pp p e ppw pw _ _ (by omega) hppw hp hpar (anc_snoc hea ha hap) (anc_parent_some h hp hpar hp0) ho
      exact own_step_down h hp ha hap hea l c this

/-- `_cell_visible` says yes ⇒ the painter's-model owner of the absolute cell is `e`. -/
theorem up_to_own {t : Tree} (h : wfB t = true) : ∀ (fuel win e : Nat) (w : Win) (prev : Option Nat) (l c : Int),
    win < fuel → Live t win w → Anc t win 0 → AncVis t win →
    (prev = none → e = win) → (∀ q, prev = some q → q ∈ w.children ∧ own t q l c = some e) →
    upB t fuel win prev l c = true →
    own t 0 (absCell t fuel win l c).1 (absCell t fuel win l c).2 = some e := by
  intro fuel
  induction fuel with
  | zero => intro win e w prev l c hf; omega
  | succ f ih =>
    intro win e w prev l c hf hw h0 hvis hpn hps hup
    have hv : w.isVisible = true := hvis win w (.refl _) hw
    have hown_of : (inside w l c && !covB t prev l c w.children) = true →
        own t win (l + w.rect.top) (c + w.rect.left) = some e := by
      intro hlev
      cases prev with
      | none => rw [hpn rfl]; exact (level_none h hw hv l c).mpr hlev
      | some q => obtain ⟨hq, hoq⟩ := hps q rfl; exact (level_some h hw hv l c hq hoq).mpr hlev
    cases hp : w.parent with
    | none =>
      rw [upB_top hw hp] at hup
      rw [absCell_top hw hp]
      have := anc_parent_none hw hp h0
      subst this; exact hown_of hup
    | some p =>
      rw [upB_parent hw hp, Bool.and_eq_true] at hup
      rw [absCell_parent hw hp]
      obtain ⟨hlt, _, pw, hpw, hmem⟩ := wf_parent h hw hp
      have hown := hown_of hup.1
      exact ih p e pw (some win) _ _ (by omega) hpw (anc_parent_some h hw hp h0) (ancVis_parent hw hp hvis)
        (fun hc => by cases hc) (fun q hq => by cases hq; exact ⟨hmem, hown⟩) hup.2

/-- The painter's-model owner of the absolute cell is `e` ⇒ `_cell_visible` says yes. -/
theorem own_to_up {t : Tree} (h : wfB t = true) : ∀ (fuel win e : Nat) (w : Win) (prev : Option Nat) (l c : Int),
    win < fuel → Live t win w → Anc t win 0 → AncVis t win → Anc t e win →
    (prev = none → e = win) → (∀ q, prev = some q → q ∈ w.children ∧ own t q l c = some e) →
    own t 0 (absCell t fuel win l c).1 (absCell t fuel win l c).2 = some e →
    upB t fuel win prev l c = true := by
  intro fuel
  induction fuel with
  | zero => intro win e w prev l c hf; omega
  | succ f ih =>
    intro win e w prev l c hf hw h0 hvis hea hpn hps ho
    have hv : w.isVisible = true := hvis win w (.refl _) hw
    have hlev_of : own t win (l + w.rect.top) (c + w.rect.left) = some e →
        (inside w l c && !covB t prev l c w.children) = true := by
      intro hown
      cases prev with
      | none => rw [hpn rfl] at hown; exact (level_none h hw hv l c).mp hown
      | some q => obtain ⟨hq, hoq⟩ := hps q rfl; exact (level_some h hw hv l c hq hoq).mp hown
    cases hp : w.parent with
    | none =>
      rw [absCell_top hw hp] at ho
      rw [upB_top hw hp]
      have := anc_parent_none hw hp h0
      subst this
      exact hlev_of ho
    | some p =>
      rw [absCell_parent hw hp] at ho
      rw [upB_parent hw hp, Bool.and_eq_true]
      obtain ⟨hlt, _, pw, hpw, hmem⟩ := wf_parent h hw hp
      have hp0 := anc_parent_some h hw hp h0
      have hown : own t win (l + w.rect.top) (c + w.rect.left) = some e :=
        own_down h f p win e pw w _ _ (by omega) hpw hw hp hea hp0 ho
      exact ⟨hlev_of hown, ih p e pw (some win) _ _ (by omega) hpw hp0 (ancVis_parent hw hp hvis) (anc_snoc hea hw hp)
        (fun hc => by cases hc) (fun q hq => by cases hq; exact ⟨hmem, hown⟩) ho⟩

/-- `_cell_visible(win, l, c)` is exact: for a window whose whole parent chain is visible and ends at the root, it
    answers yes precisely when the painter's-model composition gives the absolute cell to that window. -/
theorem cellVisible_iff_owner {t : Tree} (h : wfB t = true) {win : Nat} {w : Win} (hw : Live t win w)
    (h0 : Anc t win 0) (hvis : AncVis t win) (l c : Int) :
    cellVisible (treeFuel t) t win none l c =
      .ok (decide (owner t (absCell t (treeFuel t) win l c).1 (absCell t (treeFuel t) win l c).2 = some win)) := by
  have hf : win < treeFuel t := by have := live_lt hw; unfold treeFuel; omega
  rw [cellVisible_ok h _ _ w none l c hf hw, owner_eq_own]
  congr 1
  by_cases hu : upB t (treeFuel t) win none l c = true
  · have := up_to_own h _ win win w none l c hf hw h0 hvis (fun _ => rfl) (fun q hq => by cases hq) hu
    simp [hu, this]
  · have hu' : upB t (treeFuel t) win none l c = false := by simpa using hu
    rw [hu']
    by_cases ho : own t 0 (absCell t (treeFuel t) win l c).1 (absCell t (treeFuel t) win l c).2 = some win
    · have := own_to_up h _ win win w none l c hf hw h0 hvis (.refl _) (fun _ => rfl) (fun q hq => by cases hq) ho
      rw [this] at hu'; cases hu'
    · simp [ho]


/-! ### the walk of `_do_restore` against the end of the focus chain -/

theorem ancVis_child {t : Tree} {win c : Nat} {cw : Win} (hc : Live t c cw) (hcp : cw.parent = some win)
    (hcv : cw.isVisible = true) (hv : AncVis t win) : AncVis t c := by
  intro x xw hax hx
  cases hax with
  | refl => rw [live_unique hx hc]; exact hcv
  | step hw hp hrest =>
    rw [live_unique hw hc] at hp; rw [hcp] at hp; cases hp
    exact hv x xw hrest hx

theorem chainWalk_spec {t : Tree} (h : wfB t = true) : ∀ (fuel win : Nat) (w : Win),
    t.wins.size < fuel + win → Live t win w → Anc t win 0 → AncVis t win →
    ∃ e ew, chainWalk fuel t win = .ok e ∧ chainEnd t fuel win = e ∧ Live t e ew ∧ Anc t e 0 ∧ AncVis t e := by
  intro fuel
  induction fuel with
  | zero => intro win w hf hw; have := live_lt hw; omega
  | succ f ih =>
    intro win w hf hw h0 hv
    have hvis : w.isVisible = true := hv win w (.refl _) hw
    rw [chainWalk]
    simp only [bind_ok]
    cases hfc : w.focusedChild with
    | none =>
      refine ⟨win, w, ⟨w, get_ok.mpr hw, ?_⟩, ?_, hw, h0, hv⟩
      · simp [hvis, hfc]; rfl
      · rw [chainEnd]; rw [hw.1]; simp only [hfc]
    | some c =>
      obtain ⟨cw, hcw, hcp, hcv⟩ := wf_focused h hw hfc
      have hlt := (wf_parent h hcw hcp).1
      obtain ⟨e, ew, h1, h2, h3, h4, h5⟩ := ih c cw (by omega) hcw (.step hcw hcp h0) (ancVis_child hcw hcp hcv hv)
      refine ⟨e, ew, ⟨w, get_ok.mpr hw, ?_⟩, ?_, h3, h4, h5⟩
      · simp [hvis, hfc]; exact h1
      · rw [chainEnd]; rw [hw.1]; simp only [hfc]; exact h2

theorem chainEnd_some {t : Tree} {win c : Nat} {w : Win} (hw : Live t win w) (hc : w.focusedChild = some c)
    (f : Nat) : chainEnd t (f + 1) win = chainEnd t f c := by
  rw [chainEnd]; rw [hw.1]; simp only [hc]

theorem chainEnd_none {t : Tree} {win : Nat} {w : Win} (hw : Live t win w) (hc : w.focusedChild = none)
    (f : Nat) : chainEnd t (f + 1) win = win := by
  rw [chainEnd]; rw [hw.1]; simp only [hc]

theorem allVisible_parent {t : Tree} {win p : Nat} {w : Win} (hw : Live t win w) (hp : w.parent = some p)
    (f : Nat) : allVisible t (f + 1) win = (w.isVisible && allVisible t f p) := by
  rw [allVisible]; rw [hw.1]; simp only [hp, hw.2]; simp

theorem allVisible_top {t : Tree} {win : Nat} {w : Win} (hw : Live t win w) (hp : w.parent = none)
    (f : Nat) : allVisible t (f + 1) win = (w.isVisible && w.isRoot) := by
  rw [allVisible]; rw [hw.1]; simp only [hp, hw.2]; simp

theorem insideAll_parent {t : Tree} {win p : Nat} {w : Win} (hw : Live t win w) (hp : w.parent = some p)
    (f : Nat) (l c : Int) :
    insideAll t (f + 1) win l c = (inside w l c && insideAll t f p (l + w.rect.top) (c + w.rect.left)) := by
  rw [insideAll]; rw [hw.1]; simp only [hp]; rfl

theorem insideAll_top {t : Tree} {win : Nat} {w : Win} (hw : Live t win w) (hp : w.parent = none)
    (f : Nat) (l c : Int) : insideAll t (f + 1) win l c = inside w l c := by
  rw [insideAll]; rw [hw.1]; simp only [hp, Bool.and_true]; rfl

/-- The end of the focus chain is a live window below the root (no visibility assumed). -/
theorem chainEnd_live {t : Tree} (h : wfB t = true) : ∀ (fuel win : Nat) (w : Win),
    t.wins.size < fuel + win → Live t win w → Anc t win 0 →
    ∃ ew, Live t (chainEnd t fuel win) ew ∧ Anc t (chainEnd t fuel win) 0 := by
  intro fuel
  induction fuel with
  | zero => intro win w hf hw; have := live_lt hw; omega
  | succ f ih =>
    intro win w hf hw h0
    cases hfc : w.focusedChild with
    | none => rw [chainEnd_none hw hfc]; exact ⟨w, hw, h0⟩
    | some c =>
      rw [chainEnd_some hw hfc]
      obtain ⟨cw, hcw, hcp, _⟩ := wf_focused h hw hfc
      have hlt := (wf_parent h hcw hcp).1
      exact ih c cw (by omega) hcw (.step hcw hcp h0)

theorem allVisible_iff {t : Tree} (h : wfB t = true) : ∀ (fuel win : Nat) (w : Win),
    win < fuel → Live t win w → Anc t win 0 → (allVisible t fuel win = true ↔ AncVis t win) := by
  intro fuel
  induction fuel with
  | zero => intro win w hf; omega
  | succ f ih =>
    intro win w hf hw h0
    cases hp : w.parent with
    | none =>
      rw [allVisible_top hw hp]
      have := anc_parent_none hw hp h0
      subst this
      obtain ⟨r, hr, hroot, _⟩ := wf_root h
      have hwr := live_unique hw hr
      subst hwr
      simp only [hroot, Bool.and_true]
      constructor
      · intro hv x xw hax hx
        cases hax with
        | refl => rw [live_unique hx hr]; exact hv
        | step hw' hp' _ => rw [live_unique hw' hw] at hp'; rw [hp] at hp'; cases hp'
      · intro hv; exact hv 0 w (.refl _) hr
    | some p =>
      rw [allVisible_parent hw hp, Bool.and_eq_true]
      obtain ⟨hlt, _, pw, hpw, _⟩ := wf_parent h hw hp
      have hiff := ih p pw (by omega) hpw (anc_parent_some h hw hp h0)
      constructor
      · intro ⟨hv, hvp⟩ x xw hax hx
        cases hax with
        | refl => rw [live_unique hx hw]; exact hv
        | step hw' hp' hrest =>
          rw [live_unique hw' hw] at hp'; rw [hp] at hp'; cases hp'
          exact hiff.mp hvp x xw hrest hx
      · intro hv
        exact ⟨hv win w (.refl _) hw, hiff.mpr (ancVis_parent hw hp hv)⟩

theorem upB_insideAll {t : Tree} (h : wfB t = true) : ∀ (fuel win : Nat) (w : Win) (prev : Option Nat) (l c : Int),
    win < fuel → Live t win w → upB t fuel win prev l c = true → insideAll t fuel win l c = true := by
  intro fuel
  induction fuel with
  | zero => intro win w prev l c hf; omega
  | succ f ih =>
    intro win w prev l c hf hw hup
    cases hp : w.parent with
    | none =>
      rw [upB_top hw hp, Bool.and_eq_true] at hup
      rw [insideAll_top hw hp]; exact hup.1
    | some p =>
      rw [upB_parent hw hp, Bool.and_eq_true, Bool.and_eq_true] at hup
      obtain ⟨hlt, _, pw, hpw, _⟩ := wf_parent h hw hp
      rw [insideAll_parent hw hp, Bool.and_eq_true]
      exact ⟨hup.1.1, ih p pw (some win) _ _ (by omega) hpw hup.2⟩

theorem absUp_none (t : Tree) (f : Nat) (g : Rect) : absGeometry.up t (f + 1) none g = .ok g := rfl

theorem absUp_some (t : Tree) (f p : Nat) (g : Rect) :
    absGeometry.up t (f + 1) (some p) g =
      (WinTree.get t p >>= fun pw => absGeometry.up t f pw.parent (g.translate pw.rect.top pw.rect.left)) := rfl

/-- `tickit_window_get_abs_geometry` agrees with the specification's translation of a cell. -/
theorem absUp_spec {t : Tree} (h : wfB t = true) : ∀ (f p : Nat) (pw : Win) (g : Rect) (l c : Int),
    p < f → Live t p pw →
    ∃ g', absGeometry.up t (f + 1) (some p) g = .ok g' ∧
      absCell t f p (l + g.top) (c + g.left) = (l + g'.top, c + g'.left) := by
  intro f
  induction f with
  | zero => intro p pw g l c hf; omega
  | succ f ih =>
    intro p pw g l c hf hp
    rw [absUp_some]
    simp only [bind_ok]
    cases hpar : pw.parent with
    | none =>
      refine ⟨g.translate pw.rect.top pw.rect.left, ⟨pw, get_ok.mpr hp, ?_⟩, ?_⟩
      · rw [hpar]; exact absUp_none _ _ _
      · rw [absCell_top hp hpar]; simp only [Rect.translate]; congr 1 <;> omega
    | some pp =>
      obtain ⟨hlt, _, ppw, hppw, _⟩ := wf_parent h hp hpar
      obtain ⟨g', hg', hcell⟩ := ih pp ppw (g.translate pw.rect.top pw.rect.left) l c (by omega) hppw
      refine ⟨g', ⟨pw, get_ok.mpr hp, ?_⟩, ?_⟩
      · rw [hpar]; exact hg'
      · rw [absCell_parent hp hpar]
        have e1 : l + g.top + pw.rect.top = l + (g.translate pw.rect.top pw.rect.left).top := by
          simp only [Rect.translate]; omega
        have e2 : c + g.left + pw.rect.left = c + (g.translate pw.rect.top pw.rect.left).left := by
          simp only [Rect.translate]; omega
        rw [e1, e2]; exact hcell

theorem absGeometry_spec {t : Tree} (h : wfB t = true) {win : Nat} {w : Win} (hw : Live t win w) (l c : Int) :
    ∃ g, absGeometry t (treeFuel t) win = .ok g ∧
      absCell t (treeFuel t) win l c = (l + g.top, c + g.left) := by
  have hsz := live_lt hw
  unfold absGeometry treeFuel
  simp only [bind_ok]
  cases hp : w.parent with
  | none =>
    refine ⟨w.rect, ⟨w, get_ok.mpr hw, ?_⟩, ?_⟩
    · rw [hp]; exact absUp_none _ _ _
    · exact absCell_top hw hp _ l c
  | some p =>
    obtain ⟨hlt, _, pw, hpw, _⟩ := wf_parent h hw hp
    obtain ⟨g', hg', hcell⟩ := absUp_spec h t.wins.size p pw w.rect l c (by omega) hpw
    refine ⟨g', ⟨w, get_ok.mpr hw, ?_⟩, ?_⟩
    · rw [hp]; exact hg'
    · rw [absCell_parent hw hp]; exact hcell


/-! ### `_do_restore` against `cursorSpec` -/

/-- The root window is visible. -/
def rootVisible (t : Tree) : Bool :=
  match t.wins[0]? with
  | some r => r.isVisible
  | none => false

theorem matches_hidden (c0 : TermCursor) : (c0.applyAll [.vis 0]).matches none = true := by
  simp [TermCursor.applyAll, TermCursor.apply, TermCursor.matches]

theorem matches_shown (c0 : TermCursor) (l c s : Int) (bl : List TermCall)
    (hbl : bl = [] ∨ ∃ b, bl = [.blink b]) :
    (c0.applyAll ([.goto l c, .shape s] ++ bl ++ [.vis 1])).matches (some (l, c, s)) = true := by
  rcases hbl with hbl | ⟨b, hbl⟩ <;> subst hbl <;>
    simp [TermCursor.applyAll, TermCursor.apply, TermCursor.matches]

theorem cursorSpec_none_of {t : Tree} {e : Nat} {ew : Win} (he : chainEnd t (treeFuel t) 0 = e) (hw : Live t e ew)
    (hcond : (ew.isFocused && allVisible t (treeFuel t) e && ew.cursor.visible &&
       insideAll t (treeFuel t) e ew.cursor.line ew.cursor.col &&
       (owner t (absCell t (treeFuel t) e ew.cursor.line ew.cursor.col).1
                (absCell t (treeFuel t) e ew.cursor.line ew.cursor.col).2 == some e)) = false) :
    cursorSpec t = none := by
  unfold cursorSpec
  rw [he, hw.1]
  simp only [hcond]
  rfl

theorem cursorSpec_some_of {t : Tree} {e : Nat} {ew : Win} (he : chainEnd t (treeFuel t) 0 = e) (hw : Live t e ew)
    (hcond : (ew.isFocused && allVisible t (treeFuel t) e && ew.cursor.visible &&
       insideAll t (treeFuel t) e ew.cursor.line ew.cursor.col &&
       (owner t (absCell t (treeFuel t) e ew.cursor.line ew.cursor.col).1
                (absCell t (treeFuel t) e ew.cursor.line ew.cursor.col).2 == some e)) = true) :
    cursorSpec t = some ((absCell t (treeFuel t) e ew.cursor.line ew.cursor.col).1,
                         (absCell t (treeFuel t) e ew.cursor.line ew.cursor.col).2, ew.cursor.shape) := by
  unfold cursorSpec
  rw [he, hw.1]
  simp only [hcond]
  rfl

/-- What `_do_restore` tells the terminal is what the property demands, provided the repair `hiddenRoot` is in or
    the root window is visible. -/
theorem doRestore_spec {t : Tree} (h : wfB t = true) (fx : Fixes)
    (hroot : fx.hiddenRoot = true ∨ rootVisible t = true) {calls : List TermCall}
    (hd : doRestore fx t = .ok calls) (c0 : TermCursor) :
    (c0.applyAll calls).matches (cursorSpec t) = true := by
  obtain ⟨r, hr0, hisroot, hrp⟩ := wf_root h
  have hfuel : t.wins.size < treeFuel t + 0 := by unfold treeFuel; omega
  unfold doRestore at hd
  simp only [bind_ok] at hd
  obtain ⟨win, hcw, shown, hsh, hd⟩ := hd
  by_cases hv : r.isVisible = true
  · -- the root is visible: the walk reaches the end of the chain
    have hav0 : AncVis t 0 := by
      intro x xw hax hx
      cases hax with
      | refl => rw [live_unique hx hr0]; exact hv
      | step hw' hp' _ => rw [live_unique hw' hr0] at hp'; rw [hrp] at hp'; cases hp'
    obtain ⟨e, ew, h1, h2, h3, h4, h5⟩ := chainWalk_spec h (treeFuel t) 0 r hfuel hr0 (.refl 0) hav0
    rw [h1] at hcw; cases hcw
    have hev : ew.isVisible = true := h5 win ew (.refl _) h3
    have hef : win < treeFuel t := Nat.lt_succ_of_lt (live_lt h3)
    have hall : allVisible t (treeFuel t) win = true := (allVisible_iff h _ win ew hef h3 h4).mpr h5
    unfold restoreShown at hsh
    simp only [bind_ok] at hsh
    obtain ⟨w', hg, hsh⟩ := hsh
    have hw' : w' = ew := live_unique (get_ok.mp hg) h3
    subst hw'
    by_cases hc : (w'.isFocused && w'.cursor.visible) = true
    · simp only [Bool.and_eq_true] at hc
      simp only [hev, hc.1, hc.2, Bool.or_true, Bool.and_self, if_true] at hsh
      rw [cellVisible_iff_owner h h3 h4 h5] at hsh
      cases hsh
      by_cases ho : owner t (absCell t (treeFuel t) win w'.cursor.line w'.cursor.col).1
                            (absCell t (treeFuel t) win w'.cursor.line w'.cursor.col).2 = some win
      · -- shown
        simp only [ho, decide_true, if_true] at hd
        unfold restoreCalls at hd
        simp only [bind_ok, pure_ok] at hd
        obtain ⟨w'', hg'', abs, habs, hd⟩ := hd
        have hw'' : w'' = w' := live_unique (get_ok.mp hg'') h3
        subst hw''
        obtain ⟨g, hg1, hg2⟩ := absGeometry_spec h h3 w''.cursor.line w''.cursor.col
        rw [hg1] at habs; cases habs
        have hup : upB t (treeFuel t) win none w''.cursor.line w''.cursor.col = true :=
          own_to_up h _ win win w'' none _ _ hef h3 h4 h5 (.refl _) (fun _ => rfl) (fun q hq => by cases hq)
            (by rw [← owner_eq_own]; exact ho)
        have hins := upB_insideAll h _ win w'' none _ _ hef h3 hup
        have hspec := cursorSpec_some_of h2 h3 (by simp [hc.1, hc.2, hall, hins, ho])
        rw [hspec, hg2]
        subst hd
        apply matches_shown
        by_cases hb : w''.cursor.blink = -1
        · left; simp [hb]
        · right; exact ⟨w''.cursor.blink, by simp [hb]⟩
      · -- covered, outside or hidden by the composition
        simp only [ho, decide_false, Bool.false_eq_true, if_false, pure_ok] at hd
        subst hd
        rw [cursorSpec_none_of h2 h3 (by simp [ho])]
        exact matches_hidden c0
    · have hc' : (w'.isFocused && w'.cursor.visible) = false := by simpa using hc
      have hcond : ((!fx.hiddenRoot || w'.isVisible) && w'.isFocused && w'.cursor.visible) = false := by
        rw [Bool.and_assoc, hc']; simp
      simp only [hcond, Bool.false_eq_true, if_false, pure_ok] at hsh
      subst hsh
      simp only [Bool.false_eq_true, if_false, pure_ok] at hd
      subst hd
      rw [cursorSpec_none_of h2 h3 (by
        rw [Bool.and_eq_false_iff, Bool.and_eq_false_iff, Bool.and_eq_false_iff, Bool.and_eq_false_iff]
        rw [Bool.and_eq_false_iff] at hc'
        rcases hc' with hc' | hc'
        · left; left; left; left; exact hc'
        · left; left; right; exact hc')]
      exact matches_hidden c0
  · -- the root is hidden: only the repaired code is covered
    have hv' : r.isVisible = false := by simpa using hv
    have hfix : fx.hiddenRoot = true := by
      rcases hroot with hroot | hroot
      · exact hroot
      · simp [rootVisible, hr0.1, hv'] at hroot
    have hwalk : chainWalk (treeFuel t) t 0 = .ok 0 := by
      unfold treeFuel; rw [chainWalk]
      simp only [bind_ok]
      exact ⟨r, get_ok.mpr hr0, by simp [hv']; rfl⟩
    rw [hwalk] at hcw; cases hcw
    unfold restoreShown at hsh
    simp only [bind_ok] at hsh
    obtain ⟨w', hg, hsh⟩ := hsh
    have hw' : w' = r := live_unique (get_ok.mp hg) hr0
    subst hw'
    simp only [hfix, hv', Bool.not_true, Bool.or_self, Bool.false_and, Bool.false_eq_true, if_false, pure_ok] at hsh
    subst hsh
    simp only [Bool.false_eq_true, if_false, pure_ok] at hd
    subst hd
    obtain ⟨ew, he1, he2⟩ := chainEnd_live h (treeFuel t) 0 w' hfuel hr0 (.refl 0)
    have hef : chainEnd t (treeFuel t) 0 < treeFuel t := Nat.lt_succ_of_lt (live_lt he1)
    have hnall : allVisible t (treeFuel t) (chainEnd t (treeFuel t) 0) = false := by
      cases hall : allVisible t (treeFuel t) (chainEnd t (treeFuel t) 0) with
      | false => rfl
      | true =>
        have := (allVisible_iff h _ _ ew hef he1 he2).mp hall 0 w' he2 hr0
        rw [hv'] at this; cases this
    rw [cursorSpec_none_of rfl he1 (by simp [hnall])]
    exact matches_hidden c0


/-! ### the flags through a flush -/

/-- What `tickit_window_expose` leaves alone. -/
theorem expose_frame : ∀ (fuel : Nat) (t : Tree) (win : Nat) (r : Option Rect) (t' : Tree),
    expose t fuel win r = .ok t' →
    t'.wins = t.wins ∧ t'.root.needsRestore = t.root.needsRestore ∧
    (t.root.needsExpose = true → t'.root.needsExpose = true) := by
  intro fuel
  induction fuel with
  | zero => intro t win r t' h; simp [expose] at h
  | succ f ih =>
    intro t win r t' h
    rw [expose] at h
    simp only [bind_ok] at h
    obtain ⟨w, _, h⟩ := h
    split at h
    · simp only [pure_ok] at h; subst h; exact ⟨rfl, rfl, fun hx => hx⟩
    · split at h
      · simp only [pure_ok] at h; subst h; exact ⟨rfl, rfl, fun hx => hx⟩
      · split at h
        · split at h
          · simp only [pure_ok] at h; subst h; exact ⟨rfl, rfl, fun hx => hx⟩
          · exact ih _ _ _ _ h
        · split at h
          · cases h
          · simp only [pure_ok] at h; subst h; exact ⟨rfl, rfl, fun hx => hx⟩
          · split at h
            · cases h
            · simp only [pure_ok] at h; subst h; exact ⟨rfl, rfl, fun _ => rfl⟩

theorem set_root (t : Tree) (i : Nat) (w : Win) : (set t i w).root = t.root := rfl

theorem hier_tail_flags {t t1 t' : Tree} {v : Bool} {fuel p : Nat} {r : Option Rect}
    (h : (if v = true then expose t1 fuel p r else pure t1) = .ok t') (hr : t1.root = t.root) :
    t'.root.needsRestore = t.root.needsRestore ∧ (t.root.needsExpose = true → t'.root.needsExpose = true) := by
  split at h
  · obtain ⟨_, h2, h3⟩ := expose_frame _ _ _ _ _ h
    rw [hr] at h2 h3; exact ⟨h2, h3⟩
  · simp only [pure_ok] at h; subst h; rw [hr]; exact ⟨rfl, fun hx => hx⟩

theorem doHierarchyChange_flags {t : Tree} {fuel : Nat} {ch : Change} {p w : Nat} {t' : Tree}
    (h : doHierarchyChange t fuel ch p w = .ok t') :
    t'.root.needsRestore = t.root.needsRestore ∧ (t.root.needsExpose = true → t'.root.needsExpose = true) := by
  unfold doHierarchyChange at h
  simp only [bind_ok] at h
  obtain ⟨pw, _, ww, _, h⟩ := h
  split at h
  · simp only [bind_ok, pure_ok] at h
    obtain ⟨t1, ht1, h⟩ := h; subst ht1
    exact hier_tail_flags h rfl
  · simp only [bind_ok, pure_ok] at h
    obtain ⟨t1, ht1, h⟩ := h; subst ht1
    exact hier_tail_flags h rfl
  · simp only [bind_ok, pure_ok] at h
    obtain ⟨cs, _, w', _, t1, ht1, h⟩ := h; subst ht1
    exact hier_tail_flags h rfl
  · simp only [bind_ok, pure_ok] at h
    obtain ⟨cs, _, t1, ht1, h⟩ := h; subst ht1
    exact hier_tail_flags h rfl
  · simp only [bind_ok, pure_ok] at h
    obtain ⟨cs, _, t1, ht1, h⟩ := h; subst ht1
    exact hier_tail_flags h rfl
  · simp only [bind_ok, pure_ok] at h
    obtain ⟨t1, ht1, h⟩ := h; subst ht1
    exact hier_tail_flags h rfl
  · simp only [bind_ok, pure_ok] at h
    obtain ⟨cs, _, t1, ht1, h⟩ := h; subst ht1
    exact hier_tail_flags h rfl

theorem applyChanges_flags : ∀ (reqs : List Req) (t t' : Tree), applyChanges t reqs = .ok t' →
    t'.root.needsRestore = t.root.needsRestore ∧ (t.root.needsExpose = true → t'.root.needsExpose = true) := by
  intro reqs
  induction reqs with
  | nil => intro t t' h; simp only [applyChanges, pure_ok] at h; subst h; exact ⟨rfl, id⟩
  | cons r rest ih =>
    intro t t' h
    simp only [applyChanges, bind_ok] at h
    obtain ⟨t1, h1, h2⟩ := h
    obtain ⟨a1, a2⟩ := doHierarchyChange_flags h1
    obtain ⟨b1, b2⟩ := ih _ _ h2
    exact ⟨b1.trans a1, fun hx => b2 (a2 hx)⟩

/-- `cursorSpec` only reads the window store. -/
theorem chainEnd_wins (ws : Array Win) (r1 r2 : Root) : ∀ (f win : Nat),
    chainEnd { wins := ws, root := r1 } f win = chainEnd { wins := ws, root := r2 } f win := by
  intro f
  induction f with
  | zero => intro win; rfl
  | succ f ih =>
    intro win
    rw [chainEnd, chainEnd]
    simp only [ih]

theorem allVisible_wins (ws : Array Win) (r1 r2 : Root) : ∀ (f win : Nat),
    allVisible { wins := ws, root := r1 } f win = allVisible { wins := ws, root := r2 } f win := by
  intro f
  induction f with
  | zero => intro win; rfl
  | succ f ih =>
    intro win
    rw [allVisible, allVisible]
    simp only [ih]

theorem absCell_wins (ws : Array Win) (r1 r2 : Root) : ∀ (f win : Nat) (l c : Int),
    absCell { wins := ws, root := r1 } f win l c = absCell { wins := ws, root := r2 } f win l c := by
  intro f
  induction f with
  | zero => intro win l c; rfl
  | succ f ih =>
    intro win l c
    rw [absCell, absCell]
    simp only [ih]

theorem insideAll_wins (ws : Array Win) (r1 r2 : Root) : ∀ (f win : Nat) (l c : Int),
    insideAll { wins := ws, root := r1 } f win l c = insideAll { wins := ws, root := r2 } f win l c := by
  intro f
  induction f with
  | zero => intro win l c; rfl
  | succ f ih =>
    intro win l c
    rw [insideAll, insideAll]
    simp only [ih]

theorem ownerIn_wins (ws : Array Win) (r1 r2 : Root) : ∀ (f win : Nat) (l c : Int),
    ownerIn { wins := ws, root := r1 } f win l c = ownerIn { wins := ws, root := r2 } f win l c := by
  intro f
  induction f with
  | zero => intro win l c; rfl
  | succ f ih =>
    intro win l c
    rw [ownerIn, ownerIn]
    simp only [ih]

theorem cursorSpec_wins {t t' : Tree} (h : t'.wins = t.wins) : cursorSpec t' = cursorSpec t := by
  cases t with
  | mk ws r1 =>
  cases t' with
  | mk ws' r2 =>
  simp only at h; subst h
  unfold cursorSpec owner treeFuel
  simp only [chainEnd_wins ws' r2 r1, allVisible_wins ws' r2 r1, absCell_wins ws' r2 r1, insideAll_wins ws' r2 r1,
    ownerIn_wins ws' r2 r1]

theorem applyAll_append (c0 : TermCursor) (a b : List TermCall) :
    c0.applyAll (a ++ b) = (c0.applyAll a).applyAll b := by
  simp [TermCursor.applyAll, List.foldl_append]

/-- After a flush that had a restore or an expose pending, the terminal cursor is what the property demands of the
    tree as it is after the flush (queued restacking applied). -/
theorem flush_spec (fx : Fixes) {t : Tree} {out : FlushOut} (hf : flush fx t = .ok out)
    (hl : t.root.needsLater = true) (hr : t.root.needsRestore = true ∨ t.root.needsExpose = true)
    (hwf : wfB out.tree = true) (hroot : fx.hiddenRoot = true ∨ rootVisible out.tree = true) (c0 : TermCursor) :
    (c0.applyAll out.calls).matches (cursorSpec out.tree) = true := by
  unfold flush at hf
  simp only [hl, Bool.not_true, Bool.false_eq_true, if_false, bind_ok] at hf
  obtain ⟨t1, h1, hf⟩ := hf
  obtain ⟨a1, a2⟩ := applyChanges_flags _ _ _ h1
  simp only at a1 a2
  have hrest : (flushExpose { t1 with root := { t1.root with changes := [] } }).root.needsRestore = true := by
    unfold flushExpose
    by_cases he : t1.root.needsExpose = true
    · simp [he]
    · rcases hr with hr | hr
      · simp [he, a1, hr]
      · exact absurd (a2 hr) he
  unfold flushRestore at hf
  simp only [hrest, if_true, bind_ok, pure_ok] at hf
  obtain ⟨c2, hc2, hf⟩ := hf
  subst hf
  simp only at hwf hroot ⊢
  rw [applyAll_append]
  exact doRestore_spec hwf fx hroot hc2 _


/-! ### what `cursorSpec` reads: operations that keep the shape of the store -/

/-- The fields of a window the specification's walks read (everything but the cursor record, `is_focused`, the
    notification switch and the bookkeeping). -/
def shapeOf (w : Win) : Option Nat × List Nat × Option Nat × Rect × Bool × Bool × Bool :=
  (w.parent, w.children, w.focusedChild, w.rect, w.isRoot, w.isVisible, w.freed)

/-- Two stores with the same windows up to cursor records and `is_focused` flags. -/
def Agree (t t' : Tree) : Prop :=
  t'.wins.size = t.wins.size ∧ ∀ i : Nat, (t'.wins[i]?).map shapeOf = (t.wins[i]?).map shapeOf

theorem agree_refl (t : Tree) : Agree t t := ⟨rfl, fun _ => rfl⟩

theorem agree_trans {a b c : Tree} (h1 : Agree a b) (h2 : Agree b c) : Agree a c :=
  ⟨h2.1.trans h1.1, fun i => (h2.2 i).trans (h1.2 i)⟩

theorem agree_some {t t' : Tree} (h : Agree t t') {i : Nat} {w : Win} (hw : t.wins[i]? = some w) :
    ∃ w', t'.wins[i]? = some w' ∧ shapeOf w' = shapeOf w := by
  have := h.2 i
  rw [hw] at this
  cases hw' : t'.wins[i]? with
  | none => rw [hw'] at this; simp at this
  | some w' => rw [hw'] at this; simp at this; exact ⟨w', rfl, this⟩

theorem agree_none {t t' : Tree} (h : Agree t t') {i : Nat} (hw : t.wins[i]? = none) : t'.wins[i]? = none := by
  have := h.2 i
  rw [hw] at this
  cases hw' : t'.wins[i]? with
  | none => rfl
  | some w' => rw [hw'] at this; simp at this

theorem agree_set {t : Tree} {i : Nat} {w w' : Win} (hw : t.wins[i]? = some w) (hs : shapeOf w' = shapeOf w) :
    Agree t (WinTree.set t i w') := by
  refine ⟨by simp [WinTree.set], fun j => ?_⟩
  simp only [WinTree.set, Array.getElem?_setIfInBounds]
  by_cases hij : i = j
  · subst hij
    have hi : i < t.wins.size := (Array.getElem?_eq_some_iff.mp hw).1
    rw [hw]; simp [hi, hs]
  · simp [hij]

theorem chainEnd_agree {t t' : Tree} (h : Agree t t') : ∀ (f win : Nat), chainEnd t' f win = chainEnd t f win := by
  intro f
  induction f with
  | zero => intro win; rfl
  | succ f ih =>
    intro win
    rw [chainEnd, chainEnd]
    cases hw : t.wins[win]? with
    | none => rw [agree_none h hw]
    | some w =>
      obtain ⟨w', hw', hs⟩ := agree_some h hw
      rw [hw']
      have : w'.focusedChild = w.focusedChild := by unfold shapeOf at hs; simp at hs; exact hs.2.2.1
      simp only [this, ih]

theorem allVisible_agree {t t' : Tree} (h : Agree t t') : ∀ (f win : Nat), allVisible t' f win = allVisible t f win := by
  intro f
  induction f with
  | zero => intro win; rfl
  | succ f ih =>
    intro win
    rw [allVisible, allVisible]
    cases hw : t.wins[win]? with
    | none => rw [agree_none h hw]
    | some w =>
      obtain ⟨w', hw', hs⟩ := agree_some h hw
      rw [hw']
      unfold shapeOf at hs; simp at hs
      simp only [hs.1, hs.2.2.2.2.1, hs.2.2.2.2.2.1, hs.2.2.2.2.2.2, ih]

theorem absCell_agree {t t' : Tree} (h : Agree t t') : ∀ (f win : Nat) (l c : Int),
    absCell t' f win l c = absCell t f win l c := by
  intro f
  induction f with
  | zero => intro win l c; rfl
  | succ f ih =>
    intro win l c
    rw [absCell, absCell]
    cases hw : t.wins[win]? with
    | none => rw [agree_none h hw]
    | some w =>
      obtain ⟨w', hw', hs⟩ := agree_some h hw
      rw [hw']
      unfold shapeOf at hs; simp at hs
      simp only [hs.1, hs.2.2.2.1, ih]

theorem insideAll_agree {t t' : Tree} (h : Agree t t') : ∀ (f win : Nat) (l c : Int),
    insideAll t' f win l c = insideAll t f win l c := by
  intro f
  induction f with
  | zero => intro win l c; rfl
  | succ f ih =>
    intro win l c
    rw [insideAll, insideAll]
    cases hw : t.wins[win]? with
    | none => rw [agree_none h hw]
    | some w =>
      obtain ⟨w', hw', hs⟩ := agree_some h hw
      rw [hw']
      unfold shapeOf at hs; simp at hs
      simp only [hs.1, hs.2.2.2.1, ih]

theorem ownerIn_agree {t t' : Tree} (h : Agree t t') : ∀ (f win : Nat) (l c : Int),
    ownerIn t' f win l c = ownerIn t f win l c := by
  intro f
  induction f with
  | zero => intro win l c; rfl
  | succ f ih =>
    intro win l c
    rw [ownerIn, ownerIn]
    cases hw : t.wins[win]? with
    | none => rw [agree_none h hw]
    | some w =>
      obtain ⟨w', hw', hs⟩ := agree_some h hw
      rw [hw']
      unfold shapeOf at hs; simp at hs
      simp only [hs.2.1, hs.2.2.2.1, hs.2.2.2.2.2.1, hs.2.2.2.2.2.2, ih]

/-- `cursorSpec` is the same in two stores of the same shape whose focus-chain ends carry the same `is_focused`
    flag and cursor record, or are both unfocused. -/
theorem cursorSpec_agree {t t' : Tree} (h : Agree t t')
    (he : ∀ w w', t.wins[chainEnd t (treeFuel t) 0]? = some w → t'.wins[chainEnd t (treeFuel t) 0]? = some w' →
      (w'.isFocused = w.isFocused ∧ w'.cursor = w.cursor) ∨ (w.isFocused = false ∧ w'.isFocused = false)) :
    cursorSpec t' = cursorSpec t := by
  have hf : treeFuel t' = treeFuel t := by unfold treeFuel; rw [h.1]
  unfold cursorSpec owner
  rw [hf, h.1]
  simp only [chainEnd_agree h, allVisible_agree h, absCell_agree h, insideAll_agree h, ownerIn_agree h]
  cases hw : t.wins[chainEnd t (treeFuel t) 0]? with
  | none => rw [agree_none h hw]
  | some w =>
    obtain ⟨w', hw', _⟩ := agree_some h hw
    rw [hw']
    rcases he w w' hw hw' with ⟨h1, h2⟩ | ⟨h1, h2⟩
    · simp only [h1, h2]
    · simp only [h1, h2, Bool.false_and, Bool.false_eq_true, if_false]

/-! ### `restore_requested`: the cursor setters -/

/-- An operation requests what the property needs: afterwards a restore or an expose is pending (and the flush will
    not be skipped), or the operation did not change what the cursor has to be. -/
def Requests (t t' : Tree) : Prop :=
  ((t'.root.needsRestore = true ∨ t'.root.needsExpose = true) ∧ t'.root.needsLater = true) ∨ cursorSpec t' = cursorSpec t

theorem get_set_self {t : Tree} {i : Nat} {w w' : Win} (hw : t.wins[i]? = some w) (hf : w'.freed = false) :
    WinTree.get (WinTree.set t i w') i = .ok w' := by
  apply get_ok.mpr
  refine ⟨?_, hf⟩
  have hi : i < t.wins.size := (Array.getElem?_eq_some_iff.mp hw).1
  simp [WinTree.set, hi]

/-- Every setter of the cursor record (`set_cursor_position`, and `setctl_int` with CURSORVIS, CURSORSHAPE,
    CURSORBLINK): writes the record, then requests a restore when the window is focused. -/
theorem cursor_setter_requests {t t' : Tree} {win : Nat} (f : Cursor → Cursor)
    (h : (WinTree.modify t win (fun w => { w with cursor := f w.cursor }) >>= fun t1 => restoreIfFocused t1 win) = .ok t') :
    Requests t t' := by
  simp only [bind_ok] at h
  obtain ⟨t1, hm, hr⟩ := h
  unfold WinTree.modify at hm
  simp only [bind_ok, pure_ok] at hm
  obtain ⟨w, hg, ht1⟩ := hm
  have hw := get_ok.mp hg
  subst ht1
  unfold restoreIfFocused at hr
  simp only [bind_ok] at hr
  obtain ⟨w1, hg1, hr⟩ := hr
  rw [get_set_self hw.1 (by exact hw.2)] at hg1
  cases hg1
  split at hr
  · unfold requestRestoreOf at hr
    simp only [bind_ok, pure_ok] at hr
    obtain ⟨_, _, hr⟩ := hr
    subst hr
    exact .inl ⟨.inl rfl, rfl⟩
  · next hnf =>
    have hfoc' : w.isFocused = false := by simpa using hnf
    simp only [pure_ok] at hr
    subst hr
    right
    apply cursorSpec_agree (agree_set (w' := { w with cursor := f w.cursor }) hw.1 rfl)
    intro a a' ha ha'
    by_cases he : chainEnd t (treeFuel t) 0 = win
    · right
      rw [he] at ha ha'
      rw [hw.1] at ha; cases ha
      have hi : win < t.wins.size := (Array.getElem?_eq_some_iff.mp hw.1).1
      simp [WinTree.set, hi] at ha'
      subst ha'
      exact ⟨hfoc', hfoc'⟩
    · left
      have : (WinTree.set t win { w with cursor := f w.cursor }).wins[chainEnd t (treeFuel t) 0]? =
          t.wins[chainEnd t (treeFuel t) 0]? := by
        simp only [WinTree.set]
        exact Array.getElem?_setIfInBounds_ne (fun hx => he hx.symm)
      rw [this, ha] at ha'
      cases ha'
      exact ⟨rfl, rfl⟩


/-! ### `restore_requested`: `take_focus` along a visible path -/

/-- What the climb of `_focus_gained` reads of a window. -/
def pv (w : Win) : Option Nat × Bool × Bool := (w.parent, w.isVisible, w.freed)

/-- Same parents, visibility and liveness, same root record. -/
def SamePV (t t' : Tree) : Prop := t'.root = t.root ∧ ∀ i : Nat, (t'.wins[i]?).map pv = (t.wins[i]?).map pv

theorem samePV_refl (t : Tree) : SamePV t t := ⟨rfl, fun _ => rfl⟩
theorem samePV_trans {a b c : Tree} (h1 : SamePV a b) (h2 : SamePV b c) : SamePV a c :=
  ⟨h2.1.trans h1.1, fun i => (h2.2 i).trans (h1.2 i)⟩

theorem samePV_set {t : Tree} {i : Nat} {w w' : Win} (hw : t.wins[i]? = some w) (hs : pv w' = pv w) :
    SamePV t (WinTree.set t i w') := by
  refine ⟨rfl, fun j => ?_⟩
  simp only [WinTree.set, Array.getElem?_setIfInBounds]
  by_cases hij : i = j
  · subst hij
    have hi : i < t.wins.size := (Array.getElem?_eq_some_iff.mp hw).1
    rw [hw]; simp [hi, hs]
  · simp [hij]

theorem focusLostSelf_pv {t : Tree} {win : Nat} {evs : List Event} {r : Tree × List Event}
    (h : focusLostSelf t win evs = .ok r) : SamePV t r.1 := by
  simp only [focusLostSelf, bind_ok] at h
  obtain ⟨w, hg, h⟩ := h
  split at h
  · simp only [pure_ok] at h; subst h; exact samePV_set (get_ok.mp hg).1 rfl
  · simp only [pure_ok] at h; subst h; exact samePV_refl _

theorem focusLost_pv : ∀ (fuel : Nat) (t : Tree) (win : Nat) (r : Tree × List Event),
    focusLost fuel t win = .ok r → SamePV t r.1 := by
  intro fuel
  induction fuel with
  | zero => intro t win r h; simp [focusLost] at h
  | succ n ih =>
    intro t win r h
    simp only [focusLost, bind_ok] at h
    obtain ⟨r1, h1, h2⟩ := h
    have hs1 : SamePV t r1.1 := by
      simp only [focusLostChild, bind_ok] at h1
      obtain ⟨w, _, h1⟩ := h1
      split at h1
      · simp only [pure_ok] at h1; subst h1; exact samePV_refl _
      · simp only [bind_ok, pure_ok] at h1
        obtain ⟨r0, h0, w', _, h1⟩ := h1
        subst h1
        exact ih _ _ r0 h0
    exact samePV_trans hs1 (focusLostSelf_pv h2)

theorem gainLoseOld_pv {fx : Fixes} {t : Tree} {win : Nat} {child : Option Nat} {r : Tree × List Event}
    (h : gainLoseOld fx t win child = .ok r) : SamePV t r.1 := by
  simp only [gainLoseOld, bind_ok] at h
  obtain ⟨w, _, h⟩ := h
  split at h
  · simp only [pure_ok] at h; subst h; exact samePV_refl _
  · split at h
    · simp only [bind_ok, pure_ok] at h
      obtain ⟨r0, h0, w', _, h⟩ := h
      subst h
      exact focusLost_pv _ _ _ r0 h0
    · simp only [pure_ok] at h; subst h; exact samePV_refl _

theorem gainSelfOut_pv {fx : Fixes} {t : Tree} {win : Nat} {child : Option Nat} {evs : List Event}
    {r : Tree × List Event} (h : gainSelfOut fx t win child evs = .ok r) : SamePV t r.1 := by
  simp only [gainSelfOut, bind_ok] at h
  obtain ⟨w, hg, h⟩ := h
  split at h
  · simp only [pure_ok] at h; subst h; exact samePV_set (get_ok.mp hg).1 rfl
  · simp only [pure_ok] at h; subst h; exact samePV_refl _

theorem gainSelfIn_pv {t : Tree} {win : Nat} {child : Option Nat} {evs : List Event}
    {r : Tree × List Event} (h : gainSelfIn t win child evs = .ok r) : SamePV t r.1 := by
  simp only [gainSelfIn, bind_ok] at h
  obtain ⟨w, hg, h⟩ := h
  split at h
  · simp only [pure_ok] at h; subst h; exact samePV_set (get_ok.mp hg).1 rfl
  · simp only [pure_ok] at h; subst h; exact samePV_set (get_ok.mp hg).1 rfl

/-- The window and every window on its parent chain below the top is visible (the top itself — the root window —
    need not be: `_focus_gained` requests the restore there unconditionally). -/
inductive VisPath (t : Tree) : Nat → Prop where
  | top {win : Nat} {w : Win} : t.wins[win]? = some w → w.freed = false → w.parent = none → VisPath t win
  | step {win p : Nat} {w : Win} : t.wins[win]? = some w → w.freed = false → w.parent = some p →
      w.isVisible = true → VisPath t p → VisPath t win

theorem visPath_pv {t t' : Tree} (h : SamePV t t') {win : Nat} (hp : VisPath t win) : VisPath t' win := by
  induction hp with
  | @top x w hw hf hpar =>
    have := h.2 x
    rw [hw] at this
    cases hw' : t'.wins[x]? with
    | none => rw [hw'] at this; simp at this
    | some w' =>
      rw [hw'] at this; simp [pv] at this
      exact .top hw' (this.2.2.trans hf) (this.1.trans hpar)
  | @step x p w hw hf hpar hv _ ih =>
    have := h.2 x
    rw [hw] at this
    cases hw' : t'.wins[x]? with
    | none => rw [hw'] at this; simp at this
    | some w' =>
      rw [hw'] at this; simp [pv] at this
      exact .step hw' (this.2.2.trans hf) (this.1.trans hpar) (this.2.1.trans hv) ih

/-- `take_focus` on a window whose parent chain is visible up to the top always leaves a restore requested. -/
theorem focusGained_requests (fx : Fixes) : ∀ (fuel : Nat) (t : Tree) (win : Nat) (child : Option Nat)
    (r : Tree × List Event), focusGained fx fuel t win child = .ok r → VisPath t win →
    r.1.root.needsRestore = true ∧ r.1.root.needsLater = true := by
  intro fuel
  induction fuel with
  | zero => intro t win child r h; simp [focusGained] at h
  | succ n ih =>
    intro t win child r h hp
    simp only [focusGained, bind_ok] at h
    obtain ⟨r1, h1, r2, h2, r3, h3, h4⟩ := h
    have hs2 : SamePV t r2.1 := samePV_trans (gainLoseOld_pv h1) (gainSelfOut_pv h2)
    have hp2 := visPath_pv hs2 hp
    have hr3 : r3.1.root.needsRestore = true ∧ r3.1.root.needsLater = true := by
      simp only [gainClimb, bind_ok] at h3
      obtain ⟨w, hg, h3⟩ := h3
      have hw := get_ok.mp hg
      cases hp2 with
      | top hw' _ hpar =>
        rw [hw.1] at hw'; cases hw'
        simp only [hpar, bind_ok, pure_ok] at h3
        obtain ⟨t', ht', h3⟩ := h3
        subst h3
        unfold requestRestoreOf at ht'
        simp only [bind_ok, pure_ok] at ht'
        obtain ⟨_, _, ht'⟩ := ht'
        subst ht'
        exact ⟨rfl, rfl⟩
      | step hw' _ hpar hv hpp =>
        rw [hw.1] at hw'; cases hw'
        simp only [hpar, hv, if_true] at h3
        exact ih _ _ _ _ h3 hpp
    have hs4 := gainSelfIn_pv h4
    rw [hs4.1]; exact hr3


/-! ### preservation of the store invariant -/

/-- The fields of *other* windows that `winOk` looks up. -/
def linkShape (w : Win) : Option Nat × List Nat × Bool × Bool := (w.parent, w.children, w.isVisible, w.freed)

/-- Two stores whose windows agree on the looked-up fields. -/
def SameLinks (t t' : Tree) : Prop := ∀ i : Nat, (t'.wins[i]?).map linkShape = (t.wins[i]?).map linkShape

theorem sameLinks_lookup {t t' : Tree} (h : SameLinks t t') (i : Nat) :
    (match t'.wins[i]? with | some w => some (w.parent, w.children, w.isVisible, w.freed) | none => none) =
    (match t.wins[i]? with | some w => some (w.parent, w.children, w.isVisible, w.freed) | none => none) := by
  have := h i
  cases h1 : t.wins[i]? <;> cases h2 : t'.wins[i]? <;> simp [h1, h2, linkShape] at this ⊢
  exact this

/-- `winOk` of the same window record in two stores with the same links. -/
theorem winOk_congr {t t' : Tree} (h : SameLinks t t') (j : Nat) (x : Win) : winOk t' j x = winOk t j x := by
  have hl : ∀ i : Nat, ∀ (f : Option Nat → List Nat → Bool → Bool → Bool),
      (match t'.wins[i]? with | some w => f w.parent w.children w.isVisible w.freed | none => false) =
      (match t.wins[i]? with | some w => f w.parent w.children w.isVisible w.freed | none => false) := by
    intro i f
    have := sameLinks_lookup h i
    cases h1 : t.wins[i]? <;> cases h2 : t'.wins[i]? <;> simp [h1, h2] at this ⊢
    obtain ⟨a, b, c, d⟩ := this
    rw [a, b, c, d]
  unfold winOk
  congr 1
  · congr 1
    · cases x.parent with
      | none => rfl
      | some p =>
        simp only []
        congr 1
        exact hl p (fun _ ch _ fr => !fr && ch.contains j)
    · congr 1
      funext c
      exact hl c (fun par _ _ fr => !fr && par == some j)
  · cases x.focusedChild with
    | none => rfl
    | some c => exact hl c (fun par _ vis fr => !fr && par == some j && vis)

/-- Assembling `wfB` from its parts. -/
theorem wfB_of {t : Tree} (hroot : ∃ r, t.wins[0]? = some r ∧ r.isRoot = true ∧ r.freed = false ∧ r.parent = none)
    (hwin : ∀ (i : Nat) (w : Win), t.wins[i]? = some w → w.freed = false → winOk t i w = true) : wfB t = true := by
  unfold wfB
  obtain ⟨r, hr, h1, h2, h3⟩ := hroot
  simp only [Bool.and_eq_true, List.all_eq_true, List.mem_range]
  refine ⟨by rw [hr]; simp [h1, h2, h3], fun i _ => ?_⟩
  cases hw : t.wins[i]? with
  | none => rfl
  | some w =>
    by_cases hf : w.freed = true
    · simp [hf]
    · simp only [Bool.or_eq_true]; right; exact hwin i w hw (by simpa using hf)

theorem wf_winOk {t : Tree} (h : wfB t = true) {i : Nat} {w : Win} (hw : t.wins[i]? = some w) (hf : w.freed = false) :
    winOk t i w = true := wf_win h ⟨hw, hf⟩

theorem wf_root' {t : Tree} (h : wfB t = true) :
    ∃ r, t.wins[0]? = some r ∧ r.isRoot = true ∧ r.freed = false ∧ r.parent = none := by
  obtain ⟨r, hr, h1, h2⟩ := wf_root h
  exact ⟨r, hr.1, h1, hr.2, h2⟩

theorem set_lookup {t : Tree} {i j : Nat} {w w' : Win} (hw : t.wins[i]? = some w) :
    (WinTree.set t i w').wins[j]? = if i = j then some w' else t.wins[j]? := by
  have hi : i < t.wins.size := (Array.getElem?_eq_some_iff.mp hw).1
  simp only [WinTree.set, Array.getElem?_setIfInBounds, hi, if_true]

theorem sameLinks_set {t : Tree} {i : Nat} {w w' : Win} (hw : t.wins[i]? = some w) (hs : linkShape w' = linkShape w) :
    SameLinks t (WinTree.set t i w') := by
  intro j
  rw [set_lookup hw]
  by_cases hij : i = j
  · subst hij; simp [hw, hs]
  · simp [hij]

/-- Rewriting a window without touching the fields `winOk` reads (its cursor record, `is_focused`, the notification
    switch, …) preserves the invariant. -/
theorem wfB_set_same {t : Tree} (h : wfB t = true) {i : Nat} {w w' : Win} (hw : t.wins[i]? = some w)
    (hs : linkShape w' = linkShape w) (hfc : w'.focusedChild = w.focusedChild) (hr : w'.isRoot = w.isRoot) :
    wfB (WinTree.set t i w') = true := by
  have hl := sameLinks_set hw hs
  have hsh : w'.parent = w.parent ∧ w'.children = w.children ∧ w'.isVisible = w.isVisible ∧ w'.freed = w.freed := by
    unfold linkShape at hs; simpa using hs
  apply wfB_of
  · obtain ⟨r, hr0, h1, h2, h3⟩ := wf_root' h
    rw [set_lookup hw]
    by_cases hi : i = 0
    · subst hi
      rw [hr0] at hw; cases hw
      exact ⟨w', by simp, hr.trans h1, hsh.2.2.2.trans h2, hsh.1.trans h3⟩
    · exact ⟨r, by simp [hi, hr0], h1, h2, h3⟩
  · intro j x hx hf
    rw [set_lookup hw] at hx
    rw [winOk_congr hl]
    by_cases hij : i = j
    · subst hij
      simp at hx; subst hx
      have := wf_winOk h hw (hsh.2.2.2 ▸ hf)
      unfold winOk at this ⊢
      rw [hsh.1, hsh.2.1, hfc, hr]; exact this
    · simp [hij] at hx
      exact wf_winOk h hx hf

theorem wfB_root_only {t : Tree} (h : wfB t = true) (r : Root) : wfB { t with root := r } = true := h


/-- Writing `is_focused` and a `focused_child` link that goes to a live, visible child preserves the invariant. -/
theorem wfB_set_fc {t : Tree} (h : wfB t = true) {i : Nat} {w : Win} (hw : t.wins[i]? = some w) (b : Bool)
    (child : Option Nat)
    (hc : ∀ c, child = some c → ∃ cw, t.wins[c]? = some cw ∧ cw.freed = false ∧ cw.parent = some i ∧ cw.isVisible = true) :
    wfB (WinTree.set t i { w with isFocused := b, focusedChild := child }) = true := by
  have hl : SameLinks t (WinTree.set t i { w with isFocused := b, focusedChild := child }) := sameLinks_set hw rfl
  apply wfB_of
  · obtain ⟨r, hr0, h1, h2, h3⟩ := wf_root' h
    rw [set_lookup hw]
    by_cases hi : i = 0
    · subst hi
      rw [hr0] at hw; cases hw
      exact ⟨{ w with isFocused := b, focusedChild := child }, by simp, h1, h2, h3⟩
    · exact ⟨r, by simp [hi, hr0], h1, h2, h3⟩
  · intro j x hx hf
    rw [set_lookup hw] at hx
    rw [winOk_congr hl]
    by_cases hij : i = j
    · subst hij
      simp at hx; subst hx
      have := wf_winOk h hw hf
      unfold winOk at this ⊢
      simp only [Bool.and_eq_true] at this ⊢
      refine ⟨this.1, ?_⟩
      cases child with
      | none => rfl
      | some c =>
        obtain ⟨cw, hcw, h1, h2, h3⟩ := hc c rfl
        simp [hcw, h1, h2, h3]
    · simp [hij] at hx
      exact wf_winOk h hx hf

theorem focusLost_wf : ∀ (fuel : Nat) (t : Tree) (win : Nat) (r : Tree × List Event),
    wfB t = true → focusLost fuel t win = .ok r → wfB r.1 = true := by
  intro fuel
  induction fuel with
  | zero => intro t win r _ h; simp [focusLost] at h
  | succ n ih =>
    intro t win r hwf h
    simp only [focusLost, bind_ok] at h
    obtain ⟨r1, h1, h2⟩ := h
    have hwf1 : wfB r1.1 = true := by
      simp only [focusLostChild, bind_ok] at h1
      obtain ⟨w, _, h1⟩ := h1
      split at h1
      · simp only [pure_ok] at h1; subst h1; exact hwf
      · simp only [bind_ok, pure_ok] at h1
        obtain ⟨r0, h0, w', _, h1⟩ := h1
        subst h1
        exact ih _ _ r0 hwf h0
    simp only [focusLostSelf, bind_ok] at h2
    obtain ⟨w, hg, h2⟩ := h2
    split at h2
    · simp only [pure_ok] at h2; subst h2
      exact wfB_set_same hwf1 (get_ok.mp hg).1 rfl rfl rfl
    · simp only [pure_ok] at h2; subst h2; exact hwf1

/-- The window part of `SamePV`, through a whole `_focus_gained` (which may write the root record). -/
theorem focusGained_pvw (fx : Fixes) : ∀ (fuel : Nat) (t : Tree) (win : Nat) (child : Option Nat)
    (r : Tree × List Event), focusGained fx fuel t win child = .ok r →
    ∀ i : Nat, (r.1.wins[i]?).map pv = (t.wins[i]?).map pv := by
  intro fuel
  induction fuel with
  | zero => intro t win child r h; simp [focusGained] at h
  | succ n ih =>
    intro t win child r h i
    simp only [focusGained, bind_ok] at h
    obtain ⟨r1, h1, r2, h2, r3, h3, h4⟩ := h
    have hs2 : SamePV t r2.1 := samePV_trans (gainLoseOld_pv h1) (gainSelfOut_pv h2)
    have hs3 : (r3.1.wins[i]?).map pv = (r2.1.wins[i]?).map pv := by
      simp only [gainClimb, bind_ok] at h3
      obtain ⟨w, _, h3⟩ := h3
      split at h3
      · split at h3
        · exact ih _ _ _ _ h3 i
        · simp only [pure_ok] at h3; subst h3; rfl
      · simp only [bind_ok, pure_ok] at h3
        obtain ⟨t', ht', h3⟩ := h3
        subst h3
        unfold requestRestoreOf at ht'
        simp only [bind_ok, pure_ok] at ht'
        obtain ⟨_, _, ht'⟩ := ht'
        subst ht'; rfl
    rw [(gainSelfIn_pv h4).2 i, hs3, hs2.2 i]

theorem pv_lookup {t t' : Tree} (h : ∀ i : Nat, (t'.wins[i]?).map pv = (t.wins[i]?).map pv) {c i : Nat}
    (hc : ∃ cw, t.wins[c]? = some cw ∧ cw.freed = false ∧ cw.parent = some i ∧ cw.isVisible = true) :
    ∃ cw, t'.wins[c]? = some cw ∧ cw.freed = false ∧ cw.parent = some i ∧ cw.isVisible = true := by
  obtain ⟨cw, h1, h2, h3, h4⟩ := hc
  have := h c
  rw [h1] at this
  cases h' : t'.wins[c]? with
  | none => rw [h'] at this; simp at this
  | some cw' =>
    rw [h'] at this; simp [pv] at this
    exact ⟨cw', rfl, this.2.2.trans h2, this.1.trans h3, this.2.1.trans h4⟩

/-- `_focus_gained` preserves the store invariant (in particular `chain_visible`: it links only visible windows). -/
theorem focusGained_wf (fx : Fixes) : ∀ (fuel : Nat) (t : Tree) (win : Nat) (child : Option Nat)
    (r : Tree × List Event), wfB t = true → focusGained fx fuel t win child = .ok r →
    (∀ c, child = some c → ∃ cw, t.wins[c]? = some cw ∧ cw.freed = false ∧ cw.parent = some win ∧ cw.isVisible = true) →
    wfB r.1 = true := by
  intro fuel
  induction fuel with
  | zero => intro t win child r _ h; simp [focusGained] at h
  | succ n ih =>
    intro t win child r hwf h hc
    have hpvw := focusGained_pvw fx _ _ _ _ _ h
    simp only [focusGained, bind_ok] at h
    obtain ⟨r1, h1, r2, h2, r3, h3, h4⟩ := h
    -- step 1: the old branch loses the focus
    have hwf1 : wfB r1.1 = true := by
      simp only [gainLoseOld, bind_ok] at h1
      obtain ⟨w, _, h1⟩ := h1
      split at h1
      · simp only [pure_ok] at h1; subst h1; exact hwf
      · split at h1
        · simp only [bind_ok, pure_ok] at h1
          obtain ⟨r0, h0, w', _, h1⟩ := h1
          subst h1
          exact focusLost_wf _ _ _ r0 hwf h0
        · simp only [pure_ok] at h1; subst h1; exact hwf
    -- step 2: (repaired) the window itself is told OUT
    have hwf2 : wfB r2.1 = true := by
      simp only [gainSelfOut, bind_ok] at h2
      obtain ⟨w, hg, h2⟩ := h2
      split at h2
      · simp only [pure_ok] at h2; subst h2
        exact wfB_set_same hwf1 (get_ok.mp hg).1 rfl rfl rfl
      · simp only [pure_ok] at h2; subst h2; exact hwf1
    -- step 3: the climb
    have hwf3 : wfB r3.1 = true := by
      simp only [gainClimb, bind_ok] at h3
      obtain ⟨w, hg, h3⟩ := h3
      have hw := get_ok.mp hg
      split at h3
      · next p hp =>
        split at h3
        · next hv =>
          exact ih _ _ _ _ hwf2 h3 (fun c hc' => by cases hc'; exact ⟨w, hw.1, hw.2, hp, hv⟩)
        · simp only [pure_ok] at h3; subst h3; exact hwf2
      · simp only [bind_ok, pure_ok] at h3
        obtain ⟨t', ht', h3⟩ := h3
        subst h3
        unfold requestRestoreOf at ht'
        simp only [bind_ok, pure_ok] at ht'
        obtain ⟨_, _, ht'⟩ := ht'
        subst ht'
        exact wfB_root_only hwf2 _
    -- step 4: the link
    have hpv3 : ∀ i : Nat, (r3.1.wins[i]?).map pv = (t.wins[i]?).map pv := by
      intro i
      rw [← hpvw i, (gainSelfIn_pv h4).2 i]
    simp only [gainSelfIn, bind_ok] at h4
    obtain ⟨w, hg, h4⟩ := h4
    split at h4
    · simp only [pure_ok] at h4; subst h4
      exact wfB_set_fc hwf3 (get_ok.mp hg).1 true none (fun c hc' => by cases hc')
    · next c =>
      simp only [pure_ok] at h4; subst h4
      have := wfB_set_fc hwf3 (get_ok.mp hg).1 w.isFocused (some c)
        (fun c' hc' => by cases hc'; exact pv_lookup hpv3 (hc c rfl))
      exact this


theorem wfB_wins {t t' : Tree} (h : t'.wins = t.wins) : wfB t' = wfB t := by
  cases t; cases t'; simp only at h; subst h; rfl

/-- Two stores that agree on the looked-up fields, except that window `v` may have changed its visibility. -/
def SameLinksBut (v : Nat) (t t' : Tree) : Prop :=
  (∀ i : Nat, i ≠ v → (t'.wins[i]?).map linkShape = (t.wins[i]?).map linkShape) ∧
  (t'.wins[v]?).map (fun w => (w.parent, w.children, w.freed)) = (t.wins[v]?).map (fun w => (w.parent, w.children, w.freed))

/-- `winOk` of a record whose `focused_child` is not `v`, in two stores that differ in the visibility of `v` only. -/
theorem winOk_congr_vis {t t' : Tree} {v : Nat} (h : SameLinksBut v t t') (j : Nat) (x : Win)
    (hx : x.focusedChild ≠ some v) : winOk t' j x = winOk t j x := by
  have hl3 : ∀ i : Nat, ∀ (f : Option Nat → List Nat → Bool → Bool),
      (match t'.wins[i]? with | some w => f w.parent w.children w.freed | none => false) =
      (match t.wins[i]? with | some w => f w.parent w.children w.freed | none => false) := by
    intro i f
    by_cases hi : i = v
    · subst hi
      have := h.2
      cases h1 : t.wins[i]? <;> cases h2 : t'.wins[i]? <;> simp [h1, h2] at this ⊢
      obtain ⟨a, b, c⟩ := this
      rw [a, b, c]
    · have := h.1 i hi
      cases h1 : t.wins[i]? <;> cases h2 : t'.wins[i]? <;> simp [h1, h2, linkShape] at this ⊢
      obtain ⟨a, b, _, d⟩ := this
      rw [a, b, d]
  have hl4 : ∀ i : Nat, i ≠ v → ∀ (f : Option Nat → List Nat → Bool → Bool → Bool),
      (match t'.wins[i]? with | some w => f w.parent w.children w.isVisible w.freed | none => false) =
      (match t.wins[i]? with | some w => f w.parent w.children w.isVisible w.freed | none => false) := by
    intro i hi f
    have := h.1 i hi
    cases h1 : t.wins[i]? <;> cases h2 : t'.wins[i]? <;> simp [h1, h2, linkShape] at this ⊢
    obtain ⟨a, b, c, d⟩ := this
    rw [a, b, c, d]
  unfold winOk
  congr 1
  · congr 1
    · cases x.parent with
      | none => rfl
      | some p =>
        simp only []
        congr 1
        exact hl3 p (fun _ ch fr => !fr && ch.contains j)
    · congr 1
      funext c
      exact hl3 c (fun par _ fr => !fr && par == some j)
  · cases hfc : x.focusedChild with
    | none => rfl
    | some c =>
      have hcv : c ≠ v := fun hc => hx (by rw [hfc, hc])
      exact hl4 c hcv (fun par _ vis fr => !fr && par == some j && vis)

theorem sameLinksBut_set {t : Tree} {v : Nat} {w : Win} (hw : t.wins[v]? = some w) (b : Bool) :
    SameLinksBut v t (WinTree.set t v { w with isVisible := b }) := by
  refine ⟨fun i hi => ?_, ?_⟩
  · rw [set_lookup hw]
    have : ¬ v = i := fun h => hi h.symm
    simp [this]
  · rw [set_lookup hw]; simp [hw]

/-- No window other than the parent can have `v` as its `focused_child`. -/
theorem fc_only_parent {t : Tree} (h : wfB t = true) {j v : Nat} {x vw : Win} (hx : Live t j x)
    (hfc : x.focusedChild = some v) (hv : t.wins[v]? = some vw) : vw.parent = some j ∧ vw.isVisible = true := by
  obtain ⟨cw, hcw, h1, h2⟩ := wf_focused h hx hfc
  rw [hcw.1] at hv; cases hv
  exact ⟨h1, h2⟩

theorem winOk_drop_fc {t : Tree} {j : Nat} {x : Win} (h : winOk t j x = true) :
    winOk t j { x with focusedChild := none } = true := by
  unfold winOk at h ⊢
  simp only [Bool.and_eq_true] at h ⊢
  exact ⟨h.1, trivial⟩

theorem winOk_vis_irrelevant {t : Tree} {j : Nat} {x : Win} (b : Bool) :
    winOk t j { x with isVisible := b } = winOk t j x := by
  unfold winOk; rfl

/-- Facts about the store after `win->is_visible = false`. -/
theorem hide_facts {t : Tree} (h : wfB t = true) {win : Nat} {w : Win} (hw : Live t win w) (t1 : Tree)
    (ht1 : t1 = WinTree.set t win { w with isVisible := false }) :
    (∃ r, t1.wins[0]? = some r ∧ r.isRoot = true ∧ r.freed = false ∧ r.parent = none) ∧
    (∀ (j : Nat) (x : Win), x.focusedChild ≠ some win → winOk t j x = true → winOk t1 j x = true) ∧
    (∀ (j : Nat) (x : Win), t1.wins[j]? = some x → x.freed = false →
      (∀ pw, t.wins[j]? = some pw → w.parent = some j → pw.focusedChild ≠ some win) → winOk t1 j x = true) ∧
    (∀ j : Nat, win ≠ j → t1.wins[j]? = t.wins[j]?) := by
  subst ht1
  have hb : SameLinksBut win t (WinTree.set t win { w with isVisible := false }) := sameLinksBut_set hw.1 false
  have hfcw : w.focusedChild ≠ some win := by
    intro hc
    obtain ⟨cw, hcw, hp, _⟩ := wf_focused h hw hc
    have := (wf_parent h hcw hp).1; omega
  have hgood : ∀ (j : Nat) (x : Win), x.focusedChild ≠ some win → winOk t j x = true →
      winOk (WinTree.set t win { w with isVisible := false }) j x = true := by
    intro j x hne hok
    rw [winOk_congr_vis hb j x hne]; exact hok
  refine ⟨?_, hgood, ?_, ?_⟩
  · obtain ⟨r, hr0, h1, h2, h3⟩ := wf_root' h
    rw [set_lookup hw.1]
    by_cases hi : win = 0
    · subst hi
      have := hw.1; rw [hr0] at this; cases this
      exact ⟨{ w with isVisible := false }, by simp, h1, h2, h3⟩
    · exact ⟨r, by simp [hi, hr0], h1, h2, h3⟩
  · intro j x hx hf hpar
    rw [set_lookup hw.1] at hx
    by_cases hj : win = j
    · subst hj
      simp at hx; subst hx
      apply hgood _ _ hfcw
      rw [winOk_vis_irrelevant]; exact wf_winOk h hw.1 hw.2
    · simp [hj] at hx
      apply hgood _ _ _ (wf_winOk h hx hf)
      intro hc
      have := (fc_only_parent h ⟨hx, hf⟩ hc hw.1).1
      exact hpar x hx this hc
  · intro j hj
    rw [set_lookup hw.1]; simp [hj]

/-- The window part of `tickit_window_hide` (make invisible; unlink from the parent's focus chain) preserves the
    invariant. -/
theorem hide_core_wf {t : Tree} (h : wfB t = true) {win : Nat} {w : Win} (hw : Live t win w) (t1 : Tree)
    (ht1 : t1 = WinTree.set t win { w with isVisible := false }) :
    (match w.parent with
     | none => wfB t1 = true
     | some p => ∀ pw, t1.wins[p]? = some pw →
        wfB (if pw.focusedChild = some win then WinTree.set t1 p { pw with focusedChild := none } else t1) = true) := by
  obtain ⟨hroot1, hgood, hrec, hlook⟩ := hide_facts h hw t1 ht1
  cases hp : w.parent with
  | none =>
    simp only []
    apply wfB_of hroot1
    intro j x hx hf
    exact hrec j x hx hf (fun pw _ hc => by rw [hp] at hc; cases hc)
  | some p =>
    simp only []
    intro pw hpw
    have hpne : win ≠ p := by
      intro hc; subst hc
      have := (wf_parent h hw hp).1; omega
    have hpw0 : t.wins[p]? = some pw := by rw [hlook p hpne] at hpw; exact hpw
    by_cases hfc : pw.focusedChild = some win
    · simp only [hfc, if_true]
      have hl : SameLinks t1 (WinTree.set t1 p { pw with focusedChild := none }) := sameLinks_set hpw rfl
      apply wfB_of
      · obtain ⟨r, hr0, h1, h2, h3⟩ := hroot1
        rw [set_lookup hpw]
        by_cases hi : p = 0
        · subst hi
          rw [hr0] at hpw; cases hpw
          exact ⟨{ pw with focusedChild := none }, by simp, h1, h2, h3⟩
        · exact ⟨r, by simp [hi, hr0], h1, h2, h3⟩
      · intro j x hx hf
        rw [set_lookup hpw] at hx
        rw [winOk_congr hl]
        by_cases hj : p = j
        · subst hj
          simp at hx; subst hx
          apply hgood _ _ (by simp)
          exact winOk_drop_fc (wf_winOk h hpw0 hf)
        · simp [hj] at hx
          exact hrec j x hx hf (fun _ _ hc => by rw [hp] at hc; cases hc; exact absurd rfl hj)
    · simp only [hfc, if_false]
      apply wfB_of hroot1
      intro j x hx hf
      exact hrec j x hx hf (fun pw' hpw' hc => by
        rw [hp] at hc; cases hc
        rw [hpw0] at hpw'; cases hpw'; exact hfc)


/-- `tickit_window_hide` preserves the store invariant. -/
theorem hide_wf {t t' : Tree} {fuel win : Nat} (h : wfB t = true) (hh : WinTree.hide t fuel win = .ok t') :
    wfB t' = true := by
  unfold WinTree.hide at hh
  simp only [bind_ok] at hh
  obtain ⟨t1, hm, w1, hg1, hh⟩ := hh
  unfold WinTree.modify at hm
  simp only [bind_ok, pure_ok] at hm
  obtain ⟨w, hg, ht1⟩ := hm
  have hw := get_ok.mp hg
  have hcore := hide_core_wf h hw t1 ht1.symm
  have hw1 : w1 = { w with isVisible := false } := by
    rw [← ht1, get_set_self hw.1 (by exact hw.2)] at hg1
    cases hg1; rfl
  have hpar : w1.parent = w.parent := by rw [hw1]
  rw [hpar] at hh
  cases hp : w.parent with
  | none =>
    rw [hp] at hh hcore
    simp only [pure_ok] at hh
    subst hh; exact hcore
  | some p =>
    rw [hp] at hh hcore
    simp only [bind_ok] at hh hcore
    obtain ⟨pw, hgp, hh⟩ := hh
    have := hcore pw (get_ok.mp hgp).1
    obtain ⟨hwins, _, _⟩ := expose_frame _ _ _ _ _ hh
    rw [wfB_wins hwins]; exact this

theorem requestRestoreAbove_wins (t : Tree) (win : Nat) : (requestRestoreAbove t win).wins = t.wins := by
  unfold requestRestoreAbove
  split <;> rfl

theorem chainRestoreAfter_wins (fx : Fixes) (t t' : Tree) (p : Option Nat) : (chainRestoreAfter fx t t' p).wins = t'.wins := by
  unfold chainRestoreAfter
  split
  · rfl
  · split
    · split
      · exact requestRestoreAbove_wins _ _
      · rfl
    · rfl

/-- `tickit_window_hide` (with or without the repairs) preserves the store invariant. -/
theorem hideWin_wf {fx : Fixes} {t t' : Tree} {win : Nat} (h : wfB t = true) (hh : hideWin fx t win = .ok t') :
    wfB t' = true := by
  unfold hideWin at hh
  simp only [bind_ok] at hh
  obtain ⟨w, _, t1, h1, hh⟩ := hh
  have hwf1 := hide_wf h h1
  split at hh
  · simp only [pure_ok] at hh; subst hh; exact hwf1
  · simp only [pure_ok] at hh; subst hh
    rw [wfB_wins (chainRestoreAfter_wins _ _ _ _)]; exact hwf1


/-- Making a window visible preserves the invariant. -/
theorem show_core_wf {t : Tree} (h : wfB t = true) {win : Nat} {w : Win} (hw : Live t win w) :
    wfB (WinTree.set t win { w with isVisible := true }) = true := by
  by_cases hv : w.isVisible = true
  · exact wfB_set_same h hw.1 (by simp [linkShape, hv]) rfl rfl
  · have hb : SameLinksBut win t (WinTree.set t win { w with isVisible := true }) := sameLinksBut_set hw.1 true
    have hnone : ∀ (j : Nat) (x : Win), t.wins[j]? = some x → x.freed = false → x.focusedChild ≠ some win := by
      intro j x hx hf hc
      exact hv (fc_only_parent h ⟨hx, hf⟩ hc hw.1).2
    apply wfB_of
    · obtain ⟨r, hr0, h1, h2, h3⟩ := wf_root' h
      rw [set_lookup hw.1]
      by_cases hi : win = 0
      · subst hi
        have := hw.1; rw [hr0] at this; cases this
        exact ⟨{ w with isVisible := true }, by simp, h1, h2, h3⟩
      · exact ⟨r, by simp [hi, hr0], h1, h2, h3⟩
    · intro j x hx hf
      rw [set_lookup hw.1] at hx
      by_cases hj : win = j
      · subst hj
        simp at hx; subst hx
        rw [winOk_congr_vis hb win { w with isVisible := true } (hnone win w hw.1 hw.2), winOk_vis_irrelevant]
        exact wf_winOk h hw.1 hw.2
      · simp [hj] at hx
        rw [winOk_congr_vis hb _ _ (hnone j x hx hf)]
        exact wf_winOk h hx hf

/-- `tickit_window_show` preserves the store invariant. -/
theorem show_wf {t t' : Tree} {fuel win : Nat} (h : wfB t = true) (hh : WinTree.show t fuel win = .ok t') :
    wfB t' = true := by
  unfold WinTree.show at hh
  simp only [bind_ok] at hh
  obtain ⟨t1, hm, w1, hg1, hh⟩ := hh
  unfold WinTree.modify at hm
  simp only [bind_ok, pure_ok] at hm
  obtain ⟨w, hg, ht1⟩ := hm
  have hw := get_ok.mp hg
  have hwf1 : wfB t1 = true := by rw [← ht1]; exact show_core_wf h hw
  have hw1 := get_ok.mp hg1
  have hw1eq : w1 = { w with isVisible := true } := by
    rw [← ht1, get_set_self hw.1 (by exact hw.2)] at hg1
    cases hg1; rfl
  have hv1 : w1.isVisible = true := by rw [hw1eq]
  split at hh
  · next p hp =>
    simp only [bind_ok] at hh
    obtain ⟨pw, hgp, hh⟩ := hh
    split at hh
    · simp only [bind_ok, pure_ok] at hh
      obtain ⟨t2, ht2, hh⟩ := hh
      subst ht2
      obtain ⟨hwins, _, _⟩ := expose_frame _ _ _ _ _ hh
      rw [wfB_wins hwins]
      exact wfB_set_fc hwf1 (get_ok.mp hgp).1 pw.isFocused (some win)
        (fun c hc => by cases hc; exact ⟨w1, hw1.1, hw1.2, hp, hv1⟩)
    · simp only [bind_ok, pure_ok] at hh
      obtain ⟨t2, ht2, hh⟩ := hh
      subst ht2
      obtain ⟨hwins, _, _⟩ := expose_frame _ _ _ _ _ hh
      rw [wfB_wins hwins]; exact hwf1
  · simp only [bind_ok, pure_ok] at hh
    obtain ⟨t2, ht2, hh⟩ := hh
    subst ht2
    obtain ⟨hwins, _, _⟩ := expose_frame _ _ _ _ _ hh
    rw [wfB_wins hwins]; exact hwf1

theorem showWin_wf {fx : Fixes} {t t' : Tree} {win : Nat} (h : wfB t = true) (hh : showWin fx t win = .ok t') :
    wfB t' = true := by
  unfold showWin at hh
  simp only [bind_ok, pure_ok] at hh
  obtain ⟨w, _, t1, h1, hh⟩ := hh
  subst hh
  rw [wfB_wins (chainRestoreAfter_wins _ _ _ _)]; exact show_wf h h1

/-- The cursor setters, the notification switch and `take_focus` preserve the store invariant. -/
theorem restoreIfFocused_wf {t t' : Tree} {win : Nat} (h : wfB t = true) (hh : restoreIfFocused t win = .ok t') :
    wfB t' = true := by
  unfold restoreIfFocused at hh
  simp only [bind_ok] at hh
  obtain ⟨w, _, hh⟩ := hh
  split at hh
  · unfold requestRestoreOf at hh
    simp only [bind_ok, pure_ok] at hh
    obtain ⟨_, _, hh⟩ := hh
    subst hh; exact wfB_root_only h _
  · simp only [pure_ok] at hh; subst hh; exact h

theorem cursor_setter_wf {t t' : Tree} {win : Nat} (f : Cursor → Cursor) (h : wfB t = true)
    (hh : (WinTree.modify t win (fun w => { w with cursor := f w.cursor }) >>= fun t1 => restoreIfFocused t1 win) = .ok t') :
    wfB t' = true := by
  simp only [bind_ok] at hh
  obtain ⟨t1, hm, hr⟩ := hh
  unfold WinTree.modify at hm
  simp only [bind_ok, pure_ok] at hm
  obtain ⟨w, hg, ht1⟩ := hm
  subst ht1
  exact restoreIfFocused_wf (wfB_set_same (w' := { w with cursor := f w.cursor }) h (get_ok.mp hg).1 rfl rfl rfl) hr

theorem notify_wf {t t' : Tree} {win : Nat} {v : Int} (h : wfB t = true) (hh : setFocusChildNotify t win v = .ok t') :
    wfB t' = true := by
  unfold setFocusChildNotify WinTree.modify at hh
  simp only [bind_ok, pure_ok] at hh
  obtain ⟨w, hg, ht1⟩ := hh
  subst ht1
  exact wfB_set_same (w' := { w with focusChildNotify := bit1 v }) h (get_ok.mp hg).1 rfl rfl rfl

theorem takeFocus_wf {fx : Fixes} {t : Tree} {win : Nat} {r : Tree × List Event} (h : wfB t = true)
    (hh : takeFocus fx t win = .ok r) : wfB r.1 = true :=
  focusGained_wf fx _ _ _ _ _ h hh (fun c hc => by cases hc)


/-! ### restacking preserves the invariant -/

theorem listRaise_mem : ∀ (cs : List Nat) (w : Nat) (cs' : List Nat), listRaise cs w = .ok cs' →
    ∀ z, z ∈ cs' ↔ z ∈ cs := by
  intro cs
  induction cs with
  | nil => intro w cs' h; simp [listRaise] at h
  | cons x rest ih =>
    intro w cs' h z
    cases rest with
    | nil =>
      simp only [listRaise] at h
      split at h
      · cases h; exact Iff.rfl
      · cases h
    | cons y rest' =>
      simp only [listRaise] at h
      split at h
      · cases h; exact Iff.rfl
      · split at h
        · cases h; simp only [List.mem_cons]
          constructor
          · rintro (h | h | h)
            · exact .inr (.inl h)
            · exact .inl h
            · exact .inr (.inr h)
          · rintro (h | h | h)
            · exact .inr (.inl h)
            · exact .inl h
            · exact .inr (.inr h)
        · simp only [bind_ok, pure_ok] at h
          obtain ⟨r, hr, h⟩ := h
          subst h
          have := ih w r hr z
          simp only [List.mem_cons] at this ⊢
          constructor
          · rintro (h | h)
            · exact .inl h
            · exact .inr (this.mp h)
          · rintro (h | h)
            · exact .inl h
            · exact .inr (this.mpr h)

theorem listLower_mem : ∀ (cs : List Nat) (w : Nat) (z : Nat), z ∈ listLower cs w ↔ z ∈ cs := by
  intro cs
  induction cs with
  | nil => intro w z; simp [listLower]
  | cons x rest ih =>
    intro w z
    cases rest with
    | nil => simp [listLower]
    | cons y rest' =>
      simp only [listLower]
      split
      · simp only [List.mem_cons]
        constructor
        · rintro (h | h | h)
          · exact .inr (.inl h)
          · exact .inl h
          · exact .inr (.inr h)
        · rintro (h | h | h)
          · exact .inr (.inl h)
          · exact .inl h
          · exact .inr (.inr h)
      · have := ih w z
        simp only [List.mem_cons] at this ⊢
        constructor
        · rintro (h | h)
          · exact .inl h
          · exact .inr (this.mp h)
        · rintro (h | h)
          · exact .inl h
          · exact .inr (this.mpr h)

theorem listRemove_mem {cs : List Nat} {w : Nat} {cs' : List Nat} (h : listRemove cs w = .ok cs') :
    w ∈ cs ∧ ∀ z, z ≠ w → (z ∈ cs' ↔ z ∈ cs) := by
  unfold listRemove at h
  split at h
  · next hc =>
    cases h
    refine ⟨by simpa using hc, fun z hz => ?_⟩
    exact List.mem_erase_of_ne hz
  · cases h

/-- Stores that agree on the looked-up fields up to the *order* of the children lists. -/
def SameLinksPerm (t t' : Tree) : Prop :=
  ∀ i : Nat, match t.wins[i]?, t'.wins[i]? with
    | some a, some b => b.parent = a.parent ∧ b.isVisible = a.isVisible ∧ b.freed = a.freed ∧ ∀ z, z ∈ b.children ↔ z ∈ a.children
    | none, none => True
    | _, _ => False

theorem contains_congr {a b : List Nat} (h : ∀ z, z ∈ b ↔ z ∈ a) (j : Nat) : b.contains j = a.contains j := by
  cases ha : a.contains j <;> cases hb : b.contains j <;> simp_all

theorem winOk_congr_perm {t t' : Tree} (h : SameLinksPerm t t') (j : Nat) (x : Win) : winOk t' j x = winOk t j x := by
  unfold winOk
  congr 1
  · congr 1
    · cases x.parent with
      | none => rfl
      | some p =>
        simp only []
        congr 1
        have := h p
        cases h1 : t.wins[p]? <;> cases h2 : t'.wins[p]? <;> simp [h1, h2] at this ⊢
        obtain ⟨_, _, c, d⟩ := this
        rw [c]
        have := contains_congr d j
        simp only [List.contains_eq_mem] at this
        rw [this]
    · congr 1
      funext c
      have := h c
      cases h1 : t.wins[c]? <;> cases h2 : t'.wins[c]? <;> simp [h1, h2] at this ⊢
      obtain ⟨a, _, c, _⟩ := this
      rw [a, c]
  · cases x.focusedChild with
    | none => rfl
    | some c =>
      have := h c
      cases h1 : t.wins[c]? <;> cases h2 : t'.wins[c]? <;> simp [h1, h2] at this ⊢
      obtain ⟨a, b, c, _⟩ := this
      rw [a, b, c]

theorem all_congr_mem {a b : List Nat} (h : ∀ z, z ∈ b ↔ z ∈ a) (f : Nat → Bool) : b.all f = a.all f := by
  cases ha : a.all f <;> cases hb : b.all f
  · rfl
  · exfalso
    simp only [List.all_eq_true, List.all_eq_false] at ha hb
    obtain ⟨x, hx, hfx⟩ := ha
    exact hfx (hb x ((h x).mpr hx))
  · exfalso
    simp only [List.all_eq_true, List.all_eq_false] at ha hb
    obtain ⟨x, hx, hfx⟩ := hb
    exact hfx (ha x ((h x).mp hx))
  · rfl

/-- Reordering the children of a window preserves the invariant. -/
theorem wfB_set_children {t : Tree} (h : wfB t = true) {p : Nat} {pw : Win} (hpw : t.wins[p]? = some pw)
    (cs' : List Nat) (hperm : ∀ z, z ∈ cs' ↔ z ∈ pw.children) :
    wfB (WinTree.set t p { pw with children := cs' }) = true := by
  have hl : SameLinksPerm t (WinTree.set t p { pw with children := cs' }) := by
    intro i
    rw [set_lookup hpw]
    by_cases hi : p = i
    · subst hi; simp [hpw]; exact hperm
    · simp only [hi, if_false]
      cases t.wins[i]? with
      | none => trivial
      | some a => exact ⟨rfl, rfl, rfl, fun _ => Iff.rfl⟩
  apply wfB_of
  · obtain ⟨r, hr0, h1, h2, h3⟩ := wf_root' h
    rw [set_lookup hpw]
    by_cases hi : p = 0
    · subst hi
      rw [hr0] at hpw; cases hpw
      exact ⟨{ pw with children := cs' }, by simp, h1, h2, h3⟩
    · exact ⟨r, by simp [hi, hr0], h1, h2, h3⟩
  · intro j x hx hf
    rw [set_lookup hpw] at hx
    rw [winOk_congr_perm hl]
    by_cases hj : p = j
    · subst hj
      simp at hx; subst hx
      have := wf_winOk h hpw hf
      unfold winOk at this ⊢
      simp only [Bool.and_eq_true] at this ⊢
      refine ⟨⟨this.1.1, ?_⟩, this.2⟩
      rw [all_congr_mem hperm]; exact this.1.2
    · simp [hj] at hx
      exact wf_winOk h hx hf

/-- The four restacking requests. -/
def _root_.Tickit.WinTree.Change.isRestack : Change → Bool
  | .raise | .raiseFront | .lower | .lowerBack => true
  | _ => false

theorem doHierarchyChange_restack_wf {t t' : Tree} {fuel : Nat} {ch : Change} {p w : Nat} (h : wfB t = true)
    (hch : ch.isRestack = true) (hd : doHierarchyChange t fuel ch p w = .ok t') : wfB t' = true := by
  unfold doHierarchyChange at hd
  simp only [bind_ok] at hd
  obtain ⟨pw, hgp, ww, _, hd⟩ := hd
  have hpw := (get_ok.mp hgp).1
  have tail : ∀ (t1 : Tree), wfB t1 = true →
      (if ww.isVisible = true then expose t1 fuel p (some ww.rect) else pure t1) = .ok t' → wfB t' = true := by
    intro t1 h1 he
    split at he
    · obtain ⟨hwins, _, _⟩ := expose_frame _ _ _ _ _ he
      rw [wfB_wins hwins]; exact h1
    · simp only [pure_ok] at he; subst he; exact h1
  cases ch with
  | insertFirst => cases hch
  | insertLast => cases hch
  | remove => cases hch
  | raise =>
    simp only [bind_ok, pure_ok] at hd
    obtain ⟨cs, hcs, t1, ht1, hd⟩ := hd
    subst ht1
    exact tail _ (wfB_set_children h hpw cs (listRaise_mem _ _ _ hcs)) hd
  | raiseFront =>
    simp only [bind_ok, pure_ok] at hd
    obtain ⟨cs, hcs, t1, ht1, hd⟩ := hd
    subst ht1
    obtain ⟨hin, hmem⟩ := listRemove_mem hcs
    refine tail _ (wfB_set_children h hpw (w :: cs) (fun z => ?_)) hd
    by_cases hz : z = w
    · subst hz; simp [hin]
    · simp [hz, hmem z hz]
  | lower =>
    simp only [bind_ok, pure_ok] at hd
    obtain ⟨t1, ht1, hd⟩ := hd
    subst ht1
    exact tail _ (wfB_set_children h hpw _ (listLower_mem _ _)) hd
  | lowerBack =>
    simp only [bind_ok, pure_ok] at hd
    obtain ⟨cs, hcs, t1, ht1, hd⟩ := hd
    subst ht1
    obtain ⟨hin, hmem⟩ := listRemove_mem hcs
    refine tail _ (wfB_set_children h hpw (cs ++ [w]) (fun z => ?_)) hd
    by_cases hz : z = w
    · subst hz; simp [hin]
    · simp [hz, hmem z hz]

theorem applyChanges_wf : ∀ (reqs : List Req) (t t' : Tree), wfB t = true →
    (∀ r ∈ reqs, r.change.isRestack = true) → applyChanges t reqs = .ok t' → wfB t' = true := by
  intro reqs
  induction reqs with
  | nil => intro t t' h _ ha; simp only [applyChanges, pure_ok] at ha; subst ha; exact h
  | cons r rest ih =>
    intro t t' h hq ha
    simp only [applyChanges, bind_ok] at ha
    obtain ⟨t1, h1, h2⟩ := ha
    exact ih _ _ (doHierarchyChange_restack_wf h (hq r (by simp)) h1) (fun r' hr' => hq r' (by simp [hr'])) h2

/-- `tickit_window_flush` preserves the invariant when the queue holds restacking requests only (which is all the
    public API can put there). -/
theorem flush_wf {fx : Fixes} {t : Tree} {out : FlushOut} (h : wfB t = true)
    (hq : ∀ r ∈ t.root.changes, r.change.isRestack = true) (hf : flush fx t = .ok out) : wfB out.tree = true := by
  unfold flush at hf
  split at hf
  · simp only [pure_ok] at hf; subst hf; exact h
  · simp only [bind_ok] at hf
    obtain ⟨t1, h1, hf⟩ := hf
    have hwf1 := applyChanges_wf _ _ _ (wfB_root_only h _) hq h1
    have hwf2 : wfB (flushExpose { t1 with root := { t1.root with changes := [] } }) = true := by
      unfold flushExpose; split <;> exact hwf1
    unfold flushRestore at hf
    split at hf
    · simp only [bind_ok, pure_ok] at hf
      obtain ⟨_, _, hf⟩ := hf
      subst hf; exact hwf2
    · simp only [pure_ok] at hf; subst hf; exact hwf2


theorem requestHierarchyChange_wf {t t' : Tree} {fuel : Nat} {ch : Change} {win : Nat} (h : wfB t = true)
    (hr : requestHierarchyChange t fuel ch win = .ok t') : wfB t' = true := by
  unfold requestHierarchyChange at hr
  simp only [bind_ok] at hr
  obtain ⟨w, _, hr⟩ := hr
  split at hr
  · simp only [pure_ok] at hr; subst hr; exact h
  · simp only [bind_ok, pure_ok] at hr
    obtain ⟨_, _, hr⟩ := hr
    subst hr; exact wfB_root_only h _

theorem expose_wf {t t' : Tree} {fuel win : Nat} {r : Option Rect} (h : wfB t = true)
    (he : expose t fuel win r = .ok t') : wfB t' = true := by
  obtain ⟨hwins, _, _⟩ := expose_frame _ _ _ _ _ he
  rw [wfB_wins hwins]; exact h

theorem setGeometry_wf {t : Tree} {win : Nat} {g : Rect} {x : Tree × Bool} (h : wfB t = true)
    (hs : setGeometry t win g = .ok x) : wfB x.1 = true := by
  unfold setGeometry at hs
  simp only [bind_ok] at hs
  obtain ⟨w, hg, hs⟩ := hs
  split at hs
  · simp only [pure_ok] at hs; subst hs
    exact wfB_set_same (w' := { w with rect := g }) h (get_ok.mp hg).1 rfl rfl rfl
  · simp only [pure_ok] at hs; subst hs; exact h


/-! ### "the window losing the focus is told": tracking the old holder through `_focus_gained` -/

/-- Everything of a window except `is_focused` (and the cursor record etc.): what the upward, OUT-delivering phase of
    `_focus_gained` leaves alone. -/
def lk (w : Win) : Option Nat × Bool × Bool × Option Nat × List Nat × Bool :=
  (w.parent, w.isVisible, w.freed, w.focusedChild, w.children, w.isRoot)

def SameLK (t t' : Tree) : Prop :=
  t'.root = t.root ∧ (∀ i : Nat, (t'.wins[i]?).map lk = (t.wins[i]?).map lk) ∧ t'.wins.size = t.wins.size

theorem sameLK_refl (t : Tree) : SameLK t t := ⟨rfl, fun _ => rfl, rfl⟩
theorem sameLK_trans {a b c : Tree} (h1 : SameLK a b) (h2 : SameLK b c) : SameLK a c :=
  ⟨h2.1.trans h1.1, fun i => (h2.2.1 i).trans (h1.2.1 i), h2.2.2.trans h1.2.2⟩

theorem sameLK_set {t : Tree} {i : Nat} {w w' : Win} (hw : t.wins[i]? = some w) (hs : lk w' = lk w) :
    SameLK t (WinTree.set t i w') := by
  refine ⟨rfl, fun j => ?_, by simp [WinTree.set]⟩
  rw [set_lookup hw]
  by_cases hij : i = j
  · subst hij; simp [hw, hs]
  · simp [hij]

theorem sameLK_lookup {t t' : Tree} (h : SameLK t t') {i : Nat} {w : Win} (hw : t.wins[i]? = some w) :
    ∃ w', t'.wins[i]? = some w' ∧ lk w' = lk w := by
  have := h.2.1 i
  rw [hw] at this
  cases hw' : t'.wins[i]? with
  | none => rw [hw'] at this; simp at this
  | some w' => rw [hw'] at this; simp at this; exact ⟨w', rfl, this⟩

theorem sameLK_symm {t t' : Tree} (h : SameLK t t') : SameLK t' t := ⟨h.1.symm, fun i => (h.2.1 i).symm, h.2.2.symm⟩

/-- The old holder is still focused, or has been told OUT. -/
def Tracked (b : Nat) (t : Tree) (evs : List Event) : Prop :=
  (∃ bw, t.wins[b]? = some bw ∧ bw.isFocused = true) ∨ (⟨b, .focusOut, b⟩ : Event) ∈ evs

theorem tracked_mono {b : Nat} {t : Tree} {evs : List Event} (x : List Event) (h : Tracked b t evs) :
    Tracked b t (evs ++ x) := by
  rcases h with h | h
  · exact .inl h
  · exact .inr (List.mem_append.mpr (.inl h))

theorem focusLostSelf_track {t : Tree} {win b : Nat} {evs : List Event} {r : Tree × List Event}
    (h : focusLostSelf t win evs = .ok r) (ht : Tracked b t evs) : SameLK t r.1 ∧ Tracked b r.1 r.2 := by
  simp only [focusLostSelf, bind_ok] at h
  obtain ⟨w, hg, h⟩ := h
  have hw := (get_ok.mp hg).1
  split at h
  · simp only [pure_ok] at h; subst h
    refine ⟨sameLK_set hw rfl, ?_⟩
    by_cases hb : win = b
    · subst hb; exact .inr (by simp)
    · rcases ht with ⟨bw, hbw, hf⟩ | ht
      · left; exact ⟨bw, by rw [set_lookup hw]; simp [hb, hbw], hf⟩
      · exact .inr (List.mem_append.mpr (.inl ht))
  · simp only [pure_ok] at h; subst h; exact ⟨sameLK_refl _, ht⟩

theorem focusLost_track : ∀ (fuel : Nat) (t : Tree) (win b : Nat) (r : Tree × List Event),
    focusLost fuel t win = .ok r → Tracked b t [] → SameLK t r.1 ∧ Tracked b r.1 r.2 := by
  intro fuel
  induction fuel with
  | zero => intro t win b r h; simp [focusLost] at h
  | succ n ih =>
    intro t win b r h ht
    simp only [focusLost, bind_ok] at h
    obtain ⟨r1, h1, h2⟩ := h
    have h1' : SameLK t r1.1 ∧ Tracked b r1.1 r1.2 := by
      simp only [focusLostChild, bind_ok] at h1
      obtain ⟨w, _, h1⟩ := h1
      split at h1
      · simp only [pure_ok] at h1; subst h1; exact ⟨sameLK_refl _, ht⟩
      · simp only [bind_ok, pure_ok] at h1
        obtain ⟨r0, h0, w', _, h1⟩ := h1
        subst h1
        obtain ⟨a, b'⟩ := ih _ _ b r0 h0 ht
        exact ⟨a, tracked_mono _ b'⟩
    obtain ⟨a, b'⟩ := focusLostSelf_track h2 h1'.2
    exact ⟨sameLK_trans h1'.1 a, b'⟩

/-- `_focus_lost` on a window whose `focused_child` chain ends at a focused window tells that window OUT. -/
theorem focusLost_emits : ∀ (fuel : Nat) (t : Tree) (x b : Nat) (bw : Win) (r : Tree × List Event),
    focusLost fuel t x = .ok r → chainEnd t fuel x = b → t.wins[b]? = some bw → bw.isFocused = true →
    (⟨b, .focusOut, b⟩ : Event) ∈ r.2 := by
  intro fuel
  induction fuel with
  | zero => intro t x b bw r h; simp [focusLost] at h
  | succ n ih =>
    intro t x b bw r h hce hbw hbf
    simp only [focusLost, bind_ok] at h
    obtain ⟨r1, h1, h2⟩ := h
    simp only [focusLostChild, bind_ok] at h1
    obtain ⟨w, hg, h1⟩ := h1
    have hw := get_ok.mp hg
    split at h1
    · next hfc =>
      simp only [pure_ok] at h1; subst h1
      rw [chainEnd_none hw hfc] at hce
      subst hce
      simp only [focusLostSelf, bind_ok] at h2
      obtain ⟨w2, hg2, h2⟩ := h2
      have := (get_ok.mp hg2).1
      rw [hbw] at this; cases this
      simp only [hbf, if_true, pure_ok] at h2
      subst h2; simp
    · next c hfc =>
      simp only [bind_ok, pure_ok] at h1
      obtain ⟨r0, h0, w', _, h1⟩ := h1
      subst h1
      rw [chainEnd_some hw hfc] at hce
      have := ih _ _ _ bw r0 h0 hce hbw hbf
      obtain ⟨x', hx', _⟩ := focusLostSelf_events h2
      rw [hx']
      exact List.mem_append.mpr (.inl (List.mem_append.mpr (.inl this)))

theorem chainEnd_lk {t t' : Tree} (h : SameLK t t') : ∀ (f x : Nat), chainEnd t' f x = chainEnd t f x := by
  intro f
  induction f with
  | zero => intro x; rfl
  | succ f ih =>
    intro x
    rw [chainEnd, chainEnd]
    cases hw : t.wins[x]? with
    | none =>
      have := h.2.1 x; rw [hw] at this
      cases hw' : t'.wins[x]? with
      | none => rfl
      | some _ => rw [hw'] at this; simp at this
    | some w =>
      obtain ⟨w', hw', hs⟩ := sameLK_lookup h hw
      rw [hw']
      have : w'.focusedChild = w.focusedChild := by unfold lk at hs; simp at hs; exact hs.2.2.2.1
      simp only [this, ih]

/-- With enough fuel the end of a focus chain does not depend on the fuel. -/
theorem chainEnd_fuel {t : Tree} (h : wfB t = true) : ∀ (f f' x : Nat) (w : Win), Live t x w →
    t.wins.size < f + x → t.wins.size < f' + x → chainEnd t f x = chainEnd t f' x := by
  intro f
  induction f with
  | zero => intro f' x w hw h1 _; have := live_lt hw; omega
  | succ f ih =>
    intro f' x w hw h1 h2
    cases f' with
    | zero => have := live_lt hw; omega
    | succ f' =>
      cases hfc : w.focusedChild with
      | none => rw [chainEnd_none hw hfc, chainEnd_none hw hfc]
      | some c =>
        rw [chainEnd_some hw hfc, chainEnd_some hw hfc]
        obtain ⟨cw, hcw, hcp, _⟩ := wf_focused h hw hfc
        have := (wf_parent h hcw hcp).1
        exact ih f' c cw hcw (by omega) (by omega)


theorem sameLK_pv {t t' : Tree} (h : SameLK t t') : SamePV t t' := by
  refine ⟨h.1, fun i => ?_⟩
  have := h.2.1 i
  cases h1 : t.wins[i]? <;> cases h2 : t'.wins[i]? <;> simp [h1, h2, lk, pv] at this ⊢
  exact ⟨this.1, this.2.1, this.2.2.1⟩

theorem sameLK_live {t t' : Tree} (h : SameLK t t') {i : Nat} {w : Win} (hw : Live t i w) :
    ∃ w', Live t' i w' ∧ lk w' = lk w := by
  obtain ⟨w', hw', hs⟩ := sameLK_lookup h hw.1
  refine ⟨w', ⟨hw', ?_⟩, hs⟩
  have : w'.freed = w.freed := by unfold lk at hs; simp at hs; exact hs.2.2.1
  rw [this]; exact hw.2

theorem anc_lk {t t' : Tree} (h : SameLK t t') {o x : Nat} (ha : Anc t o x) : Anc t' o x := by
  induction ha with
  | refl => exact .refl _
  | @step o p x w hw hp _ ih =>
    obtain ⟨w', hw', hs⟩ := sameLK_live h hw
    have : w'.parent = w.parent := by unfold lk at hs; simp at hs; exact hs.1
    exact .step hw' (this.trans hp) ih

/-- On the focus chain from the root. -/
inductive OnChain (t : Tree) : Nat → Prop where
  | root : OnChain t 0
  | step {p c : Nat} {w : Win} : OnChain t p → Live t p w → w.focusedChild = some c → OnChain t c

theorem onChain_lk {t t' : Tree} (h : SameLK t t') {x : Nat} (ho : OnChain t x) : OnChain t' x := by
  induction ho with
  | root => exact .root
  | @step p c w _ hw hfc ih =>
    obtain ⟨w', hw', hs⟩ := sameLK_live h hw
    have : w'.focusedChild = w.focusedChild := by unfold lk at hs; simp at hs; exact hs.2.2.2.1
    exact .step ih hw' (this.trans hfc)

/-- Every window on the chain sees the same chain end. -/
theorem onChain_end {t : Tree} (h : wfB t = true) {x : Nat} (ho : OnChain t x) :
    ∀ (f : Nat) (w : Win), Live t x w → t.wins.size < f + x → chainEnd t f x = chainEnd t (treeFuel t) 0 := by
  induction ho with
  | root =>
    intro f w hw hf
    exact chainEnd_fuel h _ _ 0 w hw hf (by unfold treeFuel; omega)
  | @step p c pw _ hpw hfc ih =>
    intro f w hw hf
    have := ih (t.wins.size + 2) pw hpw (by omega)
    rw [chainEnd_some hpw hfc] at this
    rw [← this]
    exact chainEnd_fuel h _ _ c w hw hf (by omega)

/-- The end of the chain below `x` is `x` or a descendant of `x`. -/
theorem chainEnd_anc {t : Tree} (h : wfB t = true) : ∀ (f x : Nat) (w : Win), Live t x w → Anc t (chainEnd t f x) x := by
  intro f
  induction f with
  | zero => intro x w _; exact .refl _
  | succ f ih =>
    intro x w hw
    cases hfc : w.focusedChild with
    | none => rw [chainEnd_none hw hfc]; exact .refl _
    | some c =>
      rw [chainEnd_some hw hfc]
      obtain ⟨cw, hcw, hcp, _⟩ := wf_focused h hw hfc
      exact anc_snoc (ih c cw hcw) hcw hcp

theorem gainLoseOld_track {fx : Fixes} {t : Tree} {win b : Nat} {child : Option Nat} {r : Tree × List Event}
    (h : gainLoseOld fx t win child = .ok r) (ht : Tracked b t []) : SameLK t r.1 ∧ Tracked b r.1 r.2 := by
  simp only [gainLoseOld, bind_ok] at h
  obtain ⟨w, _, h⟩ := h
  split at h
  · simp only [pure_ok] at h; subst h; exact ⟨sameLK_refl _, ht⟩
  · split at h
    · simp only [bind_ok, pure_ok] at h
      obtain ⟨r0, h0, w', _, h⟩ := h
      subst h
      obtain ⟨a, b'⟩ := focusLost_track _ _ _ b r0 h0 ht
      exact ⟨a, tracked_mono _ b'⟩
    · simp only [pure_ok] at h; subst h; exact ⟨sameLK_refl _, ht⟩

theorem gainSelfOut_track {fx : Fixes} {t : Tree} {win b : Nat} {child : Option Nat} {evs : List Event}
    {r : Tree × List Event} (h : gainSelfOut fx t win child evs = .ok r) (ht : Tracked b t evs) :
    SameLK t r.1 ∧ Tracked b r.1 r.2 := by
  simp only [gainSelfOut, bind_ok] at h
  obtain ⟨w, hg, h⟩ := h
  have hw := (get_ok.mp hg).1
  split at h
  · simp only [pure_ok] at h; subst h
    refine ⟨sameLK_set hw rfl, ?_⟩
    by_cases hb : win = b
    · subst hb; exact .inr (by simp)
    · rcases ht with ⟨bw, hbw, hf⟩ | ht
      · left; exact ⟨bw, by rw [set_lookup hw]; simp [hb, hbw], hf⟩
      · exact .inr (List.mem_append.mpr (.inl ht))
  · simp only [pure_ok] at h; subst h; exact ⟨sameLK_refl _, ht⟩

theorem gainLoseOld_wf {fx : Fixes} {t : Tree} {win : Nat} {child : Option Nat} {r : Tree × List Event}
    (hwf : wfB t = true) (h1 : gainLoseOld fx t win child = .ok r) : wfB r.1 = true := by
  simp only [gainLoseOld, bind_ok] at h1
  obtain ⟨w, _, h1⟩ := h1
  split at h1
  · simp only [pure_ok] at h1; subst h1; exact hwf
  · split at h1
    · simp only [bind_ok, pure_ok] at h1
      obtain ⟨r0, h0, w', _, h1⟩ := h1
      subst h1
      exact focusLost_wf _ _ _ r0 hwf h0
    · simp only [pure_ok] at h1; subst h1; exact hwf

theorem gainSelfOut_wf {fx : Fixes} {t : Tree} {win : Nat} {child : Option Nat} {evs : List Event}
    {r : Tree × List Event} (hwf : wfB t = true) (h2 : gainSelfOut fx t win child evs = .ok r) : wfB r.1 = true := by
  simp only [gainSelfOut, bind_ok] at h2
  obtain ⟨w, hg, h2⟩ := h2
  split at h2
  · simp only [pure_ok] at h2; subst h2
    exact wfB_set_same hwf (get_ok.mp hg).1 rfl rfl rfl
  · simp only [pure_ok] at h2; subst h2; exact hwf


/-- The old holder `b` of the focus is told OUT by `_focus_gained` climbing from a window attached to the root along
    a visible path — for the repaired source always, for the unchanged one unless the focus moves between a window
    and its ancestor. -/
theorem gained_tells_loser (fx : Fixes) : ∀ (fuel : Nat) (t : Tree) (x : Nat) (child : Option Nat)
    (r : Tree × List Event) (b : Nat),
    focusGained fx fuel t x child = .ok r → wfB t = true → VisPath t x → Anc t x 0 →
    chainEnd t (treeFuel t) 0 = b → (∃ bw, t.wins[b]? = some bw ∧ bw.isFocused = true) →
    (child = none → x ≠ b) → (∀ c, child = some c → ¬ OnChain t c) →
    (fx.focusEvents = true ∨ ((child = none → ¬ Anc t b x) ∧ ¬ Anc t x b)) →
    (⟨b, .focusOut, b⟩ : Event) ∈ r.2 := by
  intro fuel
  induction fuel with
  | zero => intro t x child r b h; simp [focusGained] at h
  | succ n ih =>
    intro t x child r b h hwf hvp h0 hb hfoc hne hoff hex
    simp only [focusGained, bind_ok] at h
    obtain ⟨r1, h1, r2, h2, r3, h3, h4⟩ := h
    obtain ⟨x4, hx4, _, _⟩ := gainSelfIn_events h4
    obtain ⟨x2, hx2, _⟩ := gainSelfOut_events h2
    have in2 : (⟨b, .focusOut, b⟩ : Event) ∈ r2.2 → (⟨b, .focusOut, b⟩ : Event) ∈ r.2 := by
      intro hm; rw [hx4]
      exact List.mem_append.mpr (.inl (List.mem_append.mpr (.inl hm)))
    have in1 : (⟨b, .focusOut, b⟩ : Event) ∈ r1.2 → (⟨b, .focusOut, b⟩ : Event) ∈ r.2 := by
      intro hm; apply in2; rw [hx2]; exact List.mem_append.mpr (.inl hm)
    have in3 : (⟨b, .focusOut, b⟩ : Event) ∈ r3.2 → (⟨b, .focusOut, b⟩ : Event) ∈ r.2 := by
      intro hm; rw [hx4]
      exact List.mem_append.mpr (.inl (List.mem_append.mpr (.inr hm)))
    have hxw : ∃ w, Live t x w := by
      cases hvp with
      | top hw hf _ => exact ⟨_, hw, hf⟩
      | step hw hf _ _ _ => exact ⟨_, hw, hf⟩
    obtain ⟨w, hw⟩ := hxw
    obtain ⟨bw, hbw, hbf⟩ := hfoc
    by_cases hon : OnChain t x
    · have hend : chainEnd t (treeFuel t) x = b :=
        (onChain_end hwf hon _ w hw (by unfold treeFuel; omega)).trans hb
      cases hfc : w.focusedChild with
      | none =>
        have hxb : x = b := by unfold treeFuel at hend; rw [chainEnd_none hw hfc] at hend; exact hend
        cases child with
        | none => exact absurd hxb (hne rfl)
        | some c =>
          have hfx : fx.focusEvents = true := by
            rcases hex with hfx | ⟨_, hnb⟩
            · exact hfx
            · exact absurd (hxb ▸ Anc.refl x) hnb
          simp only [gainLoseOld, bind_ok] at h1
          obtain ⟨w1, hg1, h1⟩ := h1
          have := live_unique (get_ok.mp hg1) hw; subst this
          simp only [hfc, pure_ok] at h1
          subst h1
          simp only [gainSelfOut, bind_ok] at h2
          obtain ⟨w2, hg2, h2⟩ := h2
          have := live_unique (get_ok.mp hg2) hw; subst this
          have hwf' : w2.isFocused = true := by
            subst hxb; rw [hw.1] at hbw; cases hbw; exact hbf
          simp only [hfx, hwf', Option.isSome_some, Bool.and_self, if_true, pure_ok] at h2
          apply in2; rw [← h2]; simp [hxb]
      | some f =>
        obtain ⟨fw, hfw, hfp, _⟩ := wf_focused hwf hw hfc
        have hflt := (wf_parent hwf hfw hfp).1
        have hcond : ((child.isSome || fx.focusEvents) && decide (some f ≠ child)) = true := by
          cases child with
          | none =>
            have hfx : fx.focusEvents = true := by
              rcases hex with hfx | ⟨ha, _⟩
              · exact hfx
              · exact absurd (hend ▸ chainEnd_anc hwf _ x w hw) (ha rfl)
            simp [hfx]
          | some c =>
            have : f ≠ c := fun hc => hoff c rfl (hc ▸ OnChain.step hon hw hfc)
            simp [this]
        simp only [gainLoseOld, bind_ok] at h1
        obtain ⟨w1, hg1, h1⟩ := h1
        have := live_unique (get_ok.mp hg1) hw; subst this
        simp only [hfc] at h1
        rw [if_pos hcond] at h1
        simp only [bind_ok, pure_ok] at h1
        obtain ⟨r0, h0', w', _, h1⟩ := h1
        have hendf : chainEnd t (treeFuel t) f = b := by
          have := hend
          unfold treeFuel at this
          rw [chainEnd_some hw hfc] at this
          rw [← this]
          exact chainEnd_fuel hwf _ _ f fw hfw (by unfold treeFuel; omega) (by omega)
        have := focusLost_emits _ _ _ _ bw r0 h0' hendf hbw hbf
        apply in1; rw [← h1]
        exact List.mem_append.mpr (.inl this)
    · -- off the chain: nothing to tell here, climb on
      obtain ⟨s1, t1⟩ := gainLoseOld_track (b := b) h1 (.inl ⟨bw, hbw, hbf⟩)
      obtain ⟨s2, t2⟩ := gainSelfOut_track (b := b) h2 t1
      have s12 := sameLK_trans s1 s2
      rcases t2 with hfoc2 | hmem
      · cases hvp with
        | top hw' hf' hpar =>
          have := anc_parent_none ⟨hw', hf'⟩ hpar h0
          subst this; exact absurd OnChain.root hon
        | @step _ p w' hw' hf' hpar hv hvpp =>
          have := live_unique ⟨hw', hf'⟩ hw; subst this
          simp only [gainClimb, bind_ok] at h3
          obtain ⟨w3, hg3, h3⟩ := h3
          obtain ⟨w3', hw3', hs3⟩ := sameLK_live s12 hw
          have := live_unique (get_ok.mp hg3) hw3'; subst this
          have hp3 : w3.parent = some p := by unfold lk at hs3; simp at hs3; exact hs3.1.trans hpar
          have hv3 : w3.isVisible = true := by unfold lk at hs3; simp at hs3; exact hs3.2.1.trans hv
          simp only [hp3, hv3, if_true] at h3
          apply in3
          have hwf2 := gainSelfOut_wf (gainLoseOld_wf hwf h1) h2
          have hsz : treeFuel r2.1 = treeFuel t := by unfold treeFuel; rw [s12.2.2]
          refine ih r2.1 p (some x) r3 b h3 hwf2 (visPath_pv (sameLK_pv s12) hvpp)
            (anc_lk s12 (anc_parent_some hwf hw hpar h0)) ?_ hfoc2 (fun hc => by cases hc)
            (fun c hc => by cases hc; exact fun hoc => hon (onChain_lk (sameLK_symm s12) hoc)) ?_
          · rw [hsz, chainEnd_lk s12]; exact hb
          · rcases hex with hfx | ⟨_, hnb⟩
            · exact .inl hfx
            · exact .inr ⟨(fun hc => by cases hc),
                fun ha => hnb (Anc.step hw hpar (anc_lk (sameLK_symm s12) ha))⟩
      · exact in2 hmem


/-! ### "parents that asked are told": the IN half -/

/-- The notification switch of a window (no operation of the focus transfer writes it). -/
def nf (w : Win) : Bool := w.focusChildNotify

/-- Same notification switches. -/
def SameNF (t t' : Tree) : Prop := t'.root = t.root ∧ ∀ i : Nat, (t'.wins[i]?).map nf = (t.wins[i]?).map nf

theorem sameNF_refl (t : Tree) : SameNF t t := ⟨rfl, fun _ => rfl⟩
theorem sameNF_trans {a b c : Tree} (h1 : SameNF a b) (h2 : SameNF b c) : SameNF a c :=
  ⟨h2.1.trans h1.1, fun i => (h2.2 i).trans (h1.2 i)⟩

theorem sameNF_set {t : Tree} {i : Nat} {w w' : Win} (hw : t.wins[i]? = some w) (hs : nf w' = nf w) :
    SameNF t (WinTree.set t i w') := by
  refine ⟨rfl, fun j => ?_⟩
  simp only [WinTree.set, Array.getElem?_setIfInBounds]
  by_cases hij : i = j
  · subst hij
    have hi : i < t.wins.size := (Array.getElem?_eq_some_iff.mp hw).1
    rw [hw]; simp [hi, hs]
  · simp [hij]

theorem focusLostSelf_nf {t : Tree} {win : Nat} {evs : List Event} {r : Tree × List Event}
    (h : focusLostSelf t win evs = .ok r) : SameNF t r.1 := by
  simp only [focusLostSelf, bind_ok] at h
  obtain ⟨w, hg, h⟩ := h
  split at h
  · simp only [pure_ok] at h; subst h; exact sameNF_set (get_ok.mp hg).1 rfl
  · simp only [pure_ok] at h; subst h; exact sameNF_refl _

theorem focusLost_nf : ∀ (fuel : Nat) (t : Tree) (win : Nat) (r : Tree × List Event),
    focusLost fuel t win = .ok r → SameNF t r.1 := by
  intro fuel
  induction fuel with
  | zero => intro t win r h; simp [focusLost] at h
  | succ n ih =>
    intro t win r h
    simp only [focusLost, bind_ok] at h
    obtain ⟨r1, h1, h2⟩ := h
    have hs1 : SameNF t r1.1 := by
      simp only [focusLostChild, bind_ok] at h1
      obtain ⟨w, _, h1⟩ := h1
      split at h1
      · simp only [pure_ok] at h1; subst h1; exact sameNF_refl _
      · simp only [bind_ok, pure_ok] at h1
        obtain ⟨r0, h0, w', _, h1⟩ := h1
        subst h1
        exact ih _ _ r0 h0
    exact sameNF_trans hs1 (focusLostSelf_nf h2)

theorem gainLoseOld_nf {fx : Fixes} {t : Tree} {win : Nat} {child : Option Nat} {r : Tree × List Event}
    (h : gainLoseOld fx t win child = .ok r) : SameNF t r.1 := by
  simp only [gainLoseOld, bind_ok] at h
  obtain ⟨w, _, h⟩ := h
  split at h
  · simp only [pure_ok] at h; subst h; exact sameNF_refl _
  · split at h
    · simp only [bind_ok, pure_ok] at h
      obtain ⟨r0, h0, w', _, h⟩ := h
      subst h
      exact focusLost_nf _ _ _ r0 h0
    · simp only [pure_ok] at h; subst h; exact sameNF_refl _

theorem gainSelfOut_nf {fx : Fixes} {t : Tree} {win : Nat} {child : Option Nat} {evs : List Event}
    {r : Tree × List Event} (h : gainSelfOut fx t win child evs = .ok r) : SameNF t r.1 := by
  simp only [gainSelfOut, bind_ok] at h
  obtain ⟨w, hg, h⟩ := h
  split at h
  · simp only [pure_ok] at h; subst h; exact sameNF_set (get_ok.mp hg).1 rfl
  · simp only [pure_ok] at h; subst h; exact sameNF_refl _

theorem gainSelfIn_nf {t : Tree} {win : Nat} {child : Option Nat} {evs : List Event}
    {r : Tree × List Event} (h : gainSelfIn t win child evs = .ok r) : SameNF t r.1 := by
  simp only [gainSelfIn, bind_ok] at h
  obtain ⟨w, hg, h⟩ := h
  split at h
  · simp only [pure_ok] at h; subst h; exact sameNF_set (get_ok.mp hg).1 rfl
  · simp only [pure_ok] at h; subst h; exact sameNF_set (get_ok.mp hg).1 rfl


theorem focusGained_nfw (fx : Fixes) : ∀ (fuel : Nat) (t : Tree) (win : Nat) (child : Option Nat)
    (r : Tree × List Event), focusGained fx fuel t win child = .ok r →
    ∀ i : Nat, (r.1.wins[i]?).map nf = (t.wins[i]?).map nf := by
  intro fuel
  induction fuel with
  | zero => intro t win child r h; simp [focusGained] at h
  | succ n ih =>
    intro t win child r h i
    simp only [focusGained, bind_ok] at h
    obtain ⟨r1, h1, r2, h2, r3, h3, h4⟩ := h
    have hs2 : SameNF t r2.1 := sameNF_trans (gainLoseOld_nf h1) (gainSelfOut_nf h2)
    have hs3 : (r3.1.wins[i]?).map nf = (r2.1.wins[i]?).map nf := by
      simp only [gainClimb, bind_ok] at h3
      obtain ⟨w, _, h3⟩ := h3
      split at h3
      · split at h3
        · exact ih _ _ _ _ h3 i
        · simp only [pure_ok] at h3; subst h3; rfl
      · simp only [bind_ok, pure_ok] at h3
        obtain ⟨t', ht', h3⟩ := h3
        subst h3
        unfold requestRestoreOf at ht'
        simp only [bind_ok, pure_ok] at ht'
        obtain ⟨_, _, ht'⟩ := ht'
        subst ht'; rfl
    rw [(gainSelfIn_nf h4).2 i, hs3, hs2.2 i]

/-- `Reaches t x p c`: the climb of `_focus_gained` from `x` (through visible windows) arrives at `p`, coming from
    its child `c`. -/
inductive Reaches (t : Tree) : Nat → Nat → Nat → Prop where
  | here {x p : Nat} {w : Win} : t.wins[x]? = some w → w.freed = false → w.parent = some p → w.isVisible = true →
      Reaches t x p x
  | up {x y p c : Nat} {w : Win} : t.wins[x]? = some w → w.freed = false → w.parent = some y → w.isVisible = true →
      Reaches t y p c → Reaches t x p c

theorem reaches_pv {t t' : Tree} (h : ∀ i : Nat, (t'.wins[i]?).map pv = (t.wins[i]?).map pv) {x p c : Nat}
    (hr : Reaches t x p c) : Reaches t' x p c := by
  induction hr with
  | @here x p w hw hf hpar hv =>
    have := h x
    rw [hw] at this
    cases hw' : t'.wins[x]? with
    | none => rw [hw'] at this; simp at this
    | some w' =>
      rw [hw'] at this; simp [pv] at this
      exact .here hw' (this.2.2.trans hf) (this.1.trans hpar) (this.2.1.trans hv)
  | @up x y p c w hw hf hpar hv _ ih =>
    have := h x
    rw [hw] at this
    cases hw' : t'.wins[x]? with
    | none => rw [hw'] at this; simp at this
    | some w' =>
      rw [hw'] at this; simp [pv] at this
      exact .up hw' (this.2.2.trans hf) (this.1.trans hpar) (this.2.1.trans hv) ih

/-- A level of `_focus_gained` entered from a child tells the window IN for that child when it asked. -/
theorem gained_level_in (fx : Fixes) {fuel : Nat} {t : Tree} {p c : Nat} {r : Tree × List Event} {pw : Win}
    (h : focusGained fx fuel t p (some c) = .ok r) (hpw : t.wins[p]? = some pw) (hn : pw.focusChildNotify = true) :
    (⟨p, .focusIn, c⟩ : Event) ∈ r.2 := by
  cases fuel with
  | zero => simp [focusGained] at h
  | succ n =>
    simp only [focusGained, bind_ok] at h
    obtain ⟨r1, h1, r2, h2, r3, h3, h4⟩ := h
    have hs2 : SameNF t r2.1 := sameNF_trans (gainLoseOld_nf h1) (gainSelfOut_nf h2)
    have hs3 : (r3.1.wins[p]?).map nf = (r2.1.wins[p]?).map nf := by
      simp only [gainClimb, bind_ok] at h3
      obtain ⟨w, _, h3⟩ := h3
      split at h3
      · split at h3
        · exact focusGained_nfw fx _ _ _ _ _ h3 p
        · simp only [pure_ok] at h3; subst h3; rfl
      · simp only [bind_ok, pure_ok] at h3
        obtain ⟨t', ht', h3⟩ := h3
        subst h3
        unfold requestRestoreOf at ht'
        simp only [bind_ok, pure_ok] at ht'
        obtain ⟨_, _, ht'⟩ := ht'
        subst ht'; rfl
    simp only [gainSelfIn, bind_ok, pure_ok] at h4
    obtain ⟨w, hg, h4⟩ := h4
    have hw := (get_ok.mp hg).1
    have hnw : w.focusChildNotify = true := by
      have := hs3.trans (hs2.2 p)
      rw [hw, hpw] at this
      simp [nf] at this
      rw [this]; exact hn
    subst h4
    simp [hnw]

/-- Every window on the visible path above the window taking the focus that asked for child notifications is told
    IN for its child on the path. -/
theorem gained_parents_in (fx : Fixes) : ∀ (fuel : Nat) (t : Tree) (x : Nat) (child : Option Nat)
    (r : Tree × List Event) (p c : Nat) (pw : Win), focusGained fx fuel t x child = .ok r → Reaches t x p c →
    t.wins[p]? = some pw → pw.focusChildNotify = true → (⟨p, .focusIn, c⟩ : Event) ∈ r.2 := by
  intro fuel
  induction fuel with
  | zero => intro t x child r p c pw h; simp [focusGained] at h
  | succ n ih =>
    intro t x child r p c pw h hre hpw hn
    have hall := h
    simp only [focusGained, bind_ok] at h
    obtain ⟨r1, h1, r2, h2, r3, h3, h4⟩ := h
    obtain ⟨x4, hx4, _, _⟩ := gainSelfIn_events h4
    have in3 : (⟨p, .focusIn, c⟩ : Event) ∈ r3.2 → (⟨p, .focusIn, c⟩ : Event) ∈ r.2 := by
      intro hm; rw [hx4]
      exact List.mem_append.mpr (.inl (List.mem_append.mpr (.inr hm)))
    have hs2 : SamePV t r2.1 := samePV_trans (gainLoseOld_pv h1) (gainSelfOut_pv h2)
    have hn2 : SameNF t r2.1 := sameNF_trans (gainLoseOld_nf h1) (gainSelfOut_nf h2)
    have hpw2 : ∃ pw2, r2.1.wins[p]? = some pw2 ∧ pw2.focusChildNotify = true := by
      have := hn2.2 p
      rw [hpw] at this
      cases h' : r2.1.wins[p]? with
      | none => rw [h'] at this; simp at this
      | some pw2 => rw [h'] at this; simp [nf] at this; exact ⟨pw2, rfl, this.trans hn⟩
    obtain ⟨pw2, hpw2, hn2'⟩ := hpw2
    -- the recursive call this level makes
    have hrec : ∀ y (w : Win), t.wins[x]? = some w → w.freed = false → w.parent = some y → w.isVisible = true →
        focusGained fx n r2.1 y (some x) = .ok r3 := by
      intro y w hw hf hpar hv
      simp only [gainClimb, bind_ok] at h3
      obtain ⟨w3, hg3, h3⟩ := h3
      have := hs2.2 x
      rw [hw, (get_ok.mp hg3).1] at this
      simp [pv] at this
      simp only [this.1.trans hpar, this.2.1.trans hv, if_true] at h3
      exact h3
    cases hre with
    | here hw hf hpar hv =>
      exact in3 (gained_level_in fx (hrec _ _ hw hf hpar hv) hpw2 hn2')
    | up hw hf hpar hv hrest =>
      exact in3 (ih _ _ _ _ _ _ pw2 (hrec _ _ hw hf hpar hv) (reaches_pv hs2.2 hrest) hpw2 hn2')


/-! ### the loser is told, in full (repaired `_focus_gained`): either `b` is told OUT, or nothing on the focus chain moved -/

/-- The focus chain of `t` is still there in `t'`: same links on every chain window, and `b` still focused if it was. -/
def Kept (b : Nat) (t t' : Tree) : Prop :=
  t'.wins.size = t.wins.size ∧
  ∀ y w, OnChain t y → Live t y w →
    ∃ w', Live t' y w' ∧ w'.focusedChild = w.focusedChild ∧ (y = b → w.isFocused = true → w'.isFocused = true)

theorem kept_refl (b : Nat) (t : Tree) : Kept b t t := ⟨rfl, fun _ w _ hw => ⟨w, hw, rfl, fun _ h => h⟩⟩

theorem onChain_kept {b : Nat} {t t' : Tree} (h : Kept b t t') {y : Nat} (ho : OnChain t y) : OnChain t' y := by
  induction ho with
  | root => exact .root
  | @step p c w hop hw hfc ih =>
    obtain ⟨w', hw', hfc', _⟩ := h.2 p w hop hw
    exact .step ih hw' (hfc'.trans hfc)

theorem kept_trans {b : Nat} {t1 t2 t3 : Tree} (h12 : Kept b t1 t2) (h23 : Kept b t2 t3) : Kept b t1 t3 := by
  refine ⟨h23.1.trans h12.1, fun y w ho hw => ?_⟩
  obtain ⟨w2, hw2, hfc2, hf2⟩ := h12.2 y w ho hw
  obtain ⟨w3, hw3, hfc3, hf3⟩ := h23.2 y w2 (onChain_kept h12 ho) hw2
  exact ⟨w3, hw3, hfc3.trans hfc2, fun hy hf => hf3 hy (hf2 hy hf)⟩

theorem onChain_live {t : Tree} (h : wfB t = true) {y : Nat} (ho : OnChain t y) : ∃ w, Live t y w := by
  cases ho with
  | root => obtain ⟨r, hr, _, _⟩ := wf_root h; exact ⟨r, hr⟩
  | step _ hw hfc => obtain ⟨cw, hcw, _, _⟩ := wf_focused h hw hfc; exact ⟨cw, hcw⟩

theorem onChain_kept_rev {b : Nat} {t t' : Tree} (hwf : wfB t = true) (h : Kept b t t') {y : Nat}
    (ho : OnChain t' y) : OnChain t y := by
  induction ho with
  | root => exact .root
  | @step p c w' _ hw' hfc ih =>
    obtain ⟨w, hw⟩ := onChain_live hwf ih
    obtain ⟨w'', hw'', hfc'', _⟩ := h.2 p w ih hw
    have := live_unique hw'' hw'; subst this
    exact .step ih hw (hfc''.symm.trans hfc)

theorem chainEnd_kept {b : Nat} {t t' : Tree} (hwf : wfB t = true) (h : Kept b t t') : ∀ (f y : Nat), OnChain t y →
    chainEnd t' f y = chainEnd t f y := by
  intro f
  induction f with
  | zero => intro y _; rfl
  | succ f ih =>
    intro y ho
    obtain ⟨w, hw⟩ := onChain_live hwf ho
    obtain ⟨w', hw', hfc', _⟩ := h.2 y w ho hw
    cases hfc : w.focusedChild with
    | none => rw [chainEnd_none hw hfc, chainEnd_none hw' (hfc'.trans hfc)]
    | some c =>
      rw [chainEnd_some hw hfc, chainEnd_some hw' (hfc'.trans hfc)]
      exact ih c (.step ho hw hfc)

theorem onChain_chainEnd {t : Tree} (hwf : wfB t = true) : ∀ (f y : Nat), OnChain t y → OnChain t (chainEnd t f y) := by
  intro f
  induction f with
  | zero => intro y ho; exact ho
  | succ f ih =>
    intro y ho
    obtain ⟨w, hw⟩ := onChain_live hwf ho
    cases hfc : w.focusedChild with
    | none => rw [chainEnd_none hw hfc]; exact ho
    | some c => rw [chainEnd_some hw hfc]; exact ih c (.step ho hw hfc)

/-- The holder of the focus (`Props.C15.holder`, restated here). -/
def holderOf (t : Tree) : Option Nat :=
  match t.wins[chainEnd t (treeFuel t) 0]? with
  | some w => if w.isFocused then some (chainEnd t (treeFuel t) 0) else none
  | none => none

theorem holder_kept {b : Nat} {t t' : Tree} (hwf : wfB t = true) (h : Kept b t t')
    (hb : chainEnd t (treeFuel t) 0 = b) (hfoc : ∃ bw, t.wins[b]? = some bw ∧ bw.isFocused = true) :
    holderOf t' = some b := by
  have hf : treeFuel t' = treeFuel t := by unfold treeFuel; rw [h.1]
  have hob : OnChain t b := hb ▸ onChain_chainEnd hwf _ 0 .root
  obtain ⟨bw0, hbw0⟩ := onChain_live hwf hob
  obtain ⟨bw, hbw, hbf⟩ := hfoc
  have := hbw0.1.symm.trans hbw; simp at this; subst this
  obtain ⟨w', hw', _, hf'⟩ := h.2 b bw0 hob hbw0
  unfold holderOf
  rw [hf, chainEnd_kept hwf h _ 0 .root, hb, hw'.1]
  simp [hf' rfl hbf]

theorem kept_sameLK {b : Nat} {t t' : Tree} (h : SameLK t t')
    (hf : (∃ bw, t.wins[b]? = some bw ∧ bw.isFocused = true) → ∃ bw, t'.wins[b]? = some bw ∧ bw.isFocused = true) :
    Kept b t t' := by
  refine ⟨h.2.2, fun y w _ hw => ?_⟩
  obtain ⟨w', hw', hs⟩ := sameLK_live h hw
  refine ⟨w', hw', by unfold lk at hs; simp at hs; exact hs.2.2.2.1, fun hy hfw => ?_⟩
  subst hy
  obtain ⟨bw, hbw, hbf⟩ := hf ⟨w, hw.1, hfw⟩
  rw [hw'.1] at hbw; cases hbw; exact hbf

theorem kept_set {b : Nat} {t : Tree} {x : Nat} {w w' : Win} (hw : Live t x w) (hf : w'.freed = false)
    (hc : ¬ OnChain t x ∨ (w'.focusedChild = w.focusedChild ∧ (x = b → w.isFocused = true → w'.isFocused = true))) :
    Kept b t (WinTree.set t x w') := by
  refine ⟨by simp [WinTree.set], fun y wy ho hwy => ?_⟩
  by_cases hxy : x = y
  · subst hxy
    have := live_unique hwy hw; subst this
    rcases hc with hc | ⟨h1, h2⟩
    · exact absurd ho hc
    · exact ⟨w', ⟨by rw [set_lookup hw.1]; simp, hf⟩, h1, h2⟩
  · exact ⟨wy, ⟨by rw [set_lookup hw.1]; simp [hxy]; exact hwy.1, hwy.2⟩, rfl, fun _ h => h⟩

theorem kept_wins {b : Nat} {t t' : Tree} (h : t'.wins = t.wins) : Kept b t t' := by
  refine ⟨by rw [h], fun y w _ hw => ⟨w, ⟨by rw [h]; exact hw.1, hw.2⟩, rfl, fun _ hf => hf⟩⟩


/-- The repaired `_focus_gained`: the old holder `b` is told OUT, or the focus chain (and `b`'s flag) is untouched. -/
theorem gained_tells_or_keeps (fx : Fixes) (hfx : fx.focusEvents = true) : ∀ (fuel : Nat) (t : Tree) (x : Nat)
    (child : Option Nat) (r : Tree × List Event) (b : Nat),
    focusGained fx fuel t x child = .ok r → wfB t = true →
    chainEnd t (treeFuel t) 0 = b → (∃ bw, t.wins[b]? = some bw ∧ bw.isFocused = true) →
    (⟨b, .focusOut, b⟩ : Event) ∈ r.2 ∨ Kept b t r.1 := by
  intro fuel
  induction fuel with
  | zero => intro t x child r b h; simp [focusGained] at h
  | succ n ih =>
    intro t x child r b h hwf hb hfoc
    simp only [focusGained, bind_ok] at h
    obtain ⟨r1, h1, r2, h2, r3, h3, h4⟩ := h
    obtain ⟨x4, hx4, _, _⟩ := gainSelfIn_events h4
    obtain ⟨x2, hx2, _⟩ := gainSelfOut_events h2
    have in2 : (⟨b, .focusOut, b⟩ : Event) ∈ r2.2 → (⟨b, .focusOut, b⟩ : Event) ∈ r.2 := by
      intro hm; rw [hx4]
      exact List.mem_append.mpr (.inl (List.mem_append.mpr (.inl hm)))
    have in1 : (⟨b, .focusOut, b⟩ : Event) ∈ r1.2 → (⟨b, .focusOut, b⟩ : Event) ∈ r.2 := by
      intro hm; apply in2; rw [hx2]; exact List.mem_append.mpr (.inl hm)
    have in3 : (⟨b, .focusOut, b⟩ : Event) ∈ r3.2 → (⟨b, .focusOut, b⟩ : Event) ∈ r.2 := by
      intro hm; rw [hx4]
      exact List.mem_append.mpr (.inl (List.mem_append.mpr (.inr hm)))
    have hxw : ∃ w, Live t x w := by
      have h1' := h1
      simp only [gainLoseOld, bind_ok] at h1'
      obtain ⟨w, hg, _⟩ := h1'
      exact ⟨w, get_ok.mp hg⟩
    obtain ⟨w, hw⟩ := hxw
    obtain ⟨bw, hbw, hbf⟩ := hfoc
    obtain ⟨s1, t1⟩ := gainLoseOld_track (b := b) h1 (.inl ⟨bw, hbw, hbf⟩)
    obtain ⟨s2, t2⟩ := gainSelfOut_track (b := b) h2 t1
    have s12 := sameLK_trans s1 s2
    -- the part common to the cases in which this level need not tell `b` itself
    have generic : (Kept b t r3.1 → ∀ w4, Live r3.1 x w4 → (¬ OnChain r3.1 x ∨ child = w4.focusedChild)) →
        ((⟨b, .focusOut, b⟩ : Event) ∈ r.2 ∨ Kept b t r.1) := by
      intro hfinal
      rcases t2 with hfoc2 | hmem
      · have K12 : Kept b t r2.1 := kept_sameLK s12 (fun _ => hfoc2)
        have hwf2 := gainSelfOut_wf (gainLoseOld_wf hwf h1) h2
        have hsz : treeFuel r2.1 = treeFuel t := by unfold treeFuel; rw [s12.2.2]
        have C3 : (⟨b, .focusOut, b⟩ : Event) ∈ r3.2 ∨ Kept b r2.1 r3.1 := by
          simp only [gainClimb, bind_ok] at h3
          obtain ⟨w3, hg3, h3⟩ := h3
          split at h3
          · next p hp =>
            split at h3
            · exact ih r2.1 p (some x) r3 b h3 hwf2 (by rw [hsz, chainEnd_lk s12]; exact hb) hfoc2
            · simp only [pure_ok] at h3; subst h3; exact .inr (kept_refl _ _)
          · simp only [bind_ok, pure_ok] at h3
            obtain ⟨t', ht', h3⟩ := h3
            subst h3
            unfold requestRestoreOf at ht'
            simp only [bind_ok, pure_ok] at ht'
            obtain ⟨_, _, ht'⟩ := ht'
            subst ht'
            exact .inr (kept_wins rfl)
        rcases C3 with hm | K23
        · exact .inl (in3 hm)
        · have K13 := kept_trans K12 K23
          right
          simp only [gainSelfIn, bind_ok] at h4
          obtain ⟨w4, hg4, h4⟩ := h4
          have hw4 := get_ok.mp hg4
          have hcond := hfinal K13 w4 hw4
          split at h4
          · simp only [pure_ok] at h4; subst h4
            refine kept_trans K13 (kept_set hw4 hw4.2 ?_)
            rcases hcond with hc | hc
            · exact .inl hc
            · exact .inr ⟨hc, fun _ _ => rfl⟩
          · next c =>
            simp only [pure_ok] at h4; subst h4
            refine kept_trans K13 (kept_set hw4 hw4.2 ?_)
            rcases hcond with hc | hc
            · exact .inl hc
            · exact .inr ⟨hc, fun _ hf => hf⟩
      · exact .inl (in2 hmem)
    by_cases hon : OnChain t x
    · have hend : chainEnd t (treeFuel t) x = b :=
        (onChain_end hwf hon _ w hw (by unfold treeFuel; omega)).trans hb
      -- in the kept store the record of `x` has the links it had
      have hfc4 : Kept b t r3.1 → ∀ w4, Live r3.1 x w4 → w4.focusedChild = w.focusedChild := by
        intro K w4 hw4
        obtain ⟨w', hw', hfc', _⟩ := K.2 x w hon hw
        rw [live_unique hw4 hw']; exact hfc'
      cases hfc : w.focusedChild with
      | none =>
        have hxb : x = b := by unfold treeFuel at hend; rw [chainEnd_none hw hfc] at hend; exact hend
        cases child with
        | none =>
          exact generic (fun K w4 hw4 => .inr ((hfc4 K w4 hw4).trans hfc).symm)
        | some c =>
          left
          simp only [gainLoseOld, bind_ok] at h1
          obtain ⟨w1, hg1, h1⟩ := h1
          have := live_unique (get_ok.mp hg1) hw; subst this
          simp only [hfc, pure_ok] at h1
          subst h1
          simp only [gainSelfOut, bind_ok] at h2
          obtain ⟨w2, hg2, h2⟩ := h2
          have := live_unique (get_ok.mp hg2) hw; subst this
          have hwf' : w2.isFocused = true := by
            subst hxb; rw [hw.1] at hbw; cases hbw; exact hbf
          simp only [hfx, hwf', Option.isSome_some, Bool.and_self, if_true, pure_ok] at h2
          apply in2; rw [← h2]; simp [hxb]
      | some f =>
        by_cases hcf : child = some f
        · exact generic (fun K w4 hw4 => .inr (hcf.trans ((hfc4 K w4 hw4).trans hfc).symm))
        · left
          obtain ⟨fw, hfw, hfp, _⟩ := wf_focused hwf hw hfc
          have hflt := (wf_parent hwf hfw hfp).1
          have hcond : ((child.isSome || fx.focusEvents) && decide (some f ≠ child)) = true := by
            have : some f ≠ child := fun h => hcf h.symm
            simp [hfx, this]
          simp only [gainLoseOld, bind_ok] at h1
          obtain ⟨w1, hg1, h1⟩ := h1
          have := live_unique (get_ok.mp hg1) hw; subst this
          simp only [hfc] at h1
          rw [if_pos hcond] at h1
          simp only [bind_ok, pure_ok] at h1
          obtain ⟨r0, h0', w', _, h1⟩ := h1
          have hendf : chainEnd t (treeFuel t) f = b := by
            have := hend
            unfold treeFuel at this
            rw [chainEnd_some hw hfc] at this
            rw [← this]
            exact chainEnd_fuel hwf _ _ f fw hfw (by unfold treeFuel; omega) (by omega)
          have := focusLost_emits _ _ _ _ bw r0 h0' hendf hbw hbf
          apply in1; rw [← h1]
          exact List.mem_append.mpr (.inl this)
    · exact generic (fun K _ _ => .inl (fun ho => hon (onChain_kept_rev hwf K ho)))



/-! ### the window whose `focused_child` link moves is told about both (repaired `_focus_gained`) -/

theorem focusLostSelf_lk {t : Tree} {win : Nat} {evs : List Event} {r : Tree × List Event}
    (h : focusLostSelf t win evs = .ok r) : SameLK t r.1 := by
  simp only [focusLostSelf, bind_ok] at h
  obtain ⟨w, hg, h⟩ := h
  split at h
  · simp only [pure_ok] at h; subst h; exact sameLK_set (get_ok.mp hg).1 rfl
  · simp only [pure_ok] at h; subst h; exact sameLK_refl _

theorem focusLost_lk : ∀ (fuel : Nat) (t : Tree) (win : Nat) (r : Tree × List Event),
    focusLost fuel t win = .ok r → SameLK t r.1 := by
  intro fuel
  induction fuel with
  | zero => intro t win r h; simp [focusLost] at h
  | succ n ih =>
    intro t win r h
    simp only [focusLost, bind_ok] at h
    obtain ⟨r1, h1, h2⟩ := h
    have hs1 : SameLK t r1.1 := by
      simp only [focusLostChild, bind_ok] at h1
      obtain ⟨w, _, h1⟩ := h1
      split at h1
      · simp only [pure_ok] at h1; subst h1; exact sameLK_refl _
      · simp only [bind_ok, pure_ok] at h1
        obtain ⟨r0, h0, w', _, h1⟩ := h1
        subst h1
        exact ih _ _ r0 h0
    exact sameLK_trans hs1 (focusLostSelf_lk h2)

theorem gainLoseOld_lk {fx : Fixes} {t : Tree} {win : Nat} {child : Option Nat} {r : Tree × List Event}
    (h : gainLoseOld fx t win child = .ok r) : SameLK t r.1 := by
  simp only [gainLoseOld, bind_ok] at h
  obtain ⟨w, _, h⟩ := h
  split at h
  · simp only [pure_ok] at h; subst h; exact sameLK_refl _
  · split at h
    · simp only [bind_ok, pure_ok] at h
      obtain ⟨r0, h0, w', _, h⟩ := h
      subst h
      exact focusLost_lk _ _ _ r0 h0
    · simp only [pure_ok] at h; subst h; exact sameLK_refl _

theorem gainSelfOut_lk {fx : Fixes} {t : Tree} {win : Nat} {child : Option Nat} {evs : List Event}
    {r : Tree × List Event} (h : gainSelfOut fx t win child evs = .ok r) : SameLK t r.1 := by
  simp only [gainSelfOut, bind_ok] at h
  obtain ⟨w, hg, h⟩ := h
  split at h
  · simp only [pure_ok] at h; subst h; exact sameLK_set (get_ok.mp hg).1 rfl
  · simp only [pure_ok] at h; subst h; exact sameLK_refl _


theorem lookup_nf {t t' : Tree} (h : ∀ i : Nat, (t'.wins[i]?).map nf = (t.wins[i]?).map nf) {p : Nat} {pw pw' : Win}
    (h1 : t.wins[p]? = some pw) (h2 : t'.wins[p]? = some pw') : pw'.focusChildNotify = pw.focusChildNotify := by
  have := h p
  rw [h1, h2] at this
  simpa [nf] using this

theorem gained_link_told (fx : Fixes) (hfx : fx.focusEvents = true) : ∀ (fuel : Nat) (t : Tree) (x : Nat)
    (child : Option Nat) (r : Tree × List Event) (p c c' : Nat) (pw pw' : Win),
    focusGained fx fuel t x child = .ok r → t.wins[p]? = some pw → r.1.wins[p]? = some pw' →
    pw.focusChildNotify = true → pw.focusedChild = some c → pw'.focusedChild = some c' → c ≠ c' →
    (⟨p, .focusOut, c⟩ : Event) ∈ r.2 ∧ (⟨p, .focusIn, c'⟩ : Event) ∈ r.2 := by
  intro fuel
  induction fuel with
  | zero => intro t x child r p c c' pw pw' h; simp [focusGained] at h
  | succ n ih =>
    intro t x child r p c c' pw pw' h hpw hpw' hn hfc hfc' hne
    have hall := h
    simp only [focusGained, bind_ok] at h
    obtain ⟨r1, h1, r2, h2, r3, h3, h4⟩ := h
    obtain ⟨x4, hx4, _, _⟩ := gainSelfIn_events h4
    obtain ⟨x2, hx2, _⟩ := gainSelfOut_events h2
    have in1 : ∀ e : Event, e ∈ r1.2 → e ∈ r.2 := by
      intro e hm; rw [hx4, hx2]
      exact List.mem_append.mpr (.inl (List.mem_append.mpr (.inl (List.mem_append.mpr (.inl hm)))))
    have in3 : ∀ e : Event, e ∈ r3.2 → e ∈ r.2 := by
      intro e hm; rw [hx4]
      exact List.mem_append.mpr (.inl (List.mem_append.mpr (.inr hm)))
    have s12 : SameLK t r2.1 := sameLK_trans (gainLoseOld_lk h1) (gainSelfOut_lk h2)
    have n12 : SameNF t r2.1 := sameNF_trans (gainLoseOld_nf h1) (gainSelfOut_nf h2)
    -- the record of `p` before the climb
    obtain ⟨pw2, hpw2, hs2⟩ := sameLK_lookup s12 hpw
    have hfc2 : pw2.focusedChild = some c := by unfold lk at hs2; simp at hs2; exact hs2.2.2.2.1.trans hfc
    have hn2 : pw2.focusChildNotify = true := (lookup_nf n12.2 hpw hpw2).trans hn
    by_cases hpx : p = x
    · subst hpx
      -- this level: the final record carries `child`
      have hchild : child = some c' := by
        simp only [gainSelfIn, bind_ok] at h4
        obtain ⟨w4, hg4, h4⟩ := h4
        have hw4 := (get_ok.mp hg4).1
        split at h4
        · simp only [pure_ok] at h4; subst h4
          rw [set_lookup hw4] at hpw'; simp at hpw'; subst hpw'; simp at hfc'
        · next c0 =>
          simp only [pure_ok] at h4; subst h4
          rw [set_lookup hw4] at hpw'; simp at hpw'; subst hpw'; simp at hfc'; rw [hfc']
      subst hchild
      constructor
      · -- OUT for the old child, from the first block
        apply in1
        simp only [gainLoseOld, bind_ok] at h1
        obtain ⟨w1, hg1, h1⟩ := h1
        have := (get_ok.mp hg1).1; rw [hpw] at this; cases this
        simp only [hfc] at h1
        have hcond : (((some c').isSome || fx.focusEvents) && decide (some c ≠ some c')) = true := by
          simp [hne]
        rw [if_pos hcond] at h1
        simp only [bind_ok, pure_ok] at h1
        obtain ⟨r0, h0, w', hg', h1⟩ := h1
        have hnw' : w'.focusChildNotify = true :=
          (lookup_nf (focusLost_nf _ _ _ r0 h0).2 hpw (get_ok.mp hg').1).trans hn
        rw [← h1]; simp [hfx, hnw']
      · exact gained_level_in fx hall hpw hn
    · -- another level: the link of `p` can only have been moved by the climb above
      have hfinal : r.1.wins[p]? = r3.1.wins[p]? := by
        simp only [gainSelfIn, bind_ok] at h4
        obtain ⟨w4, hg4, h4⟩ := h4
        have hw4 := (get_ok.mp hg4).1
        split at h4
        · simp only [pure_ok] at h4; subst h4
          rw [set_lookup hw4, if_neg (fun h => hpx h.symm)]
        · simp only [pure_ok] at h4; subst h4
          rw [set_lookup hw4, if_neg (fun h => hpx h.symm)]
      rw [hfinal] at hpw'
      simp only [gainClimb, bind_ok] at h3
      obtain ⟨w3, hg3, h3⟩ := h3
      split at h3
      · split at h3
        · obtain ⟨a, b⟩ := ih _ _ _ _ p c c' pw2 pw' h3 hpw2 hpw' hn2 hfc2 hfc' hne
          exact ⟨in3 _ a, in3 _ b⟩
        · simp only [pure_ok] at h3; subst h3
          rw [hpw2] at hpw'; cases hpw'
          rw [hfc2] at hfc'; cases hfc'; exact absurd rfl hne
      · simp only [bind_ok, pure_ok] at h3
        obtain ⟨t', ht', h3⟩ := h3
        subst h3
        unfold requestRestoreOf at ht'
        simp only [bind_ok, pure_ok] at ht'
        obtain ⟨_, _, ht'⟩ := ht'
        subst ht'
        have : (requestRestore r2.1).wins[p]? = r2.1.wins[p]? := rfl
        rw [this, hpw2] at hpw'; cases hpw'
        rw [hfc2] at hfc'; cases hfc'; exact absurd rfl hne


/-! ### the branch that loses the focus: every window on it that asked is told OUT -/

/-- `FcChain t f q`: `q` is `f` or below it along `focused_child` links. -/
inductive FcChain (t : Tree) : Nat → Nat → Prop where
  | here (f : Nat) : FcChain t f f
  | down {f g q : Nat} {w : Win} : Live t f w → w.focusedChild = some g → FcChain t g q → FcChain t f q

theorem fcChain_lk {t t' : Tree} (h : SameLK t t') {f q : Nat} (hc : FcChain t f q) : FcChain t' f q := by
  induction hc with
  | here => exact .here _
  | @down f g q w hw hfc _ ih =>
    obtain ⟨w', hw', hs⟩ := sameLK_live h hw
    have : w'.focusedChild = w.focusedChild := by unfold lk at hs; simp at hs; exact hs.2.2.2.1
    exact .down hw' (this.trans hfc) ih

/-- `_focus_lost(f)` tells every window on the chain below `f` that asked for child notifications OUT for its
    focused child. -/
theorem focusLost_notifies : ∀ (fuel : Nat) (t : Tree) (f q d : Nat) (qw : Win) (r : Tree × List Event),
    focusLost fuel t f = .ok r → FcChain t f q → Live t q qw → qw.focusedChild = some d →
    qw.focusChildNotify = true → (⟨q, .focusOut, d⟩ : Event) ∈ r.2 := by
  intro fuel
  induction fuel with
  | zero => intro t f q d qw r h; simp [focusLost] at h
  | succ n ih =>
    intro t f q d qw r h hc hq hfc hn
    simp only [focusLost, bind_ok] at h
    obtain ⟨r1, h1, h2⟩ := h
    obtain ⟨x', hx', _⟩ := focusLostSelf_events h2
    have in1 : (⟨q, .focusOut, d⟩ : Event) ∈ r1.2 → (⟨q, .focusOut, d⟩ : Event) ∈ r.2 := by
      intro hm; rw [hx']; exact List.mem_append.mpr (.inl hm)
    apply in1
    simp only [focusLostChild, bind_ok] at h1
    obtain ⟨w, hg, h1⟩ := h1
    have hw := get_ok.mp hg
    cases hc with
    | here =>
      have := live_unique hw hq; subst this
      simp only [hfc, bind_ok, pure_ok] at h1
      obtain ⟨r0, h0, w', hg', h1⟩ := h1
      have hnw' : w'.focusChildNotify = true :=
        (lookup_nf (focusLost_nf _ _ _ r0 h0).2 hw.1 (get_ok.mp hg').1).trans hn
      rw [← h1]; simp [hnw']
    | down hw' hfc' hrest =>
      have := live_unique hw hw'; subst this
      simp only [hfc', bind_ok, pure_ok] at h1
      obtain ⟨r0, h0, w'', _, h1⟩ := h1
      rw [← h1]
      exact List.mem_append.mpr (.inl (ih _ _ _ _ qw r0 h0 hrest hq hfc hn))

/-- One level of `_focus_gained` at which the old branch `f` is dropped: the windows on it that asked are told. -/
theorem gained_level_branch_out (fx : Fixes) {fuel : Nat} {t : Tree} {x f q d : Nat} {child : Option Nat} {w qw : Win}
    {r : Tree × List Event} (h : focusGained fx fuel t x child = .ok r) (hw : Live t x w)
    (hfc : w.focusedChild = some f) (hcond : ((child.isSome || fx.focusEvents) && decide (some f ≠ child)) = true)
    (hc : FcChain t f q) (hq : Live t q qw) (hqfc : qw.focusedChild = some d) (hn : qw.focusChildNotify = true) :
    (⟨q, .focusOut, d⟩ : Event) ∈ r.2 := by
  cases fuel with
  | zero => simp [focusGained] at h
  | succ n =>
    simp only [focusGained, bind_ok] at h
    obtain ⟨r1, h1, r2, h2, r3, h3, h4⟩ := h
    obtain ⟨x4, hx4, _, _⟩ := gainSelfIn_events h4
    obtain ⟨x2, hx2, _⟩ := gainSelfOut_events h2
    rw [hx4, hx2]
    refine List.mem_append.mpr (.inl (List.mem_append.mpr (.inl (List.mem_append.mpr (.inl ?_)))))
    simp only [gainLoseOld, bind_ok] at h1
    obtain ⟨w1, hg1, h1⟩ := h1
    have := live_unique (get_ok.mp hg1) hw; subst this
    simp only [hfc] at h1
    rw [if_pos hcond] at h1
    simp only [bind_ok, pure_ok] at h1
    obtain ⟨r0, h0, w', _, h1⟩ := h1
    rw [← h1]
    exact List.mem_append.mpr (.inl (focusLost_notifies _ _ _ _ _ qw r0 h0 hc hq hqfc hn))

/-- The same at any level the climb reaches. -/
theorem gained_reach_branch_out (fx : Fixes) : ∀ (fuel : Nat) (t : Tree) (x : Nat) (child : Option Nat)
    (r : Tree × List Event) (p c f q d : Nat) (pw qw : Win), focusGained fx fuel t x child = .ok r →
    Reaches t x p c → Live t p pw → pw.focusedChild = some f → f ≠ c → FcChain t f q → Live t q qw →
    qw.focusedChild = some d → qw.focusChildNotify = true → (⟨q, .focusOut, d⟩ : Event) ∈ r.2 := by
  intro fuel
  induction fuel with
  | zero => intro t x child r p c f q d pw qw h; simp [focusGained] at h
  | succ n ih =>
    intro t x child r p c f q d pw qw h hre hp hpfc hfc hc hq hqfc hn
    simp only [focusGained, bind_ok] at h
    obtain ⟨r1, h1, r2, h2, r3, h3, h4⟩ := h
    obtain ⟨x4, hx4, _, _⟩ := gainSelfIn_events h4
    have in3 : (⟨q, .focusOut, d⟩ : Event) ∈ r3.2 → (⟨q, .focusOut, d⟩ : Event) ∈ r.2 := by
      intro hm; rw [hx4]
      exact List.mem_append.mpr (.inl (List.mem_append.mpr (.inr hm)))
    have s12 : SameLK t r2.1 := sameLK_trans (gainLoseOld_lk h1) (gainSelfOut_lk h2)
    have n12 : SameNF t r2.1 := sameNF_trans (gainLoseOld_nf h1) (gainSelfOut_nf h2)
    obtain ⟨pw2, hp2, hsp⟩ := sameLK_live s12 hp
    obtain ⟨qw2, hq2, hsq⟩ := sameLK_live s12 hq
    have hpfc2 : pw2.focusedChild = some f := by unfold lk at hsp; simp at hsp; exact hsp.2.2.2.1.trans hpfc
    have hqfc2 : qw2.focusedChild = some d := by unfold lk at hsq; simp at hsq; exact hsq.2.2.2.1.trans hqfc
    have hn2 : qw2.focusChildNotify = true := (lookup_nf n12.2 hq.1 hq2.1).trans hn
    have hrec : ∀ y (w : Win), t.wins[x]? = some w → w.freed = false → w.parent = some y → w.isVisible = true →
        focusGained fx n r2.1 y (some x) = .ok r3 := by
      intro y w hw hf hpar hv
      simp only [gainClimb, bind_ok] at h3
      obtain ⟨w3, hg3, h3⟩ := h3
      have := (sameLK_pv s12).2 x
      rw [hw, (get_ok.mp hg3).1] at this
      simp [pv] at this
      simp only [this.1.trans hpar, this.2.1.trans hv, if_true] at h3
      exact h3
    cases hre with
    | here hw hf hpar hv =>
      apply in3
      refine gained_level_branch_out fx (hrec _ _ hw hf hpar hv) hp2 hpfc2 ?_ (fcChain_lk s12 hc) hq2 hqfc2 hn2
      have : some f ≠ some x := fun h => hfc (by cases h; rfl)
      simp [this]
    | up hw hf hpar hv hrest =>
      exact in3 (ih _ _ _ _ _ _ f q d pw2 qw2 (hrec _ _ hw hf hpar hv) (reaches_pv (sameLK_pv s12).2 hrest)
        hp2 hpfc2 hfc (fcChain_lk s12 hc) hq2 hqfc2 hn2)

end WinFocus
end Tickit
