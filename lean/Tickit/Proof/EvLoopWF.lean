import Tickit.Proof.EvLoopPoll
/-
  Well-formedness of the five watch lists (C17): `WF st` — every list holds distinct, live watches of the
  list's type (so the lists are disjoint).  It holds in every reachable state whose status is ok when the
  timer loop is the repaired one (`timersPop`; the loop as shipped keeps freed timers in `t->timers` while
  callbacks run).  `G4`: heap extended without touching liveness / type of old watches, lists and cfg
  untouched.  `LStep st st' := timersPop → WF st → (WF st' ∧ only fresh addresses enter any list ∧ cfg kept)`.
  Families `g4_*` / `l_*` mirror `grow_*` / `pres_*`.  Results: `wf_runOps`, `destroy_log`.
-/
namespace Tickit.EvLoop

structure WF (st : St) : Prop where
  nodup : ∀ t, (listOf st t).Nodup
  live : ∀ t, ∀ a ∈ listOf st t, st.live a = true
  typ : ∀ t, ∀ a ∈ listOf st t, (st.getW a).type = t

structure H4 (st st' : St) : Prop where
  len : st.heap.length ≤ st'.heap.length
  same : ∀ x, x < st.heap.length → st'.live x = st.live x ∧ (st'.getW x).type = (st.getW x).type

theorem H4.refl (st : St) : H4 st st := ⟨Nat.le_refl _, fun _ _ => ⟨rfl, rfl⟩⟩
theorem H4.trans {a b c : St} (h1 : H4 a b) (h2 : H4 b c) : H4 a c :=
  ⟨Nat.le_trans h1.len h2.len, fun x hx => by
    have hx' := Nat.lt_of_lt_of_le hx h1.len
    exact ⟨(h2.same x hx').1.trans (h1.same x hx).1, (h2.same x hx').2.trans (h1.same x hx).2⟩⟩
theorem H4.of_heap_eq {st st' : St} (h : st'.heap = st.heap) : H4 st st' :=
  ⟨by rw [h]; exact Nat.le_refl _, fun x _ => by rw [getW_of_heap_eq h, live_of_heap_eq h]; exact ⟨rfl, rfl⟩⟩

structure G4 (st st' : St) : Prop where
  ext : H4 st st'
  lists : ∀ t, listOf st' t = listOf st t
  cfg : st'.cfg = st.cfg

theorem G4.refl (st : St) : G4 st st := ⟨H4.refl st, fun _ => rfl, rfl⟩
theorem G4.trans {a b c : St} (h1 : G4 a b) (h2 : G4 b c) : G4 a c :=
  ⟨h1.ext.trans h2.ext, fun t => by rw [h2.lists, h1.lists], by rw [h2.cfg, h1.cfg]⟩
theorem G4.of_eq {st st' : St} (hh : st'.heap = st.heap) (h1 : st'.iow = st.iow) (h2 : st'.timers = st.timers)
    (h3 : st'.laters = st.laters) (h4 : st'.signals = st.signals) (h5 : st'.procs = st.procs) (hc : st'.cfg = st.cfg) : G4 st st' :=
  ⟨H4.of_heap_eq hh, fun t => by cases t <;> simp only [listOf] <;> assumption, hc⟩

structure LFacts (st st' : St) : Prop where
  wf : WF st'
  len : st.heap.length ≤ st'.heap.length
  fresh : ∀ t x, x ∈ listOf st' t → x ∈ listOf st t ∨ st.heap.length ≤ x
  cfg : st'.cfg = st.cfg

def LStep (st st' : St) : Prop := st.cfg.timersPop = true → WF st → LFacts st st'

theorem LStep.refl (st : St) : LStep st st := fun _ w => ⟨w, Nat.le_refl _, fun _ _ h => Or.inl h, rfl⟩
theorem LStep.trans {a b c : St} (h1 : LStep a b) (h2 : LStep b c) : LStep a c := by
  intro hc w
  have f1 := h1 hc w
  have f2 := h2 (by rw [f1.cfg]; exact hc) f1.wf
  refine ⟨f2.wf, Nat.le_trans f1.len f2.len, ?_, f2.cfg.trans f1.cfg⟩
  intro t x hx
  cases f2.fresh t x hx with
  | inl h => exact f1.fresh t x h
  | inr h => exact Or.inr (Nat.le_trans f1.len h)

theorem WF.alloc {st : St} (w : WF st) {t : WType} {a : Nat} (h : a ∈ listOf st t) : a < st.heap.length :=
  St.live_lt (w.live t a h)

theorem G4.lstep {st st' : St} (g : G4 st st') : LStep st st' := by
  intro _ w
  refine ⟨⟨fun t => by rw [g.lists]; exact w.nodup t, ?_, ?_⟩, g.ext.len, fun t x hx => Or.inl (by rw [g.lists] at hx; exact hx), g.cfg⟩
  · intro t a ha; rw [g.lists] at ha; rw [(g.ext.same a (w.alloc ha)).1]; exact w.live t a ha
  · intro t a ha; rw [g.lists] at ha; rw [(g.ext.same a (w.alloc ha)).2]; exact w.typ t a ha

/-! primitives -/
theorem g4_emit (st : St) (e : Ev) : G4 st (st.emit e) := G4.of_eq rfl rfl rfl rfl rfl rfl rfl
theorem g4_fail (st : St) (w : Ub) : G4 st (st.fail w) := by
  unfold St.fail; split
  · exact G4.of_eq rfl rfl rfl rfl rfl rfl rfl
  · exact G4.refl _
theorem g4_alloc (st : St) (w : Watch) : G4 st (st.alloc w).1 :=
  ⟨⟨by rw [alloc_len]; omega, fun x hx => by rw [getW_alloc_old st w x hx, live_alloc_old st w x hx]; exact ⟨rfl, rfl⟩⟩,
   fun t => by cases t <;> rfl, rfl⟩
theorem g4_setW (st : St) (a : Nat) (w : Watch) (h1 : w.freed = (st.getW a).freed) (h2 : w.type = (st.getW a).type) :
    G4 st (st.setW a w) := by
  refine ⟨⟨by rw [St.length_setW]; exact Nat.le_refl _, ?_⟩, fun t => by cases t <;> rfl, rfl⟩
  intro x hx
  by_cases hax : a = x
  · subst hax
    have hx' : a < (st.setW a w).heap.length := by rw [St.length_setW]; exact hx
    rw [live_eq_not_freed _ _ hx', live_eq_not_freed _ _ hx, St.getW_setW_self st a w hx, h1]
    exact ⟨rfl, h2⟩
  · rw [St.getW_setW_ne st a x w hax, St.live_setW_ne _ _ _ _ hax]; exact ⟨rfl, rfl⟩
theorem g4_setEvi (st : St) (a idx : Nat) : G4 st (st.setW a { st.getW a with evi := idx }) := g4_setW st a _ rfl rfl
theorem g4_setWstatus (st : St) (a : Nat) (ws : Int) : G4 st (st.setW a { st.getW a with wstatus := ws }) := g4_setW st a _ rfl rfl

/-- Freeing a watch that is in none of the lists. -/
theorem lstep_free_unlisted (st : St) (a : Nat) (h : ∀ t, a ∉ listOf st t) : LStep st (st.free a) := by
  intro _ w
  have hl : ∀ t, listOf (st.free a) t = listOf st t := fun t => lists_free st a t
  refine ⟨⟨fun t => by rw [hl]; exact w.nodup t, ?_, ?_⟩, ?_, fun t x hx => Or.inl (by rw [hl] at hx; exact hx), ?_⟩
  · intro t b hb; rw [hl] at hb
    have : a ≠ b := fun e => h t (e ▸ hb)
    rw [St.live_free_ne _ _ _ this]; exact w.live t b hb
  · intro t b hb; rw [hl] at hb
    have : a ≠ b := fun e => h t (e ▸ hb)
    rw [St.getW_free_ne _ _ _ this]; exact w.typ t b hb
  · exact (grow_free st a).ext.len
  · unfold St.free; split
    · rfl
    · exact St.cfg_fail _ _

/-- A live watch that is in none of the lists is still in none after any `LStep` (only fresh ones enter). -/
theorem unlisted_after {s0 s1 : St} (f : LFacts s0 s1) {a : Nat} (ha : a < s0.heap.length) (h : ∀ t, a ∉ listOf s0 t) :
    ∀ t, a ∉ listOf s1 t := by
  intro t hin
  cases f.fresh t a hin with
  | inl h' => exact h t h'
  | inr h' => omega

/-- Removing `a` from its own list leaves it in none (distinctness, and the other lists hold other types). -/
theorem unlisted_erase {st : St} (w : WF st) {a : Nat} {t0 : WType} (ha : a ∈ listOf st t0) :
    ∀ t, a ∉ (if t = t0 then (listOf st t0).erase a else listOf st t) := by
  intro t
  split
  · intro h; exact ((List.Nodup.mem_erase_iff (w.nodup t0)).mp h).1 rfl
  · rename_i hne
    intro h
    have h1 := w.typ t a h
    have h2 := w.typ t0 a ha
    exact hne (h1.symm.trans h2)

theorem nodup_insert_cases {l l' : List Nat} {a : Nat} (hl : l' = a :: l ∨ l' = l ++ [a] ∨ l' = l) (hn : l.Nodup) (ha : a ∉ l) :
    l'.Nodup ∧ ∀ x ∈ l', x = a ∨ x ∈ l := by
  rcases hl with h | h | h <;> subst h
  · exact ⟨List.nodup_cons.mpr ⟨ha, hn⟩, fun x hx => by simpa using hx⟩
  · refine ⟨?_, fun x hx => by simp only [List.mem_append, List.mem_singleton] at hx; exact hx.symm⟩
    rw [List.nodup_append]
    exact ⟨hn, by simp, fun x hx y hy => by simp only [List.mem_singleton] at hy; subst hy; intro e; subst e; exact ha hx⟩
  · exact ⟨hn, fun x hx => Or.inr hx⟩

/-- The end state of a constructor: the heap extended by the new watch `a` (live, of type `t0`), list `t0`
    gained at most `a`, the other lists untouched. -/
theorem lfacts_register (st sF : St) (t0 : WType) (hext : H4 st sF) (hlen : st.heap.length < sF.heap.length)
    (hlive : sF.live st.heap.length = true) (htyp : (sF.getW st.heap.length).type = t0)
    (hnd : (listOf sF t0).Nodup) (hmem : ∀ x ∈ listOf sF t0, x = st.heap.length ∨ x ∈ listOf st t0)
    (hoth : ∀ t, t ≠ t0 → listOf sF t = listOf st t) (hcfg : sF.cfg = st.cfg) (w : WF st) : LFacts st sF := by
  refine ⟨⟨?_, ?_, ?_⟩, Nat.le_of_lt hlen, ?_, hcfg⟩
  · intro t
    by_cases h : t = t0
    · subst h; exact hnd
    · rw [hoth t h]; exact w.nodup t
  · intro t b hb
    by_cases h : t = t0
    · subst h
      cases hmem b hb with
      | inl e => subst e; exact hlive
      | inr e => rw [(hext.same b (w.alloc e)).1]; exact w.live t b e
    · rw [hoth t h] at hb; rw [(hext.same b (w.alloc hb)).1]; exact w.live t b hb
  · intro t b hb
    by_cases h : t = t0
    · subst h
      cases hmem b hb with
      | inl e => subst e; exact htyp
      | inr e => rw [(hext.same b (w.alloc e)).2]; exact w.typ t b e
    · rw [hoth t h] at hb; rw [(hext.same b (w.alloc hb)).2]; exact w.typ t b hb
  · intro t x hx
    by_cases h : t = t0
    · subst h
      cases hmem x hx with
      | inl e => exact Or.inr (Nat.le_of_eq e.symm)
      | inr e => exact Or.inl e
    · rw [hoth t h] at hx; exact Or.inl hx

theorem g4_raiseSig (st : St) (s : Int) : G4 st (raiseSig st s) := by
  unfold raiseSig
  split
  · exact G4.refl st
  · split
    · exact G4.of_eq rfl rfl rfl rfl rfl rfl rfl
    · split
      · unfold sigRecord; split <;> first | exact G4.of_eq rfl rfl rfl rfl rfl rfl rfl | exact G4.refl _
      · split
        · exact G4.of_eq rfl rfl rfl rfl rfl rfl rfl
        · exact G4.refl st


theorem g4_evloopIo (st : St) (fd : Int) (cond : Nat) (w : Nat) : G4 st (evloopIo st fd cond w).1 := by
  unfold evloopIo
  split <;> exact G4.of_eq rfl rfl rfl rfl rfl rfl rfl


theorem g4_evloopCancelIo (st : St) (idx : Nat) : G4 st (evloopCancelIo st idx) := G4.of_eq rfl rfl rfl rfl rfl rfl rfl


theorem g4_evloopSignal (st : St) (s : Int) : G4 st (evloopSignal st s).1 := by
  unfold evloopSignal
  simp only []
  split <;> exact G4.of_eq rfl rfl rfl rfl rfl rfl rfl


theorem g4_evloopCancelSignal (st : St) (idx : Nat) : G4 st (evloopCancelSignal st idx) := by
  unfold evloopCancelSignal
  simp only []
  split
  · exact G4.of_eq rfl rfl rfl rfl rfl rfl rfl
  · split
    · split <;> exact G4.of_eq rfl rfl rfl rfl rfl rfl rfl
    · exact G4.of_eq rfl rfl rfl rfl rfl rfl rfl


theorem g4_insertWatch (st : St) (l : List Nat) (flags new : Nat) : G4 st (insertWatch st l flags new).1 := by
  unfold insertWatch
  split
  · exact G4.refl st
  · split
    · exact G4.refl st
    · exact g4_fail st _


theorem g4_notify (st : St) (a flags : Nat) : G4 st (notify st a flags) := by
  unfold notify
  simp only []
  split
  · exact g4_emit st _
  · exact G4.refl st


theorem g4_watchSignalPre (st : St) (signum : Int) (flags : Nat) (slot : Int) :
    G4 st (watchSignalPre st signum flags slot) := by
  unfold watchSignalPre
  exact ((g4_alloc st _).trans (g4_evloopSignal _ _)).trans (g4_setEvi _ _ _)


theorem g4_waitpid (st : St) (pid : Int) : G4 st (waitpid st pid).st := by
  unfold waitpid
  split
  · split
    · exact G4.of_eq rfl rfl rfl rfl rfl rfl rfl
    · split <;> exact G4.of_eq rfl rfl rfl rfl rfl rfl rfl
  · exact G4.refl st


theorem g4_cancelHook (st : St) (t : WType) (evi : Nat) : G4 st (cancelHook st t evi) := by
  unfold cancelHook
  split
  · exact g4_evloopCancelIo _ _
  · exact g4_evloopCancelSignal _ _
  · exact G4.refl _


theorem g4_cancelNotify (st : St) (a : Nat) (w : Watch) : G4 st (cancelNotify st a w) := by
  unfold cancelNotify
  split
  · exact g4_notify _ _ _
  · exact G4.refl _


theorem g4_cancelRest (st : St) (rest : List Nat) : G4 st (cancelRest st rest) := by
  unfold cancelRest
  split
  · exact G4.refl _
  · split
    · exact g4_fail _ _
    · exact G4.refl _



/-! ### constructors -/

theorem live_alloc_new (st : St) (w : Watch) (h : w.freed = false) : (st.alloc w).1.live st.heap.length = true := by
  simp only [St.live, St.alloc]
  rw [List.getElem?_append_right (Nat.le_refl _)]
  simp [h]

/-- Linking an allocated, live, so far unlisted watch `a` of type `t0` into list `t0`. -/
theorem lfacts_link' (st sB sF : St) (a : Nat) (t0 : WType) (f : LFacts st sB) (ha0 : st.heap.length ≤ a)
    (halive : sB.live a = true) (hatyp : (sB.getW a).type = t0) (haun : ∀ t, a ∉ listOf sB t)
    (hext : H4 sB sF) (hnd : (listOf sF t0).Nodup) (hmem : ∀ x ∈ listOf sF t0, x = a ∨ x ∈ listOf sB t0)
    (hoth : ∀ t, t ≠ t0 → listOf sF t = listOf sB t) (hcfg : sF.cfg = sB.cfg) : LFacts st sF := by
  have w := f.wf
  have halt := St.live_lt halive
  refine ⟨⟨?_, ?_, ?_⟩, Nat.le_trans f.len hext.len, ?_, hcfg.trans f.cfg⟩
  · intro t
    by_cases h : t = t0
    · subst h; exact hnd
    · rw [hoth t h]; exact w.nodup t
  · intro t b hb
    by_cases h : t = t0
    · subst h
      cases hmem b hb with
      | inl e => subst e; rw [(hext.same b halt).1]; exact halive
      | inr e => rw [(hext.same b (w.alloc e)).1]; exact w.live t b e
    · rw [hoth t h] at hb; rw [(hext.same b (w.alloc hb)).1]; exact w.live t b hb
  · intro t b hb
    by_cases h : t = t0
    · subst h
      cases hmem b hb with
      | inl e => subst e; rw [(hext.same b halt).2]; exact hatyp
      | inr e => rw [(hext.same b (w.alloc e)).2]; exact w.typ t b e
    · rw [hoth t h] at hb; rw [(hext.same b (w.alloc hb)).2]; exact w.typ t b hb
  · intro t x hx
    by_cases h : t = t0
    · subst h
      cases hmem x hx with
      | inl e => subst e; exact Or.inr ha0
      | inr e => exact f.fresh t x e
    · rw [hoth t h] at hx; exact f.fresh t x hx

theorem lfacts_link (st sB sF : St) (a : Nat) (t0 : WType) (f : LFacts st sB) (ha0 : st.heap.length ≤ a)
    (halive : sB.live a = true) (hatyp : (sB.getW a).type = t0) (haun : ∀ t, a ∉ listOf sB t)
    (hext : H4 sB sF) (hl : listOf sF t0 = a :: listOf sB t0 ∨ listOf sF t0 = listOf sB t0 ++ [a] ∨ listOf sF t0 = listOf sB t0)
    (hoth : ∀ t, t ≠ t0 → listOf sF t = listOf sB t) (hcfg : sF.cfg = sB.cfg) : LFacts st sF := by
  obtain ⟨hnd, hmem⟩ := nodup_insert_cases hl (f.wf.nodup t0) (haun t0)
  exact lfacts_link' st sB sF a t0 f ha0 halive hatyp haun hext hnd hmem hoth hcfg

/-- A freshly allocated address is in none of the lists of a well-formed state. -/
theorem new_unlisted {st : St} (w : WF st) : ∀ t, st.heap.length ∉ listOf st t :=
  fun t h => Nat.lt_irrefl _ (w.alloc h)

theorem lstep_watchLater (st : St) (flags : Nat) (slot : Int) (puser : Nat) : LStep st (watchLater st flags slot puser).1 := by
  intro hc w
  unfold watchLater
  have gA := g4_alloc st { type := .later, flags := flags &&& (BIND_UNBIND ||| BIND_DESTROY), slot := slot, puser := puser }
  have hlv := live_alloc_new st { type := .later, flags := flags &&& (BIND_UNBIND ||| BIND_DESTROY), slot := slot, puser := puser } rfl
  have hgw := getW_alloc_new st { type := .later, flags := flags &&& (BIND_UNBIND ||| BIND_DESTROY), slot := slot, puser := puser }
  generalize (st.alloc { type := .later, flags := flags &&& (BIND_UNBIND ||| BIND_DESTROY), slot := slot, puser := puser }).1 = s1 at *
  have fA := gA.lstep hc w
  have gI := g4_insertWatch s1 s1.laters flags st.heap.length
  have hl := snd_insertWatch s1 s1.laters flags st.heap.length
  apply lfacts_link st s1 _ st.heap.length .later fA (Nat.le_refl _) hlv (by rw [hgw])
  · intro t h; rw [gA.lists] at h; exact new_unlisted w t h
  · exact gI.ext.trans (H4.of_heap_eq rfl)
  · exact hl
  · intro t ht
    have := gI.lists t
    cases t <;> first | exact this | exact absurd rfl ht
  · exact gI.cfg

theorem lstep_watchIo (st : St) (fd : Int) (cond flags : Nat) (slot : Int) : LStep st (watchIo st fd cond flags slot).1 := by
  intro hc w
  unfold watchIo
  simp only []
  have gA := g4_alloc st { type := .io, flags := flags &&& st.cfg.ioFlagMask, slot := slot, fd := fd, cond := cond }
  have hlv := live_alloc_new st { type := .io, flags := flags &&& st.cfg.ioFlagMask, slot := slot, fd := fd, cond := cond } rfl
  have hgw := getW_alloc_new st { type := .io, flags := flags &&& st.cfg.ioFlagMask, slot := slot, fd := fd, cond := cond }
  generalize (st.alloc { type := .io, flags := flags &&& st.cfg.ioFlagMask, slot := slot, fd := fd, cond := cond }).1 = s1 at *
  have gB := (g4_evloopIo s1 fd cond st.heap.length).trans (g4_setEvi _ st.heap.length (evloopIo s1 fd cond st.heap.length).2)
  have hlt : st.heap.length < s1.heap.length := St.live_lt hlv
  generalize (evloopIo s1 fd cond st.heap.length).1.setW st.heap.length
    { (evloopIo s1 fd cond st.heap.length).1.getW st.heap.length with evi := (evloopIo s1 fd cond st.heap.length).2 } = s2 at *
  have fB := (gA.trans gB).lstep hc w
  have gI := g4_insertWatch s2 s2.iow flags st.heap.length
  have hl := snd_insertWatch s2 s2.iow flags st.heap.length
  apply lfacts_link st s2 _ st.heap.length .io fB (Nat.le_refl _)
  · rw [(gB.ext.same _ hlt).1]; exact hlv
  · rw [(gB.ext.same _ hlt).2, hgw]
  · intro t h; rw [gB.lists, gA.lists] at h; exact new_unlisted w t h
  · exact gI.ext.trans (H4.of_heap_eq rfl)
  · exact hl
  · intro t ht
    have := gI.lists t
    cases t <;> first | exact this | exact absurd rfl ht
  · exact gI.cfg

theorem lstep_watchSignal (st : St) (signum : Int) (flags : Nat) (slot : Int) : LStep st (watchSignal st signum flags slot).1 := by
  intro hc w
  unfold watchSignal
  have gB := g4_watchSignalPre st signum flags slot
  obtain ⟨idx, hlen, hold, hnsig, hnevi, hsgl, _⟩ := watchSignalPre_facts st signum flags slot
  have hlvtyp : (watchSignalPre st signum flags slot).live st.heap.length = true ∧
      ((watchSignalPre st signum flags slot).getW st.heap.length).type = .signal := by
    unfold watchSignalPre
    have hlv := live_alloc_new st { type := .signal, flags := flags &&& (BIND_UNBIND ||| BIND_DESTROY), slot := slot, signum := signum } rfl
    have hgw := getW_alloc_new st { type := .signal, flags := flags &&& (BIND_UNBIND ||| BIND_DESTROY), slot := slot, signum := signum }
    have g := (g4_evloopSignal (st.alloc { type := .signal, flags := flags &&& (BIND_UNBIND ||| BIND_DESTROY), slot := slot, signum := signum }).1 signum).trans
      (g4_setEvi _ st.heap.length (evloopSignal (st.alloc { type := .signal, flags := flags &&& (BIND_UNBIND ||| BIND_DESTROY), slot := slot, signum := signum }).1 signum).2)
    have hlt := St.live_lt hlv
    exact ⟨by rw [(g.ext.same _ hlt).1]; exact hlv, by rw [(g.ext.same _ hlt).2, hgw]⟩
  generalize watchSignalPre st signum flags slot = s2 at *
  have fB := gB.lstep hc w
  have gI := g4_insertWatch s2 s2.signals flags st.heap.length
  have hl := snd_insertWatch s2 s2.signals flags st.heap.length
  apply lfacts_link st s2 _ st.heap.length .signal fB (Nat.le_refl _) hlvtyp.1 hlvtyp.2
  · intro t h; rw [gB.lists] at h; exact new_unlisted w t h
  · exact gI.ext.trans (H4.of_heap_eq rfl)
  · exact hl
  · intro t ht
    have := gI.lists t
    cases t <;> first | exact this | exact absurd rfl ht
  · exact gI.cfg

theorem nodup_insTimer (st : St) (new : Nat) (due : TV) (l l' : List Nat) (h : insTimer st new due l = some l')
    (hn : l.Nodup) (ha : new ∉ l) : l'.Nodup := by
  obtain ⟨pre, post, h1, h2, _, _⟩ := insTimer_spec st new due l l' h
  subst h1 h2
  rw [List.nodup_append] at hn ⊢
  refine ⟨hn.1, List.nodup_cons.mpr ⟨fun hh => ha (List.mem_append_right _ hh), hn.2.1⟩, ?_⟩
  intro x hx y hy
  simp only [List.mem_cons] at hy
  cases hy with
  | inl e => subst e; intro e2; subst e2; exact ha (List.mem_append_left _ hx)
  | inr e => exact hn.2.2 x hx y e

theorem lstep_watchTimerAt (st : St) (due : TV) (flags : Nat) (slot : Int) : LStep st (watchTimerAt st due flags slot).1 := by
  intro hc w
  unfold watchTimerAt
  simp only []
  have gA := g4_alloc st { type := .timer, flags := flags &&& (BIND_UNBIND ||| BIND_DESTROY), slot := slot, due := due }
  have hlv := live_alloc_new st { type := .timer, flags := flags &&& (BIND_UNBIND ||| BIND_DESTROY), slot := slot, due := due } rfl
  have hgw := getW_alloc_new st { type := .timer, flags := flags &&& (BIND_UNBIND ||| BIND_DESTROY), slot := slot, due := due }
  generalize (st.alloc { type := .timer, flags := flags &&& (BIND_UNBIND ||| BIND_DESTROY), slot := slot, due := due }).1 = s1 at *
  have fA := gA.lstep hc w
  have hun : ∀ t, st.heap.length ∉ listOf s1 t := fun t h => by rw [gA.lists] at h; exact new_unlisted w t h
  split
  · rename_i l hl
    have w1 := fA.wf
    have hnd := nodup_insTimer s1 _ due _ l hl (w1.nodup .timer) (hun .timer)
    have hmem := insTimer_mem s1 _ due _ l hl
    apply lfacts_link' st s1 { s1 with timers := l } st.heap.length .timer fA (Nat.le_refl _) hlv (by rw [hgw]) hun (H4.of_heap_eq rfl)
    · exact hnd
    · intro x hx; exact (hmem x).mp hx
    · intro t ht; cases t <;> first | rfl | exact absurd rfl ht
    · rfl
  · exact (gA.trans (g4_fail _ _)).lstep hc w

theorem l_watchTimerAt (st : St) (due : TV) (flags : Nat) (slot : Int) : LStep st (watchTimerAt st due flags slot).1 :=
  lstep_watchTimerAt st due flags slot

theorem l_watchTimerAfterMsec (st : St) (msec : Int) (flags : Nat) (slot : Int) : LStep st (watchTimerAfterMsec st msec flags slot).1 := by
  unfold watchTimerAfterMsec
  exact (g4_emit st _).lstep.trans (lstep_watchTimerAt _ _ _ _)

theorem lstep_ensureSigchld (st : St) : LStep st (ensureSigchld st) := by
  unfold ensureSigchld
  split
  · exact LStep.refl _
  · exact (lstep_watchSignal st SIGCHLD 0 (-3)).trans
      (G4.of_eq rfl rfl rfl rfl rfl rfl rfl : G4 (watchSignal st SIGCHLD 0 (-3)).1
        { (watchSignal st SIGCHLD 0 (-3)).1 with sigchldwatch := some (watchSignal st SIGCHLD 0 (-3)).2 }).lstep

theorem lstep_watchProcess (st : St) (pid : Int) (flags : Nat) (slot : Int) : LStep st (watchProcess st pid flags slot).1 := by
  intro hc w
  unfold watchProcess
  have gA := g4_alloc st { type := .process, flags := flags &&& (BIND_UNBIND ||| BIND_DESTROY), slot := slot, pid := pid }
  have hlv := live_alloc_new st { type := .process, flags := flags &&& (BIND_UNBIND ||| BIND_DESTROY), slot := slot, pid := pid } rfl
  have hgw := getW_alloc_new st { type := .process, flags := flags &&& (BIND_UNBIND ||| BIND_DESTROY), slot := slot, pid := pid }
  generalize (st.alloc { type := .process, flags := flags &&& (BIND_UNBIND ||| BIND_DESTROY), slot := slot, pid := pid }).1 = s1 at *
  have fA := gA.lstep hc w
  have hun1 : ∀ t, st.heap.length ∉ listOf s1 t := fun t h => by rw [gA.lists] at h; exact new_unlisted w t h
  have halt1 := St.live_lt hlv
  -- ensureSigchld
  have fB' := lstep_ensureSigchld s1 (by rw [fA.cfg]; exact hc) fA.wf
  have fB : LFacts st (ensureSigchld s1) := (LStep.trans (fun _ _ => fA) (lstep_ensureSigchld s1)) hc w
  have hunB : ∀ t, st.heap.length ∉ listOf (ensureSigchld s1) t := unlisted_after fB' halt1 hun1
  have hkeep : (ensureSigchld s1).live st.heap.length = true ∧ ((ensureSigchld s1).getW st.heap.length).type = .process := by
    unfold ensureSigchld
    split
    · exact ⟨hlv, by rw [hgw]⟩
    · -- watchSignal only extends the heap above the old addresses
      have g2 := (step_watchSignal s1 SIGCHLD 0 (-3))
      have hh : H4 s1 (watchSignal s1 SIGCHLD 0 (-3)).1 := by
        unfold watchSignal
        exact ((g4_watchSignalPre s1 SIGCHLD 0 (-3)).trans (g4_insertWatch _ _ _ _)).ext.trans (H4.of_heap_eq rfl)
      exact ⟨by show (watchSignal s1 SIGCHLD 0 (-3)).1.live _ = _; rw [(hh.same _ halt1).1]; exact hlv,
             by show ((watchSignal s1 SIGCHLD 0 (-3)).1.getW _).type = _; rw [(hh.same _ halt1).2, hgw]⟩
  generalize ensureSigchld s1 = sB at *
  have haltB := St.live_lt hkeep.1
  unfold linkProcess
  simp only []
  have gW := g4_waitpid sB pid
  split
  · -- pre-exited: a `later` is registered; as shipped the watch stays unlisted, repaired it is linked
    have gS := gW.trans (g4_setWstatus (waitpid sB pid).st st.heap.length (waitpid sB pid).wstatus)
    have fS : LFacts st _ := (LStep.trans (fun _ _ => fB) gS.lstep) hc w
    split
    · generalize ((waitpid sB pid).st.setW st.heap.length { (waitpid sB pid).st.getW st.heap.length with wstatus := (waitpid sB pid).wstatus }) = sS at *
      have haltS : st.heap.length < sS.heap.length := Nat.lt_of_lt_of_le haltB gS.ext.len
      have hliveS : sS.live st.heap.length = true := by rw [(gS.ext.same _ haltB).1]; exact hkeep.1
      have htypS : (sS.getW st.heap.length).type = .process := by rw [(gS.ext.same _ haltB).2]; exact hkeep.2
      have hunS : ∀ t, st.heap.length ∉ listOf sS t := fun t h => by rw [gS.lists] at h; exact hunB t h
      have fL' := lstep_watchLater sS 0 (-4) st.heap.length (by rw [fS.cfg]; exact hc) fS.wf
      have fL : LFacts st (watchLater sS 0 (-4) st.heap.length).1 := (LStep.trans (fun _ _ => fS) (lstep_watchLater sS 0 (-4) st.heap.length)) hc w
      have hunL := unlisted_after fL' haltS hunS
      have hH : H4 sS (watchLater sS 0 (-4) st.heap.length).1 := by
        unfold watchLater
        exact ((g4_alloc sS _).trans (g4_insertWatch _ _ _ _)).ext.trans (H4.of_heap_eq rfl)
      generalize hsl : watchLater sS 0 (-4) st.heap.length = rL at *
      unfold linkNotified
      have gN : G4 rL.1 (setNotify rL.1 st.heap.length (some rL.2)) := by
        unfold setNotify; exact g4_setW _ _ _ rfl rfl
      have fN : LFacts st (setNotify rL.1 st.heap.length (some rL.2)) := (LStep.trans (fun _ _ => fL) gN.lstep) hc w
      have haltL : st.heap.length < rL.1.heap.length := Nat.lt_of_lt_of_le haltS hH.len
      have gI := g4_insertWatch (setNotify rL.1 st.heap.length (some rL.2)) (setNotify rL.1 st.heap.length (some rL.2)).procs flags st.heap.length
      have hl := snd_insertWatch (setNotify rL.1 st.heap.length (some rL.2)) (setNotify rL.1 st.heap.length (some rL.2)).procs flags st.heap.length
      apply lfacts_link st (setNotify rL.1 st.heap.length (some rL.2)) _ st.heap.length .process fN (Nat.le_refl _)
      · rw [(gN.ext.same _ haltL).1, (hH.same _ haltS).1]; exact hliveS
      · rw [(gN.ext.same _ haltL).2, (hH.same _ haltS).2]; exact htypS
      · intro t h; rw [gN.lists] at h; exact hunL t h
      · exact gI.ext.trans (H4.of_heap_eq rfl)
      · exact hl
      · intro t ht
        have := gI.lists t
        cases t <;> first | exact this | exact absurd rfl ht
      · exact gI.cfg
    · exact (LStep.trans (fun _ _ => fS) (lstep_watchLater _ 0 (-4) st.heap.length)) hc w
  · have gI := g4_insertWatch (waitpid sB pid).st (waitpid sB pid).st.procs flags st.heap.length
    have hl := snd_insertWatch (waitpid sB pid).st (waitpid sB pid).st.procs flags st.heap.length
    have fW : LFacts st (waitpid sB pid).st := (LStep.trans (fun _ _ => fB) gW.lstep) hc w
    apply lfacts_link st (waitpid sB pid).st _ st.heap.length .process fW (Nat.le_refl _)
    · rw [(gW.ext.same _ haltB).1]; exact hkeep.1
    · rw [(gW.ext.same _ haltB).2]; exact hkeep.2
    · intro t h; rw [gW.lists] at h; exact hunB t h
    · exact gI.ext.trans (H4.of_heap_eq rfl)
    · exact hl
    · intro t ht
      have := gI.lists t
      cases t <;> first | exact this | exact absurd rfl ht
    · exact gI.cfg


/-! ### removal: cancel, one-shot unlink, the loops that free what they invoked -/

theorem listOf_setListOf_all (st : St) (t0 : WType) (l : List Nat) (h0 : t0 ≠ .none) (t : WType) :
    listOf (setListOf st t0 l) t = if t = t0 then l else listOf st t := by
  cases t0 <;> cases t <;> first | rfl | exact absurd rfl h0

theorem heap_setListOf (st : St) (t : WType) (l : List Nat) : (setListOf st t l).heap = st.heap := by cases t <;> rfl
theorem cfg_setListOf (st : St) (t : WType) (l : List Nat) : (setListOf st t l).cfg = st.cfg := by cases t <;> rfl

/-- Unlinking `a` from its list: still well-formed, and `a` is in no list. -/
theorem lfacts_erase (st : St) (a : Nat) (t0 : WType) (w : WF st) (ha : a ∈ listOf st t0) :
    LFacts st (setListOf st t0 ((listOf st t0).erase a)) ∧ ∀ t, a ∉ listOf (setListOf st t0 ((listOf st t0).erase a)) t := by
  have h0 : t0 ≠ .none := by intro h; subst h; cases ha
  have hl := listOf_setListOf_all st t0 ((listOf st t0).erase a) h0
  have hsub : ∀ t, (listOf (setListOf st t0 ((listOf st t0).erase a)) t).Sublist (listOf st t) := by
    intro t; rw [hl]; split
    · rename_i h; subst h; exact List.erase_sublist
    · exact List.Sublist.refl _
  have hh := heap_setListOf st t0 ((listOf st t0).erase a)
  refine ⟨⟨⟨fun t => (w.nodup t).sublist (hsub t), ?_, ?_⟩, by rw [hh]; exact Nat.le_refl _, fun t x hx => Or.inl ((hsub t).subset hx),
    cfg_setListOf _ _ _⟩, ?_⟩
  · intro t b hb; rw [live_of_heap_eq hh]; exact w.live t b ((hsub t).subset hb)
  · intro t b hb; rw [getW_of_heap_eq hh]; exact w.typ t b ((hsub t).subset hb)
  · intro t; rw [hl]; exact unlisted_erase w ha t

theorem lstep_cancelFound (st : St) (a : Nat) (ha : a ∈ listOf st (st.getW a).type) :
    LStep st (cancelFound st a (st.getW a) (listOf st (st.getW a).type)) := by
  intro hc w
  unfold cancelFound
  obtain ⟨fE, hun⟩ := lfacts_erase st a (st.getW a).type w ha
  generalize setListOf st (st.getW a).type ((listOf st (st.getW a).type).erase a) = sE at *
  have gN := (g4_cancelNotify sE a (st.getW a)).trans (g4_cancelHook _ (st.getW a).type (st.getW a).evi)
  have hunN : ∀ t, a ∉ listOf (cancelHook (cancelNotify sE a (st.getW a)) (st.getW a).type (st.getW a).evi) t :=
    fun t h => hun t (by rw [gN.lists] at h; exact h)
  exact (((LStep.trans (fun _ _ => fE) gN.lstep).trans (lstep_free_unlisted _ a hunN)).trans (g4_cancelRest _ _).lstep) hc w

theorem g4_setTypeNone_unlisted (st : St) (a : Nat) (h : ∀ t, a ∉ listOf st t) : LStep st (st.setW a { st.getW a with type := .none }) := by
  intro _ w
  have hl : ∀ t, listOf (st.setW a { st.getW a with type := .none }) t = listOf st t := fun t => by cases t <;> rfl
  refine ⟨⟨fun t => by rw [hl]; exact w.nodup t, ?_, ?_⟩, by rw [St.length_setW]; exact Nat.le_refl _,
    fun t x hx => Or.inl (by rw [hl] at hx; exact hx), rfl⟩
  · intro t b hb; rw [hl] at hb
    have : a ≠ b := fun e => h t (e ▸ hb)
    rw [St.live_setW_ne _ _ _ _ this]; exact w.live t b hb
  · intro t b hb; rw [hl] at hb
    have : a ≠ b := fun e => h t (e ▸ hb)
    rw [St.getW_setW_ne _ _ _ _ this]; exact w.typ t b hb

/-- The repaired tail of `tickit_watch_cancel`: the watch was not found in the list of its type, so (lists hold
    watches of their own type) it is in no list; it is notified and marked. -/
theorem lstep_cancelDetached (st : St) (a : Nat) (hn : a ∉ listOf st (st.getW a).type) : LStep st (cancelDetached st a) := by
  intro hc w
  unfold cancelDetached
  have gN := g4_cancelNotify st a (st.getW a)
  have hun : ∀ t, a ∉ listOf (cancelNotify st a (st.getW a)) t := by
    intro t h
    rw [gN.lists] at h
    have := w.typ t a h
    rw [← this] at h
    exact hn h
  exact (LStep.trans gN.lstep (g4_setTypeNone_unlisted _ a hun)) hc w

theorem g4_laterPre (st : St) (a : Nat) : G4 st (laterPre st a) := by
  unfold laterPre
  split
  · exact g4_setW _ a _ rfl rfl
  · exact G4.refl _

theorem l_watchCancel0 (st : St) (a : Nat) : LStep st (watchCancel0 st a) := by
  unfold watchCancel0
  split
  · exact LStep.refl st
  · split
    · exact (g4_fail st _).lstep
    · split
      · exact LStep.refl st
      · split
        · exact (g4_fail st _).lstep
        · split
          · rename_i hcn
            split
            · exact lstep_cancelDetached st a (by simpa using hcn)
            · exact LStep.refl st
          · rename_i hcn
            have : a ∈ listOf st (st.getW a).type := by simpa using hcn
            exact lstep_cancelFound st a this

theorem l_watchCancel (st : St) (a : Nat) : LStep st (watchCancel st a) := by
  unfold watchCancel
  split
  · split
    · exact (l_watchCancel0 st a).trans (l_watchCancel0 _ _)
    · exact l_watchCancel0 st a
  · exact l_watchCancel0 st a

theorem lstep_unlink_found (st : St) (a : Nat) (t0 : WType) (ha : a ∈ listOf st t0) :
    LStep st (((setListOf st t0 ((listOf st t0).erase a)).setW a { st.getW a with type := .none }).free a) := by
  intro hc w
  obtain ⟨fE, hun⟩ := lfacts_erase st a t0 w ha
  have hgw : (setListOf st t0 ((listOf st t0).erase a)).getW a = st.getW a := getW_setListOf _ _ _ _
  generalize setListOf st t0 ((listOf st t0).erase a) = sE at *
  have h1 := g4_setTypeNone_unlisted sE a hun
  rw [hgw] at h1
  have hun2 : ∀ t, a ∉ listOf (sE.setW a { st.getW a with type := .none }) t := fun t h => hun t (by
    have : listOf (sE.setW a { st.getW a with type := .none }) t = listOf sE t := by cases t <;> rfl
    rw [this] at h; exact h)
  exact ((LStep.trans (fun _ _ => fE) h1).trans (lstep_free_unlisted _ a hun2)) hc w

theorem l_unlinkOneshot (st : St) (a : Nat) : LStep st (unlinkOneshot st a) := by
  unfold unlinkOneshot
  split
  · exact (g4_fail _ _).lstep
  · split
    · exact LStep.refl _
    · split
      · exact (g4_fail _ _).lstep
      · split
        · exact LStep.refl _
        · rename_i hcn
          exact lstep_unlink_found st a _ (by simpa using hcn)

theorem l_unlinkOneshotSaved (st : St) (a : Nat) (t : WType) : LStep st (unlinkOneshotSaved st a t) := by
  unfold unlinkOneshotSaved
  split
  · exact LStep.refl _
  · split
    · exact (g4_fail _ _).lstep
    · split
      · exact LStep.refl _
      · rename_i hcn
        exact lstep_unlink_found st a t (by simpa using hcn)



theorem g4_with_slots (st : St) (l : List SlotRec) : G4 st { st with slots := l } := G4.of_eq rfl rfl rfl rfl rfl rfl rfl

theorem g4_with_errno (st : St) (e : Int) : G4 st { st with errno := e } := G4.of_eq rfl rfl rfl rfl rfl rfl rfl

theorem g4_with_children (st : St) (l : List Proc) : G4 st { st with children := l } := G4.of_eq rfl rfl rfl rfl rfl rfl rfl

theorem g4_with_stillRunning (st : St) (b : Bool) : G4 st { st with stillRunning := b } := G4.of_eq rfl rfl rfl rfl rfl rfl rfl

theorem g4_with_inRun (st : St) (b : Bool) : G4 st { st with inRun := b } := G4.of_eq rfl rfl rfl rfl rfl rfl rfl


theorem l_doRegister (st : St) (k : Int) (reg : St → St × Nat) (h : ∀ s, LStep s (reg s).1) :
    LStep st (doRegister st k reg) := by
  unfold doRegister
  split
  · exact (g4_emit _ _).lstep
  · split
    · exact (g4_emit _ _).lstep
    · exact (h st).trans (g4_with_slots _ _).lstep


theorem g4_with_cancelReq (st : St) (l : List Int) : G4 st { st with cancelReq := l } := G4.of_eq rfl rfl rfl rfl rfl rfl rfl

theorem l_doCancel (st : St) (k : Int) : LStep st (doCancel st k) := by
  unfold doCancel
  split
  · exact (g4_emit _ _).lstep
  · exact (g4_with_cancelReq _ _).lstep.trans (l_watchCancel _ _)


theorem l_runAct (st : St) (act : Act) : LStep st (runAct st act) := by
  unfold runAct
  split
  · exact LStep.refl _
  · split
    · split
      · exact l_doRegister _ _ _ (fun s => l_watchTimerAfterMsec s _ _ _)
      · exact LStep.refl _
    · split
      · exact l_doRegister _ _ _ (fun s => l_watchTimerAt s _ _ _)
      · exact LStep.refl _
    · exact l_doRegister _ _ _ (fun s => lstep_watchLater s _ _ _)
    · exact l_doRegister _ _ _ (fun s => lstep_watchIo s _ _ _ _)
    · split
      · exact l_doRegister _ _ _ (fun s => lstep_watchSignal s _ _ _)
      · exact LStep.refl _
    · split
      · exact l_doRegister _ _ _ (fun s => lstep_watchProcess s _ _ _)
      · exact LStep.refl _
    · exact l_doCancel _ _
    · exact (g4_with_errno _ _).lstep
    · split
      · exact (g4_raiseSig _ _).lstep
      · exact LStep.refl _
    · split
      · split
        · exact LStep.refl _
        · exact (g4_with_children _ _).lstep
      · exact LStep.refl _
    · exact (g4_with_stillRunning _ _).lstep
    · exact LStep.refl _

theorem l_runActs (acts : List Act) : ∀ st : St,
    LStep st (acts.foldl (fun st act => if st.isOk then runAct (st.emit .a) act else st) st) := by
  induction acts with
  | nil => intro st; exact LStep.refl st
  | cons a rest ih =>
    intro st
    simp only [List.foldl_cons]
    refine LStep.trans ?_ (ih _)
    split
    · exact (g4_emit _ _).lstep.trans (l_runAct _ _)
    · exact LStep.refl _


theorem l_fireUser (st : St) (k : Int) (flags : Nat) (info : Info) : LStep st (fireUser st k flags info) := by
  unfold fireUser
  simp only []
  split
  · exact (g4_emit _ _).lstep
  · split
    · exact (g4_emit _ _).lstep.trans (g4_with_slots _ _).lstep
    · exact ((g4_emit _ _).lstep.trans (g4_with_slots _ _).lstep).trans (l_runActs _ _)


theorem g4_with_status (st : St) (x : Status) : G4 st { st with status := x } := G4.of_eq rfl rfl rfl rfl rfl rfl rfl


theorem l_fireIf (st : St) (c : Prop) [Decidable c] (k : Int) (flags : Nat) (info : Info) :
    LStep st (if c then fireUser st k flags info else st) := by
  split
  · exact l_fireUser _ _ _ _
  · exact LStep.refl _


theorem l_invokeWatch (st : St) (a : Nat) (flags : Nat) (info : Info) : LStep st (invokeWatch st a flags info) := by
  unfold invokeWatch
  have hf := l_fireIf st ((st.getW a).slot ≥ 0) (st.getW a).slot flags info
  generalize (if (st.getW a).slot ≥ 0 then fireUser st (st.getW a).slot flags info else st) = s1 at hf ⊢
  split
  · exact LStep.refl _
  · split
    · exact (g4_fail _ _).lstep
    · split
      · exact hf
      · split
        · exact hf.trans (l_unlinkOneshotSaved _ a _)
        · exact hf.trans (l_unlinkOneshot _ a)


theorem g4_waitpidV (st : St) (pid : Int) : G4 st (waitpidV st pid).st := by
  unfold waitpidV
  split
  · exact g4_waitpid _ _
  · exact G4.refl _


theorem l_procStep (st : St) (a : Nat) : LStep st (procStep st a) := by
  unfold procStep
  split
  · exact (g4_waitpidV _ _).lstep
  · exact (g4_waitpidV _ _).lstep.trans (l_invokeWatch _ _ _ _)


theorem l_outOfFuel (st : St) : LStep st (if st.isOk then { st with status := .outOfFuel } else st) := by
  split
  · exact (g4_with_status _ _).lstep
  · exact LStep.refl _


theorem l_onSigchld (fuel : Nat) : ∀ (st : St) (this : Option Nat), LStep st (onSigchld fuel st this) := by
  induction fuel with
  | zero => intro st this; unfold onSigchld; exact l_outOfFuel st
  | succ n ih =>
    intro st this
    unfold onSigchld
    split
    · exact LStep.refl _
    · split
      · exact LStep.refl _
      · split
        · exact (g4_fail _ _).lstep
        · exact (l_procStep _ _).trans (ih _ _)


theorem l_procSnapLoop (l : List Nat) : ∀ st : St, LStep st (procSnapLoop st l) := by
  induction l with
  | nil => intro st; exact LStep.refl st
  | cons a rest ih =>
    intro st
    unfold procSnapLoop
    split
    · exact LStep.refl _
    · split
      · exact (g4_fail _ _).lstep
      · split
        · exact ih _
        · split
          · exact (g4_fail _ _).lstep
          · exact (l_procStep _ _).trans (ih _)


theorem l_onSigchldAny (fuel : Nat) (st : St) : LStep st (onSigchldAny fuel st) := by
  unfold onSigchldAny
  split
  · split
    · exact (g4_fail _ _).lstep
    · exact l_procSnapLoop _ _
  · exact l_onSigchld _ _ _


theorem g4_clearNotify (st : St) (a : Nat) : G4 st (clearNotify st a) := by
  unfold clearNotify
  split
  · unfold setNotify; exact g4_setW _ _ _ rfl rfl
  · exact G4.refl _

theorem l_processNotify (st : St) (a : Nat) : LStep st (processNotify st a) := by
  unfold processNotify
  split
  · exact (g4_fail _ _).lstep
  · exact (g4_clearNotify _ _).lstep.trans (l_invokeWatch _ _ _ _)


theorem l_laterCb (st : St) (a : Nat) : LStep st (laterCb st a) := by
  unfold laterCb
  split
  · exact l_fireUser _ _ _ _
  · split
    · exact l_processNotify _ _
    · exact LStep.refl _


/-- `laterPre` then the callback. -/
theorem l_laterPreCb (st : St) (a : Nat) : LStep st (laterCb (laterPre st a) a) :=
  (g4_laterPre st a).lstep.trans (l_laterCb _ a)

/-- The loop over the detached batch: its members are live, in no list, and freed one by one. -/
theorem l_laterLoopT (l : List Nat) : ∀ st : St, (∀ a ∈ l, a < st.heap.length ∧ ∀ t, a ∉ listOf st t) → LStep st (laterLoopT st l).1 := by
  induction l with
  | nil => intro st _; exact LStep.refl st
  | cons a rest ih =>
    intro st hl
    unfold laterLoopT
    split
    · exact LStep.refl _
    · split
      · exact (g4_fail _ _).lstep
      · split
        · -- a cancelled entry: freed without being invoked
          intro hc w
          have ha := hl a List.mem_cons_self
          have f2 : LFacts st (st.free a) := lstep_free_unlisted st a ha.2 hc w
          have hrest : ∀ b ∈ rest, b < (st.free a).heap.length ∧ ∀ t, b ∉ listOf (st.free a) t := by
            intro b hb
            have hb' := hl b (List.mem_cons_of_mem _ hb)
            exact ⟨Nat.lt_of_lt_of_le hb'.1 f2.len, unlisted_after f2 hb'.1 hb'.2⟩
          exact (LStep.trans (fun _ _ => f2) (ih _ hrest)) hc w
        · split
          · exact l_laterPreCb _ _
          · split
            · exact (l_laterPreCb _ _).trans (g4_fail _ _).lstep
            · intro hc w
              have f1 := l_laterPreCb st a hc w
              have ha := hl a List.mem_cons_self
              have hun1 := unlisted_after f1 ha.1 ha.2
              have f12 : LFacts st ((laterCb (laterPre st a) a).free a) :=
                (LStep.trans (fun _ _ => f1) (lstep_free_unlisted (laterCb (laterPre st a) a) a hun1)) hc w
              have hrest : ∀ b ∈ rest, b < ((laterCb (laterPre st a) a).free a).heap.length ∧
                  ∀ t, b ∉ listOf ((laterCb (laterPre st a) a).free a) t := by
                intro b hb
                have hb' := hl b (List.mem_cons_of_mem _ hb)
                exact ⟨Nat.lt_of_lt_of_le hb'.1 f12.len, unlisted_after f12 hb'.1 hb'.2⟩
              exact (LStep.trans (fun _ _ => f12) (ih _ hrest)) hc w

theorem pop_is_erase (st : St) (a : Nat) (rest : List Nat) (hq : st.timers = a :: rest) :
    ({ st with timers := rest } : St) = setListOf st .timer ((listOf st .timer).erase a) := by
  show _ = { st with timers := st.timers.erase a }
  rw [hq]; simp

theorem l_timerLoopPopT (fuel : Nat) : ∀ (st : St) (now : TV), LStep st (timerLoopPopT fuel st now).1 := by
  induction fuel with
  | zero => intro st now; unfold timerLoopPopT; exact l_outOfFuel st
  | succ n ih =>
    intro st now
    unfold timerLoopPopT
    split
    · exact LStep.refl _
    · split
      · exact LStep.refl _
      · rename_i a rest hq
        split
        · exact (g4_fail _ _).lstep
        · split
          · exact LStep.refl _
          · rename_i hlive _
            intro hc w
            have ha : a ∈ listOf st .timer := by show a ∈ st.timers; rw [hq]; exact List.mem_cons_self
            obtain ⟨fE, hun⟩ := lfacts_erase st a .timer w ha
            rw [← pop_is_erase st a rest hq] at fE hun
            have halt : a < st.heap.length := w.alloc ha
            have f1 : LFacts st (fireUser { st with timers := rest } (st.getW a).slot (EV_FIRE ||| EV_UNBIND) .none) :=
              (LStep.trans (fun _ _ => fE) (l_fireUser _ _ _ _)) hc w
            have f1' := l_fireUser { st with timers := rest } (st.getW a).slot (EV_FIRE ||| EV_UNBIND) .none
              (by rw [fE.cfg]; exact hc) fE.wf
            have hun1 := unlisted_after f1' (show a < ({ st with timers := rest } : St).heap.length from halt) hun
            simp only []
            split
            · exact f1
            · split
              · exact (LStep.trans (fun _ _ => f1) (g4_fail _ _).lstep) hc w
              · exact ((LStep.trans (fun _ _ => f1) (lstep_free_unlisted _ a hun1)).trans (ih _ _)) hc w

theorem l_timerPhase (fuel : Nat) (st : St) : LStep st (timerPhase fuel st) := by
  unfold timerPhase
  split
  · exact LStep.refl _
  · split
    · exact (g4_emit _ _).lstep.trans (l_timerLoopPopT _ _ _)
    · rename_i h
      intro hc _
      exact absurd hc h

theorem l_invokeTimers (fuel : Nat) (st : St) : LStep st (invokeTimers fuel st) := by
  unfold invokeTimers
  split
  · exact LStep.refl _
  · intro hc w
    -- detaching the later queue
    have f0 : LFacts st { st with laters := [] } := by
      have hsub : ∀ t, (listOf ({ st with laters := [] } : St) t).Sublist (listOf st t) := by
        intro t; cases t <;> first | exact List.Sublist.refl _ | exact List.nil_sublist _
      exact ⟨⟨fun t => (w.nodup t).sublist (hsub t), fun t b hb => w.live t b ((hsub t).subset hb),
        fun t b hb => w.typ t b ((hsub t).subset hb)⟩, Nat.le_refl _, fun t x hx => Or.inl ((hsub t).subset hx), rfl⟩
    have hdet : ∀ a ∈ st.laters, a < ({ st with laters := [] } : St).heap.length ∧ ∀ t, a ∉ listOf ({ st with laters := [] } : St) t := by
      intro a ha
      have ha' : a ∈ listOf st .later := ha
      refine ⟨w.alloc ha', ?_⟩
      intro t h
      have hsub : (listOf ({ st with laters := [] } : St) t).Sublist (listOf st t) := by
        cases t <;> first | exact List.Sublist.refl _ | exact List.nil_sublist _
      have h' := hsub.subset h
      by_cases ht : t = .later
      · subst ht; cases h
      · have h1 := w.typ t a h'
        have h2 := w.typ .later a ha'
        exact ht (h1.symm.trans h2)
    have f1 : LFacts st (timerPhase fuel { st with laters := [] }) := (LStep.trans (fun _ _ => f0) (l_timerPhase _ _)) hc w
    have f1' := l_timerPhase fuel { st with laters := [] } hc f0.wf
    have hdet1 : ∀ a ∈ st.laters, a < (timerPhase fuel { st with laters := [] }).heap.length ∧
        ∀ t, a ∉ listOf (timerPhase fuel { st with laters := [] }) t :=
      fun a ha => ⟨Nat.lt_of_lt_of_le (hdet a ha).1 f1'.len, unlisted_after f1' (hdet a ha).1 (hdet a ha).2⟩
    exact (LStep.trans (fun _ _ => f1) (l_laterLoopT st.laters _ hdet1)) hc w

theorem l_sigCb (fuel : Nat) (st : St) (a : Nat) (s : Int) : LStep st (sigCb fuel st a s) := by
  unfold sigCb
  split
  · split
    · exact l_fireUser _ _ _ _
    · split
      · exact l_onSigchldAny _ _
      · split
        · exact (g4_with_stillRunning _ _).lstep
        · exact LStep.refl _
  · exact LStep.refl _


theorem l_sigwatchLoopT (fuel : Nat) : ∀ (st : St) (s : Int) (this : Option Nat), LStep st (sigwatchLoopT fuel st s this).1 := by
  induction fuel with
  | zero => intro st s this; unfold sigwatchLoopT; exact l_outOfFuel st
  | succ n ih =>
    intro st s this
    unfold sigwatchLoopT
    split
    · exact LStep.refl _
    · split
      · exact LStep.refl _
      · split
        · exact (g4_fail _ _).lstep
        · split
          · exact l_sigCb _ _ _ _
          · split
            · exact (l_sigCb _ _ _ _).trans (g4_fail _ _).lstep
            · exact (l_sigCb _ _ _ _).trans (ih _ _ _)


theorem l_sigwatchLoop (fuel : Nat) (st : St) (s : Int) (this : Option Nat) : LStep st (sigwatchLoop fuel st s this) :=
  l_sigwatchLoopT fuel st s this


theorem l_sigSnapLoopT (fuel : Nat) (s : Int) (l : List Nat) : ∀ st : St, LStep st (sigSnapLoopT fuel st s l).1 := by
  induction l with
  | nil => intro st; exact LStep.refl st
  | cons a rest ih =>
    intro st
    unfold sigSnapLoopT
    split
    · exact LStep.refl _
    · split
      · exact (g4_fail _ _).lstep
      · split
        · exact ih _
        · split
          · exact (g4_fail _ _).lstep
          · exact (l_sigCb _ _ _ _).trans (ih _)


theorem l_sigDispatch (fuel : Nat) (st : St) (s : Int) : LStep st (sigDispatch fuel st s) := by
  unfold sigDispatch
  split
  · split
    · exact (g4_fail _ _).lstep
    · exact l_sigSnapLoopT _ _ _ _
  · exact l_sigwatchLoop _ _ _ _


theorem l_dispatchLoop (fuel : Nat) (pending : List Int) (l : List Int) : ∀ st : St, LStep st (dispatchLoop fuel st pending l) := by
  induction l with
  | nil => intro st; exact LStep.refl st
  | cons s rest ih =>
    intro st
    unfold dispatchLoop
    refine LStep.trans ?_ (ih _)
    split
    · exact l_sigDispatch _ _ _
    · exact LStep.refl _


theorem g4_with_pendingSig (st : St) (l : List Int) : G4 st { st with pendingSig := l } := G4.of_eq rfl rfl rfl rfl rfl rfl rfl


theorem l_dispatchSignals (fuel : Nat) (st : St) : LStep st (dispatchSignals fuel st) := by
  unfold dispatchSignals
  exact (g4_with_pendingSig st []).lstep.trans (l_dispatchLoop _ _ _ _)


theorem l_ioCb (st : St) (s : PollSlot) : LStep st (ioCb st s) := by
  unfold ioCb
  split
  · split
    · exact (g4_fail _ _).lstep
    · exact l_invokeWatch _ _ _ _
  · exact LStep.refl _


theorem l_ioLoopT (fuel : Nat) : ∀ (st : St) (idx : Nat), LStep st (ioLoopT fuel st idx).1 := by
  induction fuel with
  | zero => intro st idx; unfold ioLoopT; exact l_outOfFuel st
  | succ n ih =>
    intro st idx
    unfold ioLoopT
    split
    · exact LStep.refl _
    · split
      · exact LStep.refl _
      · split
        · exact ih _ _
        · split
          · exact ih _ _
          · exact (l_ioCb _ _).trans (ih _ _)


theorem l_ioLoop (fuel : Nat) (st : St) (idx : Nat) : LStep st (ioLoop fuel st idx) := l_ioLoopT fuel st idx


theorem g4_foldl_raiseSig (l : List Int) : ∀ st : St, G4 st (l.foldl raiseSig st) := by
  induction l with
  | nil => intro st; exact G4.refl st
  | cons s rest ih => intro st; exact (g4_raiseSig st s).trans (ih _)


theorem g4_pollScan (st : St) : G4 st (pollScan st) := G4.of_eq rfl rfl rfl rfl rfl rfl rfl

theorem g4_with_inpoll (st : St) (l : List Int) : G4 st { st with inpoll := l } := G4.of_eq rfl rfl rfl rfl rfl rfl rfl


theorem g4_pollRaise (st : St) : G4 st (pollRaise st) := by
  unfold pollRaise
  exact (g4_with_inpoll st []).trans (g4_foldl_raiseSig _ _)


theorem g4_pollTimeout (st : St) (t : Option Int) : G4 st (pollTimeout st t) := by
  unfold pollTimeout
  split
  · exact G4.of_eq rfl rfl rfl rfl rfl rfl rfl
  · exact G4.refl _


theorem g4_deliverPending (st : St) : G4 st (deliverPending st) := by
  unfold deliverPending
  split <;> exact G4.of_eq rfl rfl rfl rfl rfl rfl rfl


theorem g4_ppoll (st : St) (t : Option Int) : G4 st (ppoll st t).1 := by
  unfold ppoll
  split
  · exact (g4_pollScan st).trans (g4_pollRaise _)
  · split
    · exact ((g4_pollScan st).trans (g4_pollRaise _)).trans (g4_emit _ _)
    · split
      · exact ((((g4_pollScan st).trans (g4_pollRaise _)).trans (g4_deliverPending _)).trans (g4_with_errno _ _)).trans (g4_emit _ _)
      · exact (((g4_pollScan st).trans (g4_pollRaise _)).trans (g4_pollTimeout _ _)).trans (g4_emit _ _)


theorem g4_nextTimerMsec (st : St) : G4 st (nextTimerMsec st).1 := by
  unfold nextTimerMsec
  split
  · exact G4.refl _
  · split
    · exact G4.refl _
    · split
      · exact (g4_emit _ _).trans (g4_fail _ _)
      · exact g4_emit _ _


theorem l_tickAfterPoll (fuel : Nat) (st : St) (ret : Option Nat) : LStep st (tickAfterPoll fuel st ret) := by
  unfold tickAfterPoll
  split
  · exact l_invokeTimers _ _
  · split
    · split
      · exact (l_invokeTimers _ _).trans (l_ioLoop _ _ _)
      · exact l_invokeTimers _ _
    · split
      · exact (l_invokeTimers _ _).trans (l_dispatchSignals _ _)
      · exact l_invokeTimers _ _


theorem l_tick (fuel : Nat) (st : St) (nohang : Bool) : LStep st (tick fuel st nohang) := by
  unfold tick
  split
  · exact LStep.refl _
  · split
    · exact (g4_nextTimerMsec _).lstep
    · split
      · exact ((g4_nextTimerMsec _).trans (g4_ppoll _ _)).lstep
      · exact ((g4_nextTimerMsec _).trans (g4_ppoll _ _)).lstep.trans (l_tickAfterPoll _ _ _)


theorem g4_ppollRun (st : St) (t : Option Int) : G4 st (ppollRun st t).1 := by
  unfold ppollRun
  split
  · exact g4_ppoll _ _
  · split
    · exact ((g4_ppoll st t).trans (G4.of_eq rfl rfl rfl rfl rfl rfl rfl : G4 (ppoll st t).1
        { (ppoll st t).1 with runPolls := (ppoll st t).1.runPolls + 1, stillRunning := false })).trans (g4_emit _ _)
    · exact (g4_ppoll st t).trans (G4.of_eq rfl rfl rfl rfl rfl rfl rfl : G4 (ppoll st t).1
        { (ppoll st t).1 with runPolls := (ppoll st t).1.runPolls + 1 })


theorem l_runIter (fuel : Nat) (st : St) : LStep st (runIter fuel st) := by
  unfold runIter
  split
  · exact LStep.refl _
  · split
    · exact (g4_nextTimerMsec _).lstep
    · split
      · exact ((g4_nextTimerMsec _).trans (g4_ppollRun _ _)).lstep
      · exact ((g4_nextTimerMsec _).trans (g4_ppollRun _ _)).lstep.trans (l_tickAfterPoll _ _ _)


theorem l_runLoop (fuel : Nat) (n : Nat) : ∀ st : St, LStep st (runLoop fuel n st) := by
  induction n with
  | zero => intro st; unfold runLoop; exact l_outOfFuel st
  | succ k ih =>
    intro st
    unfold runLoop
    split
    · exact LStep.refl _
    · split
      · exact LStep.refl _
      · exact (l_runIter _ _).trans (ih _)


theorem g4_run_flags (st : St) : G4 st { st with stillRunning := true, inRun := true, runPolls := 0 } := G4.of_eq rfl rfl rfl rfl rfl rfl rfl

theorem l_run (fuel : Nat) (st : St) : LStep st (run fuel st) := by
  have h0 : LStep st { (watchSignal st 2 0 (-5)).1 with stillRunning := true, inRun := true, runPolls := 0 } :=
    (lstep_watchSignal st 2 0 (-5)).trans (g4_run_flags _).lstep
  unfold run
  split
  · exact LStep.refl _
  · split
    · exact h0.trans (l_runLoop _ _ _)
    · exact ((h0.trans (l_runLoop _ _ _)).trans (g4_with_inRun _ _).lstep).trans (l_watchCancel _ _)

theorem wf_empty {st : St} (h1 : st.iow = []) (h2 : st.timers = []) (h3 : st.laters = []) (h4 : st.signals = []) (h5 : st.procs = []) : WF st := by
  have : ∀ t, listOf st t = [] := by intro t; cases t <;> simp only [listOf] <;> assumption
  exact ⟨fun t => (by rw [this]; exact List.nodup_nil), fun t a h => (by rw [this] at h; cases h), fun t a h => (by rw [this] at h; cases h)⟩

/-- Destruction empties the lists (when it runs to completion). -/
theorem wf_destroy (st : St) (w : WF st) (hok : (destroy st).status = .ok) : WF (destroy st) := by
  unfold destroy at hok ⊢
  split
  · exact w
  · rename_i h
    rw [if_neg h] at hok
    unfold destroyFinish at hok ⊢
    split
    · exact wf_empty rfl rfl rfl rfl rfl
    · rename_i hno
      rw [if_neg hno] at hok
      exact absurd ((St.isOk_iff _).mpr hok) hno

theorem WF.of_same {st st' : St} (g : G4 st st') (w : WF st) : WF st' :=
  ⟨fun t => by rw [g.lists]; exact w.nodup t,
   fun t a ha => by rw [g.lists] at ha; rw [(g.ext.same a (w.alloc ha)).1]; exact w.live t a ha,
   fun t a ha => by rw [g.lists] at ha; rw [(g.ext.same a (w.alloc ha)).2]; exact w.typ t a ha⟩

theorem cfg_applyOp_eq (st : St) (op : Op) (hc : st.cfg.timersPop = true) (w : WF st) (hok : (applyOp st op).status = .ok) :
    WF (applyOp st op) ∧ (applyOp st op).cfg = st.cfg := by
  unfold applyOp at hok ⊢
  have g0 : G4 st { st with log := [] } := G4.of_eq rfl rfl rfl rfl rfl rfl rfl
  have w0 : WF { st with log := [] } := w.of_same g0
  have hc0 : ({ st with log := [] } : St).cfg.timersPop = true := hc
  have hcfg0 : ({ st with log := [] } : St).cfg = st.cfg := rfl
  generalize ({ st with log := [] } : St) = s0 at *
  rw [← hcfg0]
  unfold applyOp' at hok ⊢
  split
  · exact ⟨w0, rfl⟩
  · rename_i hs
    rw [if_neg hs] at hok
    split
    · exact ⟨w0, rfl⟩
    · exact ⟨w0, rfl⟩
    · exact ⟨w0, rfl⟩
    · split
      · exact ⟨w0, rfl⟩
      · rename_i ha
        split
        · exact ⟨WF.of_same (st := s0) (G4.of_eq rfl rfl rfl rfl rfl rfl rfl) w0, rfl⟩
        · exact ⟨(l_runAct s0 _ hc0 w0).wf, (l_runAct s0 _ hc0 w0).cfg⟩
        · exact ⟨WF.of_same (st := s0) (G4.of_eq rfl rfl rfl rfl rfl rfl rfl) w0, rfl⟩
        · exact ⟨WF.of_same (st := s0) (G4.of_eq rfl rfl rfl rfl rfl rfl rfl) w0, rfl⟩
        · exact ⟨WF.of_same (st := s0) (G4.of_eq rfl rfl rfl rfl rfl rfl rfl) w0, rfl⟩
        · have f := ((g4_with_stillRunning s0 true).lstep.trans (l_tick defaultFuel _ true)) hc0 w0; exact ⟨f.wf, f.cfg⟩
        · have f := ((g4_with_stillRunning s0 true).lstep.trans (l_tick defaultFuel _ false)) hc0 w0; exact ⟨f.wf, f.cfg⟩
        · have f := l_run defaultFuel s0 hc0 w0; exact ⟨f.wf, f.cfg⟩
        · refine ⟨wf_destroy _ w0 (by simp only [ha] at hok; exact hok), ?_⟩
          unfold destroy
          split
          · rfl
          · have hd : ∀ (t : WType) (s : St), (destroyOf t s).cfg = s.cfg := by
              intro t s
              unfold destroyOf
              have : ∀ (l : List Nat) (s : St), (destroyList s t l).cfg = s.cfg := by
                intro l
                induction l with
                | nil => intro s; rfl
                | cons a rest ih =>
                  intro s
                  unfold destroyList
                  split
                  · rfl
                  · split
                    · exact St.cfg_fail _ _
                    · rw [ih]
                      have h1 : ((cancelHook (destroyNotify s a) t (s.getW a).evi).free a).cfg = (cancelHook (destroyNotify s a) t (s.getW a).evi).cfg := by
                        unfold St.free; split
                        · rfl
                        · exact St.cfg_fail _ _
                      rw [h1, (g4_cancelHook _ _ _).cfg]
                      unfold destroyNotify; split
                      · exact (g4_notify _ _ _).cfg
                      · rfl
              exact this _ s
            have hcs : (cancelSigchld s0).cfg = s0.cfg := by
              unfold cancelSigchld; split
              · exact (l_watchCancel s0 _ hc0 w0).cfg
              · rfl
            unfold destroyFinish
            split
            · show (destroyOf .process _).cfg = _
              rw [hd, hd, hd, hd, hd, hcs]
            · rw [hd, hd, hd, hd, hd, hcs]
        · exact ⟨w0, rfl⟩

theorem wf_build (cfg : Config) (hc : cfg.timersPop = true) : WF (build cfg) ∧ (build cfg).cfg = cfg := by
  have w0 : WF (build0 cfg) := wf_empty rfl rfl rfl rfl rfl
  have hc0 : (build0 cfg).cfg.timersPop = true := hc
  unfold build
  have f := ((lstep_watchIo (build0 cfg) (-1) IO_IN 0 (-1)).trans (lstep_watchSignal _ SIGWINCH 0 (-2))) hc0 w0
  exact ⟨WF.of_same (st := (watchSignal (watchIo (build0 cfg) (-1) IO_IN 0 (-1)).1 SIGWINCH 0 (-2)).1) (G4.of_eq rfl rfl rfl rfl rfl rfl rfl) f.wf, f.cfg⟩

/-- With the repaired timer loop, in every reachable state whose status is ok each of the five watch
    lists holds distinct live watches of its own type (and the configuration is the one it started with). -/
theorem wf_runOps' (cfg : Config) (hc : cfg.timersPop = true) (ops : List Op) (hok : (runOps cfg ops).status = .ok) :
    WF (runOps cfg ops) ∧ (runOps cfg ops).cfg = cfg := by
  unfold runOps at hok ⊢
  have : ∀ (l : List Op) (st : St), st.cfg.timersPop = true → WF st → (l.foldl applyOp st).status = .ok →
      WF (l.foldl applyOp st) ∧ (l.foldl applyOp st).cfg = st.cfg := by
    intro l
    induction l with
    | nil => intro st _ h _; exact ⟨h, rfl⟩
    | cons o rest ih =>
      intro st hcs h hfin
      simp only [List.foldl_cons] at hfin ⊢
      have hmid : (applyOp st o).status = .ok := by
        apply Classical.byContradiction
        intro hne
        have : ∀ (l : List Op) (s : St), s.status ≠ .ok → (l.foldl applyOp s).status ≠ .ok := by
          intro l
          induction l with
          | nil => intro s hs; exact hs
          | cons o' r' ih' => intro s hs; exact ih' _ (status_applyOp_of_not_ok s o' hs)
        exact this rest _ hne hfin
      have hs := cfg_applyOp_eq st o hcs h hmid
      have := ih _ (by rw [hs.2]; exact hcs) hs.1 hfin
      exact ⟨this.1, this.2.trans hs.2⟩
  have hb := wf_build cfg hc
  have := this ops _ (by rw [hb.2]; exact hc) hb.1 hok
  exact ⟨this.1, this.2.trans hb.2⟩

theorem wf_runOps (cfg : Config) (hc : cfg.timersPop = true) (ops : List Op) (hok : (runOps cfg ops).status = .ok) :
    WF (runOps cfg ops) := (wf_runOps' cfg hc ops hok).1

/-! ### tickit_destroy, all five lists -/

theorem g4_destroyNotify (st : St) (a : Nat) : G4 st (destroyNotify st a) := by
  unfold destroyNotify
  split
  · exact g4_notify _ _ _
  · exact G4.refl _

theorem destroyList_not_ok (t : WType) (l : List Nat) (st : St) (h : st.isOk = false) : destroyList st t l = st := by
  cases l with
  | nil => rfl
  | cons a rest => unfold destroyList; simp [h]

/-- `destroy_watchlist` leaves the list heads alone and does not touch watches outside its list. -/
theorem destroyList_frame (t : WType) : ∀ (l : List Nat) (st : St),
    (∀ t', listOf (destroyList st t l) t' = listOf st t') ∧
    (∀ b, b ∉ l → (destroyList st t l).getW b = st.getW b ∧ (destroyList st t l).live b = st.live b) := by
  intro l
  induction l with
  | nil => intro st; exact ⟨fun _ => rfl, fun _ _ => ⟨rfl, rfl⟩⟩
  | cons a rest ih =>
    intro st
    unfold destroyList
    split
    · exact ⟨fun _ => rfl, fun _ _ => ⟨rfl, rfl⟩⟩
    · split
      · exact ⟨fun t' => (g4_fail st _).lists t', fun b _ => ⟨St.getW_fail _ _ _, St.live_fail _ _ _⟩⟩
      · have g := (g4_destroyNotify st a).trans (g4_cancelHook _ t (st.getW a).evi)
        have hheap : (cancelHook (destroyNotify st a) t (st.getW a).evi).heap = st.heap := by
          rw [heap_cancelHook, heap_destroyNotify]
        obtain ⟨h1, h2⟩ := ih ((cancelHook (destroyNotify st a) t (st.getW a).evi).free a)
        refine ⟨fun t' => by rw [h1, lists_free, g.lists], ?_⟩
        intro b hb
        simp only [List.mem_cons, not_or] at hb
        obtain ⟨h3, h4⟩ := h2 b hb.2
        have hne : a ≠ b := fun e => hb.1 e.symm
        exact ⟨by rw [h3, St.getW_free_ne _ _ _ hne, getW_of_heap_eq hheap],
               by rw [h4, St.live_free_ne _ _ _ hne, live_of_heap_eq hheap]⟩

/-- One list of a well-formed state: the log gains the notifications of exactly its members; the state stays
    well-formed *for the other lists* in the sense needed to go on (their members keep liveness and contents). -/
theorem destroyOf_log (t : WType) (st : St) (hnd : (listOf st t).Nodup) (hlive : st.allLive (listOf st t) = true)
    (hok : (destroyOf t st).status = .ok) :
    (destroyOf t st).log = ((listOf st t).filterMap (destroyNote st)).reverse ++ st.log :=
  destroyList_log t (listOf st t) st hnd hlive hok

theorem allLive_of_wf {st : St} (w : WF st) (t : WType) : st.allLive (listOf st t) = true := by
  simp only [St.allLive, List.all_eq_true]; exact fun a ha => w.live t a ha

/-- Members of another list are untouched by destroying list `t`. -/
theorem destroyOf_other (t : WType) (st : St) (w : WF st) (t' : WType) (hne : t' ≠ t) :
    listOf (destroyOf t st) t' = listOf st t' ∧
    ∀ b ∈ listOf st t', (destroyOf t st).getW b = st.getW b ∧ (destroyOf t st).live b = st.live b := by
  unfold destroyOf
  obtain ⟨h1, h2⟩ := destroyList_frame t (listOf st t) st
  refine ⟨h1 t', fun b hb => h2 b ?_⟩
  intro hin
  exact hne ((w.typ t' b hb).symm.trans (w.typ t b hin))

/-- What `destroyOf` needs of a state to deal with list `t` and to hand the remaining lists `ts` on:
    distinct live members, of the right type, with the contents they had in the reference state `s0`. -/
structure Ready (s0 st : St) (ts : List WType) : Prop where
  lists : ∀ t ∈ ts, listOf st t = listOf s0 t
  same : ∀ t ∈ ts, ∀ b ∈ listOf s0 t, st.getW b = s0.getW b ∧ st.live b = true

theorem destroyNote_congr {s0 st : St} {b : Nat} (h : st.getW b = s0.getW b) : destroyNote st b = destroyNote s0 b := by
  unfold destroyNote; rw [h]

/-- Destroying the head list `t` of the agenda. -/
theorem ready_step (s0 st : St) (w0 : WF s0) (t : WType) (ts : List WType) (hnt : t ∉ ts) (r : Ready s0 st (t :: ts))
    (hok : (destroyOf t st).status = .ok) :
    (destroyOf t st).log = ((listOf s0 t).filterMap (destroyNote s0)).reverse ++ st.log ∧ Ready s0 (destroyOf t st) ts := by
  have hl := r.lists t List.mem_cons_self
  have hs := r.same t List.mem_cons_self
  have hnd : (listOf st t).Nodup := by rw [hl]; exact w0.nodup t
  have hlive : st.allLive (listOf st t) = true := by
    simp only [St.allLive, List.all_eq_true]; rw [hl]; exact fun b hb => (hs b hb).2
  refine ⟨?_, ?_⟩
  · rw [destroyOf_log t st hnd hlive hok, hl]
    congr 2
    apply filterMap_congr'
    intro b hb
    exact destroyNote_congr (hs b hb).1
  · obtain ⟨h1, h2⟩ := destroyList_frame t (listOf st t) st
    refine ⟨fun t' ht' => by unfold destroyOf; rw [h1, r.lists t' (List.mem_cons_of_mem _ ht')], ?_⟩
    intro t' ht' b hb
    have hne : t' ≠ t := fun e => hnt (e ▸ ht')
    have hbn : b ∉ listOf st t := by
      rw [hl]; intro hin
      exact hne ((w0.typ t' b hb).symm.trans (w0.typ t b hin))
    have := h2 b hbn
    have hs' := r.same t' (List.mem_cons_of_mem _ ht') b hb
    unfold destroyOf
    exact ⟨by rw [this.1]; exact hs'.1, by rw [this.2]; exact hs'.2⟩

/-- `tickit_destroy` of a well-formed instance that runs to completion: after `tickit_watch_cancel` of the
    SIGCHLD watch (state `s0`), the log gains exactly one UNBIND|DESTROY notification for every remaining
    watch of every kind whose stored flags ask for one — io watches first, then timers, deferred callbacks,
    signal watches, process watches, each list in its order — and nothing else. -/
theorem destroy_log (st : St) (hok0 : st.isOk = true) (w0 : WF (cancelSigchld st)) (hok : (destroy st).status = .ok) :
    (destroy st).log =
      ((listOf (cancelSigchld st) .io ++ listOf (cancelSigchld st) .timer ++ listOf (cancelSigchld st) .later ++
        listOf (cancelSigchld st) .signal ++ listOf (cancelSigchld st) .process).filterMap (destroyNote (cancelSigchld st))).reverse
      ++ (cancelSigchld st).log := by
  unfold destroy at hok ⊢
  simp only [hok0, Bool.not_true, Bool.false_eq_true, if_false] at hok ⊢
  generalize cancelSigchld st = s0 at *
  -- statuses of the intermediate states
  have hfin : ∀ s : St, (destroyFinish s).status = .ok → s.status = .ok ∧ (destroyFinish s).log = s.log := by
    intro s h
    unfold destroyFinish at h ⊢
    split
    · rename_i hh; exact ⟨(St.isOk_iff s).mp hh, rfl⟩
    · rename_i hh; rw [if_neg hh] at h; exact ⟨h, rfl⟩
  have hback : ∀ (t : WType) (s : St), (destroyOf t s).status = .ok → s.status = .ok := by
    intro t s h
    cases hs : s.isOk
    · unfold destroyOf at h; rw [destroyList_not_ok t _ s hs] at h; exact h
    · exact (St.isOk_iff s).mp hs
  obtain ⟨h5, hlog⟩ := hfin _ hok
  have h4 := hback _ _ h5
  have h3 := hback _ _ h4
  have h2 := hback _ _ h3
  have h1 := hback _ _ h2
  have r0 : Ready s0 s0 [.io, .timer, .later, .signal, .process] :=
    ⟨fun _ _ => rfl, fun t _ b hb => ⟨rfl, w0.live t b hb⟩⟩
  obtain ⟨l1, r1⟩ := ready_step s0 s0 w0 .io _ (by decide) r0 h1
  obtain ⟨l2, r2⟩ := ready_step s0 _ w0 .timer _ (by decide) r1 h2
  obtain ⟨l3, r3⟩ := ready_step s0 _ w0 .later _ (by decide) r2 h3
  obtain ⟨l4, r4⟩ := ready_step s0 _ w0 .signal _ (by decide) r3 h4
  obtain ⟨l5, _⟩ := ready_step s0 _ w0 .process _ (by decide) r4 h5
  rw [hlog, l5, l4, l3, l2, l1]
  simp only [List.filterMap_append, List.reverse_append, List.append_assoc]

/-- The same for a reachable state. -/
theorem destroy_log_reachable (cfg : Config) (hc : cfg.timersPop = true) (ops : List Op)
    (hok : (runOps cfg ops).status = .ok) (hd : (destroy (runOps cfg ops)).status = .ok) :
    (destroy (runOps cfg ops)).log =
      ((listOf (cancelSigchld (runOps cfg ops)) .io ++ listOf (cancelSigchld (runOps cfg ops)) .timer ++
        listOf (cancelSigchld (runOps cfg ops)) .later ++ listOf (cancelSigchld (runOps cfg ops)) .signal ++
        listOf (cancelSigchld (runOps cfg ops)) .process).filterMap (destroyNote (cancelSigchld (runOps cfg ops)))).reverse
      ++ (cancelSigchld (runOps cfg ops)).log := by
  obtain ⟨w, hcfg⟩ := wf_runOps' cfg hc ops hok
  have hc' : (runOps cfg ops).cfg.timersPop = true := by rw [hcfg]; exact hc
  have w0 : WF (cancelSigchld (runOps cfg ops)) := by
    unfold cancelSigchld
    split
    · exact (l_watchCancel _ _ hc' w).wf
    · exact w
  exact destroy_log _ ((St.isOk_iff _).mpr hok) w0 hd

end Tickit.EvLoop
