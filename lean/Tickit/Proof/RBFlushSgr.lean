import Tickit.Proof.Sgr
import Tickit.Proof.RBFlushX
/-
  Proof/RBFlushSgr.lean - C04, xterm-driver configuration: the VT screen's reading of the driver's SGR bytes.

  * `XScreen.interp_renderSgr`: the tokenizer of the VT screen (C09's conventions, `XScreen.step`) reads
    `ESC [ params m` as the xterm driver renders it (`TermPen.renderSgr`, `;` and `:` separators) as one SGR control
    sequence with exactly the groups C10's parser sees (`Proof.Sgr.groupsFlat`) - so the two terminals agree on every
    byte string `chpen` can write (`interp_chpen_bytes`);
  * the pen model of the flush (`RBFlush.termSetpen` / `termSetpenDelta`) is C10's (`TermPen.termCache` / `termDelta`
    with `set = true`) for colour indices below `tt->colors = 256` (`toTP_termSetpen`);
  * `interp_setpen`: a setpen request of the flush, read by a VT screen whose rendition is in step with `tt->pen`,
    leaves the screen untouched but for the rendition, which is in step with `tt->pen` afterwards (C10's `step_inv`).
-/
namespace Tickit.RBFlushX
open Tickit.RB Tickit.RBFlush

/-- C10's bytes (`Nat`) as the bytes of this configuration. -/
def toBytes (bs : List Nat) : Bytes := bs.map UInt8.ofNat

theorem toBytes_append (a b : List Nat) : toBytes (a ++ b) = toBytes a ++ toBytes b := by simp [toBytes]

namespace XScreen
open VT (CsiAcc classify isDigit digitsValue)
open Tickit.Proof.Sgr (groupsFlat digitsRev_lt digitsRev_foldr digitsRev_ne_nil)

theorem digitsValue_map (ds : List Nat) (hd : ∀ d ∈ ds, d < 10) (x : Nat) :
    digitsValue (toBytes (ds.map (· + 48))) x = ds.foldl (fun a d => a * 10 + d) x := by
  induction ds generalizing x with
  | nil => rfl
  | cons d rest ih =>
    have hlt : d < 10 := hd d (by simp)
    have h48 : d + 48 = 48 + d := by omega
    simp only [toBytes, List.map_cons, digitsValue, List.foldl_cons, h48, digit_toNat d hlt]
    exact ih (fun y hy => hd y (by simp [hy])) _

theorem tp_showNat_digits (n : Nat) : ∀ b ∈ toBytes (TermPen.showNat n), isDigit b = true := by
  intro b hb
  simp only [toBytes, TermPen.showNat, List.mem_map, List.mem_reverse] at hb
  obtain ⟨x, ⟨d, hd, hx⟩, rfl⟩ := hb
  have hlt := digitsRev_lt _ _ d hd
  have h48 : x = 48 + d := by omega
  rw [h48]
  exact digit_isDigit d hlt

theorem tp_showNat_ne (n : Nat) : toBytes (TermPen.showNat n) ≠ [] := by
  have := digitsRev_ne_nil n n
  simp [toBytes, TermPen.showNat, this]

theorem tp_showNat_value (n : Nat) : digitsValue (toBytes (TermPen.showNat n)) 0 = n := by
  unfold TermPen.showNat
  rw [digitsValue_map _ (by
    intro d hd
    exact digitsRev_lt _ _ d (by simpa using hd))]
  rw [List.foldl_reverse]
  simpa using digitsRev_foldr (n + 1) n (by omega)

/-- The screen's tokenizer reads back what `%d` printed. -/
theorem interp_tp_showNat (n : Nat) (s : XScreen) (a : CsiAcc) (hi : a.inter = []) (hc : a.cur = none) :
    ({ s with ps := .csi a } : XScreen).interp (toBytes (TermPen.showNat n)) =
      { s with ps := .csi { a with cur := some n } } := by
  rw [interp_digits _ (tp_showNat_digits n) s a hi (tp_showNat_ne n)]
  simp [hc, tp_showNat_value]

theorem step_colon (s : XScreen) (a : CsiAcc) (hi : a.inter = []) :
    ({ s with ps := .csi a } : XScreen).step 0x3a = { s with ps := .csi { a with sub := a.sub ++ [a.cur], cur := none } } := by
  have : classify 0x3a = .colon := by decide
  simp [step, csiByte, this, hi]

theorem step_semi (s : XScreen) (a : CsiAcc) (hi : a.inter = []) :
    ({ s with ps := .csi a } : XScreen).step 0x3b =
      { s with ps := .csi { a with done := a.done ++ [a.sub ++ [a.cur]], sub := [], cur := none } } := by
  have : classify 0x3b = .semi := by decide
  simp [step, csiByte, this, hi]

/-- The two `sprintf` loops of `chpen`, read by the screen's tokenizer: the parameters with their sub-parameters. -/
theorem interp_renderBody (colon : Bool) (ps : List TermPen.Param) (s : XScreen) (a : CsiAcc) (hi : a.inter = [])
    (hc : a.cur = none) :
    ∃ a' : CsiAcc, ({ s with ps := .csi a } : XScreen).interp (toBytes (TermPen.renderBody colon ps)) = { s with ps := .csi a' } ∧
      a'.inter = [] ∧ a'.priv = a.priv ∧ a'.params = groupsFlat colon ps a.done a.sub := by
  induction ps generalizing a with
  | nil =>
    refine ⟨a, rfl, hi, rfl, ?_⟩
    simp [CsiAcc.params, groupsFlat, hc]
  | cons p tl ih =>
    cases tl with
    | nil =>
      refine ⟨{ a with cur := some p.val }, ?_, hi, rfl, ?_⟩
      · simp only [TermPen.renderBody]
        exact interp_tp_showNat _ s a hi hc
      · simp [CsiAcc.params, groupsFlat]
    | cons q rest =>
      simp only [TermPen.renderBody, toBytes_append, interp_append, interp_tp_showNat _ s a hi hc]
      by_cases h : (p.more && colon) = true
      · simp only [h, if_true, groupsFlat]
        have hb : toBytes [58] = [0x3a] := rfl
        rw [hb, interp_cons, interp_nil, step_colon s _ (by simpa using hi)]
        obtain ⟨a', h1, h2, h3, h4⟩ := ih { a with sub := a.sub ++ [some p.val], cur := none } (by simpa using hi) rfl
        exact ⟨a', h1, h2, h3, h4⟩
      · have h' : (p.more && colon) = false := by simpa using h
        simp only [h', groupsFlat, Bool.false_eq_true, if_false]
        have hb : toBytes [59] = [0x3b] := rfl
        rw [hb, interp_cons, interp_nil, step_semi s _ (by simpa using hi)]
        obtain ⟨a', h1, h2, h3, h4⟩ :=
          ih { a with done := a.done ++ [a.sub ++ [some p.val]], sub := [], cur := none } (by simpa using hi) rfl
        exact ⟨a', h1, h2, h3, h4⟩

theorem dispatch_sgr (s : XScreen) (ps) : s.dispatch 0 ps [] 0x6d = { s with attrs := Sgr.sgrApply ps s.attrs } := rfl

/-- **SGR on the VT screen**: `ESC [ params m` as the xterm driver renders it is read as one SGR control sequence with
    the groups C10's parser sees; nothing but the rendition changes. -/
theorem interp_renderSgr (colon : Bool) (ps : List TermPen.Param) (s : XScreen) (hg : s.ps = .ground) :
    s.interp (toBytes (TermPen.renderSgr colon ps)) = { s with attrs := Sgr.sgrApply (groupsFlat colon ps [] []) s.attrs } := by
  unfold TermPen.renderSgr
  rw [toBytes_append, toBytes_append, interp_append, interp_append]
  have h1 : s.interp (toBytes [27, 91]) = { s with ps := .csi CsiAcc.empty } := by
    have e : toBytes [27, 91] = [0x1b, 0x5b] := rfl
    have s1 : s.step 0x1b = { s with ps := .esc } := by simp [step, hg, groundByte]
    have s2 : ({ s with ps := .esc } : XScreen).step 0x5b = { s with ps := .csi CsiAcc.empty } := by simp [step]
    rw [e, interp_cons, s1, interp_cons, s2, interp_nil]
  rw [h1]
  obtain ⟨a', hrun, hi, hp, hg'⟩ := interp_renderBody colon ps s CsiAcc.empty rfl rfl
  rw [hrun]
  have e : toBytes [109] = [0x6d] := rfl
  have hf : classify 0x6d = .final := by decide
  have hp0 : a'.priv = 0 := by rw [hp]; rfl
  rw [e, interp_cons, interp_nil]
  simp only [step, csiByte, hf, hp0, hi, hg']
  rw [set_ps_self s _ hg]
  exact dispatch_sgr s _

/-- Whatever `chpen` writes, the VT screen and C10's SGR terminal read it alike: only the rendition changes, and it
    changes to what C10's terminal renders with afterwards. -/
theorem interp_chpen_bytes (caps : TermPen.Caps) (cap : Nat) (d f : TermPen.Pen) (bs : List Nat)
    (h : TermPen.xtermChpen caps cap d f = .bytes bs) (s : XScreen) (hg : s.ps = .ground) :
    s.interp (toBytes bs) = { s with attrs := (Sgr.run bs ⟨.ground, s.attrs⟩).attrs } ∧
    (Sgr.run bs ⟨.ground, s.attrs⟩).st = .ground := by
  unfold TermPen.xtermChpen at h
  simp only at h
  split at h
  · cases h
  · split at h
    · simp only [TermPen.Out.bytes.injEq] at h
      subst h
      exact ⟨by cases s; rfl, rfl⟩
    · split at h
      all_goals
        simp only [TermPen.Out.bytes.injEq] at h
        subst h
        rw [interp_renderSgr _ _ s hg, Tickit.Proof.Sgr.run_renderSgr]
        exact ⟨rfl, rfl⟩

end XScreen

/-! ### The pen model of the flush is C10's -/

theorem getColour_toTP (o : Option Colour) : TermPen.getColour (o.map toTPColour) = Pen.getColour o := by
  cases o <;> rfl

theorem equivColour_toTP (a b : Option Colour) :
    TermPen.equivColour (a.map toTPColour) (b.map toTPColour) = Pen.equivColour a b := by
  unfold TermPen.equivColour Pen.equivColour
  simp only [getColour_toTP]
  by_cases h : Pen.getColour a ≠ Pen.getColour b
  · simp [h]
  · simp only [h, if_false]
    rcases a with _ | ⟨ai, _ | ax⟩ <;> rcases b with _ | ⟨bi, _ | bx⟩ <;>
      simp [TermPen.hasRgb, TermPen.getRgb, Pen.getRgb, toTPColour]

theorem copyColour_toTP (o : Option Colour) : TermPen.copyColour (o.map toTPColour) = toTPColour (colourVal o) := by
  rcases o with _ | ⟨i, _ | x⟩ <;>
    simp [TermPen.copyColour, TermPen.hasRgb, TermPen.getRgb, TermPen.getColour, toTPColour, colourVal, Pen.getColour,
      Pen.getRgb]

theorem setAttr_bool (t p : Option Bool) : setAttr Pen.equivBool Pen.getBool t p = TermPen.stepBool true t p := by
  simp [setAttr, TermPen.stepBool, Pen.equivBool, Pen.getBool, TermPen.getBool]

theorem setAttr_int (t p : Option Int) : setAttr Pen.equivInt Pen.getInt t p = TermPen.stepInt true t p := by
  simp [setAttr, TermPen.stepInt, Pen.equivInt, Pen.getInt, TermPen.getInt]

theorem setAttr_colour (t p : Option Colour) (h : Pen.getColour p < 256) :
    ((setAttr Pen.equivColour colourVal t p).1.map toTPColour, (setAttr Pen.equivColour colourVal t p).2.map toTPColour) =
      TermPen.stepColour true 256 (t.map toTPColour) (p.map toTPColour) := by
  unfold setAttr TermPen.stepColour
  simp only [equivColour_toTP, getColour_toTP, copyColour_toTP, Option.isSome_map]
  have hn : ¬ Pen.getColour p ≥ 256 := by omega
  by_cases hc : (t.isSome && Pen.equivColour t p) = true
  · simp [hc]
  · simp [hc, hn]

/-- `tickit_term_setpen` as the flush models it is C10's `tickit_term_setpen` (`set = true`, 256 colours). -/
theorem toTP_termSetpen (cache p : Pen) (hf : Pen.getColour p.fg < 256) (hb : Pen.getColour p.bg < 256) :
    toTP (termSetpen cache p) = TermPen.termCache true 256 (toTP cache) (toTP p) ∧
    toTP (termSetpenDelta cache p) = TermPen.termDelta true 256 (toTP cache) (toTP p) := by
  have h1 := setAttr_colour cache.fg p.fg hf
  have h2 := setAttr_colour cache.bg p.bg hb
  have f1 := congrArg Prod.fst h1
  have f2 := congrArg Prod.snd h1
  have b1 := congrArg Prod.fst h2
  have b2 := congrArg Prod.snd h2
  simp only at f1 f2 b1 b2
  constructor
  · simp only [toTP, termSetpen, TermPen.termCache, setAttr_bool, setAttr_int, f1, b1]
  · simp only [toTP, termSetpenDelta, TermPen.termDelta, setAttr_bool, setAttr_int, f2, b2]

/-! ### A setpen request on the VT screen -/

theorem convPen_toTP (p : Pen) (hf : Pen.getColour p.fg < 256) (hb : Pen.getColour p.bg < 256) :
    TermPen.convPen 256 (toTP p) = toTP p := by
  have h1 : (p.fg.map toTPColour).map (TermPen.convColour 256) = p.fg.map toTPColour := by
    cases h : p.fg with
    | none => rfl
    | some c =>
      rw [h] at hf
      simp only [Option.map_some]
      rw [Tickit.Proof.Sgr.convColour_of_lt]
      exact hf
  have h2 : (p.bg.map toTPColour).map (TermPen.convColour 256) = p.bg.map toTPColour := by
    cases h : p.bg with
    | none => rfl
    | some c =>
      rw [h] at hb
      simp only [Option.map_some]
      rw [Tickit.Proof.Sgr.convColour_of_lt]
      exact hb
  simp only [TermPen.convPen, toTP, h1, h2]

/-- With colour indices below `tt->colors` the rendition a pen asks for is C10's `expectAttrs` of the same pen. -/
theorem expectAttrs_toTP (caps : TermPen.Caps) (p : Pen) (hf : Pen.getColour p.fg < 256) (hb : Pen.getColour p.bg < 256) :
    expectAttrs caps p = TermPen.expectAttrs caps (toTP p) := by
  unfold expectAttrs TermPen.expected
  simp only [convPen_toTP p hf hb]

theorem deltaOk_of_encodable (caps : TermPen.Caps) (p : Pen) (h : PenEncodable caps p) :
    Tickit.Proof.Sgr.DeltaOk caps (toTP p) := by
  obtain ⟨_, _, _, _, hu0, hu2, hs0, hs3, hsn⟩ := h
  constructor
  · intro v hv
    have e : Pen.getInt p.under = v := by
      simp only [toTP] at hv
      simp [hv, Pen.getInt]
    rw [e] at hu0 hu2
    refine ⟨hu0, ?_⟩
    cases hc : caps.colon
    · exact Or.inr (hu2 hc)
    · exact Or.inl rfl
  · intro v hv
    have e : Pen.getInt p.sizepos = v := by
      simp only [toTP] at hv
      simp [hv, Pen.getInt]
    rw [e] at hs0 hs3 hsn
    simp only [Tickit.Gen.Sgr.sizeposSmall, Tickit.Gen.Sgr.sizeposSuperscript, Tickit.Gen.Sgr.sizeposSubscript] at *
    omega

theorem setAttr_fst {α : Type} (eqv : Option α → Option α → Bool) (val : Option α → α) (t p : Option α) :
    (setAttr eqv val t p).1 = t ∨ (setAttr eqv val t p).1 = some (val p) := by
  unfold setAttr
  split
  · exact Or.inl rfl
  · exact Or.inr rfl

theorem setAttr_fst_isSome {α : Type} (eqv : Option α → Option α → Bool) (val : Option α → α) (t p : Option α) :
    (setAttr eqv val t p).1.isSome = true := by
  unfold setAttr
  split
  · rename_i h
    simp only [Bool.and_eq_true] at h
    exact h.1
  · rfl

/-- `tt->pen` holds every attribute after a `tickit_term_setpen`. -/
theorem penTotal_termSetpen (cache p : Pen) : PenTotal (termSetpen cache p) := by
  simp [PenTotal, termSetpen, setAttr_fst_isSome]

theorem getColour_colourVal (o : Option Colour) : Pen.getColour (some (colourVal o)) = Pen.getColour o := rfl
theorem getInt_some_getInt (o : Option Int) : Pen.getInt (some (Pen.getInt o)) = Pen.getInt o := rfl

/-- A pen the driver can say stays one after `tickit_term_setpen` with a pen the driver can say. -/
theorem penEncodable_termSetpen (caps : TermPen.Caps) (cache p : Pen) (hc : PenEncodable caps cache)
    (hp : PenEncodable caps p) : PenEncodable caps (termSetpen cache p) := by
  unfold PenEncodable at *
  simp only [termSetpen]
  cases hcol : caps.colon <;> simp only [hcol, forall_const, Bool.true_eq_false, false_implies, true_and, and_true,
    Bool.false_eq_true] at hc hp ⊢ <;>
  rcases setAttr_fst Pen.equivColour colourVal cache.fg p.fg with h1 | h1 <;>
  rcases setAttr_fst Pen.equivColour colourVal cache.bg p.bg with h2 | h2 <;>
  rcases setAttr_fst Pen.equivInt Pen.getInt cache.under p.under with h3 | h3 <;>
  rcases setAttr_fst Pen.equivInt Pen.getInt cache.sizepos p.sizepos with h4 | h4 <;>
  simp only [h1, h2, h3, h4, getColour_colourVal, getInt_some_getInt] <;>
  simp only [Tickit.Gen.Sgr.sizeposSmall] at * <;> omega

/-- **setpen on the VT screen**: a setpen request of the flush - `tickit_term_setpen`'s delta against `tt->pen`, rendered
    by the driver's `chpen` - read by a VT screen whose rendition is in step with `tt->pen` changes nothing but the
    rendition, and leaves it in step with `tt->pen` as it is afterwards: for every cached pen and every requested pen the
    driver can say in SGR, both separators, with and without RGB. -/
theorem interp_setpen (caps : TermPen.Caps) (cache p : Pen) (s : XScreen) (hg : s.ps = .ground)
    (ha : s.attrs = expectAttrs caps cache) (hc : PenEncodable caps cache) (hp : PenEncodable caps p) :
    s.interp (reqCalls caps cache (.setpen p)).flatten = { s with attrs := expectAttrs caps (termSetpen cache p) } := by
  obtain ⟨hc1, hd1⟩ := toTP_termSetpen cache p hp.2.1 hp.2.2.2.1
  have henc := penEncodable_termSetpen caps cache p hc hp
  simp only [reqCalls, chpenCalls]
  rw [hd1, hc1]
  cases hx : TermPen.xtermChpen caps Tickit.Gen.Sgr.paramsCap (TermPen.termDelta true 256 (toTP cache) (toTP p))
      (TermPen.termCache true 256 (toTP cache) (toTP p)) with
  | overflow k =>
    exfalso
    have hl := Tickit.Proof.Sgr.length_flatten_comps caps (TermPen.termDelta true 256 (toTP cache) (toTP p))
    unfold TermPen.xtermChpen at hx
    simp only [Tickit.Gen.Sgr.paramsCap] at hx
    have hle : ¬ (TermPen.flatten (TermPen.comps caps (TermPen.termDelta true 256 (toTP cache) (toTP p)))).length > 20 := by
      omega
    by_cases h0 : (TermPen.flatten (TermPen.comps caps (TermPen.termDelta true 256 (toTP cache) (toTP p)))).length = 0
    · simp [hle, h0] at hx
    · by_cases h1 : TermPen.isNondefault (TermPen.termCache true 256 (toTP cache) (toTP p)) = true
      · simp [hle, h0, h1] at hx
      · simp [hle, h0, h1] at hx
  | bytes bs =>
    simp only [call_flatten]
    obtain ⟨h1, _⟩ := XScreen.interp_chpen_bytes caps _ _ _ bs hx s hg
    have hb : bs.map UInt8.ofNat = toBytes bs := rfl
    rw [hb, h1]
    let cfg : TermPen.Cfg := ⟨256, caps, Tickit.Gen.Sgr.paramsCap⟩
    have hstep : TermPen.step cfg ⟨toTP cache, ⟨.ground, s.attrs⟩⟩ (.set (toTP p)) =
        some ⟨TermPen.termCache true 256 (toTP cache) (toTP p), Sgr.run bs ⟨.ground, s.attrs⟩⟩ := by
      simp only [TermPen.step, TermPen.emit, TermPen.Op.isSet, TermPen.Op.pen, cfg, hx]
    have hinv : Tickit.Proof.Sgr.Inv cfg.caps ⟨toTP cache, ⟨.ground, s.attrs⟩⟩ :=
      ⟨rfl, by rw [ha]; exact expectAttrs_toTP caps cache hc.2.1 hc.2.2.2.1⟩
    have := (Tickit.Proof.Sgr.step_inv cfg _ _ (.set (toTP p)) (deltaOk_of_encodable caps p hp) hinv hstep).1.2
    simp only [TermPen.Op.isSet, cfg] at this
    rw [this, ← hc1, ← expectAttrs_toTP caps _ henc.2.1 henc.2.2.2.1]

end Tickit.RBFlushX
