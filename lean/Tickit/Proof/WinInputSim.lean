import Tickit.Proof.WinInputSafe
/-
  Towards "delivery to the windows a mutation does not affect" (C14): the vocabulary.

  `A : Aff` is a set of windows (the windows *affected* by the mutations the handlers perform, closed under
  descendants).  `Sim A t0 t`: the store `t` is the store `t0` up to what happened to windows of `A` — every window
  outside `A` still has the fields the routing looks at (liveness, visibility, steal-input, parent, rectangle), its
  children list is the old one with some windows of `A` removed (`Kids`), and its focus pointer is the old one or both
  point into `A` (or nowhere) (`FcRel`); and the children of a window of `A` are in `A` (`Down`).
-/
namespace Tickit
namespace WinInput
open WinTree

/-- A set of windows. -/
abbrev Aff := WinTree.Id → Bool

/-- `cs` is `cs0` with some windows of `A` removed. -/
inductive Kids (A : Aff) : List WinTree.Id → List WinTree.Id → Prop where
  | nil : Kids A [] []
  | keep (x : WinTree.Id) {cs cs0 : List WinTree.Id} : Kids A cs cs0 → Kids A (x :: cs) (x :: cs0)
  | drop {a : WinTree.Id} {cs cs0 : List WinTree.Id} : A a = true → Kids A cs cs0 → Kids A cs (a :: cs0)

theorem Kids.refl (A : Aff) : ∀ (cs : List WinTree.Id), Kids A cs cs
  | [] => Kids.nil
  | x :: cs => Kids.keep x (Kids.refl A cs)

theorem Kids.trans {A : Aff} {a b c : List WinTree.Id} (h1 : Kids A a b) (h2 : Kids A b c) : Kids A a c := by
  induction h2 generalizing a with
  | nil => exact h1
  | keep x _ ih =>
    cases h1 with
    | keep _ h => exact Kids.keep x (ih h)
    | drop hx h => exact Kids.drop hx (ih h)
  | drop hx _ ih => exact Kids.drop hx (ih h1)

theorem Kids.mem {A : Aff} {cs cs0 : List WinTree.Id} (h : Kids A cs cs0) {x : WinTree.Id} (hx : x ∈ cs) : x ∈ cs0 := by
  induction h with
  | nil => exact hx
  | keep y _ ih =>
    rcases List.mem_cons.1 hx with rfl | hx'
    · exact List.mem_cons_self ..
    · exact List.mem_cons_of_mem _ (ih hx')
  | drop _ _ ih => exact List.mem_cons_of_mem _ (ih hx)

theorem Kids.mem_of_not {A : Aff} {cs cs0 : List WinTree.Id} (h : Kids A cs cs0) {x : WinTree.Id} (hx : x ∈ cs0)
    (hA : A x = false) : x ∈ cs := by
  induction h with
  | nil => exact hx
  | keep y _ ih =>
    rcases List.mem_cons.1 hx with rfl | hx'
    · exact List.mem_cons_self ..
    · exact List.mem_cons_of_mem _ (ih hx')
  | @drop a _ _ ha _ ih =>
    rcases List.mem_cons.1 hx with rfl | hx'
    · rw [ha] at hA; cases hA
    · exact ih hx'

/-- Removing a window of `A`. -/
theorem Kids.erase {A : Aff} {a : WinTree.Id} (ha : A a = true) : ∀ (cs : List WinTree.Id), Kids A (cs.erase a) cs
  | [] => Kids.nil
  | x :: cs => by
    by_cases hx : x = a
    · subst hx; rw [List.erase_cons_head]; exact Kids.drop ha (Kids.refl A cs)
    · rw [List.erase_cons_tail (by simpa using hx)]; exact Kids.keep x (Kids.erase ha cs)

/-- The focus pointer is the old one, or both point into `A` (or nowhere). -/
def FcRel (A : Aff) (fc fc0 : Option WinTree.Id) : Prop :=
  fc = fc0 ∨ ((∀ x, fc = some x → A x = true) ∧ (∀ x, fc0 = some x → A x = true))

theorem FcRel.refl (A : Aff) (fc : Option WinTree.Id) : FcRel A fc fc := Or.inl rfl

theorem FcRel.trans {A : Aff} {a b c : Option WinTree.Id} (h1 : FcRel A a b) (h2 : FcRel A b c) : FcRel A a c := by
  rcases h1 with rfl | ⟨p1, q1⟩
  · exact h2
  · rcases h2 with rfl | ⟨_, q2⟩
    · exact Or.inr ⟨p1, q1⟩
    · exact Or.inr ⟨p1, q2⟩

/-- What the routing looks at in a window outside `A`, now (`w`) and before (`w0`). -/
structure WinRel (A : Aff) (w w0 : Win) : Prop where
  freed : w.freed = w0.freed
  visible : w.isVisible = w0.isVisible
  steal : w.stealInput = w0.stealInput
  parent : w.parent = w0.parent
  rect : w.rect = w0.rect
  kids : Kids A w.children w0.children
  fc : FcRel A w.focusedChild w0.focusedChild

theorem WinRel.refl (A : Aff) (w : Win) : WinRel A w w := ⟨rfl, rfl, rfl, rfl, rfl, Kids.refl A _, FcRel.refl A _⟩

theorem WinRel.trans {A : Aff} {a b c : Win} (h1 : WinRel A a b) (h2 : WinRel A b c) : WinRel A a c :=
  ⟨h1.freed.trans h2.freed, h1.visible.trans h2.visible, h1.steal.trans h2.steal, h1.parent.trans h2.parent,
   h1.rect.trans h2.rect, h1.kids.trans h2.kids, h1.fc.trans h2.fc⟩

/-- The children of a window of `A` are in `A`. -/
def Down (A : Aff) (t : Tree) : Prop :=
  ∀ (x : WinTree.Id) (w : Win), A x = true → t.wins[x]? = some w → ∀ c ∈ w.children, A c = true

/-- `t` is `t0` up to what happened to windows of `A`. -/
structure Sim (A : Aff) (t0 t : Tree) : Prop where
  size : t.wins.size = t0.wins.size
  win : ∀ (x : WinTree.Id) (w0 : Win), A x = false → t0.wins[x]? = some w0 → ∃ w, t.wins[x]? = some w ∧ WinRel A w w0
  down : Down A t

theorem Sim.refl {A : Aff} {t : Tree} (hd : Down A t) : Sim A t t :=
  ⟨rfl, fun _ w0 _ h => ⟨w0, h, WinRel.refl A w0⟩, hd⟩

theorem Sim.trans {A : Aff} {a b c : Tree} (h1 : Sim A a b) (h2 : Sim A b c) : Sim A a c := by
  refine ⟨h2.size.trans h1.size, ?_, h2.down⟩
  intro x w0 hx hw0
  obtain ⟨w1, hw1, r1⟩ := h1.win x w0 hx hw0
  obtain ⟨w2, hw2, r2⟩ := h2.win x w1 hx hw1
  exact ⟨w2, hw2, r2.trans r1⟩

/-- Same windows. -/
theorem Sim.of_wins {A : Aff} {t t' : Tree} (hd : Down A t) (h : t'.wins = t.wins) : Sim A t t' :=
  ⟨by rw [h], fun _ w0 _ hw => ⟨w0, by rw [h]; exact hw, WinRel.refl A w0⟩, fun x w hx hw => hd x w hx (by rw [← h]; exact hw)⟩

/-- One window changes, in fields the routing does not look at or inside `A`. -/
theorem Sim.set {A : Aff} {t : Tree} (hd : Down A t) {i : WinTree.Id} {w w' : Win} (hw : t.wins[i]? = some w)
    (hrel : A i = false → WinRel A w' w) (hdown : A i = true → ∀ c ∈ w'.children, A c = true) :
    Sim A t (WinTree.set t i w') := by
  refine ⟨by simp, ?_, ?_⟩
  · intro x w0 hx hw0
    by_cases hix : i = x
    · subst hix
      rw [hw] at hw0; cases hw0
      exact ⟨w', wins_set_self hw, hrel hx⟩
    · exact ⟨w0, by rw [wins_set_ne hix]; exact hw0, WinRel.refl A w0⟩
  · intro x y hx hy
    rcases wins_set_cases hw x y hy with ⟨rfl, rfl⟩ | ⟨_, hy0⟩
    · exact hdown hx
    · exact hd x y hx hy0

/-- Every live window outside `A` is still owned by the application (nobody dropped its creation reference). -/
def Own (A : Aff) (st : St) : Prop :=
  ∀ (x : WinTree.Id) (w : Win), A x = false → st.tree.wins[x]? = some w → w.freed = false → 1 ≤ st.owned.getD x 0

/-- An action of a handler that touches windows of `A` only: restack requests and extra references touch nothing
    the routing looks at before the next flush; close, unref, hide, show, steal-input and set_geometry act on a window of `A`.
    (`take_focus` moves focus pointers along the whole parent chain: covered separately, `ActConfF` in
    Proof/WinInputDeliver.lean, when `A` is a union of top-level subtrees.) -/
def ActConf (A : Aff) (a : Action) : Prop :=
  match a.act with
  | .raise | .raiseFront | .lower | .lowerBack | .keep => True
  | .close | .unref | .hide | .unhide | .stealOn | .stealOff | .geom .. => A a.win = true
  | .focus => False

end WinInput
end Tickit
