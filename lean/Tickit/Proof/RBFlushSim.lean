import Tickit.Proof.RBFlushSgr
import Tickit.Proof.RBFlushScreen
/-
  Proof/RBFlushSim.lean - C04, xterm-driver configuration: the simulation between the grid terminal (the meaning of the
  requests, `GridTerm.stepL` on a screen of `L` lines - what `flush_spec_screen` talks about) and the VT screen that reads
  the bytes the real xterm driver writes for those requests (`XScreen.interp ∘ reqCalls`).

  `Sim` relates the two terminals but for the cursor (same width, VT in its ground state, rendition in step with
  `tt->pen`, the oracle of the grid terminal says what the xterm driver does for `erasech(…, MAYBE)`: the cursor stays,
  every cell either untouched on both sides or written on both sides with the same glyph, the same number of times, the
  VT cell carrying the rendition the grid cell's pen asks for - an erased cell its background only);  `Cur` relates the
  cursors (the grid terminal's `col = cols` is the VT's pending wrap).  One request of the flush keeps both:
  `goto_sim` (establishes `Cur`: every line of a flush starts with a goto), `setpen_sim`, `erase_sim` (outside reverse
  video), `print_sim` (a print request carrying well-formed UTF-8 of printable code points of two, one or no columns that fit on
  the line: CHAR cells, TEXT runs, LINE batches).
  `sim_xcellOK` turns the grid terminal's `cellOK` into the VT screen's `xcellOK`.
-/
namespace Tickit.RBFlushX
open Tickit.RB Tickit.RBFlush

/-- A cell written since the simulation started: more writes than at the start, the same glyph on both terminals, and
    the VT cell rendered with what the grid cell's pen asks for (an erased cell: with its background only - ECH). -/
def Written (caps : TermPen.Caps) (t0c tc : TCell) (xc : XCell) : Prop :=
  t0c.writes < tc.writes ∧ xc.glyph = tc.glyph ∧
  xc.attrs = (if tc.glyph = .blank then XScreen.blankAttrs (expectAttrs caps tc.pen) else expectAttrs caps tc.pen)

/-- The grid terminal `t` and the VT screen `s` show the same, having started from `t0` and `s0`. -/
structure Sim (caps : TermPen.Caps) (t0 : GridTerm) (s0 : XScreen) (t : GridTerm) (s : XScreen) : Prop where
  lines : 0 < s.lines
  cols : s.cols = t.cols
  cols_pos : 0 < t.cols
  ground : s.ps = .ground
  attrs : s.attrs = expectAttrs caps t.pen
  enc : PenEncodable caps t.pen
  oracle : ∀ k, t.oracle k = false
  writes : ∀ l c, (s.cells l c).writes = (t.cells l c).writes
  cells : ∀ l c, (t.cells l c = t0.cells l c ∧ s.cells l c = s0.cells l c) ∨
    Written caps (t0.cells l c) (t.cells l c) (s.cells l c)

/-- The cursors agree: the grid terminal's `col = cols` is the VT's pending wrap on the last column; the cell a
    zero-width character would join is the same, and it is one written since the simulation started. -/
structure Cur (t0 t : GridTerm) (s : XScreen) : Prop where
  row : s.row = t.line
  rowIn : 0 ≤ t.line ∧ t.line < s.lines
  col : (s.pending = false ∧ s.col = t.col ∧ 0 ≤ t.col ∧ t.col < t.cols) ∨
    (s.pending = true ∧ t.col = t.cols ∧ s.col = t.cols - 1)
  last : s.last = t.last
  lastW : ∀ p, t.last = some p →
    (t0.cells p.1 p.2).writes < (t.cells p.1 p.2).writes ∧ ∃ g, (t.cells p.1 p.2).glyph = .chars g

/-- The grid terminal that shows what the VT screen `s` shows, with `tt->pen = cache`, behaving as the xterm driver does
    (`erasech(…, MAYBE)` leaves the cursor, `print` goes through `write_str`). -/
def gridOf (s : XScreen) (cache : Pen) : GridTerm :=
  { cells := fun l c => { glyph := (s.cells l c).glyph, pen := {}, writes := (s.cells l c).writes }
    line := s.row, col := s.col, cols := s.cols, last := s.last, pen := cache, viaWriteStr := true }

/-- The simulation starts from any VT screen whose rendition is in step with `tt->pen`. -/
theorem sim_init (caps : TermPen.Caps) (s : XScreen) (cache : Pen) (hl : 0 < s.lines) (hc : 0 < s.cols)
    (hg : s.ps = .ground) (ha : s.attrs = expectAttrs caps cache) (he : PenEncodable caps cache) :
    Sim caps (gridOf s cache) s (gridOf s cache) s :=
  { lines := hl, cols := rfl, cols_pos := hc, ground := hg, attrs := ha, enc := he, oracle := fun _ => rfl,
    writes := fun _ _ => rfl, cells := fun _ _ => Or.inl ⟨rfl, rfl⟩ }

theorem Sim.mono {caps : TermPen.Caps} {t0 t : GridTerm} {s0 s : XScreen} (h : Sim caps t0 s0 t s) (l c : Int) :
    (t0.cells l c).writes ≤ (t.cells l c).writes := by
  rcases h.cells l c with ⟨h1, _⟩ | ⟨h1, _⟩
  · rw [h1]; exact Nat.le_refl _
  · exact Nat.le_of_lt h1

/-! ### goto -/

/-- **goto_sim**: a goto request of the flush (non-negative line and column), read by the VT screen as the bytes of the
    driver's `goto_abs`, does what it does on the grid terminal with `L = s.lines` lines (clamping included), and leaves
    the two cursors in agreement whatever they were before. -/
theorem goto_sim {caps : TermPen.Caps} {t0 t : GridTerm} {s0 s : XScreen} (h : Sim caps t0 s0 t s) (l c : Int)
    (hl : 0 ≤ l) (hc : 0 ≤ c) :
    Sim caps t0 s0 (t.stepL s.lines (.goto l c)) (s.interp (reqCalls caps t.pen (.goto l c)).flatten) ∧
    Cur t0 (t.stepL s.lines (.goto l c)) (s.interp (reqCalls caps t.pen (.goto l c)).flatten) ∧
    (s.interp (reqCalls caps t.pen (.goto l c)).flatten).lines = s.lines := by
  have e : s.interp (reqCalls caps t.pen (.goto l c)).flatten = s.moveTo l c := by
    simp only [reqCalls, call_flatten]
    exact XScreen.interp_gotoAbs s h.ground l c hl hc
  rw [e]
  have hL := h.lines
  have hC := h.cols_pos
  have hcs := h.cols
  refine ⟨?_, ?_, rfl⟩
  · exact { lines := h.lines, cols := h.cols, cols_pos := h.cols_pos, ground := h.ground, attrs := h.attrs, enc := h.enc,
            oracle := h.oracle, writes := h.writes, cells := h.cells }
  · refine { row := rfl, rowIn := ?_, col := ?_, last := rfl, lastW := ?_ }
    · show 0 ≤ max 0 (min l (s.lines - 1)) ∧ max 0 (min l (s.lines - 1)) < s.lines
      omega
    · left
      refine ⟨rfl, ?_, ?_, ?_⟩
      · show max 0 (min c (s.cols - 1)) = max 0 (min c (t.cols - 1))
        rw [hcs]
      · show 0 ≤ max 0 (min c (t.cols - 1))
        omega
      · show max 0 (min c (t.cols - 1)) < t.cols
        omega
    · intro p hp
      have hn : (t.stepL s.lines (.goto l c)).last = none := rfl
      rw [hn] at hp
      cases hp

/-! ### setpen -/

/-- **setpen_sim**: a setpen request keeps the two terminals in step (the rendition of the VT follows `tt->pen`), and
    moves neither cursor. -/
theorem setpen_sim {caps : TermPen.Caps} {t0 t : GridTerm} {s0 s : XScreen} (h : Sim caps t0 s0 t s) (p : Pen)
    (hp : PenEncodable caps p) :
    Sim caps t0 s0 (t.stepL s.lines (.setpen p)) (s.interp (reqCalls caps t.pen (.setpen p)).flatten) ∧
    (Cur t0 t s → Cur t0 (t.stepL s.lines (.setpen p)) (s.interp (reqCalls caps t.pen (.setpen p)).flatten)) ∧
    (s.interp (reqCalls caps t.pen (.setpen p)).flatten).lines = s.lines := by
  rw [interp_setpen caps t.pen p s h.ground h.attrs h.enc hp]
  refine ⟨?_, ?_, rfl⟩
  · exact { lines := h.lines, cols := h.cols, cols_pos := h.cols_pos, ground := h.ground, attrs := rfl,
            enc := penEncodable_termSetpen caps t.pen p h.enc hp, oracle := h.oracle, writes := h.writes,
            cells := h.cells }
  · intro hc
    exact { row := hc.row, rowIn := hc.rowIn, col := hc.col, last := hc.last, lastW := hc.lastW }

/-! ### erasech -/

namespace GT

theorem erasech_cells (t : GridTerm) (n : Int) (m : MaybeBool) (hn : 1 ≤ n) (l c : Int) :
    (t.erasech n m).cells l c =
      if l = t.line ∧ min t.col (t.cols - 1) ≤ c ∧ c < min t.col (t.cols - 1) + n ∧ c < t.cols then
        { glyph := .blank, pen := t.pen, writes := (t.cells l c).writes + 1 }
      else t.cells l c := by
  unfold GridTerm.erasech
  rw [if_neg (by omega)]
  cases m <;> rfl

theorem erasech_fields (t : GridTerm) (n : Int) (m : MaybeBool) (hn : 1 ≤ n) :
    (t.erasech n m).line = t.line ∧ (t.erasech n m).cols = t.cols ∧ (t.erasech n m).pen = t.pen ∧
    (t.erasech n m).oracle = t.oracle ∧ (t.erasech n m).last = none := by
  unfold GridTerm.erasech
  rw [if_neg (by omega)]
  cases m <;> exact ⟨rfl, rfl, rfl, rfl, rfl⟩

theorem erasech_col_yes (t : GridTerm) (n : Int) (hn : 1 ≤ n) :
    (t.erasech n .yes).col = min (min t.col (t.cols - 1) + n) (t.cols - 1) := by
  unfold GridTerm.erasech
  rw [if_neg (by omega)]

theorem erasech_col_maybe (t : GridTerm) (n : Int) (hn : 1 ≤ n) (ho : t.oracle t.nmaybe = false) :
    (t.erasech n .maybe).col = t.col := by
  unfold GridTerm.erasech
  rw [if_neg (by omega)]
  simp only [ho]
  rfl

end GT

theorem ech_cells (s : XScreen) (n : Int) (l c : Int) :
    (s.ech n).cells l c =
      if l = s.row ∧ s.col ≤ c ∧ c < s.col + n ∧ c < s.cols then
        { glyph := .blank, attrs := XScreen.blankAttrs s.attrs, writes := (s.cells l c).writes + 1 }
      else s.cells l c := rfl

/-- **erase_sim**: outside reverse video an erase request of `n ≥ 1` cells (`TICKIT_YES` or `TICKIT_MAYBE`, the two
    values the flush uses), read by the VT screen as the bytes of the driver's `erasech` (ECH, then CUF for
    `TICKIT_YES`), does what it does on the grid terminal: the same cells blanked once more, in the background of
    `tt->pen`; the cursors agree afterwards (moved to the end, clamped to the last column, or left where they were -
    also in the pending-wrap state). -/
theorem erase_sim {caps : TermPen.Caps} {t0 t : GridTerm} {s0 s : XScreen} (h : Sim caps t0 s0 t s) (hcur : Cur t0 t s)
    (n : Int) (hn : 1 ≤ n) (m : MaybeBool) (hm : m ≠ .no) (hrv : Pen.getBool t.pen.reverse = false) :
    Sim caps t0 s0 (t.stepL s.lines (.erasech n m)) (s.interp (reqCalls caps t.pen (.erasech n m)).flatten) ∧
    Cur t0 (t.stepL s.lines (.erasech n m)) (s.interp (reqCalls caps t.pen (.erasech n m)).flatten) ∧
    (s.interp (reqCalls caps t.pen (.erasech n m)).flatten).lines = s.lines := by
  have e : s.interp (reqCalls caps t.pen (.erasech n m)).flatten =
      if m = .yes then (s.ech n).moveTo s.row (s.col + n) else s.ech n := by
    simp only [reqCalls, hrv]
    exact interp_erase s h.ground n hn m
  have hstart : min t.col (t.cols - 1) = s.col := by
    rcases hcur.col with ⟨_, h2, h3, h4⟩ | ⟨_, h2, h3⟩ <;> omega
  obtain ⟨fl, fc, fp, fo, fla⟩ := GT.erasech_fields t n m hn
  have hcells : ∀ l c, (((t.erasech n m).cells l c = t0.cells l c ∧ (s.ech n).cells l c = s0.cells l c) ∨
      Written caps (t0.cells l c) ((t.erasech n m).cells l c) ((s.ech n).cells l c)) ∧
      ((s.ech n).cells l c).writes = ((t.erasech n m).cells l c).writes := by
    intro l c
    rw [GT.erasech_cells t n m hn, ech_cells, hstart, ← hcur.row, h.cols]
    by_cases hin : l = s.row ∧ s.col ≤ c ∧ c < s.col + n ∧ c < t.cols
    · rw [if_pos hin, if_pos hin]
      refine ⟨Or.inr ⟨Nat.lt_succ_of_le (h.mono l c), rfl, ?_⟩, by simp [h.writes l c]⟩
      simp [h.attrs]
    · rw [if_neg hin, if_neg hin]
      exact ⟨h.cells l c, h.writes l c⟩
  have hsim : Sim caps t0 s0 (t.erasech n m) (s.ech n) :=
    { lines := h.lines, cols := by rw [fc]; exact h.cols, cols_pos := by rw [fc]; exact h.cols_pos, ground := h.ground,
      attrs := by rw [fp]; exact h.attrs, enc := by rw [fp]; exact h.enc, oracle := by rw [fo]; exact h.oracle,
      writes := fun l c => (hcells l c).2, cells := fun l c => (hcells l c).1 }
  show Sim caps t0 s0 (t.erasech n m) _ ∧ Cur t0 (t.erasech n m) _ ∧ _
  rw [e]
  have hL := h.lines
  have hC := h.cols_pos
  have hcs := h.cols
  have hrow := hcur.row
  have hri := hcur.rowIn
  cases m with
  | no => exact absurd rfl hm
  | yes =>
    simp only [if_true]
    refine ⟨?_, ?_, rfl⟩
    · exact { lines := hsim.lines, cols := hsim.cols, cols_pos := hsim.cols_pos, ground := hsim.ground,
              attrs := hsim.attrs, enc := hsim.enc, oracle := hsim.oracle, writes := hsim.writes, cells := hsim.cells }
    · refine { row := ?_, rowIn := by rw [fl]; exact hri, col := ?_, last := by rw [fla]; rfl,
               lastW := by intro p hp; rw [fla] at hp; cases hp }
      · rw [fl]
        show max 0 (min s.row (s.lines - 1)) = t.line
        omega
      · left
        rw [GT.erasech_col_yes t n hn, fc, hstart]
        refine ⟨rfl, ?_, ?_, ?_⟩
        · show max 0 (min (s.col + n) (s.cols - 1)) = _
          rcases hcur.col with ⟨_, h2, h3, h4⟩ | ⟨_, h2, h3⟩ <;> omega
        · rcases hcur.col with ⟨_, h2, h3, h4⟩ | ⟨_, h2, h3⟩ <;> omega
        · omega
  | maybe =>
    have hne : (MaybeBool.maybe = MaybeBool.yes) = False := by simp
    simp only [hne, if_false]
    refine ⟨hsim, ?_, rfl⟩
    refine { row := by rw [fl]; exact hrow, rowIn := by rw [fl]; exact hri, col := ?_, last := by rw [fla]; rfl,
             lastW := by intro p hp; rw [fla] at hp; cases hp }
    rw [GT.erasech_col_maybe t n hn (h.oracle _), fc]
    exact hcur.col

/-! ### The grid terminal's decoder on well-formed UTF-8 -/

theorem byteAt_append (pre l : List UInt8) (j : Nat) : Tickit.RB.Utf8.byteAt (pre ++ l) (pre.length + j) = Tickit.RB.Utf8.byteAt l j := by
  simp [Tickit.RB.Utf8.byteAt, List.getD, List.getElem?_append_right]

theorem contBytes_shift (pre l : List UInt8) : ∀ (k i cp : Nat),
    Tickit.RB.Utf8.contBytes (pre ++ l) k (pre.length + i) cp = Tickit.RB.Utf8.contBytes l k i cp
  | 0, _, _ => rfl
  | k + 1, i, cp => by
    simp only [Tickit.RB.Utf8.contBytes, byteAt_append]
    rw [Nat.add_assoc, contBytes_shift pre l k (i + 1)]

/-- `next_utf8` looks at the bytes from its starting point only. -/
theorem nextUtf8_shift (pre l : List UInt8) (len : Option Nat) :
    Tickit.RB.Utf8.nextUtf8 (pre ++ l) pre.length len = Tickit.RB.Utf8.nextUtf8 l 0 len := by
  have e := byteAt_append pre l 0
  have c := fun k cp => contBytes_shift pre l k 1 cp
  simp only [Nat.add_zero] at e
  unfold Tickit.RB.Utf8.nextUtf8
  simp only [e, c, Nat.zero_add]

theorem nextUtf8p_1 (x : Nat) (post : List UInt8) (hx : 0 < x ∧ x < 0x80) :
    Tickit.RB.Utf8.nextUtf8 (UInt8.ofNat x :: post) 0 (some (1 + post.length)) = some ⟨1, x⟩ := by
  have hx' := toNat_ofNat_lt x (by omega)
  unfold Tickit.RB.Utf8.nextUtf8
  simp only [byteAt_cons0, hx']
  repeat' split
  all_goals first | (exfalso; omega) | skip
  all_goals simp_all

theorem nextUtf8p_2 (x y : Nat) (post : List UInt8) (hx : 0xc2 ≤ x ∧ x ≤ 0xdf) (hy : 0x80 ≤ y ∧ y ≤ 0xbf) :
    Tickit.RB.Utf8.nextUtf8 (UInt8.ofNat x :: UInt8.ofNat y :: post) 0 (some (2 + post.length)) =
      some ⟨2, (x - 0xc0) * 64 + (y - 0x80)⟩ := by
  have hx' := toNat_ofNat_lt x (by omega)
  have hy' := toNat_ofNat_lt y (by omega)
  unfold Tickit.RB.Utf8.nextUtf8
  simp only [byteAt_cons0, hx']
  have : Tickit.RB.Utf8.contBytes (UInt8.ofNat x :: UInt8.ofNat y :: post) (2 - 1) (0 + 1) (x % 32) =
      some ((x - 0xc0) * 64 + (y - 0x80)) := by
    show Tickit.RB.Utf8.contBytes (UInt8.ofNat x :: UInt8.ofNat y :: post) 1 1 (x % 32) = _
    unfold Tickit.RB.Utf8.contBytes
    simp only [byteAt_cons_succ, byteAt_cons0, hy']
    rw [if_neg (by omega)]
    unfold Tickit.RB.Utf8.contBytes
    exact congrArg some (by omega)
  repeat' split
  all_goals first | (exfalso; omega) | skip
  all_goals simp_all
  all_goals omega

theorem nextUtf8p_3 (x y z : Nat) (post : List UInt8) (hx : 0xe0 ≤ x ∧ x ≤ 0xef) (hy : 0x80 ≤ y ∧ y ≤ 0xbf)
    (hz : 0x80 ≤ z ∧ z ≤ 0xbf) :
    Tickit.RB.Utf8.nextUtf8 (UInt8.ofNat x :: UInt8.ofNat y :: UInt8.ofNat z :: post) 0 (some (3 + post.length)) =
      some ⟨3, ((x - 0xe0) * 64 + (y - 0x80)) * 64 + (z - 0x80)⟩ := by
  have hx' := toNat_ofNat_lt x (by omega)
  have hy' := toNat_ofNat_lt y (by omega)
  have hz' := toNat_ofNat_lt z (by omega)
  unfold Tickit.RB.Utf8.nextUtf8
  simp only [byteAt_cons0, hx']
  have : Tickit.RB.Utf8.contBytes (UInt8.ofNat x :: UInt8.ofNat y :: UInt8.ofNat z :: post) (3 - 1) (0 + 1) (x % 16) =
      some (((x - 0xe0) * 64 + (y - 0x80)) * 64 + (z - 0x80)) := by
    show Tickit.RB.Utf8.contBytes (UInt8.ofNat x :: UInt8.ofNat y :: UInt8.ofNat z :: post) 2 1 (x % 16) = _
    unfold Tickit.RB.Utf8.contBytes
    simp only [byteAt_cons_succ, byteAt_cons0, hy']
    rw [if_neg (by omega)]
    unfold Tickit.RB.Utf8.contBytes
    simp only [byteAt_cons_succ, byteAt_cons0, hz']
    rw [if_neg (by omega)]
    unfold Tickit.RB.Utf8.contBytes
    exact congrArg some (by omega)
  repeat' split
  all_goals first | (exfalso; omega) | skip
  all_goals simp_all
  all_goals omega

theorem nextUtf8p_4 (x y z w : Nat) (post : List UInt8) (hx : 0xf0 ≤ x ∧ x ≤ 0xf7) (hy : 0x80 ≤ y ∧ y ≤ 0xbf)
    (hz : 0x80 ≤ z ∧ z ≤ 0xbf) (hw : 0x80 ≤ w ∧ w ≤ 0xbf) :
    Tickit.RB.Utf8.nextUtf8 (UInt8.ofNat x :: UInt8.ofNat y :: UInt8.ofNat z :: UInt8.ofNat w :: post) 0 (some (4 + post.length)) =
      some ⟨4, (((x - 0xf0) * 64 + (y - 0x80)) * 64 + (z - 0x80)) * 64 + (w - 0x80)⟩ := by
  have hx' := toNat_ofNat_lt x (by omega)
  have hy' := toNat_ofNat_lt y (by omega)
  have hz' := toNat_ofNat_lt z (by omega)
  have hw' := toNat_ofNat_lt w (by omega)
  unfold Tickit.RB.Utf8.nextUtf8
  simp only [byteAt_cons0, hx']
  have : Tickit.RB.Utf8.contBytes (UInt8.ofNat x :: UInt8.ofNat y :: UInt8.ofNat z :: UInt8.ofNat w :: post) (4 - 1) (0 + 1) (x % 8) =
      some ((((x - 0xf0) * 64 + (y - 0x80)) * 64 + (z - 0x80)) * 64 + (w - 0x80)) := by
    show Tickit.RB.Utf8.contBytes (UInt8.ofNat x :: UInt8.ofNat y :: UInt8.ofNat z :: UInt8.ofNat w :: post) 3 1 (x % 8) = _
    unfold Tickit.RB.Utf8.contBytes
    simp only [byteAt_cons_succ, byteAt_cons0, hy']
    rw [if_neg (by omega)]
    unfold Tickit.RB.Utf8.contBytes
    simp only [byteAt_cons_succ, byteAt_cons0, hz']
    rw [if_neg (by omega)]
    unfold Tickit.RB.Utf8.contBytes
    simp only [byteAt_cons_succ, byteAt_cons0, hw']
    rw [if_neg (by omega)]
    unfold Tickit.RB.Utf8.contBytes
    exact congrArg some (by omega)
  repeat' split
  all_goals first | (exfalso; omega) | skip
  all_goals simp_all
  all_goals omega

/-- `next_utf8` reads the UTF-8 form of a code point at the head of a longer string as that code point. -/
theorem nextUtf8_stdUtf8_post (cp : Nat) (post : List UInt8) (h0 : 0 < cp) (h : cp < 0x200000) :
    Tickit.RB.Utf8.nextUtf8 (stdUtf8 cp ++ post) 0 (some ((stdUtf8 cp).length + post.length)) = some ⟨(stdUtf8 cp).length, cp⟩ := by
  unfold stdUtf8
  by_cases c1 : cp < 0x80
  · simp only [if_pos c1, List.length_cons, List.length_nil, List.cons_append, List.nil_append, Nat.zero_add]
    exact nextUtf8p_1 cp post ⟨h0, c1⟩
  · by_cases c2 : cp < 0x800
    · simp only [if_neg c1, if_pos c2, List.length_cons, List.length_nil, List.cons_append, List.nil_append, Nat.zero_add]
      rw [nextUtf8p_2 _ _ post (by omega) (by omega)]
      exact congrArg (fun v => some (Tickit.RB.Utf8.Dec.mk 2 v)) (by omega)
    · by_cases c3 : cp < 0x10000
      · simp only [if_neg c1, if_neg c2, if_pos c3, List.length_cons, List.length_nil, List.cons_append, List.nil_append,
          Nat.zero_add]
        rw [nextUtf8p_3 _ _ _ post (by omega) (by omega) (by omega)]
        exact congrArg (fun v => some (Tickit.RB.Utf8.Dec.mk 3 v)) (by omega)
      · simp only [if_neg c1, if_neg c2, if_neg c3, List.length_cons, List.length_nil, List.cons_append, List.nil_append,
          Nat.zero_add]
        rw [nextUtf8p_4 _ _ _ _ post (by omega) (by omega) (by omega) (by omega)]
        exact congrArg (fun v => some (Tickit.RB.Utf8.Dec.mk 4 v)) (by omega)

/-- One character as the grid terminal decodes it. -/
def chOf (cp : Nat) : Ch := ⟨stdUtf8 cp, cp, if Tickit.RB.Utf8.wcwidth cp < 0 then 1 else Tickit.RB.Utf8.wcwidth cp⟩

theorem termDecode_end0 (bs : List UInt8) : ∀ (fuel i : Nat), i ≥ bs.length → GridTerm.termDecode bs fuel i = []
  | 0, _, _ => rfl
  | fuel + 1, i, h => by simp [GridTerm.termDecode, h]

/-- The grid terminal decodes well-formed UTF-8 into the code points it encodes. -/
theorem termDecode_flatMap : ∀ (cps : List Nat) (pre : List UInt8) (fuel : Nat),
    (∀ cp ∈ cps, 0 < cp ∧ cp < 0x200000) → cps.length < fuel →
    GridTerm.termDecode (pre ++ cps.flatMap stdUtf8) fuel pre.length = cps.map chOf
  | [], pre, fuel, _, _ => by
    simp only [List.flatMap_nil, List.append_nil, List.map_nil]
    exact termDecode_end0 _ _ _ (Nat.le_refl _)
  | cp :: rest, pre, 0, _, hf => by simp at hf
  | cp :: rest, pre, fuel + 1, h, hf => by
    have hl := stdUtf8_length_ne cp
    obtain ⟨h0, h1⟩ := h cp (by simp)
    simp only [List.flatMap_cons, List.map_cons]
    have hlen : (pre ++ (stdUtf8 cp ++ rest.flatMap stdUtf8)).length =
        pre.length + ((stdUtf8 cp).length + (rest.flatMap stdUtf8).length) := by simp
    have hn : Tickit.RB.Utf8.nextUtf8 (pre ++ (stdUtf8 cp ++ rest.flatMap stdUtf8)) pre.length
        (some ((pre ++ (stdUtf8 cp ++ rest.flatMap stdUtf8)).length - pre.length)) = some ⟨(stdUtf8 cp).length, cp⟩ := by
      rw [nextUtf8_shift, hlen, Nat.add_sub_cancel_left]
      exact nextUtf8_stdUtf8_post cp _ h0 h1
    have hd : ((pre ++ (stdUtf8 cp ++ rest.flatMap stdUtf8)).drop pre.length).take (stdUtf8 cp).length = stdUtf8 cp := by
      simp
    have ih := termDecode_flatMap rest (pre ++ stdUtf8 cp) fuel (fun x hx => h x (by simp [hx])) (by simpa using hf)
    rw [List.append_assoc, List.length_append] at ih
    unfold GridTerm.termDecode
    rw [if_neg (by omega), hn]
    simp only [hd, ih]
    rfl

theorem length_le_flatMap_stdUtf8 : ∀ cps : List Nat, cps.length ≤ (cps.flatMap stdUtf8).length
  | [] => Nat.le_refl _
  | cp :: rest => by
    have := stdUtf8_length_ne cp
    have := length_le_flatMap_stdUtf8 rest
    simp only [List.flatMap_cons, List.length_append, List.length_cons]
    omega

/-- The driver's `print` of well-formed UTF-8 on the grid terminal: its code points, one after the other. -/
theorem printBytesL_flatMap (L : Int) (t : GridTerm) (cps : List Nat) (h : ∀ cp ∈ cps, 0 < cp ∧ cp < 0x200000) :
    t.printBytesL L (cps.flatMap stdUtf8) = t.putChsL L (cps.map chOf) := by
  have := termDecode_flatMap cps [] ((cps.flatMap stdUtf8).length + 1) h
    (by have := length_le_flatMap_stdUtf8 cps; omega)
  simp only [List.nil_append, List.length_nil] at this
  simp only [GridTerm.printBytesL, this]

/-! ### Print requests: characters of two, one and no columns -/

theorem putWide_fit (s : XScreen) (bs : Bytes) (w : Int) (hp : s.pending = false) (hc : s.col + w ≤ s.cols) :
    s.putWide bs w =
      if s.col + w ≥ s.cols then
        { s with
          cells := fun l c =>
            if l = s.row ∧ s.col ≤ c ∧ c < s.col + w ∧ c < s.cols then
              { glyph := if c = s.col then .chars bs else .wcont, attrs := s.attrs, writes := (s.cells l c).writes + 1 }
            else s.cells l c
          col := s.cols - 1, pending := true, last := some (s.row, s.col) }
      else
        { s with
          cells := fun l c =>
            if l = s.row ∧ s.col ≤ c ∧ c < s.col + w ∧ c < s.cols then
              { glyph := if c = s.col then .chars bs else .wcont, attrs := s.attrs, writes := (s.cells l c).writes + 1 }
            else s.cells l c
          col := s.col + w, last := some (s.row, s.col) } := by
  have hn : ¬ (s.pending = true ∨ s.col + w > s.cols) := by
    intro hx
    rcases hx with hx | hx
    · rw [hp] at hx; cases hx
    · omega
  simp only [XScreen.putWide, hn, if_false]

/-- A character of one or two columns that fits on the line: the cells at the cursor show it (second column: the
    continuation mark) in the rendition of `tt->pen`, written once more, on both terminals; the cursors advance alike
    (into the pending-wrap state at the last column). -/
theorem wide_sim {caps : TermPen.Caps} {t0 t : GridTerm} {s0 s : XScreen} (h : Sim caps t0 s0 t s) (hcur : Cur t0 t s)
    (bs : Bytes) (w : Int) (hw1 : 1 ≤ w) (hfit : t.col + w ≤ t.cols) :
    Sim caps t0 s0 (t.putGlyphRaw bs w) (s.putWide bs w) ∧ Cur t0 (t.putGlyphRaw bs w) (s.putWide bs w) ∧
    (s.putWide bs w).lines = s.lines := by
  obtain ⟨hpend, hcol, hc0, hc1⟩ : s.pending = false ∧ s.col = t.col ∧ 0 ≤ t.col ∧ t.col < t.cols := by
    rcases hcur.col with hx | ⟨_, h2, _⟩
    · exact hx
    · omega
  have hcs := h.cols
  rw [putWide_fit s _ w hpend (by omega)]
  have hg : ∀ l c, (t.putGlyphRaw bs w).cells l c =
      if l = t.line ∧ t.col ≤ c ∧ c < t.col + w then
        { glyph := if c = t.col then .chars bs else .wcont, pen := t.pen, writes := (t.cells l c).writes + 1 }
      else t.cells l c := fun _ _ => rfl
  have hcells : ∀ l c,
      (((t.putGlyphRaw bs w).cells l c = t0.cells l c ∧
        (if l = s.row ∧ s.col ≤ c ∧ c < s.col + w ∧ c < s.cols then
          ({ glyph := if c = s.col then .chars bs else .wcont, attrs := s.attrs,
             writes := (s.cells l c).writes + 1 } : XCell)
         else s.cells l c) = s0.cells l c) ∨
       Written caps (t0.cells l c) ((t.putGlyphRaw bs w).cells l c)
        (if l = s.row ∧ s.col ≤ c ∧ c < s.col + w ∧ c < s.cols then
          ({ glyph := if c = s.col then .chars bs else .wcont, attrs := s.attrs,
             writes := (s.cells l c).writes + 1 } : XCell)
         else s.cells l c)) ∧
      (if l = s.row ∧ s.col ≤ c ∧ c < s.col + w ∧ c < s.cols then
          ({ glyph := if c = s.col then .chars bs else .wcont, attrs := s.attrs,
             writes := (s.cells l c).writes + 1 } : XCell)
         else s.cells l c).writes = ((t.putGlyphRaw bs w).cells l c).writes := by
    intro l c
    rw [hg]
    by_cases hin : l = t.line ∧ t.col ≤ c ∧ c < t.col + w
    · have hin2 : l = s.row ∧ s.col ≤ c ∧ c < s.col + w ∧ c < s.cols := by
        rw [hcur.row, hcol, hcs]; exact ⟨hin.1, hin.2.1, hin.2.2, by omega⟩
      rw [if_pos hin, if_pos hin2]
      refine ⟨Or.inr ⟨Nat.lt_succ_of_le (h.mono l c), ?_, ?_⟩, by simp [h.writes l c]⟩
      · simp [hcol]
      · by_cases hceq : c = t.col <;> simp [hceq, h.attrs]
    · have hin2 : ¬ (l = s.row ∧ s.col ≤ c ∧ c < s.col + w ∧ c < s.cols) := by
        rw [hcur.row, hcol]; intro hx; exact hin ⟨hx.1, hx.2.1, hx.2.2.1⟩
      rw [if_neg hin, if_neg hin2]
      exact ⟨h.cells l c, h.writes l c⟩
  have hri := hcur.rowIn
  have hrow := hcur.row
  have hlastW : ∀ p, (t.putGlyphRaw bs w).last = some p →
      (t0.cells p.1 p.2).writes < ((t.putGlyphRaw bs w).cells p.1 p.2).writes ∧
      ∃ g, ((t.putGlyphRaw bs w).cells p.1 p.2).glyph = .chars g := by
    intro p hp
    have hl : (t.putGlyphRaw bs w).last = some (t.line, t.col) := rfl
    rw [hl] at hp
    simp only [Option.some.injEq] at hp
    subst hp
    rw [hg, if_pos ⟨rfl, Int.le_refl _, by omega⟩]
    exact ⟨Nat.lt_succ_of_le (h.mono _ _), bs, by simp⟩
  by_cases hedge : s.col + w ≥ s.cols
  · rw [if_pos hedge]
    refine ⟨?_, ?_, rfl⟩
    · exact { lines := h.lines, cols := h.cols, cols_pos := h.cols_pos, ground := h.ground, attrs := h.attrs, enc := h.enc,
              oracle := h.oracle, writes := fun l c => (hcells l c).2, cells := fun l c => (hcells l c).1 }
    · refine { row := hrow, rowIn := hri, col := Or.inr ⟨rfl, ?_, ?_⟩, last := ?_, lastW := hlastW }
      · show t.col + w = t.cols
        omega
      · show s.cols - 1 = t.cols - 1
        omega
      · show some (s.row, s.col) = some (t.line, t.col)
        rw [hrow, hcol]
  · rw [if_neg hedge]
    refine ⟨?_, ?_, rfl⟩
    · exact { lines := h.lines, cols := h.cols, cols_pos := h.cols_pos, ground := h.ground, attrs := h.attrs, enc := h.enc,
              oracle := h.oracle, writes := fun l c => (hcells l c).2, cells := fun l c => (hcells l c).1 }
    · refine { row := hrow, rowIn := hri, col := Or.inl ⟨hpend, ?_, ?_, ?_⟩, last := ?_, lastW := hlastW }
      · show s.col + w = t.col + w
        omega
      · show 0 ≤ t.col + w
        omega
      · show t.col + w < t.cols
        omega
      · show some (s.row, s.col) = some (t.line, t.col)
        rw [hrow, hcol]

/-- A zero-width character joins the same cell on both terminals (or is dropped on both). -/
theorem zero_sim {caps : TermPen.Caps} {t0 t : GridTerm} {s0 s : XScreen} (h : Sim caps t0 s0 t s) (hcur : Cur t0 t s)
    (bs : Bytes) :
    Sim caps t0 s0 (t.addZeroWidth bs) (s.addZeroWidth bs) ∧ Cur t0 (t.addZeroWidth bs) (s.addZeroWidth bs) ∧
    (s.addZeroWidth bs).lines = s.lines := by
  have hl := hcur.last
  cases hlast : t.last with
  | none =>
    have hsl : s.last = none := by rw [hl, hlast]
    have e1 : t.addZeroWidth bs = t := by simp only [GridTerm.addZeroWidth, hlast]
    have e2 : s.addZeroWidth bs = s := by simp only [XScreen.addZeroWidth, hsl]
    rw [e1, e2]
    exact ⟨h, hcur, rfl⟩
  | some p =>
    have hsl : s.last = some p := by rw [hl, hlast]
    obtain ⟨hwp, g, hg⟩ := hcur.lastW p hlast
    obtain ⟨hxg, hxa⟩ : (s.cells p.1 p.2).glyph = .chars g ∧ (s.cells p.1 p.2).attrs = expectAttrs caps (t.cells p.1 p.2).pen := by
      rcases h.cells p.1 p.2 with ⟨h1, _⟩ | ⟨_, h2, h3⟩
      · rw [h1] at hwp; exact absurd hwp (Nat.lt_irrefl _)
      · rw [hg] at h2 h3
        exact ⟨h2, by simpa using h3⟩
    have e1 : t.addZeroWidth bs =
        { t with cells := fun l c =>
            if l = p.1 ∧ c = p.2 then
              match (t.cells l c).glyph with
              | .chars g => { t.cells l c with glyph := .chars (g ++ bs) }
              | _ => t.cells l c
            else t.cells l c } := by
      unfold GridTerm.addZeroWidth
      split
      · rename_i hn; rw [hlast] at hn; cases hn
      · rename_i q hq; rw [hlast] at hq; cases hq; rfl
    have e2 : s.addZeroWidth bs =
        { s with cells := fun l c =>
            if l = p.1 ∧ c = p.2 then
              match (s.cells l c).glyph with
              | .chars g => { s.cells l c with glyph := .chars (g ++ bs) }
              | _ => s.cells l c
            else s.cells l c } := by
      unfold XScreen.addZeroWidth
      split
      · rename_i hn; rw [hsl] at hn; cases hn
      · rename_i q hq; rw [hsl] at hq; cases hq; rfl
    rw [e1, e2]
    have hcells : ∀ l c,
        (((if l = p.1 ∧ c = p.2 then
              match (t.cells l c).glyph with
              | .chars g => { t.cells l c with glyph := .chars (g ++ bs) }
              | _ => t.cells l c
            else t.cells l c) = t0.cells l c ∧
          (if l = p.1 ∧ c = p.2 then
              match (s.cells l c).glyph with
              | .chars g => { s.cells l c with glyph := .chars (g ++ bs) }
              | _ => s.cells l c
            else s.cells l c) = s0.cells l c) ∨
         Written caps (t0.cells l c)
          (if l = p.1 ∧ c = p.2 then
              match (t.cells l c).glyph with
              | .chars g => { t.cells l c with glyph := .chars (g ++ bs) }
              | _ => t.cells l c
            else t.cells l c)
          (if l = p.1 ∧ c = p.2 then
              match (s.cells l c).glyph with
              | .chars g => { s.cells l c with glyph := .chars (g ++ bs) }
              | _ => s.cells l c
            else s.cells l c)) ∧
        (if l = p.1 ∧ c = p.2 then
              match (s.cells l c).glyph with
              | .chars g => { s.cells l c with glyph := .chars (g ++ bs) }
              | _ => s.cells l c
            else s.cells l c).writes =
        (if l = p.1 ∧ c = p.2 then
              match (t.cells l c).glyph with
              | .chars g => { t.cells l c with glyph := .chars (g ++ bs) }
              | _ => t.cells l c
            else t.cells l c).writes := by
      intro l c
      by_cases hpc : l = p.1 ∧ c = p.2
      · obtain ⟨rfl, rfl⟩ := hpc
        simp only [and_self, if_true, hg, hxg]
        refine ⟨Or.inr ⟨hwp, rfl, ?_⟩, h.writes _ _⟩
        simp [hxa]
      · rw [if_neg hpc, if_neg hpc]
        exact ⟨h.cells l c, h.writes l c⟩
    refine ⟨?_, ?_, rfl⟩
    · exact { lines := h.lines, cols := h.cols, cols_pos := h.cols_pos, ground := h.ground, attrs := h.attrs, enc := h.enc,
              oracle := h.oracle, writes := fun l c => (hcells l c).2, cells := fun l c => (hcells l c).1 }
    · refine { row := hcur.row, rowIn := hcur.rowIn, col := hcur.col, last := hcur.last, lastW := ?_ }
      intro q hq
      have hq' : t.last = some q := hq
      rw [hlast] at hq'
      simp only [Option.some.injEq] at hq'
      subst hq'
      show (t0.cells p.1 p.2).writes < (if p.1 = p.1 ∧ p.2 = p.2 then
              match (t.cells p.1 p.2).glyph with
              | .chars g => { t.cells p.1 p.2 with glyph := .chars (g ++ bs) }
              | _ => t.cells p.1 p.2
            else t.cells p.1 p.2).writes ∧ ∃ g', (if p.1 = p.1 ∧ p.2 = p.2 then
              match (t.cells p.1 p.2).glyph with
              | .chars g => { t.cells p.1 p.2 with glyph := .chars (g ++ bs) }
              | _ => t.cells p.1 p.2
            else t.cells p.1 p.2).glyph = .chars g'
      simp only [and_self, if_true, hg]
      exact ⟨hwp, g ++ bs, rfl⟩

theorem wcwidth_range (cp : Nat) :
    Tickit.RB.Utf8.wcwidth cp = -1 ∨ Tickit.RB.Utf8.wcwidth cp = 0 ∨ Tickit.RB.Utf8.wcwidth cp = 1 ∨
    Tickit.RB.Utf8.wcwidth cp = 2 := by
  unfold Tickit.RB.Utf8.wcwidth Tickit.RB.Utf8.mkWcwidth
  repeat' split
  all_goals simp

/-- The columns from `col` suffice for the characters of one or two columns, one after the other (no wrap). -/
def Fits (cols : Int) : Int → List Nat → Prop
  | _, [] => True
  | col, cp :: rest =>
    (Tickit.RB.Utf8.wcwidth cp = 0 ∨ col + Tickit.RB.Utf8.wcwidth cp ≤ cols) ∧ Fits cols (col + Tickit.RB.Utf8.wcwidth cp) rest

theorem putChL_pen (L : Int) (t : GridTerm) (c : Ch) : (t.putChL L c).pen = t.pen := by
  unfold GridTerm.putChL GridTerm.putGlyphL GridTerm.wrapL GridTerm.addZeroWidth
  repeat' split
  all_goals rfl

/-- One printable character with a width that fits on the line. -/
theorem putCh_sim {caps : TermPen.Caps} {t0 t : GridTerm} {s0 s : XScreen} (h : Sim caps t0 s0 t s) (hcur : Cur t0 t s)
    (cp : Nat) (hw0 : 0 ≤ Tickit.RB.Utf8.wcwidth cp)
    (hfit : Tickit.RB.Utf8.wcwidth cp = 0 ∨ t.col + Tickit.RB.Utf8.wcwidth cp ≤ t.cols) :
    Sim caps t0 s0 (t.putChL s.lines (chOf cp)) (s.putCp cp) ∧ Cur t0 (t.putChL s.lines (chOf cp)) (s.putCp cp) ∧
    (s.putCp cp).lines = s.lines ∧ (t.putChL s.lines (chOf cp)).col = t.col + Tickit.RB.Utf8.wcwidth cp ∧
    (t.putChL s.lines (chOf cp)).cols = t.cols := by
  have hnn : ¬ Tickit.RB.Utf8.wcwidth cp < 0 := by omega
  rcases wcwidth_range cp with hw | hw | hw | hw
  · omega
  · have et : t.putChL s.lines (chOf cp) = t.addZeroWidth (stdUtf8 cp) := by
      simp [GridTerm.putChL, chOf, hw]
    have es : s.putCp cp = s.addZeroWidth (stdUtf8 cp) := by simp [XScreen.putCp, hw]
    rw [et, es, hw]
    obtain ⟨h1, h2, h3⟩ := zero_sim h hcur (stdUtf8 cp)
    refine ⟨h1, h2, h3, ?_, ?_⟩
    · unfold GridTerm.addZeroWidth; split <;> simp
    · unfold GridTerm.addZeroWidth; split <;> rfl
  · have hn : ¬ t.col + 1 > t.cols := by omega
    have et : t.putChL s.lines (chOf cp) = t.putGlyphRaw (stdUtf8 cp) 1 := by
      simp [GridTerm.putChL, GridTerm.putGlyphL, chOf, hw, hn]
    have es : s.putCp cp = s.putWide (stdUtf8 cp) 1 := by simp [XScreen.putCp, hw]
    rw [et, es, hw]
    obtain ⟨h1, h2, h3⟩ := wide_sim h hcur (stdUtf8 cp) 1 (by omega) (by omega)
    exact ⟨h1, h2, h3, rfl, rfl⟩
  · have hn : ¬ t.col + 2 > t.cols := by omega
    have et : t.putChL s.lines (chOf cp) = t.putGlyphRaw (stdUtf8 cp) 2 := by
      simp [GridTerm.putChL, GridTerm.putGlyphL, chOf, hw, hn]
    have es : s.putCp cp = s.putWide (stdUtf8 cp) 2 := by simp [XScreen.putCp, hw]
    rw [et, es, hw]
    obtain ⟨h1, h2, h3⟩ := wide_sim h hcur (stdUtf8 cp) 2 (by omega) (by omega)
    exact ⟨h1, h2, h3, rfl, rfl⟩

/-- A sequence of printable characters that fit on the line. -/
theorem chars_sim {caps : TermPen.Caps} {t0 : GridTerm} {s0 : XScreen} :
    ∀ (cps : List Nat) (t : GridTerm) (s : XScreen), Sim caps t0 s0 t s → Cur t0 t s →
      (∀ cp ∈ cps, 0 ≤ Tickit.RB.Utf8.wcwidth cp) → Fits t.cols t.col cps →
      Sim caps t0 s0 ((cps.map chOf).foldl (GridTerm.putChL s.lines) t) (cps.foldl XScreen.putCp s) ∧
      Cur t0 ((cps.map chOf).foldl (GridTerm.putChL s.lines) t) (cps.foldl XScreen.putCp s) ∧
      (cps.foldl XScreen.putCp s).lines = s.lines ∧
      ((cps.map chOf).foldl (GridTerm.putChL s.lines) t).pen = t.pen
  | [], _, _, h, hcur, _, _ => ⟨h, hcur, rfl, rfl⟩
  | cp :: rest, t, s, h, hcur, hw, hfit => by
    obtain ⟨hf1, hf2⟩ := hfit
    obtain ⟨h1, h2, h3, h4, h5⟩ := putCh_sim h hcur cp (hw cp (by simp)) hf1
    have ih := chars_sim rest (t.putChL s.lines (chOf cp)) (s.putCp cp) h1 h2 (fun x hx => hw x (by simp [hx]))
      (by rw [h4, h5]; exact hf2)
    rw [h3] at ih
    obtain ⟨i1, i2, i3, i4⟩ := ih
    simp only [List.map_cons, List.foldl_cons]
    exact ⟨i1, i2, i3, by rw [i4]; exact putChL_pen _ _ _⟩

/-- **print_sim**: a print request of at least one byte whose bytes are well-formed UTF-8 of printable code points with
    a width, fitting on the line from the cursor - a CHAR cell, a TEXT run or a batch of LINE cells of a flush whose
    content lies within the screen -, read by the VT screen, does what it does on the grid terminal: each character in
    its columns (double-width: two, zero-width: joined to the one before) in the rendition of `tt->pen`, written once
    more; the cursors advance alike. -/
theorem print_sim {caps : TermPen.Caps} {t0 t : GridTerm} {s0 s : XScreen} (h : Sim caps t0 s0 t s) (hcur : Cur t0 t s)
    (bs : List UInt8) (start len : Nat) (hlen : len ≠ 0) (cps : List Nat)
    (hp : ∀ cp ∈ cps, Printable cp ∧ 0 ≤ Tickit.RB.Utf8.wcwidth cp)
    (hsl : (bs.drop start).take len = cps.flatMap stdUtf8) (hfit : Fits t.cols t.col cps) :
    Sim caps t0 s0 (t.stepL s.lines (.print bs start len)) (s.interp (reqCalls caps t.pen (.print bs start len)).flatten) ∧
    Cur t0 (t.stepL s.lines (.print bs start len)) (s.interp (reqCalls caps t.pen (.print bs start len)).flatten) ∧
    (s.interp (reqCalls caps t.pen (.print bs start len)).flatten).lines = s.lines ∧
    (t.stepL s.lines (.print bs start len)).pen = reqPen t.pen (.print bs start len) := by
  have es : s.interp (reqCalls caps t.pen (.print bs start len)).flatten = cps.foldl XScreen.putCp s := by
    simp only [reqCalls, if_neg hlen, call_flatten, hsl]
    exact XScreen.interp_text cps (fun cp hcp => (hp cp hcp).1) s h.ground
  have et : t.stepL s.lines (.print bs start len) = (cps.map chOf).foldl (GridTerm.putChL s.lines) t := by
    have hb : GridTerm.reqBytes t.viaWriteStr bs start len = cps.flatMap stdUtf8 := by
      simp [GridTerm.reqBytes, hlen, hsl]
    simp only [GridTerm.stepL, hb]
    rw [printBytesL_flatMap _ _ _ (fun cp hcp => by
      obtain ⟨⟨p1, p2, p3⟩, _⟩ := hp cp hcp
      exact ⟨by omega, by omega⟩)]
    rfl
  rw [es, et]
  obtain ⟨h1, h2, h3, h4⟩ := chars_sim cps t s h hcur (fun cp hcp => (hp cp hcp).2) hfit
  exact ⟨h1, h2, h3, h4⟩

/-! ### A sequence of requests -/

/-- What the simulation asks of one request, given the grid terminal `t` it arrives at (`moved`: a goto has been seen,
    so the cursors agree): gotos at non-negative positions, pens the driver can say, erases of at least one cell that
    are not `TICKIT_NO` and not under reverse video (then the driver prints spaces: not covered), print requests of at
    least one byte whose bytes are the UTF-8 forms of printable code points with a width (0, 1 or 2 columns by the
    library's tables) that fit on the line from the cursor (no wrap). -/
def ReqOK (caps : TermPen.Caps) (moved : Bool) (t : GridTerm) : Req → Prop
  | .goto l c => 0 ≤ l ∧ 0 ≤ c
  | .setpen p => PenEncodable caps p
  | .erasech n m => moved = true ∧ 1 ≤ n ∧ m ≠ .no ∧ Pen.getBool t.pen.reverse = false
  | .print bs start len =>
    moved = true ∧ len ≠ 0 ∧
    ∃ cps : List Nat, (∀ cp ∈ cps, Printable cp ∧ 0 ≤ Tickit.RB.Utf8.wcwidth cp) ∧
      (bs.drop start).take len = cps.flatMap stdUtf8 ∧ Fits t.cols t.col cps

def movedAfter (moved : Bool) : Req → Bool
  | .goto _ _ => true
  | _ => moved

/-- `ReqOK` of every request of a sequence, each at the grid terminal the requests before it lead to (on a screen of
    `L` lines). -/
def RunOK (caps : TermPen.Caps) (L : Int) : Bool → GridTerm → List Req → Prop
  | _, _, [] => True
  | moved, t, r :: rs => ReqOK caps moved t r ∧ RunOK caps L (movedAfter moved r) (t.stepL L r) rs

/-- One request: the two terminals stay in step, `tt->pen` is what `reqPen` says, the cursors agree once a goto has been
    seen. -/
theorem req_sim {caps : TermPen.Caps} {t0 t : GridTerm} {s0 s : XScreen} (h : Sim caps t0 s0 t s) (moved : Bool)
    (hcur : moved = true → Cur t0 t s) (r : Req) (hr : ReqOK caps moved t r) :
    Sim caps t0 s0 (t.stepL s.lines r) (s.interp (reqCalls caps t.pen r).flatten) ∧
    (movedAfter moved r = true → Cur t0 (t.stepL s.lines r) (s.interp (reqCalls caps t.pen r).flatten)) ∧
    (s.interp (reqCalls caps t.pen r).flatten).lines = s.lines ∧
    (t.stepL s.lines r).pen = reqPen t.pen r := by
  cases r with
  | goto l c =>
    obtain ⟨h1, h2, h3⟩ := goto_sim h l c hr.1 hr.2
    exact ⟨h1, fun _ => h2, h3, rfl⟩
  | setpen p =>
    obtain ⟨h1, h2, h3⟩ := setpen_sim h p hr
    exact ⟨h1, fun hm => h2 (hcur hm), h3, rfl⟩
  | erasech n m =>
    obtain ⟨hm, hn, hno, hrv⟩ := hr
    obtain ⟨h1, h2, h3⟩ := erase_sim h (hcur hm) n hn m hno hrv
    exact ⟨h1, fun _ => h2, h3, (GT.erasech_fields t n m hn).2.2.1⟩
  | print bs start len =>
    obtain ⟨hm, hlen, cps, hp, hsl, hfit⟩ := hr
    obtain ⟨h1, h2, h3, h4⟩ := print_sim h (hcur hm) bs start len hlen cps hp hsl hfit
    exact ⟨h1, fun _ => h2, h3, h4⟩

/-- **reqs_sim**: a sequence of requests the simulation covers (`RunOK`), read by the VT screen as the bytes the xterm
    driver writes for them one after the other (`reqsCalls`: `tt->pen` threaded through), leaves the VT screen in step
    with the grid terminal that executed the requests on a screen of as many lines. -/
theorem reqs_sim {caps : TermPen.Caps} {t0 : GridTerm} {s0 : XScreen} :
    ∀ (reqs : List Req) (t : GridTerm) (s : XScreen) (moved : Bool), Sim caps t0 s0 t s → (moved = true → Cur t0 t s) →
      RunOK caps s.lines moved t reqs →
      Sim caps t0 s0 (t.runL s.lines reqs) (s.interp (reqsCalls caps t.pen reqs).flatten)
  | [], t, s, _, h, _, _ => by simpa [GridTerm.runL, reqsCalls] using h
  | r :: rs, t, s, moved, h, hcur, hrun => by
    obtain ⟨hr, hrest⟩ := hrun
    obtain ⟨h1, h2, h3, h4⟩ := req_sim h moved hcur r hr
    have := reqs_sim rs (t.stepL s.lines r) (s.interp (reqCalls caps t.pen r).flatten) (movedAfter moved r) h1 h2
      (by rw [h3]; exact hrest)
    rw [h3, h4] at this
    simpa only [GridTerm.runL, reqsCalls, List.flatten_append, XScreen.interp_append] using this

/-! ### From the grid terminal's `cellOK` to the VT screen's `xcellOK` -/

theorem equivColour_cases (a b : Option Colour) (h : Pen.equivColour a b = true) :
    Pen.getColour a = Pen.getColour b ∧ Pen.getRgb a = Pen.getRgb b := by
  unfold Pen.equivColour at h
  by_cases hc : Pen.getColour a ≠ Pen.getColour b
  · simp [hc] at h
  · simp only [hc, if_false] at h
    refine ⟨by simpa using hc, ?_⟩
    cases hra : Pen.getRgb a with
    | none =>
      cases hrb : Pen.getRgb b with
      | none => rfl
      | some y => simp [hra, hrb] at h
    | some x =>
      cases hrb : Pen.getRgb b with
      | none => simp [hra, hrb] at h
      | some y =>
        simp only [hra, hrb, Bool.and_eq_true, beq_iff_eq] at h
        cases x; cases y
        simp_all

/-- The colour a terminal of 256 colours shows for a colour attribute. -/
def shownColour (rgb8 : Bool) (o : Option Colour) : Sgr.Colr :=
  TermPen.expectColour rgb8 ((o.map toTPColour).map (TermPen.convColour 256))

theorem shownColour_val (rgb8 : Bool) (o : Option Colour) :
    shownColour rgb8 o = shownColour rgb8 (some ⟨Pen.getColour o, Pen.getRgb o⟩) := by
  cases o with
  | none => simp [shownColour, TermPen.expectColour, TermPen.convColour, toTPColour, Pen.getColour, Pen.getRgb]
  | some c => cases c; rfl

theorem shownColour_congr (rgb8 : Bool) (a b : Option Colour) (h : Pen.equivColour a b = true) :
    shownColour rgb8 a = shownColour rgb8 b := by
  obtain ⟨h1, h2⟩ := equivColour_cases a b h
  rw [shownColour_val rgb8 a, shownColour_val rgb8 b, h1, h2]

/-- Pens that are `tickit_pen_equiv` ask for the same rendition. -/
theorem expectAttrs_of_penSame (caps : TermPen.Caps) (a b : Pen) (h : penSame a b = true) :
    expectAttrs caps a = expectAttrs caps b := by
  simp only [penSame, Pen.equiv, Bool.and_eq_true, Pen.equivBool, Pen.equivInt, beq_iff_eq] at h
  obtain ⟨⟨⟨⟨⟨⟨⟨⟨⟨h1, h2⟩, h3⟩, h4⟩, h5⟩, h6⟩, h7⟩, h8⟩, h9⟩, h10⟩ := h
  have e1 := shownColour_congr caps.rgb8 _ _ h1
  have e2 := shownColour_congr caps.rgb8 _ _ h2
  simp only [shownColour] at e1 e2
  simp only [expectAttrs, TermPen.expected, TermPen.expectAttrs, TermPen.convPen, toTP, e1, e2]
  simp only [Pen.getBool, Pen.getInt] at h3 h4 h5 h6 h7 h8 h9 h10
  simp only [TermPen.getBool, TermPen.getInt, h3, h4, h5, h6, h7, h8, h9, h10]

theorem expectAttrs_reverse (caps : TermPen.Caps) (p : Pen) : (expectAttrs caps p).reverse = Pen.getBool p.reverse := rfl

/-- **sim_xcellOK**: where the grid terminal meets the obligation of the buffer's content (`cellOK`: glyph, a pen
    equivalent to the cell's, written once), the VT screen in step with it meets the obligation stated on the screen
    (`xcellOK`: glyph, the rendition that pen asks for - an erased cell: its background, the pen not asking for
    reverse video -, written once). -/
theorem sim_xcellOK {caps : TermPen.Caps} {t0 t : GridTerm} {s0 s : XScreen} (h : Sim caps t0 s0 t s) (l c : Int)
    (w : Want) (hw0 : (s0.cells l c).writes = (t0.cells l c).writes)
    (hrv : ∀ p, w = .glyph .blank p → Pen.getBool p.reverse = false)
    (hok : cellOK w (t0.cells l c) (t.cells l c) = true) :
    xcellOK caps w (s0.cells l c) (s.cells l c) = true := by
  have hwr := h.writes l c
  cases w with
  | keep =>
    simp only [cellOK, beq_iff_eq] at hok
    rcases h.cells l c with ⟨_, h2⟩ | ⟨h1, _⟩
    · simp [xcellOK, h2]
    · rw [hok] at h1; exact absurd h1 (Nat.lt_irrefl _)
  | unspecified => rfl
  | glyph g p =>
    simp only [cellOK, Bool.and_eq_true, beq_iff_eq] at hok
    obtain ⟨⟨hg, hp⟩, hwt⟩ := hok
    rcases h.cells l c with ⟨h1, _⟩ | ⟨_, h2, h3⟩
    · rw [h1] at hwt; omega
    · have he := expectAttrs_of_penSame caps _ _ hp
      rw [he] at h3
      simp only [xcellOK, Bool.and_eq_true, beq_iff_eq]
      refine ⟨⟨by simp [glyphSame, h2, hg], ?_⟩, by omega⟩
      unfold attrsShow
      rw [h2, hg]
      cases g with
      | blank =>
        rw [hg] at h3
        simp only [if_true] at h3
        simp [h3, XScreen.blankAttrs, expectAttrs_reverse, hrv p rfl]
      | chars bs =>
        rw [hg] at h3
        simpa using h3
      | wcont =>
        rw [hg] at h3
        simpa using h3
  | line m p =>
    simp only [cellOK, Bool.and_eq_true, beq_iff_eq] at hok
    obtain ⟨⟨hg, hp⟩, hwt⟩ := hok
    rcases h.cells l c with ⟨h1, _⟩ | ⟨_, h2, h3⟩
    · rw [h1] at hwt; omega
    · have he := expectAttrs_of_penSame caps _ _ hp
      rw [he] at h3
      simp only [xcellOK, Bool.and_eq_true, beq_iff_eq]
      cases hgl : (t.cells l c).glyph with
      | blank => simp [hgl] at hg
      | wcont => simp [hgl] at hg
      | chars bs =>
        rw [hgl] at hg h2 h3
        refine ⟨⟨by simpa [h2] using hg, ?_⟩, by omega⟩
        unfold attrsShow
        rw [h2]
        simpa using h3

/-! ### `RunOK` from the calmness of the requests (`flush_spec_screen`) and facts about the requests alone -/

theorem chOf_width (cp : Nat) (h : 0 ≤ Tickit.RB.Utf8.wcwidth cp) : (chOf cp).width = Tickit.RB.Utf8.wcwidth cp := by
  have hn : ¬ Tickit.RB.Utf8.wcwidth cp < 0 := by omega
  simp [chOf, hn]

/-- Characters printed without the cursor leaving its line fit on the line. -/
theorem fits_of_line (cps : List Nat) : ∀ (t : GridTerm), (∀ cp ∈ cps, 0 ≤ Tickit.RB.Utf8.wcwidth cp) →
    (t.putChs (cps.map chOf)).line = t.line → Fits t.cols t.col cps := by
  induction cps with
  | nil => intro _ _ _; exact trivial
  | cons cp rest ihr =>
    intro t hw hline
    have hw0 := hw cp (by simp)
    have hwd := chOf_width cp hw0
    have h1 := GridTerm.putCh_line_le t (chOf cp)
    have h2 := GridTerm.putChs_line_le (rest.map chOf) (t.putCh (chOf cp))
    simp only [List.map_cons, GridTerm.putChs, List.foldl_cons] at hline h2
    have hl1 : (t.putCh (chOf cp)).line = t.line := by omega
    have hrest : ((t.putCh (chOf cp)).putChs (rest.map chOf)).line = (t.putCh (chOf cp)).line := by
      simp only [GridTerm.putChs]; omega
    by_cases hz : Tickit.RB.Utf8.wcwidth cp = 0
    · have e : t.putCh (chOf cp) = t.addZeroWidth (chOf cp).bytes := by simp [GridTerm.putCh, hwd, hz]
      have hc : (t.putCh (chOf cp)).col = t.col ∧ (t.putCh (chOf cp)).cols = t.cols := by
        rw [e]; unfold GridTerm.addZeroWidth; split <;> exact ⟨rfl, rfl⟩
      have ih := ihr (t.putCh (chOf cp)) (fun x hx => hw x (by simp [hx])) hrest
      rw [hc.1, hc.2] at ih
      exact ⟨Or.inl hz, by rw [hz, Int.add_zero]; exact ih⟩
    · have e : t.putCh (chOf cp) = t.putGlyph (chOf cp).bytes (Tickit.RB.Utf8.wcwidth cp) := by
        simp [GridTerm.putCh, hwd, hz]
      have hl2 := hl1
      rw [e, GridTerm.putGlyph_line] at hl2
      have hfit : ¬ t.col + Tickit.RB.Utf8.wcwidth cp > t.cols := by
        intro hgt; rw [if_pos hgt] at hl2; omega
      have hc : (t.putCh (chOf cp)).col = t.col + Tickit.RB.Utf8.wcwidth cp ∧ (t.putCh (chOf cp)).cols = t.cols := by
        rw [e]; unfold GridTerm.putGlyph; rw [if_neg hfit]; exact ⟨rfl, rfl⟩
      have ih := ihr (t.putCh (chOf cp)) (fun x hx => hw x (by simp [hx])) hrest
      rw [hc.1, hc.2] at ih
      exact ⟨Or.inr (by omega), ih⟩

/-- What the simulation asks of the requests by themselves (no terminal involved): `moved` - a goto has been seen,
    `rv` - reverse video in `tt->pen` (after a setpen: what its pen says).  Gotos at non-negative columns, pens the driver
    can say, erases of at least one cell, not `TICKIT_NO`, after a goto and outside reverse video, print requests of at
    least one byte, after a goto, whose bytes are well-formed UTF-8 of printable code points that have a width. -/
def StaticOK (caps : TermPen.Caps) : Bool → Bool → List Req → Prop
  | _, _, [] => True
  | _, rv, .goto _ c :: rs => 0 ≤ c ∧ StaticOK caps true rv rs
  | moved, _, .setpen p :: rs => PenEncodable caps p ∧ StaticOK caps moved (Pen.getBool p.reverse) rs
  | moved, rv, .erasech n m :: rs => (moved = true ∧ rv = false ∧ 1 ≤ n ∧ m ≠ .no) ∧ StaticOK caps moved rv rs
  | moved, rv, .print bs start len :: rs =>
    (moved = true ∧ len ≠ 0 ∧ ∃ cps : List Nat, (∀ cp ∈ cps, Printable cp ∧ 0 ≤ Tickit.RB.Utf8.wcwidth cp) ∧
      (bs.drop start).take len = cps.flatMap stdUtf8) ∧ StaticOK caps moved rv rs

theorem getBool_setAttr (t p : Option Bool) :
    Pen.getBool (setAttr Pen.equivBool Pen.getBool t p).1 = Pen.getBool p := by
  unfold setAttr
  split
  · rename_i h
    simp only [Bool.and_eq_true, Pen.equivBool, beq_iff_eq] at h
    exact h.2
  · rfl

theorem foldl_putChL_pen (L : Int) : ∀ (cs : List Ch) (t : GridTerm), (cs.foldl (GridTerm.putChL L) t).pen = t.pen
  | [], _ => rfl
  | c :: cs, t => by
    simp only [List.foldl_cons]
    rw [foldl_putChL_pen L cs, putChL_pen]

/-- **runOK_of_calm**: requests that are calm on the grid terminal (`Calm`: what `flush_spec_screen` proves of a flush
    whose content lies within the screen - gotos to lines of the screen, no print leaves its line) and satisfy
    `StaticOK` are ones the simulation covers. -/
theorem runOK_of_calm (caps : TermPen.Caps) (L : Int) : ∀ (reqs : List Req) (t : GridTerm) (moved : Bool),
    Calm L t reqs → StaticOK caps moved (Pen.getBool t.pen.reverse) reqs → RunOK caps L moved t reqs
  | [], _, _, _, _ => trivial
  | r :: rs, t, moved, hcalm, hst => by
    obtain ⟨hc1, hc2⟩ := hcalm
    have hstep := GridTerm.stepL_eq L t r hc1
    cases r with
    | goto l c =>
      obtain ⟨h1, h2⟩ := hst
      simp only at hc1
      refine ⟨⟨hc1.1, h1⟩, ?_⟩
      rw [hstep]
      exact runOK_of_calm caps L rs _ _ hc2 h2
    | setpen p =>
      obtain ⟨h1, h2⟩ := hst
      refine ⟨h1, ?_⟩
      rw [hstep]
      refine runOK_of_calm caps L rs _ _ hc2 ?_
      have : Pen.getBool (t.step (.setpen p)).pen.reverse = Pen.getBool p.reverse := getBool_setAttr _ _
      rw [this]
      exact h2
    | erasech n m =>
      obtain ⟨⟨h1, h2, h3, h4⟩, h5⟩ := hst
      refine ⟨⟨h1, h3, h4, h2⟩, ?_⟩
      rw [hstep]
      refine runOK_of_calm caps L rs _ _ hc2 ?_
      have : (t.step (.erasech n m)).pen = t.pen := (GT.erasech_fields t n m h3).2.2.1
      rw [this]
      exact h5
    | print bs start len =>
      obtain ⟨⟨h1, h2, cps, h3, h4⟩, h5⟩ := hst
      have hb : GridTerm.reqBytes t.viaWriteStr bs start len = cps.flatMap stdUtf8 := by
        simp [GridTerm.reqBytes, h2, h4]
      have hrange : ∀ cp ∈ cps, 0 < cp ∧ cp < 0x200000 := fun cp hcp => by
        obtain ⟨⟨p1, p2, p3⟩, _⟩ := h3 cp hcp
        exact ⟨by omega, by omega⟩
      have hdec := termDecode_flatMap cps [] ((cps.flatMap stdUtf8).length + 1) hrange
        (by have := length_le_flatMap_stdUtf8 cps; omega)
      simp only [List.nil_append, List.length_nil] at hdec
      have estep : t.step (.print bs start len) = t.putChs (cps.map chOf) := by
        simp only [GridTerm.step, hb, GridTerm.printBytes, hdec]
      simp only at hc1
      rw [estep] at hc1
      refine ⟨⟨h1, h2, cps, h3, h4, fits_of_line cps t (fun cp hcp => (h3 cp hcp).2) hc1⟩, ?_⟩
      have hpen : (t.stepL L (.print bs start len)).pen = t.pen := by
        simp only [GridTerm.stepL, GridTerm.printBytesL, GridTerm.putChsL]
        exact foldl_putChL_pen L _ t
      rw [hstep]
      refine runOK_of_calm caps L rs _ _ hc2 ?_
      rw [← hstep, hpen]
      exact h5

end Tickit.RBFlushX
