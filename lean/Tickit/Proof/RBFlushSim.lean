import Tickit.Proof.RBFlushSgr
/-
  Proof/RBFlushSim.lean - C04, xterm-driver configuration: the simulation between the grid terminal (the meaning of the
  requests, `GridTerm.stepL` on a screen of `L` lines - what `flush_spec_screen` talks about) and the VT screen that reads
  the bytes the real xterm driver writes for those requests (`XScreen.interp ∘ reqCalls`).

  `Sim` relates the two terminals but for the cursor (same width, VT in its ground state, rendition in step with
  `tt->pen`, the oracle of the grid terminal says what the xterm driver does for `erasech(…, MAYBE)`: the cursor stays,
  every cell either untouched on both sides or written on both sides with the same glyph, the same number of times, the
  VT cell carrying the rendition the grid cell's pen asks for - an erased cell its background only);  `Cur` relates the
  cursors (the grid terminal's `col = cols` is the VT's pending wrap).  One request of the flush keeps both:
  `goto_sim` (establishes `Cur`: every line of a flush starts with a goto), `setpen_sim`, `erase_sim` (outside reverse
  video), `char_sim` (a print request carrying the UTF-8 form of one printable one-column code point: a CHAR cell).
  `sim_xcellOK` turns the grid terminal's `cellOK` into the VT screen's `xcellOK`.
-/
namespace Tickit.RBFlushX
open Tickit.RB Tickit.RBFlush

/-- A cell written since the simulation started: more writes than at the start, the same glyph on both terminals, and
    the VT cell rendered with what the grid cell's pen asks for (an erased cell: with its background only - ECH). -/
def Written (caps : TermPen.Caps) (t0c tc : TCell) (xc : XCell) : Prop :=
  t0c.writes < tc.writes ∧ xc.glyph = tc.glyph ∧
  xc.attrs = (if tc.glyph = .blank then XScreen.blankAttrs (expectAttrs caps tc.pen) else expectAttrs caps tc.pen)

/-- The grid terminal `t` and the VT screen `s` show the same, having started from `t0` and `s0`. -/
structure Sim (caps : TermPen.Caps) (t0 : GridTerm) (s0 : XScreen) (t : GridTerm) (s : XScreen) : Prop where
  lines : 0 < s.lines
  cols : s.cols = t.cols
  cols_pos : 0 < t.cols
  ground : s.ps = .ground
  attrs : s.attrs = expectAttrs caps t.pen
  enc : PenEncodable caps t.pen
  oracle : ∀ k, t.oracle k = false
  writes : ∀ l c, (s.cells l c).writes = (t.cells l c).writes
  cells : ∀ l c, (t.cells l c = t0.cells l c ∧ s.cells l c = s0.cells l c) ∨
    Written caps (t0.cells l c) (t.cells l c) (s.cells l c)

/-- The cursors agree: the grid terminal's `col = cols` is the VT's pending wrap on the last column. -/
structure Cur (t : GridTerm) (s : XScreen) : Prop where
  row : s.row = t.line
  rowIn : 0 ≤ t.line ∧ t.line < s.lines
  col : (s.pending = false ∧ s.col = t.col ∧ 0 ≤ t.col ∧ t.col < t.cols) ∨
    (s.pending = true ∧ t.col = t.cols ∧ s.col = t.cols - 1)
  last : s.last = t.last

/-- The grid terminal that shows what the VT screen `s` shows, with `tt->pen = cache`, behaving as the xterm driver does
    (`erasech(…, MAYBE)` leaves the cursor, `print` goes through `write_str`). -/
def gridOf (s : XScreen) (cache : Pen) : GridTerm :=
  { cells := fun l c => { glyph := (s.cells l c).glyph, pen := {}, writes := (s.cells l c).writes }
    line := s.row, col := s.col, cols := s.cols, last := s.last, pen := cache, viaWriteStr := true }

/-- The simulation starts from any VT screen whose rendition is in step with `tt->pen`. -/
theorem sim_init (caps : TermPen.Caps) (s : XScreen) (cache : Pen) (hl : 0 < s.lines) (hc : 0 < s.cols)
    (hg : s.ps = .ground) (ha : s.attrs = expectAttrs caps cache) (he : PenEncodable caps cache) :
    Sim caps (gridOf s cache) s (gridOf s cache) s :=
  { lines := hl, cols := rfl, cols_pos := hc, ground := hg, attrs := ha, enc := he, oracle := fun _ => rfl,
    writes := fun _ _ => rfl, cells := fun _ _ => Or.inl ⟨rfl, rfl⟩ }

theorem Sim.mono {caps : TermPen.Caps} {t0 t : GridTerm} {s0 s : XScreen} (h : Sim caps t0 s0 t s) (l c : Int) :
    (t0.cells l c).writes ≤ (t.cells l c).writes := by
  rcases h.cells l c with ⟨h1, _⟩ | ⟨h1, _⟩
  · rw [h1]; exact Nat.le_refl _
  · exact Nat.le_of_lt h1

/-! ### goto -/

/-- **goto_sim**: a goto request of the flush (non-negative line and column), read by the VT screen as the bytes of the
    driver's `goto_abs`, does what it does on the grid terminal with `L = s.lines` lines (clamping included), and leaves
    the two cursors in agreement whatever they were before. -/
theorem goto_sim {caps : TermPen.Caps} {t0 t : GridTerm} {s0 s : XScreen} (h : Sim caps t0 s0 t s) (l c : Int)
    (hl : 0 ≤ l) (hc : 0 ≤ c) :
    Sim caps t0 s0 (t.stepL s.lines (.goto l c)) (s.interp (reqCalls caps t.pen (.goto l c)).flatten) ∧
    Cur (t.stepL s.lines (.goto l c)) (s.interp (reqCalls caps t.pen (.goto l c)).flatten) ∧
    (s.interp (reqCalls caps t.pen (.goto l c)).flatten).lines = s.lines := by
  have e : s.interp (reqCalls caps t.pen (.goto l c)).flatten = s.moveTo l c := by
    simp only [reqCalls, call_flatten]
    exact XScreen.interp_gotoAbs s h.ground l c hl hc
  rw [e]
  have hL := h.lines
  have hC := h.cols_pos
  have hcs := h.cols
  refine ⟨?_, ?_, rfl⟩
  · exact { lines := h.lines, cols := h.cols, cols_pos := h.cols_pos, ground := h.ground, attrs := h.attrs, enc := h.enc,
            oracle := h.oracle, writes := h.writes, cells := h.cells }
  · refine { row := rfl, rowIn := ?_, col := ?_, last := rfl }
    · show 0 ≤ max 0 (min l (s.lines - 1)) ∧ max 0 (min l (s.lines - 1)) < s.lines
      omega
    · left
      refine ⟨rfl, ?_, ?_, ?_⟩
      · show max 0 (min c (s.cols - 1)) = max 0 (min c (t.cols - 1))
        rw [hcs]
      · show 0 ≤ max 0 (min c (t.cols - 1))
        omega
      · show max 0 (min c (t.cols - 1)) < t.cols
        omega

/-! ### setpen -/

/-- **setpen_sim**: a setpen request keeps the two terminals in step (the rendition of the VT follows `tt->pen`), and
    moves neither cursor. -/
theorem setpen_sim {caps : TermPen.Caps} {t0 t : GridTerm} {s0 s : XScreen} (h : Sim caps t0 s0 t s) (p : Pen)
    (hp : PenEncodable caps p) :
    Sim caps t0 s0 (t.stepL s.lines (.setpen p)) (s.interp (reqCalls caps t.pen (.setpen p)).flatten) ∧
    (Cur t s → Cur (t.stepL s.lines (.setpen p)) (s.interp (reqCalls caps t.pen (.setpen p)).flatten)) ∧
    (s.interp (reqCalls caps t.pen (.setpen p)).flatten).lines = s.lines := by
  rw [interp_setpen caps t.pen p s h.ground h.attrs h.enc hp]
  refine ⟨?_, ?_, rfl⟩
  · exact { lines := h.lines, cols := h.cols, cols_pos := h.cols_pos, ground := h.ground, attrs := rfl,
            enc := penEncodable_termSetpen caps t.pen p h.enc hp, oracle := h.oracle, writes := h.writes,
            cells := h.cells }
  · intro hc
    exact { row := hc.row, rowIn := hc.rowIn, col := hc.col, last := hc.last }

/-! ### erasech -/

namespace GT

theorem erasech_cells (t : GridTerm) (n : Int) (m : MaybeBool) (hn : 1 ≤ n) (l c : Int) :
    (t.erasech n m).cells l c =
      if l = t.line ∧ min t.col (t.cols - 1) ≤ c ∧ c < min t.col (t.cols - 1) + n ∧ c < t.cols then
        { glyph := .blank, pen := t.pen, writes := (t.cells l c).writes + 1 }
      else t.cells l c := by
  unfold GridTerm.erasech
  rw [if_neg (by omega)]
  cases m <;> rfl

theorem erasech_fields (t : GridTerm) (n : Int) (m : MaybeBool) (hn : 1 ≤ n) :
    (t.erasech n m).line = t.line ∧ (t.erasech n m).cols = t.cols ∧ (t.erasech n m).pen = t.pen ∧
    (t.erasech n m).oracle = t.oracle ∧ (t.erasech n m).last = none := by
  unfold GridTerm.erasech
  rw [if_neg (by omega)]
  cases m <;> exact ⟨rfl, rfl, rfl, rfl, rfl⟩

theorem erasech_col_yes (t : GridTerm) (n : Int) (hn : 1 ≤ n) :
    (t.erasech n .yes).col = min (min t.col (t.cols - 1) + n) (t.cols - 1) := by
  unfold GridTerm.erasech
  rw [if_neg (by omega)]

theorem erasech_col_maybe (t : GridTerm) (n : Int) (hn : 1 ≤ n) (ho : t.oracle t.nmaybe = false) :
    (t.erasech n .maybe).col = t.col := by
  unfold GridTerm.erasech
  rw [if_neg (by omega)]
  simp only [ho]
  rfl

end GT

theorem ech_cells (s : XScreen) (n : Int) (l c : Int) :
    (s.ech n).cells l c =
      if l = s.row ∧ s.col ≤ c ∧ c < s.col + n ∧ c < s.cols then
        { glyph := .blank, attrs := XScreen.blankAttrs s.attrs, writes := (s.cells l c).writes + 1 }
      else s.cells l c := rfl

/-- **erase_sim**: outside reverse video an erase request of `n ≥ 1` cells (`TICKIT_YES` or `TICKIT_MAYBE`, the two
    values the flush uses), read by the VT screen as the bytes of the driver's `erasech` (ECH, then CUF for
    `TICKIT_YES`), does what it does on the grid terminal: the same cells blanked once more, in the background of
    `tt->pen`; the cursors agree afterwards (moved to the end, clamped to the last column, or left where they were -
    also in the pending-wrap state). -/
theorem erase_sim {caps : TermPen.Caps} {t0 t : GridTerm} {s0 s : XScreen} (h : Sim caps t0 s0 t s) (hcur : Cur t s)
    (n : Int) (hn : 1 ≤ n) (m : MaybeBool) (hm : m ≠ .no) (hrv : Pen.getBool t.pen.reverse = false) :
    Sim caps t0 s0 (t.stepL s.lines (.erasech n m)) (s.interp (reqCalls caps t.pen (.erasech n m)).flatten) ∧
    Cur (t.stepL s.lines (.erasech n m)) (s.interp (reqCalls caps t.pen (.erasech n m)).flatten) ∧
    (s.interp (reqCalls caps t.pen (.erasech n m)).flatten).lines = s.lines := by
  have e : s.interp (reqCalls caps t.pen (.erasech n m)).flatten =
      if m = .yes then (s.ech n).moveTo s.row (s.col + n) else s.ech n := by
    simp only [reqCalls, hrv]
    exact interp_erase s h.ground n hn m
  have hstart : min t.col (t.cols - 1) = s.col := by
    rcases hcur.col with ⟨_, h2, h3, h4⟩ | ⟨_, h2, h3⟩ <;> omega
  obtain ⟨fl, fc, fp, fo, fla⟩ := GT.erasech_fields t n m hn
  have hcells : ∀ l c, (((t.erasech n m).cells l c = t0.cells l c ∧ (s.ech n).cells l c = s0.cells l c) ∨
      Written caps (t0.cells l c) ((t.erasech n m).cells l c) ((s.ech n).cells l c)) ∧
      ((s.ech n).cells l c).writes = ((t.erasech n m).cells l c).writes := by
    intro l c
    rw [GT.erasech_cells t n m hn, ech_cells, hstart, ← hcur.row, h.cols]
    by_cases hin : l = s.row ∧ s.col ≤ c ∧ c < s.col + n ∧ c < t.cols
    · rw [if_pos hin, if_pos hin]
      refine ⟨Or.inr ⟨Nat.lt_succ_of_le (h.mono l c), rfl, ?_⟩, by simp [h.writes l c]⟩
      simp [h.attrs]
    · rw [if_neg hin, if_neg hin]
      exact ⟨h.cells l c, h.writes l c⟩
  have hsim : Sim caps t0 s0 (t.erasech n m) (s.ech n) :=
    { lines := h.lines, cols := by rw [fc]; exact h.cols, cols_pos := by rw [fc]; exact h.cols_pos, ground := h.ground,
      attrs := by rw [fp]; exact h.attrs, enc := by rw [fp]; exact h.enc, oracle := by rw [fo]; exact h.oracle,
      writes := fun l c => (hcells l c).2, cells := fun l c => (hcells l c).1 }
  show Sim caps t0 s0 (t.erasech n m) _ ∧ Cur (t.erasech n m) _ ∧ _
  rw [e]
  have hL := h.lines
  have hC := h.cols_pos
  have hcs := h.cols
  have hrow := hcur.row
  have hri := hcur.rowIn
  cases m with
  | no => exact absurd rfl hm
  | yes =>
    simp only [if_true]
    refine ⟨?_, ?_, rfl⟩
    · exact { lines := hsim.lines, cols := hsim.cols, cols_pos := hsim.cols_pos, ground := hsim.ground,
              attrs := hsim.attrs, enc := hsim.enc, oracle := hsim.oracle, writes := hsim.writes, cells := hsim.cells }
    · refine { row := ?_, rowIn := by rw [fl]; exact hri, col := ?_, last := by rw [fla]; rfl }
      · rw [fl]
        show max 0 (min s.row (s.lines - 1)) = t.line
        omega
      · left
        rw [GT.erasech_col_yes t n hn, fc, hstart]
        refine ⟨rfl, ?_, ?_, ?_⟩
        · show max 0 (min (s.col + n) (s.cols - 1)) = _
          rcases hcur.col with ⟨_, h2, h3, h4⟩ | ⟨_, h2, h3⟩ <;> omega
        · rcases hcur.col with ⟨_, h2, h3, h4⟩ | ⟨_, h2, h3⟩ <;> omega
        · omega
  | maybe =>
    have hne : (MaybeBool.maybe = MaybeBool.yes) = False := by simp
    simp only [hne, if_false]
    refine ⟨hsim, ?_, rfl⟩
    refine { row := by rw [fl]; exact hrow, rowIn := by rw [fl]; exact hri, col := ?_, last := by rw [fla]; rfl }
    rw [GT.erasech_col_maybe t n hn (h.oracle _), fc]
    exact hcur.col

/-! ### The grid terminal's decoder on well-formed UTF-8 -/

theorem byteAt_append (pre l : List UInt8) (j : Nat) : Tickit.RB.Utf8.byteAt (pre ++ l) (pre.length + j) = Tickit.RB.Utf8.byteAt l j := by
  simp [Tickit.RB.Utf8.byteAt, List.getD, List.getElem?_append_right]

theorem contBytes_shift (pre l : List UInt8) : ∀ (k i cp : Nat),
    Tickit.RB.Utf8.contBytes (pre ++ l) k (pre.length + i) cp = Tickit.RB.Utf8.contBytes l k i cp
  | 0, _, _ => rfl
  | k + 1, i, cp => by
    simp only [Tickit.RB.Utf8.contBytes, byteAt_append]
    rw [Nat.add_assoc, contBytes_shift pre l k (i + 1)]

/-- `next_utf8` looks at the bytes from its starting point only. -/
theorem nextUtf8_shift (pre l : List UInt8) (len : Option Nat) :
    Tickit.RB.Utf8.nextUtf8 (pre ++ l) pre.length len = Tickit.RB.Utf8.nextUtf8 l 0 len := by
  have e := byteAt_append pre l 0
  have c := fun k cp => contBytes_shift pre l k 1 cp
  simp only [Nat.add_zero] at e
  unfold Tickit.RB.Utf8.nextUtf8
  simp only [e, c, Nat.zero_add]

theorem nextUtf8p_1 (x : Nat) (post : List UInt8) (hx : 0 < x ∧ x < 0x80) :
    Tickit.RB.Utf8.nextUtf8 (UInt8.ofNat x :: post) 0 (some (1 + post.length)) = some ⟨1, x⟩ := by
  have hx' := toNat_ofNat_lt x (by omega)
  unfold Tickit.RB.Utf8.nextUtf8
  simp only [byteAt_cons0, hx']
  repeat' split
  all_goals first | (exfalso; omega) | skip
  all_goals simp_all

theorem nextUtf8p_2 (x y : Nat) (post : List UInt8) (hx : 0xc2 ≤ x ∧ x ≤ 0xdf) (hy : 0x80 ≤ y ∧ y ≤ 0xbf) :
    Tickit.RB.Utf8.nextUtf8 (UInt8.ofNat x :: UInt8.ofNat y :: post) 0 (some (2 + post.length)) =
      some ⟨2, (x - 0xc0) * 64 + (y - 0x80)⟩ := by
  have hx' := toNat_ofNat_lt x (by omega)
  have hy' := toNat_ofNat_lt y (by omega)
  unfold Tickit.RB.Utf8.nextUtf8
  simp only [byteAt_cons0, hx']
  have : Tickit.RB.Utf8.contBytes (UInt8.ofNat x :: UInt8.ofNat y :: post) (2 - 1) (0 + 1) (x % 32) =
      some ((x - 0xc0) * 64 + (y - 0x80)) := by
    show Tickit.RB.Utf8.contBytes (UInt8.ofNat x :: UInt8.ofNat y :: post) 1 1 (x % 32) = _
    unfold Tickit.RB.Utf8.contBytes
    simp only [byteAt_cons_succ, byteAt_cons0, hy']
    rw [if_neg (by omega)]
    unfold Tickit.RB.Utf8.contBytes
    exact congrArg some (by omega)
  repeat' split
  all_goals first | (exfalso; omega) | skip
  all_goals simp_all
  all_goals omega

theorem nextUtf8p_3 (x y z : Nat) (post : List UInt8) (hx : 0xe0 ≤ x ∧ x ≤ 0xef) (hy : 0x80 ≤ y ∧ y ≤ 0xbf)
    (hz : 0x80 ≤ z ∧ z ≤ 0xbf) :
    Tickit.RB.Utf8.nextUtf8 (UInt8.ofNat x :: UInt8.ofNat y :: UInt8.ofNat z :: post) 0 (some (3 + post.length)) =
      some ⟨3, ((x - 0xe0) * 64 + (y - 0x80)) * 64 + (z - 0x80)⟩ := by
  have hx' := toNat_ofNat_lt x (by omega)
  have hy' := toNat_ofNat_lt y (by omega)
  have hz' := toNat_ofNat_lt z (by omega)
  unfold Tickit.RB.Utf8.nextUtf8
  simp only [byteAt_cons0, hx']
  have : Tickit.RB.Utf8.contBytes (UInt8.ofNat x :: UInt8.ofNat y :: UInt8.ofNat z :: post) (3 - 1) (0 + 1) (x % 16) =
      some (((x - 0xe0) * 64 + (y - 0x80)) * 64 + (z - 0x80)) := by
    show Tickit.RB.Utf8.contBytes (UInt8.ofNat x :: UInt8.ofNat y :: UInt8.ofNat z :: post) 2 1 (x % 16) = _
    unfold Tickit.RB.Utf8.contBytes
    simp only [byteAt_cons_succ, byteAt_cons0, hy']
    rw [if_neg (by omega)]
    unfold Tickit.RB.Utf8.contBytes
    simp only [byteAt_cons_succ, byteAt_cons0, hz']
    rw [if_neg (by omega)]
    unfold Tickit.RB.Utf8.contBytes
    exact congrArg some (by omega)
  repeat' split
  all_goals first | (exfalso; omega) | skip
  all_goals simp_all
  all_goals omega

theorem nextUtf8p_4 (x y z w : Nat) (post : List UInt8) (hx : 0xf0 ≤ x ∧ x ≤ 0xf7) (hy : 0x80 ≤ y ∧ y ≤ 0xbf)
    (hz : 0x80 ≤ z ∧ z ≤ 0xbf) (hw : 0x80 ≤ w ∧ w ≤ 0xbf) :
    Tickit.RB.Utf8.nextUtf8 (UInt8.ofNat x :: UInt8.ofNat y :: UInt8.ofNat z :: UInt8.ofNat w :: post) 0 (some (4 + post.length)) =
      some ⟨4, (((x - 0xf0) * 64 + (y - 0x80)) * 64 + (z - 0x80)) * 64 + (w - 0x80)⟩ := by
  have hx' := toNat_ofNat_lt x (by omega)
  have hy' := toNat_ofNat_lt y (by omega)
  have hz' := toNat_ofNat_lt z (by omega)
  have hw' := toNat_ofNat_lt w (by omega)
  unfold Tickit.RB.Utf8.nextUtf8
  simp only [byteAt_cons0, hx']
  have : Tickit.RB.Utf8.contBytes (UInt8.ofNat x :: UInt8.ofNat y :: UInt8.ofNat z :: UInt8.ofNat w :: post) (4 - 1) (0 + 1) (x % 8) =
      some ((((x - 0xf0) * 64 + (y - 0x80)) * 64 + (z - 0x80)) * 64 + (w - 0x80)) := by
    show Tickit.RB.Utf8.contBytes (UInt8.ofNat x :: UInt8.ofNat y :: UInt8.ofNat z :: UInt8.ofNat w :: post) 3 1 (x % 8) = _
    unfold Tickit.RB.Utf8.contBytes
    simp only [byteAt_cons_succ, byteAt_cons0, hy']
    rw [if_neg (by omega)]
    unfold Tickit.RB.Utf8.contBytes
    simp only [byteAt_cons_succ, byteAt_cons0, hz']
    rw [if_neg (by omega)]
    unfold Tickit.RB.Utf8.contBytes
    simp only [byteAt_cons_succ, byteAt_cons0, hw']
    rw [if_neg (by omega)]
    unfold Tickit.RB.Utf8.contBytes
    exact congrArg some (by omega)
  repeat' split
  all_goals first | (exfalso; omega) | skip
  all_goals simp_all
  all_goals omega

/-- `next_utf8` reads the UTF-8 form of a code point at the head of a longer string as that code point. -/
theorem nextUtf8_stdUtf8_post (cp : Nat) (post : List UInt8) (h0 : 0 < cp) (h : cp < 0x200000) :
    Tickit.RB.Utf8.nextUtf8 (stdUtf8 cp ++ post) 0 (some ((stdUtf8 cp).length + post.length)) = some ⟨(stdUtf8 cp).length, cp⟩ := by
  unfold stdUtf8
  by_cases c1 : cp < 0x80
  · simp only [if_pos c1, List.length_cons, List.length_nil, List.cons_append, List.nil_append, Nat.zero_add]
    exact nextUtf8p_1 cp post ⟨h0, c1⟩
  · by_cases c2 : cp < 0x800
    · simp only [if_neg c1, if_pos c2, List.length_cons, List.length_nil, List.cons_append, List.nil_append, Nat.zero_add]
      rw [nextUtf8p_2 _ _ post (by omega) (by omega)]
      exact congrArg (fun v => some (Tickit.RB.Utf8.Dec.mk 2 v)) (by omega)
    · by_cases c3 : cp < 0x10000
      · simp only [if_neg c1, if_neg c2, if_pos c3, List.length_cons, List.length_nil, List.cons_append, List.nil_append,
          Nat.zero_add]
        rw [nextUtf8p_3 _ _ _ post (by omega) (by omega) (by omega)]
        exact congrArg (fun v => some (Tickit.RB.Utf8.Dec.mk 3 v)) (by omega)
      · simp only [if_neg c1, if_neg c2, if_neg c3, List.length_cons, List.length_nil, List.cons_append, List.nil_append,
          Nat.zero_add]
        rw [nextUtf8p_4 _ _ _ _ post (by omega) (by omega) (by omega) (by omega)]
        exact congrArg (fun v => some (Tickit.RB.Utf8.Dec.mk 4 v)) (by omega)

/-- One character as the grid terminal decodes it. -/
def chOf (cp : Nat) : Ch := ⟨stdUtf8 cp, cp, if Tickit.RB.Utf8.wcwidth cp < 0 then 1 else Tickit.RB.Utf8.wcwidth cp⟩

theorem termDecode_end0 (bs : List UInt8) : ∀ (fuel i : Nat), i ≥ bs.length → GridTerm.termDecode bs fuel i = []
  | 0, _, _ => rfl
  | fuel + 1, i, h => by simp [GridTerm.termDecode, h]

/-- The grid terminal decodes well-formed UTF-8 into the code points it encodes. -/
theorem termDecode_flatMap : ∀ (cps : List Nat) (pre : List UInt8) (fuel : Nat),
    (∀ cp ∈ cps, 0 < cp ∧ cp < 0x200000) → cps.length < fuel →
    GridTerm.termDecode (pre ++ cps.flatMap stdUtf8) fuel pre.length = cps.map chOf
  | [], pre, fuel, _, _ => by
    simp only [List.flatMap_nil, List.append_nil, List.map_nil]
    exact termDecode_end0 _ _ _ (Nat.le_refl _)
  | cp :: rest, pre, 0, _, hf => by simp at hf
  | cp :: rest, pre, fuel + 1, h, hf => by
    have hl := stdUtf8_length_ne cp
    obtain ⟨h0, h1⟩ := h cp (by simp)
    simp only [List.flatMap_cons, List.map_cons]
    have hlen : (pre ++ (stdUtf8 cp ++ rest.flatMap stdUtf8)).length =
        pre.length + ((stdUtf8 cp).length + (rest.flatMap stdUtf8).length) := by simp
    have hn : Tickit.RB.Utf8.nextUtf8 (pre ++ (stdUtf8 cp ++ rest.flatMap stdUtf8)) pre.length
        (some ((pre ++ (stdUtf8 cp ++ rest.flatMap stdUtf8)).length - pre.length)) = some ⟨(stdUtf8 cp).length, cp⟩ := by
      rw [nextUtf8_shift, hlen, Nat.add_sub_cancel_left]
      exact nextUtf8_stdUtf8_post cp _ h0 h1
    have hd : ((pre ++ (stdUtf8 cp ++ rest.flatMap stdUtf8)).drop pre.length).take (stdUtf8 cp).length = stdUtf8 cp := by
      simp
    have ih := termDecode_flatMap rest (pre ++ stdUtf8 cp) fuel (fun x hx => h x (by simp [hx])) (by simpa using hf)
    rw [List.append_assoc, List.length_append] at ih
    unfold GridTerm.termDecode
    rw [if_neg (by omega), hn]
    simp only [hd, ih]
    rfl

theorem length_le_flatMap_stdUtf8 : ∀ cps : List Nat, cps.length ≤ (cps.flatMap stdUtf8).length
  | [] => Nat.le_refl _
  | cp :: rest => by
    have := stdUtf8_length_ne cp
    have := length_le_flatMap_stdUtf8 rest
    simp only [List.flatMap_cons, List.length_append, List.length_cons]
    omega

/-- The driver's `print` of well-formed UTF-8 on the grid terminal: its code points, one after the other. -/
theorem printBytesL_flatMap (L : Int) (t : GridTerm) (cps : List Nat) (h : ∀ cp ∈ cps, 0 < cp ∧ cp < 0x200000) :
    t.printBytesL L (cps.flatMap stdUtf8) = t.putChsL L (cps.map chOf) := by
  have := termDecode_flatMap cps [] ((cps.flatMap stdUtf8).length + 1) h
    (by have := length_le_flatMap_stdUtf8 cps; omega)
  simp only [List.nil_append, List.length_nil] at this
  simp only [GridTerm.printBytesL, this]

/-! ### A print request carrying one printable one-column code point (a CHAR cell) -/

theorem termDecode_end (bs : List UInt8) : ∀ (fuel i : Nat), i ≥ bs.length → GridTerm.termDecode bs fuel i = []
  | 0, _, _ => rfl
  | fuel + 1, i, h => by simp [GridTerm.termDecode, h]

/-- The grid terminal decodes the UTF-8 form of a code point as that one character. -/
theorem termDecode_stdUtf8 (cp : Nat) (h0 : 0 < cp) (h : cp < 0x200000) :
    GridTerm.termDecode (stdUtf8 cp) ((stdUtf8 cp).length + 1) 0 =
      [⟨stdUtf8 cp, cp, if Tickit.RB.Utf8.wcwidth cp < 0 then 1 else Tickit.RB.Utf8.wcwidth cp⟩] := by
  have hl := stdUtf8_length_ne cp
  have hd := nextUtf8_stdUtf8 cp h0 h
  simp only [GridTerm.termDecode]
  rw [if_neg (by omega), Nat.sub_zero, hd]
  simp only [List.drop_zero, List.take_length, Nat.zero_add]
  rw [termDecode_end _ _ _ (Nat.le_refl _)]

theorem putWide_fit (s : XScreen) (bs : Bytes) (hp : s.pending = false) (hc : s.col + 1 ≤ s.cols) :
    s.putWide bs 1 =
      if s.col + 1 ≥ s.cols then
        { s with
          cells := fun l c =>
            if l = s.row ∧ s.col ≤ c ∧ c < s.col + 1 ∧ c < s.cols then
              { glyph := if c = s.col then .chars bs else .wcont, attrs := s.attrs, writes := (s.cells l c).writes + 1 }
            else s.cells l c
          col := s.cols - 1, pending := true, last := some (s.row, s.col) }
      else
        { s with
          cells := fun l c =>
            if l = s.row ∧ s.col ≤ c ∧ c < s.col + 1 ∧ c < s.cols then
              { glyph := if c = s.col then .chars bs else .wcont, attrs := s.attrs, writes := (s.cells l c).writes + 1 }
            else s.cells l c
          col := s.col + 1, last := some (s.row, s.col) } := by
  have hn : ¬ (s.pending = true ∨ s.col + 1 > s.cols) := by
    intro hx
    rcases hx with hx | hx
    · rw [hp] at hx; cases hx
    · omega
  simp only [XScreen.putWide, hn, if_false]

/-- **char_sim**: the print request of a CHAR cell - the UTF-8 form of a printable code point the library's tables give
    one column - with the cursor not in the pending-wrap state, read by the VT screen, does what it does on the grid
    terminal: the cell at the cursor shows the character in the rendition of `tt->pen`, written once more; the cursors
    advance alike (into the pending-wrap state at the last column). -/
theorem char_sim {caps : TermPen.Caps} {t0 t : GridTerm} {s0 s : XScreen} (h : Sim caps t0 s0 t s) (hcur : Cur t s)
    (hnp : t.col < t.cols) (cp : Nat) (hp : Printable cp) (hw : Tickit.RB.Utf8.wcwidth cp = 1) :
    Sim caps t0 s0 (t.stepL s.lines (.print (stdUtf8 cp) 0 (stdUtf8 cp).length))
      (s.interp (reqCalls caps t.pen (.print (stdUtf8 cp) 0 (stdUtf8 cp).length)).flatten) ∧
    Cur (t.stepL s.lines (.print (stdUtf8 cp) 0 (stdUtf8 cp).length))
      (s.interp (reqCalls caps t.pen (.print (stdUtf8 cp) 0 (stdUtf8 cp).length)).flatten) ∧
    (s.interp (reqCalls caps t.pen (.print (stdUtf8 cp) 0 (stdUtf8 cp).length)).flatten).lines = s.lines := by
  have hl := stdUtf8_length_ne cp
  have hP := hp
  obtain ⟨p1, p2, p3⟩ := hp
  obtain ⟨hpend, hcol, hc0, hc1⟩ : s.pending = false ∧ s.col = t.col ∧ 0 ≤ t.col ∧ t.col < t.cols := by
    rcases hcur.col with hx | ⟨_, h2, _⟩
    · exact hx
    · omega
  have hcs := h.cols
  -- the VT screen
  have es : s.interp (reqCalls caps t.pen (.print (stdUtf8 cp) 0 (stdUtf8 cp).length)).flatten =
      s.putWide (stdUtf8 cp) 1 := by
    simp only [reqCalls, if_neg hl, List.drop_zero, List.take_length, call_flatten]
    rw [XScreen.interp_stdUtf8 s h.ground cp hP]
    simp [XScreen.putCp, hw]
  -- the grid terminal
  have et : t.stepL s.lines (.print (stdUtf8 cp) 0 (stdUtf8 cp).length) = t.putGlyphRaw (stdUtf8 cp) 1 := by
    have hb : GridTerm.reqBytes t.viaWriteStr (stdUtf8 cp) 0 (stdUtf8 cp).length = stdUtf8 cp := by
      simp [GridTerm.reqBytes, hl]
    simp only [GridTerm.stepL, hb, GridTerm.printBytesL, termDecode_stdUtf8 cp (by omega) (by omega), hw,
      GridTerm.putChsL, List.foldl_cons, List.foldl_nil, GridTerm.putChL, GridTerm.putGlyphL]
    have hn : ¬ t.col + 1 > t.cols := by omega
    simp [hn]
  rw [es, et, putWide_fit s _ hpend (by omega)]
  have hcells : ∀ l c,
      (((t.putGlyphRaw (stdUtf8 cp) 1).cells l c = t0.cells l c ∧
        (if l = s.row ∧ s.col ≤ c ∧ c < s.col + 1 ∧ c < s.cols then
          ({ glyph := if c = s.col then .chars (stdUtf8 cp) else .wcont, attrs := s.attrs,
             writes := (s.cells l c).writes + 1 } : XCell)
         else s.cells l c) = s0.cells l c) ∨
       Written caps (t0.cells l c) ((t.putGlyphRaw (stdUtf8 cp) 1).cells l c)
        (if l = s.row ∧ s.col ≤ c ∧ c < s.col + 1 ∧ c < s.cols then
          ({ glyph := if c = s.col then .chars (stdUtf8 cp) else .wcont, attrs := s.attrs,
             writes := (s.cells l c).writes + 1 } : XCell)
         else s.cells l c)) ∧
      (if l = s.row ∧ s.col ≤ c ∧ c < s.col + 1 ∧ c < s.cols then
          ({ glyph := if c = s.col then .chars (stdUtf8 cp) else .wcont, attrs := s.attrs,
             writes := (s.cells l c).writes + 1 } : XCell)
         else s.cells l c).writes = ((t.putGlyphRaw (stdUtf8 cp) 1).cells l c).writes := by
    intro l c
    have hg : (t.putGlyphRaw (stdUtf8 cp) 1).cells l c =
        if l = t.line ∧ t.col ≤ c ∧ c < t.col + 1 then
          { glyph := if c = t.col then .chars (stdUtf8 cp) else .wcont, pen := t.pen, writes := (t.cells l c).writes + 1 }
        else t.cells l c := rfl
    rw [hg]
    by_cases hin : l = t.line ∧ t.col ≤ c ∧ c < t.col + 1
    · have hin2 : l = s.row ∧ s.col ≤ c ∧ c < s.col + 1 ∧ c < s.cols := by
        rw [hcur.row, hcol, hcs]; exact ⟨hin.1, hin.2.1, hin.2.2, by omega⟩
      have hceq : c = t.col := by omega
      rw [if_pos hin, if_pos hin2]
      refine ⟨Or.inr ⟨Nat.lt_succ_of_le (h.mono l c), ?_, ?_⟩, by simp [h.writes l c]⟩
      · simp [hceq, hcol]
      · simp [hceq, h.attrs]
    · have hin2 : ¬ (l = s.row ∧ s.col ≤ c ∧ c < s.col + 1 ∧ c < s.cols) := by
        rw [hcur.row, hcol]; intro hx; exact hin ⟨hx.1, hx.2.1, hx.2.2.1⟩
      rw [if_neg hin, if_neg hin2]
      exact ⟨h.cells l c, h.writes l c⟩
  have hri := hcur.rowIn
  have hrow := hcur.row
  by_cases hedge : s.col + 1 ≥ s.cols
  · rw [if_pos hedge]
    refine ⟨?_, ?_, rfl⟩
    · exact { lines := h.lines, cols := h.cols, cols_pos := h.cols_pos, ground := h.ground, attrs := h.attrs, enc := h.enc,
              oracle := h.oracle, writes := fun l c => (hcells l c).2, cells := fun l c => (hcells l c).1 }
    · refine { row := hrow, rowIn := hri, col := Or.inr ⟨rfl, ?_, ?_⟩, last := ?_ }
      · show t.col + 1 = t.cols
        omega
      · show s.cols - 1 = t.cols - 1
        omega
      · show some (s.row, s.col) = some (t.line, t.col)
        rw [hrow, hcol]
  · rw [if_neg hedge]
    refine ⟨?_, ?_, rfl⟩
    · exact { lines := h.lines, cols := h.cols, cols_pos := h.cols_pos, ground := h.ground, attrs := h.attrs, enc := h.enc,
              oracle := h.oracle, writes := fun l c => (hcells l c).2, cells := fun l c => (hcells l c).1 }
    · refine { row := hrow, rowIn := hri, col := Or.inl ⟨hpend, ?_, ?_, ?_⟩, last := ?_ }
      · show s.col + 1 = t.col + 1
        omega
      · show 0 ≤ t.col + 1
        omega
      · show t.col + 1 < t.cols
        omega
      · show some (s.row, s.col) = some (t.line, t.col)
        rw [hrow, hcol]

/-! ### A sequence of requests -/

/-- What the simulation asks of one request, given the grid terminal `t` it arrives at (`moved`: a goto has been seen,
    so the cursors agree): gotos at non-negative positions, pens the driver can say, erases of at least one cell that
    are not `TICKIT_NO` and not under reverse video (then the driver prints spaces: not covered), print requests
    carrying the UTF-8 form of one printable one-column code point with the cursor not in the pending-wrap state. -/
def ReqOK (caps : TermPen.Caps) (moved : Bool) (t : GridTerm) : Req → Prop
  | .goto l c => 0 ≤ l ∧ 0 ≤ c
  | .setpen p => PenEncodable caps p
  | .erasech n m => moved = true ∧ 1 ≤ n ∧ m ≠ .no ∧ Pen.getBool t.pen.reverse = false
  | .print bs start len =>
    moved = true ∧ t.col < t.cols ∧
    ∃ cp, Printable cp ∧ Tickit.RB.Utf8.wcwidth cp = 1 ∧ bs = stdUtf8 cp ∧ start = 0 ∧ len = (stdUtf8 cp).length

def movedAfter (moved : Bool) : Req → Bool
  | .goto _ _ => true
  | _ => moved

/-- `ReqOK` of every request of a sequence, each at the grid terminal the requests before it lead to (on a screen of
    `L` lines). -/
def RunOK (caps : TermPen.Caps) (L : Int) : Bool → GridTerm → List Req → Prop
  | _, _, [] => True
  | moved, t, r :: rs => ReqOK caps moved t r ∧ RunOK caps L (movedAfter moved r) (t.stepL L r) rs

/-- One request: the two terminals stay in step, `tt->pen` is what `reqPen` says, the cursors agree once a goto has been
    seen. -/
theorem req_sim {caps : TermPen.Caps} {t0 t : GridTerm} {s0 s : XScreen} (h : Sim caps t0 s0 t s) (moved : Bool)
    (hcur : moved = true → Cur t s) (r : Req) (hr : ReqOK caps moved t r) :
    Sim caps t0 s0 (t.stepL s.lines r) (s.interp (reqCalls caps t.pen r).flatten) ∧
    (movedAfter moved r = true → Cur (t.stepL s.lines r) (s.interp (reqCalls caps t.pen r).flatten)) ∧
    (s.interp (reqCalls caps t.pen r).flatten).lines = s.lines ∧
    (t.stepL s.lines r).pen = reqPen t.pen r := by
  cases r with
  | goto l c =>
    obtain ⟨h1, h2, h3⟩ := goto_sim h l c hr.1 hr.2
    exact ⟨h1, fun _ => h2, h3, rfl⟩
  | setpen p =>
    obtain ⟨h1, h2, h3⟩ := setpen_sim h p hr
    exact ⟨h1, fun hm => h2 (hcur hm), h3, rfl⟩
  | erasech n m =>
    obtain ⟨hm, hn, hno, hrv⟩ := hr
    obtain ⟨h1, h2, h3⟩ := erase_sim h (hcur hm) n hn m hno hrv
    exact ⟨h1, fun _ => h2, h3, (GT.erasech_fields t n m hn).2.2.1⟩
  | print bs start len =>
    obtain ⟨hm, hnp, cp, hp, hw, rfl, rfl, rfl⟩ := hr
    obtain ⟨h1, h2, h3⟩ := char_sim h (hcur hm) hnp cp hp hw
    refine ⟨h1, fun _ => h2, h3, ?_⟩
    have hl := stdUtf8_length_ne cp
    have hb : GridTerm.reqBytes t.viaWriteStr (stdUtf8 cp) 0 (stdUtf8 cp).length = stdUtf8 cp := by
      simp [GridTerm.reqBytes, hl]
    obtain ⟨p1, p2, p3⟩ := hp
    have hn : ¬ t.col + 1 > t.cols := by omega
    simp only [GridTerm.stepL, hb, GridTerm.printBytesL, termDecode_stdUtf8 cp (by omega) (by omega), hw,
      GridTerm.putChsL, List.foldl_cons, List.foldl_nil, GridTerm.putChL, GridTerm.putGlyphL, reqPen]
    simp [hn, GridTerm.putGlyphRaw]

/-- **reqs_sim**: a sequence of requests the simulation covers (`RunOK`), read by the VT screen as the bytes the xterm
    driver writes for them one after the other (`reqsCalls`: `tt->pen` threaded through), leaves the VT screen in step
    with the grid terminal that executed the requests on a screen of as many lines. -/
theorem reqs_sim {caps : TermPen.Caps} {t0 : GridTerm} {s0 : XScreen} :
    ∀ (reqs : List Req) (t : GridTerm) (s : XScreen) (moved : Bool), Sim caps t0 s0 t s → (moved = true → Cur t s) →
      RunOK caps s.lines moved t reqs →
      Sim caps t0 s0 (t.runL s.lines reqs) (s.interp (reqsCalls caps t.pen reqs).flatten)
  | [], t, s, _, h, _, _ => by simpa [GridTerm.runL, reqsCalls] using h
  | r :: rs, t, s, moved, h, hcur, hrun => by
    obtain ⟨hr, hrest⟩ := hrun
    obtain ⟨h1, h2, h3, h4⟩ := req_sim h moved hcur r hr
    have := reqs_sim rs (t.stepL s.lines r) (s.interp (reqCalls caps t.pen r).flatten) (movedAfter moved r) h1 h2
      (by rw [h3]; exact hrest)
    rw [h3, h4] at this
    simpa only [GridTerm.runL, reqsCalls, List.flatten_append, XScreen.interp_append] using this

/-! ### From the grid terminal's `cellOK` to the VT screen's `xcellOK` -/

theorem equivColour_cases (a b : Option Colour) (h : Pen.equivColour a b = true) :
    Pen.getColour a = Pen.getColour b ∧ Pen.getRgb a = Pen.getRgb b := by
  unfold Pen.equivColour at h
  by_cases hc : Pen.getColour a ≠ Pen.getColour b
  · simp [hc] at h
  · simp only [hc, if_false] at h
    refine ⟨by simpa using hc, ?_⟩
    cases hra : Pen.getRgb a with
    | none =>
      cases hrb : Pen.getRgb b with
      | none => rfl
      | some y => simp [hra, hrb] at h
    | some x =>
      cases hrb : Pen.getRgb b with
      | none => simp [hra, hrb] at h
      | some y =>
        simp only [hra, hrb, Bool.and_eq_true, beq_iff_eq] at h
        cases x; cases y
        simp_all

/-- The colour a terminal of 256 colours shows for a colour attribute. -/
def shownColour (rgb8 : Bool) (o : Option Colour) : Sgr.Colr :=
  TermPen.expectColour rgb8 ((o.map toTPColour).map (TermPen.convColour 256))

theorem shownColour_val (rgb8 : Bool) (o : Option Colour) :
    shownColour rgb8 o = shownColour rgb8 (some ⟨Pen.getColour o, Pen.getRgb o⟩) := by
  cases o with
  | none => simp [shownColour, TermPen.expectColour, TermPen.convColour, toTPColour, Pen.getColour, Pen.getRgb]
  | some c => cases c; rfl

theorem shownColour_congr (rgb8 : Bool) (a b : Option Colour) (h : Pen.equivColour a b = true) :
    shownColour rgb8 a = shownColour rgb8 b := by
  obtain ⟨h1, h2⟩ := equivColour_cases a b h
  rw [shownColour_val rgb8 a, shownColour_val rgb8 b, h1, h2]

/-- Pens that are `tickit_pen_equiv` ask for the same rendition. -/
theorem expectAttrs_of_penSame (caps : TermPen.Caps) (a b : Pen) (h : penSame a b = true) :
    expectAttrs caps a = expectAttrs caps b := by
  simp only [penSame, Pen.equiv, Bool.and_eq_true, Pen.equivBool, Pen.equivInt, beq_iff_eq] at h
  obtain ⟨⟨⟨⟨⟨⟨⟨⟨⟨h1, h2⟩, h3⟩, h4⟩, h5⟩, h6⟩, h7⟩, h8⟩, h9⟩, h10⟩ := h
  have e1 := shownColour_congr caps.rgb8 _ _ h1
  have e2 := shownColour_congr caps.rgb8 _ _ h2
  simp only [shownColour] at e1 e2
  simp only [expectAttrs, TermPen.expected, TermPen.expectAttrs, TermPen.convPen, toTP, e1, e2]
  simp only [Pen.getBool, Pen.getInt] at h3 h4 h5 h6 h7 h8 h9 h10
  simp only [TermPen.getBool, TermPen.getInt, h3, h4, h5, h6, h7, h8, h9, h10]

theorem expectAttrs_reverse (caps : TermPen.Caps) (p : Pen) : (expectAttrs caps p).reverse = Pen.getBool p.reverse := rfl

/-- **sim_xcellOK**: where the grid terminal meets the obligation of the buffer's content (`cellOK`: glyph, a pen
    equivalent to the cell's, written once), the VT screen in step with it meets the obligation stated on the screen
    (`xcellOK`: glyph, the rendition that pen asks for - an erased cell: its background, the pen not asking for
    reverse video -, written once). -/
theorem sim_xcellOK {caps : TermPen.Caps} {t0 t : GridTerm} {s0 s : XScreen} (h : Sim caps t0 s0 t s) (l c : Int)
    (w : Want) (hw0 : (s0.cells l c).writes = (t0.cells l c).writes)
    (hrv : ∀ p, w = .glyph .blank p → Pen.getBool p.reverse = false)
    (hok : cellOK w (t0.cells l c) (t.cells l c) = true) :
    xcellOK caps w (s0.cells l c) (s.cells l c) = true := by
  have hwr := h.writes l c
  cases w with
  | keep =>
    simp only [cellOK, beq_iff_eq] at hok
    rcases h.cells l c with ⟨_, h2⟩ | ⟨h1, _⟩
    · simp [xcellOK, h2]
    · rw [hok] at h1; exact absurd h1 (Nat.lt_irrefl _)
  | unspecified => rfl
  | glyph g p =>
    simp only [cellOK, Bool.and_eq_true, beq_iff_eq] at hok
    obtain ⟨⟨hg, hp⟩, hwt⟩ := hok
    rcases h.cells l c with ⟨h1, _⟩ | ⟨_, h2, h3⟩
    · rw [h1] at hwt; omega
    · have he := expectAttrs_of_penSame caps _ _ hp
      rw [he] at h3
      simp only [xcellOK, Bool.and_eq_true, beq_iff_eq]
      refine ⟨⟨by simp [glyphSame, h2, hg], ?_⟩, by omega⟩
      unfold attrsShow
      rw [h2, hg]
      cases g with
      | blank =>
        rw [hg] at h3
        simp only [if_true] at h3
        simp [h3, XScreen.blankAttrs, expectAttrs_reverse, hrv p rfl]
      | chars bs =>
        rw [hg] at h3
        simpa using h3
      | wcont =>
        rw [hg] at h3
        simpa using h3
  | line m p =>
    simp only [cellOK, Bool.and_eq_true, beq_iff_eq] at hok
    obtain ⟨⟨hg, hp⟩, hwt⟩ := hok
    rcases h.cells l c with ⟨h1, _⟩ | ⟨_, h2, h3⟩
    · rw [h1] at hwt; omega
    · have he := expectAttrs_of_penSame caps _ _ hp
      rw [he] at h3
      simp only [xcellOK, Bool.and_eq_true, beq_iff_eq]
      cases hgl : (t.cells l c).glyph with
      | blank => simp [hgl] at hg
      | wcont => simp [hgl] at hg
      | chars bs =>
        rw [hgl] at hg h2 h3
        refine ⟨⟨by simpa [h2] using hg, ?_⟩, by omega⟩
        unfold attrsShow
        rw [h2]
        simpa using h3

end Tickit.RBFlushX
