import Tickit.Proof.RBFlushSgr
/-
  Proof/RBFlushSim.lean - C04, xterm-driver configuration: the simulation between the grid terminal (the meaning of the
  requests, `GridTerm.stepL` on a screen of `L` lines - what `flush_spec_screen` talks about) and the VT screen that reads
  the bytes the real xterm driver writes for those requests (`XScreen.interp ∘ reqCalls`).

  `Sim` relates the two terminals but for the cursor (same width, VT in its ground state, rendition in step with
  `tt->pen`, the oracle of the grid terminal says what the xterm driver does for `erasech(…, MAYBE)`: the cursor stays,
  every cell either untouched on both sides or written on both sides with the same glyph, the same number of times, the
  VT cell carrying the rendition the grid cell's pen asks for - an erased cell its background only);  `Cur` relates the
  cursors (the grid terminal's `col = cols` is the VT's pending wrap).  One request of the flush keeps both:
  `goto_sim` (establishes `Cur`: every line of a flush starts with a goto), `setpen_sim`, `erase_sim` (outside reverse
  video), `char_sim` (a print request carrying the UTF-8 form of one printable one-column code point: a CHAR cell).
  `sim_xcellOK` turns the grid terminal's `cellOK` into the VT screen's `xcellOK`.
-/
namespace Tickit.RBFlushX
open Tickit.RB Tickit.RBFlush

/-- A cell written since the simulation started: more writes than at the start, the same glyph on both terminals, and
    the VT cell rendered with what the grid cell's pen asks for (an erased cell: with its background only - ECH). -/
def Written (caps : TermPen.Caps) (t0c tc : TCell) (xc : XCell) : Prop :=
  t0c.writes < tc.writes ∧ xc.glyph = tc.glyph ∧
  xc.attrs = (if tc.glyph = .blank then XScreen.blankAttrs (expectAttrs caps tc.pen) else expectAttrs caps tc.pen)

/-- The grid terminal `t` and the VT screen `s` show the same, having started from `t0` and `s0`. -/
structure Sim (caps : TermPen.Caps) (t0 : GridTerm) (s0 : XScreen) (t : GridTerm) (s : XScreen) : Prop where
  lines : 0 < s.lines
  cols : s.cols = t.cols
  cols_pos : 0 < t.cols
  ground : s.ps = .ground
  attrs : s.attrs = expectAttrs caps t.pen
  enc : PenEncodable caps t.pen
  oracle : ∀ k, t.oracle k = false
  writes : ∀ l c, (s.cells l c).writes = (t.cells l c).writes
  cells : ∀ l c, (t.cells l c = t0.cells l c ∧ s.cells l c = s0.cells l c) ∨
    Written caps (t0.cells l c) (t.cells l c) (s.cells l c)

/-- The cursors agree: the grid terminal's `col = cols` is the VT's pending wrap on the last column. -/
structure Cur (t : GridTerm) (s : XScreen) : Prop where
  row : s.row = t.line
  rowIn : 0 ≤ t.line ∧ t.line < s.lines
  col : (s.pending = false ∧ s.col = t.col ∧ 0 ≤ t.col ∧ t.col < t.cols) ∨
    (s.pending = true ∧ t.col = t.cols ∧ s.col = t.cols - 1)
  last : s.last = t.last

/-- The grid terminal that shows what the VT screen `s` shows, with `tt->pen = cache`, behaving as the xterm driver does
    (`erasech(…, MAYBE)` leaves the cursor, `print` goes through `write_str`). -/
def gridOf (s : XScreen) (cache : Pen) : GridTerm :=
  { cells := fun l c => { glyph := (s.cells l c).glyph, pen := {}, writes := (s.cells l c).writes }
    line := s.row, col := s.col, cols := s.cols, last := s.last, pen := cache, viaWriteStr := true }

/-- The simulation starts from any VT screen whose rendition is in step with `tt->pen`. -/
theorem sim_init (caps : TermPen.Caps) (s : XScreen) (cache : Pen) (hl : 0 < s.lines) (hc : 0 < s.cols)
    (hg : s.ps = .ground) (ha : s.attrs = expectAttrs caps cache) (he : PenEncodable caps cache) :
    Sim caps (gridOf s cache) s (gridOf s cache) s :=
  { lines := hl, cols := rfl, cols_pos := hc, ground := hg, attrs := ha, enc := he, oracle := fun _ => rfl,
    writes := fun _ _ => rfl, cells := fun _ _ => Or.inl ⟨rfl, rfl⟩ }

theorem Sim.mono {caps : TermPen.Caps} {t0 t : GridTerm} {s0 s : XScreen} (h : Sim caps t0 s0 t s) (l c : Int) :
    (t0.cells l c).writes ≤ (t.cells l c).writes := by
  rcases h.cells l c with ⟨h1, _⟩ | ⟨h1, _⟩
  · rw [h1]; exact Nat.le_refl _
  · exact Nat.le_of_lt h1

/-! ### goto -/

/-- **goto_sim**: a goto request of the flush (non-negative line and column), read by the VT screen as the bytes of the
    driver's `goto_abs`, does what it does on the grid terminal with `L = s.lines` lines (clamping included), and leaves
    the two cursors in agreement whatever they were before. -/
theorem goto_sim {caps : TermPen.Caps} {t0 t : GridTerm} {s0 s : XScreen} (h : Sim caps t0 s0 t s) (l c : Int)
    (hl : 0 ≤ l) (hc : 0 ≤ c) :
    Sim caps t0 s0 (t.stepL s.lines (.goto l c)) (s.interp (reqCalls caps t.pen (.goto l c)).flatten) ∧
    Cur (t.stepL s.lines (.goto l c)) (s.interp (reqCalls caps t.pen (.goto l c)).flatten) ∧
    (s.interp (reqCalls caps t.pen (.goto l c)).flatten).lines = s.lines := by
  have e : s.interp (reqCalls caps t.pen (.goto l c)).flatten = s.moveTo l c := by
    simp only [reqCalls, call_flatten]
    exact XScreen.interp_gotoAbs s h.ground l c hl hc
  rw [e]
  have hL := h.lines
  have hC := h.cols_pos
  have hcs := h.cols
  refine ⟨?_, ?_, rfl⟩
  · exact { lines := h.lines, cols := h.cols, cols_pos := h.cols_pos, ground := h.ground, attrs := h.attrs, enc := h.enc,
            oracle := h.oracle, writes := h.writes, cells := h.cells }
  · refine { row := rfl, rowIn := ?_, col := ?_, last := rfl }
    · show 0 ≤ max 0 (min l (s.lines - 1)) ∧ max 0 (min l (s.lines - 1)) < s.lines
      omega
    · left
      refine ⟨rfl, ?_, ?_, ?_⟩
      · show max 0 (min c (s.cols - 1)) = max 0 (min c (t.cols - 1))
        rw [hcs]
      · show 0 ≤ max 0 (min c (t.cols - 1))
        omega
      · show max 0 (min c (t.cols - 1)) < t.cols
        omega

end Tickit.RBFlushX
