import Tickit.Proof.RBCopyPrim
/-
  C13: one execution of the (repaired) loop body of `copyrect` on a well-formed destination:
  `savepen; setpen(cell->pen); <draw the piece>; restore`.
-/
namespace Tickit.RBCopy
open Tickit Tickit.RB

/-! ### The pen of the copied piece -/

theorem copyAttr_overwrite_empty {α : Type} (eqv : Option α → Option α → Bool) (src : Option α) :
    Pen.copyAttr eqv true none src = src := by
  unfold Pen.copyAttr; cases src <;> simp

theorem copyAttr_keep {α : Type} (eqv : Option α → Option α → Bool) (dst src : Option α) :
    Pen.copyAttr eqv false dst src = orElse dst src := by
  unfold Pen.copyAttr orElse; cases src <;> cases dst <;> simp

theorem pen_copy_empty (p : Pen) : Pen.copy Pen.empty p true = p := by
  unfold Pen.copy Pen.empty
  simp only [copyAttr_overwrite_empty]

theorem pen_copy_keep (p q : Pen) : Pen.copy p q false = completePen p q := by
  unfold Pen.copy completePen
  simp only [copyAttr_keep]

/-- `savepen; setpen(p)`: the pen is `p` completed from the pen that was current. -/
theorem setpen_savepen_pen (d : RB) (p : Pen) : (setpen (savepen d) (some p)).pen = completePen p d.pen := by
  unfold setpen savepen
  simp only [pen_copy_empty, pen_copy_keep]

/-! ### Wrapping a drawing operation in `savepen; setpen; …; restore` -/

theorem wf_setpen_savepen {d : RB} (hwf : WF d) (p : Option Pen) : WF (setpen (savepen d) p) := by
  refine ⟨hwf.rows, ?_, hwf.clip⟩
  intro l c h0 h1 h2 h3
  have := hwf.mask l c h0 h1 h2 h3
  show -1 ≤ ((d.cells l).get c).maskdepth ∧ ((d.cells l).get c).maskdepth ≤ d.depth + 1
  omega

theorem absContent_setpen_savepen (d : RB) (p : Option Pen) (L C : Int) :
    absContent (setpen (savepen d) p) L C = absContent d L C := rfl

theorem writable_setpen_savepen (d : RB) (p : Option Pen) (L C : Int) :
    writable (setpen (savepen d) p) L C = writable d L C := rfl

/-- `restore` after `savepen` leaves the cells alone: no mask is deeper than the depth restored. -/
theorem restore_cells {d2 : RB} (hs : d2.stack ≠ [])
    (hm : ∀ l c, 0 ≤ l → l < d2.lines → 0 ≤ c → c < d2.cols → ((d2.cells l).get c).maskdepth ≤ d2.depth - 1) :
    ∀ l, (restore d2).cells l = d2.cells l := by
  intro l
  unfold restore
  cases hst : d2.stack with
  | nil => exact absurd hst hs
  | cons f prev =>
    simp only []
    apply Row.ext'
    intro c
    show (if 0 ≤ l ∧ l < d2.lines ∧ 0 ≤ c ∧ c < d2.cols ∧ (d2.cell l c).maskdepth > d2.depth - 1
          then { d2.cell l c with maskdepth := -1 } else d2.cell l c) = (d2.cells l).get c
    by_cases h : 0 ≤ l ∧ l < d2.lines ∧ 0 ≤ c ∧ c < d2.cols ∧ (d2.cell l c).maskdepth > d2.depth - 1
    · have := hm l c h.1 h.2.1 h.2.2.1 h.2.2.2.1
      have h5 := h.2.2.2.2
      unfold RB.cell at h5
      omega
    · rw [if_neg h]; rfl

theorem restore_flags (d : RB) : (restore d).aborted = d.aborted ∧ (restore d).fuelOut = d.fuelOut := by
  unfold restore
  cases d.stack with
  | nil => exact ⟨rfl, rfl⟩
  | cons f prev =>
    simp only []
    cases f.penOnly <;> exact ⟨rfl, rfl⟩

theorem penWrap {dst d2 : RB} (hwf : WF dst) (p : Option Pen) {L0 C0 n : Int} {newc : Int → Content → Content}
    (h : DrawSpec (setpen (savepen dst) p) d2 L0 C0 n newc) : DrawSpec dst (restore d2) L0 C0 n newc := by
  have haux : SameAux (restore d2) dst := sameAux_restore_of_savepen dst d2 p h.aux
  have hl : d2.lines = dst.lines := h.aux.lines
  have hc : d2.cols = dst.cols := h.aux.cols
  have hd : d2.depth = dst.depth + 1 := h.aux.depth
  have hs : d2.stack ≠ [] := by rw [h.aux.stack]; unfold setpen savepen; simp
  have hcells := restore_cells hs (by
    intro l c h0 h1 h2 h3
    rw [hl] at h1; rw [hc] at h3
    rw [h.mask l c h0 h1 h2 h3, hd]
    have := (hwf.mask l c h0 h1 h2 h3).2
    show ((dst.cells l).get c).maskdepth ≤ dst.depth + 1 - 1
    omega)
  refine ⟨haux, ⟨?_, ?_, ?_⟩, ?_, ?_, ?_,
    ⟨(restore_flags d2).1.trans h.flags.1, (restore_flags d2).2.trans h.flags.2⟩⟩
  · intro l h0 h1
    rw [hcells l, haux.cols, ← hc]
    exact h.wf.rows l h0 (by rw [hl, ← haux.lines]; exact h1)
  · intro l c h0 h1 h2 h3
    rw [haux.lines] at h1; rw [haux.cols] at h3
    rw [hcells l, h.mask l c h0 h1 h2 h3, haux.depth]
    exact hwf.mask l c h0 h1 h2 h3
  · rw [haux.clip, haux.lines, haux.cols]; exact hwf.clip
  · intro l c h0 h1 h2 h3
    rw [hcells l]; exact h.mask l c h0 h1 h2 h3
  · intro L C
    have : absContent (restore d2) L C = absContent d2 L C := by
      rw [absContent_eq, absContent_eq, hcells L, haux.lines, haux.cols, hl, hc]
    rw [this, h.content L C]
    rfl
  · intro l c h0 h1 h2 h3 ho hst
    rw [hcells l]; exact h.heads l c h0 h1 h2 h3 ho hst

/-! ### The piece -/

/-- What a destination cell shows after receiving the source content `srcC` (the inner `match` of `copyExpect`). -/
def pieceNew (copySkip : Bool) (cur : Pen) (srcC old : Content) : Content :=
  match srcC with
  | .skip => if copySkip then .skip else old
  | c => transfer cur c old

theorem DrawSpec.newc_congr {rb rb' : RB} {L0 C0 n : Int} {newc newc' : Int → Content → Content}
    (h : DrawSpec rb rb' L0 C0 n newc) (he : ∀ C old, newc C old = newc' C old) : DrawSpec rb rb' L0 C0 n newc' := by
  have : newc = newc' := by funext C old; exact he C old
  rw [← this]; exact h

theorem drawSpec_id {rb : RB} (hwf : WF rb) (L0 C0 n : Int) : DrawSpec rb rb L0 C0 n (fun _ old => old) := by
  refine ⟨SameAux.refl, hwf, fun _ _ _ _ _ _ => rfl, fun L C => ?_, fun _ _ _ _ _ _ _ h => h, ⟨rfl, rfl⟩⟩
  by_cases hc : L = L0 ∧ C0 ≤ C ∧ C < C0 + n ∧ writable rb L C = true
  · rw [if_pos hc]
  · rw [if_neg hc]

/-- One execution of the repaired loop body on a well-formed destination: the writable cells of the destination
    piece receive the content of the source run (pen completed, lines merged); nothing else changes. -/
theorem copyPiece_spec {dst : RB} (hwf : WF dst) (copySkip : Bool) (cell : Cell) (offset cols line col : Int)
    (hnc : cell.state ≠ .cont) (hone : (cell.state = .line ∨ cell.state = .char) → cols = 1) :
    DrawSpec dst (copyPiece true copySkip cell offset cols dst line col) (line + dst.xlLine) (col + dst.xlCol) cols
      (fun C old => pieceNew copySkip dst.pen (cellContent cell (offset + (C - (col + dst.xlCol)))) old) := by
  unfold copyPiece drawPiece dispatch
  cases hst : cell.state with
  | cont => exact absurd hst hnc
  | skip =>
    simp only [ne_eq, not_true_eq_false, if_false]
    cases copySkip with
    | true =>
      simp only [if_true]
      exact (skipRun_spec hwf line col cols).newc_congr (fun C old => by
        unfold pieceNew cellContent; rw [hst]; rfl)
    | false =>
      simp only [Bool.false_eq_true, if_false]
      exact (drawSpec_id hwf _ _ _).newc_congr (fun C old => by
        unfold pieceNew cellContent; rw [hst]; rfl)
  | text =>
    simp only [ne_eq, reduceCtorEq, not_false_eq_true, if_true]
    apply penWrap hwf (some cell.pen)
    have := putStringSlice_spec (wf_setpen_savepen hwf (some cell.pen)) line col cell.text (cell.offs + offset) cols
    exact this.newc_congr (fun C old => by
      unfold pieceNew cellContent transfer; rw [hst, setpen_savepen_pen]
      show Content.text _ _ (cell.offs + offset + (C - (col + dst.xlCol))) = Content.text _ _ (cell.offs + (offset + (C - (col + dst.xlCol))))
      congr 1; omega)
  | erase =>
    simp only [ne_eq, reduceCtorEq, not_false_eq_true, if_true]
    apply penWrap hwf (some cell.pen)
    have := eraseRun_spec (wf_setpen_savepen hwf (some cell.pen)) line col cols
    exact this.newc_congr (fun C old => by
      unfold pieceNew cellContent transfer; rw [hst, setpen_savepen_pen])
  | line =>
    simp only [ne_eq, reduceCtorEq, not_false_eq_true, if_true]
    apply penWrap hwf (some cell.pen)
    have := linecell_spec (wf_setpen_savepen hwf (some cell.pen)) line col cell.lmask
    rw [hone (Or.inl hst)]
    exact this.newc_congr (fun C old => by
      unfold pieceNew cellContent transfer; rw [hst, setpen_savepen_pen])
  | char =>
    simp only [ne_eq, reduceCtorEq, not_false_eq_true, if_true]
    apply penWrap hwf (some cell.pen)
    have := putChar_spec (wf_setpen_savepen hwf (some cell.pen)) line col cell.cp
    rw [hone (Or.inr hst)]
    exact this.newc_congr (fun C old => by
      unfold pieceNew cellContent transfer; rw [hst, setpen_savepen_pen])

end Tickit.RBCopy
