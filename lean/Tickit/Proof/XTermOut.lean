import Tickit.Model.XTermOut
import Tickit.Proof.XTermDrv
import Tickit.Proof.TermBuf
/-
  Helper lemmas for the C09 theorems about the layers around the driver's drawing requests:
   * pause + resume (`suspendBytes`): the pen reset of the pause and the pen re-sent by the resume, interpreted;
   * the output layer of term.c (`Model/XTermOut.lean` over `Model/TermBuf.lean`): every operation is an `Ext`ension
     of (delivered ++ pending) by exactly the bytes the driver model writes, for every buffer size.
-/
namespace Tickit.XTermDrv
open Tickit Tickit.VT

/-! ### The pen cache stays in range -/

theorem cacheOK_empty : CacheOK PenCache.empty := by intro v h; cases h

theorem cacheOK_setpen (caps : Caps) (cache : PenCache) (pen : PenReq) (hok : Spec.PenOK pen) :
    CacheOK (setpen caps cache pen).1 := by
  intro v hv
  simp only [setpen, Option.some.injEq] at hv
  cases hb : pen.bg with
  | none => rw [hb] at hv; simp at hv; omega
  | some b => rw [hb] at hv; simp at hv; subst hv; exact hok b hb

theorem cacheOK_chpen (caps : Caps) (cache : PenCache) (pen : PenReq) (hc : CacheOK cache) (hok : Spec.PenOK pen) :
    CacheOK (chpen caps cache pen).1 := by
  intro v hv
  simp only [chpen] at hv
  split at hv
  · exact hok v hv
  · exact hc v hv

/-! ### pause + resume -/

theorem with_with_bg_rv (vt : VTState) (a c : Int) (b d : Bool) :
    ({ ({ vt with bg := a, rv := b } : VTState) with bg := c, rv := d } : VTState) = { vt with bg := c, rv := d } := rfl

/-- `tickit_term_pause`: the rendition is reset, nothing else. -/
theorem run_pauseBytes (vt : VTState) (hg : vt.ps = .ground) : run pauseBytes vt = { vt with bg := -1, rv := false } :=
  run_sgr_reset vt hg

/-- `tickit_term_pause` followed by `tickit_term_resume` (in a tree whose resume sends the cached pen again): nothing
    but the rendering attributes is touched — in particular not DECLRMM, not the margins, not a cell, not the cursor —
    and afterwards they are the cached pen's again. -/
theorem run_suspendBytes (fx : Fixes) (hfx : fx.resumeResendsPen = true) (caps : Caps) (cache : PenCache)
    (hok : CacheOK cache) (vt : VTState) (hg : vt.ps = .ground) :
    ∃ bg' rv', run (suspendBytes fx caps cache) vt = { vt with bg := bg', rv := rv' } ∧
      Spec.PenInv cache { vt with bg := bg', rv := rv' } := by
  have hr : -1 ≤ cache.bg.getD (-1) ∧ cache.bg.getD (-1) ≤ 255 := by
    cases hb : cache.bg with
    | none => simp
    | some v => simpa using hok v hb
  unfold suspendBytes resumeBytes
  rw [run_append, run_pauseBytes vt hg, if_pos hfx,
    run_chpenBytes _ (show ({ vt with bg := -1, rv := false } : VTState).ps = .ground from hg) caps.colon _ _ _ _ _ hr.1 hr.2]
  by_cases hnil : cache.others = false ∧ cache.bg.isSome = false ∧ cache.rv.isSome = false
  · rw [if_pos hnil]
    refine ⟨-1, false, rfl, ?_, ?_⟩
    · have : cache.rv = none := by simpa using hnil.2.2
      simp [PenCache.reverse, this]
    · intro v hv
      have : cache.bg = none := by simpa using hnil.2.1
      rw [this] at hv; cases hv
  · rw [if_neg hnil]
    cases hnd : cache.nondefault
    · rw [if_pos rfl]
      obtain ⟨n1, n2⟩ := nondefault_false cache.others cache.bg cache.rv hnd
      refine ⟨-1, false, rfl, ?_, ?_⟩
      · simpa [PenCache.reverse] using n2.symm
      · intro v hv; exact (n1 v hv).symm
    · rw [if_neg (by simp)]
      refine ⟨_, _, with_with_bg_rv vt _ _ _ _, ?_, ?_⟩
      · show (if cache.rv.isSome = true then cache.rv.getD false else false) = cache.reverse
        cases hrv : cache.rv <;> simp [PenCache.reverse, hrv]
      · intro v hv
        show (if cache.bg.isSome = true then cache.bg.getD (-1) else -1) = v
        rw [hv]; rfl

end Tickit.XTermDrv

namespace Tickit.XTermOut
open Tickit Tickit.XTermDrv Tickit.TermBuf Tickit.Gen.TermBuf

theorem delivered_eq (o : OutState) : delivered o = stream o.out := by
  unfold delivered stream
  congr 1

/-! ### one operation of the output layer = an extension by exactly the bytes written -/

theorem effective_full (bytes : Bytes) (h : bytes.length ≠ 0) : effective bytes bytes.length = bytes := by
  unfold effective
  rw [if_neg h, List.take_length]

theorem send_ext {o o' : OutState} {bytes : Bytes} (hwf : WF o) (h : send o bytes = .ok o') : Ext o o' bytes := by
  unfold send at h
  by_cases h0 : bytes.length = 0
  · rw [if_pos h0] at h
    injection h with h; subst h
    rw [List.eq_nil_of_length_eq_zero h0]
    exact Ext.refl hwf
  · rw [if_neg h0] at h
    have := writeStr_ext hwf h
    rwa [effective_full bytes h0] at this

theorem send_total {o : OutState} (bytes : Bytes) (hwf : WF o) : ∃ o', send o bytes = .ok o' := by
  unfold send
  by_cases h0 : bytes.length = 0
  · rw [if_pos h0]; exact ⟨o, rfl⟩
  · rw [if_neg h0]
    exact writeStr_total hwf ⟨Nat.le_refl _, fun h => absurd h h0⟩

/-- The modes this engine never touches: cursor visible, main screen. -/
def ModeOK (o : OutState) : Prop := o.mode.cursorvis = true ∧ o.mode.altscreen = false

theorem Ext.modeOK {o o' : OutState} {w : Bytes} (h : Ext o o' w) (hm : ModeOK o) : ModeOK o' := by
  unfold ModeOK; rw [h.mode]; exact hm

theorem teardownBytes_plain (m : Mode) (h1 : m.cursorvis = true) (h2 : m.altscreen = false) :
    teardownBytes m = pauseBytes := by
  unfold teardownBytes
  rw [h1, h2]
  decide

theorem resumeBytes_plain (m : Mode) (h1 : m.cursorvis = true) (h2 : m.altscreen = false) :
    TermBuf.resumeBytes m = [] := by
  unfold TermBuf.resumeBytes
  rw [h1, h2]
  decide

theorem pause_ext {o o' : OutState} (hwf : WF o) (hm : ModeOK o) (h : pause o = .ok o') : Ext o o' pauseBytes := by
  have := termPause_ext hwf h
  rwa [if_pos (by decide : pause_is_teardown = true), teardownBytes_plain o.mode hm.1 hm.2] at this

theorem resume_ext {o o' : OutState} (fx : Fixes) (caps : Caps) (cache : PenCache) (hwf : WF o) (hm : ModeOK o)
    (h : resume fx caps cache o = .ok o') : Ext o o' (XTermDrv.resumeBytes fx caps cache) := by
  unfold resume at h
  obtain ⟨o1, h1, h2⟩ := bind_eq_ok.1 h
  have e1 := termResume_ext hwf h1
  rw [resumeBytes_plain o.mode hm.1 hm.2] at e1
  have e2 := send_ext e1.wf h2
  simpa using Ext.trans e1 e2

theorem suspend_ext {o o' : OutState} (fx : Fixes) (caps : Caps) (cache : PenCache) (hwf : WF o) (hm : ModeOK o)
    (h : (pause o).bind (resume fx caps cache) = .ok o') : Ext o o' (suspendBytes fx caps cache) := by
  obtain ⟨o1, h1, h2⟩ := bind_eq_ok.1 h
  have e1 := pause_ext hwf hm h1
  exact Ext.trans e1 (resume_ext fx caps cache e1.wf (Ext.modeOK e1 hm) h2)

theorem suspend_total {o : OutState} (fx : Fixes) (caps : Caps) (cache : PenCache) (hwf : WF o) :
    ∃ o', (pause o).bind (resume fx caps cache) = .ok o' := by
  obtain ⟨o1, h1⟩ := step_ok (o := .pause) hwf trivial
  have h1' : pause o = .ok o1 := h1
  have e1 := termPause_ext hwf h1'
  obtain ⟨o2, h2⟩ := step_ok (o := .resume) e1.wf trivial
  have h2' : termResume o1 = .ok o2 := h2
  have e2 := termResume_ext e1.wf h2'
  obtain ⟨o3, h3⟩ := send_total (XTermDrv.resumeBytes fx caps cache) e2.wf
  exact ⟨o3, bind_eq_ok.2 ⟨o1, h1', bind_eq_ok.2 ⟨o2, h2', h3⟩⟩⟩

/-! ### histories -/

/-- The bytes operation `x` makes the driver write, in driver state `d` (nothing for a resize). -/
def opBytes (fx : Fixes) (d : Drv) : XTermDrv.Op → Bytes
  | .req q => (request fx d q).2
  | .setpen p => (setpen d.caps d.pen p).2
  | .chpen p => (chpen d.caps d.pen p).2
  | .resize _ _ => []
  | .suspend => suspendBytes fx d.caps d.pen

/-- The driver-side state after operation `x`. -/
def nextDrv (d : Drv) : XTermDrv.Op → Drv
  | .req _ => d
  | .setpen p => { d with pen := (setpen d.caps d.pen p).1 }
  | .chpen p => { d with pen := (chpen d.caps d.pen p).1 }
  | .resize l c => { d with lines := l, cols := c }
  | .suspend => d

theorem stepOp_drv (fx : Fixes) (d : Drv) (vt : VT.VTState) (x : XTermDrv.Op) : (stepOp fx (d, vt) x).1 = nextDrv d x := by
  cases x <;> rfl

def NotResize : XTermDrv.Op → Prop
  | .resize _ _ => False
  | _ => True

theorem stepOp_screen (fx : Fixes) (d : Drv) (vt : VT.VTState) (x : XTermDrv.Op) (h : NotResize x) :
    (stepOp fx (d, vt) x).2 = VT.run (opBytes fx d x) vt := by
  cases x with
  | resize l c => exact absurd h (by simp [NotResize])
  | _ => rfl

def tBytes (fx : Fixes) (d : Drv) : TOp → Bytes
  | .op x => opBytes fx d x
  | .printf s => s
  | .flush => []

def tDrv (d : Drv) : TOp → Drv
  | .op x => nextDrv d x
  | _ => d

/-- Everything a history makes the driver write, in order. -/
def tWritten (fx : Fixes) : Drv → List TOp → Bytes
  | _, [] => []
  | d, t :: ts => tBytes fx d t ++ tWritten fx (tDrv d t) ts

theorem stepT_ext {fx : Fixes} {s s' : TS} {t : TOp} (hwf : WF s.o) (hm : ModeOK s.o) (h : stepT fx s t = some s') :
    s'.d = tDrv s.d t ∧ Ext s.o s'.o (tBytes fx s.d t) := by
  cases t with
  | op x =>
    cases x with
    | req q =>
      simp only [stepT] at h
      split at h
      · rename_i o ho; injection h with h; subst h; exact ⟨rfl, send_ext hwf ho⟩
      · cases h
    | setpen p =>
      simp only [stepT] at h
      split at h
      · rename_i o ho; injection h with h; subst h; exact ⟨rfl, send_ext hwf ho⟩
      · cases h
    | chpen p =>
      simp only [stepT] at h
      split at h
      · rename_i o ho; injection h with h; subst h; exact ⟨rfl, send_ext hwf ho⟩
      · cases h
    | resize l c =>
      simp only [stepT] at h
      injection h with h; subst h
      exact ⟨rfl, Ext.refl hwf⟩
    | suspend =>
      simp only [stepT] at h
      split at h
      · rename_i o ho; injection h with h; subst h; exact ⟨rfl, suspend_ext fx _ _ hwf hm ho⟩
      · cases h
  | printf t =>
    simp only [stepT] at h
    split at h
    · rename_i o ho; injection h with h; subst h; exact ⟨rfl, termVprintf_ext hwf ho⟩
    · cases h
  | flush =>
    simp only [stepT] at h
    injection h with h; subst h
    exact ⟨rfl, flush_ext_wf hwf⟩

theorem stepT_total (fx : Fixes) (s : TS) (t : TOp) (hwf : WF s.o) : ∃ s', stepT fx s t = some s' := by
  cases t with
  | op x =>
    cases x with
    | req q => obtain ⟨o, ho⟩ := send_total (request fx s.d q).2 hwf; exact ⟨_, by simp only [stepT, ho]; rfl⟩
    | setpen p => obtain ⟨o, ho⟩ := send_total (setpen s.d.caps s.d.pen p).2 hwf; exact ⟨_, by simp only [stepT, ho]; rfl⟩
    | chpen p => obtain ⟨o, ho⟩ := send_total (chpen s.d.caps s.d.pen p).2 hwf; exact ⟨_, by simp only [stepT, ho]; rfl⟩
    | resize l c => exact ⟨_, rfl⟩
    | suspend => obtain ⟨o, ho⟩ := suspend_total fx s.d.caps s.d.pen hwf; exact ⟨_, by simp only [stepT, ho]; rfl⟩
  | printf t => obtain ⟨o, ho⟩ := termVprintf_total t hwf; exact ⟨_, by simp only [stepT, printf, ho]; rfl⟩
  | flush => exact ⟨_, rfl⟩

/-- Along any history, for any buffer size: delivered ++ pending grows by exactly what the driver writes, in order;
    the configuration is kept. -/
theorem runT_ext (fx : Fixes) : ∀ (ts : List TOp) (s s' : TS), WF s.o → ModeOK s.o → runT fx s ts = some s' →
    Ext s.o s'.o (tWritten fx s.d ts) ∧ ModeOK s'.o := by
  intro ts
  induction ts with
  | nil =>
    intro s s' hwf hm h
    injection h with h; subst h
    exact ⟨Ext.refl hwf, hm⟩
  | cons t ts ih =>
    intro s s' hwf hm h
    simp only [runT] at h
    split at h
    · rename_i s1 h1
      obtain ⟨hd, e1⟩ := stepT_ext hwf hm h1
      obtain ⟨e2, hm2⟩ := ih s1 s' e1.wf (Ext.modeOK e1 hm) h
      rw [hd] at e2
      exact ⟨Ext.trans e1 e2, hm2⟩
    · cases h

theorem runT_total (fx : Fixes) : ∀ (ts : List TOp) (s : TS), WF s.o → ModeOK s.o → ∃ s', runT fx s ts = some s' := by
  intro ts
  induction ts with
  | nil => intro s _ _; exact ⟨s, rfl⟩
  | cons t ts ih =>
    intro s hwf hm
    obtain ⟨s1, h1⟩ := stepT_total fx s t hwf
    obtain ⟨_, e1⟩ := stepT_ext hwf hm h1
    obtain ⟨s2, h2⟩ := ih s1 e1.wf (Ext.modeOK e1 hm)
    exact ⟨s2, by simp only [runT, h1, h2]⟩

/-- The unbuffered driver model on the same history (without resizes): its screen is the VT interpretation of
    `tWritten`. -/
theorem runOps_written (fx : Fixes) : ∀ (ts : List TOp) (d : Drv) (vt : VT.VTState), (∀ t ∈ ts, ¬ IsResize t) →
    (runOps fx (d, vt) (ts.flatMap plain)).2 = VT.run (tWritten fx d ts) vt := by
  intro ts
  induction ts with
  | nil => intro d vt _; rfl
  | cons t ts ih =>
    intro d vt hnr
    have hts : ∀ t ∈ ts, ¬ IsResize t := fun t ht => hnr t (by simp [ht])
    cases t with
    | op x =>
      have hx : NotResize x := by
        cases x with
        | resize l c => exact absurd (show IsResize (.op (.resize l c)) from trivial) (hnr _ (by simp))
        | _ => trivial
      show (runOps fx (stepOp fx (d, vt) x) (ts.flatMap plain)).2 = _
      have e : stepOp fx (d, vt) x = (nextDrv d x, VT.run (opBytes fx d x) vt) :=
        Prod.ext (stepOp_drv fx d vt x) (stepOp_screen fx d vt x hx)
      rw [e, ih _ _ hts]
      simp only [tWritten, tBytes, tDrv, VT.run_append]
    | printf s =>
      show (runOps fx (stepOp fx (d, vt) (.req (.print s s.length))) (ts.flatMap plain)).2 = _
      have e : stepOp fx (d, vt) (.req (.print s s.length)) = (d, VT.run s vt) := by
        have : XTermDrv.print fx s s.length = s := by
          unfold XTermDrv.print
          by_cases h : s.length = 0
          · rw [List.eq_nil_of_length_eq_zero h]; simp
          · simp [h]
        simp only [stepOp, request, this]
      rw [e, ih _ _ hts]
      simp only [tWritten, tBytes, tDrv, VT.run_append]
    | flush =>
      show (runOps fx (d, vt) (ts.flatMap plain)).2 = _
      rw [ih _ _ hts]
      simp only [tWritten, tBytes, tDrv, List.nil_append]

end Tickit.XTermOut
