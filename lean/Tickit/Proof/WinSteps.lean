import Tickit.Proof.WinLocal
/-
  The invariant steps of `tickit_window_hide` and `tickit_window_show`: the damage they record covers every terminal
  cell whose owner they change.
-/
namespace Tickit
namespace WinFlush
open WinTree WinRB WinSpec

/-- Every owned terminal cell is pending repaint or already right. -/
def InvC (content : Id → Int → Int → Cell) (tree : Tree) (screen : Int → Int → Cell) : Prop :=
  ∀ L C w l c, ownerAt tree L C = some (w, l, c) → Covered tree.root.damage L C ∨ screen L C = content w l c

/-- The root window of a tree in order: window 0, at the origin, a root, without parent, alive. -/
structure RootWin (t : Tree) : Prop where
  ex : ∃ w : Win, t.wins[0]? = some w ∧ w.freed = false ∧ w.isRoot = true ∧ w.parent = none ∧
    w.rect.top = 0 ∧ w.rect.left = 0

/-! ### effect of `set` on the store -/

theorem set_wins_self (t : Tree) (id : Id) (w w' : Win) (h : t.wins[id]? = some w) : (WinTree.set t id w').wins[id]? = some w' := by
  have hlt : id < t.wins.size := by
    apply Classical.byContradiction
    intro hn
    rw [Array.getElem?_eq_none (Nat.le_of_not_lt hn)] at h
    cases h
  simp [WinTree.set, Array.getElem?_setIfInBounds, hlt]

theorem set_wins_other (t : Tree) (id x : Id) (w' : Win) (h : x ≠ id) : (WinTree.set t id w').wins[x]? = t.wins[x]? := by
  simp only [WinTree.set]
  exact Array.getElem?_setIfInBounds_ne (Ne.symm h)

theorem set_size (t : Tree) (id : Id) (w' : Win) : (WinTree.set t id w').wins.size = t.wins.size := by
  simp [WinTree.set]

theorem set_root (t : Tree) (id : Id) (w' : Win) : (WinTree.set t id w').root = t.root := rfl

/-- Replacing a window by one with the same `core` except (for `id` itself) the visibility. -/
theorem sameBut_set (t : Tree) (id x : Id) (w w' : Win) (h : t.wins[x]? = some w)
    (hc : if x = id then coreNoVis w' = coreNoVis w else core w' = core w) : SameBut t (WinTree.set t x w') id := by
  refine ⟨?_, ?_, set_size t x w'⟩
  · intro y hy
    by_cases hyx : y = x
    · subst hyx
      rw [set_wins_self t y w w' h, h]
      simp only [if_neg hy] at hc
      simp [hc]
    · rw [set_wins_other t x y w' hyx]
  · by_cases hxi : x = id
    · subst hxi
      rw [set_wins_self t x w w' h, h]
      simp only [if_true] at hc
      simp [hc]
    · rw [set_wins_other t x id w' (Ne.symm hxi)]

theorem sameBut_refl (t : Tree) (id : Id) : SameBut t t id := ⟨fun _ _ => rfl, rfl, rfl⟩

theorem sameBut_trans {t1 t2 t3 : Tree} {id : Id} (h1 : SameBut t1 t2 id) (h2 : SameBut t2 t3 id) : SameBut t1 t3 id :=
  ⟨fun x hx => (h2.other x hx).trans (h1.other x hx), h2.self.trans h1.self, h2.size.trans h1.size⟩

theorem core_noVis {w w' : Win} (h : core w' = core w) : coreNoVis w' = coreNoVis w := by
  simp only [core, coreNoVis, Prod.mk.injEq] at h ⊢
  exact ⟨h.2.1, h.2.2.1, h.2.2.2.1, h.2.2.2.2.1, h.2.2.2.2.2⟩

/-- What `SameBut` keeps of any window (everything but the visibility). -/
theorem sameBut_noVis {t t' : Tree} {id : Id} (h : SameBut t t' id) (x : Id) :
    (t'.wins[x]?).map coreNoVis = (t.wins[x]?).map coreNoVis := by
  by_cases hx : x = id
  · subst hx; exact h.self
  · have := h.other x hx
    cases h1 : t'.wins[x]? with
    | none =>
      rw [h1] at this
      cases h2 : t.wins[x]? with
      | none => rfl
      | some w => rw [h2] at this; simp at this
    | some w' =>
      rw [h1] at this
      cases h2 : t.wins[x]? with
      | none => rw [h2] at this; simp at this
      | some w =>
        rw [h2] at this
        simp only [Option.map_some, Option.some.injEq] at this ⊢
        exact core_noVis this

theorem noVis_some {a b : Option Win} (h : a.map coreNoVis = b.map coreNoVis) {w : Win} (hb : b = some w) :
    ∃ w', a = some w' ∧ coreNoVis w' = coreNoVis w := by
  subst hb
  cases a with
  | none => simp at h
  | some w' => exact ⟨w', rfl, by simpa using h⟩

theorem wfp_sameBut {t t' : Tree} {id : Id} (h : SameBut t t' id) (hwf : WFp t) : WFp t' := by
  have hsym : ∀ x, (t.wins[x]?).map coreNoVis = (t'.wins[x]?).map coreNoVis := fun x => (sameBut_noVis h x).symm
  constructor
  intro cur w' hw' ch hch
  obtain ⟨w, hw, hc⟩ := noVis_some (hsym cur) hw'
  simp only [coreNoVis, Prod.mk.injEq] at hc
  obtain ⟨cw, hcw, hcp, hcr⟩ := hwf.child cur w hw ch (by rw [hc.2.2.1]; exact hch)
  obtain ⟨cw', hcw', hcc⟩ := noVis_some (sameBut_noVis h ch) hcw
  simp only [coreNoVis, Prod.mk.injEq] at hcc
  exact ⟨cw', hcw', by rw [hcc.2.2.2.1]; exact hcp, by rw [hcc.2.2.2.2]; exact hcr⟩

theorem rootWin_sameBut {t t' : Tree} {id : Id} (h : SameBut t t' id) (hr : RootWin t) : RootWin t' := by
  obtain ⟨w, hw, hf, hroot, hp, htop, hleft⟩ := hr.ex
  obtain ⟨w', hw', hc⟩ := noVis_some (sameBut_noVis h 0) hw
  simp only [coreNoVis, Prod.mk.injEq] at hc
  exact ⟨⟨w', hw', by rw [hc.1]; exact hf, by rw [hc.2.2.2.2]; exact hroot, by rw [hc.2.2.2.1]; exact hp,
    by rw [hc.2.1]; exact htop, by rw [hc.2.1]; exact hleft⟩⟩

theorem wfp_congr {t t' : Tree} (h : t'.wins = t.wins) (hwf : WFp t) : WFp t' := by
  constructor
  intro cur w hw ch hch
  rw [h] at hw
  obtain ⟨cw, hcw, hcp, hcr⟩ := hwf.child cur w hw ch hch
  exact ⟨cw, by rw [h]; exact hcw, hcp, hcr⟩

theorem rootWin_congr {t t' : Tree} (h : t'.wins = t.wins) (hr : RootWin t) : RootWin t' := by
  obtain ⟨w, hw⟩ := hr.ex
  exact ⟨⟨w, by rw [h]; exact hw⟩⟩

/-- A visibility change of a window other than the root keeps the root as it is. -/
theorem rootOk_sameBut {t t' : Tree} {id : Id} (h : SameBut t t' id) (hid : id ≠ 0) (hr : RootOk t) : RootOk t' := by
  obtain ⟨w, hw, hf, hv, htop, hleft⟩ := hr.ex
  obtain ⟨w', hw', hc⟩ := map_core_some (h.other 0 (Ne.symm hid)) hw
  simp only [core, Prod.mk.injEq] at hc
  exact ⟨⟨w', hw', by rw [hc.2.1]; exact hf, by rw [hc.1]; exact hv, by rw [hc.2.2.1]; exact htop, by rw [hc.2.2.1]; exact hleft⟩⟩

/-! ### the common part: a visibility change followed by an expose that covers everything under the window -/

/-- The cells under `id` reached from the root. -/
def UnderRoot (t : Tree) (id : Id) (L C : Int) : Prop := Under t id (t.wins.size + 1) 0 L C

theorem ownerAt_local {t t' : Tree} {id : Id} (h : SameBut t t' id) (L C : Int)
    (hne : ownerAt t' L C ≠ ownerAt t L C) : UnderRoot t' id L C := by
  unfold ownerAt at hne
  rw [h.size] at hne
  unfold UnderRoot
  rw [h.size]
  exact ownerLoc_local h _ 0 L C hne

/-- If the tree changes only in the visibility of `id` (`t` → `t1`) and the damage then grows (`t1` → `t'`) so as to
    cover every cell under `id`, "damaged or already right" is kept. -/
theorem invC_vis_change (content : Id → Int → Int → Cell) (screen : Int → Int → Cell) (t t1 t' : Tree) (id : Id)
    (h : SameBut t t1 id) (hroot : t1.root.damage = t.root.damage) (hw : t'.wins = t1.wins)
    (hgrow : ∀ L C, Covered t1.root.damage L C → Covered t'.root.damage L C)
    (hcov : ∀ L C, UnderRoot t1 id L C → (ownerAt t1 L C).isSome = true → Covered t'.root.damage L C)
    (hinv : InvC content t screen) : InvC content t' screen := by
  intro L C w l c ho
  rw [ownerAt_congr t' t1 hw] at ho
  by_cases heq : ownerAt t1 L C = ownerAt t L C
  · rw [heq] at ho
    rcases hinv L C w l c ho with hc | hc
    · exact Or.inl (hgrow L C (by rw [hroot]; exact hc))
    · exact Or.inr hc
  · exact Or.inl (hcov L C (ownerAt_local h L C heq) (by rw [ho]; rfl))

/-- The context of `id` obtained from the root of a tree in order. -/
theorem underRoot_ctx (t : Tree) (hwf : WFp t) (hr : RootWin t) (id : Id) (L C : Int) (h : UnderRoot t id L C) :
    ∃ (idw : Win) (l' c' : Int) (k' : Nat), t.wins[id]? = some idw ∧ idw.freed = false ∧ idw.isRoot = idw.parent.isNone ∧
      idw.rect.memb l' c' = true ∧ k' ≤ t.wins.size ∧ Ctx t k' idw.parent l' c' L C ∧
      (idw.parent = none → idw.rect.top = 0 ∧ idw.rect.left = 0 ∧ id = 0) := by
  obtain ⟨w, hw, hf, hroot, hp, htop, hleft⟩ := hr.ex
  obtain ⟨idw, l', c', k', h1, h2, h3, h4, h5, h6, h7⟩ :=
    under_ctx t hwf id (t.wins.size + 1) 0 L C 0 L C w hw (by rw [hroot, hp]; rfl) (fun _ => ⟨htop, hleft⟩)
      (by rw [hp]; exact ⟨rfl, rfl⟩) h
  exact ⟨idw, l', c', k', h1, h2, h3, h4, by omega, h6, fun hpn => by
    obtain ⟨a, b, c⟩ := h7 hpn
    exact ⟨a, b, c.symm⟩⟩

/-! ### `tickit_window_hide` -/

theorem hide_step (content : Id → Int → Int → Cell) (screen : Int → Int → Cell) (t t' : Tree) (id : Id)
    (h : WinTree.hide t (t.wins.size + 1) id = .ok t') (hid : id ≠ 0)
    (hwf : WFp t) (hr : RootWin t) (hne : ∀ x ∈ t.root.damage, x.Nonempty) (hpos : RootsPositive t)
    (hinv : InvC content t screen) :
    InvC content t' screen ∧ WFp t' ∧ RootWin t' ∧ (∀ x ∈ t'.root.damage, x.Nonempty) ∧ (RectSet.Inv t.root.damage → RectSet.Inv t'.root.damage) ∧ RootsPositive t' ∧
    t'.wins.size = t.wins.size ∧
    (t'.root = t.root ∨ (t'.root.needsExpose = true ∧ t'.root.needsLater = true ∧ t'.root.changes = t.root.changes)) ∧
    (∃ t1, SameBut t t1 id ∧ t'.wins = t1.wins) := by
  unfold WinTree.hide at h
  simp only [WinTree.modify, bind, Bind.bind] at h
  cases hg : WinTree.get t id with
  | ub e => rw [hg] at h; cases h
  | ok w0 =>
    rw [hg] at h
    have hw0 := get_ok hg
    simp only [pure, Pure.pure] at h
    generalize ht1 : WinTree.set t id { w0 with isVisible := false } = t1 at h
    have hsb1 : SameBut t t1 id := by
      rw [← ht1]
      exact sameBut_set t id id w0 _ hw0.1 (by simp [coreNoVis])
    have hw1 : t1.wins[id]? = some { w0 with isVisible := false } := by
      rw [← ht1]; exact set_wins_self t id w0 _ hw0.1
    have hg1 : WinTree.get t1 id = .ok { w0 with isVisible := false } := by
      unfold WinTree.get; rw [hw1]; simp [hw0.2]
    rw [hg1] at h
    simp only at h
    have hroot1 : t1.root = t.root := by rw [← ht1]; rfl
    -- generic finish given the tree `t2` handed to expose
    have finish : ∀ (t2 : Tree) (p : Id), SameBut t t2 id → t2.root = t.root → w0.parent = some p →
        expose t2 (t.wins.size + 1) p (some w0.rect) = .ok t' →
        (InvC content t' screen ∧ WFp t' ∧ RootWin t' ∧ (∀ x ∈ t'.root.damage, x.Nonempty) ∧ (RectSet.Inv t.root.damage → RectSet.Inv t'.root.damage) ∧ RootsPositive t' ∧
          t'.wins.size = t.wins.size ∧
          (t'.root = t.root ∨ (t'.root.needsExpose = true ∧ t'.root.needsLater = true ∧ t'.root.changes = t.root.changes)) ∧
          (∃ t1, SameBut t t1 id ∧ t'.wins = t1.wins)) := by
      intro t2 p hsb2 hroot2 hp hex
      have hwf2 := wfp_sameBut hsb2 hwf
      have hr2 := rootWin_sameBut hsb2 hr
      have hpos2 : RootsPositive t2 := by
        intro x w hx hxr
        obtain ⟨w', hw', hc⟩ := noVis_some (sameBut_noVis hsb2 x).symm hx
        simp only [coreNoVis, Prod.mk.injEq] at hc
        have := hpos x w' hw' (by rw [hc.2.2.2.2]; exact hxr)
        rw [hc.2.1] at this
        exact this
      obtain ⟨hwins, hne', hdi, hfl, hcov⟩ := expose_spec _ t2 p _ t' hex (by rw [hroot2]; exact hne) hpos2
      have hsz : t2.wins.size = t.wins.size := hsb2.size
      refine ⟨?_, ?_, ?_, hne', (by rw [hroot2] at hdi; exact hdi), ?_, by rw [hwins, hsz], ?_, ⟨t2, hsb2, hwins⟩⟩
      · refine invC_vis_change content screen t t2 t' id hsb2 (by rw [hroot2]) hwins
          (fun L C hc => (hcov L C).2 (Or.inl hc)) ?_ hinv
        intro L C hu _
        apply (hcov L C).2
        right
        obtain ⟨idw, l', c', k', h1, _, _, h4, h5, h6, _⟩ := underRoot_ctx t2 hwf2 hr2 id L C hu
        -- the window in `t2` has the rectangle and parent of `w0`
        obtain ⟨w2, hw2, hc2⟩ := noVis_some (sameBut_noVis hsb2 id) hw0.1
        rw [h1] at hw2
        cases hw2
        simp only [coreNoVis, Prod.mk.injEq] at hc2
        rw [hc2.2.2.2.1, hp] at h6
        simp only [Ctx] at h6
        refine ⟨l', c', fun r hr' => ?_, exposedAt_mono_le t2 (by omega) h6⟩
        cases hr'
        rw [← hc2.2.1]
        exact (memb_true_iff _ _ _).1 h4
      · constructor
        intro cur w hw ch hch
        rw [hwins] at hw
        obtain ⟨cw, hcw, hcp, hcr⟩ := hwf2.child cur w hw ch hch
        exact ⟨cw, by rw [hwins]; exact hcw, hcp, hcr⟩
      · obtain ⟨w, hw⟩ := hr2.ex
        exact ⟨⟨w, by rw [hwins]; exact hw⟩⟩
      · intro x w hx hxr
        rw [hwins] at hx
        exact hpos2 x w hx hxr
      · rcases hfl with rfl | ⟨a, b, c⟩
        · exact Or.inl hroot2
        · exact Or.inr ⟨a, b, by rw [c, hroot2]⟩
    cases hp : w0.parent with
    | none =>
      -- a window without parent other than the root is not in the composition: nothing changes
      simp only [hp] at h
      cases h
      have hwf1 := wfp_sameBut hsb1 hwf
      have hr1 := rootWin_sameBut hsb1 hr
      refine ⟨?_, hwf1, hr1, by rw [hroot1]; exact hne, (by rw [hroot1]; exact fun hi => hi), ?_, hsb1.size, Or.inl hroot1, ⟨t', hsb1, rfl⟩⟩
      · refine invC_vis_change content screen t t' t' id hsb1 (by rw [hroot1]) rfl (fun _ _ hc => hc) ?_ hinv
        intro L C hu _
        obtain ⟨idw, _, _, _, h1, _, _, _, _, _, h7⟩ := underRoot_ctx t' hwf1 hr1 id L C hu
        rw [hw1] at h1
        cases h1
        exact absurd (h7 hp).2.2 hid
      · intro x w hx hxr
        obtain ⟨w', hw', hc⟩ := noVis_some (sameBut_noVis hsb1 x).symm hx
        simp only [coreNoVis, Prod.mk.injEq] at hc
        have := hpos x w' hw' (by rw [hc.2.2.2.2]; exact hxr)
        rw [hc.2.1] at this
        exact this
    | some p =>
      simp only [hp] at h
      cases hgp : WinTree.get t1 p with
      | ub e => rw [hgp] at h; cases h
      | ok pw =>
        rw [hgp] at h
        have hpw := get_ok hgp
        simp only at h
        by_cases hfc : pw.focusedChild = some id
        · simp only [hfc, if_true] at h
          have hsb2 : SameBut t1 (WinTree.set t1 p { pw with focusedChild := none }) id :=
            sameBut_set t1 id p pw _ hpw.1 (by split <;> simp [core, coreNoVis])
          have hsz : t1.wins.size = t.wins.size := hsb1.size
          exact finish _ p (sameBut_trans hsb1 hsb2) (by rw [set_root, hroot1]) hp h
        · simp only [hfc, if_false] at h
          exact finish t1 p hsb1 hroot1 hp h

/-! ### `tickit_window_show` -/

/-- The common finish: the tree `t2` differs from `t` only in the visibility of `id`, and the expose that follows
    reports every cell under `id`. -/
theorem vis_expose_finish (content : Id → Int → Int → Cell) (screen : Int → Int → Cell) (t t2 t' : Tree) (id target : Id)
    (e : Option Rect) (hsb2 : SameBut t t2 id) (hroot2 : t2.root = t.root)
    (hex : expose t2 (t.wins.size + 1) target e = .ok t')
    (hwf : WFp t) (hr : RootWin t) (hne : ∀ x ∈ t.root.damage, x.Nonempty) (hpos : RootsPositive t)
    (hinv : InvC content t screen)
    (hregion : WFp t2 → RootWin t2 → ∀ L C, UnderRoot t2 id L C → ExposedRegion t2 (t.wins.size + 1) target e L C) :
    InvC content t' screen ∧ WFp t' ∧ RootWin t' ∧ (∀ x ∈ t'.root.damage, x.Nonempty) ∧ (RectSet.Inv t.root.damage → RectSet.Inv t'.root.damage) ∧ RootsPositive t' ∧
    t'.wins.size = t.wins.size ∧
    (t'.root = t.root ∨ (t'.root.needsExpose = true ∧ t'.root.needsLater = true ∧ t'.root.changes = t.root.changes)) ∧
    (∃ t1, SameBut t t1 id ∧ t'.wins = t1.wins) := by
  have hwf2 := wfp_sameBut hsb2 hwf
  have hr2 := rootWin_sameBut hsb2 hr
  have hpos2 : RootsPositive t2 := by
    intro x w hx hxr
    obtain ⟨w', hw', hc⟩ := noVis_some (sameBut_noVis hsb2 x).symm hx
    simp only [coreNoVis, Prod.mk.injEq] at hc
    have := hpos x w' hw' (by rw [hc.2.2.2.2]; exact hxr)
    rw [hc.2.1] at this
    exact this
  obtain ⟨hwins, hne', hdi, hfl, hcov⟩ := expose_spec _ t2 target _ t' hex (by rw [hroot2]; exact hne) hpos2
  have hsz : t2.wins.size = t.wins.size := hsb2.size
  refine ⟨?_, ?_, ?_, hne', (by rw [hroot2] at hdi; exact hdi), ?_, by rw [hwins, hsz], ?_, ⟨t2, hsb2, hwins⟩⟩
  · refine invC_vis_change content screen t t2 t' id hsb2 (by rw [hroot2]) hwins
      (fun L C hc => (hcov L C).2 (Or.inl hc)) ?_ hinv
    intro L C hu _
    exact (hcov L C).2 (Or.inr (hregion hwf2 hr2 L C hu))
  · constructor
    intro cur w hw ch hch
    rw [hwins] at hw
    obtain ⟨cw, hcw, hcp, hcr⟩ := hwf2.child cur w hw ch hch
    exact ⟨cw, by rw [hwins]; exact hcw, hcp, hcr⟩
  · obtain ⟨w, hw⟩ := hr2.ex
    exact ⟨⟨w, by rw [hwins]; exact hw⟩⟩
  · intro x w hx hxr
    rw [hwins] at hx
    exact hpos2 x w hx hxr
  · rcases hfl with rfl | ⟨a, b, c⟩
    · exact Or.inl hroot2
    · exact Or.inr ⟨a, b, by rw [c, hroot2]⟩

theorem show_step (content : Id → Int → Int → Cell) (screen : Int → Int → Cell) (t t' : Tree) (id : Id)
    (h : WinTree.show t (t.wins.size + 1) id = .ok t')
    (hwf : WFp t) (hr : RootWin t) (hne : ∀ x ∈ t.root.damage, x.Nonempty) (hpos : RootsPositive t)
    (hinv : InvC content t screen) :
    InvC content t' screen ∧ WFp t' ∧ RootWin t' ∧ (∀ x ∈ t'.root.damage, x.Nonempty) ∧ (RectSet.Inv t.root.damage → RectSet.Inv t'.root.damage) ∧ RootsPositive t' ∧
    t'.wins.size = t.wins.size ∧
    (t'.root = t.root ∨ (t'.root.needsExpose = true ∧ t'.root.needsLater = true ∧ t'.root.changes = t.root.changes)) ∧
    (∃ t1, SameBut t t1 id ∧ t'.wins = t1.wins) := by
  unfold WinTree.show at h
  simp only [WinTree.modify, bind, Bind.bind] at h
  cases hg : WinTree.get t id with
  | ub e => rw [hg] at h; cases h
  | ok w0 =>
    rw [hg] at h
    have hw0 := get_ok hg
    simp only [pure, Pure.pure] at h
    generalize ht1 : WinTree.set t id { w0 with isVisible := true } = t1 at h
    have hsb1 : SameBut t t1 id := by
      rw [← ht1]
      exact sameBut_set t id id w0 _ hw0.1 (by simp [coreNoVis])
    have hw1 : t1.wins[id]? = some { w0 with isVisible := true } := by
      rw [← ht1]; exact set_wins_self t id w0 _ hw0.1
    have hg1 : WinTree.get t1 id = .ok { w0 with isVisible := true } := by
      unfold WinTree.get; rw [hw1]; simp [hw0.2]
    rw [hg1] at h
    simp only at h
    have hroot1 : t1.root = t.root := by rw [← ht1]; rfl
    -- the region of `expose id NULL` in a tree where `id` is visible
    have region : ∀ (t2 : Tree), (∀ w2, t2.wins[id]? = some w2 → w2.isVisible = true) → WFp t2 → RootWin t2 →
        t2.wins.size = t.wins.size →
        ∀ L C, UnderRoot t2 id L C → ExposedRegion t2 (t.wins.size + 1) id none L C := by
      intro t2 hvis hwf2 hr2 hsz L C hu
      obtain ⟨idw, l', c', k', h1, h2, h3, h4, h5, h6, h7⟩ := underRoot_ctx t2 hwf2 hr2 id L C hu
      refine ⟨l' - idw.rect.top, c' - idw.rect.left, ⟨fun r hr' => (by cases hr'), ?_⟩⟩
      apply exposedAt_mono_le t2 (k := k' + 1) (by omega)
      have hmm := (memb_true_iff _ _ _).1 h4
      simp only [ExposedAt]
      refine ⟨idw, h1, h2, ?_, ?_, ?_, ?_, hvis idw h1, ?_⟩
      · simp only [Rect.Mem] at hmm; omega
      · simp only [Rect.Mem, Rect.bottom] at hmm; omega
      · simp only [Rect.Mem] at hmm; omega
      · simp only [Rect.Mem, Rect.right] at hmm; omega
      · cases hp : idw.parent with
        | none =>
          rw [hp] at h3 h6
          simp only [Ctx] at h6
          have := h7 hp
          left
          refine ⟨by simpa using h3, ?_, ?_⟩ <;> omega
        | some p =>
          rw [hp] at h3 h6
          simp only [Ctx] at h6
          right
          refine ⟨by simpa using h3, p, rfl, ?_⟩
          have e1 : l' - idw.rect.top + idw.rect.top = l' := by omega
          have e2 : c' - idw.rect.left + idw.rect.left = c' := by omega
          rw [e1, e2]
          exact h6
    have hvis1 : ∀ w2, t1.wins[id]? = some w2 → w2.isVisible = true := by
      intro w2 hw2; rw [hw1] at hw2; cases hw2; rfl
    cases hp : w0.parent with
    | none =>
      simp only [hp] at h
      exact vis_expose_finish content screen t t1 t' id id none hsb1 hroot1 h hwf hr hne hpos hinv
        (fun hwf2 hr2 => region t1 hvis1 hwf2 hr2 hsb1.size)
    | some p =>
      simp only [hp] at h
      cases hgp : WinTree.get t1 p with
      | ub e => rw [hgp] at h; cases h
      | ok pw =>
        rw [hgp] at h
        have hpw := get_ok hgp
        simp only at h
        split at h
        · -- the parent's focused child is set: nothing the composition reads changes
          have hsb2 : SameBut t1 (WinTree.set t1 p { pw with focusedChild := some id }) id :=
            sameBut_set t1 id p pw _ hpw.1 (by split <;> simp [core, coreNoVis])
          have hvis2 : ∀ w2, (WinTree.set t1 p { pw with focusedChild := some id }).wins[id]? = some w2 → w2.isVisible = true := by
            intro w2 hw2
            by_cases hpi : p = id
            · subst hpi
              rw [set_wins_self t1 p pw _ hpw.1] at hw2
              cases hw2
              rw [hw1] at hpw
              have := hpw.1
              cases this
              rfl
            · rw [set_wins_other t1 p id _ (Ne.symm hpi)] at hw2
              exact hvis1 w2 hw2
          exact vis_expose_finish content screen t _ t' id id none (sameBut_trans hsb1 hsb2) (by rw [set_root, hroot1]) h
            hwf hr hne hpos hinv
            (fun hwf2 hr2 => region _ hvis2 hwf2 hr2 (by rw [set_size]; exact hsb1.size))
        · exact vis_expose_finish content screen t t1 t' id id none hsb1 hroot1 h hwf hr hne hpos hinv
            (fun hwf2 hr2 => region t1 hvis1 hwf2 hr2 hsb1.size)

end WinFlush
end Tickit
