import Tickit.Proof.LifeStep
/-
  C08 proofs, part 7: the pen operations with internal reference traffic — `tickit_pen_set_colour_attr`,
  `tickit_pen_set_colour_attr_desc`, `tickit_pen_copy`, `tickit_pen_copy_attr` with `TICKIT_PEN_ON_CHANGE` handlers
  that take and drop references to pens, `freeze`/`thaw`, `emit_change`.

  The account: a pen's count is the application's references plus the windows holding it plus the references the
  library itself holds at that moment (`e k`: one per `freeze`, one per running `emit_change`, one for the source of
  a running `tickit_pen_copy`).  A pen with `e k ≥ 1` is alive, whatever the handlers drop.
-/
namespace Tickit.Life
open WinTree (Id Win Req Change Tree)
variable {gh : Ghost}

/-- The pens' counts with `e k` references held by the library itself. -/
structure PX (st : St) (e : Nat → Nat) : Prop where
  rc : ∀ (k : Nat) (p : Obj), st.pens[k]? = some p →
    (p.freed = false → p.refcount = (p.appRefs : Int) + (holders st k : Int) + (e k : Int) ∧ 1 ≤ p.refcount) ∧
    (p.freed = true → holders st k = 0 ∧ e k = 0)
  ex : ∀ (k : Nat), st.pens[k]? = none → holders st k = 0 ∧ e k = 0

/-- One more / one less reference of the library on pen `k`. -/
def bump (e : Nat → Nat) (k : Nat) : Nat → Nat := fun j => if j = k then e j + 1 else e j
def unbump (e : Nat → Nat) (k : Nat) : Nat → Nat := fun j => if j = k then e j - 1 else e j

theorem unbump_bump (e : Nat → Nat) (k : Nat) : unbump (bump e k) k = e := by
  funext j; unfold unbump bump; split <;> simp

/-- Only pens (and the log) have changed. -/
structure PenFrame (st st' : St) : Prop where
  tree : st'.tree = st.tree
  wx : st'.wx = st.wx
  strs : st'.strs = st.strs
  rbs : st'.rbs = st.rbs
  term : st'.term = st.term

theorem PenFrame.refl (st : St) : PenFrame st st := ⟨rfl, rfl, rfl, rfl, rfl⟩
theorem PenFrame.trans {a b c : St} (h1 : PenFrame a b) (h2 : PenFrame b c) : PenFrame a c :=
  ⟨h2.tree.trans h1.tree, h2.wx.trans h1.wx, h2.strs.trans h1.strs, h2.rbs.trans h1.rbs, h2.term.trans h1.term⟩

theorem PenFrame.holders {st st' : St} (F : PenFrame st st') (k : Nat) : holders st' k = holders st k :=
  holders_congr F.wx k

theorem PX.live_of_pos {st : St} {e : Nat → Nat} (P : PX st e) {k : Nat} (h : 1 ≤ e k) :
    ∃ p, st.pens[k]? = some p ∧ p.freed = false := by
  cases hp : st.pens[k]? with
  | none => have := (P.ex k hp).2; omega
  | some p =>
    refine ⟨p, rfl, ?_⟩
    cases hf : p.freed with
    | false => rfl
    | true => have := ((P.rc k p hp).2 hf).2; omega

/-- A change of one pen object. -/
theorem PX.set {st : St} {e e' : Nat → Nat} (P : PX st e) {k : Nat} {p p' : Obj} (hk : st.pens[k]? = some p)
    (hother : ∀ j, j ≠ k → e' j = e j)
    (h1 : p'.freed = false → p.freed = false ∧
      p'.refcount - (p'.appRefs : Int) - (e' k : Int) = p.refcount - (p.appRefs : Int) - (e k : Int) ∧ 1 ≤ p'.refcount)
    (h2 : p'.freed = true → holders st k = 0 ∧ e' k = 0) :
    PX { st with pens := st.pens.setIfInBounds k p' } e' := by
  have hlt := pens_size_lt hk
  have hh : ∀ (j : Nat), holders { st with pens := st.pens.setIfInBounds k p' } j = holders st j := fun j => holders_congr rfl j
  refine ⟨?_, ?_⟩
  · intro j q hq
    rw [hh]
    simp only [Array.getElem?_setIfInBounds] at hq
    by_cases hkj : k = j
    · subst hkj
      simp only [if_true, hlt, Option.some.injEq] at hq
      subst hq
      refine ⟨fun hf => ?_, h2⟩
      obtain ⟨hpf, he, hpos⟩ := h1 hf
      have := ((P.rc k p hk).1 hpf).1
      exact ⟨by omega, hpos⟩
    · simp only [hkj, if_false] at hq
      rw [hother j (Ne.symm hkj)]
      exact P.rc j q hq
  · intro j hj
    rw [hh]
    simp only [Array.getElem?_setIfInBounds] at hj
    by_cases hkj : k = j
    · subst hkj; simp [hlt] at hj
    · simp only [hkj, if_false] at hj
      rw [hother j (Ne.symm hkj)]
      exact P.ex j hj

theorem frame_set_pens (st : St) (pens : Array Obj) : PenFrame st { st with pens := pens } := ⟨rfl, rfl, rfl, rfl, rfl⟩

/-- `tickit_pen_ref` by the library on a live pen. -/
theorem penRef_X {st : St} {e : Nat → Nat} (P : PX st e) {k : Nat} {p : Obj} (hp : st.pens[k]? = some p) (hf : p.freed = false) :
    ∃ st', penRef st k = .ok st' ∧ PX st' (bump e k) ∧ PenFrame st st' := by
  unfold penRef
  simp only [hp, hf, Bool.false_eq_true, if_false, pure_ok]
  refine ⟨_, rfl, ?_, frame_set_pens _ _⟩
  refine P.set hp (fun j hj => by simp [bump, hj]) (fun _ => ⟨hf, ?_, ?_⟩) (fun h => by cases h)
  · show p.refcount + 1 - (p.appRefs : Int) - ((bump e k k : Nat) : Int) = _
    simp only [bump, if_true]; omega
  · have := ((P.rc k p hp).1 hf).2
    show 1 ≤ p.refcount + 1
    omega

/-- The reads of a live pen (`penRef … >>= fun _ => pure ()`). -/
theorem penRead_ok {st : St} {k : Nat} {p : Obj} (hp : st.pens[k]? = some p) (hf : p.freed = false) :
    (penRef st k >>= fun _ => (pure () : Out Unit)) = .ok () := by
  unfold penRef
  simp only [hp, hf, Bool.false_eq_true, if_false, pure_ok, bind_ok]

theorem penRead_ok' {st : St} {k : Nat} {p : Obj} (hp : st.pens[k]? = some p) (hf : p.freed = false) :
    (penRef st k >>= fun _ => (Out.ok () : Out Unit)) = .ok () := penRead_ok hp hf

/-- `tickit_pen_unref` by the library of a reference it holds. -/
theorem penUnref_X {st : St} {e : Nat → Nat} (P : PX st e) {k : Nat} (hk : 1 ≤ e k) :
    ∃ st', penUnref st k = .ok st' ∧ PX st' (unbump e k) ∧ PenFrame st st' := by
  obtain ⟨p, hp, hf⟩ := P.live_of_pos hk
  obtain ⟨hrc, hpos⟩ := (P.rc k p hp).1 hf
  unfold penUnref
  have hge : ¬ p.refcount < 1 := by omega
  simp only [hp, hf, Bool.false_eq_true, if_false, hge, pure_ok]
  refine ⟨_, rfl, ?_, frame_set_pens _ _⟩
  refine P.set hp (fun j hj => by simp [unbump, hj]) (fun hfd => ⟨hf, ?_, ?_⟩) (fun hfd => ?_)
  · rw [dropped_refcount, dropped_appRefs]
    simp only [unbump, if_true]; omega
  · rw [dropped_freed] at hfd
    have : p.refcount - 1 ≠ 0 := by simpa using hfd
    rw [dropped_refcount]; omega
  · rw [dropped_freed] at hfd
    have h0 : p.refcount - 1 = 0 := by simpa using hfd
    refine ⟨by omega, ?_⟩
    simp only [unbump, if_true]; omega

/-! ## what a change handler does -/

/-- One call of a handler: skipped, or done with the application's tally and the count moving together. -/
theorem penAct_X {st : St} {e : Nat → Nat} (P : PX st e) (a : PAct) :
    penAct st a = none ∨ ∃ st', penAct st a = some (.ok st') ∧ PX st' e ∧ PenFrame st st' := by
  cases a with
  | unref k =>
    unfold penAct
    by_cases hh : heldP st k = true
    · right
      obtain ⟨p, hp, hf, hpos⟩ := heldP_spec hh
      have hlt := pens_size_lt hp
      obtain ⟨hrc, hp1⟩ := (P.rc k p hp).1 hf
      simp only [hh, if_true, hp, Option.getD_some]
      unfold penUnref
      have hge : ¬ p.refcount < 1 := by omega
      simp only [Array.getElem?_setIfInBounds, if_true, hlt, hf, Bool.false_eq_true, if_false, hge, pure_ok]
      refine ⟨_, rfl, ?_, ⟨rfl, rfl, rfl, rfl, rfl⟩⟩
      rw [Array.setIfInBounds_setIfInBounds]
      refine P.set hp (fun j _ => rfl) (fun hfd => ⟨hf, ?_, ?_⟩) (fun hfd => ?_)
      · rw [dropped_refcount, dropped_appRefs]
        show p.refcount - 1 - ((p.appRefs - 1 : Nat) : Int) - _ = _
        omega
      · rw [dropped_freed] at hfd
        have : p.refcount - 1 ≠ 0 := by simpa using hfd
        rw [dropped_refcount]
        show 1 ≤ p.refcount - 1
        omega
      · rw [dropped_freed] at hfd
        have h0 : p.refcount - 1 = 0 := by simpa using hfd
        have h0' : p.refcount = 1 := by omega
        exact ⟨by omega, by omega⟩
    · left; simp only [hh, Bool.false_eq_true, if_false]
  | ref k =>
    unfold penAct
    by_cases hh : heldP st k = true
    · right
      obtain ⟨p, hp, hf, hpos⟩ := heldP_spec hh
      have hlt := pens_size_lt hp
      obtain ⟨hrc, hp1⟩ := (P.rc k p hp).1 hf
      simp only [hh, if_true, hp, Option.getD_some]
      unfold penRef
      simp only [Array.getElem?_setIfInBounds, if_true, hlt, hf, Bool.false_eq_true, if_false, pure_ok]
      refine ⟨_, rfl, ?_, ⟨rfl, rfl, rfl, rfl, rfl⟩⟩
      rw [Array.setIfInBounds_setIfInBounds]
      refine P.set hp (fun j _ => rfl) (fun _ => ⟨hf, ?_, ?_⟩) (fun h => by cases h)
      · show p.refcount + 1 - ((p.appRefs + 1 : Nat) : Int) - _ = _
        omega
      · show 1 ≤ p.refcount + 1
        omega
    · left; simp only [hh, Bool.false_eq_true, if_false]

theorem runPenActs_X : ∀ (acts : List PAct) {st : St} {e : Nat → Nat}, PX st e →
    ∃ st', runPenActs st acts = .ok st' ∧ PX st' e ∧ PenFrame st st'
  | [], st, e, P => ⟨st, rfl, P, PenFrame.refl st⟩
  | a :: rest, st, e, P => by
    unfold runPenActs
    rcases penAct_X P a with h | ⟨st1, h, P1, F1⟩
    · simp only [h]
      exact runPenActs_X rest P
    · simp only [h, bind_ok]
      obtain ⟨st2, h2, P2, F2⟩ := runPenActs_X rest P1
      exact ⟨st2, h2, P2, F1.trans F2⟩

/-- Changes of the log and of the pens' attribute records do not matter. -/
theorem PX.of_pens_wx {st st' : St} {e : Nat → Nat} (P : PX st e) (hp : st'.pens = st.pens) (hw : st'.wx = st.wx) : PX st' e := by
  refine ⟨?_, ?_⟩
  · intro k p hk; rw [holders_congr hw]; rw [hp] at hk; exact P.rc k p hk
  · intro k hk; rw [holders_congr hw]; rw [hp] at hk; exact P.ex k hk

theorem PX.setPX {st : St} {e : Nat → Nat} (P : PX st e) (k : Nat) (x : PenX) : PX (setPX st k x) e := P.of_pens_wx rfl rfl
theorem frame_setPX (st : St) (k : Nat) (x : PenX) : PenFrame st (setPX st k x) := ⟨rfl, rfl, rfl, rfl, rfl⟩
@[simp] theorem setPX_pens (st : St) (k : Nat) (x : PenX) : (setPX st k x).pens = st.pens := rfl

theorem runPenEvents_go_X (k : Nat) : ∀ (bs : List PBind) {st : St} {e : Nat → Nat}, PX st e →
    ∃ st', runPenEvents.go k st bs = .ok st' ∧ PX st' e ∧ PenFrame st st'
  | [], st, e, P => ⟨st, rfl, P, PenFrame.refl st⟩
  | b :: rest, st, e, P => by
    unfold runPenEvents.go
    have P0 : PX { st with log := st.log ++ [s!"P{k}c"] } e := P.of_pens_wx rfl rfl
    obtain ⟨st1, h1, P1, F1⟩ := runPenActs_X b.acts P0
    simp only [h1, bind_ok]
    obtain ⟨st2, h2, P2, F2⟩ := runPenEvents_go_X k rest P1
    have F0 : PenFrame st { st with log := st.log ++ [s!"P{k}c"] } := ⟨rfl, rfl, rfl, rfl, rfl⟩
    exact ⟨st2, h2, P2, (F0.trans F1).trans F2⟩

/-- `run_events(pen, ON_CHANGE)` while the library holds a reference to the pen. -/
theorem runPenEvents_X {st : St} {e : Nat → Nat} (P : PX st e) {k : Nat} (hk : 1 ≤ e k) :
    ∃ st', runPenEvents st k = .ok st' ∧ PX st' e ∧ PenFrame st st' := by
  obtain ⟨p, hp, hf⟩ := P.live_of_pos hk
  unfold runPenEvents
  simp only [penRead_ok hp hf, bind_ok]
  obtain ⟨st1, h1, P1, F1⟩ := runPenEvents_go_X k (getPX st k).binds P
  simp only [h1, bind_ok]
  obtain ⟨p1, hp1, hf1⟩ := P1.live_of_pos hk
  simp only [penRead_ok hp1 hf1, penRead_ok' hp1 hf1, bind_ok, pure_ok]
  exact ⟨st1, rfl, P1, F1⟩

/-- `emit_change` on a live pen. -/
theorem emitChange_X {st : St} {e : Nat → Nat} (P : PX st e) {k : Nat} {p : Obj} (hp : st.pens[k]? = some p) (hf : p.freed = false) :
    ∃ st', emitChange st k = .ok st' ∧ PX st' e ∧ PenFrame st st' := by
  unfold emitChange
  obtain ⟨st1, h1, P1, F1⟩ := penRef_X P hp hf
  simp only [h1, bind_ok]
  have hk1 : 1 ≤ bump e k k := by simp [bump]
  obtain ⟨st2, h2, P2, F2⟩ := runPenEvents_X P1 hk1
  simp only [h2, bind_ok]
  obtain ⟨st3, h3, P3, F3⟩ := penUnref_X P2 hk1
  rw [unbump_bump] at P3
  exact ⟨st3, h3, P3, (F1.trans F2).trans F3⟩

/-! ## freeze / thaw / changed and the setters -/

theorem setPX_live {st : St} {k j : Nat} {x : PenX} {p : Obj} (hp : st.pens[j]? = some p) : (setPX st k x).pens[j]? = some p := hp

theorem penChanged_X {st : St} {e : Nat → Nat} (P : PX st e) {k : Nat} {p : Obj} (hp : st.pens[k]? = some p) (hf : p.freed = false) :
    ∃ st', penChanged st k = .ok st' ∧ PX st' e ∧ PenFrame st st' := by
  unfold penChanged
  simp only [penRead_ok hp hf, bind_ok]
  split
  · exact emitChange_X P hp hf
  · exact ⟨_, rfl, P.setPX _ _, frame_setPX _ _ _⟩

theorem penFreeze_X {st : St} {e : Nat → Nat} (P : PX st e) {k : Nat} {p : Obj} (hp : st.pens[k]? = some p) (hf : p.freed = false) :
    ∃ st', penFreeze st k = .ok st' ∧ PX st' (bump e k) ∧ PenFrame st st' := by
  unfold penFreeze
  obtain ⟨st1, h1, P1, F1⟩ := penRef_X P hp hf
  simp only [h1, bind_ok, pure_ok]
  exact ⟨_, rfl, P1.setPX _ _, F1.trans (frame_setPX _ _ _)⟩

theorem penThaw_X {st : St} {e : Nat → Nat} (P : PX st e) {k : Nat} (hk : 1 ≤ e k) :
    ∃ st', penThaw st k = .ok st' ∧ PX st' (unbump e k) ∧ PenFrame st st' := by
  obtain ⟨p, hp, hf⟩ := P.live_of_pos hk
  unfold penThaw
  simp only [penRead_ok hp hf, bind_ok]
  generalize hst1 : setPX st k { getPX st k with freeze := (getPX st k).freeze - 1 } = st1
  have P1 : PX st1 e := by rw [← hst1]; exact P.setPX _ _
  have F1 : PenFrame st st1 := by rw [← hst1]; exact frame_setPX _ _ _
  split
  · obtain ⟨st2, h2, P2, F2⟩ := runPenEvents_X (P1.setPX k { getPX st1 k with changed := false }) hk
    simp only [h2, bind_ok]
    obtain ⟨st3, h3, P3, F3⟩ := penUnref_X P2 hk
    exact ⟨st3, h3, P3, ((F1.trans (frame_setPX _ _ _)).trans F2).trans F3⟩
  · simp only [pure_ok, bind_ok]
    obtain ⟨st3, h3, P3, F3⟩ := penUnref_X P1 hk
    exact ⟨st3, h3, P3, F1.trans F3⟩

theorem penSetColour_X {st : St} {e : Nat → Nat} (P : PX st e) {k : Nat} {p : Obj} (hp : st.pens[k]? = some p) (hf : p.freed = false)
    (val : Int) : ∃ st', penSetColour st k val = .ok st' ∧ PX st' e ∧ PenFrame st st' := by
  unfold penSetColour
  simp only [penRead_ok hp hf, bind_ok]
  obtain ⟨st1, h1, P1, F1⟩ := emitChange_X (P.setPX k { getPX st k with fg := some val, rgb := none }) (setPX_live hp) hf
  exact ⟨st1, h1, P1, (frame_setPX _ _ _).trans F1⟩

theorem penSetRgb_X {st : St} {e : Nat → Nat} (P : PX st e) {k : Nat} {p : Obj} (hp : st.pens[k]? = some p) (hf : p.freed = false)
    (rgb : Nat × Nat × Nat) : ∃ st', penSetRgb st k rgb = .ok st' ∧ PX st' e ∧ PenFrame st st' := by
  unfold penSetRgb
  simp only [penRead_ok hp hf, bind_ok]
  split
  · exact ⟨st, rfl, P, PenFrame.refl st⟩
  · obtain ⟨st1, h1, P1, F1⟩ := penChanged_X (P.setPX k { getPX st k with rgb := some rgb }) (setPX_live hp) hf
    exact ⟨st1, h1, P1, (frame_setPX _ _ _).trans F1⟩

theorem bump_self (e : Nat → Nat) (k : Nat) : 1 ≤ bump e k k := by simp [bump]
theorem bump_ge (e : Nat → Nat) (k j : Nat) : e j ≤ bump e k j := by unfold bump; split <;> omega

/-- `tickit_pen_copy_attr(dst, src, FG)`: `src` is read before any handler runs. -/
theorem penCopyAttr_X {st : St} {e : Nat → Nat} (P : PX st e) {dst src : Nat} {pd ps : Obj}
    (hd : st.pens[dst]? = some pd) (hfd : pd.freed = false) (hs : st.pens[src]? = some ps) (hfs : ps.freed = false) :
    ∃ st', penCopyAttr st dst src = .ok st' ∧ PX st' e ∧ PenFrame st st' := by
  unfold penCopyAttr
  simp only [penRead_ok hs hfs, bind_ok]
  obtain ⟨st1, h1, P1, F1⟩ := penFreeze_X P hd hfd
  simp only [h1, bind_ok]
  have hk := bump_self e dst
  obtain ⟨p1, hp1, hf1⟩ := P1.live_of_pos hk
  obtain ⟨st2, h2, P2, F2⟩ := penSetColour_X P1 hp1 hf1 ((getPX st src).fg.getD (-1))
  simp only [h2, bind_ok]
  obtain ⟨p2, hp2, hf2⟩ := P2.live_of_pos hk
  split
  · rename_i rgb _
    obtain ⟨st3, h3, P3, F3⟩ := penSetRgb_X P2 hp2 hf2 rgb
    simp only [h3, bind_ok]
    obtain ⟨st4, h4, P4, F4⟩ := penThaw_X P3 hk
    rw [unbump_bump] at P4
    exact ⟨st4, h4, P4, ((F1.trans F2).trans F3).trans F4⟩
  · simp only [pure_ok, bind_ok]
    obtain ⟨st4, h4, P4, F4⟩ := penThaw_X P2 hk
    rw [unbump_bump] at P4
    exact ⟨st4, h4, P4, (F1.trans F2).trans F4⟩

/-- `tickit_pen_copy(dst, src, overwrite)` after the repair: the source is kept alive while the handlers of the
    destination run. -/
theorem penCopy_X {st : St} {e : Nat → Nat} (P : PX st e) {dst src : Nat} {pd ps : Obj}
    (hd : st.pens[dst]? = some pd) (hfd : pd.freed = false) (hs : st.pens[src]? = some ps) (hfs : ps.freed = false)
    (overwrite : Bool) : ∃ st', penCopy true st dst src overwrite = .ok st' ∧ PX st' e ∧ PenFrame st st' := by
  unfold penCopy
  simp only [if_true]
  obtain ⟨st1, h1, P1, F1⟩ := penRef_X P hs hfs
  simp only [h1, bind_ok]
  have hsrc1 := bump_self e src
  obtain ⟨pd1, hd1, hfd1⟩ : ∃ p, st1.pens[dst]? = some p ∧ p.freed = false := by
    by_cases hsd : dst = src
    · subst hsd; exact P1.live_of_pos hsrc1
    · -- the destination is untouched by the reference taken on the source
      have := penRef_X P hs hfs
      unfold penRef at h1
      simp only [hs, hfs, Bool.false_eq_true, if_false, pure_ok, Out.ok.injEq] at h1
      subst h1
      refine ⟨pd, ?_, hfd⟩
      simp only [Array.getElem?_setIfInBounds]
      have : ¬ src = dst := fun h => hsd h.symm
      simp only [this, if_false]
      exact hd
  obtain ⟨st2, h2, P2, F2⟩ := penFreeze_X P1 hd1 hfd1
  simp only [h2, bind_ok]
  have hdst2 := bump_self (bump e src) dst
  have hsrc2 : 1 ≤ bump (bump e src) dst src := Nat.le_trans hsrc1 (bump_ge _ _ _)
  obtain ⟨ps2, hs2, hfs2⟩ := P2.live_of_pos hsrc2
  obtain ⟨pd2, hd2, hfd2⟩ := P2.live_of_pos hdst2
  simp only [penRead_ok hs2 hfs2, bind_ok]
  -- what follows the middle part, whichever way was taken through it
  have tail : ∀ (st3 : St), PX st3 (bump (bump e src) dst) → PenFrame st2 st3 →
      ∃ st', (do
        let _ ← penRef st3 src >>= fun _ => (pure () : Out Unit)
        let st ← penThaw st3 dst
        penUnref st src) = .ok st' ∧ PX st' e ∧ PenFrame st st' := by
    intro st3 P3 F3
    obtain ⟨ps3, hs3, hfs3⟩ := P3.live_of_pos hsrc2
    simp only [penRead_ok hs3 hfs3, bind_ok]
    obtain ⟨st4, h4, P4, F4⟩ := penThaw_X P3 hdst2
    simp only [h4, bind_ok]
    rw [unbump_bump] at P4
    obtain ⟨st5, h5, P5, F5⟩ := penUnref_X P4 hsrc1
    rw [unbump_bump] at P5
    exact ⟨st5, h5, P5, ((((F1.trans F2).trans F3).trans F4).trans F5)⟩
  split
  · simp only [pure_ok, bind_ok]
    exact tail st2 P2 (PenFrame.refl _)
  · split
    · simp only [pure_ok, bind_ok]
      exact tail st2 P2 (PenFrame.refl _)
    · obtain ⟨st3, h3, P3, F3⟩ := penCopyAttr_X P2 hd2 hfd2 hs2 hfs2
      simp only [h3, bind_ok]
      exact tail st3 P3 F3

/-- `tickit_pen_set_colour_attr_desc` for an accepted description. -/
theorem penSetDesc_X {st : St} {e : Nat → Nat} (P : PX st e) {k : Nat} {p : Obj} (hp : st.pens[k]? = some p) (hf : p.freed = false)
    (desc : List UInt8) :
    penSetDesc st k desc = none ∨ ∃ st' acc, penSetDesc st k desc = some (.ok (st', acc)) ∧ PX st' e ∧ PenFrame st st' := by
  unfold penSetDesc
  split
  · left; rfl
  · right; exact ⟨st, false, rfl, P, PenFrame.refl st⟩
  · right
    rename_i val rgb _
    obtain ⟨st1, h1, P1, F1⟩ := penFreeze_X P hp hf
    simp only [h1, bind_ok]
    have hk := bump_self e k
    obtain ⟨p1, hp1, hf1⟩ := P1.live_of_pos hk
    obtain ⟨st2, h2, P2, F2⟩ := penSetColour_X P1 hp1 hf1 val
    simp only [h2, bind_ok]
    obtain ⟨p2, hp2, hf2⟩ := P2.live_of_pos hk
    cases rgb with
    | some c =>
      obtain ⟨st3, h3, P3, F3⟩ := penSetRgb_X P2 hp2 hf2 c
      simp only [h3, bind_ok]
      obtain ⟨st4, h4, P4, F4⟩ := penThaw_X P3 hk
      rw [unbump_bump] at P4
      simp only [h4, bind_ok, pure_ok]
      exact ⟨st4, true, rfl, P4, ((F1.trans F2).trans F3).trans F4⟩
    | none =>
      simp only [pure_ok, bind_ok]
      obtain ⟨st4, h4, P4, F4⟩ := penThaw_X P2 hk
      rw [unbump_bump] at P4
      simp only [h4, bind_ok]
      exact ⟨st4, true, rfl, P4, (F1.trans F2).trans F4⟩

/-! ## between operations the library holds no reference -/

theorem PX.of_inv {st : St} (inv : SInv gh st) : PX st (fun _ => 0) := by
  refine ⟨?_, ?_⟩
  · intro k p hk
    refine ⟨fun hf => ⟨?_, inv.pens.pos k p hk hf⟩, fun hf => ⟨(inv.pens.rc k p hk).2 hf, rfl⟩⟩
    have := (inv.pens.rc k p hk).1 hf
    simp only [Int.ofNat_zero, Int.add_zero]; exact this
  · intro k hk; exact ⟨inv.pens.ex k hk, rfl⟩

theorem SInv.of_PX {st st' : St} (inv : SInv gh st) (F : PenFrame st st') (P : PX st' (fun _ => 0)) : SInv gh st' := by
  have hg : ∀ j, getX st' j = getX st j := fun j => by unfold getX; rw [F.wx]
  refine ⟨⟨by rw [F.tree]; exact inv.tinv, by rw [F.wx, F.tree]; exact inv.wx_size, by rw [F.tree]; exact inv.rc,
    List.nodup_nil, by intro i hi; simp at hi, ?_, ⟨?_, ?_, ?_⟩, ?_, ?_, ?_,
    ⟨by rw [F.rbs]; exact inv.simple.1, by rw [F.strs]; exact inv.simple.2⟩⟩, ?_, by rw [F.tree]; exact inv.glive⟩
  · intro i w hw hf hi; rw [hg]; rw [F.tree] at hw; exact inv.dead_pen i w hw hf hi
  · intro k p hk
    refine ⟨fun hf => ?_, fun hf => ((P.rc k p hk).2 hf).1⟩
    have := ((P.rc k p hk).1 hf).1
    simpa using this
  · intro k hk; exact (P.ex k hk).1
  · intro k p hk hf; exact ((P.rc k p hk).1 hf).2
  · rw [F.term, F.tree]; exact inv.term_held
  · rw [F.term, F.tree]; exact inv.term_free
  · rw [F.term, F.tree]; exact inv.term_dead
  · intro j w hl; rw [hg]; rw [F.tree] at hl; exact inv.wref j w hl

/-! ## the operations -/

/-- Every pen operation with change events keeps the invariant and never fails: whatever the handlers take and
    drop, the library's own references keep alive what it goes on using. -/
theorem step_pen_ok {cfg : Cfg} (R : Repaired cfg) {st : St} (inv : SInv gh st) (op : Op) (hp : op.penEvent = true) :
    ∃ st' r, step cfg st op = .ok (st', r) ∧ SInv gh st' ∧ st'.wx = st.wx := by
  have P0 := PX.of_inv inv
  cases op <;> simp only [Op.penEvent, Bool.false_eq_true] at hp <;> unfold step
  case pset k val =>
    by_cases hh : heldP st k = true
    · obtain ⟨p, hpk, hf, _⟩ := heldP_spec hh
      simp only [hh, Bool.not_true, Bool.false_eq_true, if_false]
      obtain ⟨st1, h1, P1, F1⟩ := penSetColour_X P0 hpk hf val
      simp only [okR, h1, bind_ok, pure_ok]
      exact ⟨_, _, rfl, inv.of_PX F1 P1, F1.wx⟩
    · simp only [hh, Bool.not_false, if_true, skipR, pure_ok]; exact ⟨_, _, rfl, inv, rfl⟩
  case pdesc k desc =>
    by_cases hh : heldP st k = true
    · obtain ⟨p, hpk, hf, _⟩ := heldP_spec hh
      simp only [hh, Bool.not_true, Bool.false_eq_true, if_false]
      rcases penSetDesc_X P0 hpk hf desc with h | ⟨st1, acc, h1, P1, F1⟩
      · simp only [h, pure_ok]; exact ⟨_, _, rfl, inv, rfl⟩
      · simp only [h1, bind_ok, pure_ok]
        exact ⟨_, _, rfl, inv.of_PX F1 P1, F1.wx⟩
    · simp only [hh, Bool.not_false, if_true, skipR, pure_ok]; exact ⟨_, _, rfl, inv, rfl⟩
  case pcopy d s ow =>
    by_cases hh : (!heldP st d || !heldP st s) = true
    · simp only [hh, if_true, skipR, pure_ok]; exact ⟨_, _, rfl, inv, rfl⟩
    · simp only [hh, Bool.false_eq_true, if_false]
      have hd : heldP st d = true := by
        cases h : heldP st d with
        | true => rfl
        | false => simp [h] at hh
      have hs : heldP st s = true := by
        cases h : heldP st s with
        | true => rfl
        | false => simp [h] at hh
      obtain ⟨pd, hpd, hfd, _⟩ := heldP_spec hd
      obtain ⟨ps, hps, hfs, _⟩ := heldP_spec hs
      rw [R.penCopyKeepsSrc]
      obtain ⟨st1, h1, P1, F1⟩ := penCopy_X P0 hpd hfd hps hfs ow
      simp only [okR, h1, bind_ok, pure_ok]
      exact ⟨_, _, rfl, inv.of_PX F1 P1, F1.wx⟩
  case pcopyattr d s =>
    by_cases hh : (!heldP st d || !heldP st s) = true
    · simp only [hh, if_true, skipR, pure_ok]; exact ⟨_, _, rfl, inv, rfl⟩
    · simp only [hh, Bool.false_eq_true, if_false]
      have hd : heldP st d = true := by
        cases h : heldP st d with
        | true => rfl
        | false => simp [h] at hh
      have hs : heldP st s = true := by
        cases h : heldP st s with
        | true => rfl
        | false => simp [h] at hh
      obtain ⟨pd, hpd, hfd, _⟩ := heldP_spec hd
      obtain ⟨ps, hps, hfs, _⟩ := heldP_spec hs
      obtain ⟨st1, h1, P1, F1⟩ := penCopyAttr_X P0 hpd hfd hps hfs
      simp only [okR, h1, bind_ok, pure_ok]
      exact ⟨_, _, rfl, inv.of_PX F1 P1, F1.wx⟩
  case pbind k acts =>
    by_cases hh : heldP st k = true
    · simp only [hh, Bool.not_true, Bool.false_eq_true, if_false, pure_ok]
      exact ⟨_, _, rfl, inv.of_PX (frame_setPX _ _ _) (P0.setPX _ _), rfl⟩
    · simp only [hh, Bool.not_false, if_true, skipR, pure_ok]; exact ⟨_, _, rfl, inv, rfl⟩
  case punbind k id =>
    by_cases hh : heldP st k = true
    · simp only [hh, Bool.not_true, Bool.false_eq_true, if_false, pure_ok]
      exact ⟨_, _, rfl, inv.of_PX (frame_setPX _ _ _) (P0.setPX _ _), rfl⟩
    · simp only [hh, Bool.not_false, if_true, skipR, pure_ok]; exact ⟨_, _, rfl, inv, rfl⟩

end Tickit.Life
